import Asts.Proofs.SY_b_Revs

/-! `truncateF` (`truncateHistory`): a structured twin `truncDeletes` (the revisions for which a Delete call is issued,
    in order), the lemma that the model's string log is its rendering, and the structural facts behind C13. -/
namespace Asts.SYb
open Asts

/-! ## `foldOk` -/

theorem foldOk_stuck {α β} (xs : List α) (b : β) (f : β → α → β × Bool) :
    xs.foldl (fun (acc : β × Bool) x => if acc.2 then f acc.1 x else acc) (b, false) = (b, false) := by
  induction xs with
  | nil => rfl
  | cons x xs ih => simpa using ih

theorem foldOk_nil {α β} (b : β) (f : β → α → β × Bool) : foldOk [] b f = (b, true) := rfl

theorem foldOk_cons {α β} (x : α) (xs : List α) (b : β) (f : β → α → β × Bool) :
    foldOk (x :: xs) b f = if (f b x).2 then foldOk xs (f b x).1 f else ((f b x).1, false) := by
  unfold foldOk
  rw [List.foldl_cons]
  simp only [if_true]
  cases h : (f b x).2
  · have : f b x = ((f b x).1, false) := by rw [← h]
    rw [this, foldOk_stuck]; simp
  · have : f b x = ((f b x).1, true) := by rw [← h]
    rw [this]; simp

/-! ## the delete loop -/

/-- the log entry of a Delete call -/
def delKey (r : Rev) : String := s!"delete:rev:{r.name}"

/-- does the Delete call for `r` fail (injected fault, or nothing of that name is stored: NotFound)? -/
def delFails (plan : List Fault) (s : RevSt) (r : Rev) : Bool :=
  (s.tr.call plan (delKey r)).2.isSome || !(s.store.any (·.name == r.name))

/-- one iteration of the loop in `truncateHistory` -/
def delStep (plan : List Fault) (s : RevSt) (r : Rev) : RevSt × Bool :=
  if delFails plan s r then ({ s with tr := (s.tr.call plan (delKey r)).1 }, false)
  else ({ store := s.store.filter (·.name != r.name), tr := (s.tr.call plan (delKey r)).1 }, true)

/-- structured twin of the loop: the revisions for which a Delete call is issued, in order (a failed call is the last) -/
def delCalls (plan : List Fault) : List Rev → RevSt → List Rev
  | [], _ => []
  | r :: rs, s => if (delStep plan s r).2 then r :: delCalls plan rs (delStep plan s r).1 else [r]

theorem delStep_log (plan : List Fault) (s : RevSt) (r : Rev) :
    (delStep plan s r).1.tr.log = s.tr.log ++ [delKey r] := by
  unfold delStep
  cases delFails plan s r <;> simp [Tr.call]

theorem delStep_ok_iff (plan : List Fault) (s : RevSt) (r : Rev) :
    (delStep plan s r).2 = !delFails plan s r := by
  unfold delStep
  cases delFails plan s r <;> simp

theorem delStep_store_ok {plan : List Fault} {s : RevSt} {r : Rev} (h : (delStep plan s r).2 = true) :
    (delStep plan s r).1.store = s.store.filter (fun x => x.name != r.name) ∧ (∃ x ∈ s.store, x.name = r.name) ∧
    (plan.find? (fun f => f.key == delKey r && f.occ == (s.tr.log.filter (· == delKey r)).length)) = none := by
  rw [delStep_ok_iff] at h
  have hf : delFails plan s r = false := by simpa using h
  refine ⟨by unfold delStep; rw [hf]; rfl, ?_, ?_⟩
  · unfold delFails at hf
    simp only [Bool.or_eq_false_iff] at hf
    simpa using hf.2
  · unfold delFails at hf
    simp only [Bool.or_eq_false_iff, Tr.call] at hf
    simpa using hf.1

theorem delStep_store_fail {plan : List Fault} {s : RevSt} {r : Rev} (h : (delStep plan s r).2 = false) :
    (delStep plan s r).1.store = s.store := by
  rw [delStep_ok_iff] at h
  have hf : delFails plan s r = true := by simpa using h
  unfold delStep; rw [hf]; rfl

/-- what the loop does, in terms of the twin -/
theorem foldOk_del (plan : List Fault) (vs : List Rev) (s : RevSt) :
    let res := foldOk vs s (delStep plan)
    let calls := delCalls plan vs s
    res.1.tr.log = s.tr.log ++ calls.map delKey ∧
    calls <+: vs ∧
    (res.2 = true → calls = vs) ∧
    (∃ d, d ≤ calls.length ∧ calls.length ≤ d + 1 ∧ (res.2 = true → d = calls.length) ∧
          (res.2 = false → d + 1 = calls.length) ∧
          res.1.store = s.store.filter (fun x => !((calls.take d).map (·.name)).contains x.name)) := by
  induction vs generalizing s with
  | nil =>
    refine ⟨by simp [foldOk_nil, delCalls], by simp [delCalls], by simp [delCalls], 0, by simp [foldOk_nil, delCalls]⟩
  | cons r rs ih =>
    simp only [foldOk_cons, delCalls]
    cases hok : (delStep plan s r).2
    · simp only [Bool.false_eq_true, if_false]
      refine ⟨by rw [delStep_log]; rfl, ⟨rs, rfl⟩, by simp, 0, by simp, by simp, by simp, by simp, ?_⟩
      rw [delStep_store_fail hok]; simp
    · simp only [if_true]
      obtain ⟨h1, h2, h3, d, hd1, hd2, hd3, hd4, hd5⟩ := ih (delStep plan s r).1
      refine ⟨?_, ?_, ?_, d + 1, ?_, ?_, ?_, ?_, ?_⟩
      · rw [h1, delStep_log]; simp
      · exact (List.prefix_cons_inj r).mpr h2
      · intro h; rw [h3 h]
      · simpa using hd1
      · simpa using hd2
      · intro h; simp [hd3 h]
      · intro h; simp [hd4 h]
      · rw [hd5, (delStep_store_ok hok).1, List.filter_filter]
        apply List.filter_congr
        intro x _
        simp only [List.take_succ_cons, List.map_cons, List.contains_cons]
        cases hx : x.name == r.name
        · have : (x.name != r.name) = true := by simp [bne, hx]
          simp [this]
        · have : (x.name != r.name) = false := by simp [bne, hx]
          simp [this]

/-- on success every victim was present when its Delete was issued -/
theorem foldOk_del_present (plan : List Fault) (vs : List Rev) (s : RevSt) (hok : (foldOk vs s (delStep plan)).2 = true)
    (hn : (vs.map (·.name)).Nodup) : ∀ v ∈ vs, ∃ x ∈ s.store, x.name = v.name := by
  induction vs generalizing s with
  | nil => simp
  | cons r rs ih =>
    rw [foldOk_cons] at hok
    rw [List.map_cons, List.nodup_cons] at hn
    cases h1 : (delStep plan s r).2
    · rw [h1] at hok; simp at hok
    · rw [h1] at hok; simp only [if_true] at hok
      intro v hv
      rcases List.mem_cons.mp hv with rfl | hv
      · exact (delStep_store_ok h1).2.1
      · obtain ⟨x, hx, hxe⟩ := ih _ hok hn.2 v hv
        rw [(delStep_store_ok h1).1, List.mem_filter] at hx
        exact ⟨x, hx.1, hxe⟩

/-! ## `truncateF` -/

/-- the names the reconcile treats as live -/
def liveOf (podRevs : List String) (cur upd : Rev) : List String := cur.name :: upd.name :: podRevs

/-- the unused revisions of this set among `revs`, in the order of `revs` -/
def historyOf (podRevs : List String) (revs : List Rev) (cur upd : Rev) : List Rev :=
  revs.filter (fun r => !(liveOf podRevs cur upd).contains r.name && r.owner == .self)

/-- the revisions `truncateHistory` intends to delete -/
def victimsOf (lim : Int) (podRevs : List String) (revs : List Rev) (cur upd : Rev) : List Rev :=
  (historyOf podRevs revs cur upd).take ((historyOf podRevs revs cur upd).length - lim.toNat)

/-- structured twin of `truncateF`: the revisions for which a Delete call is issued, in order -/
def truncDeletes (plan : List Fault) (limit : Option Int) (podRevs : List String) (revs : List Rev) (cur upd : Rev)
    (s : RevSt) : List Rev :=
  match limit with
  | none => []
  | some lim =>
    if ((historyOf podRevs revs cur upd).length : Int) ≤ lim then []
    else delCalls plan (victimsOf lim podRevs revs cur upd) s

theorem truncateF_some (plan : List Fault) (lim : Int) (podRevs : List String) (revs : List Rev) (cur upd : Rev) (s : RevSt) :
    truncateF plan (some lim) podRevs revs cur upd s =
      if ((historyOf podRevs revs cur upd).length : Int) ≤ lim then (s, .ok)
      else ((foldOk (victimsOf lim podRevs revs cur upd) s (delStep plan)).1,
            if (foldOk (victimsOf lim podRevs revs cur upd) s (delStep plan)).2 then .ok else .err) := rfl

theorem truncateF_none (plan : List Fault) (podRevs : List String) (revs : List Rev) (cur upd : Rev) (s : RevSt) :
    truncateF plan none podRevs revs cur upd s = (s, .panic "nil *Spec.RevisionHistoryLimit (stateful_set_control.go)") := rfl

/-- the model's string log is the rendering of the structured one -/
theorem truncateF_log (plan : List Fault) (limit : Option Int) (podRevs : List String) (revs : List Rev) (cur upd : Rev)
    (s : RevSt) :
    (truncateF plan limit podRevs revs cur upd s).1.tr.log =
      s.tr.log ++ (truncDeletes plan limit podRevs revs cur upd s).map delKey := by
  cases limit with
  | none => simp [truncateF_none, truncDeletes]
  | some lim =>
    rw [truncateF_some]
    unfold truncDeletes
    simp only
    split
    · simp
    · exact (foldOk_del plan _ s).1

theorem truncDeletes_prefix_victims (plan : List Fault) (lim : Int) (podRevs : List String) (revs : List Rev) (cur upd : Rev)
    (s : RevSt) : truncDeletes plan (some lim) podRevs revs cur upd s <+: victimsOf lim podRevs revs cur upd := by
  unfold truncDeletes
  simp only
  split
  · exact List.nil_prefix
  · exact (foldOk_del plan _ s).2.1

theorem victims_prefix_history (lim : Int) (podRevs : List String) (revs : List Rev) (cur upd : Rev) :
    victimsOf lim podRevs revs cur upd <+: historyOf podRevs revs cur upd := List.take_prefix _ _

theorem mem_historyOf {podRevs : List String} {revs : List Rev} {cur upd r : Rev} :
    r ∈ historyOf podRevs revs cur upd ↔ r ∈ revs ∧ r.owner = .self ∧ r.name ∉ cur.name :: upd.name :: podRevs := by
  unfold historyOf liveOf
  rw [List.mem_filter]
  simp only [Bool.and_eq_true, Bool.not_eq_true', beq_iff_eq]
  constructor
  · rintro ⟨h1, h2, h3⟩
    exact ⟨h1, h3, by simpa using h2⟩
  · rintro ⟨h1, h2, h3⟩
    exact ⟨h1, by simpa using h3, h2⟩

theorem historyOf_names_nodup {podRevs : List String} {revs : List Rev} {cur upd : Rev} (hn : (revs.map (·.name)).Nodup) :
    ((historyOf podRevs revs cur upd).map (·.name)).Nodup :=
  List.Nodup.sublist (List.Sublist.map _ List.filter_sublist) hn

theorem historyOf_sorted {podRevs : List String} {revs : List Rev} {cur upd : Rev} (hs : SortedRevs revs) :
    SortedRevs (historyOf podRevs revs cur upd) :=
  List.Pairwise.sublist List.filter_sublist hs

/-- in a list, an element of a prefix that is followed by a non-member of the prefix: the pairwise relation applies -/
theorem prefix_pairwise {α} {R : α → α → Prop} {p l : List α} (hp : p <+: l) (hl : l.Pairwise R)
    {v r : α} (hv : v ∈ p) (hr : r ∈ l) (hrn : r ∉ p) : R v r := by
  obtain ⟨t, rfl⟩ := hp
  rw [List.pairwise_append] at hl
  rcases List.mem_append.mp hr with h | h
  · exact absurd h hrn
  · exact hl.2.2 v hv r h

/-- without `Nodup`: positions. An element of the prefix and an element of the rest. -/
theorem prefix_pairwise' {α} {R : α → α → Prop} {p t : List α} (hl : (p ++ t).Pairwise R)
    {v r : α} (hv : v ∈ p) (hr : r ∈ t) : R v r := by
  rw [List.pairwise_append] at hl
  exact hl.2.2 v hv r hr

/-- the store after `truncateF` and its outcome, in terms of the twin -/
theorem truncateF_result (plan : List Fault) (lim : Int) (podRevs : List String) (revs : List Rev) (cur upd : Rev) (s : RevSt) :
    let res := truncateF plan (some lim) podRevs revs cur upd s
    let calls := truncDeletes plan (some lim) podRevs revs cur upd s
    (res.2 = .ok ∨ res.2 = .err) ∧
    (res.2 = .ok → calls = if ((historyOf podRevs revs cur upd).length : Int) ≤ lim then [] else victimsOf lim podRevs revs cur upd) ∧
    (∃ d, d ≤ calls.length ∧ calls.length ≤ d + 1 ∧ (res.2 = .ok → d = calls.length) ∧
          (res.2 = .err → d + 1 = calls.length) ∧
          res.1.store = s.store.filter (fun x => !((calls.take d).map (·.name)).contains x.name)) := by
  intro res calls
  by_cases hle : ((historyOf podRevs revs cur upd).length : Int) ≤ lim
  · have hres : res = (s, .ok) := by simp only [res, truncateF_some, if_pos hle]
    have hcalls : calls = [] := by simp only [calls, truncDeletes, if_pos hle]
    rw [hres, hcalls]
    refine ⟨Or.inl rfl, fun _ => by rw [if_pos hle], 0, by simp, by simp, by simp, by simp, by simp⟩
  · have hres : res = ((foldOk (victimsOf lim podRevs revs cur upd) s (delStep plan)).1,
            if (foldOk (victimsOf lim podRevs revs cur upd) s (delStep plan)).2 then .ok else .err) := by
      simp only [res, truncateF_some, if_neg hle]
    have hcalls : calls = delCalls plan (victimsOf lim podRevs revs cur upd) s := by
      simp only [calls, truncDeletes, if_neg hle]
    obtain ⟨_, _, h3, d, hd1, hd2, hd3, hd4, hd5⟩ := foldOk_del plan (victimsOf lim podRevs revs cur upd) s
    rw [hres, hcalls, if_neg hle]
    cases hok : (foldOk (victimsOf lim podRevs revs cur upd) s (delStep plan)).2
    · refine ⟨Or.inr (by simp), by simp, d, hd1, hd2, by simp, fun _ => hd4 hok, hd5⟩
    · refine ⟨Or.inl (by simp), fun _ => h3 hok, d, hd1, hd2, fun _ => hd3 hok, by simp, hd5⟩

/-! ## consequences -/

theorem truncDeletes_prefix_history (plan : List Fault) (limit : Option Int) (podRevs : List String) (revs : List Rev)
    (cur upd : Rev) (s : RevSt) :
    truncDeletes plan limit podRevs revs cur upd s <+: historyOf podRevs revs cur upd := by
  cases limit with
  | none => exact List.nil_prefix
  | some lim => exact (truncDeletes_prefix_victims plan lim podRevs revs cur upd s).trans (victims_prefix_history _ _ _ _ _)

theorem truncDeletes_mem {plan : List Fault} {limit : Option Int} {podRevs : List String} {revs : List Rev}
    {cur upd : Rev} {s : RevSt} {r : Rev} (h : r ∈ truncDeletes plan limit podRevs revs cur upd s) :
    r ∈ revs ∧ r.owner = .self ∧ r.name ∉ cur.name :: upd.name :: podRevs :=
  mem_historyOf.mp ((truncDeletes_prefix_history plan limit podRevs revs cur upd s).subset h)

theorem truncDeletes_names_nodup {plan : List Fault} {limit : Option Int} {podRevs : List String} {revs : List Rev}
    {cur upd : Rev} {s : RevSt} (hn : (revs.map (·.name)).Nodup) :
    ((truncDeletes plan limit podRevs revs cur upd s).map (·.name)).Nodup :=
  List.Nodup.sublist (List.Sublist.map _ (truncDeletes_prefix_history plan limit podRevs revs cur upd s).sublist)
    (historyOf_names_nodup hn)

theorem victimsOf_length (lim : Int) (podRevs : List String) (revs : List Rev) (cur upd : Rev) :
    (victimsOf lim podRevs revs cur upd).length = (historyOf podRevs revs cur upd).length - lim.toNat := by
  unfold victimsOf
  rw [List.length_take]
  omega

theorem truncDeletes_length_le (plan : List Fault) (lim : Int) (podRevs : List String) (revs : List Rev)
    (cur upd : Rev) (s : RevSt) :
    (truncDeletes plan (some lim) podRevs revs cur upd s).length ≤ (historyOf podRevs revs cur upd).length - lim.toNat := by
  rw [← victimsOf_length]
  exact (truncDeletes_prefix_victims plan lim podRevs revs cur upd s).length_le

theorem truncDeletes_ne_nil {plan : List Fault} {limit : Option Int} {podRevs : List String} {revs : List Rev}
    {cur upd : Rev} {s : RevSt} (h : truncDeletes plan limit podRevs revs cur upd s ≠ []) :
    ∃ lim, limit = some lim ∧ lim < ((historyOf podRevs revs cur upd).length : Int) := by
  cases limit with
  | none => exact absurd rfl h
  | some lim =>
    refine ⟨lim, rfl, ?_⟩
    by_contra hle
    apply h
    unfold truncDeletes
    simp only
    rw [if_pos (not_lt.mp hle)]

/-- at most `N.length` elements of a list with distinct names carry a name from `N` -/
theorem count_names_le {l : List Rev} (hn : (l.map (·.name)).Nodup) (N : List String) :
    (l.filter (fun x => N.contains x.name)).length ≤ N.length := by
  have h1 : ((l.filter (fun x => N.contains x.name)).map (·.name)).Nodup :=
    List.Nodup.sublist (List.Sublist.map _ List.filter_sublist) hn
  have h2 : (l.filter (fun x => N.contains x.name)).map (·.name) ⊆ N := by
    intro n hn'
    obtain ⟨x, hx, rfl⟩ := List.mem_map.mp hn'
    rw [List.mem_filter] at hx
    simpa using hx.2
  have := (List.Nodup.subperm h1 h2).length_le
  simpa using this

/-- after a successful `truncateF` at most `lim` (at least 0) of the history revisions are still stored -/
theorem truncateF_ok_left (plan : List Fault) (lim : Int) (podRevs : List String) (revs : List Rev) (cur upd : Rev) (s : RevSt)
    (hstore : (s.store.map (·.name)).Nodup)
    (hok : (truncateF plan (some lim) podRevs revs cur upd s).2 = .ok) :
    ((truncateF plan (some lim) podRevs revs cur upd s).1.store.filter
        (fun x => ((historyOf podRevs revs cur upd).map (·.name)).contains x.name)).length ≤ lim.toNat := by
  obtain ⟨_, hcalls, d, _, _, hd3, _, hst⟩ := truncateF_result plan lim podRevs revs cur upd s
  have hd := hd3 hok
  have hc := hcalls hok
  rw [hst, hd, List.take_length, hc]
  by_cases hle : ((historyOf podRevs revs cur upd).length : Int) ≤ lim
  · rw [if_pos hle]
    simp only [List.map_nil, List.contains_nil, Bool.not_false, List.filter_true]
    have := count_names_le hstore ((historyOf podRevs revs cur upd).map (·.name))
    rw [List.length_map] at this
    omega
  · rw [if_neg hle, List.filter_filter]
    set H := historyOf podRevs revs cur upd with hH
    set k := H.length - lim.toNat with hk
    have hsplit : H = victimsOf lim podRevs revs cur upd ++ H.drop k := by
      unfold victimsOf; rw [← hH, ← hk]; exact (List.take_append_drop k H).symm
    have hsub : ∀ x : Rev,
        (((H.map (·.name)).contains x.name && !((victimsOf lim podRevs revs cur upd).map (·.name)).contains x.name) = true) →
        (((H.drop k).map (·.name)).contains x.name = true) := by
      intro x hx
      simp only [Bool.and_eq_true, List.contains_iff_mem, Bool.not_eq_true', ← Bool.not_eq_true] at hx
      obtain ⟨h1, h2⟩ := hx
      rw [hsplit, List.map_append, List.mem_append] at h1
      rcases h1 with h1 | h1
      · exact absurd h1 h2
      · simpa using h1
    have hmono : (s.store.filter (fun a => ((H.map (·.name)).contains a.name &&
          !((victimsOf lim podRevs revs cur upd).map (·.name)).contains a.name))).length ≤
        (s.store.filter (fun x => ((H.drop k).map (·.name)).contains x.name)).length := by
      apply List.Sublist.length_le
      apply List.monotone_filter_right
      exact hsub
    have := count_names_le hstore ((H.drop k).map (·.name))
    rw [List.length_map, List.length_drop] at this
    omega

/-- the victims are the oldest: no surviving history revision is strictly older than a deleted one -/
theorem truncDeletes_oldest {plan : List Fault} {limit : Option Int} {podRevs : List String} {revs : List Rev}
    {cur upd : Rev} {s : RevSt} (hs : SortedRevs revs) {v r : Rev}
    (hv : v ∈ truncDeletes plan limit podRevs revs cur upd s) (hr : r ∈ historyOf podRevs revs cur upd)
    (hrn : r ∉ truncDeletes plan limit podRevs revs cur upd s) : revLt r v = false :=
  prefix_pairwise (R := fun a b => revLt b a = false) (truncDeletes_prefix_history plan limit podRevs revs cur upd s)
    (historyOf_sorted hs) hv hr hrn

/-- … and with distinct names they are strictly older than every survivor -/
theorem truncDeletes_oldest_strict {plan : List Fault} {limit : Option Int} {podRevs : List String} {revs : List Rev}
    {cur upd : Rev} {s : RevSt} (hs : SortedRevs revs) (hn : (revs.map (·.name)).Nodup) {v r : Rev}
    (hv : v ∈ truncDeletes plan limit podRevs revs cur upd s) (hr : r ∈ historyOf podRevs revs cur upd)
    (hrn : r ∉ truncDeletes plan limit podRevs revs cur upd s) : revLt v r = true :=
  prefix_pairwise (R := fun a b => revLt a b = true) (truncDeletes_prefix_history plan limit podRevs revs cur upd s)
    (sorted_strict (historyOf_sorted hs) (historyOf_names_nodup hn)) hv hr hrn

/-- the store only shrinks, and only by names for which a Delete was issued -/
theorem truncateF_store (plan : List Fault) (limit : Option Int) (podRevs : List String) (revs : List Rev) (cur upd : Rev)
    (s : RevSt) :
    (truncateF plan limit podRevs revs cur upd s).1.store.Sublist s.store ∧
    ∀ x ∈ s.store, x.name ∉ (truncDeletes plan limit podRevs revs cur upd s).map (·.name) →
      x ∈ (truncateF plan limit podRevs revs cur upd s).1.store := by
  cases limit with
  | none => rw [truncateF_none]; exact ⟨List.Sublist.refl _, fun x hx _ => hx⟩
  | some lim =>
    obtain ⟨_, _, d, _, _, _, _, hst⟩ := truncateF_result plan lim podRevs revs cur upd s
    rw [hst]
    refine ⟨List.filter_sublist, ?_⟩
    intro x hx hxn
    rw [List.mem_filter]
    refine ⟨hx, ?_⟩
    simp only [Bool.not_eq_true', ← Bool.not_eq_true, List.contains_iff_mem]
    intro hmem
    apply hxn
    obtain ⟨y, hy, hye⟩ := List.mem_map.mp hmem
    exact List.mem_map.mpr ⟨y, List.mem_of_mem_take hy, hye⟩

/-- never loses a live revision: whatever is named by `cur`, `upd` or a pod label is still stored afterwards -/
theorem truncateF_keeps_live (plan : List Fault) (limit : Option Int) (podRevs : List String) (revs : List Rev) (cur upd : Rev)
    (s : RevSt) {x : Rev} (hx : x ∈ s.store) (hlive : x.name ∈ cur.name :: upd.name :: podRevs) :
    x ∈ (truncateF plan limit podRevs revs cur upd s).1.store := by
  apply (truncateF_store plan limit podRevs revs cur upd s).2 x hx
  intro hmem
  obtain ⟨y, hy, hye⟩ := List.mem_map.mp hmem
  exact (truncDeletes_mem hy).2.2 (hye ▸ hlive)

/-- … nor one that is not this set's, or not listed -/
theorem truncateF_keeps_foreign (plan : List Fault) (limit : Option Int) (podRevs : List String) (revs : List Rev) (cur upd : Rev)
    (s : RevSt) {x : Rev} (hx : x ∈ s.store) (hf : ∀ r ∈ revs, r.name = x.name → r.owner ≠ .self) :
    x ∈ (truncateF plan limit podRevs revs cur upd s).1.store := by
  apply (truncateF_store plan limit podRevs revs cur upd s).2 x hx
  intro hmem
  obtain ⟨y, hy, hye⟩ := List.mem_map.mp hmem
  exact hf y (truncDeletes_mem hy).1 hye (truncDeletes_mem hy).2.1

end Asts.SYb
