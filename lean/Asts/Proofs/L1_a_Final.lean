import Asts.Proofs.L1_a_Readings
import Mathlib.Tactic

/-! # Versions of the C04 / C03 / C01(d) theorems under exactly the run-time preconditions of the monitor
    (`monitorRc` in `Asts/Driver/Reconcile.lean`), and the observed form of `slot_k_only`. -/
namespace Asts
open List

theorem created_of_wf {pods : List Pod} (h : wfSnapshot pods = true) : pods.all Pod.created = true := by
  unfold wfSnapshot at h
  rw [Bool.and_eq_true] at h
  exact h.1

theorem C04_holds_monitor (v : SetView) (cur upd : String) (pods : List Pod) (f : Faults)
    (hwf : wfSnapshot pods = true) (hpos : pods.map Pod.id = List.range pods.length) (hlen : pods.length ≤ freshId) :
    C04 v pods (observe (updateStatefulSet v cur upd pods f).1.acts) = true :=
  C04_holds_gen v cur upd pods f (created_of_wf hwf) (idsOk_of_positions hpos hlen)

theorem C03_holds_monitor (v : SetView) (cur upd : String) (pods : List Pod) (f : Faults)
    (hpos : pods.map Pod.id = List.range pods.length) (hlen : pods.length ≤ freshId) :
    C03 v upd pods (observe (updateStatefulSet v cur upd pods f).1.acts)
      ((updateStatefulSet v cur upd pods f).2 == .ok) = true :=
  C03_holds_gen v cur upd pods f (idsOk_of_positions hpos hlen)

theorem creates_only_desired_prop (v : SetView) (cur upd : String) (pods : List Pod) (f : Faults) {o : Int} {rev : String}
    (h : Action.create o rev ∈ (updateStatefulSet v cur upd pods f).1.acts) : o ∈ desired (replicasOf v) v.slots :=
  (uss_seg v cur upd pods f).create_mem h

theorem slot_k_only_observed (v : SetView) (cur upd : String) (pods : List Pod) (f : Faults) (r k : Int) (S : List Int)
    (hr : v.replicas = some (r - 1)) (h1 : 1 ≤ r) (hs : v.slots = k :: S) (hk : k ∈ desired r S)
    (hdel : v.deleting = false) (hperm : (pods.map Pod.ord).Perm (desired r S))
    (hgood : ∀ p ∈ pods, p.healthy = true ∧ p.rev = upd ∧ p.idOk = true ∧ p.stOk = true) (hids : IdsOk pods) :
    ∃ pk ∈ pods, pk.ord = k ∧
      observe (updateStatefulSet v cur upd pods f).1.acts = [.delete k (some pk.id)] ∧
      (f.hit 1 k = false → (updateStatefulSet v cur upd pods f).2 = .ok) := by
  obtain ⟨-, pk, hpk, hpko, hacts, hout⟩ := slot_k_only_model v cur upd pods f r k S hr h1 hs hk hdel hperm hgood
  exact ⟨pk, hpk, hpko, by rw [hacts]; exact observe_single_delete hids hpk k _, hout⟩

/-! ### every desired ordinal is below `r + |slots|` -/

theorem length_insertSorted_le (x : Int) (l : List Int) : (insertSorted x l).length ≤ l.length + 1 := by
  induction l with
  | nil => simp [insertSorted]
  | cons a as ih =>
    unfold insertSorted
    split_ifs <;> simp <;> omega

theorem length_dedupSort_le (l : List Int) : (dedupSort l).length ≤ l.length := by
  induction l with
  | nil => simp [dedupSort]
  | cons a as ih =>
    have := length_insertSorted_le a (dedupSort as)
    simp only [dedupSort, List.foldr_cons, List.length_cons] at *
    omega

theorem desired_lt_bound (r : Int) (S : List Int) (h0 : 0 ≤ r) : ∀ o ∈ desired r S, o < r + S.length := by
  intro o ho
  rw [← podOrdinals_eq_desired r S h0] at ho
  obtain ⟨hb, hE⟩ := extend_spec (sorted_dedupSort S) r h0
  have hin := mem_idx (b := (maxReplicaAndSlots r S).1) (E := (maxReplicaAndSlots r S).2) (by simpa [podOrdinals] using ho)
  simp only [inRange, Bool.and_eq_true, decide_eq_true_eq] at hin
  have h1 : (extend r (dedupSort S)).2.length ≤ (dedupSort S).length := by
    rw [hE]; exact List.length_filter_le _ _
  have h2 := length_dedupSort_le S
  have : (maxReplicaAndSlots r S).1 = (extend r (dedupSort S)).1 := rfl
  omega

end Asts
