import Asts.Proofs.C02_LActs
import Asts.Proofs.L1_c_Bounds

/-! C02, legacy boundary mode: `status.currentReplicas` after a reconcile in which the update walk took a pod down at
    ordinal `t` is at most `t` (when the current and the update revision differ) — so the vacancy it leaves is refilled at
    the update revision. -/
namespace Asts.C02p
open Asts Asts.L1c

/-! ### the counter through the loops (no faults) -/

theorem replicaLoop_par_cur (v : SetView) (cur upd : String) (reps : List (Int × Pod))
    (hq : ∀ ip ∈ reps, ip.2.created = false → ip.2.terminating = false) (s s' : St) (reps' : List (Int × Pod))
    (h : replicaLoop v cur upd [] false s reps = (.next s', reps')) :
    s'.status.current = s.status.current - cnt (countedAt cur) (reps.map (·.2)) + cnt (liveAt cur) (reps'.map (·.2)) := by
  induction reps generalizing s reps' with
  | nil =>
    simp only [replicaLoop, Prod.mk.injEq, Ctl.next.injEq] at h
    obtain ⟨rfl, rfl⟩ := h
    simp [cnt]
  | cons ip rest ih =>
    obtain ⟨i, q⟩ := ip
    unfold replicaLoop at h
    cases hstep : replicaStep v cur upd [] false s i q with
    | mk c p' =>
      rw [hstep] at h
      cases c with
      | done s1 o => simp at h
      | next s1 =>
        simp only at h
        cases hrest : replicaLoop v cur upd [] false s1 rest with
        | mk c2 rest' =>
          rw [hrest] at h
          simp only [Prod.mk.injEq] at h
          obtain ⟨rfl, rfl⟩ := h
          have ih' := ih (fun ip hip => hq ip (List.mem_cons_of_mem _ hip)) s1 rest' hrest
          have hq0 := hq (i, q) List.mem_cons_self
          simp only [List.map_cons, cnt_cons_ind]
          rw [ih']
          have key : s1.status.current = s.status.current - ind (countedAt cur q) + ind (liveAt cur p') := by
            rcases replicaStep_good v cur upd [] false s i q s1 p' (Or.inl hstep) with
              ⟨hfs, rfl, rfl⟩ | ⟨hfs, hcr, rfl, rfl⟩ | ⟨hfs, hcr, rfl, hs1⟩
            · have := ctr_stepReplace true v cur upd s i q
              simp only [ctr, revK, if_true] at this
              rw [this]
              have hc : q.created = true := fs_created hfs
              have e1 : countedAt cur q = liveAt cur q := by simp [countedAt, liveAt, hc]
              have e2 : liveAt cur (newPod v cur upd i) = ((newPod v cur upd i).rev == cur) := by simp [liveAt, newPod]
              rw [e1, e2]
            · have := ctr_stepCreate true cur upd s i p'
              simp only [ctr, revK, if_true] at this
              rw [this]
              have e1 : countedAt cur p' = false := by simp [countedAt, hcr]
              have hnt : p'.terminating = false := hq0 hcr
              have e2 : liveAt cur p' = (p'.rev == cur) := by simp [liveAt, hnt]
              rw [e1, e2]; simp [ind]
            · have hst : s1.status = s.status := by rcases hs1 with rfl | rfl <;> rfl
              rw [hst]
              have e1 : countedAt cur p' = liveAt cur p' := by simp [countedAt, liveAt, hcr]
              rw [e1]; omega
          rw [key]; omega

theorem condemnedLoop_par_cur (cur upd : String) (fu : Option Pod) (cs : List Pod) (s s' : St)
    (h : condemnedLoop cur upd [] false fu s cs = .next s') :
    s'.status.current = s.status.current - cnt (liveAt cur) cs := by
  induction cs generalizing s with
  | nil =>
    simp only [condemnedLoop, Ctl.next.injEq] at h
    rw [← h]; simp [cnt]
  | cons c rest ih =>
    unfold condemnedLoop at h
    by_cases ht : c.terminating = true
    · simp only [ht, if_true, Bool.false_eq_true, if_false] at h
      rw [ih s h, cnt_cons_ind]
      simp [liveAt, ht, ind]
    · have ht' : c.terminating = false := by simpa using ht
      simp only [ht', Bool.false_eq_true, if_false, Bool.and_false, Bool.false_and, hit_nil] at h
      rw [ih _ h, cnt_cons_ind]
      simp only [bump_current]
      simp only [liveAt, ht', Bool.not_false, Bool.true_and, ind]
      split_ifs <;> omega

/-- the walk's effect on the counter -/
def tgtDelta (cur : String) : Option (Int × Pod) → Int
  | some (_, q) => ind (q.rev == cur)
  | none => 0

theorem updateWalk_nil_cur (cur upd : String) (l : List (Int × Pod)) (s : St) :
    (updateWalk cur upd [] s l).1.status.current = s.status.current - tgtDelta cur (walkFind upd l) := by
  induction l with
  | nil => simp [updateWalk, walkFind, tgtDelta]
  | cons ip rest ih =>
    obtain ⟨t, p⟩ := ip
    unfold updateWalk walkFind
    by_cases h1 : (p.rev != upd && !p.terminating) = true
    · simp only [h1, if_true, tgtDelta, ind]
      split_ifs <;> simp
    · simp only [h1, Bool.false_eq_true, if_false]
      by_cases h2 : (!p.healthy) = true
      · simp only [h2, if_true, tgtDelta]; omega
      · simp only [h2, Bool.false_eq_true, if_false]
        exact ih

theorem updateStage_nil_cur (v : SetView) (cur upd : String) (reps : List (Int × Pod)) (s : St) :
    (updateStage v cur upd [] reps s).1.status.current = s.status.current - tgtDelta cur (walkTarget v upd reps) := by
  unfold updateStage walkTarget
  split_ifs
  · simp [tgtDelta]
  · exact updateWalk_nil_cur cur upd _ s

/-! ### what the walk has passed is at the update revision -/

theorem walkFind_split {upd : String} {l : List (Int × Pod)} {x : Int × Pod} (h : walkFind upd l = some x) :
    ∃ pre post, l = pre ++ x :: post ∧ (∀ y ∈ pre, y.2.rev = upd) ∧ x.2.rev ≠ upd ∧ x.2.terminating = false := by
  induction l with
  | nil => cases h
  | cons ip rest ih =>
    obtain ⟨t, p⟩ := ip
    unfold walkFind at h
    split_ifs at h with h1 h2
    · simp only [Option.some.injEq] at h
      subst h
      simp only [Bool.and_eq_true, bne_iff_ne, ne_eq, Bool.not_eq_true'] at h1
      exact ⟨[], rest, rfl, by simp, h1.1, h1.2⟩
    · obtain ⟨pre, post, hl, hpre, hx⟩ := ih h
      refine ⟨(t, p) :: pre, post, by rw [hl]; rfl, ?_, hx⟩
      intro y hy
      rcases List.mem_cons.1 hy with rfl | hy
      · -- passed: healthy, hence not terminating, hence at the update revision
        have hh : p.healthy = true := by simpa using h2
        have hnt := (healthy_facts hh).2.1
        simp only [hnt, Bool.not_false, Bool.and_true, bne_iff_ne, ne_eq, Decidable.not_not] at h1
        exact h1
      · exact hpre y hy

/-- ascending keys in `[lo, t)`: at most `t - lo` of them -/
theorem length_le_of_keys (l : List (Int × Pod)) (hs : (l.map (·.1)).Pairwise (· < ·)) (lo t : Int) (hlt : lo ≤ t)
    (h0 : ∀ ip ∈ l, lo ≤ ip.1) (ht : ∀ ip ∈ l, ip.1 < t) : (l.length : Int) ≤ t - lo := by
  induction l generalizing lo with
  | nil => simp; omega
  | cons a rest ih =>
    rw [List.map_cons, List.pairwise_cons] at hs
    have ha0 := h0 a List.mem_cons_self
    have hat := ht a List.mem_cons_self
    have := ih hs.2 (a.1 + 1) (by omega)
      (fun ip hip => by have := hs.1 ip.1 (List.mem_map.2 ⟨ip, hip, rfl⟩); omega)
      (fun ip hip => ht ip (List.mem_cons_of_mem _ hip))
    simp only [List.length_cons, Nat.cast_add, Nat.cast_one]
    omega

end Asts.C02p

namespace Asts.C02p
open Asts Asts.L1c

/-- **the list-level bound**: over slots with ascending nonnegative ordinals, when the walk (partition 0) takes down the pod
    at `t`, the pods still counted at the current revision are all below `t` -/
theorem walk_bound_list (v : SetView) (cur upd : String) (R : List (Int × Pod)) (hpart : partOf v = 0)
    (hs : (R.map (·.1)).Pairwise (· < ·)) (h0 : ∀ ip ∈ R, 0 ≤ ip.1) {t : Int} {q : Pod}
    (ht : walkTarget v upd R = some (t, q)) (hne : cur ≠ upd) :
    cnt (liveAt cur) (R.map (·.2)) - tgtDelta cur (some (t, q)) ≤ t := by
  unfold walkTarget at ht
  split_ifs at ht
  unfold walkList at ht
  have hfilt : R.filter (fun ip => partOf v ≤ ip.1) = R := by
    rw [List.filter_eq_self]
    intro ip hip
    rw [hpart]
    simpa using h0 ip hip
  rw [hfilt] at ht
  obtain ⟨pre, post, hl, hpre, _, _⟩ := walkFind_split ht
  have hR : R = post.reverse ++ (t, q) :: pre.reverse := by
    have := congrArg List.reverse hl
    simpa using this
  have hpre0 : cnt (liveAt cur) (pre.reverse.map (·.2)) = 0 := by
    have : ∀ p ∈ pre.reverse.map (·.2), liveAt cur p = false := by
      intro p hp
      rw [List.mem_map] at hp
      obtain ⟨y, hy, rfl⟩ := hp
      have := hpre y (List.mem_reverse.1 hy)
      simp only [liveAt, this, Bool.and_eq_false_iff, beq_eq_false_iff_ne, ne_eq]
      right; exact fun h => hne h.symm
    unfold cnt
    rw [List.countP_eq_zero.2 (fun p hp => by simp [this p hp])]
    rfl
  have ht0 : 0 ≤ t := h0 (t, q) (by rw [hR]; simp)
  have hpostlen : (post.reverse.length : Int) ≤ t := by
    have hs' := hs
    rw [hR, List.map_append, List.pairwise_append] at hs'
    have := length_le_of_keys post.reverse hs'.1 0 t ht0
      (fun ip hip => h0 ip (by rw [hR]; exact List.mem_append_left _ hip))
      (fun ip hip => hs'.2.2 ip.1 (List.mem_map.2 ⟨ip, hip, rfl⟩) t (by simp))
    omega
  have hpostcnt : cnt (liveAt cur) (post.reverse.map (·.2)) ≤ t := by
    have := cnt_le_length (liveAt cur) (post.reverse.map (·.2))
    rw [List.length_map] at this
    omega
  rw [hR, List.map_append, cnt_append, List.map_cons, cnt_cons_ind, hpre0]
  have hq : ind (liveAt cur q) ≤ ind (q.rev == cur) := by
    unfold liveAt ind
    cases q.terminating <;> cases (q.rev == cur) <;> simp
  simp only [tgtDelta]
  omega

/-- the census, split into the slots and the pods outside the desired set -/
theorem census_split_le {setName : String} {P : List CPod} (hc : PodsCtx setName P) (v : SetView) (cur upd : String)
    (b : Int) (E : List Int) (hb0 : 0 ≤ b) (hE : ∀ e ∈ E, 0 ≤ e) :
    cnt (countedAt cur) (P.map (·.pod)) ≤
      cnt (countedAt cur) ((repsOf v cur upd b E (P.map (·.pod))).map (·.2)) +
      cnt (liveAt cur) (condemnedOf b E (P.map (·.pod))).reverse := by
  have hsplit : cnt (countedAt cur) (P.map (·.pod)) =
      cnt (countedAt cur) ((P.map (·.pod)).filter (fun p => inRange b E p.ord)) +
      cnt (countedAt cur) ((P.map (·.pod)).filter (fun p => !inRange b E p.ord)) := by
    rw [← cnt_append]
    exact cnt_perm (List.filter_append_perm _ _).symm
  have hnd : (P.map (·.pod)).Nodup := by
    have := hc.ordNodup
    exact List.Nodup.of_map _ this
  have h1 : cnt (countedAt cur) ((P.map (·.pod)).filter (fun p => inRange b E p.ord)) ≤
      cnt (countedAt cur) ((repsOf v cur upd b E (P.map (·.pod))).map (·.2)) := by
    rw [cnt_eq_filter_length, cnt_eq_filter_length]
    have hnd' : (((P.map (·.pod)).filter (fun p => inRange b E p.ord)).filter (countedAt cur)).Nodup := (hnd.filter _).filter _
    have hsub : ((P.map (·.pod)).filter (fun p => inRange b E p.ord)).filter (countedAt cur) ⊆
        ((repsOf v cur upd b E (P.map (·.pod))).map (·.2)).filter (countedAt cur) := by
      intro p hp
      rw [List.mem_filter, List.mem_filter, List.mem_map] at hp
      obtain ⟨⟨⟨c, hcm, rfl⟩, hr⟩, hq⟩ := hp
      rw [List.mem_filter, List.mem_map]
      refine ⟨⟨(c.pod.ord, c.pod), mem_repsOf.2 ⟨hr, by simp [hc.slot_of_mem hcm hr]⟩, rfl⟩, hq⟩
    exact_mod_cast (List.subperm_of_subset hnd' hsub).length_le
  have h2 : cnt (countedAt cur) ((P.map (·.pod)).filter (fun p => !inRange b E p.ord)) ≤
      cnt (liveAt cur) (condemnedOf b E (P.map (·.pod))).reverse := by
    rw [cnt_perm (List.reverse_perm _), cnt_perm (L1c.condemnedOf_perm b E _)]
    have hfe : (P.map (·.pod)).filter (fun p => !inRange b E p.ord) = (P.map (·.pod)).filter (fun p => isCondemned b E p.ord) := by
      apply List.filter_congr
      intro p hp
      rw [List.mem_map] at hp
      obtain ⟨c, hcm, rfl⟩ := hp
      rw [isCondemned_eq hb0 hE, contains_idxOf]
      simp [(hc.own c hcm).2.2.2.2.1]
    rw [hfe]
    apply cnt_mono
    intro p _ hp
    simp only [countedAt, Bool.and_eq_true] at hp
    simp only [liveAt, Bool.and_eq_true]
    exact ⟨hp.1.2, hp.2⟩
  omega

end Asts.C02p

namespace Asts.C02p
open Asts Asts.L1c

theorem reps_uncreated_nt {setName : String} {P : List CPod} (hc : PodsCtx setName P) (v : SetView) (cur upd : String)
    (b : Int) (E : List Int) :
    ∀ ip ∈ repsOf v cur upd b E (P.map (·.pod)), ip.2.created = false → ip.2.terminating = false := by
  intro ip hip hcr
  obtain ⟨_, hq0⟩ := mem_repsOf.1 hip
  cases hs : slotOf b E (P.map (·.pod)) ip.1 with
  | none => rw [hs] at hq0; simp only [Option.getD_none] at hq0; rw [hq0]; rfl
  | some q0 =>
    rw [hs] at hq0; simp only [Option.getD_some] at hq0
    obtain ⟨c, hcm, hcp, _, _⟩ := hc.slot_some hs
    have := (hc.own c hcm).2.2.2.2.2.2
    rw [hcp, ← hq0, hcr] at this; cases this

theorem reps_keys (v : SetView) (cur upd : String) (b : Int) (E : List Int) (pods : List Pod) :
    ((repsOf v cur upd b E pods).map (·.1)).Pairwise (· < ·) ∧ ∀ ip ∈ repsOf v cur upd b E pods, 0 ≤ ip.1 := by
  have hfst : (repsOf v cur upd b E pods).map (·.1) = idxOf b E := by
    unfold repsOf; rw [List.map_map]; exact List.map_id _
  constructor
  · rw [hfst]
    unfold idxOf
    apply List.Pairwise.filter
    rw [List.pairwise_map]
    exact (List.pairwise_lt_range (n := b.toNat)).imp (fun h => by simpa using h)
  · intro ip hip
    have hr := (mem_repsOf.1 hip).1
    unfold inRange at hr
    simp only [Bool.and_eq_true, decide_eq_true_eq] at hr
    exact hr.1.1

/-- **Parallel, no faults**: `status.currentReplicas` after the reconcile is at most the number of slots that, after the
    replica loop, hold a live pod at the current revision, less the pod the walk took down -/
theorem recon_par_cur_le {setName : String} {P : List CPod} (hc : PodsCtx setName P) (v : SetView) (cur upd : String) (r : Int)
    (hr : v.replicas = some r) (h0 : 0 ≤ r) (hpar : v.parallel = true) (hdel : v.deleting = false)
    :
    (updateStatefulSet v cur upd (P.map (·.pod)) []).1.status.current ≤
      cnt (liveAt cur) (((repsOf v cur upd (maxReplicaAndSlots r v.slots).1 (maxReplicaAndSlots r v.slots).2 (P.map (·.pod))).map
        (repNew v cur upd)).map (·.2)) -
      tgtDelta cur (tgtOf v cur upd (maxReplicaAndSlots r v.slots).1 (maxReplicaAndSlots r v.slots).2 P) := by
  have hfacts := maxReplica_facts r v.slots h0
  have hsplit := census_split_le hc v cur upd _ _ hfacts.1 hfacts.2
  unfold updateStatefulSet
  cases hp : prepare v cur upd (P.map (·.pod)) with
  | error e => obtain ⟨st, o⟩ := e; exact absurd hp (prepare_calm' v cur upd _ r hr st o)
  | ok p =>
    simp only [hdel, Bool.false_eq_true, if_false]
    obtain ⟨_, hreps, hcond, _, hst0⟩ := L1c.prepare_ok hr hp
    unfold runLoops
    simp only [hpar, Bool.not_true]
    obtain ⟨s1, h1, _⟩ := replicaLoop_par v cur upd p.reps { status := p.st0 }
    rw [h1]; simp only
    have c1 := replicaLoop_par_cur v cur upd p.reps (by rw [hreps]; exact reps_uncreated_nt hc v cur upd _ _) _ _ _ h1
    obtain ⟨s2, h3, _⟩ := condemnedLoop_par cur upd p.fu p.condemned.reverse s1
    rw [h3]; simp only
    have c2 := condemnedLoop_par_cur cur upd p.fu p.condemned.reverse s1 s2 h3
    rw [updateStage_nil_cur, c2, c1]
    have hc0 : p.st0.current = cnt (countedAt cur) (P.map (·.pod)) := by
      rw [hst0]
      have := census_ctr true cur upd (P.map (·.pod))
      simpa [ctr, revK, st0Of] using this
    simp only [hc0, hreps, hcond]
    unfold tgtOf
    omega

end Asts.C02p

namespace Asts.C02p
open Asts Asts.L1c

theorem replicaLoop_mono_next (v : SetView) (cur upd : String) (reps : List (Int × Pod))
    (hq : ∀ ip ∈ reps, Plain ip.2) (s : St) :
    ∃ s', replicaLoop v cur upd [] true s reps = (.next s', reps) ∧ s'.status = s.status := by
  induction reps generalizing s with
  | nil => exact ⟨s, rfl, rfl⟩
  | cons ip rest ih =>
    obtain ⟨i, q⟩ := ip
    unfold replicaLoop
    rw [replicaStep_mono_plain v cur upd s i q (hq (i, q) List.mem_cons_self)]
    simp only
    obtain ⟨s', h1, h2⟩ := ih (fun ip hip => hq ip (List.mem_cons_of_mem _ hip)) { s with acts := s.acts ++ idUpd i q }
    exact ⟨s', by rw [h1], h2⟩

/-- **OrderedReady, no faults, full set, nothing to scale in**: the counter after the reconcile -/
theorem recon_mono_cur_le {h : Hashing} {j : SyncIn} (hk : MonoK0 h j)
    (hfl : (monoRep j.view hk.1.norm.curRev.name hk.1.norm.updRev.name
      (repsOf j.view hk.1.norm.curRev.name hk.1.norm.updRev.name (bOf j) (EOf j) (j.pods.map (·.pod)))).2 = true)
    (hce : (condemnedOf (bOf j) (EOf j) (j.pods.map (·.pod))).reverse = []) :
    hk.1.norm.recon.1.status.current ≤
      cnt (liveAt hk.1.norm.curRev.name)
        ((repsOf j.view hk.1.norm.curRev.name hk.1.norm.updRev.name (bOf j) (EOf j) (j.pods.map (·.pod))).map (·.2)) -
      tgtDelta hk.1.norm.curRev.name (walkTarget j.view hk.1.norm.updRev.name
        (repsOf j.view hk.1.norm.curRev.name hk.1.norm.updRev.name (bOf j) (EOf j) (j.pods.map (·.pod)))) := by
  have hs := hk.1
  have hn := hs.norm
  have hpar := hk.2.1
  have hsplit := census_split_le hs.ctx j.view hn.curRev.name hn.updRev.name (bOf j) (EOf j) (bOf_nonneg hn) (EOf_nonneg hn)
  rw [hce] at hsplit
  have hplain : ∀ ip ∈ repsOf j.view hn.curRev.name hn.updRev.name (bOf j) (EOf j) (j.pods.map (·.pod)), Plain ip.2 := by
    intro ip hip
    obtain ⟨h1, h2, _⟩ := monoRep_done hfl ip hip
    rcases mono_reps_kinds hs _ _ ip hip with hp | hfs | hcr
    · exact hp
    · rw [h1] at hfs; cases hfs
    · rw [h2] at hcr; cases hcr
  unfold NormC.recon updateStatefulSet
  cases hp : prepare j.view hn.curRev.name hn.updRev.name (j.pods.map (·.pod)) with
  | error e =>
    obtain ⟨st, o⟩ := e
    exact absurd hp (prepare_calm' j.view _ _ _ (replicasOf j.view) hn.spec.rep st o)
  | ok p =>
    simp only [hn.spec.del, Bool.false_eq_true, if_false]
    obtain ⟨_, hreps, hcond, _, hst0⟩ := L1c.prepare_ok hn.spec.rep hp
    have hreps' : p.reps = repsOf j.view hn.curRev.name hn.updRev.name (bOf j) (EOf j) (j.pods.map (·.pod)) := hreps
    have hcond' : p.condemned = condemnedOf (bOf j) (EOf j) (j.pods.map (·.pod)) := hcond
    unfold runLoops
    simp only [hpar, Bool.not_false]
    obtain ⟨s1, h1, hst1⟩ := replicaLoop_mono_next j.view hn.curRev.name hn.updRev.name p.reps (by rw [hreps']; exact hplain)
      { status := p.st0 }
    rw [h1]; simp only
    rw [hcond', hce]
    simp only [condemnedLoop]
    rw [updateStage_nil_cur, hst1, hreps']
    have hc0 : p.st0.current = cnt (countedAt hn.curRev.name) (j.pods.map (·.pod)) := by
      rw [hst0]
      have := census_ctr true hn.curRev.name hn.updRev.name (j.pods.map (·.pod))
      simpa [ctr, revK, st0Of] using this
    simp only [hc0]
    have hcl : cnt (countedAt hn.curRev.name)
        ((repsOf j.view hn.curRev.name hn.updRev.name (bOf j) (EOf j) (j.pods.map (·.pod))).map (·.2)) ≤
        cnt (liveAt hn.curRev.name)
        ((repsOf j.view hn.curRev.name hn.updRev.name (bOf j) (EOf j) (j.pods.map (·.pod))).map (·.2)) := by
      apply cnt_mono
      intro p _ hp
      simp only [countedAt, Bool.and_eq_true] at hp
      simp only [liveAt, Bool.and_eq_true]
      exact ⟨hp.1.2, hp.2⟩
    simp only [cnt, List.countP_nil, Nat.cast_zero, add_zero] at hsplit
    unfold cnt at hcl ⊢
    omega

end Asts.C02p
