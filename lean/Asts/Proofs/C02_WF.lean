import Asts.Proofs.C02_Stable

/-! C02: the premises `wfWorld` as propositions; `settle` keeps a world inside the premises. -/
namespace Asts.C02p
open Asts Asts.L1c

/-- the per-pod clause of `wfWorld` -/
def wfPod (i : SyncIn) (c : CPod) : Bool :=
  if c.member then
    c.name == canonicalName i.setName c.pod.ord && 0 ≤ c.pod.ord && c.selMatch && c.owner != .other && c.pod.created &&
    (i.view.parallel || !((c.pod.failed || c.pod.succeeded) && !(desired (replicasOf i.view) i.view.slots).contains c.pod.ord))
  else c.owner != .self || true

/-- the per-revision clause of `wfWorld` -/
def wfRev (h : Hashing) (i : SyncIn) (r : Rev) : Bool :=
  (r.owner != .other && (r.selMatch || r.marker)) ||
    ((List.range 8).all (fun k => h.nameOf i.template ((i.collisionCount.getD 0) + k) != r.name))

/-- the spec clause of `wfWorld` -/
def wfSpec (i : SyncIn) : Bool :=
  !i.paused && i.selectorOk && !i.view.deleting && !i.fresh.gone && i.fresh.uidOk && !i.fresh.deleting &&
  0 ≤ replicasOf i.view &&
  (i.view.strat == .rolling || i.view.strat == .onDelete) &&
  (match i.view.ru with | some none => false | some (some p) => 0 ≤ p | none => true) &&
  i.view.slots.all (0 ≤ ·) &&
  (match i.historyLimit with | some l => 0 ≤ l | none => false)

theorem wfWorld_eq (h : Hashing) (i : SyncIn) :
    wfWorld h i = (wfSpec i && i.store.all (wfRev h i) && i.pods.all (wfPod i)) := rfl

theorem wfWorld_iff (h : Hashing) (i : SyncIn) :
    wfWorld h i = true ↔ wfSpec i = true ∧ (∀ r ∈ i.store, wfRev h i r = true) ∧ (∀ c ∈ i.pods, wfPod i c = true) := by
  rw [wfWorld_eq]
  simp only [Bool.and_eq_true, List.all_eq_true, and_assoc]

theorem wfPod_key (i : SyncIn) (c : CPod) : wfPod i (key c) = wfPod i c := rfl

theorem wfPod_settleOne (i : SyncIn) (c : CPod) (hc : wfPod i c = true) : wfPod i (settleOne c) = true := by
  unfold settleOne
  by_cases hfs : (c.pod.failed || c.pod.succeeded) = true
  · simp only [hfs, if_true]; exact hc
  · simp only [hfs, Bool.false_eq_true, if_false]
    unfold wfPod at hc ⊢
    by_cases hm : c.member = true
    · simp only [hm, if_true, Bool.and_eq_true] at hc ⊢
      obtain ⟨⟨⟨⟨⟨a1, a2⟩, a3⟩, a4⟩, -⟩, -⟩ := hc
      refine ⟨⟨⟨⟨⟨a1, a2⟩, a3⟩, a4⟩, ?_⟩, ?_⟩
      · simp [Pod.created]
      · simp [Pod.failed, Pod.succeeded]
    · simp only [hm, Bool.false_eq_true, if_false] at hc ⊢
      exact hc

/-- `settle` keeps a world inside the premises -/
theorem wfWorld_settle (h : Hashing) (i : SyncIn) (hw : wfWorld h i = true) : wfWorld h (settle i) = true := by
  rw [wfWorld_iff] at hw ⊢
  obtain ⟨h1, h2, h3⟩ := hw
  refine ⟨?_, h2, ?_⟩
  · unfold wfSpec at h1 ⊢
    simp only [Bool.and_eq_true, Bool.not_eq_true'] at h1 ⊢
    obtain ⟨⟨⟨⟨⟨⟨⟨⟨⟨⟨a1, a2⟩, a3⟩, -⟩, -⟩, -⟩, a7⟩, a8⟩, a9⟩, a10⟩, a11⟩ := h1
    exact ⟨⟨⟨⟨⟨⟨⟨⟨⟨⟨a1, a2⟩, a3⟩, rfl⟩, rfl⟩, a3⟩, a7⟩, a8⟩, a9⟩, a10⟩, a11⟩
  · intro c hc
    rw [settle_pods] at hc
    obtain ⟨c1, hc1, hk⟩ := mem_reindex_sort hc
    rw [List.mem_map] at hc1
    obtain ⟨c0, hc0, rfl⟩ := hc1
    rw [List.mem_filter] at hc0
    have := wfPod_settleOne i c0 (h3 c0 hc0.1)
    rw [← wfPod_key, hk, wfPod_key] at this
    exact this

end Asts.C02p
