import Mathlib.Tactic
import Asts.Proofs.WE_Index
import Asts.Proofs.SY_b_C08Monitor

/-! # WE — the monitor `C08revert` is true on the model's histories (store names distinct) -/
namespace Asts.WE
open Asts Asts.SYb

theorem eq_of_mem_nodup_name {l : List Rev} (hn : (l.map (·.name)).Nodup) {x y : Rev} (hx : x ∈ l) (hy : y ∈ l)
    (hxy : x.name = y.name) : x = y := by
  induction l with
  | nil => simp at hx
  | cons a l ih =>
    rw [List.map_cons, List.nodup_cons] at hn
    rcases List.mem_cons.mp hx with rfl | hx' <;> rcases List.mem_cons.mp hy with rfl | hy'
    · rfl
    · exact absurd (hxy ▸ List.mem_map_of_mem (f := (·.name)) hy') hn.1
    · exact absurd (hxy ▸ List.mem_map_of_mem (f := (·.name)) hx') hn.1
    · exact ih hn.2 hx' hy'

theorem round_store (h : Hashing) (w : SyncIn) (p : List Fault) : (round h w p).1.store = (syncF h (settle w) p).store := rfl

theorem round_out_ok (h : Hashing) (w : SyncIn) (p : List Fault) :
    (round h w p).2.out = "ok" ↔ (syncF h (settle w) p).outcome = .ok := by
  show (match (syncF h (settle w) p).outcome with | .ok => "ok" | .err => "err" | .panic _ => "panic") = "ok" ↔ _
  cases (syncF h (settle w) p).outcome <;> simp

theorem round_status_updateRev (h : Hashing) (w : SyncIn) (p : List Fault) :
    (round h w p).2.status.updateRev = reportedUpd (settle w) (syncF h (settle w) p) := by
  show ((syncF h (settle w) p).status.getD (settle w).stored).updateRev = _
  unfold reportedUpd
  cases (syncF h (settle w) p).status <;> rfl

theorem visible_adopted {x y : Rev} (hr : AdoptRel x y) (hv : visibleRev x = true) :
    (y.selMatch = true ∨ y.marker = true) ∧ y.owner ≠ .other := by
  obtain ⟨hc, ho, hs⟩ := hr
  simp only [core, Prod.mk.injEq] at hc
  unfold visibleRev at hv
  simp only [Bool.and_eq_true, Bool.or_eq_true, bne_iff_ne, ne_eq] at hv
  refine ⟨?_, ?_⟩
  · rcases hv.1 with h1 | h1
    · exact Or.inl (hs h1)
    · exact Or.inr (hc.2.2.2.2.2.trans h1)
  · rcases ho with h1 | h1
    · rw [h1]; exact hv.2
    · rw [h1]; decide

/-- **the revert clause on one round of the model**: world `W` (after the edits), names of stored revisions distinct, not
    paused, selector in order, some visible stored revision records the template under a compatible hash label, and the
    round succeeds: no revision under a new name, and the revision the status names records the template, carries the
    largest number among the visible ones — its old number, or a number strictly above all others -/
theorem revert_step (h : Hashing) (W : SyncIn) (p : List Fault) (hn : (W.store.map (·.name)).Nodup)
    (hnp : W.paused = false) (hsel : W.selectorOk = true) (hok : (round h W p).2.out = "ok")
    (held : W.store.any (fun q => visibleRev q && q.data == W.template &&
      hashCompat q.hashNum (h.hashNumOf W.template (W.collisionCount.getD 0))) = true) :
    ((round h W p).2.revs.all (fun x => W.store.any (·.name == x.name)) &&
     (round h W p).2.revs.any (fun u => u.name == (round h W p).2.status.updateRev && u.data == W.template &&
       ((round h W p).2.revs.filter visibleRev).all (fun v => v.number ≤ u.number) &&
       (W.store.any (fun q => q.name == u.name && q.number == u.number) ||
        ((round h W p).2.revs.filter visibleRev).all (fun v => v.name == u.name || v.number < u.number)))) = true := by
  have hrun : ((settle W).paused || !(settle W).selectorOk) = false := by
    show (W.paused || !W.selectorOk) = false
    rw [hnp, hsel]; rfl
  have hok' := (round_out_ok h W p).mp hok
  -- the held revision, adopted, is listed and equals the fresh one
  obtain ⟨q, hq, hqv⟩ := List.any_eq_true.mp held
  simp only [Bool.and_eq_true, beq_iff_eq] at hqv
  obtain ⟨⟨hvis, hdata⟩, hcompat⟩ := hqv
  obtain ⟨f, hf, hAeq⟩ := adoptedStore_adopted p (settle W)
  have hAn : ((adoptedStore p (settle W)).map (·.name)).Nodup := by
    rw [(adoptedStore_adopted p (settle W)).names]; exact hn
  have hAnames : (adoptedStore p (settle W)).map (·.name) = W.store.map (·.name) := (adoptedStore_adopted p (settle W)).names
  have hr0A : f q ∈ adoptedStore p (settle W) := by rw [hAeq]; exact List.mem_map_of_mem hq
  have hcore := (hf q).1
  simp only [core, Prod.mk.injEq] at hcore
  obtain ⟨hv1, hv2⟩ := visible_adopted (hf q) hvis
  have hr0L : f q ∈ syncListing p (settle W) := by
    unfold syncListing
    rw [mem_sortRevs, mem_listRevisions_iff hAn]
    exact ⟨hr0A, hv1, hv2⟩
  have heq : equalRev (f q) (freshOf h (settle W).template ((settle W).collisionCount.getD 0) (syncListing p (settle W))) = true := by
    unfold equalRev freshOf
    simp only [Bool.and_eq_true, beq_iff_eq]
    refine ⟨?_, ?_⟩
    · rw [hcore.2.2.2.2.1]
      unfold hashCompat at hcompat
      exact hcompat
    · rw [hcore.2.2.2.1]; exact hdata
  obtain ⟨u, hu, hun, hud, hmax, hcase, hrest⟩ := sync_revert_number h (settle W) p hrun hok' hr0L heq
  obtain ⟨u', _, a, b, _⟩ := sync_ok_upd_stored h (settle W) p hrun hok'
  have hrep : reportedUpd (settle W) (syncF h (settle W) p) = (syncF h (settle W) p).upd := b.symm.trans a
  have hnf := sync_names_nodup h (settle W) p hn
  -- members of the listing are adopted revisions: their names (and numbers) are those of stored revisions
  have listing_stored : ∀ r ∈ syncListing p (settle W), ∃ x ∈ W.store, x.name = r.name ∧ x.number = r.number := by
    intro r hr
    unfold syncListing at hr
    rw [mem_sortRevs] at hr
    have hrA := (mem_listRevisions hr).1
    rw [hAeq] at hrA
    obtain ⟨x, hx, rfl⟩ := List.mem_map.mp hrA
    have hc := (hf x).1
    simp only [core, Prod.mk.injEq] at hc
    exact ⟨x, hx, hc.1.symm, hc.2.1.symm⟩
  have visible_listed : ∀ v ∈ (syncF h (settle W) p).store, visibleRev v = true → v.name ≠ (syncF h (settle W) p).upd →
      v ∈ syncListing p (settle W) := by
    intro v hv hvv hne
    have hvA := hrest v hv hne
    unfold syncListing
    rw [mem_sortRevs, mem_listRevisions_iff hAn]
    unfold visibleRev at hvv
    simp only [Bool.and_eq_true, Bool.or_eq_true, bne_iff_ne, ne_eq] at hvv
    exact ⟨hvA, hvv.1, hvv.2⟩
  rw [Bool.and_eq_true]
  refine ⟨?_, ?_⟩
  · -- no new name
    rw [List.all_eq_true]
    intro x hx
    rw [List.any_eq_true]
    have hx' : x ∈ (syncF h (settle W) p).store := hx
    by_cases hxu : x.name = (syncF h (settle W) p).upd
    · rcases hcase with hul | ⟨_, e, he, hen, _⟩
      · obtain ⟨y, hy, hyn, _⟩ := listing_stored u hul
        exact ⟨y, hy, by simp [hyn, hun, hxu]⟩
      · obtain ⟨y, hy, hyn, _⟩ := listing_stored e he
        exact ⟨y, hy, by simp [hyn, hen, hun, hxu]⟩
    · have hxA := hrest x hx' hxu
      have : x.name ∈ W.store.map (·.name) := by rw [← hAnames]; exact List.mem_map_of_mem hxA
      obtain ⟨y, hy, hyn⟩ := List.mem_map.mp this
      exact ⟨y, hy, by simp [hyn]⟩
  · rw [List.any_eq_true]
    refine ⟨u, hu, ?_⟩
    have hmaxv : ∀ v ∈ (syncF h (settle W) p).store, visibleRev v = true → v.number ≤ u.number := by
      intro v hv hvv
      by_cases hvn : v.name = (syncF h (settle W) p).upd
      · have : v = u := eq_of_mem_nodup_name hnf hv hu (hvn.trans hun.symm)
        rw [this]
      · exact hmax v (visible_listed v hv hvv hvn)
    simp only [Bool.and_eq_true, Bool.or_eq_true, beq_iff_eq, List.all_eq_true, List.mem_filter, decide_eq_true_eq,
      List.any_eq_true, and_imp]
    refine ⟨⟨⟨?_, hud⟩, fun v hv hvv => hmaxv v hv hvv⟩, ?_⟩
    · rw [round_status_updateRev, hrep]; exact hun
    · rcases hcase with hul | ⟨hnum, _⟩
      · obtain ⟨y, hy, hyn, hynum⟩ := listing_stored u hul
        exact Or.inl ⟨y, hy, hyn, hynum⟩
      · right
        intro v hv hvv
        by_cases hvn : v.name = (syncF h (settle W) p).upd
        · exact Or.inl (hvn.trans hun.symm)
        · right
          have := nextRevision_gt (sortRevs_sorted (listRevisions (adoptedStore p (settle W)))) v (visible_listed v hv hvv hvn)
          rw [hnum]; exact this

end Asts.WE

namespace Asts.WE
open Asts Asts.SYb

theorem applyEdits_selectorOk (es : List Edit) (i : SyncIn) : (applyEdits es i).selectorOk = i.selectorOk := by
  induction es generalizing i with
  | nil => rfl
  | cons e es ih =>
    rw [applyEdits_cons, ih]
    exact (applyEdit_frame e i).2.2.2.2.2.2.2.1

section
variable (h : Hashing) (script : Script) (plan : List Fault) (i : SyncIn)

theorem wAt_store_succ (k : Nat) : (wAt h script plan i (k + 1)).store = (histRoundAt h script 1 plan i k).obs.revs := by
  rw [wAt_succ, (applyEdits_frame _ _).1]; rfl

theorem wAt_stored_succ (k : Nat) : (wAt h script plan i (k + 1)).stored = (histRoundAt h script 1 plan i k).obs.status := by
  rw [wAt_succ, (applyEdits_frame _ _).2]; rfl

theorem wAt_nodup (hn : (i.store.map (·.name)).Nodup) : ∀ k, ((wAt h script plan i k).store.map (·.name)).Nodup
  | 0 => by rw [wAt_zero, (applyEdits_frame _ _).1]; exact hn
  | k + 1 => by
    rw [wAt_succ, (applyEdits_frame _ _).1, round_store]
    exact sync_names_nodup h (settle (wAt h script plan i k)) _ (wAt_nodup hn k)

theorem wAt_selectorOk : ∀ k, (wAt h script plan i k).selectorOk = i.selectorOk
  | 0 => by rw [wAt_zero, applyEdits_selectorOk]
  | k + 1 => by
    rw [wAt_succ, applyEdits_selectorOk]
    show (wAt h script plan i k).selectorOk = _
    exact wAt_selectorOk k

end

theorem or_chain7 (a b c d e f g : Bool)
    (H : a = false → b = false → c = false → d = false → e = false → f = false → g = true) :
    (a || b || c || d || e || f || g) = true := by
  cases a <;> cases b <;> cases c <;> cases d <;> cases e <;> cases f <;> simp_all

theorem any_nonempty {α} (l : List α) (p : α → Bool) (h : l.any p = true) : l.isEmpty = false := by
  cases l with
  | nil => simp at h
  | cons a l => rfl

/-- **`C08revert`, the monitor, is true on the model** — every hashing, script, budget, fault plan and initial world whose
    stored revisions have distinct names -/
theorem C08revert_model (h : Hashing) (script : Script) (fuel : Nat) (i : SyncIn) (plan : List Fault)
    (hn : (i.store.map (·.name)).Nodup) :
    C08revert h i (observeHist (runHistory h script fuel 1 0 i plan)) = true := by
  unfold C08revert
  rw [List.all_eq_true]
  intro k hk
  rw [List.mem_range, observeHist_length] at hk
  rw [observeHist_get, observeHist_get]
  have hx : (runHistory h script fuel 1 0 i plan)[k]? = some (runHistory h script fuel 1 0 i plan)[k] := List.getElem?_eq_getElem hk
  have hx' := hist_get h script plan i fuel k _ hx
  cases k with
  | zero =>
    rw [hx]
    simp
  | succ k =>
    have hy : (runHistory h script fuel 1 0 i plan)[k]? = some (runHistory h script fuel 1 0 i plan)[k] :=
      List.getElem?_eq_getElem (by omega)
    have hy' := hist_get h script plan i fuel k _ hy
    obtain ⟨_, hspec⟩ := specAt_hist h script plan i fuel (k + 1) hk
    rw [hx, hx']
    simp only [Nat.add_sub_cancel, hy, hy', Option.map_some, obs1]
    apply or_chain7
    intro _ hedit hpaused hsel hout hheld
    have hedit' : (histRoundAt h script 1 plan i (k + 1)).edits.any Edit.isTemplate = true := by simpa using hedit
    have hs := hspec (any_nonempty _ _ hedit')
    rw [hs] at hpaused hheld ⊢
    have hsel' : i.selectorOk = true := by simpa using hsel
    have hout' : (histRoundAt h script 1 plan i (k + 1)).obs.out = "ok" := by simpa using hout
    have hheld' := hheld
    simp only [Bool.not_eq_false'] at hheld'
    rw [← wAt_store_succ h script plan i k] at hheld' ⊢
    exact revert_step h (wAt h script plan i (k + 1)) (planAt plan (k + 1)) (wAt_nodup h script plan i hn (k + 1)) hpaused
      ((wAt_selectorOk h script plan i (k + 1)).trans hsel') hout' hheld'

end Asts.WE
