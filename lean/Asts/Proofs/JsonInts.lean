import Asts.Model.JsonInts
import Mathlib.Tactic

namespace Asts.JsonInts

theorem digitChar_toNat {d : Nat} (h : d < 10) : (digitChar d).toNat = 48 + d := by
  interval_cases d <;> rfl
theorem isDigit_digitChar {d : Nat} (h : d < 10) : isDigit (digitChar d) = true := by
  simp only [isDigit, digitChar_toNat h, Bool.and_eq_true, decide_eq_true_eq]; omega
theorem digitVal_digitChar {d : Nat} (h : d < 10) : digitVal (digitChar d) = d := by
  simp [digitVal, digitChar_toNat h]

theorem digits_all_digit (n : Nat) : ∀ c ∈ digits n, isDigit c = true := by
  induction n using Nat.strongRecOn with
  | _ n ih =>
    unfold digits
    split
    · intro c hc; simp at hc; subst hc; exact isDigit_digitChar (by omega)
    · intro c hc
      rcases List.mem_append.1 hc with h | h
      · exact ih (n / 10) (by omega) c h
      · simp at h; subst h; exact isDigit_digitChar (Nat.mod_lt _ (by omega))

theorem digits_ne_nil (n : Nat) : digits n ≠ [] := by
  unfold digits; split <;> simp

theorem digitsToNat_append (a : List Char) (c : Char) :
    digitsToNat (a ++ [c]) = digitsToNat a * 10 + digitVal c := by
  simp [digitsToNat, List.foldl_append]

theorem digitsToNat_digits (n : Nat) : digitsToNat (digits n) = n := by
  induction n using Nat.strongRecOn with
  | _ n ih =>
    unfold digits
    split
    · rename_i h; simp [digitsToNat, digitVal_digitChar h]
    · rename_i h
      rw [digitsToNat_append, ih (n / 10) (by omega), digitVal_digitChar (Nat.mod_lt _ (by omega))]
      omega

/-- no leading zero unless the number is 0 -/
theorem digits_head (n : Nat) : ∃ d rest, digits n = d :: rest ∧ (d = '0' → rest = []) := by
  induction n using Nat.strongRecOn with
  | _ n ih =>
    unfold digits
    split
    · exact ⟨_, [], rfl, fun _ => rfl⟩
    · rename_i h
      obtain ⟨d, rest, hd, hz⟩ := ih (n / 10) (by omega)
      refine ⟨d, rest ++ [digitChar (n % 10)], by simp [hd], ?_⟩
      intro h0
      have hr := hz h0
      subst hr
      -- then digits (n/10) = ['0'], so n/10 = 0, contradiction with n ≥ 10
      have : digitsToNat (digits (n / 10)) = n / 10 := digitsToNat_digits _
      rw [hd, h0] at this
      simp [digitsToNat, digitVal] at this
      omega

theorem takeDigits_append {ds : List Char} (hds : ∀ c ∈ ds, isDigit c = true) {c : Char} (hc : isDigit c = false)
    (rest : List Char) : takeDigits (ds ++ c :: rest) = (ds, c :: rest) := by
  induction ds with
  | nil => simp [takeDigits, hc]
  | cons d ds ih =>
    have hd := hds d (by simp)
    simp only [List.cons_append, takeDigits, hd, if_true]
    rw [ih (fun x hx => hds x (by simp [hx]))]

end Asts.JsonInts

namespace Asts.JsonInts

def isSep (c : Char) : Prop := c = ',' ∨ c = ']'

theorem isDigit_sep {c : Char} (h : isSep c) : isDigit c = false := by
  rcases h with rfl | rfl <;> decide

theorem digit_ne {c : Char} (h : isDigit c = true) : c ≠ 'n' ∧ c ≠ '-' := by
  constructor <;> (rintro rfl; revert h; decide)

theorem startsNull_cons_ne {d : Char} (h : d ≠ 'n') (l : List Char) : startsNull (d :: l) = none := by
  unfold startsNull
  split
  · rename_i heq; exact absurd (List.cons.inj heq).1 h
  · rfl

theorem stripSign_cons_ne {d : Char} (h : d ≠ '-') (l : List Char) : stripSign (d :: l) = (false, d :: l) := by
  unfold stripSign
  split
  · rename_i heq; exact absurd (List.cons.inj heq).1 h
  · rfl

theorem startsFraction_sep {c : Char} (hc : isSep c) (rest : List Char) : startsFraction (c :: rest) = false := by
  rcases hc with rfl | rfl <;> rfl

theorem intLit_digits (neg : Bool) (n : Nat) (c : Char) (hc : isSep c) (rest : List Char)
    (hr : inInt32 (if neg then -(n : Int) else n) = true) :
    intLit neg (digits n) (c :: rest) = some ((if neg then -(n : Int) else n), c :: rest) := by
  obtain ⟨d, more, hd, hz⟩ := digits_head n
  have hval := digitsToNat_digits n
  rw [hd] at hval ⊢
  unfold intLit
  have hzero : (d == '0' && !more.isEmpty) = false := by
    by_cases h0 : d = '0'
    · simp [hz h0]
    · simp [h0]
  simp only [hzero, startsFraction_sep hc, hval, Bool.false_eq_true, if_false, hr, if_true]

theorem parseElem_renderInt (i : Int) (hi : inInt32 i = true) (c : Char) (hc : isSep c) (rest : List Char) :
    parseElem (renderInt i ++ c :: rest) = some (i, c :: rest) := by
  obtain ⟨d, more, hd, _⟩ := digits_head i.natAbs
  have hall := digits_all_digit i.natAbs
  have hnd := digit_ne (hall d (by rw [hd]; simp))
  have htake : takeDigits (digits i.natAbs ++ c :: rest) = (digits i.natAbs, c :: rest) :=
    takeDigits_append hall (isDigit_sep hc) rest
  unfold renderInt parseElem
  by_cases hneg : i < 0
  · have hv : (if true then -((i.natAbs : Nat) : Int) else (i.natAbs : Int)) = i := by simp only [↓reduceIte]; omega
    simp only [hneg, if_true, List.cons_append]
    rw [startsNull_cons_ne (by decide)]
    simp only [stripSign, htake]
    rw [intLit_digits true i.natAbs c hc rest (by rw [hv]; exact hi), hv]
  · have hv : (if false then -((i.natAbs : Nat) : Int) else (i.natAbs : Int)) = i := by simp only [Bool.false_eq_true, ↓reduceIte]; omega
    simp only [hneg, if_false]
    rw [hd, List.cons_append, startsNull_cons_ne hnd.1]
    simp only [stripSign_cons_ne hnd.2]
    rw [← List.cons_append, ← hd, htake]
    simp only
    rw [intLit_digits false i.natAbs c hc rest (by rw [hv]; exact hi), hv]

end Asts.JsonInts

namespace Asts.JsonInts

theorem skipWs_cons_of_not_ws {c : Char} (h : isWs c = false) (l : List Char) : skipWs (c :: l) = c :: l := by
  simp [skipWs, h]

theorem isWs_digit {c : Char} (h : isDigit c = true) : isWs c = false := by
  unfold isWs isDigit at *
  simp only [Bool.and_eq_true, decide_eq_true_eq] at h
  have h1 : c ≠ ' ' := by rintro rfl; revert h; decide
  have h2 : c ≠ '\t' := by rintro rfl; revert h; decide
  have h3 : c ≠ '\n' := by rintro rfl; revert h; decide
  have h4 : c ≠ '\r' := by rintro rfl; revert h; decide
  simp [h1, h2, h3, h4]

/-- the first character of a rendered integer: `-` or a digit; never whitespace, never `]`, never `n` -/
theorem renderInt_head (i : Int) : ∃ c rest, renderInt i = c :: rest ∧ isWs c = false ∧ c ≠ ']' := by
  obtain ⟨d, more, hd, _⟩ := digits_head i.natAbs
  have hdd : isDigit d = true := digits_all_digit i.natAbs d (by rw [hd]; simp)
  unfold renderInt
  split
  · exact ⟨'-', _, rfl, by decide, by decide⟩
  · refine ⟨d, more, hd, isWs_digit hdd, ?_⟩
    rintro rfl; revert hdd; decide

theorem renderTail_head (xs : List Int) : ∃ c rest, renderTail xs = c :: rest ∧ isSep c := by
  cases xs with
  | nil => exact ⟨']', [], rfl, Or.inr rfl⟩
  | cons x xs => exact ⟨',', _, rfl, Or.inl rfl⟩

theorem renderTail_length (xs : List Int) : xs.length + 1 ≤ (renderTail xs).length := by
  induction xs with
  | nil => simp [renderTail]
  | cons x xs ih =>
    simp only [renderTail, List.length_cons, List.length_append]
    omega

theorem parseRest_renderTail (xs : List Int) (hxs : ∀ x ∈ xs, inInt32 x = true) (fuel : Nat)
    (hf : xs.length + 1 ≤ fuel) : parseRest fuel (renderTail xs) = some xs := by
  induction xs generalizing fuel with
  | nil =>
    obtain ⟨f, rfl⟩ : ∃ f, fuel = f + 1 := ⟨fuel - 1, by simp at hf; omega⟩
    simp [renderTail, parseRest, skipWs, isWs]
  | cons x xs ih =>
    obtain ⟨f, rfl⟩ : ∃ f, fuel = f + 1 := ⟨fuel - 1, by simp at hf; omega⟩
    obtain ⟨c0, r0, hr0, hws, _⟩ := renderInt_head x
    obtain ⟨c, rest, hrt, hsep⟩ := renderTail_head xs
    have hskip : skipWs (renderInt x ++ renderTail xs) = renderInt x ++ renderTail xs := by
      rw [hr0, List.cons_append]; exact skipWs_cons_of_not_ws hws _
    have helem : parseElem (renderInt x ++ renderTail xs) = some (x, renderTail xs) := by
      rw [hrt]; exact parseElem_renderInt x (hxs x (by simp)) c hsep rest
    simp only [renderTail, parseRest]
    rw [skipWs_cons_of_not_ws (by decide)]
    simp only [hskip, helem]
    rw [ih (fun y hy => hxs y (by simp [hy])) f (by simp at hf; omega)]
    rfl

/-- the annotation codec round trip: what `SetDeleteSlots` writes, `GetDeleteSlots` reads back -/
theorem parse_render (l : List Int) (hl : ∀ x ∈ l, inInt32 x = true) : parse (render l) = some l := by
  cases l with
  | nil => simp [render, parse, skipWs, isWs]
  | cons x xs =>
    obtain ⟨c0, r0, hr0, hws, hnb⟩ := renderInt_head x
    obtain ⟨c, rest, hrt, hsep⟩ := renderTail_head xs
    have helem : parseElem (renderInt x ++ renderTail xs) = some (x, renderTail xs) := by
      rw [hrt]; exact parseElem_renderInt x (hl x (by simp)) c hsep rest
    have hskip : skipWs (renderInt x ++ renderTail xs) = renderInt x ++ renderTail xs := by
      rw [hr0, List.cons_append]; exact skipWs_cons_of_not_ws hws _
    unfold render parse
    rw [skipWs_cons_of_not_ws (by decide)]
    simp only [hskip]
    rw [hr0, List.cons_append] at helem ⊢
    split
    · rename_i heq; exact absurd (List.cons.inj heq).1 hnb
    · simp only [helem]
      rw [parseRest_renderTail xs (fun y hy => hl y (by simp [hy])) _ (by have := renderTail_length xs; omega)]
      rfl

end Asts.JsonInts
