import Asts.Proofs.C02_Acts

/-! C02: which calls the Parallel reconcile of a normal, settled world makes, object by object. -/
namespace Asts.C02p
open Asts Asts.L1c

/-- the pod list of a normal, settled world -/
structure PodsCtx (setName : String) (P : List CPod) : Prop where
  own : ∀ c ∈ P, c.owner = .self ∧ c.member = true ∧ c.selMatch = true ∧ c.name = canonicalName setName c.pod.ord ∧
    0 ≤ c.pod.ord ∧ c.pod.stOk = true ∧ c.pod.created = true
  ords : (P.map (·.pod.ord)).Nodup
  ids : IdOk P
  small : P.length ≤ freshId
  settled : ∀ c ∈ P, c.pod.terminating = false ∧ (c.pod.fs = true ∨ c.pod.runningAndReady = true)

namespace PodsCtx
variable {setName : String} {P : List CPod}

theorem id_lt (hc : PodsCtx setName P) {c : CPod} (hm : c ∈ P) : c.pod.id < freshId := hc.ids.lt c hm

theorem ord_inj (hc : PodsCtx setName P) {a b : CPod} (ha : a ∈ P) (hb : b ∈ P) (h : a.pod.ord = b.pod.ord) : a = b :=
  ord_inj_of_nodup hc.ords ha hb h

theorem pod_inj (hc : PodsCtx setName P) {a b : CPod} (ha : a ∈ P) (hb : b ∈ P) (h : a.pod = b.pod) : a = b :=
  hc.ord_inj ha hb (by rw [h])

theorem id_inj (hc : PodsCtx setName P) {a b : CPod} (ha : a ∈ P) (hb : b ∈ P) (h : a.pod.id = b.pod.id) : a = b :=
  hc.ids.inj a ha b hb h

theorem ordNodup (hc : PodsCtx setName P) : ((P.map (·.pod)).map (·.ord)).Nodup := by
  rw [List.map_map]; exact hc.ords

theorem slot_of_mem (hc : PodsCtx setName P) {b : Int} {E : List Int} {c : CPod} (hm : c ∈ P)
    (hr : inRange b E c.pod.ord = true) : slotOf b E (P.map (·.pod)) c.pod.ord = some c.pod := by
  have hnd : ((P.map (·.pod)).map (·.ord)).Nodup := hc.ordNodup
  rw [← podAt_eq_slotOf hnd hr]
  unfold podAt
  apply find_unique _ _ c.pod (List.mem_map.2 ⟨c, hm, rfl⟩) (by simp)
  intro p hp hk
  rw [List.mem_map] at hp
  obtain ⟨c', hc', rfl⟩ := hp
  rw [hc.ord_inj hc' hm (by simpa using hk)]

theorem slot_some (hc : PodsCtx setName P) {b : Int} {E : List Int} {o : Int} {q : Pod}
    (h : slotOf b E (P.map (·.pod)) o = some q) : ∃ c ∈ P, c.pod = q ∧ c.pod.ord = o ∧ inRange b E o = true := by
  obtain ⟨h1, h2, h3⟩ := L1c.slotOf_some h
  rw [List.mem_map] at h1
  obtain ⟨c, hcm, rfl⟩ := h1
  exact ⟨c, hcm, rfl, h2, by rw [← h2]; exact h3⟩

theorem slot_none (hc : PodsCtx setName P) {b : Int} {E : List Int} {o : Int} (h : ∀ c ∈ P, c.pod.ord ≠ o) :
    slotOf b E (P.map (·.pod)) o = none := by
  cases hs : slotOf b E (P.map (·.pod)) o with
  | none => rfl
  | some q =>
    obtain ⟨c, hcm, _, h2, _⟩ := hc.slot_some hs
    exact absurd h2 (h c hcm)

end PodsCtx

/-! ### which deletes, creates and updates are issued -/

section
variable (v : SetView) (cur upd : String) (b : Int) (E : List Int) (setName : String) (P : List CPod)

/-- the actions of the reconcile on `P` (see `recon_acts`) -/
def actsOf : List Action :=
  (repsOf v cur upd b E (P.map (·.pod))).flatMap (repActs1 v cur upd) ++
  condActs (condemnedOf b E (P.map (·.pod))).reverse ++
  walkActs (walkTarget v upd ((repsOf v cur upd b E (P.map (·.pod))).map (repNew v cur upd)))

/-- the object the update walk takes down, if any -/
def tgtOf : Option (Int × Pod) := walkTarget v upd ((repsOf v cur upd b E (P.map (·.pod))).map (repNew v cur upd))

end

theorem mem_repsOf {v : SetView} {cur upd : String} {b : Int} {E : List Int} {pods : List Pod} {ip : Int × Pod} :
    ip ∈ repsOf v cur upd b E pods ↔ inRange b E ip.1 = true ∧ ip.2 = (slotOf b E pods ip.1).getD (newPod v cur upd ip.1) := by
  unfold repsOf
  rw [List.mem_map]
  constructor
  · rintro ⟨i, hi, rfl⟩
    exact ⟨mem_idxOf.1 hi, rfl⟩
  · rintro ⟨h1, h2⟩
    refine ⟨ip.1, mem_idxOf.2 h1, ?_⟩
    ext
    · rfl
    · exact h2.symm

theorem newPod_fs (v : SetView) (cur upd : String) (o : Int) : (newPod v cur upd o).fs = false := by
  simp [Pod.fs, newPod, Pod.failed, Pod.succeeded]

theorem newPod_id (v : SetView) (cur upd : String) (o : Int) : (newPod v cur upd o).id = freshId + o.toNat := rfl

/-- the revision of a new pod at or above the partition is the update revision when the `rollingUpdate` block is present -/
theorem newPodRev_upd (v : SetView) (cur upd : String) (o : Int) (p : Int) (hru : v.ru = some (some p)) (ho : partOf v ≤ o) :
    newPodRev v cur upd o = upd := by
  unfold newPodRev
  simp only [hru, Option.isNone_some, Bool.and_false, Bool.false_and, Bool.false_eq_true, if_false, Option.isSome_some,
    Bool.true_and, decide_eq_true_eq]
  rw [if_neg (by omega)]

end Asts.C02p

namespace Asts.C02p
open Asts Asts.L1c

theorem walkFind_some {upd : String} {l : List (Int × Pod)} {t : Int} {q : Pod} (h : walkFind upd l = some (t, q)) :
    (t, q) ∈ l ∧ q.rev ≠ upd ∧ q.terminating = false := by
  induction l with
  | nil => cases h
  | cons ip rest ih =>
    obtain ⟨t', p⟩ := ip
    unfold walkFind at h
    split_ifs at h with h1 h2
    · simp only [Option.some.injEq, Prod.mk.injEq] at h
      obtain ⟨rfl, rfl⟩ := h
      simp only [Bool.and_eq_true, bne_iff_ne, ne_eq, Bool.not_eq_true'] at h1
      exact ⟨List.mem_cons_self, h1.1, h1.2⟩
    · obtain ⟨a, b, c⟩ := ih h
      exact ⟨List.mem_cons_of_mem _ a, b, c⟩

/-- scanning a list of healthy pods, the walk finds the first one that is not at the update revision -/
theorem walkFind_healthy {upd : String} {l : List (Int × Pod)} (hh : ∀ ip ∈ l, ip.2.healthy = true)
    (hex : ∃ ip ∈ l, ip.2.rev ≠ upd) : (walkFind upd l).isSome = true := by
  induction l with
  | nil => obtain ⟨ip, hip, _⟩ := hex; cases hip
  | cons ip rest ih =>
    obtain ⟨t, p⟩ := ip
    unfold walkFind
    have hp : p.healthy = true := hh (t, p) List.mem_cons_self
    have hnt : p.terminating = false := (healthy_facts hp).2.1
    by_cases hr : p.rev = upd
    · have : (p.rev != upd && !p.terminating) = false := by simp [hr]
      simp only [this, Bool.false_eq_true, if_false, hp, Bool.not_true]
      apply ih (fun ip hip => hh ip (List.mem_cons_of_mem _ hip))
      obtain ⟨ip, hip, hne⟩ := hex
      rcases List.mem_cons.1 hip with rfl | hip
      · exact absurd hr hne
      · exact ⟨ip, hip, hne⟩
    · have : (p.rev != upd && !p.terminating) = true := by simp [hr, hnt]
      simp [this]

section
variable {v : SetView} {cur upd : String} {b : Int} {E : List Int} {setName : String} {P : List CPod}

/-- `c` is the pod the update walk takes down -/
def IsTarget (v : SetView) (cur upd : String) (b : Int) (E : List Int) (P : List CPod) (c : CPod) : Prop :=
  tgtOf v cur upd b E P = some (c.pod.ord, c.pod)

/-- the walk's target is a pod of the list: in range, at or above the partition, not at the update revision, neither
    Failed nor Succeeded (a new object is never taken down when the `rollingUpdate` block is present) -/
theorem target_is_pod (hc : PodsCtx setName P) (hpart : v.strat = .onDelete ∨ ∃ p, v.ru = some (some p) ∧ 0 ≤ p)
    {t : Int} {q : Pod} (h : tgtOf v cur upd b E P = some (t, q)) :
    ∃ c ∈ P, c.pod = q ∧ c.pod.ord = t ∧ inRange b E t = true ∧ c.pod.fs = false ∧ q.rev ≠ upd ∧ partOf v ≤ t ∧
      v.strat ≠ .onDelete := by
  unfold tgtOf walkTarget at h
  split_ifs at h with hod
  have hod' : v.strat ≠ .onDelete := by simpa using hod
  obtain ⟨p, hru, _⟩ := hpart.resolve_left hod'
  obtain ⟨hmem, hrev, _⟩ := walkFind_some h
  unfold walkList at hmem
  rw [List.mem_reverse, List.mem_filter, List.mem_map] at hmem
  obtain ⟨⟨ip, hip, hrn⟩, hpt⟩ := hmem
  have hpt' : partOf v ≤ t := by simpa using hpt
  obtain ⟨hr, hq0⟩ := mem_repsOf.1 hip
  unfold repNew at hrn
  simp only [Prod.mk.injEq] at hrn
  obtain ⟨rfl, hq⟩ := hrn
  have hnotnew : q ≠ newPod v cur upd ip.1 := by
    intro hq'
    apply hrev
    rw [hq']
    exact newPodRev_upd v cur upd ip.1 p hru hpt'
  split_ifs at hq with hfs
  · exact absurd hq.symm hnotnew
  · cases hs : slotOf b E (P.map (·.pod)) ip.1 with
    | none =>
      rw [hs] at hq0
      simp only [Option.getD_none] at hq0
      exact absurd (hq.symm.trans hq0) hnotnew
    | some q0 =>
      rw [hs] at hq0
      simp only [Option.getD_some] at hq0
      obtain ⟨c, hcm, hcp, hco, _⟩ := hc.slot_some hs
      refine ⟨c, hcm, by rw [hcp, ← hq0, hq], hco, hr, ?_, hrev, hpt', hod'⟩
      rw [hcp, ← hq0]; simpa using hfs

/-- **which objects a delete hits** -/
theorem delHits_iff (hc : PodsCtx setName P) (hpart : v.strat = .onDelete ∨ ∃ p, v.ru = some (some p) ∧ 0 ≤ p)
    (hb0 : 0 ≤ b) (hE : ∀ e ∈ E, 0 ≤ e) {c : CPod} (hm : c ∈ P) :
    DelHits (actsOf v cur upd b E P) c.pod.id ↔
      (inRange b E c.pod.ord = true ∧ c.pod.fs = true) ∨ inRange b E c.pod.ord = false ∨ IsTarget v cur upd b E P c := by
  have hnt : c.pod.terminating = false := (hc.settled c hm).1
  constructor
  · rintro ⟨o, w, hmem⟩
    unfold actsOf at hmem
    rw [List.mem_append, List.mem_append] at hmem
    rcases hmem with (hmem | hmem) | hmem
    · rw [List.mem_flatMap] at hmem
      obtain ⟨ip, hip, ha⟩ := hmem
      obtain ⟨hr, hq0⟩ := mem_repsOf.1 hip
      unfold repActs1 at ha
      split_ifs at ha with hfs hcr hok
      · simp only [List.mem_cons, Action.delete.injEq, List.not_mem_nil, or_false, reduceCtorEq] at ha
        obtain ⟨rfl, hid, _⟩ := ha
        cases hs : slotOf b E (P.map (·.pod)) ip.1 with
        | none =>
          rw [hs] at hq0; simp only [Option.getD_none] at hq0
          rw [hq0, newPod_fs] at hfs; cases hfs
        | some q0 =>
          rw [hs] at hq0; simp only [Option.getD_some] at hq0
          obtain ⟨c', hc', hcp, hco, _⟩ := hc.slot_some hs
          have : c' = c := hc.id_inj hc' hm (by rw [hcp, ← hq0, hid])
          subst this
          left
          exact ⟨by rw [hco]; exact hr, by rw [hcp, ← hq0]; exact hfs⟩
      · simp at ha
      · simp at ha
      · simp at ha
    · unfold condActs at hmem
      rw [List.mem_map] at hmem
      obtain ⟨q, hq, ha⟩ := hmem
      simp only [Action.delete.injEq] at ha
      rw [List.mem_filter, List.mem_reverse, L1c.mem_condemnedOf, List.mem_map] at hq
      obtain ⟨⟨⟨c', hc', rfl⟩, hcond⟩, _⟩ := hq
      have : c' = c := hc.id_inj hc' hm ha.2.1
      subst this
      right; left
      by_contra hr
      have hr' : inRange b E c'.pod.ord = true := by simpa using hr
      rw [inRange_not_condemned hr'] at hcond
      cases hcond
    · cases ht : tgtOf v cur upd b E P with
      | none =>
        unfold tgtOf at ht
        rw [ht] at hmem; simp [walkActs] at hmem
      | some tq =>
        obtain ⟨t, q⟩ := tq
        have ht' := ht
        unfold tgtOf at ht'
        rw [ht'] at hmem
        simp only [walkActs, List.mem_singleton, Action.delete.injEq] at hmem
        obtain ⟨c', hc', hcp, hco, _⟩ := target_is_pod hc hpart ht
        have : c' = c := hc.id_inj hc' hm (by rw [hcp]; exact hmem.2.1.symm)
        subst this
        right; right
        unfold IsTarget
        rw [ht, hco, hcp]
  · rintro (⟨hr, hfs⟩ | hr | ht)
    · refine ⟨c.pod.ord, .replaceFailed, ?_⟩
      unfold actsOf
      apply List.mem_append_left
      apply List.mem_append_left
      rw [List.mem_flatMap]
      refine ⟨(c.pod.ord, c.pod), mem_repsOf.2 ⟨hr, by simp [hc.slot_of_mem hm hr]⟩, ?_⟩
      unfold repActs1
      simp [hfs]
    · refine ⟨c.pod.ord, .scaleDown, ?_⟩
      unfold actsOf
      apply List.mem_append_left
      apply List.mem_append_right
      unfold condActs
      rw [List.mem_map]
      refine ⟨c.pod, ?_, rfl⟩
      rw [List.mem_filter, List.mem_reverse, L1c.mem_condemnedOf]
      refine ⟨⟨List.mem_map.2 ⟨c, hm, rfl⟩, ?_⟩, by simp [hnt]⟩
      rw [isCondemned_eq hb0 hE, contains_idxOf, hr]
      simp [(hc.own c hm).2.2.2.2.1]
    · refine ⟨c.pod.ord, .update, ?_⟩
      unfold actsOf
      apply List.mem_append_right
      unfold IsTarget tgtOf at ht
      rw [ht]
      simp [walkActs]

/-- no delete is addressed to an object created in this reconcile -/
theorem delHits_fresh (hc : PodsCtx setName P) (hpart : v.strat = .onDelete ∨ ∃ p, v.ru = some (some p) ∧ 0 ≤ p)
    {id : Nat} (hid : freshId ≤ id) : ¬ DelHits (actsOf v cur upd b E P) id := by
  rintro ⟨o, w, hmem⟩
  unfold actsOf at hmem
  rw [List.mem_append, List.mem_append] at hmem
  rcases hmem with (hmem | hmem) | hmem
  · rw [List.mem_flatMap] at hmem
    obtain ⟨ip, hip, ha⟩ := hmem
    obtain ⟨hr, hq0⟩ := mem_repsOf.1 hip
    unfold repActs1 at ha
    split_ifs at ha with hfs hcr hok
    · simp only [List.mem_cons, Action.delete.injEq, List.not_mem_nil, or_false, reduceCtorEq] at ha
      obtain ⟨rfl, hid', _⟩ := ha
      cases hs : slotOf b E (P.map (·.pod)) ip.1 with
      | none =>
        rw [hs] at hq0; simp only [Option.getD_none] at hq0
        rw [hq0, newPod_fs] at hfs; cases hfs
      | some q0 =>
        rw [hs] at hq0; simp only [Option.getD_some] at hq0
        obtain ⟨c', hc', hcp, _, _⟩ := hc.slot_some hs
        have := hc.id_lt hc'
        rw [hcp, ← hq0, ← hid'] at this
        omega
    · simp at ha
    · simp at ha
    · simp at ha
  · unfold condActs at hmem
    rw [List.mem_map] at hmem
    obtain ⟨q, hq, ha⟩ := hmem
    simp only [Action.delete.injEq] at ha
    rw [List.mem_filter, List.mem_reverse, L1c.mem_condemnedOf, List.mem_map] at hq
    obtain ⟨⟨⟨c', hc', rfl⟩, _⟩, _⟩ := hq
    have := hc.id_lt hc'
    omega
  · cases ht : tgtOf v cur upd b E P with
    | none =>
      unfold tgtOf at ht
      rw [ht] at hmem; simp [walkActs] at hmem
    | some tq =>
      obtain ⟨t, q⟩ := tq
      have ht' := ht
      unfold tgtOf at ht'
      rw [ht'] at hmem
      simp only [walkActs, List.mem_singleton, Action.delete.injEq] at hmem
      obtain ⟨c', hc', hcp, _, _⟩ := target_is_pod hc hpart ht
      have := hc.id_lt hc'
      rw [hcp] at this
      omega

end

end Asts.C02p

namespace Asts.C02p
open Asts Asts.L1c

theorem mem_news (setName : String) (orig : List CPod) (hno : ∀ o, wasOrphan setName orig o = false)
    (acts : List Action) (hfresh : ∀ id, freshId ≤ id → ¬ DelHits acts id) (x : CPod) :
    x ∈ news setName orig acts ↔ ∃ o rev, Action.create o rev ∈ acts ∧ x = mkPod setName o rev := by
  induction acts with
  | nil => simp [news]
  | cons a rest ih =>
    have hrest : ∀ id, freshId ≤ id → ¬ DelHits rest id := by
      intro id hid hd
      obtain ⟨o, w, hm⟩ := hd
      exact hfresh id hid ⟨o, w, List.mem_cons_of_mem _ hm⟩
    cases a with
    | create o rev =>
      unfold news
      rw [eff_mkPod setName orig hno rest o rev (hrest _ (by omega))]
      simp only [Option.toList_some, List.singleton_append, List.mem_cons, ih hrest, Action.create.injEq]
      constructor
      · rintro (rfl | ⟨o', rev', hm, rfl⟩)
        · exact ⟨o, rev, Or.inl ⟨rfl, rfl⟩, rfl⟩
        · exact ⟨o', rev', Or.inr hm, rfl⟩
      · rintro ⟨o', rev', (⟨rfl, rfl⟩ | hm), rfl⟩
        · exact Or.inl rfl
        · exact Or.inr ⟨o', rev', hm, rfl⟩
    | delete o id w =>
      unfold news
      rw [ih hrest]
      simp
    | update o =>
      unfold news
      rw [ih hrest]
      simp

section
variable {v : SetView} {cur upd : String} {b : Int} {E : List Int} {setName : String} {P : List CPod}

/-- **where a pod is created** -/
theorem create_mem_iff (hc : PodsCtx setName P) {o : Int} {rev : String} :
    Action.create o rev ∈ actsOf v cur upd b E P ↔
      inRange b E o = true ∧ rev = newPodRev v cur upd o ∧
        ((∀ c ∈ P, c.pod.ord ≠ o) ∨ ∃ c ∈ P, c.pod.ord = o ∧ c.pod.fs = true) := by
  unfold actsOf
  rw [List.mem_append, List.mem_append]
  constructor
  · rintro ((hmem | hmem) | hmem)
    · rw [List.mem_flatMap] at hmem
      obtain ⟨ip, hip, ha⟩ := hmem
      obtain ⟨hr, hq0⟩ := mem_repsOf.1 hip
      unfold repActs1 at ha
      split_ifs at ha with hfs hcr hok
      · simp only [List.mem_cons, reduceCtorEq, Action.create.injEq, List.not_mem_nil, or_false, false_or] at ha
        obtain ⟨rfl, rfl⟩ := ha
        refine ⟨hr, rfl, Or.inr ?_⟩
        cases hs : slotOf b E (P.map (·.pod)) ip.1 with
        | none =>
          rw [hs] at hq0; simp only [Option.getD_none] at hq0
          rw [hq0, newPod_fs] at hfs; cases hfs
        | some q0 =>
          rw [hs] at hq0; simp only [Option.getD_some] at hq0
          obtain ⟨c', hc', hcp, hco, _⟩ := hc.slot_some hs
          exact ⟨c', hc', hco, by rw [hcp, ← hq0]; exact hfs⟩
      · simp only [List.mem_singleton, Action.create.injEq] at ha
        obtain ⟨rfl, rfl⟩ := ha
        cases hs : slotOf b E (P.map (·.pod)) ip.1 with
        | none =>
          rw [hs] at hq0; simp only [Option.getD_none] at hq0
          refine ⟨hr, by rw [hq0]; rfl, Or.inl ?_⟩
          intro c hcm hco
          have := hc.slot_of_mem hcm (by rw [hco]; exact hr)
          rw [hco, hs] at this; cases this
        | some q0 =>
          rw [hs] at hq0; simp only [Option.getD_some] at hq0
          obtain ⟨c', hc', hcp, _, _⟩ := hc.slot_some hs
          have := (hc.own c' hc').2.2.2.2.2.2
          rw [hcp, ← hq0] at this
          simp [this] at hcr
      · simp at ha
      · simp at ha
    · unfold condActs at hmem
      simp at hmem
    · cases ht : walkTarget v upd ((repsOf v cur upd b E (P.map (·.pod))).map (repNew v cur upd)) with
      | none => rw [ht] at hmem; simp [walkActs] at hmem
      | some tq => rw [ht] at hmem; simp [walkActs] at hmem
  · rintro ⟨hr, rfl, hcase⟩
    left; left
    rw [List.mem_flatMap]
    rcases hcase with hnone | ⟨c, hcm, hco, hfs⟩
    · refine ⟨(o, newPod v cur upd o), mem_repsOf.2 ⟨hr, by simp [hc.slot_none hnone]⟩, ?_⟩
      unfold repActs1
      simp only [newPod_fs, newPod_created, Bool.false_eq_true, if_false, Bool.not_false, if_true]
      simp [newPod]
    · subst hco
      refine ⟨(c.pod.ord, c.pod), mem_repsOf.2 ⟨hr, by simp [hc.slot_of_mem hcm hr]⟩, ?_⟩
      unfold repActs1
      simp [hfs, newPod]

/-- a pod in range that lacks its identity gets an update -/
theorem update_mem (hc : PodsCtx setName P) {c : CPod} (hm : c ∈ P) (hr : inRange b E c.pod.ord = true)
    (hfs : c.pod.fs = false) (hid : c.pod.idOk = false) : Action.update c.pod.ord ∈ actsOf v cur upd b E P := by
  unfold actsOf
  apply List.mem_append_left
  apply List.mem_append_left
  rw [List.mem_flatMap]
  refine ⟨(c.pod.ord, c.pod), mem_repsOf.2 ⟨hr, by simp [hc.slot_of_mem hm hr]⟩, ?_⟩
  unfold repActs1
  simp [hfs, hid, (hc.own c hm).2.2.2.2.2.2]

end

end Asts.C02p
