import Asts.Proofs.C02_BClaim

/-! C02, worlds with pod objects that are not members of the set: the claim stage under the empty fault plan — members are
    kept or adopted, non-members the set controls are released, everything else is ignored — and what `applyPatches` then
    does with the log. -/
namespace Asts.C02p
open Asts

/-- the claim stage patches this pod's controller reference: a member orphan is adopted, a non-member the set controls is
    released -/
def needsFlip (c : CPod) : Bool := if c.member then c.owner != .self else c.owner == .self

/-- the calls of the claim stage: one uncached GET before the first adoption, one patch per adoption or release -/
def claimLogM : Bool → List CPod → List String
  | _, [] => []
  | m, c :: rest =>
    if needsFlip c then
      (if c.member && !m then ["get:set"] else []) ++ [s!"patch:pod:{c.name}"] ++ claimLogM (m || c.member) rest
    else claimLogM m rest

/-- a pod the claim stage can deal with: a member the set keeps or adopts, or any non-member -/
def ClaimM (c : CPod) : Prop := c.member = true → Claimable c

theorem claim_foldM (fresh : Fresh) (hg : fresh.gone = false) (hu : fresh.uidOk = true) (hd : fresh.deleting = false)
    (pods : List CPod) (hp : ∀ c ∈ pods, ClaimM c) :
    ∀ o : ClaimOutF, o.failed = false → (o.canAdopt = none ∨ o.canAdopt = some true) →
      ∃ m, pods.foldl (claimStep [] false fresh) o =
        { claimed := o.claimed ++ pods.filter (·.member), failed := false, canAdopt := m,
          tr := { log := o.tr.log ++ claimLogM o.canAdopt.isSome pods } } := by
  induction pods with
  | nil =>
    intro o hf _
    refine ⟨o.canAdopt, ?_⟩
    simp only [List.foldl_nil, claimLogM, List.append_nil, List.filter_nil]
    cases o; simp_all
  | cons c rest ih =>
    intro o hf hm
    have hrest := fun c hc => hp c (List.mem_cons_of_mem _ hc)
    rw [List.foldl_cons]
    by_cases hmem : c.member = true
    · obtain ⟨hown, hsel, _, hterm⟩ := hp c List.mem_cons_self hmem
      rcases hown with hs | hn
      · have hdec : claimDecision false c = .keep := by simp [claimDecision, hs, hsel, hmem]
        have hstep : claimStep [] false fresh o c = { o with claimed := o.claimed ++ [c] } := by
          simp [claimStep, hdec]
        rw [hstep]
        obtain ⟨m, hm'⟩ := ih hrest ⟨o.claimed ++ [c], o.failed, o.canAdopt, o.tr⟩ hf hm
        refine ⟨m, ?_⟩
        rw [hm']
        simp [claimLogM, needsFlip, hs, hmem]
      · have hdec : claimDecision false c = .adopt := by simp [claimDecision, hn, hsel, hmem, hterm]
        have hnf : needsFlip c = true := by simp [needsFlip, hmem, hn]
        rcases hm with hm | hm
        · have hstep : claimStep [] false fresh o c =
              { o with claimed := o.claimed ++ [c], canAdopt := some true,
                       tr := { log := o.tr.log ++ ["get:set"] ++ [s!"patch:pod:{c.name}"] } } := by
            simp [claimStep, hdec, hm, call_nil, hg, hu, hd]
          rw [hstep]
          obtain ⟨m, hm'⟩ := ih hrest ⟨o.claimed ++ [c], o.failed, some true, ⟨o.tr.log ++ ["get:set"] ++ [s!"patch:pod:{c.name}"]⟩⟩ hf (Or.inr rfl)
          refine ⟨m, ?_⟩
          rw [hm']
          simp [claimLogM, hnf, hm, hmem]
        · have hstep : claimStep [] false fresh o c =
              { o with claimed := o.claimed ++ [c],
                       tr := { log := o.tr.log ++ [s!"patch:pod:{c.name}"] } } := by
            simp [claimStep, hdec, hm, call_nil]
          rw [hstep]
          obtain ⟨m, hm'⟩ := ih hrest ⟨o.claimed ++ [c], o.failed, o.canAdopt, ⟨o.tr.log ++ [s!"patch:pod:{c.name}"]⟩⟩ hf (Or.inr hm)
          refine ⟨m, ?_⟩
          rw [hm']
          simp [claimLogM, hnf, hm, hmem]
    · have hmem' : c.member = false := by simpa using hmem
      by_cases hs : c.owner = .self
      · have hdec : claimDecision false c = .release := by simp [claimDecision, hs, hmem']
        have hnf : needsFlip c = true := by simp [needsFlip, hmem', hs]
        have hstep : claimStep [] false fresh o c = { o with tr := { log := o.tr.log ++ [s!"patch:pod:{c.name}"] } } := by
          simp [claimStep, hdec, call_nil]
        rw [hstep]
        obtain ⟨m, hm'⟩ := ih hrest ⟨o.claimed, o.failed, o.canAdopt, ⟨o.tr.log ++ [s!"patch:pod:{c.name}"]⟩⟩ hf hm
        refine ⟨m, ?_⟩
        rw [hm']
        simp [claimLogM, hnf, hmem']
      · have hdec : claimDecision false c = .ignore := by
          cases hco : c.owner with
          | self => exact absurd hco hs
          | none => simp [claimDecision, hco, hmem']
          | other => simp [claimDecision, hco]
        have hnf : needsFlip c = false := by simp [needsFlip, hmem', hs]
        have hstep : claimStep [] false fresh o c = o := by simp [claimStep, hdec]
        rw [hstep]
        obtain ⟨m, hm'⟩ := ih hrest o hf hm
        refine ⟨m, ?_⟩
        rw [hm']
        simp [claimLogM, hnf, hmem']

/-- **the claim stage under the empty fault plan**: exactly the members are claimed -/
theorem claim_nilM (fresh : Fresh) (hg : fresh.gone = false) (hu : fresh.uidOk = true) (hd : fresh.deleting = false)
    (pods : List CPod) (hp : ∀ c ∈ pods, ClaimM c) (l0 : List String) :
    ∃ m, claimPodsF [] false fresh pods { log := l0 } =
      { claimed := pods.filter (·.member), failed := false, canAdopt := m, tr := { log := l0 ++ claimLogM false pods } } := by
  rw [claimPodsF_eq_foldl]
  obtain ⟨m, hm⟩ := claim_foldM fresh hg hu hd pods hp { tr := { log := l0 } } rfl (Or.inl rfl)
  exact ⟨m, by rw [hm]; simp⟩

theorem foldl_claimLogM (Q : List CPod) (hQn : ((Q.filter needsFlip).map (·.name)).Nodup)
    (hcol : ∀ c ∈ Q, needsFlip c = true → ∀ ch ∈ c.name.toList, (ch == ':') = false) :
    ∀ (m : Bool) (P : List CPod),
      (claimLogM m Q).foldl patchStep P = P.map (flipAll ((Q.filter needsFlip).map (·.name))) := by
  induction Q with
  | nil =>
    intro m P
    have : flipAll [] = id := by funext c; simp [flipAll]
    simp [claimLogM, this]
  | cons c rest ih =>
    intro m P
    have hcol' := fun c hc => hcol c (List.mem_cons_of_mem _ hc)
    by_cases hs : needsFlip c = true
    · have hfc : (c :: rest).filter needsFlip = c :: rest.filter needsFlip := by
        rw [List.filter_cons]; simp [hs]
      rw [hfc, List.map_cons] at hQn ⊢
      rw [List.nodup_cons] at hQn
      simp only [claimLogM, hs, if_true, List.foldl_append]
      have hget : (if (c.member && !m) = true then ["get:set"] else ([] : List String)).foldl patchStep P = P := by
        split_ifs
        · simp [patchStep_noPatch noPatch_get_set]
        · rfl
      rw [hget, List.foldl_cons, List.foldl_nil, patchStep_patch c.name (hcol c List.mem_cons_self hs), ih hQn.2 hcol']
      unfold setPod
      rw [List.map_map]
      apply List.map_congr_left
      intro x _
      show flipAll _ (if (x.name == c.name) = true then flipOwner x else x) = flipAll _ x
      by_cases hx : x.name = c.name
      · have hx' : (x.name == c.name) = true := by simpa using hx
        rw [if_pos hx']
        have hnot : ((rest.filter needsFlip).map (·.name)).contains x.name = false := by
          rw [hx]
          cases hcon : ((rest.filter needsFlip).map (·.name)).contains c.name
          · rfl
          · exact absurd (List.contains_iff_mem.1 hcon) hQn.1
        unfold flipAll
        rw [flipOwner_name, hnot, List.contains_cons, hx']
        simp
      · have hx' : (x.name == c.name) = false := by simpa using hx
        rw [if_neg (by simp [hx'])]
        unfold flipAll
        rw [List.contains_cons, hx', Bool.false_or]
    · have hs' : needsFlip c = false := by simpa using hs
      have hfc : (c :: rest).filter needsFlip = rest.filter needsFlip := by
        rw [List.filter_cons]; simp [hs']
      rw [hfc] at hQn ⊢
      simp only [claimLogM, hs', Bool.false_eq_true, if_false]
      rw [ih hQn hcol']

/-- what the claim stage's patches leave of a pod: a member is owned, a non-member is not the set's -/
def norm1 (c : CPod) : CPod := if needsFlip c then flipOwner c else c

/-- **the patches of the claim stage**: every member orphan becomes the set's own, every non-member the set controlled
    is released, nothing else changes -/
theorem claimLogM_norm (pods : List CPod) (hn : (pods.map (·.name)).Nodup)
    (hcol : ∀ c ∈ pods, needsFlip c = true → ∀ ch ∈ c.name.toList, (ch == ':') = false) :
    (claimLogM false pods).foldl patchStep pods = pods.map norm1 := by
  have hQn : ((pods.filter needsFlip).map (·.name)).Nodup := (List.Sublist.map _ List.filter_sublist).nodup hn
  rw [foldl_claimLogM pods hQn hcol]
  apply List.map_congr_left
  intro c hc
  unfold flipAll norm1
  by_cases hf : needsFlip c = true
  · have : ((pods.filter needsFlip).map (·.name)).contains c.name = true := by
      rw [List.contains_iff_mem, List.mem_map]
      exact ⟨c, List.mem_filter.2 ⟨hc, hf⟩, rfl⟩
    rw [this, hf]
  · have hf' : needsFlip c = false := by simpa using hf
    have : ((pods.filter needsFlip).map (·.name)).contains c.name = false := by
      cases hcon : ((pods.filter needsFlip).map (·.name)).contains c.name
      · rfl
      · rw [List.contains_iff_mem, List.mem_map] at hcon
        obtain ⟨c', hc', hce⟩ := hcon
        rw [List.mem_filter] at hc'
        have : c' = c := List.inj_on_of_nodup_map hn hc'.1 hc hce
        rw [this, hf'] at hc'
        exact absurd hc'.2 (by decide)
    rw [this, hf']

theorem norm1_member (c : CPod) : (norm1 c).member = c.member := by
  unfold norm1 flipOwner; split_ifs <;> (try rfl) <;> split <;> rfl

theorem norm1_of_member {c : CPod} (hm : c.member = true) (ho : c.owner = .self ∨ c.owner = .none) :
    norm1 c = { c with owner := .self } := by
  unfold norm1 needsFlip flipOwner
  rcases ho with h | h
  · simp only [hm, if_true, h]
    have : (Owner.self != Owner.self) = false := rfl
    rw [this]
    simp only [Bool.false_eq_true, if_false]
    cases c; simp_all
  · simp [hm, h]

theorem norm1_nonmember_owner {c : CPod} (hm : c.member = false) : (norm1 c).owner ≠ .self := by
  unfold norm1 needsFlip flipOwner
  simp only [hm, Bool.false_eq_true, if_false]
  by_cases hs : c.owner = .self
  · simp [hs]
  · have : (c.owner == Owner.self) = false := by simpa using hs
    simp only [this, Bool.false_eq_true, if_false]
    exact hs

end Asts.C02p
