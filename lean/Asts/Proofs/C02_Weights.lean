import Asts.Proofs.C02_GNext
import Mathlib.Algebra.Order.BigOperators.Group.List

/-! C02: the measure, as a function of a pod list; weights are insensitive to order and ids. -/
namespace Asts.C02p
open Asts Asts.L1c

theorem find_ord_some {l : List CPod} (hnd : (l.map (·.pod.ord)).Nodup) {c : CPod} (hc : c ∈ l) :
    l.find? (·.pod.ord == c.pod.ord) = some c :=
  find_unique l _ c hc (by simp) (fun p hp hk => ord_inj_of_nodup hnd hp hc (by simpa using hk))

theorem find_ord_none {l : List CPod} {o : Int} (h : ∀ c ∈ l, c.pod.ord ≠ o) : l.find? (·.pod.ord == o) = none := by
  rw [List.find?_eq_none]
  intro c hc
  simpa using h c hc

theorem wOf_some {v : SetView} {upd : String} {l : List CPod} (hnd : (l.map (·.pod.ord)).Nodup) {c : CPod} (hc : c ∈ l) :
    wOf v upd l c.pod.ord = wPod v upd c.pod.ord c := by
  unfold wOf; rw [find_ord_some hnd hc]

theorem wOf_none {v : SetView} {upd : String} {l : List CPod} {o : Int} (h : ∀ c ∈ l, c.pod.ord ≠ o) : wOf v upd l o = 1 := by
  unfold wOf; rw [find_ord_none h]

theorem wOf_keyPerm {v : SetView} {upd : String} {A B : List CPod} (hk : KeyPerm A B) (hnd : (B.map (·.pod.ord)).Nodup) (o : Int) :
    wOf v upd A o = wOf v upd B o := by
  have hndA : (A.map (·.pod.ord)).Nodup := (hk.ords.nodup_iff).2 hnd
  by_cases hex : ∃ b ∈ B, b.pod.ord = o
  · obtain ⟨b, hb, rfl⟩ := hex
    obtain ⟨a, ha, hka⟩ := hk.symm.mem hb
    have hao : a.pod.ord = b.pod.ord := key_transfer (·.pod.ord) (fun _ => rfl) hka
    rw [wOf_some hnd hb, ← hao, wOf_some hndA ha, hao]
    exact key_transfer (wPod v upd b.pod.ord) (fun _ => rfl) hka
  · have hB : ∀ b ∈ B, b.pod.ord ≠ o := fun b hb hbo => hex ⟨b, hb, hbo⟩
    have hA : ∀ a ∈ A, a.pod.ord ≠ o := by
      intro a ha hao
      obtain ⟨b, hb, hkb⟩ := hk.mem ha
      exact hB b hb ((key_transfer (·.pod.ord) (fun _ => rfl) hkb).trans hao)
    rw [wOf_none hA, wOf_none hB]

/-- the "RollingUpdate still has to replace it" part of the weight -/
def outW (v : SetView) (upd : String) (o : Int) (rev : String) : Nat :=
  if v.strat == .rolling && partOf v ≤ o && rev != upd then 3 else 0

theorem wPod_live {v : SetView} {upd : String} {o : Int} {c : CPod} (hfs : c.pod.fs = false) (hnt : c.pod.terminating = false) :
    wPod v upd o c = outW v upd o c.pod.rev + (if c.pod.idOk then 0 else 1) := by
  unfold wPod outW
  have : (c.pod.failed || c.pod.succeeded) = false := hfs
  simp [this, hnt]

theorem wPod_fs {v : SetView} {upd : String} {o : Int} {c : CPod} (hfs : c.pod.fs = true) (hnt : c.pod.terminating = false) :
    wPod v upd o c = 2 := by
  unfold wPod
  have : (c.pod.failed || c.pod.succeeded) = true := hfs
  simp [this, hnt]

/-- a new pod weighs nothing when the `rollingUpdate` block is present (or the strategy is OnDelete) -/
theorem outW_new (v : SetView) (hpart : v.strat = .onDelete ∨ ∃ p, v.ru = some (some p) ∧ 0 ≤ p) (cur upd : String) (o : Int) :
    outW v upd o (newPodRev v cur upd o) = 0 := by
  unfold outW
  by_cases hc : (v.strat == .rolling && decide (partOf v ≤ o)) = true
  · simp only [Bool.and_eq_true, beq_iff_eq, decide_eq_true_eq] at hc
    have hnod : v.strat ≠ .onDelete := by rw [hc.1]; simp
    obtain ⟨p, hru, _⟩ := hpart.resolve_left hnod
    rw [newPodRev_upd v cur _ o p hru hc.2]
    simp
  · have hc' : (v.strat == .rolling && decide (partOf v ≤ o)) = false := by simpa using hc
    rw [hc']
    rfl

/-- the measure of a pod list against a desired set -/
def muOf (v : SetView) (upd : String) (D : List Int) (pods : List CPod) : Nat :=
  (D.map (wOf v upd pods)).sum + 2 * (pods.filter (fun c => !D.contains c.pod.ord)).length

theorem muPods_eq (i : SyncIn) :
    muPods i = muOf i.view (updName i) (desired (replicasOf i.view) i.view.slots) i.pods := rfl

theorem muOf_keyPerm {v : SetView} {upd : String} {D : List Int} {A B : List CPod} (hk : KeyPerm A B)
    (hnd : (B.map (·.pod.ord)).Nodup) : muOf v upd D A = muOf v upd D B := by
  unfold muOf
  congr 1
  · congr 1
    apply List.map_congr_left
    intro o _
    exact wOf_keyPerm hk hnd o
  · congr 1
    exact (hk.filter (fun c => !D.contains c.pod.ord) (fun _ => rfl)).length

end Asts.C02p
