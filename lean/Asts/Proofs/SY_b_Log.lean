import Asts.Proofs.SY_b_Truncate
import Asts.Proofs.SY_b_GetRevs

/-! The string call log, phase by phase: every entry a phase appends has one of finitely many literal shapes
    (`verb:resource:` followed by a name). Reasoning is on the characters of the rendered entries (`String.toList`), not
    on `String.splitOn`. -/
namespace Asts.SYb
open Asts

/-- `e` starts with `p`, character by character -/
def pre (p e : String) : Bool := p.toList.isPrefixOf e.toList

/-- the log `l1` extends `l0` by entries that all satisfy `S` -/
def Ext (S : String → Prop) (l0 l1 : List String) : Prop := ∃ mid, l1 = l0 ++ mid ∧ ∀ e ∈ mid, S e

theorem Ext.refl (S : String → Prop) (l : List String) : Ext S l l := ⟨[], by simp, by simp⟩

theorem Ext.trans {S : String → Prop} {a b c : List String} (h1 : Ext S a b) (h2 : Ext S b c) : Ext S a c := by
  obtain ⟨m1, rfl, h1⟩ := h1
  obtain ⟨m2, rfl, h2⟩ := h2
  refine ⟨m1 ++ m2, by simp, ?_⟩
  intro e he
  rcases List.mem_append.mp he with he | he
  · exact h1 e he
  · exact h2 e he

theorem Ext.mono {S T : String → Prop} (hst : ∀ e, S e → T e) {a b : List String} (h : Ext S a b) : Ext T a b := by
  obtain ⟨m, rfl, h⟩ := h
  exact ⟨m, rfl, fun e he => hst e (h e he)⟩

theorem Ext.one {S : String → Prop} (l : List String) {k : String} (hk : S k) : Ext S l (l ++ [k]) :=
  ⟨[k], rfl, by simpa using hk⟩

theorem Ext.call {S : String → Prop} (t : Tr) (plan : List Fault) {k : String} (hk : S k) : Ext S t.log (t.call plan k).1.log :=
  Ext.one t.log hk

theorem Ext.filter_pre {S : String → Prop} {P : String} (hS : ∀ e, S e → pre P e = false) {a b : List String}
    (h : Ext S a b) : b.filter (pre P) = a.filter (pre P) := by
  obtain ⟨m, rfl, h⟩ := h
  rw [List.filter_append]
  have : m.filter (pre P) = [] := by
    rw [List.filter_eq_nil_iff]
    intro e he
    rw [hS e (h e he)]; simp
  rw [this, List.append_nil]

/-! ## shapes -/

/-- entries of the adoption stage -/
def AdoptShape (e : String) : Prop := e = "list:revs" ∨ e = "get:set" ∨ ∃ n : String, e = s!"update:rev:{n}" ∨ e = s!"patch:rev:{n}"
/-- entries of `ClaimPods` -/
def ClaimShape (e : String) : Prop := e = "get:set" ∨ ∃ n : String, e = s!"patch:pod:{n}"
/-- entries of the reconcile proper and of the status write -/
def TailShape (e : String) : Prop :=
  e = "updatestatus" ∨ ∃ n : String, e = s!"create:pod:{n}" ∨ e = s!"delete:pod:{n}" ∨ e = s!"update:pod:{n}"

macro "shape_simp" : tactic =>
  `(tactic| simp [pre, toString, String.toList_append, List.isPrefixOf, RevCall.key, delKey])

theorem AdoptShape.not_del {e : String} (h : AdoptShape e) : pre "delete:rev:" e = false := by
  rcases h with rfl | rfl | ⟨n, rfl | rfl⟩ <;> shape_simp
theorem AdoptShape.not_create {e : String} (h : AdoptShape e) : pre "create:rev:" e = false := by
  rcases h with rfl | rfl | ⟨n, rfl | rfl⟩ <;> shape_simp
theorem ClaimShape.not_del {e : String} (h : ClaimShape e) : pre "delete:rev:" e = false := by
  rcases h with rfl | ⟨n, rfl⟩ <;> shape_simp
theorem ClaimShape.not_create {e : String} (h : ClaimShape e) : pre "create:rev:" e = false := by
  rcases h with rfl | ⟨n, rfl⟩ <;> shape_simp
theorem TailShape.not_del {e : String} (h : TailShape e) : pre "delete:rev:" e = false := by
  rcases h with rfl | ⟨n, rfl | rfl | rfl⟩ <;> shape_simp
theorem TailShape.not_create {e : String} (h : TailShape e) : pre "create:rev:" e = false := by
  rcases h with rfl | ⟨n, rfl | rfl | rfl⟩ <;> shape_simp
theorem listrevs_not_del : pre "delete:rev:" "list:revs" = false := by shape_simp
theorem listrevs_not_create : pre "create:rev:" "list:revs" = false := by shape_simp

theorem RevCall.not_del (c : RevCall) : pre "delete:rev:" c.key = false := by cases c <;> shape_simp
theorem RevCall.pre_create (c : RevCall) : pre "create:rev:" c.key = c.isCreate := by
  cases c <;> simp [RevCall.isCreate] <;> shape_simp
theorem delKey_pre_del (r : Rev) : pre "delete:rev:" (delKey r) = true := by shape_simp
theorem delKey_not_create (r : Rev) : pre "create:rev:" (delKey r) = false := by shape_simp

theorem delKey_inj {a b : Rev} (h : delKey a = delKey b) : a.name = b.name := by
  simp only [delKey, toString] at h
  have := congrArg String.toList h
  simpa [String.toList_append, String.ext_iff] using this

theorem filter_pre_del_calls (cs : List RevCall) : (cs.map RevCall.key).filter (pre "delete:rev:") = [] := by
  rw [List.filter_eq_nil_iff]
  intro e he
  obtain ⟨c, _, rfl⟩ := List.mem_map.mp he
  rw [RevCall.not_del]; simp

theorem filter_pre_create_calls (cs : List RevCall) :
    (cs.map RevCall.key).filter (pre "create:rev:") = (cs.filter RevCall.isCreate).map RevCall.key := by
  induction cs with
  | nil => rfl
  | cons c cs ih =>
    rw [List.map_cons, List.filter_cons, List.filter_cons, RevCall.pre_create]
    cases c.isCreate <;> simp [ih]

theorem filter_pre_del_dels (ds : List Rev) : (ds.map delKey).filter (pre "delete:rev:") = ds.map delKey := by
  rw [List.filter_eq_self]
  intro e he
  obtain ⟨r, _, rfl⟩ := List.mem_map.mp he
  exact delKey_pre_del r

theorem filter_pre_create_dels (ds : List Rev) : (ds.map delKey).filter (pre "create:rev:") = [] := by
  rw [List.filter_eq_nil_iff]
  intro e he
  obtain ⟨r, _, rfl⟩ := List.mem_map.mp he
  rw [delKey_not_create]; simp

/-! ## the phases -/

theorem foldl_inv {α β} (P : β → Prop) (xs : List α) (init : β) (f : β → α → β)
    (hstep : ∀ b x, P b → P (f b x)) (h0 : P init) : P (xs.foldl f init) := by
  induction xs generalizing init with
  | nil => exact h0
  | cons x xs ih => exact ih _ (hstep _ _ h0)

theorem listRevsF_log (plan : List Fault) (s : RevSt) : Ext (· = "list:revs") s.tr.log (listRevsF plan s).1.tr.log := by
  have h1 : Ext (· = "list:revs") s.tr.log (s.tr.call plan "list:revs").1.log := Ext.call _ plan rfl
  have h2 : Ext (· = "list:revs") (s.tr.call plan "list:revs").1.log ((s.tr.call plan "list:revs").1.call plan "list:revs").1.log :=
    Ext.call _ plan rfl
  unfold listRevsF
  simp only
  split
  · exact h1
  · split
    · exact h1.trans h2
    · exact h1.trans h2

theorem claim_log (plan : List Fault) (del : Bool) (fresh : Fresh) (pods : List CPod) (tr : Tr) :
    Ext ClaimShape tr.log (claimPodsF plan del fresh pods tr).tr.log := by
  unfold claimPodsF
  apply foldl_inv (fun o : ClaimOutF => Ext ClaimShape tr.log o.tr.log)
  · intro o c ho
    have hp : ClaimShape s!"patch:pod:{c.name}" := Or.inr ⟨c.name, rfl⟩
    have hg : ClaimShape "get:set" := Or.inl rfl
    split
    · exact ho
    · exact ho
    · simp only
      split <;> exact ho.trans (Ext.call _ plan hp)
    · simp only
      split
      · simp only
        split
        · exact ho
        · split <;> exact ho.trans (Ext.call _ plan hp)
      · simp only
        split
        · exact ho.trans (Ext.call _ plan hg)
        · split <;> exact (ho.trans (Ext.call _ plan hg)).trans (Ext.call _ plan hp)
  · exact Ext.refl _ _

theorem statusWriteF_ext (plan : List Fault) (gone : Bool) (fuel : Nat) (t : Tr) :
    Ext TailShape t.log (statusWriteF plan gone fuel t).1.log := by
  have hk : TailShape "updatestatus" := Or.inl rfl
  induction fuel generalizing t with
  | zero => exact Ext.refl _ _
  | succ fuel ih =>
    unfold statusWriteF
    simp only
    split
    · exact Ext.call _ plan hk
    · split
      · exact Ext.call _ plan hk
      · exact (Ext.call _ plan hk).trans (ih _)
    · exact Ext.call _ plan hk

theorem actLog_shape (setName : String) (plan : List Fault) (pods claimed : List CPod) (b : Int) (E : List Int)
    (a : Action) : ∀ e ∈ actLog setName plan pods claimed b E a, TailShape e := by
  intro e he
  cases a with
  | create o r => simp only [actLog, List.mem_singleton] at he; exact Or.inr ⟨_, Or.inl he⟩
  | delete o id w => simp only [actLog, List.mem_singleton] at he; exact Or.inr ⟨_, Or.inr (Or.inl he)⟩
  | update o =>
    simp only [actLog] at he
    have := List.eq_of_mem_replicate he
    exact Or.inr ⟨_, Or.inr (Or.inr this)⟩

theorem acts_ext (setName : String) (plan : List Fault) (pods claimed : List CPod) (b : Int) (E : List Int)
    (acts : List Action) (l : List String) :
    Ext TailShape l (l ++ (acts.map (actLog setName plan pods claimed b E)).flatten) := by
  refine ⟨_, rfl, ?_⟩
  intro e he
  rw [List.mem_flatten] at he
  obtain ⟨l', hl', he'⟩ := he
  obtain ⟨a, _, rfl⟩ := List.mem_map.mp hl'
  exact actLog_shape _ _ _ _ _ _ a e he'

end Asts.SYb
