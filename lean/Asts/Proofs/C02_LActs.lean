import Asts.Proofs.C02_LWalk

/-! C02, legacy boundary mode: the calls of a reconcile without its final update-walk delete, for both policies, and what the
    update walk's target can be when a new pod may come back at the current revision. -/
namespace Asts.C02p
open Asts Asts.L1c

section
variable {v : SetView} {cur upd : String} {b : Int} {E : List Int} {setName : String} {P : List CPod}

/-- the Parallel reconcile without the update walk -/
def actsA (v : SetView) (cur upd : String) (b : Int) (E : List Int) (P : List CPod) : List Action :=
  (repsOf v cur upd b E (P.map (·.pod))).flatMap (repActs1 v cur upd) ++
  condActs (condemnedOf b E (P.map (·.pod))).reverse

theorem actsOf_split (v : SetView) (cur upd : String) (b : Int) (E : List Int) (P : List CPod) :
    actsOf v cur upd b E P = actsA v cur upd b E P ++ walkActs (tgtOf v cur upd b E P) := rfl

theorem walkActs_no_create (t : Option (Int × Pod)) (o : Int) (rev : String) : Action.create o rev ∉ walkActs t := by
  cases t with
  | none => simp [walkActs]
  | some tq => simp [walkActs]

theorem walkActs_no_update (t : Option (Int × Pod)) (o : Int) : Action.update o ∉ walkActs t := by
  cases t with
  | none => simp [walkActs]
  | some tq => simp [walkActs]

theorem parA_create_iff (hc : PodsCtx setName P) {o : Int} {rev : String} :
    Action.create o rev ∈ actsA v cur upd b E P ↔
      inRange b E o = true ∧ rev = newPodRev v cur upd o ∧
        ((∀ c ∈ P, c.pod.ord ≠ o) ∨ ∃ c ∈ P, c.pod.ord = o ∧ c.pod.fs = true) := by
  rw [← create_mem_iff hc, actsOf_split, List.mem_append]
  constructor
  · exact Or.inl
  · rintro (h | h)
    · exact h
    · exact absurd h (walkActs_no_create _ _ _)

theorem parA_update_mem (hc : PodsCtx setName P) {c : CPod} (hm : c ∈ P) (hr : inRange b E c.pod.ord = true)
    (hfs : c.pod.fs = false) (hid : c.pod.idOk = false) : Action.update c.pod.ord ∈ actsA v cur upd b E P := by
  have := update_mem (v := v) (cur := cur) (upd := upd) hc hm hr hfs hid
  rw [actsOf_split, List.mem_append] at this
  rcases this with h | h
  · exact h
  · exact absurd h (walkActs_no_update _ _)

/-- which pods the Parallel reconcile deletes before the update walk: the Failed/Succeeded ones in range and everything
    outside the desired set -/
theorem parA_del_iff (hc : PodsCtx setName P) (hb0 : 0 ≤ b) (hE : ∀ e ∈ E, 0 ≤ e) {c : CPod} (hm : c ∈ P) :
    DelHits (actsA v cur upd b E P) c.pod.id ↔
      (inRange b E c.pod.ord = true ∧ c.pod.fs = true) ∨ inRange b E c.pod.ord = false := by
  have hnt : c.pod.terminating = false := (hc.settled c hm).1
  constructor
  · rintro ⟨o, w, hmem⟩
    unfold actsA at hmem
    rw [List.mem_append] at hmem
    rcases hmem with hmem | hmem
    · rw [List.mem_flatMap] at hmem
      obtain ⟨ip, hip, ha⟩ := hmem
      obtain ⟨hr, hq0⟩ := mem_repsOf.1 hip
      unfold repActs1 at ha
      split_ifs at ha with hfs hcr hok
      · simp only [List.mem_cons, Action.delete.injEq, List.not_mem_nil, or_false, reduceCtorEq] at ha
        obtain ⟨rfl, hid, _⟩ := ha
        cases hs : slotOf b E (P.map (·.pod)) ip.1 with
        | none =>
          rw [hs] at hq0; simp only [Option.getD_none] at hq0
          rw [hq0, newPod_fs] at hfs; cases hfs
        | some q0 =>
          rw [hs] at hq0; simp only [Option.getD_some] at hq0
          obtain ⟨c', hc', hcp, hco, _⟩ := hc.slot_some hs
          have : c' = c := hc.id_inj hc' hm (by rw [hcp, ← hq0, hid])
          subst this
          left
          exact ⟨by rw [hco]; exact hr, by rw [hcp, ← hq0]; exact hfs⟩
      · simp at ha
      · simp at ha
      · simp at ha
    · unfold condActs at hmem
      rw [List.mem_map] at hmem
      obtain ⟨q, hq, ha⟩ := hmem
      simp only [Action.delete.injEq] at ha
      rw [List.mem_filter, List.mem_reverse, L1c.mem_condemnedOf, List.mem_map] at hq
      obtain ⟨⟨⟨c', hc', rfl⟩, hcond⟩, _⟩ := hq
      have : c' = c := hc.id_inj hc' hm ha.2.1
      subst this
      right
      by_contra hr
      have hr' : inRange b E c'.pod.ord = true := by simpa using hr
      rw [inRange_not_condemned hr'] at hcond
      cases hcond
  · rintro (⟨hr, hfs⟩ | hr)
    · refine ⟨c.pod.ord, .replaceFailed, ?_⟩
      unfold actsA
      apply List.mem_append_left
      rw [List.mem_flatMap]
      refine ⟨(c.pod.ord, c.pod), mem_repsOf.2 ⟨hr, by simp [hc.slot_of_mem hm hr]⟩, ?_⟩
      unfold repActs1
      simp [hfs]
    · refine ⟨c.pod.ord, .scaleDown, ?_⟩
      unfold actsA
      apply List.mem_append_right
      unfold condActs
      rw [List.mem_map]
      refine ⟨c.pod, ?_, rfl⟩
      rw [List.mem_filter, List.mem_reverse, L1c.mem_condemnedOf]
      refine ⟨⟨List.mem_map.2 ⟨c, hm, rfl⟩, ?_⟩, by simp [hnt]⟩
      rw [isCondemned_eq hb0 hE, contains_idxOf, hr]
      simp [(hc.own c hm).2.2.2.2.1]

theorem parA_fresh (hc : PodsCtx setName P) {id : Nat} (hid : freshId ≤ id) : ¬ DelHits (actsA v cur upd b E P) id := by
  rintro ⟨o, w, hmem⟩
  unfold actsA at hmem
  rw [List.mem_append] at hmem
  rcases hmem with hmem | hmem
  · rw [List.mem_flatMap] at hmem
    obtain ⟨ip, hip, ha⟩ := hmem
    obtain ⟨hr, hq0⟩ := mem_repsOf.1 hip
    unfold repActs1 at ha
    split_ifs at ha with hfs hcr hok
    · simp only [List.mem_cons, Action.delete.injEq, List.not_mem_nil, or_false, reduceCtorEq] at ha
      obtain ⟨rfl, hid', _⟩ := ha
      cases hs : slotOf b E (P.map (·.pod)) ip.1 with
      | none =>
        rw [hs] at hq0; simp only [Option.getD_none] at hq0
        rw [hq0, newPod_fs] at hfs; cases hfs
      | some q0 =>
        rw [hs] at hq0; simp only [Option.getD_some] at hq0
        obtain ⟨c', hc', hcp, _, _⟩ := hc.slot_some hs
        have := hc.id_lt hc'
        rw [hcp, ← hq0, ← hid'] at this
        omega
    · simp at ha
    · simp at ha
    · simp at ha
  · unfold condActs at hmem
    rw [List.mem_map] at hmem
    obtain ⟨q, hq, ha⟩ := hmem
    simp only [Action.delete.injEq] at ha
    rw [List.mem_filter, List.mem_reverse, L1c.mem_condemnedOf, List.mem_map] at hq
    obtain ⟨⟨⟨c', hc', rfl⟩, _⟩, _⟩ := hq
    have := hc.id_lt hc'
    omega

theorem parA_facts (hc : PodsCtx setName P) (hb0 : 0 ≤ b) (hE : ∀ e ∈ E, 0 ≤ e) :
    ActFacts v cur upd b E P (actsA v cur upd b E P) := by
  refine ⟨fun id hid => parA_fresh hc hid, ?_, ?_, ?_, ?_⟩
  · have := createsOf_actsOf_nodup v cur upd b E P
    rw [actsOf_split, createsOf_append, createsOf_walkActs, List.append_nil] at this
    exact this
  · intro o rev hcr
    obtain ⟨hr, hrev, hcase⟩ := (parA_create_iff hc).1 hcr
    refine ⟨hr, hrev, ?_⟩
    rcases hcase with hnone | ⟨c, hcm, hco, hfs⟩
    · exact Or.inl hnone
    · exact Or.inr ⟨c, hcm, hco, hfs, (parA_del_iff hc hb0 hE hcm).2 (Or.inl ⟨by rw [hco]; exact hr, hfs⟩)⟩
  · intro c hcm _ hfs hr
    exact ⟨_, (parA_create_iff hc).2 ⟨hr, rfl, Or.inr ⟨c, hcm, rfl, hfs⟩⟩⟩
  · intro c hcm hd hfs hr
    exfalso
    rcases (parA_del_iff hc hb0 hE hcm).1 hd with ⟨_, h2⟩ | h2
    · rw [hfs] at h2; cases h2
    · rw [hr] at h2; cases h2

end

end Asts.C02p

namespace Asts.C02p
open Asts Asts.L1c

/-- the OrderedReady reconcile without the update walk -/
def monoA (v : SetView) (cur upd : String) (b : Int) (E : List Int) (P : List CPod) : List Action :=
  (monoRep v cur upd (repsOf v cur upd b E (P.map (·.pod)))).1 ++
    (if (monoRep v cur upd (repsOf v cur upd b E (P.map (·.pod)))).2 then
      (if (condemnedOf b E (P.map (·.pod))).reverse = [] then [] else monoCond (condemnedOf b E (P.map (·.pod))).reverse)
     else [])

/-- the update walk's target under OrderedReady (the walk runs only over a full set with nothing to scale in) -/
def monoTgt (v : SetView) (cur upd : String) (b : Int) (E : List Int) (P : List CPod) : Option (Int × Pod) :=
  if (monoRep v cur upd (repsOf v cur upd b E (P.map (·.pod)))).2 = true ∧ (condemnedOf b E (P.map (·.pod))).reverse = []
  then walkTarget v upd (repsOf v cur upd b E (P.map (·.pod))) else none

theorem monoActsOf_split (v : SetView) (cur upd : String) (b : Int) (E : List Int) (P : List CPod) :
    monoActsOf v cur upd b E P = monoA v cur upd b E P ++ walkActs (monoTgt v cur upd b E P) := by
  unfold monoActsOf monoA monoTgt
  simp only
  by_cases hfl : (monoRep v cur upd (repsOf v cur upd b E (P.map (·.pod)))).2 = true
  · by_cases hce : (condemnedOf b E (P.map (·.pod))).reverse = []
    · simp [hfl, hce]
    · simp [hfl, hce, walkActs]
  · simp [hfl, walkActs]

section
variable {h : Hashing} {j : SyncIn}

theorem monoA_delete_src (hk : MonoK0 h j) {o : Int} {id : Nat} {w : Why}
    (hm : Action.delete o id w ∈ monoA j.view hk.1.norm.curRev.name hk.1.norm.updRev.name (bOf j) (EOf j) j.pods) :
    ∃ c ∈ j.pods, c.pod.id = id ∧
      ((c.pod.fs = true ∧ inRange (bOf j) (EOf j) c.pod.ord = true ∧
          ∃ rev, Action.create c.pod.ord rev ∈ monoA j.view hk.1.norm.curRev.name hk.1.norm.updRev.name (bOf j) (EOf j) j.pods) ∨
       inRange (bOf j) (EOf j) c.pod.ord = false) := by
  have hs := hk.1
  have hn := hs.norm
  have hctx := hs.ctx
  unfold monoA at hm ⊢
  rw [List.mem_append] at hm
  rcases hm with hm | hm
  · obtain ⟨q, hq, hfs, hid, hcr⟩ := monoRep_delete hm
    obtain ⟨hr, hq0⟩ := mem_repsOf.1 hq
    cases hsl : slotOf (bOf j) (EOf j) (j.pods.map (·.pod)) o with
    | none =>
      rw [hsl] at hq0; simp only [Option.getD_none] at hq0
      rw [hq0, newPod_fs] at hfs; cases hfs
    | some q0 =>
      rw [hsl] at hq0; simp only [Option.getD_some] at hq0
      obtain ⟨c, hcm, hcp, hco, _⟩ := hctx.slot_some hsl
      refine ⟨c, hcm, by rw [hcp, ← hq0, hid], Or.inl ⟨by rw [hcp, ← hq0]; exact hfs, by rw [hco]; exact hr, ?_⟩⟩
      exact ⟨_, List.mem_append_left _ (by rw [hco]; exact hcr)⟩
  · split_ifs at hm with hfl hce
    · cases hm
    · cases hcl : (condemnedOf (bOf j) (EOf j) (j.pods.map (·.pod))).reverse with
      | nil => exact absurd hcl hce
      | cons c0 rest =>
        rw [hcl] at hm
        simp only [monoCond, List.mem_singleton, Action.delete.injEq] at hm
        have hc0 : c0 ∈ (condemnedOf (bOf j) (EOf j) (j.pods.map (·.pod))).reverse := by rw [hcl]; exact List.mem_cons_self
        rw [List.mem_reverse, L1c.mem_condemnedOf, List.mem_map] at hc0
        obtain ⟨⟨c, hcm, rfl⟩, hcond⟩ := hc0
        refine ⟨c, hcm, hm.2.1.symm, Or.inr ?_⟩
        by_contra hr
        rw [inRange_not_condemned (by simpa using hr)] at hcond
        cases hcond
    · cases hm

theorem monoA_create_src (hk : MonoK0 h j) {o : Int} {rev : String}
    (hm : Action.create o rev ∈ monoA j.view hk.1.norm.curRev.name hk.1.norm.updRev.name (bOf j) (EOf j) j.pods) :
    Action.create o rev ∈ (monoRep j.view hk.1.norm.curRev.name hk.1.norm.updRev.name
      (repsOf j.view hk.1.norm.curRev.name hk.1.norm.updRev.name (bOf j) (EOf j) (j.pods.map (·.pod)))).1 := by
  unfold monoA at hm
  rw [List.mem_append] at hm
  rcases hm with hm | hm
  · exact hm
  · exfalso
    split_ifs at hm with h1 h2
    · cases hm
    · cases hcl : (condemnedOf (bOf j) (EOf j) (j.pods.map (·.pod))).reverse with
      | nil => exact absurd hcl h2
      | cons c0 rest => rw [hcl] at hm; simp [monoCond] at hm
    · cases hm

theorem monoA_facts (hk : MonoK0 h j) :
    ActFacts j.view hk.1.norm.curRev.name hk.1.norm.updRev.name (bOf j) (EOf j) j.pods
      (monoA j.view hk.1.norm.curRev.name hk.1.norm.updRev.name (bOf j) (EOf j) j.pods) := by
  have hs := hk.1
  have hn := hs.norm
  have hctx := hs.ctx
  refine ⟨?_, ?_, ?_, ?_, ?_⟩
  · rintro id hid ⟨o, w, hm⟩
    obtain ⟨c, hcm, hcid, _⟩ := monoA_delete_src hk hm
    have := hctx.id_lt hcm
    omega
  · have hle : (createsOf (monoA j.view hn.curRev.name hn.updRev.name (bOf j) (EOf j) j.pods)).length ≤ 1 := by
      unfold monoA
      rw [createsOf_append]
      have htail : createsOf (if (monoRep j.view hn.curRev.name hn.updRev.name
          (repsOf j.view hn.curRev.name hn.updRev.name (bOf j) (EOf j) (j.pods.map (·.pod)))).2 = true then
            if (condemnedOf (bOf j) (EOf j) (j.pods.map (·.pod))).reverse = [] then []
            else monoCond (condemnedOf (bOf j) (EOf j) (j.pods.map (·.pod))).reverse
          else []) = [] := by
        split_ifs
        · rfl
        · cases (condemnedOf (bOf j) (EOf j) (j.pods.map (·.pod))).reverse <;> rfl
        · rfl
      rw [htail, List.append_nil]
      exact monoRep_creates_le_one _ _ _ _
    match hcl : createsOf (monoA j.view hn.curRev.name hn.updRev.name (bOf j) (EOf j) j.pods), hle with
    | [], _ => exact List.nodup_nil
    | [a], _ => exact List.nodup_singleton a
    | _ :: _ :: _, hle => simp at hle
  · intro o rev hcr
    obtain ⟨q, hq, hcase⟩ := monoRep_create (monoA_create_src hk hcr)
    obtain ⟨hr, hq0⟩ := mem_repsOf.1 hq
    refine ⟨hr, ?_⟩
    rcases hcase with ⟨hfs, hrev, hdel⟩ | ⟨hfs, hcreated, hrev⟩
    · cases hsl : slotOf (bOf j) (EOf j) (j.pods.map (·.pod)) o with
      | none =>
        rw [hsl] at hq0; simp only [Option.getD_none] at hq0
        rw [hq0, newPod_fs] at hfs; cases hfs
      | some q0 =>
        rw [hsl] at hq0; simp only [Option.getD_some] at hq0
        obtain ⟨c, hcm, hcp, hco, _⟩ := hctx.slot_some hsl
        refine ⟨hrev, Or.inr ⟨c, hcm, hco, by rw [hcp, ← hq0]; exact hfs, o, .replaceFailed, ?_⟩⟩
        unfold monoA
        rw [hcp, ← hq0]
        exact List.mem_append_left _ hdel
    · cases hsl : slotOf (bOf j) (EOf j) (j.pods.map (·.pod)) o with
      | none =>
        rw [hsl] at hq0; simp only [Option.getD_none] at hq0
        refine ⟨by rw [hrev, hq0]; rfl, Or.inl ?_⟩
        intro c hcm hco
        have := hctx.slot_of_mem hcm (by rw [hco]; exact hr)
        rw [hco, hsl] at this; cases this
      | some q0 =>
        rw [hsl] at hq0; simp only [Option.getD_some] at hq0
        obtain ⟨c, hcm, hcp, _, _⟩ := hctx.slot_some hsl
        have := (hn.pods c hcm).2.2.2.2.2.2
        rw [hcp, ← hq0, hcreated] at this; cases this
  · rintro c hcm ⟨o, w, hm⟩ hfs hr
    obtain ⟨c', hc', hcid, hcase⟩ := monoA_delete_src hk hm
    have : c' = c := hctx.id_inj hc' hcm hcid
    subst this
    rcases hcase with ⟨_, _, hcre⟩ | h2
    · exact hcre
    · rw [hr] at h2; cases h2
  · rintro c hcm ⟨o, w, hm⟩ hfs hr
    exfalso
    obtain ⟨c', hc', hcid, hcase⟩ := monoA_delete_src hk hm
    have : c' = c := hctx.id_inj hc' hcm hcid
    subst this
    rcases hcase with ⟨h1, _⟩ | h2
    · rw [hfs] at h1; cases h1
    · rw [hr] at h2; cases h2

end

end Asts.C02p
