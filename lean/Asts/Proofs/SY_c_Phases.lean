import Asts.Proofs.SY_c_Events
import Asts.Proofs.SY_c_Retry

/-! # C09 (i): phase by phase — a phase that reports success has swallowed benign failures only

Every lemma has the shape: if every fault that fired at a position `≥ n` of the log so far is benign (`BenignFrom … n`),
and the phase reports success, the same holds of the log the phase leaves. With `n :=` the length of the log before the
phase this reads: *a non-benign fault firing in this phase makes the phase fail.* -/
set_option linter.unusedTactic false
namespace Asts.SYc

variable (cx : Cx) (plan : List Fault) (n : Nat)

/-! ### `listRevsF` -/

theorem listRevsF_spec (s : RevSt) :
    (listRevsF plan s).1.store = s.store ∧
    s.tr.log <+: (listRevsF plan s).1.tr.log ∧
    ((listRevsF plan s).2 = none ∨ (listRevsF plan s).2 = some (listRevisions s.store)) ∧
    (BenignFrom cx plan n s.tr.log → (listRevsF plan s).2 ≠ none →
      BenignFrom cx plan n (listRevsF plan s).1.tr.log) := by
  unfold listRevsF
  simp only [call_eq]
  cases h1 : planAt plan "list:revs" (cnt s.tr.log "list:revs") with
  | some k => exact ⟨rfl, List.prefix_append _ _, Or.inl rfl, fun _ h => absurd rfl h⟩
  | none =>
    simp only
    cases h2 : planAt plan "list:revs" (cnt (s.tr.log ++ ["list:revs"]) "list:revs") with
    | some k => exact ⟨rfl, (List.prefix_append _ _).trans (List.prefix_append _ _), Or.inl rfl, fun _ h => absurd rfl h⟩
    | none =>
      refine ⟨rfl, (List.prefix_append _ _).trans (List.prefix_append _ _), Or.inr rfl, fun h0 _ => ?_⟩
      exact benignFrom_snoc_none (benignFrom_snoc_none h0 h1) h2

/-- with an empty plan the listing never fails -/
theorem listRevsF_nil (s : RevSt) :
    listRevsF [] s = ({ s with tr := { log := s.tr.log ++ ["list:revs"] ++ ["list:revs"] } }, some (listRevisions s.store)) := rfl

/-! ### `adoptOrphanRevisionsF` -/

theorem foldOk_prefix {α} (f : RevSt → α → RevSt × Bool) (hf : ∀ s x, s.tr.log <+: (f s x).1.tr.log) :
    ∀ (xs : List α) (s : RevSt), s.tr.log <+: (foldOk xs s f).1.tr.log
  | [], s => by simp [foldOk]
  | x :: xs, s => by
    rw [foldOk_cons]
    split
    · exact (hf s x).trans (foldOk_prefix f hf xs _)
    · exact hf s x

/-- label-sync of one listed revision -/
def labelStep (plan : List Fault) (s : RevSt) (r : Rev) : RevSt × Bool :=
  if r.marker then
    match planAt plan (kUpdateRev r.name) (cnt s.tr.log (kUpdateRev r.name)) with
    | some _ => ({ s with tr := { log := s.tr.log ++ [kUpdateRev r.name] } }, false)
    | none => ({ store := s.store.map (fun x => if x.name == r.name then { x with selMatch := true } else x),
                 tr := { log := s.tr.log ++ [kUpdateRev r.name] } }, true)
  else (s, true)

/-- adoption of one listed revision -/
def ownStep (plan : List Fault) (s : RevSt) (r : Rev) : RevSt × Bool :=
  if r.owner != .none then (s, true)
  else
    match planAt plan (kPatchRev r.name) (cnt s.tr.log (kPatchRev r.name)) with
    | some _ => ({ s with tr := { log := s.tr.log ++ [kPatchRev r.name] } }, false)
    | none => ({ store := s.store.map (fun x => if x.name == r.name then { x with owner := .self } else x),
                 tr := { log := s.tr.log ++ [kPatchRev r.name] } }, true)

/-- what follows the listing when it contains an orphan -/
def adoptTail (plan : List Fault) (fresh : Fresh) (revs : List Rev) (s1 : RevSt) : RevSt × Outcome :=
  let r1 := foldOk revs s1 (labelStep plan)
  if !r1.2 then (r1.1, .err) else
  let e := planAt plan "get:set" (cnt r1.1.tr.log "get:set")
  let s2 : RevSt := { r1.1 with tr := { log := r1.1.tr.log ++ ["get:set"] } }
  if e.isSome || fresh.gone || !fresh.uidOk || fresh.deleting then (s2, .err) else
  let r2 := foldOk revs s2 (ownStep plan)
  (r2.1, if r2.2 then .ok else .err)

/-- `adoptOrphanRevisionsF`, cut into stages (definitional) -/
theorem adopt_eq (del : Bool) (fresh : Fresh) (s : RevSt) :
    adoptOrphanRevisionsF plan del fresh s =
      if del then (s, .ok) else
      match listRevsF plan s with
      | (s, none) => (s, .err)
      | (s, some revs) => if !(revs.any (·.owner == .none)) then (s, .ok) else adoptTail plan fresh revs s := rfl

theorem labelStep_prefix (s : RevSt) (r : Rev) : s.tr.log <+: (labelStep plan s r).1.tr.log := by
  unfold labelStep
  split_ifs
  · split <;> exact List.prefix_append _ _
  · exact List.prefix_refl _

theorem ownStep_prefix (s : RevSt) (r : Rev) : s.tr.log <+: (ownStep plan s r).1.tr.log := by
  unfold ownStep
  split_ifs
  · exact List.prefix_refl _
  · split <;> exact List.prefix_append _ _

theorem labelStep_benign (s : RevSt) (r : Rev) (h0 : BenignFrom cx plan n s.tr.log)
    (hok : (labelStep plan s r).2 = true) : BenignFrom cx plan n (labelStep plan s r).1.tr.log := by
  unfold labelStep at hok ⊢
  split_ifs at hok ⊢
  · cases hp : planAt plan (kUpdateRev r.name) (cnt s.tr.log (kUpdateRev r.name)) with
    | some k => rw [hp] at hok; simp at hok
    | none => exact benignFrom_snoc_none h0 hp
  · exact h0

theorem ownStep_benign (s : RevSt) (r : Rev) (h0 : BenignFrom cx plan n s.tr.log)
    (hok : (ownStep plan s r).2 = true) : BenignFrom cx plan n (ownStep plan s r).1.tr.log := by
  unfold ownStep at hok ⊢
  split_ifs at hok ⊢
  · exact h0
  · cases hp : planAt plan (kPatchRev r.name) (cnt s.tr.log (kPatchRev r.name)) with
    | some k => rw [hp] at hok; simp at hok
    | none => exact benignFrom_snoc_none h0 hp

theorem adoptTail_prefix (fresh : Fresh) (revs : List Rev) (s : RevSt) :
    s.tr.log <+: (adoptTail plan fresh revs s).1.tr.log := by
  unfold adoptTail
  have h1 := foldOk_prefix _ (labelStep_prefix plan) revs s
  simp only
  have h2 := foldOk_prefix _ (ownStep_prefix plan) revs
    { store := (foldOk revs s (labelStep plan)).1.store,
      tr := { log := (foldOk revs s (labelStep plan)).1.tr.log ++ ["get:set"] } }
  split_ifs
  · exact h1
  · exact h1.trans (List.prefix_append _ _)
  · exact h1.trans ((List.prefix_append _ _).trans h2)
  · exact h1.trans ((List.prefix_append _ _).trans h2)

theorem adoptTail_benign (fresh : Fresh) (revs : List Rev) (s : RevSt)
    (h0 : BenignFrom cx plan n s.tr.log) (hok : (adoptTail plan fresh revs s).2 = .ok) :
    BenignFrom cx plan n (adoptTail plan fresh revs s).1.tr.log := by
  unfold adoptTail at hok ⊢
  simp only at hok ⊢
  split_ifs at hok ⊢ with hok1 hfr hok2
  · have hok1' : (foldOk revs s (labelStep plan)).2 = true := by simpa using hok1
    have h1 := foldOk_inv (fun s : RevSt => BenignFrom cx plan n s.tr.log) _ revs s h0
      (fun b r _ hb hs => labelStep_benign cx plan n b r hb hs) hok1'
    have hget : planAt plan "get:set" (cnt (foldOk revs s (labelStep plan)).1.tr.log "get:set") = none := by
      simp only [Bool.or_eq_true, not_or] at hfr
      simpa using hfr.1.1.1
    exact foldOk_inv (fun s : RevSt => BenignFrom cx plan n s.tr.log) _ revs _ (benignFrom_snoc_none h1 hget)
      (fun b r _ hb hs => ownStep_benign cx plan n b r hb hs) hok2

theorem adopt_prefix (del : Bool) (fresh : Fresh) (s : RevSt) :
    s.tr.log <+: (adoptOrphanRevisionsF plan del fresh s).1.tr.log := by
  rw [adopt_eq]
  split_ifs with hdel
  · exact List.prefix_refl _
  · have hl := (listRevsF_spec ⟨[], fun _ => False, fun _ => True⟩ plan 0 s).2.1
    rcases hls : listRevsF plan s with ⟨s1, _ | revs⟩
    · rw [hls] at hl; exact hl
    · rw [hls] at hl
      simp only at hl ⊢
      split_ifs with hany
      · exact hl
      · exact hl.trans (adoptTail_prefix plan fresh revs s1)

theorem adopt_benign (del : Bool) (fresh : Fresh) (s : RevSt)
    (h0 : BenignFrom cx plan n s.tr.log) (hok : (adoptOrphanRevisionsF plan del fresh s).2 = .ok) :
    BenignFrom cx plan n (adoptOrphanRevisionsF plan del fresh s).1.tr.log := by
  rw [adopt_eq] at hok ⊢
  split_ifs at hok ⊢ with hdel
  · exact h0
  · have hl := (listRevsF_spec cx plan n s).2.2.2 h0
    rcases hls : listRevsF plan s with ⟨s1, _ | revs⟩
    · rw [hls] at hok; simp at hok
    · rw [hls] at hl hok
      have h1 : BenignFrom cx plan n s1.tr.log := hl (by simp)
      simp only at hok ⊢
      split_ifs at hok ⊢ with hany
      · exact h1
      · exact adoptTail_benign cx plan n fresh revs s1 h1 hok

/-! ### `claimPodsF` -/

/-- the once-only uncached check of `CanAdopt` -/
def canAdoptStep (plan : List Fault) (fresh : Fresh) (o : ClaimOutF) : ClaimOutF × Bool :=
  match o.canAdopt with
  | some b => (o, b)
  | none =>
    let e := planAt plan "get:set" (cnt o.tr.log "get:set")
    let b := e.isNone && !fresh.gone && fresh.uidOk && !fresh.deleting
    ({ o with tr := { log := o.tr.log ++ ["get:set"] }, canAdopt := some b }, b)

/-- `ClaimPods`, one pod -/
def claimStep (plan : List Fault) (del : Bool) (fresh : Fresh) (o : ClaimOutF) (c : CPod) : ClaimOutF :=
  match claimDecision del c with
  | .keep => { o with claimed := o.claimed ++ [c] }
  | .ignore => o
  | .release =>
    let o' := { o with tr := { log := o.tr.log ++ [kPatchPod c.name] } }
    match planAt plan (kPatchPod c.name) (cnt o.tr.log (kPatchPod c.name)) with
    | some .notFound | some .invalid | none => o'
    | some _ => { o' with failed := true }
  | .adopt =>
    let oc := canAdoptStep plan fresh o
    if !oc.2 then { oc.1 with failed := true }
    else
      let o' := { oc.1 with tr := { log := oc.1.tr.log ++ [kPatchPod c.name] } }
      match planAt plan (kPatchPod c.name) (cnt oc.1.tr.log (kPatchPod c.name)) with
      | none => { o' with claimed := o'.claimed ++ [c] }
      | some .notFound => o'
      | some _ => { o' with failed := true }

theorem claimPodsF_eq (del : Bool) (fresh : Fresh) (ps : List CPod) (tr : Tr) :
    claimPodsF plan del fresh ps tr = ps.foldl (claimStep plan del fresh) { tr := tr } := rfl

theorem claimDecision_release {del : Bool} {c : CPod} (h : claimDecision del c = .release) : c.owner = .self := by
  unfold claimDecision at h
  cases ho : c.owner <;> rw [ho] at h <;> simp only at h
  · cases h
  · split_ifs at h

theorem canAdoptStep_prefix (fresh : Fresh) (o : ClaimOutF) : o.tr.log <+: (canAdoptStep plan fresh o).1.tr.log := by
  unfold canAdoptStep
  cases o.canAdopt
  · exact List.prefix_append _ _
  · exact List.prefix_refl _

theorem claimStep_prefix (del : Bool) (fresh : Fresh) (o : ClaimOutF) (c : CPod) :
    o.tr.log <+: (claimStep plan del fresh o c).tr.log := by
  unfold claimStep
  cases claimDecision del c <;> simp only
  · exact List.prefix_refl _
  · have := canAdoptStep_prefix plan fresh o
    split_ifs
    · exact this
    · split <;> exact this.trans (List.prefix_append _ _)
  · split <;> exact List.prefix_append _ _
  · exact List.prefix_refl _

theorem canAdoptStep_benign (fresh : Fresh) (o : ClaimOutF) (h0 : BenignFrom cx plan n o.tr.log)
    (hb : (canAdoptStep plan fresh o).2 = true) : BenignFrom cx plan n (canAdoptStep plan fresh o).1.tr.log := by
  unfold canAdoptStep at hb ⊢
  cases hc : o.canAdopt with
  | some b => exact h0
  | none =>
    rw [hc] at hb
    simp only [Bool.and_eq_true, Option.isNone_iff_eq_none] at hb
    exact benignFrom_snoc_none h0 hb.1.1.1

theorem canAdoptStep_failed (fresh : Fresh) (o : ClaimOutF) : (canAdoptStep plan fresh o).1.failed = o.failed := by
  unfold canAdoptStep
  cases o.canAdopt <;> rfl

/-- one pod of the claim loop: as long as nothing has been recorded as failed, every fault that fired is benign -/
theorem claimStep_benign (del : Bool) (fresh : Fresh) (o : ClaimOutF) (c : CPod) (hc : c ∈ cx.pods)
    (hnm : cx.nameOk c.name) (h0 : o.failed = false → BenignFrom cx plan n o.tr.log) :
    (claimStep plan del fresh o c).failed = false → BenignFrom cx plan n (claimStep plan del fresh o c).tr.log := by
  unfold claimStep
  cases hd : claimDecision del c <;> simp only
  · exact h0
  · -- adopt
    split_ifs with hcan
    · intro h; simp at h
    · have hcan' : (canAdoptStep plan fresh o).2 = true := by simpa using hcan
      cases hp : planAt plan (kPatchPod c.name) (cnt (canAdoptStep plan fresh o).1.tr.log (kPatchPod c.name)) with
      | none =>
        simp only
        intro hf
        rw [canAdoptStep_failed] at hf
        exact benignFrom_snoc_none (canAdoptStep_benign cx plan n fresh o (h0 hf) hcan') hp
      | some k =>
        cases k <;> simp only <;> intro hf <;> try (simp at hf)
        rw [canAdoptStep_failed] at hf
        refine benignFrom_snoc (canAdoptStep_benign cx plan n fresh o (h0 hf) hcan') ?_
        rw [hp]
        intro kind hk
        cases hk
        exact Or.inr (Or.inr (Or.inl ⟨rfl, c.name, hnm, rfl⟩))
  · -- release
    cases hp : planAt plan (kPatchPod c.name) (cnt o.tr.log (kPatchPod c.name)) with
    | none => simp only; intro hf; exact benignFrom_snoc_none (h0 hf) hp
    | some k =>
      cases k <;> simp only <;> intro hf <;> try (simp at hf)
      · refine benignFrom_snoc (h0 hf) ?_
        rw [hp]
        intro kind hk
        cases hk
        exact Or.inr (Or.inr (Or.inl ⟨rfl, c.name, hnm, rfl⟩))
      · refine benignFrom_snoc (h0 hf) ?_
        rw [hp]
        intro kind hk
        cases hk
        exact Or.inr (Or.inr (Or.inr (Or.inl ⟨rfl, c, hc, claimDecision_release hd, hnm, rfl⟩)))
  · exact h0

theorem foldl_claim_benign (del : Bool) (fresh : Fresh) (hnm : ∀ c ∈ cx.pods, cx.nameOk c.name) :
    ∀ (ps : List CPod) (o : ClaimOutF), (∀ c ∈ ps, c ∈ cx.pods) → (o.failed = false → BenignFrom cx plan n o.tr.log) →
      (ps.foldl (claimStep plan del fresh) o).failed = false →
      BenignFrom cx plan n (ps.foldl (claimStep plan del fresh) o).tr.log
  | [], o, _, h0 => h0
  | c :: ps, o, hsub, h0 => by
    simp only [List.foldl_cons]
    exact foldl_claim_benign del fresh hnm ps _ (fun c' hc' => hsub c' (by simp [hc']))
      (claimStep_benign cx plan n del fresh o c (hsub c (by simp)) (hnm c (hsub c (by simp))) h0)

theorem foldl_claim_prefix (del : Bool) (fresh : Fresh) :
    ∀ (ps : List CPod) (o : ClaimOutF), o.tr.log <+: (ps.foldl (claimStep plan del fresh) o).tr.log
  | [], _ => List.prefix_refl _
  | c :: ps, o => (claimStep_prefix plan del fresh o c).trans (foldl_claim_prefix del fresh ps _)

theorem claim_prefix (del : Bool) (fresh : Fresh) (ps : List CPod) (tr : Tr) :
    tr.log <+: (claimPodsF plan del fresh ps tr).tr.log := by
  rw [claimPodsF_eq]; exact foldl_claim_prefix plan del fresh ps { tr := tr }

/-- `claimPodsF`: if no claim failed, the faults that fired are NotFound on a patch or Invalid on a release patch -/
theorem claim_benign (del : Bool) (fresh : Fresh) (tr : Tr) (hnm : ∀ c ∈ cx.pods, cx.nameOk c.name)
    (h0 : BenignFrom cx plan n tr.log)
    (hok : (claimPodsF plan del fresh cx.pods tr).failed = false) :
    BenignFrom cx plan n (claimPodsF plan del fresh cx.pods tr).tr.log := by
  rw [claimPodsF_eq] at hok ⊢
  exact foldl_claim_benign cx plan n del fresh hnm cx.pods _ (fun _ h => h) (fun _ => h0) hok

/-! ### `renumberF`, `createRevLoopF`, `getRevisionsF` -/

theorem renumberF_prefix (name : String) (m : Int) (fuel : Nat) (s : RevSt) :
    s.tr.log <+: (renumberF plan name m fuel s).1.tr.log := by
  obtain ⟨ext, h, _⟩ := renumberF_log plan name m fuel s
  rw [h]; exact List.prefix_append _ _

/-- a renumbering that succeeded saw Conflicts only (absorbed by the retry loop), each followed by the refreshing Get
    whose own failure is ignored -/
theorem renumberF_benign (name : String) (m : Int) (hnm : cx.nameOk name) :
    ∀ (fuel : Nat) (s : RevSt), BenignFrom cx plan n s.tr.log → (renumberF plan name m fuel s).2 = true →
      BenignFrom cx plan n (renumberF plan name m fuel s).1.tr.log
  | 0, s, _, hok => by simp [renumberF] at hok
  | fuel + 1, s, h0, hok => by
    rw [renumberF_succ] at hok ⊢
    cases hp : planAt plan (kUpdateRev name) (cnt s.tr.log (kUpdateRev name)) with
    | none => exact benignFrom_snoc_none h0 hp
    | some k =>
      rw [hp] at hok
      simp only at hok ⊢
      split_ifs at hok ⊢ with hk
      · simp only [Bool.and_eq_true, beq_iff_eq] at hk
        refine renumberF_benign name m hnm fuel _ ?_ hok
        refine benignFrom_snoc (benignFrom_snoc h0 ?_) ?_
        · rw [hp, hk.1]
          intro kind hkind
          cases hkind
          exact Or.inr (Or.inl ⟨rfl, Or.inr (Or.inl ⟨name, hnm, rfl⟩)⟩)
        · rw [events_getLast_snoc, hp]
          intro kind _
          exact Or.inr (Or.inr (Or.inr (Or.inr (Or.inr ⟨name, k, hnm, rfl, rfl⟩))))

theorem createRevLoopF_succ (h : Hashing) (fresh : Rev) (fuel : Nat) (cc : Int) (s : RevSt) :
    createRevLoopF h plan fresh (fuel + 1) cc s =
      let nm := h.nameOf fresh.data cc
      let e := planAt plan (kCreateRev nm) (cnt s.tr.log (kCreateRev nm))
      let s1 : RevSt := { s with tr := { log := s.tr.log ++ [kCreateRev nm] } }
      let exists_ := s.store.find? (·.name == nm)
      let kind : Option ErrKind :=
        match e with | some k => some k | none => if exists_.isSome then some .alreadyExists else none
      match kind with
      | none =>
        let r := { fresh with name := nm, hashNum := h.hashNumOf fresh.data cc }
        ({ s1 with store := insertByName r s1.store }, some (r, cc))
      | some .alreadyExists =>
        let e2 := planAt plan (kGetRev nm) (cnt s1.tr.log (kGetRev nm))
        let s2 : RevSt := { s1 with tr := { log := s1.tr.log ++ [kGetRev nm] } }
        match e2, exists_ with
        | none, some ex =>
          if ex.data == fresh.data then (s2, some (ex, cc)) else createRevLoopF h plan fresh fuel (cc + 1) s2
        | _, _ => (s2, none)
      | some _ => (s1, none) := by
  rw [createRevLoopF]; rfl

theorem createRevLoopF_prefix (h : Hashing) (fresh : Rev) :
    ∀ (fuel : Nat) (cc : Int) (s : RevSt), s.tr.log <+: (createRevLoopF h plan fresh fuel cc s).1.tr.log
  | 0, _, _ => by simp [createRevLoopF]
  | fuel + 1, cc, s => by
    rw [createRevLoopF_succ]
    simp only
    split
    · exact List.prefix_append _ _
    · split
      · split_ifs
        · exact (List.prefix_append _ _).trans (List.prefix_append _ _)
        · exact (List.prefix_append _ _).trans ((List.prefix_append _ _).trans
            (createRevLoopF_prefix h fresh fuel (cc + 1)
              { store := s.store, tr := { log := s.tr.log ++ [kCreateRev (h.nameOf fresh.data cc)] ++
                  [kGetRev (h.nameOf fresh.data cc)] } }))
      · exact (List.prefix_append _ _).trans (List.prefix_append _ _)
    · exact List.prefix_append _ _

/-- a probe for a free name that succeeded saw AlreadyExists answers only -/
theorem createRevLoopF_benign (h : Hashing) (fresh : Rev) (hh : ∀ d c, cx.nameOk (h.nameOf d c)) :
    ∀ (fuel : Nat) (cc : Int) (s : RevSt), BenignFrom cx plan n s.tr.log →
      (createRevLoopF h plan fresh fuel cc s).2 ≠ none →
      BenignFrom cx plan n (createRevLoopF h plan fresh fuel cc s).1.tr.log
  | 0, _, _, _, hok => by simp [createRevLoopF] at hok
  | fuel + 1, cc, s, h0, hok => by
    rw [createRevLoopF_succ] at hok ⊢
    simp only at hok ⊢
    have hcreate : ∀ k, (match planAt plan (kCreateRev (h.nameOf fresh.data cc)) (cnt s.tr.log (kCreateRev (h.nameOf fresh.data cc))) with
          | some k => some k
          | none => if (s.store.find? (fun r : Rev => r.name == h.nameOf fresh.data cc)).isSome then some ErrKind.alreadyExists else none) = k →
        (k = none ∨ k = some .alreadyExists) →
        BenignFrom cx plan n (s.tr.log ++ [kCreateRev (h.nameOf fresh.data cc)]) := by
      intro k hk hk'
      refine benignFrom_snoc h0 ?_
      cases hp : planAt plan (kCreateRev (h.nameOf fresh.data cc)) (cnt s.tr.log (kCreateRev (h.nameOf fresh.data cc))) with
      | none => exact benign_none _ _ _
      | some k' =>
        rw [hp] at hk
        simp only at hk
        rcases hk' with hk' | hk'
        · rw [hk'] at hk; cases hk
        · rw [hk'] at hk
          cases hk
          intro kind hkind
          cases hkind
          exact Or.inr (Or.inr (Or.inr (Or.inr (Or.inl ⟨rfl, _, hh _ _, rfl⟩))))
    generalize hkind : (match planAt plan (kCreateRev (h.nameOf fresh.data cc)) (cnt s.tr.log (kCreateRev (h.nameOf fresh.data cc))) with
          | some k => some k
          | none => if (s.store.find? (fun r : Rev => r.name == h.nameOf fresh.data cc)).isSome then some ErrKind.alreadyExists else none) = kind
      at hok ⊢
    rcases kind with _ | k
    · exact hcreate _ hkind (Or.inl rfl)
    · have hne : k = .alreadyExists := by
        by_contra hne
        cases k <;> simp at hne <;> simp at hok
      subst hne
      simp only at hok ⊢
      have h1 := hcreate _ hkind (Or.inr rfl)
      generalize he2 : planAt plan (kGetRev (h.nameOf fresh.data cc))
        (cnt (s.tr.log ++ [kCreateRev (h.nameOf fresh.data cc)]) (kGetRev (h.nameOf fresh.data cc))) = e2 at hok ⊢
      generalize hex : s.store.find? (fun r : Rev => r.name == h.nameOf fresh.data cc) = ex at hok ⊢
      rcases e2 with _ | k2 <;> rcases ex with _ | ex <;> simp only at hok ⊢ <;> first | (exfalso; simp at hok; done) | skip
      have h2 : BenignFrom cx plan n (s.tr.log ++ [kCreateRev (h.nameOf fresh.data cc)] ++ [kGetRev (h.nameOf fresh.data cc)]) :=
        benignFrom_snoc_none h1 he2
      split_ifs at hok ⊢
      · exact h2
      · exact createRevLoopF_benign h fresh hh fuel _ _ h2 hok

/-- the choice of the update revision: re-use, renumber or create -/
def pickRevF (h : Hashing) (plan : List Fault) (fresh : Rev) (cc0 : Int) (revs : List Rev) (s : RevSt) :
    RevSt × Option (Rev × Int) :=
  match (revs.filter (fun r => equalRev r fresh)).getLast?, revs.getLast? with
  | some e, some l =>
    if equalRev l e then (s, some (l, cc0))
    else if e.number == fresh.number then (s, some (e, cc0))
    else
      let r := renumberF plan e.name fresh.number 4 s
      (r.1, if r.2 then some ({ e with number := fresh.number }, cc0) else none)
  | _, _ => createRevLoopF h plan fresh (s.store.length + 8) cc0 s

/-- the revision object the template hashes to -/
def freshRev (h : Hashing) (template : String) (cc0 : Int) (revs : List Rev) : Rev :=
  { name := h.nameOf template cc0, number := nextRevision revs, ctime := 0, data := template,
    hashNum := h.hashNumOf template cc0, owner := .self, selMatch := true, marker := false }

theorem getRevisionsF_eq (h : Hashing) (template scr : String) (cc0 : Int) (revs : List Rev) (s : RevSt) :
    getRevisionsF h plan template scr cc0 revs s =
      match pickRevF h plan (freshRev h template cc0 revs) cc0 revs s with
      | (s, none) => (s, none)
      | (s, some (upd, cc)) => (s, some ((revs.find? (·.name == scr)).getD upd, upd, cc)) := rfl

theorem pickRevF_prefix (h : Hashing) (fresh : Rev) (cc0 : Int) (revs : List Rev) (s : RevSt) :
    s.tr.log <+: (pickRevF h plan fresh cc0 revs s).1.tr.log := by
  unfold pickRevF
  split
  · split_ifs
    · exact List.prefix_refl _
    · exact List.prefix_refl _
    · exact renumberF_prefix plan _ _ _ _
  · exact createRevLoopF_prefix plan h fresh _ _ _

theorem pickRevF_benign (h : Hashing) (fresh : Rev) (cc0 : Int) (revs : List Rev) (s : RevSt)
    (hh : ∀ d c, cx.nameOk (h.nameOf d c)) (hrevs : ∀ r ∈ revs, cx.nameOk r.name)
    (h0 : BenignFrom cx plan n s.tr.log) (hok : (pickRevF h plan fresh cc0 revs s).2 ≠ none) :
    BenignFrom cx plan n (pickRevF h plan fresh cc0 revs s).1.tr.log := by
  unfold pickRevF at hok ⊢
  generalize ha : (revs.filter (fun r => equalRev r fresh)).getLast? = a at hok ⊢
  generalize revs.getLast? = b at hok ⊢
  rcases a with _ | e <;> rcases b with _ | l <;> simp only at hok ⊢
  · exact createRevLoopF_benign cx plan n h fresh hh _ _ _ h0 hok
  · exact createRevLoopF_benign cx plan n h fresh hh _ _ _ h0 hok
  · exact createRevLoopF_benign cx plan n h fresh hh _ _ _ h0 hok
  · have he : cx.nameOk e.name := hrevs e (List.mem_filter.1 (List.mem_of_getLast? ha)).1
    split_ifs at hok ⊢ with h1 h2
    · exact h0
    · exact h0
    · exact renumberF_benign cx plan n _ _ he 4 s h0 ‹_›
    · exact absurd rfl hok

theorem getRevisionsF_prefix (h : Hashing) (template scr : String) (cc0 : Int) (revs : List Rev) (s : RevSt) :
    s.tr.log <+: (getRevisionsF h plan template scr cc0 revs s).1.tr.log := by
  rw [getRevisionsF_eq]
  have := pickRevF_prefix plan h (freshRev h template cc0 revs) cc0 revs s
  rcases hp : pickRevF h plan (freshRev h template cc0 revs) cc0 revs s with ⟨s1, _ | ⟨upd, cc⟩⟩ <;>
    rw [hp] at this <;> exact this

/-- `getStatefulSetRevisions`: if it delivered revisions, the faults that fired were Conflicts on the renumbering Update
    (with their refreshing Gets) or AlreadyExists on a revision Create -/
theorem getRevisionsF_benign (h : Hashing) (template scr : String) (cc0 : Int) (revs : List Rev) (s : RevSt)
    (hh : ∀ d c, cx.nameOk (h.nameOf d c)) (hrevs : ∀ r ∈ revs, cx.nameOk r.name)
    (h0 : BenignFrom cx plan n s.tr.log) (hok : (getRevisionsF h plan template scr cc0 revs s).2 ≠ none) :
    BenignFrom cx plan n (getRevisionsF h plan template scr cc0 revs s).1.tr.log := by
  rw [getRevisionsF_eq] at hok ⊢
  have := pickRevF_benign cx plan n h (freshRev h template cc0 revs) cc0 revs s hh hrevs h0
  rcases hp : pickRevF h plan (freshRev h template cc0 revs) cc0 revs s with ⟨s1, _ | ⟨upd, cc⟩⟩
  · rw [hp] at hok; simp at hok
  · rw [hp] at this; exact this (by simp)

/-! ### `statusWriteF` -/

theorem statusWriteF_prefix (gone : Bool) (fuel : Nat) (t : Tr) : t.log <+: (statusWriteF plan gone fuel t).1.log := by
  obtain ⟨m, _, h⟩ := statusWriteF_log plan gone fuel t
  rw [h]; exact List.prefix_append _ _

/-- a status write that succeeded saw Conflicts only (absorbed by the retry loop) -/
theorem statusWriteF_benign (gone : Bool) :
    ∀ (fuel : Nat) (t : Tr), BenignFrom cx plan n t.log → (statusWriteF plan gone fuel t).2 = true →
      BenignFrom cx plan n (statusWriteF plan gone fuel t).1.log
  | 0, t, _, hok => by simp [statusWriteF] at hok
  | fuel + 1, t, h0, hok => by
    unfold statusWriteF at hok ⊢
    simp only [call_eq] at hok ⊢
    cases hp : planAt plan "updatestatus" (cnt t.log "updatestatus") with
    | none => exact benignFrom_snoc_none h0 hp
    | some k =>
      rw [hp] at hok
      cases k <;> simp only at hok ⊢ <;> first | (exfalso; simp at hok; done) | skip
      split_ifs at hok ⊢ with hf
      refine statusWriteF_benign gone fuel _ (benignFrom_snoc h0 ?_) hok
      rw [hp]
      intro kind hkind
      cases hkind
      exact Or.inr (Or.inl ⟨rfl, Or.inl rfl⟩)

/-! ### `truncateF` -/

/-- deletion of one history revision -/
def deleteStep (plan : List Fault) (s : RevSt) (r : Rev) : RevSt × Bool :=
  let e := planAt plan (kDeleteRev r.name) (cnt s.tr.log (kDeleteRev r.name))
  let s' : RevSt := { s with tr := { log := s.tr.log ++ [kDeleteRev r.name] } }
  if e.isSome || !(s'.store.any (·.name == r.name)) then (s', false)
  else ({ s' with store := s'.store.filter (·.name != r.name) }, true)

/-- the revisions `truncateHistory` counts as history -/
def historyOf (podRevs : List String) (revs : List Rev) (cur upd : Rev) : List Rev :=
  revs.filter (fun r => !(cur.name :: upd.name :: podRevs).contains r.name && r.owner == .self)

theorem truncateF_eq (limit : Option Int) (podRevs : List String) (revs : List Rev) (cur upd : Rev) (s : RevSt) :
    truncateF plan limit podRevs revs cur upd s =
      match limit with
      | none => (s, .panic "nil *Spec.RevisionHistoryLimit (stateful_set_control.go)")
      | some lim =>
        if ((historyOf podRevs revs cur upd).length : Int) ≤ lim then (s, .ok)
        else
          let r := foldOk ((historyOf podRevs revs cur upd).take ((historyOf podRevs revs cur upd).length - lim.toNat)) s
            (deleteStep plan)
          (r.1, if r.2 then .ok else .err) := rfl

theorem deleteStep_prefix (s : RevSt) (r : Rev) : s.tr.log <+: (deleteStep plan s r).1.tr.log := by
  unfold deleteStep
  simp only
  split_ifs <;> exact List.prefix_append _ _

theorem deleteStep_benign (s : RevSt) (r : Rev) (h0 : BenignFrom cx plan n s.tr.log)
    (hok : (deleteStep plan s r).2 = true) : BenignFrom cx plan n (deleteStep plan s r).1.tr.log := by
  unfold deleteStep at hok ⊢
  simp only at hok ⊢
  split_ifs at hok ⊢ with hc
  simp only [Bool.or_eq_true, not_or, Option.isSome_iff_ne_none, ne_eq, not_not] at hc
  exact benignFrom_snoc_none h0 hc.1

theorem truncateF_prefix (limit : Option Int) (podRevs : List String) (revs : List Rev) (cur upd : Rev) (s : RevSt) :
    s.tr.log <+: (truncateF plan limit podRevs revs cur upd s).1.tr.log := by
  rw [truncateF_eq]
  cases limit with
  | none => exact List.prefix_refl _
  | some lim =>
    simp only
    split_ifs
    · exact List.prefix_refl _
    · exact foldOk_prefix _ (deleteStep_prefix plan) _ _
    · exact foldOk_prefix _ (deleteStep_prefix plan) _ _

/-- a truncation that did not end `.err` saw no fault at all (a panic — nil history limit — makes no call) -/
theorem truncateF_benign (limit : Option Int) (podRevs : List String) (revs : List Rev) (cur upd : Rev) (s : RevSt)
    (h0 : BenignFrom cx plan n s.tr.log) (hok : (truncateF plan limit podRevs revs cur upd s).2 ≠ .err) :
    BenignFrom cx plan n (truncateF plan limit podRevs revs cur upd s).1.tr.log := by
  rw [truncateF_eq] at hok ⊢
  cases limit with
  | none => exact h0
  | some lim =>
    simp only at hok ⊢
    split_ifs at hok ⊢ with h1 h2
    · exact h0
    · exact foldOk_inv (fun s : RevSt => BenignFrom cx plan n s.tr.log) _ _ s h0
        (fun b r _ hb hs => deleteStep_benign cx plan n b r hb hs) h2
    · exact absurd rfl hok

/-- the adoption phase never panics -/
theorem adopt_no_panic (del : Bool) (fresh : Fresh) (s : RevSt) (site : String) :
    (adoptOrphanRevisionsF plan del fresh s).2 ≠ .panic site := by
  rw [adopt_eq]
  split_ifs
  · simp
  · rcases listRevsF plan s with ⟨s1, _ | revs⟩
    · simp
    · simp only
      split_ifs
      · simp
      · unfold adoptTail
        simp only
        split_ifs <;> simp

end Asts.SYc
