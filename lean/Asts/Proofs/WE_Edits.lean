import Mathlib.Tactic
import Asts.Spec.WorldEdits
import Asts.Proofs.SY_b_Scaling

/-! # WE — what an edit of the set by its user does to the world (`Model/WorldEdits.lean`)

`applyEdit` touches nothing but the spec fields the edit names and the generation. An edit other than a template edit leaves
everything the resolution of the update revision reads (C08's `SameRevisionInputs`) as it is. -/
namespace Asts.WE
open Asts Asts.SYb

/-- replicas, delete-slots, pause, other metadata — and the partition, which the resolution of revisions does not read either -/
def keepsTemplate (e : Edit) : Bool := !e.isTemplate

/-- the edits C08 speaks about: replicas, delete-slots, the pause annotation, other metadata -/
def scalingOnly (e : Edit) : Bool := !e.isTemplate && !e.isPartition

theorem scalingOnly_keepsTemplate {e : Edit} (h : scalingOnly e = true) : keepsTemplate e = true := by
  unfold scalingOnly at h; unfold keepsTemplate; cases e <;> simp_all [Edit.isTemplate, Edit.isPartition]

theorem sri_refl (i : SyncIn) : SameRevisionInputs i i := ⟨rfl, rfl, rfl, rfl, rfl⟩

theorem sri_trans {a b c : SyncIn} (h1 : SameRevisionInputs a b) (h2 : SameRevisionInputs b c) :
    SameRevisionInputs a c :=
  ⟨h2.template.trans h1.template, h2.cc.trans h1.cc, h2.store.trans h1.store, h2.fresh.trans h1.fresh,
   h2.deleting.trans h1.deleting⟩

/-- the part of a world no edit touches -/
def Frame (i i' : SyncIn) : Prop :=
  i'.store = i.store ∧ i'.pods = i.pods ∧ i'.stored = i.stored ∧ i'.collisionCount = i.collisionCount ∧ i'.fresh = i.fresh ∧
  i'.view.deleting = i.view.deleting ∧ i'.setName = i.setName ∧ i'.selectorOk = i.selectorOk ∧ i'.historyLimit = i.historyLimit

theorem editReplicas_frame (n : Int) (i : SyncIn) : Frame i (editReplicas n i) := by
  unfold editReplicas Frame; split_ifs <;> exact ⟨rfl, rfl, rfl, rfl, rfl, rfl, rfl, rfl, rfl⟩
theorem editTemplate_frame (t : String) (i : SyncIn) : Frame i (editTemplate t i) := by
  unfold editTemplate Frame; split_ifs <;> exact ⟨rfl, rfl, rfl, rfl, rfl, rfl, rfl, rfl, rfl⟩
theorem editPartition_frame (p : Option Int) (i : SyncIn) : Frame i (editPartition p i) := by
  unfold editPartition Frame; split_ifs <;> exact ⟨rfl, rfl, rfl, rfl, rfl, rfl, rfl, rfl, rfl⟩

/-- what every edit leaves alone: the API objects other than the set's spec and annotations -/
theorem applyEdit_frame (e : Edit) (i : SyncIn) :
    (applyEdit e i).store = i.store ∧ (applyEdit e i).pods = i.pods ∧ (applyEdit e i).stored = i.stored ∧
    (applyEdit e i).collisionCount = i.collisionCount ∧ (applyEdit e i).fresh = i.fresh ∧
    (applyEdit e i).view.deleting = i.view.deleting ∧ (applyEdit e i).setName = i.setName ∧
    (applyEdit e i).selectorOk = i.selectorOk ∧ (applyEdit e i).historyLimit = i.historyLimit := by
  cases e with
  | replicas n => exact editReplicas_frame n i
  | template t => exact editTemplate_frame t i
  | partition p => exact editPartition_frame p i
  | slots s => exact ⟨rfl, rfl, rfl, rfl, rfl, rfl, rfl, rfl, rfl⟩
  | pause on => exact ⟨rfl, rfl, rfl, rfl, rfl, rfl, rfl, rfl, rfl⟩
  | note x => exact ⟨rfl, rfl, rfl, rfl, rfl, rfl, rfl, rfl, rfl⟩

theorem editReplicas_template (n : Int) (i : SyncIn) : (editReplicas n i).template = i.template := by
  unfold editReplicas; split_ifs <;> rfl
theorem editPartition_template (p : Option Int) (i : SyncIn) : (editPartition p i).template = i.template := by
  unfold editPartition; split_ifs <;> rfl

theorem applyEdit_template (e : Edit) (i : SyncIn) (he : keepsTemplate e = true) : (applyEdit e i).template = i.template := by
  cases e with
  | replicas n => exact editReplicas_template n i
  | partition p => exact editPartition_template p i
  | template t => simp [keepsTemplate, Edit.isTemplate] at he
  | slots s => rfl
  | pause on => rfl
  | note x => rfl

/-- the template edit itself: the world records the new template -/
theorem applyEdit_template_edit (t : String) (i : SyncIn) : (applyEdit (.template t) i).template = t := by
  show (editTemplate t i).template = t
  unfold editTemplate
  split_ifs with h
  · simpa using h
  · rfl

theorem applyEdit_pause (on : Bool) (i : SyncIn) : (applyEdit (.pause on) i).paused = on := rfl

/-- pause and un-pause change nothing but the flag -/
theorem applyEdit_pause_eq (on : Bool) (i : SyncIn) : applyEdit (.pause on) i = { i with paused := on } := rfl

/-- **an edit other than a template edit keeps the inputs of the revision resolution** -/
theorem applyEdit_sameInputs (e : Edit) (i : SyncIn) (he : keepsTemplate e = true) : SameRevisionInputs i (applyEdit e i) := by
  obtain ⟨h1, _, _, h4, h5, h6, _⟩ := applyEdit_frame e i
  exact ⟨applyEdit_template e i he, h4, h1, h5, h6⟩

theorem applyEdits_nil (i : SyncIn) : applyEdits [] i = i := rfl
theorem applyEdits_cons (e : Edit) (es : List Edit) (i : SyncIn) : applyEdits (e :: es) i = applyEdits es (applyEdit e i) := rfl

theorem applyEdits_sameInputs (es : List Edit) (i : SyncIn) (hes : ∀ e ∈ es, keepsTemplate e = true) :
    SameRevisionInputs i (applyEdits es i) := by
  induction es generalizing i with
  | nil => exact sri_refl i
  | cons e es ih =>
    rw [applyEdits_cons]
    exact sri_trans (applyEdit_sameInputs e i (hes e (by simp))) (ih _ (fun x hx => hes x (by simp [hx])))

/-- `settle` (the environment's step at the start of a round) keeps them too -/
theorem settle_sameInputs {i i' : SyncIn} (hs : SameRevisionInputs i i') : SameRevisionInputs (settle i) (settle i') := by
  refine ⟨hs.template, hs.cc, hs.store, ?_, hs.deleting⟩
  show ({ gone := false, uidOk := true, deleting := i'.view.deleting } : Fresh) = { gone := false, uidOk := true, deleting := i.view.deleting }
  rw [hs.deleting]

end Asts.WE
