import Asts.Proofs.C02_NormSync
import Asts.Proofs.C02_RevFilter

/-! C02: `truncateHistory` when no call fails: the oldest unused revisions are deleted, by name. -/
namespace Asts.C02p
open Asts Asts.L1c

/-! ### the listing has one revision per name, all from the store -/

theorem dedup_spec (l : List Rev) (seen : List String) :
    ((dedupByName l seen).map (·.name)).Nodup ∧ (∀ r ∈ dedupByName l seen, r.name ∉ seen ∧ r ∈ l) := by
  induction l generalizing seen with
  | nil => simp [dedupByName]
  | cons r rs ih =>
    unfold dedupByName
    split_ifs with hc
    · obtain ⟨h1, h2⟩ := ih seen
      exact ⟨h1, fun x hx => ⟨(h2 x hx).1, List.mem_cons_of_mem _ (h2 x hx).2⟩⟩
    · obtain ⟨h1, h2⟩ := ih (r.name :: seen)
      constructor
      · rw [List.map_cons, List.nodup_cons]
        refine ⟨?_, h1⟩
        intro hm
        rw [List.mem_map] at hm
        obtain ⟨x, hx, hxn⟩ := hm
        exact (h2 x hx).1 (by rw [hxn]; exact List.mem_cons_self)
      · intro x hx
        rcases List.mem_cons.1 hx with rfl | hx
        · exact ⟨by simpa using hc, List.mem_cons_self⟩
        · exact ⟨fun hm => (h2 x hx).1 (List.mem_cons_of_mem _ hm), List.mem_cons_of_mem _ (h2 x hx).2⟩

theorem insertRev_perm (r : Rev) (l : List Rev) : (insertRev r l).Perm (r :: l) := by
  induction l with
  | nil => simp [insertRev]
  | cons q qs ih =>
    unfold insertRev
    split_ifs
    · exact List.Perm.refl _
    · exact (List.Perm.cons q ih).trans (List.Perm.swap r q qs)

theorem sortRevs_perm (l : List Rev) : (sortRevs l).Perm l := by
  induction l with
  | nil => exact List.Perm.refl _
  | cons a l ih => rw [sortRevs_cons]; exact (insertRev_perm a _).trans (List.Perm.cons a ih)

theorem listedRevs_names_nodup (i : SyncIn) : ((listedRevs i).map (·.name)).Nodup := by
  unfold listedRevs
  rw [((sortRevs_perm _).map _).nodup_iff]
  unfold listRevisions
  exact (List.Sublist.map _ List.filter_sublist).nodup (dedup_spec _ []).1

theorem mem_listedRevs {i : SyncIn} {r : Rev} (h : r ∈ listedRevs i) : r ∈ i.store := by
  unfold listedRevs at h
  rw [(sortRevs_perm _).mem_iff] at h
  unfold listRevisions at h
  have := ((dedup_spec _ []).2 r (List.mem_of_mem_filter h)).2
  rw [List.mem_append] at this
  rcases this with h1 | h1 <;> exact List.mem_of_mem_filter h1

/-! ### the truncation -/

/-- the listed, owned revisions that nothing uses -/
def histOf (podRevs : List String) (revs : List Rev) (cur upd : Rev) : List Rev :=
  revs.filter (fun r => !(cur.name :: upd.name :: podRevs).contains r.name && r.owner == .self)

/-- the revisions `truncateHistory` deletes -/
def victimsOf (lim : Int) (podRevs : List String) (revs : List Rev) (cur upd : Rev) : List Rev :=
  if ((histOf podRevs revs cur upd).length : Int) ≤ lim then []
  else (histOf podRevs revs cur upd).take ((histOf podRevs revs cur upd).length - lim.toNat)

theorem foldOk_cons_true {α β : Type} (x : α) (xs : List α) (init : β) (f : β → α → β × Bool) (h : (f init x).2 = true) :
    foldOk (x :: xs) init f = foldOk xs (f init x).1 f := by
  unfold foldOk
  rw [List.foldl_cons]
  simp only [if_true]
  congr 1
  ext <;> simp [h]

theorem foldOk_truncStep_nil (victims : List Rev) (s : RevSt)
    (hin : ∀ r ∈ victims, s.store.any (·.name == r.name) = true) (hnd : (victims.map (·.name)).Nodup) :
    foldOk victims s (truncStep []) =
      ({ store := s.store.filter (fun x => !(victims.map (·.name)).contains x.name),
         tr := { log := s.tr.log ++ victims.map (fun r => s!"delete:rev:{r.name}") } }, true) := by
  induction victims generalizing s with
  | nil => simp [foldOk]
  | cons r rest ih =>
    rw [List.map_cons, List.nodup_cons] at hnd
    have hstep : truncStep [] s r =
        ({ store := s.store.filter (·.name != r.name), tr := { log := s.tr.log ++ [s!"delete:rev:{r.name}"] } }, true) := by
      unfold truncStep
      simp only [call_nil, Option.isSome_none, Bool.false_or, hin r List.mem_cons_self, Bool.not_true, Bool.false_eq_true, if_false]
    rw [foldOk_cons_true _ _ _ _ (by rw [hstep]), hstep]
    simp only
    rw [ih]
    · simp only [List.filter_filter, List.map_cons, List.append_assoc, List.singleton_append, Prod.mk.injEq, and_true]
      congr 1
      apply List.filter_congr
      intro x _
      simp only [List.contains_cons, Bool.not_or, bne, Bool.and_comm]
    · intro r' hr'
      have hne : r'.name ≠ r.name := by
        intro h
        apply hnd.1
        rw [← h]
        exact List.mem_map.2 ⟨r', hr', rfl⟩
      have := hin r' (List.mem_cons_of_mem _ hr')
      rw [List.any_eq_true] at this ⊢
      obtain ⟨x, hx, hxn⟩ := this
      refine ⟨x, List.mem_filter.2 ⟨hx, ?_⟩, hxn⟩
      have : x.name = r'.name := by simpa using hxn
      simp [this, hne]
    · exact hnd.2

theorem truncateF_nil (lim : Int) (podRevs : List String) (revs : List Rev) (cur upd : Rev) (s : RevSt)
    (hin : ∀ r ∈ revs, s.store.any (·.name == r.name) = true) (hnd : (revs.map (·.name)).Nodup) :
    truncateF [] (some lim) podRevs revs cur upd s =
      ({ store := s.store.filter (fun x => !((victimsOf lim podRevs revs cur upd).map (·.name)).contains x.name),
         tr := { log := s.tr.log ++ (victimsOf lim podRevs revs cur upd).map (fun r => s!"delete:rev:{r.name}") } }, .ok) := by
  rw [truncateF_eq]
  unfold victimsOf histOf
  simp only
  by_cases hle : (((revs.filter (fun r => !(cur.name :: upd.name :: podRevs).contains r.name && r.owner == .self)).length : Nat) : Int) ≤ lim
  · rw [if_pos hle, if_pos hle]
    simp
  · have hsub : ((revs.filter (fun r => !(cur.name :: upd.name :: podRevs).contains r.name && r.owner == .self)).take
        ((revs.filter (fun r => !(cur.name :: upd.name :: podRevs).contains r.name && r.owner == .self)).length - lim.toNat)).Sublist revs :=
      (List.take_sublist _ _).trans List.filter_sublist
    rw [if_neg hle, if_neg hle, foldOk_truncStep_nil _ s (fun r hr => hin r (hsub.subset hr)) ((List.Sublist.map _ hsub).nodup hnd)]
    simp only [if_true]

end Asts.C02p

namespace Asts.C02p
open Asts Asts.L1c

/-- the tail of the sync when the reconcile returned `.ok` and no call fails: status write if it differs, then truncation -/
theorem finishF_ok_trunc (i : SyncIn) (claimed : List CPod) (revs : List Rev) (cur upd : Rev) (cc : Int) (s : RevSt) (st : St)
    (hgone : i.fresh.gone = false) (lim : Int) (hlim : i.historyLimit = some lim)
    (hin : ∀ r ∈ revs, s.store.any (·.name == r.name) = true) (hnd : (revs.map (·.name)).Nodup) :
    finishF i [] claimed revs cur upd cc s st .ok =
      (if inconsistentStatus i.stored (completeRollingUpdate i.view st.status) then
        { log := s.tr.log ++ ["updatestatus"] ++
                   (victimsOf lim (claimed.map (·.pod.rev)) revs cur upd).map (fun r => s!"delete:rev:{r.name}"),
          status := some (completeRollingUpdate i.view st.status), cc := some cc,
          store := s.store.filter (fun x => !((victimsOf lim (claimed.map (·.pod.rev)) revs cur upd).map (·.name)).contains x.name),
          cur := cur.name, upd := upd.name, claimed := claimed, acts := st.acts,
          actsDone := st.acts.length, outcome := .ok }
      else
        { log := s.tr.log ++ (victimsOf lim (claimed.map (·.pod.rev)) revs cur upd).map (fun r => s!"delete:rev:{r.name}"),
          status := none, cc := none,
          store := s.store.filter (fun x => !((victimsOf lim (claimed.map (·.pod.rev)) revs cur upd).map (·.name)).contains x.name),
          cur := cur.name, upd := upd.name, claimed := claimed, acts := st.acts,
          actsDone := st.acts.length, outcome := .ok }) := by
  have htr : ∀ t : Tr, truncateF [] i.historyLimit (claimed.map (·.pod.rev)) revs cur upd { store := s.store, tr := t } =
      ({ store := s.store.filter (fun x => !((victimsOf lim (claimed.map (·.pod.rev)) revs cur upd).map (·.name)).contains x.name),
         tr := { log := t.log ++ (victimsOf lim (claimed.map (·.pod.rev)) revs cur upd).map (fun r => s!"delete:rev:{r.name}") } }, .ok) := by
    intro t
    rw [hlim]
    exact truncateF_nil lim _ revs cur upd { store := s.store, tr := t } hin hnd
  have hs : s = { store := s.store, tr := s.tr } := rfl
  have hne : (Outcome.ok == Outcome.err) = false := by decide
  unfold finishF
  simp only [hgone, statusWriteF_nil, hne, Bool.false_eq_true, if_false, Bool.not_true]
  rw [htr]
  conv_lhs => rw [hs, htr]

end Asts.C02p
