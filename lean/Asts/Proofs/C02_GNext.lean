import Asts.Proofs.C02_NextWorld

/-! C02, policy-independent: the pods after one reconcile and the next fairness step, for ANY list of pod-control calls that
    satisfies `ActFacts` (what both policies guarantee: only Failed/Succeeded pods that are replaced, pods outside the desired
    set, and pods the rolling update has to replace are deleted; creates go to vacant desired ordinals, once each). -/
namespace Asts.C02p
open Asts Asts.L1c

structure ActFacts (v : SetView) (cur upd : String) (b : Int) (E : List Int) (P : List CPod) (acts : List Action) : Prop where
  fresh : ∀ id, freshId ≤ id → ¬ DelHits acts id
  creNodup : (createsOf acts).Nodup
  cre : ∀ o rev, Action.create o rev ∈ acts → inRange b E o = true ∧ rev = newPodRev v cur upd o ∧
          ((∀ c ∈ P, c.pod.ord ≠ o) ∨ ∃ c ∈ P, c.pod.ord = o ∧ c.pod.fs = true ∧ DelHits acts c.pod.id)
  delFs : ∀ c ∈ P, DelHits acts c.pod.id → c.pod.fs = true → inRange b E c.pod.ord = true →
          ∃ rev, Action.create c.pod.ord rev ∈ acts
  delLive : ∀ c ∈ P, DelHits acts c.pod.id → c.pod.fs = false → inRange b E c.pod.ord = true →
          v.strat = .rolling ∧ partOf v ≤ c.pod.ord ∧ c.pod.rev ≠ upd

/-- the pods after the calls took effect and the next fairness step, before sorting and renumbering -/
def nextRawG (setName : String) (P : List CPod) (acts : List Action) : List CPod :=
  ((applyActs setName P P acts).filter (fun c => !c.pod.terminating)).map settleOne

section
variable {v : SetView} {cur upd : String} {b : Int} {E : List Int} {setName : String} {P : List CPod} {acts : List Action}

/-- a settled object is left alone by the next fairness step -/
theorem settleOne_settled {c : CPod} (hnt : c.pod.terminating = false) (h : c.pod.fs = true ∨ c.pod.runningAndReady = true) :
    settleOne c = c := by
  rcases h with h | h
  · unfold settleOne
    have : (c.pod.failed || c.pod.succeeded) = true := h
    simp [this]
  · exact settleOne_healthy (by simp [Pod.healthy, h, hnt])

/-- a pod of the next list is a survivor (no delete hit it) or a new pod -/
theorem nextRawG_mem (hc : PodsCtx setName P) (hf : ActFacts v cur upd b E P acts) {x : CPod} (hx : x ∈ nextRawG setName P acts) :
    (∃ c ∈ P, ¬ DelHits acts c.pod.id ∧ SameBody c x ∧ x.owner = .self ∧ x.pod.terminating = false ∧
        (∀ o, Action.update o ∈ acts → c.name = canonicalName setName o → x.pod.idOk = true)) ∨
    (∃ o rev, Action.create o rev ∈ acts ∧ x = settleOne (mkPod setName o rev)) := by
  have hno := wasOrphan_false hc
  unfold nextRawG at hx
  rw [applyActs_eq, List.mem_map] at hx
  obtain ⟨c1, hc1, rfl⟩ := hx
  rw [List.mem_filter, List.mem_append] at hc1
  obtain ⟨hsrc, hnt⟩ := hc1
  have hnt1 : c1.pod.terminating = false := by simpa using hnt
  rcases hsrc with hsrc | hsrc
  · left
    rw [List.mem_filterMap] at hsrc
    obtain ⟨c, hcm, heff⟩ := hsrc
    have hsame := eff_same _ _ _ _ _ heff
    have hown := eff_owner _ _ hno _ _ _ heff
    have hnd : ¬ DelHits acts c.pod.id := by
      intro hd
      have := (eff_del setName P _ c hd).2 c1 heff
      rw [hnt1] at this; cases this
    have hset : c1.pod.fs = true ∨ c1.pod.runningAndReady = true := by
      have := (hc.settled c hcm).2
      unfold Pod.fs Pod.failed Pod.succeeded Pod.runningAndReady at this ⊢
      rw [hsame.phase, hsame.ready]; exact this
    rw [settleOne_settled hnt1 hset]
    refine ⟨c, hcm, hnd, hsame, by rw [hown]; exact (hc.own c hcm).1, hnt1, ?_⟩
    intro o hu hname
    exact eff_upd setName P _ c c1 o hu hname heff
  · right
    rw [mem_news setName P hno _ hf.fresh] at hsrc
    obtain ⟨o, rev, hcr, rfl⟩ := hsrc
    exact ⟨o, rev, hcr, rfl⟩

/-- a pod no delete hits is still there -/
theorem nextRawG_survivor (hc : PodsCtx setName P) {c : CPod} (hcm : c ∈ P) (hnd : ¬ DelHits acts c.pod.id) :
    ∃ x ∈ nextRawG setName P acts, SameBody c x ∧ x.pod.terminating = false ∧
      (∀ o, Action.update o ∈ acts → c.name = canonicalName setName o → x.pod.idOk = true) := by
  obtain ⟨c1, h1, h2⟩ := eff_noDel setName P acts c hnd
  have hsame := eff_same _ _ _ _ _ h1
  have hnt1 : c1.pod.terminating = false := by rw [h2]; exact (hc.settled c hcm).1
  have hset : c1.pod.fs = true ∨ c1.pod.runningAndReady = true := by
    have := (hc.settled c hcm).2
    unfold Pod.fs Pod.failed Pod.succeeded Pod.runningAndReady at this ⊢
    rw [hsame.phase, hsame.ready]; exact this
  refine ⟨c1, ?_, hsame, hnt1, fun o hu hname => eff_upd setName P _ c c1 o hu hname h1⟩
  unfold nextRawG
  rw [applyActs_eq, List.mem_map]
  refine ⟨c1, ?_, settleOne_settled hnt1 hset⟩
  rw [List.mem_filter, List.mem_append]
  exact ⟨Or.inl (List.mem_filterMap.2 ⟨c, hcm, h1⟩), by simp [hnt1]⟩

/-- every create leaves its pod -/
theorem nextRawG_new (hc : PodsCtx setName P) (hf : ActFacts v cur upd b E P acts) {o : Int} {rev : String}
    (hcr : Action.create o rev ∈ acts) : settleOne (mkPod setName o rev) ∈ nextRawG setName P acts := by
  have hno := wasOrphan_false hc
  unfold nextRawG
  rw [applyActs_eq, List.mem_map]
  refine ⟨mkPod setName o rev, ?_, rfl⟩
  rw [List.mem_filter, List.mem_append]
  refine ⟨Or.inr ?_, rfl⟩
  rw [mem_news setName P hno _ hf.fresh]
  exact ⟨o, rev, hcr, rfl⟩

theorem nextRawG_ords_nodup (hc : PodsCtx setName P) (hf : ActFacts v cur upd b E P acts) :
    ((nextRawG setName P acts).map (·.pod.ord)).Nodup := by
  have hno := wasOrphan_false hc
  unfold nextRawG
  rw [List.map_map]
  have hcomp : ((fun c : CPod => c.pod.ord) ∘ settleOne) = (fun c => c.pod.ord) := by funext c; exact settleOne_ord c
  rw [hcomp, applyActs_eq]
  apply (List.Sublist.map _ List.filter_sublist).nodup
  rw [List.map_append, List.nodup_append]
  refine ⟨?_, ?_, ?_⟩
  · apply (filterMap_map_sublist (eff setName P acts) (·.pod.ord) ?_ P).nodup hc.ords
    intro a a' h
    exact (eff_same _ _ _ _ _ h).ord
  · rw [news_ords setName P hno _ hf.fresh]
    exact hf.creNodup
  · intro o ho1 o' ho2 heq
    subst heq
    rw [List.mem_map] at ho1
    obtain ⟨c1, hc1, hco⟩ := ho1
    rw [List.mem_filterMap] at hc1
    obtain ⟨c, hcm, heff⟩ := hc1
    have hord : c.pod.ord = o := by rw [← hco, (eff_same _ _ _ _ _ heff).ord]
    rw [news_ords setName P hno _ hf.fresh, mem_createsOf] at ho2
    obtain ⟨rev, hcr⟩ := ho2
    obtain ⟨_, _, hcase⟩ := hf.cre o rev hcr
    rcases hcase with hnone | ⟨c', hc', hco', hfs, hd⟩
    · exact hnone c hcm hord
    · have : c' = c := hc.ord_inj hc' hcm (by rw [hco', hord])
      subst this
      have := (eff_del setName P _ c' hd).1 hfs
      rw [this] at heff; cases heff

end

end Asts.C02p
