import Asts.Proofs.SY_b_Sync

/-! What one whole `syncF` does to the revision store: the facts of `SY_b_Truncate` and `SY_b_GetRevs` carried through the
    stages of `SY_b_Sync`. -/
namespace Asts.SYb
open Asts

/-- the revision store after the adoption stage (owners and labels may have changed, nothing else) -/
def adoptedStore (plan : List Fault) (i : SyncIn) : List Rev :=
  (adoptOrphanRevisionsF plan i.view.deleting i.fresh { store := i.store }).1.store

/-- the sorted listing the reconcile works on -/
def syncListing (plan : List Fault) (i : SyncIn) : List Rev := sortRevs (listRevisions (adoptedStore plan i))

/-- the names a finished sync treated as live: current revision, update revision, revision labels of the claimed pods -/
def syncLive (o : SyncOut) : List String := o.cur :: o.upd :: o.claimed.map (·.pod.rev)

/-- the unused revisions of the set, oldest first, as one whole sync sees them -/
def syncHistory (plan : List Fault) (i : SyncIn) (o : SyncOut) : List Rev :=
  (syncListing plan i).filter (fun r => !(syncLive o).contains r.name && r.owner == .self)

theorem adoptedStore_adopted (plan : List Fault) (i : SyncIn) : AdoptedFrom i.store (adoptedStore plan i) :=
  adopt_adopted plan i.view.deleting i.fresh { store := i.store }

/-- the update revision a sync reports: in the status it wrote, else the cached one -/
def reportedUpd (i : SyncIn) (o : SyncOut) : String :=
  match o.status with | some st => st.updateRev | none => i.stored.updateRev

/-- the state (store + log) after adoption, claim and the listing of the revisions -/
def listedState (plan : List Fault) (i : SyncIn) : RevSt :=
  (listRevsF plan { store := adoptedStore plan i,
                    tr := (claimPodsF plan i.view.deleting i.fresh i.pods
                      (adoptOrphanRevisionsF plan i.view.deleting i.fresh { store := i.store }).1.tr).tr }).1

/-- a sync that got as far as the truncation of the history -/
structure Reach (h : Hashing) (i : SyncIn) (plan : List Fault) (o : SyncOut) where
  cur : Rev
  upd : Rev
  cc : Int
  sL : RevSt
  sG : RevSt
  sT : RevSt
  hL : sL.store = adoptedStore plan i
  hsL : sL = listedState plan i
  hadopt : (adoptOrphanRevisionsF plan i.view.deleting i.fresh { store := i.store }).2 = .ok
  hclaim : o.claimed = (claimPodsF plan i.view.deleting i.fresh i.pods (adoptOrphanRevisionsF plan i.view.deleting i.fresh { store := i.store }).1.tr).claimed
  hpick : pickF h plan i.template (i.collisionCount.getD 0) (syncListing plan i) sL = (sG, some (upd, cc))
  hcur : cur = ((syncListing plan i).find? (·.name == i.stored.currentRev)).getD upd
  hT : sT.store = sG.store
  hlogL : Ext HeadShape [] sL.tr.log
  hlogT : Ext TailShape sG.tr.log sT.tr.log
  ocur : o.cur = cur.name
  oupd : o.upd = upd.name
  olog : o.log = (truncateF plan i.historyLimit (o.claimed.map (·.pod.rev)) (syncListing plan i) cur upd sT).1.tr.log
  ostore : o.store = (truncateF plan i.historyLimit (o.claimed.map (·.pod.rev)) (syncListing plan i) cur upd sT).1.store
  oout : o.outcome = (truncateF plan i.historyLimit (o.claimed.map (·.pod.rev)) (syncListing plan i) cur upd sT).2
  orep : reportedUpd i o = upd.name

theorem Reach.history {h : Hashing} {i : SyncIn} {plan : List Fault} {o : SyncOut} (R : Reach h i plan o) :
    historyOf (o.claimed.map (·.pod.rev)) (syncListing plan i) R.cur R.upd = syncHistory plan i o := by
  unfold historyOf syncHistory liveOf syncLive
  rw [R.ocur, R.oupd]

/-- how a stored revision of the final store relates to the initial store: it is an initial revision, possibly adopted,
    relabelled or renumbered — or it is new, under a name that was free, records the current template and is owned -/
def Evolved (i : SyncIn) (y : Rev) : Prop :=
  (∃ x ∈ i.store, y.name = x.name ∧ y.data = x.data ∧ y.ctime = x.ctime ∧ y.hashNum = x.hashNum ∧ y.marker = x.marker ∧
      (y.owner = x.owner ∨ y.owner = .self)) ∨
  (y.name ∉ i.store.map (·.name) ∧ y.data = i.template ∧ y.owner = .self)

theorem evolved_of_adopted {i : SyncIn} {t : List Rev} (ht : AdoptedFrom i.store t) {y : Rev} (hy : y ∈ t) : Evolved i y := by
  obtain ⟨x, hx, hc, ho, _⟩ := ht.mem hy
  simp only [core, Prod.mk.injEq] at hc
  exact Or.inl ⟨x, hx, hc.1, hc.2.2.2.1, hc.2.2.1, hc.2.2.2.2.1, hc.2.2.2.2.2, ho⟩

theorem evolved_of_pick {h : Hashing} {i : SyncIn} {plan : List Fault} {cc0 : Int} {revs : List Rev} {s : RevSt}
    (hs : AdoptedFrom i.store s.store) {y : Rev} (hy : y ∈ (pickF h plan i.template cc0 revs s).1.store) : Evolved i y := by
  rcases pickF_store h plan i.template cc0 revs s with h1 | ⟨e, n, h1⟩ | ⟨cc, _, habs, h1, _⟩
  · rw [h1] at hy; exact evolved_of_adopted hs hy
  · rw [h1] at hy
    obtain ⟨x, hx, rfl⟩ := List.mem_map.mp hy
    rcases evolved_of_adopted hs hx with ⟨x0, hx0, a, b, c, d, e', f⟩ | ⟨a, b, c⟩
    · refine Or.inl ⟨x0, hx0, ?_⟩
      unfold setNumber; split <;> exact ⟨a, b, c, d, e', f⟩
    · exact absurd (hs.names ▸ List.mem_map_of_mem (f := (·.name)) hx) a
  · rw [h1, mem_insertByName] at hy
    rcases hy with rfl | hy
    · refine Or.inr ⟨?_, rfl, rfl⟩
      intro hmem
      rw [← hs.names] at hmem
      obtain ⟨x, hx, hxe⟩ := List.mem_map.mp hmem
      exact habs x hx hxe
    · exact evolved_of_adopted hs hy

/-- a sync either stops early — without success, without a status, having at most adopted, relabelled, renumbered or
    created — or reaches the truncation -/
theorem sync_cases (h : Hashing) (i : SyncIn) (plan : List Fault) (hrun : (i.paused || !i.selectorOk) = false) :
    ((syncF h i plan).outcome ≠ .ok ∧ (syncF h i plan).status = none ∧
      ((AdoptedFrom i.store (syncF h i plan).store ∧ Ext HeadShape [] (syncF h i plan).log) ∨
        ∃ sL : RevSt, sL.store = adoptedStore plan i ∧ Ext HeadShape [] sL.tr.log ∧
          (syncF h i plan).store = (pickF h plan i.template (i.collisionCount.getD 0) (syncListing plan i) sL).1.store ∧
          Ext TailShape (pickF h plan i.template (i.collisionCount.getD 0) (syncListing plan i) sL).1.tr.log
            (syncF h i plan).log)) ∨
    Nonempty (Reach h i plan (syncF h i plan)) := by
  rw [syncF_eq, hrun]
  simp only [Bool.false_eq_true, if_false]
  cases hh : syncHead h i plan with
  | inl o =>
    obtain ⟨h1, h2, h3⟩ := syncHead_inl hh
    refine Or.inl ⟨h1, h2, ?_⟩
    rcases h3 with h3 | ⟨sL, k1, k2, k3, k4⟩
    · exact Or.inl h3
    · refine Or.inr ⟨sL, k1, k2, ?_, ?_⟩
      · rw [k3]; unfold syncListing adoptedStore; rw [k1]
      · simp only; rw [k4]; unfold syncListing adoptedStore; rw [k1]; exact Ext.refl _ _
  | inr t =>
    obtain ⟨claimed, revs, cur, upd, cc, s⟩ := t
    simp only
    obtain ⟨A, sL, hA, hAd, hcl, hfl, hsL, hsLs, hlogL, hrevs, hpick, hcur⟩ := syncHead_inr hh
    have hAs : adoptedStore plan i = A.store := by unfold adoptedStore; rw [hA]
    have hlist : syncListing plan i = revs := by unfold syncListing; rw [hAs, hrevs]
    obtain ⟨o1, o2, o3, o4⟩ := syncTail_spec i plan claimed revs cur upd cc s
    rcases o4 with ⟨k1, k2, k3, k4⟩ | ⟨sT, t1, t2, t3, t4, t5, t6⟩
    · refine Or.inl ⟨k1, k3, Or.inr ⟨sL, by rw [hsLs, hAs], hlogL, ?_, ?_⟩⟩
      · rw [k2, hlist, hpick]
      · rw [hlist, hpick]; exact k4
    · refine Or.inr ⟨⟨cur, upd, cc, sL, s, sT, ?_, ?_, ?_, ?_, ?_, ?_, t1, hlogL, t2, o1, o2, ?_, ?_, ?_, t6⟩⟩
      · rw [hsLs, hAs]
      · unfold listedState; rw [hsL, hAs, hA]
      · rw [hA]
      · rw [o3, hcl, hA]
      · rw [hlist]; exact hpick
      · rw [hlist]; exact hcur
      · rw [o3, hlist]; exact t3
      · rw [o3, hlist]; exact t4
      · rw [o3, hlist]; exact t5

/-- every revision of the final store is an initial one (adopted / relabelled / renumbered at most) or a new one that
    records the current template under a name that was free: nothing is ever overwritten -/
theorem sync_store_evolved (h : Hashing) (i : SyncIn) (plan : List Fault) :
    ∀ y ∈ (syncF h i plan).store, Evolved i y := by
  by_cases hrun : (i.paused || !i.selectorOk) = true
  · intro y hy
    rw [syncF_eq, if_pos hrun] at hy
    exact evolved_of_adopted (AdoptedFrom.refl _) hy
  · have hrun' : (i.paused || !i.selectorOk) = false := by simpa using hrun
    rcases sync_cases h i plan hrun' with ⟨_, _, ⟨h3, _⟩ | ⟨sL, hs, _, h3, _⟩⟩ | ⟨⟨R⟩⟩
    · intro y hy; exact evolved_of_adopted h3 hy
    · intro y hy; rw [h3] at hy; exact evolved_of_pick (by rw [hs]; exact adoptedStore_adopted plan i) hy
    · intro y hy
      rw [R.ostore] at hy
      have hy' := (truncateF_store plan i.historyLimit _ _ R.cur R.upd R.sT).1.subset hy
      rw [R.hT] at hy'
      have hp := R.hpick
      have : R.sG.store = (pickF h plan i.template (i.collisionCount.getD 0) (syncListing plan i) R.sL).1.store := by rw [hp]
      rw [this] at hy'
      exact evolved_of_pick (by rw [R.hL]; exact adoptedStore_adopted plan i) hy'

theorem filter_length_mono {α} {l : List α} {p q : α → Bool} (hpq : ∀ x ∈ l, p x = true → q x = true) :
    (l.filter p).length ≤ (l.filter q).length := by
  induction l with
  | nil => simp
  | cons a as ih =>
    have ih' := ih (fun x hx => hpq x (List.mem_cons_of_mem _ hx))
    by_cases hp : p a = true
    · have hq := hpq a List.mem_cons_self hp
      rw [List.filter_cons_of_pos hp, List.filter_cons_of_pos hq]
      simp only [List.length_cons]; omega
    · rw [List.filter_cons_of_neg hp]
      by_cases hq : q a = true
      · rw [List.filter_cons_of_pos hq]; simp only [List.length_cons]; omega
      · rw [List.filter_cons_of_neg hq]; exact ih'

theorem find?_of_names_nodup {l : List Rev} (hn : (l.map (·.name)).Nodup) {x : Rev} (hx : x ∈ l) :
    l.find? (·.name == x.name) = some x := by
  induction l with
  | nil => simp at hx
  | cons q qs ih =>
    rw [List.map_cons, List.nodup_cons] at hn
    rcases List.mem_cons.mp hx with rfl | hx
    · simp
    · have : q.name ≠ x.name := fun e => hn.1 (e ▸ List.mem_map_of_mem hx)
      rw [List.find?_cons_of_neg (by simpa using this)]
      exact ih hn.2 hx

/-- the listing of a `Reach` is listed from the store `pickF` starts from -/
theorem Reach.listed_sub {h : Hashing} {i : SyncIn} {plan : List Fault} {o : SyncOut} (R : Reach h i plan o) :
    ∀ r ∈ syncListing plan i, r ∈ R.sL.store := by
  intro r hr
  rw [R.hL]
  exact (mem_listRevisions (mem_sortRevs.mp hr)).1

theorem Reach.sG_eq {h : Hashing} {i : SyncIn} {plan : List Fault} {o : SyncOut} (R : Reach h i plan o) :
    R.sG = (pickF h plan i.template (i.collisionCount.getD 0) (syncListing plan i) R.sL).1 := by rw [R.hpick]

theorem Reach.pick2 {h : Hashing} {i : SyncIn} {plan : List Fault} {o : SyncOut} (R : Reach h i plan o) :
    (pickF h plan i.template (i.collisionCount.getD 0) (syncListing plan i) R.sL).2 = some (R.upd, R.cc) := by rw [R.hpick]

/-- the update revision records the template, and is in the final store, whatever the outcome of the truncation -/
theorem Reach.upd_stored {h : Hashing} {i : SyncIn} {plan : List Fault} {o : SyncOut} (R : Reach h i plan o) :
    R.upd.data = i.template ∧ R.upd ∈ o.store ∧ (i.collisionCount.getD 0) ≤ R.cc := by
  obtain ⟨h1, h2, h3⟩ := pickF_sound h plan i.template (i.collisionCount.getD 0) (syncListing plan i) R.sL R.listed_sub R.pick2
  refine ⟨h1, ?_, h3⟩
  rw [R.ostore]
  apply truncateF_keeps_live
  · rw [R.hT, R.sG_eq]; exact h2
  · simp

theorem Reach.names_nodup {h : Hashing} {i : SyncIn} {plan : List Fault} {o : SyncOut} (R : Reach h i plan o)
    (hn : (i.store.map (·.name)).Nodup) : (R.sT.store.map (·.name)).Nodup := by
  rw [R.hT, R.sG_eq]
  apply pickF_names_nodup
  rw [R.hL, (adoptedStore_adopted plan i).names]
  exact hn

/-- **C08 (1) for a whole sync**: after a successful reconcile the reported update revision names a stored revision that
    records the current template -/
theorem sync_ok_upd_stored (h : Hashing) (i : SyncIn) (plan : List Fault) (hrun : (i.paused || !i.selectorOk) = false)
    (hok : (syncF h i plan).outcome = .ok) :
    ∃ u ∈ (syncF h i plan).store, u.name = (syncF h i plan).upd ∧ u.name = reportedUpd i (syncF h i plan) ∧
      u.data = i.template := by
  rcases sync_cases h i plan hrun with ⟨h1, _⟩ | ⟨⟨R⟩⟩
  · exact absurd hok h1
  · obtain ⟨a, b, _⟩ := R.upd_stored
    exact ⟨R.upd, b, R.oupd.symm, R.orep.symm, a⟩

/-- the final store keeps names distinct -/
theorem sync_names_nodup (h : Hashing) (i : SyncIn) (plan : List Fault) (hn : (i.store.map (·.name)).Nodup) :
    ((syncF h i plan).store.map (·.name)).Nodup := by
  by_cases hrun : (i.paused || !i.selectorOk) = true
  · rw [syncF_eq, if_pos hrun]; exact hn
  · have hrun' : (i.paused || !i.selectorOk) = false := by simpa using hrun
    rcases sync_cases h i plan hrun' with ⟨_, _, ⟨h3, _⟩ | ⟨sL, hs, _, h3, _⟩⟩ | ⟨⟨R⟩⟩
    · rw [h3.names]; exact hn
    · rw [h3]; apply pickF_names_nodup; rw [hs, (adoptedStore_adopted plan i).names]; exact hn
    · rw [R.ostore]
      exact List.Nodup.sublist (List.Sublist.map _ (truncateF_store plan i.historyLimit _ _ R.cur R.upd R.sT).1) (R.names_nodup hn)

/-- **C13 (4) for a whole sync**: after a successful sync at most `lim` (0 for a negative limit) of the final store's
    revisions are unused history: owned by the set, listed (selector or marker), and named neither by the current nor
    the update revision nor by a claimed pod -/
theorem sync_ok_history_within_limit (h : Hashing) (i : SyncIn) (plan : List Fault) (lim : Int)
    (hrun : (i.paused || !i.selectorOk) = false) (hlim : i.historyLimit = some lim)
    (hn : (i.store.map (·.name)).Nodup) (hok : (syncF h i plan).outcome = .ok) :
    (((syncF h i plan).store.filter (fun x => x.owner == .self && (x.selMatch || x.marker) &&
        !(syncLive (syncF h i plan)).contains x.name)).length : Int) ≤ max lim 0 := by
  rcases sync_cases h i plan hrun with ⟨h1, _⟩ | ⟨⟨R⟩⟩
  · exact absurd hok h1
  · have hstore := R.ostore
    have hout := R.oout
    rw [hlim] at hstore hout
    rw [hok] at hout
    have hout' : (truncateF plan (some lim) ((syncF h i plan).claimed.map (·.pod.rev)) (syncListing plan i) R.cur R.upd R.sT).2 = .ok :=
      hout.symm
    have hnd := R.names_nodup hn
    have hle := truncateF_ok_left plan lim _ _ R.cur R.upd R.sT hnd hout'
    rw [← hstore, R.history] at hle
    have hmono : ((syncF h i plan).store.filter (fun x => x.owner == .self && (x.selMatch || x.marker) &&
        !(syncLive (syncF h i plan)).contains x.name)).length ≤
        ((syncF h i plan).store.filter (fun x => ((syncHistory plan i (syncF h i plan)).map (·.name)).contains x.name)).length := by
      apply filter_length_mono
      intro x hx hp
      simp only [Bool.and_eq_true, beq_iff_eq, Bool.or_eq_true, Bool.not_eq_true', ← Bool.not_eq_true,
        List.contains_iff_mem] at hp
      obtain ⟨⟨hown, hsel⟩, hlive⟩ := hp
      rw [hstore] at hx
      have hx' := (truncateF_store plan (some lim) _ _ R.cur R.upd R.sT).1.subset hx
      rw [R.hT, R.sG_eq] at hx'
      rcases pickF_back h plan i.template _ _ R.sL hx' with ⟨x0, hx0, e1, e2, e3, e4, _⟩ | ⟨cc, hcc⟩
      · rw [R.hL] at hx0
        have hnA : ((adoptedStore plan i).map (·.name)).Nodup := by rw [(adoptedStore_adopted plan i).names]; exact hn
        have hl : x0 ∈ syncListing plan i := by
          unfold syncListing
          rw [mem_sortRevs, mem_listRevisions_iff hnA]
          refine ⟨hx0, by rw [← e3, ← e4]; exact hsel, by rw [← e2, hown]; simp⟩
        have hh : x0 ∈ syncHistory plan i (syncF h i plan) := by
          unfold syncHistory
          rw [List.mem_filter]
          refine ⟨hl, ?_⟩
          simp only [Bool.and_eq_true, Bool.not_eq_true', ← Bool.not_eq_true, List.contains_iff_mem, beq_iff_eq]
          exact ⟨by rw [← e1]; exact hlive, by rw [← e2]; exact hown⟩
        simp only [List.contains_iff_mem]
        exact List.mem_map.mpr ⟨x0, hh, e1.symm⟩
      · rw [R.pick2] at hcc
        simp only [Option.some.injEq, Prod.mk.injEq] at hcc
        exfalso
        apply hlive
        unfold syncLive
        rw [R.oupd, hcc.1]
        simp
    omega

/-! ## the whole log -/

theorem filter_pre_nil_of_ext_nil {S : String → Prop} {P : String} (hS : ∀ e, S e → pre P e = false) {l : List String}
    (h : Ext S [] l) : l.filter (pre P) = [] := by
  rw [h.filter_pre hS]; rfl

theorem Reach.log_eq {h : Hashing} {i : SyncIn} {plan : List Fault} {o : SyncOut} (R : Reach h i plan o) :
    ∃ hd tl, o.log = hd ++ (pickCalls h plan i.template (i.collisionCount.getD 0) (syncListing plan i) R.sL).map RevCall.key ++ tl ++
        (truncDeletes plan i.historyLimit (o.claimed.map (·.pod.rev)) (syncListing plan i) R.cur R.upd R.sT).map delKey ∧
      (∀ e ∈ hd, HeadShape e) ∧ (∀ e ∈ tl, TailShape e) := by
  obtain ⟨hd, h1, h2⟩ := R.hlogL
  obtain ⟨tl, h3, h4⟩ := R.hlogT
  refine ⟨hd, tl, ?_, h2, h4⟩
  rw [R.olog, truncateF_log, h3, R.sG_eq, pickF_log, h1]
  simp

/-- **every `delete:rev:` entry of the whole sync log** comes from the truncation: the filtered log is the rendering of a
    list `d` of revisions that is a prefix of the sync's unused history (oldest first); `d` is empty unless the history
    exceeds the limit, never longer than the excess, and exactly the excess when the sync succeeds -/
theorem sync_delete_entries (h : Hashing) (i : SyncIn) (plan : List Fault) :
    ∃ d : List Rev,
      (syncF h i plan).log.filter (pre "delete:rev:") = d.map delKey ∧
      d <+: syncHistory plan i (syncF h i plan) ∧
      (d ≠ [] → ∃ lim, i.historyLimit = some lim ∧ lim < ((syncHistory plan i (syncF h i plan)).length : Int)) ∧
      (∀ lim, i.historyLimit = some lim → d.length ≤ (syncHistory plan i (syncF h i plan)).length - lim.toNat) ∧
      (∀ lim, i.historyLimit = some lim → (syncF h i plan).outcome = .ok → (i.paused || !i.selectorOk) = false →
        d = if ((syncHistory plan i (syncF h i plan)).length : Int) ≤ lim then []
            else (syncHistory plan i (syncF h i plan)).take ((syncHistory plan i (syncF h i plan)).length - lim.toNat)) ∧
      (∀ x ∈ adoptedStore plan i, x.name ∉ d.map (·.name) → ∃ y ∈ (syncF h i plan).store, y.name = x.name) := by
  have hnone : ∀ o : SyncOut, o.log.filter (pre "delete:rev:") = [] → o.outcome ≠ .ok ∨ (i.paused || !i.selectorOk) = true →
      (∀ x ∈ adoptedStore plan i, ∃ y ∈ o.store, y.name = x.name) →
      ∃ d : List Rev, o.log.filter (pre "delete:rev:") = d.map delKey ∧ d <+: syncHistory plan i o ∧
        (d ≠ [] → ∃ lim, i.historyLimit = some lim ∧ lim < ((syncHistory plan i o).length : Int)) ∧
        (∀ lim, i.historyLimit = some lim → d.length ≤ (syncHistory plan i o).length - lim.toNat) ∧
        (∀ lim, i.historyLimit = some lim → o.outcome = .ok → (i.paused || !i.selectorOk) = false →
          d = if ((syncHistory plan i o).length : Int) ≤ lim then []
              else (syncHistory plan i o).take ((syncHistory plan i o).length - lim.toNat)) ∧
        (∀ x ∈ adoptedStore plan i, x.name ∉ d.map (·.name) → ∃ y ∈ o.store, y.name = x.name) := by
    intro o ho hout hst
    refine ⟨[], by rw [ho]; rfl, List.nil_prefix, fun hne => absurd rfl hne, fun _ _ => Nat.zero_le _, ?_, fun x hx _ => hst x hx⟩
    intro lim _ hok hrun
    rcases hout with hout | hout
    · exact absurd hok hout
    · rw [hrun] at hout; exact absurd hout (by simp)
  have hstore_adopted : ∀ t : List Rev, AdoptedFrom i.store t → ∀ x ∈ adoptedStore plan i, ∃ y ∈ t, y.name = x.name := by
    intro t ht x hx
    have hn1 := (adoptedStore_adopted plan i).names
    have hn2 := ht.names
    have : x.name ∈ t.map (·.name) := by rw [hn2, ← hn1]; exact List.mem_map_of_mem hx
    obtain ⟨y, hy, hye⟩ := List.mem_map.mp this
    exact ⟨y, hy, hye⟩
  by_cases hrun : (i.paused || !i.selectorOk) = true
  · apply hnone
    · rw [syncF_eq, if_pos hrun]; rfl
    · exact Or.inr hrun
    · rw [syncF_eq, if_pos hrun]; exact hstore_adopted _ (AdoptedFrom.refl _)
  · have hrun' : (i.paused || !i.selectorOk) = false := by simpa using hrun
    rcases sync_cases h i plan hrun' with ⟨h1, _, ⟨h3, h4⟩ | ⟨sL, hs, hl, h3, h4⟩⟩ | ⟨⟨R⟩⟩
    · exact hnone _ (filter_pre_nil_of_ext_nil (fun e he => HeadShape.not_del he) h4) (Or.inl h1) (hstore_adopted _ h3)
    · apply hnone _ _ (Or.inl h1)
      · intro x hx
        rw [h3]
        rw [← hs] at hx
        obtain ⟨y, hy, hye, _⟩ := pickF_preserves h plan i.template (i.collisionCount.getD 0) (syncListing plan i) sL hx
        exact ⟨y, hy, hye⟩
      · rw [h4.filter_pre (fun e he => TailShape.not_del he), pickF_log, List.filter_append, filter_pre_del_calls,
          filter_pre_nil_of_ext_nil (fun e he => HeadShape.not_del he) hl]
        rfl
    · obtain ⟨hd, tl, hlog, hhd, htl⟩ := R.log_eq
      refine ⟨truncDeletes plan i.historyLimit ((syncF h i plan).claimed.map (·.pod.rev)) (syncListing plan i) R.cur R.upd R.sT,
        ?_, ?_, ?_, ?_, ?_, ?_⟩
      · rw [hlog]
        simp only [List.filter_append, filter_pre_del_calls, filter_pre_del_dels, List.append_nil]
        have e1 : hd.filter (pre "delete:rev:") = [] := by
          rw [List.filter_eq_nil_iff]; intro e he; rw [(hhd e he).not_del]; simp
        have e2 : tl.filter (pre "delete:rev:") = [] := by
          rw [List.filter_eq_nil_iff]; intro e he; rw [(htl e he).not_del]; simp
        rw [e1, e2]; rfl
      · rw [← R.history]; exact truncDeletes_prefix_history _ _ _ _ _ _ _
      · intro hne; rw [← R.history]; exact truncDeletes_ne_nil hne
      · intro lim hlim; rw [← R.history, hlim]; exact truncDeletes_length_le _ _ _ _ _ _ _
      · intro lim hlim hok _
        rw [← R.history, hlim]
        apply (truncateF_result plan lim _ _ R.cur R.upd R.sT).2.1
        rw [← hlim, ← R.oout]; exact hok
      · intro x hx hxn
        rw [R.ostore]
        rw [← R.hL] at hx
        obtain ⟨y, hy, hye, _⟩ := pickF_preserves h plan i.template (i.collisionCount.getD 0) (syncListing plan i) R.sL hx
        rw [← R.sG_eq, ← R.hT] at hy
        exact ⟨y, (truncateF_store plan i.historyLimit _ _ R.cur R.upd R.sT).2 y hy (by rw [hye]; exact hxn), hye⟩

/-- the members of the sync's unused history: listed from the adopted store, owned by the set, not live -/
theorem mem_syncHistory {plan : List Fault} {i : SyncIn} {o : SyncOut} {r : Rev} (hr : r ∈ syncHistory plan i o) :
    r ∈ adoptedStore plan i ∧ (r.selMatch = true ∨ r.marker = true) ∧ r.owner = .self ∧ r.name ∉ syncLive o := by
  unfold syncHistory at hr
  rw [List.mem_filter] at hr
  obtain ⟨h1, h2⟩ := hr
  simp only [Bool.and_eq_true, Bool.not_eq_true', ← Bool.not_eq_true, List.contains_iff_mem, beq_iff_eq] at h2
  have := mem_listRevisions (mem_sortRevs.mp h1)
  exact ⟨this.1, this.2.1, h2.2, h2.1⟩

theorem syncHistory_names_nodup (plan : List Fault) (i : SyncIn) (o : SyncOut) :
    ((syncHistory plan i o).map (·.name)).Nodup :=
  List.Nodup.sublist (List.Sublist.map _ List.filter_sublist) (sorted_listing_names_nodup _)

theorem syncHistory_strict (plan : List Fault) (i : SyncIn) (o : SyncOut) :
    (syncHistory plan i o).Pairwise (fun a b => revLt a b = true) :=
  List.Pairwise.sublist List.filter_sublist (sorted_strict (sortRevs_sorted _) (sorted_listing_names_nodup _))

/-- every `create:rev:` entry of the whole sync log is a probe of `createControllerRevision`: the name derived from the
    current template at some collision count ≥ the stored one -/
theorem sync_create_entries (h : Hashing) (i : SyncIn) (plan : List Fault) :
    ∀ e ∈ (syncF h i plan).log, pre "create:rev:" e = true →
      ∃ j, (i.collisionCount.getD 0) ≤ j ∧ e = (RevCall.create (h.nameOf i.template j)).key := by
  have hcalls : ∀ (sL : RevSt) (e : String),
      e ∈ (pickCalls h plan i.template (i.collisionCount.getD 0) (syncListing plan i) sL).map RevCall.key →
      pre "create:rev:" e = true → ∃ j, (i.collisionCount.getD 0) ≤ j ∧ e = (RevCall.create (h.nameOf i.template j)).key := by
    intro sL e he hp
    obtain ⟨c, hc, rfl⟩ := List.mem_map.mp he
    rw [RevCall.pre_create] at hp
    by_cases hne : equalsOf h i.template (i.collisionCount.getD 0) (syncListing plan i) = []
    · rw [(pickF_of_none (s := sL) (plan := plan) hne).2] at hc
      obtain ⟨j, hj, hj'⟩ := (createRevLoopF_spec h plan _ _ _ sL).2.2.2 c hc
      rcases hj' with rfl | rfl
      · exact ⟨j, hj, rfl⟩
      · simp [RevCall.isCreate] at hp
    · obtain ⟨e', l, _, _, hc', _⟩ := pickF_revert h plan i.template (i.collisionCount.getD 0) (syncListing plan i) sL hne
      rcases hc' c hc with rfl | rfl <;> simp [RevCall.isCreate] at hp
  by_cases hrun : (i.paused || !i.selectorOk) = true
  · rw [syncF_eq, if_pos hrun]; intro e he; simp at he
  · have hrun' : (i.paused || !i.selectorOk) = false := by simpa using hrun
    rcases sync_cases h i plan hrun' with ⟨h1, _, ⟨h3, h4⟩ | ⟨sL, hs, hl, h3, h4⟩⟩ | ⟨⟨R⟩⟩
    · intro e he hp
      obtain ⟨m, hm, hm'⟩ := h4
      rw [hm, List.nil_append] at he
      rw [(hm' e he).not_create] at hp; exact absurd hp (by simp)
    · intro e he hp
      obtain ⟨tl, h5, h6⟩ := h4
      obtain ⟨hd, h7, h8⟩ := hl
      rw [h5, pickF_log, h7] at he
      simp only [List.nil_append, List.mem_append] at he
      rcases he with (he | he) | he
      · rw [(h8 e he).not_create] at hp; exact absurd hp (by simp)
      · exact hcalls sL e he hp
      · rw [(h6 e he).not_create] at hp; exact absurd hp (by simp)
    · intro e he hp
      obtain ⟨hd, tl, hlog, hhd, htl⟩ := R.log_eq
      rw [hlog] at he
      simp only [List.mem_append] at he
      rcases he with ((he | he) | he) | he
      · rw [(hhd e he).not_create] at hp; exact absurd hp (by simp)
      · exact hcalls R.sL e he hp
      · rw [(htl e he).not_create] at hp; exact absurd hp (by simp)
      · obtain ⟨r, _, rfl⟩ := List.mem_map.mp he
        rw [delKey_not_create] at hp; exact absurd hp (by simp)

/-- **unchanged or reverted template**: if some listed revision equals the fresh one, the whole sync logs no
    `create:rev:` entry -/
theorem sync_no_create_of_equal (h : Hashing) (i : SyncIn) (plan : List Fault) {r : Rev} (hr : r ∈ syncListing plan i)
    (heq : equalRev r (freshOf h i.template (i.collisionCount.getD 0) (syncListing plan i)) = true) :
    (syncF h i plan).log.filter (pre "create:rev:") = [] := by
  have hne : equalsOf h i.template (i.collisionCount.getD 0) (syncListing plan i) ≠ [] := by
    intro hnil
    have : r ∈ equalsOf h i.template (i.collisionCount.getD 0) (syncListing plan i) := by
      unfold equalsOf; rw [List.mem_filter]; exact ⟨hr, heq⟩
    rw [hnil] at this; simp at this
  have hcalls : ∀ sL : RevSt,
      ((pickCalls h plan i.template (i.collisionCount.getD 0) (syncListing plan i) sL).map RevCall.key).filter (pre "create:rev:") = [] := by
    intro sL
    rw [filter_pre_create_calls]
    obtain ⟨e', l, _, _, hc', _⟩ := pickF_revert h plan i.template (i.collisionCount.getD 0) (syncListing plan i) sL hne
    have : (pickCalls h plan i.template (i.collisionCount.getD 0) (syncListing plan i) sL).filter RevCall.isCreate = [] := by
      rw [List.filter_eq_nil_iff]
      intro c hc
      rcases hc' c hc with rfl | rfl <;> simp [RevCall.isCreate]
    rw [this]; rfl
  by_cases hrun : (i.paused || !i.selectorOk) = true
  · rw [syncF_eq, if_pos hrun]; rfl
  · have hrun' : (i.paused || !i.selectorOk) = false := by simpa using hrun
    rcases sync_cases h i plan hrun' with ⟨h1, _, ⟨h3, h4⟩ | ⟨sL, hs, hl, h3, h4⟩⟩ | ⟨⟨R⟩⟩
    · exact filter_pre_nil_of_ext_nil (fun e he => HeadShape.not_create he) h4
    · rw [h4.filter_pre (fun e he => TailShape.not_create he), pickF_log, List.filter_append, hcalls,
        filter_pre_nil_of_ext_nil (fun e he => HeadShape.not_create he) hl]
      rfl
    · obtain ⟨hd, tl, hlog, hhd, htl⟩ := R.log_eq
      rw [hlog]
      simp only [List.filter_append, hcalls, filter_pre_create_dels, List.append_nil]
      have e1 : hd.filter (pre "create:rev:") = [] := by
        rw [List.filter_eq_nil_iff]; intro e he; rw [(hhd e he).not_create]; simp
      have e2 : tl.filter (pre "create:rev:") = [] := by
        rw [List.filter_eq_nil_iff]; intro e he; rw [(htl e he).not_create]; simp
      rw [e1, e2]; rfl

/-- **revert, for a whole sync**: if some listed revision equals the fresh one and the sync succeeds, the stored update
    revision records the template and carries a revision number at least as large as every listed one -/
theorem sync_revert_number (h : Hashing) (i : SyncIn) (plan : List Fault) (hrun : (i.paused || !i.selectorOk) = false)
    (hok : (syncF h i plan).outcome = .ok) {r0 : Rev} (hr : r0 ∈ syncListing plan i)
    (heq : equalRev r0 (freshOf h i.template (i.collisionCount.getD 0) (syncListing plan i)) = true) :
    ∃ u ∈ (syncF h i plan).store, u.name = (syncF h i plan).upd ∧ u.data = i.template ∧
      (∀ r ∈ syncListing plan i, r.number ≤ u.number) ∧
      (u ∈ syncListing plan i ∨
        (u.number = nextRevision (syncListing plan i) ∧ ∃ e ∈ syncListing plan i, e.name = u.name ∧ e.data = i.template)) ∧
      (∀ q ∈ (syncF h i plan).store, q.name ≠ (syncF h i plan).upd → q ∈ adoptedStore plan i) := by
  rcases sync_cases h i plan hrun with ⟨h1, _⟩ | ⟨⟨R⟩⟩
  · exact absurd hok h1
  · have hne : equalsOf h i.template (i.collisionCount.getD 0) (syncListing plan i) ≠ [] := by
      intro hnil
      have : r0 ∈ equalsOf h i.template (i.collisionCount.getD 0) (syncListing plan i) := by
        unfold equalsOf; rw [List.mem_filter]; exact ⟨hr, heq⟩
      rw [hnil] at this; simp at this
    obtain ⟨e, l, he, hl, _, hrev⟩ := pickF_revert h plan i.template (i.collisionCount.getD 0) (syncListing plan i) R.sL hne
    have hsorted : SortedRevs (syncListing plan i) := sortRevs_sorted _
    obtain ⟨_, hcase⟩ := hrev hsorted R.upd R.cc R.pick2
    obtain ⟨hd, hst, _⟩ := R.upd_stored
    refine ⟨R.upd, hst, R.oupd.symm, hd, ?_, ?_, ?_⟩
    · rcases hcase with ⟨hu, _⟩ | ⟨hu, _, _, hlt⟩
      · rw [hu]; exact sorted_getLast_max hsorted hl
      · intro r hr'; exact le_of_lt (hlt r hr')
    · rcases hcase with ⟨hu, _⟩ | ⟨hu, _, _, _⟩
      · exact Or.inl (hu ▸ List.mem_of_getLast? hl)
      · have hem := mem_equalsOf (List.mem_of_getLast? he)
        exact Or.inr ⟨by rw [hu], e, hem.1, by rw [hu], hem.2.2⟩
    · intro q hq hqn
      rw [R.ostore] at hq
      have hq' := (truncateF_store plan i.historyLimit _ _ R.cur R.upd R.sT).1.subset hq
      rw [R.hT, R.sG_eq] at hq'
      rcases hcase with ⟨_, _, hs, _⟩ | ⟨hu, _, hs, _⟩
      · rw [hs, R.hL] at hq'; exact hq'
      · rw [hs] at hq'
        obtain ⟨x, hx, rfl⟩ := List.mem_map.mp hq'
        rw [R.hL] at hx
        unfold setNumber at hqn ⊢
        by_cases hxe : (x.name == e.name) = true
        · rw [if_pos hxe] at hqn
          exfalso; apply hqn
          rw [R.oupd, hu]
          simpa using hxe
        · rw [if_neg hxe]; exact hx

end Asts.SYb
