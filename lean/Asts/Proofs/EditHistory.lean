import Asts.Props.C02
import Asts.Proofs.EditAlgebra
import Asts.Model.WorldEdits
import Mathlib.Tactic

/-! # what a scale edit converges to — the desired-ordinal algebra carried through `C02_converges`

`Final` pins the ordinals of the set's own pods to the desired set. Rounds never touch the spec, so the world a history converges
to after a scale edit has the pods of `desired` of the *edited* spec; the edit algebra says what that is in terms of the pods
before the edit. -/
namespace Asts.EditHist
open Asts Asts.C02p List

theorem roundsN_desired (h : Hashing) (n : Nat) (i : SyncIn) :
    desired (replicasOf (roundsN h n i).view) (roundsN h n i).view.slots = desired (replicasOf i.view) i.view.slots := by
  induction n with
  | zero => rfl
  | succ n ih => rw [roundsN_succ]; exact ih

/-- in a final world the set's own pods sit on exactly the desired ordinals, one each -/
theorem final_ords {h : Hashing} {i : SyncIn} (hf : Final h i) :
    ((ownPods i).map (·.pod.ord)).Perm (desired (replicasOf i.view) i.view.slots) := by
  unfold Final finalB at hf
  simp only [Bool.and_eq_true] at hf
  have hp := hf.1.1.2
  unfold podsFinal at hp
  simp only [Bool.and_eq_true, List.all_eq_true, List.any_eq_true, beq_iff_eq] at hp
  obtain ⟨⟨-, hall⟩, hlen⟩ := hp
  have hD := desired_isDesired (replicasOf i.view) i.view.slots
  have hnd : (desired (replicasOf i.view) i.view.slots).Nodup := hD.sorted.imp (fun h => ne_of_lt h)
  have hsub : desired (replicasOf i.view) i.view.slots ⊆ (ownPods i).map (·.pod.ord) := by
    intro o ho
    obtain ⟨c, hc, hco⟩ := hall o ho
    exact List.mem_map.2 ⟨c, hc, hco⟩
  have hsp := List.subperm_of_subset hnd hsub
  exact (hsp.perm_of_length_le (by rw [List.length_map]; omega)).symm

end Asts.EditHist
