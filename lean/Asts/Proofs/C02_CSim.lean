import Asts.Proofs.C02_CSync
import Asts.Proofs.C02_BOrphan

/-! C02, worlds with pod objects that are not members of the set: one sync + apply, restricted to the members and with the
    owners forgotten, is one sync + apply of the prepared members-only world — up to the pod ids (the ids are positions in
    the whole pod list). The other pod objects stay what they are: no members, not the set's. -/
namespace Asts.C02p
open Asts Asts.L1c

/-- the members, owned -/
def ownM (l : List CPod) : List CPod := (l.filter (·.member)).map own

theorem ownM_append (a b : List CPod) : ownM (a ++ b) = ownM a ++ ownM b := by
  unfold ownM; rw [List.filter_append, List.map_append]

theorem ownM_setPod (pods : List CPod) (p : CPod → Bool) (f f' : CPod → CPod) (hp : ∀ c, p (own c) = p c)
    (hm : ∀ c, (f c).member = c.member) (hf : ∀ c, own (f c) = f' (own c)) :
    ownM (setPod pods p f) = setPod (ownM pods) p f' := by
  unfold ownM
  have h1 : (setPod pods p f).filter (·.member) = setPod (pods.filter (·.member)) p f := by
    unfold setPod
    rw [List.filter_map]
    congr 1
    apply List.filter_congr
    intro c _
    simp only [Function.comp]
    split_ifs
    · exact hm c
    · rfl
  rw [h1]
  exact setPod_map_own _ p f f' hp hf

/-- the pod-control calls do to the members what they do in the members-only world -/
theorem ownM_applyActs (setName : String) (orig orig' : List CPod) (ho : ∀ c ∈ orig', c.owner = .self)
    (acts : List Action) (pods : List CPod) :
    ownM (applyActs setName orig pods acts) = applyActs setName orig' (ownM pods) acts := by
  induction acts generalizing pods with
  | nil => rfl
  | cons a rest ih =>
    cases a with
    | create o rev =>
      unfold applyActs
      rw [ih, ownM_append]
      rfl
    | delete o id w =>
      unfold applyActs
      rw [ih]
      congr 1
      have e : List.filter (fun c => !(c.pod.id == id && (c.pod.failed || c.pod.succeeded))) (ownM pods) =
          ownM (List.filter (fun c => !(c.pod.id == id && (c.pod.failed || c.pod.succeeded))) pods) := by
        unfold ownM
        rw [List.filter_filter, List.filter_map, List.filter_filter]
        congr 1
        apply List.filter_congr
        intro c _
        simp only [Function.comp, own]
        exact Bool.and_comm _ _
      rw [e]
      apply ownM_setPod _ _ _ _ (fun _ => rfl)
      · intro c; rfl
      · intro c; rfl
    | update o =>
      unfold applyActs
      rw [ih]
      congr 1
      apply ownM_setPod _ _ _ _ (fun _ => rfl)
      · intro c; rfl
      · intro c
        have : (orig'.find? (·.name == canonicalName setName o)).any (·.owner == .none) = false := by
          cases hf : orig'.find? (·.name == canonicalName setName o) with
          | none => rfl
          | some y =>
            have hy := List.mem_of_find?_eq_some hf
            simp [ho y hy]
        simp only [this, Bool.false_eq_true, if_false]
        rfl

/-- a non-member in the list after the calls was one before, under the same name, and is not the set's if it was not -/
theorem nonmem_applyActs (setName : String) (orig : List CPod) (acts : List Action) (pods : List CPod) :
    ∀ c ∈ applyActs setName orig pods acts, c.member = false →
      ∃ c0 ∈ pods, c0.member = false ∧ c0.name = c.name ∧ (c0.owner ≠ .self → c.owner ≠ .self) := by
  induction acts generalizing pods with
  | nil => intro c hc hm; exact ⟨c, hc, hm, rfl, fun h => h⟩
  | cons a rest ih =>
    cases a with
    | create o rev =>
      unfold applyActs
      intro c hc hm
      obtain ⟨c0, hc0, h1, h2, h3⟩ := ih _ c hc hm
      rw [List.mem_append, List.mem_singleton] at hc0
      rcases hc0 with hc0 | rfl
      · exact ⟨c0, hc0, h1, h2, h3⟩
      · cases h1
    | delete o id w =>
      unfold applyActs
      intro c hc hm
      obtain ⟨c1, hc1, h1, h2, h3⟩ := ih _ c hc hm
      obtain ⟨c0, hc0, hcc⟩ := setPod_mem hc1
      have hc0' := List.mem_of_mem_filter hc0
      rcases hcc with rfl | rfl
      · exact ⟨c0, hc0', h1, h2, h3⟩
      · exact ⟨c1, hc0', h1, h2, h3⟩
    | update o =>
      unfold applyActs
      intro c hc hm
      obtain ⟨c1, hc1, h1, h2, h3⟩ := ih _ c hc hm
      obtain ⟨c0, hc0, hcc⟩ := setPod_mem hc1
      rcases hcc with rfl | rfl
      · refine ⟨c0, hc0, h1, h2, ?_⟩
        intro hne
        apply h3
        simp only
        split_ifs
        · simp
        · exact hne
      · exact ⟨c1, hc0, h1, h2, h3⟩

theorem setPod_nonmem_names (pods : List CPod) (p : CPod → Bool) (f : CPod → CPod) (hm : ∀ c, (f c).member = c.member)
    (hn : ∀ c, (f c).name = c.name) :
    ((setPod pods p f).filter (fun c => !c.member)).map (·.name) = (pods.filter (fun c => !c.member)).map (·.name) := by
  unfold setPod
  rw [List.filter_map, List.map_map]
  have h1 : ((fun c : CPod => !c.member) ∘ fun c => if p c = true then f c else c) = fun c => !c.member := by
    funext c
    simp only [Function.comp]
    split_ifs
    · rw [hm]
    · rfl
  rw [h1]
  apply List.map_congr_left
  intro c _
  simp only [Function.comp]
  split_ifs
  · exact hn c
  · rfl

theorem setPod_nonmem_sub (pods : List CPod) (p : CPod → Bool) (f : CPod → CPod) (hm : ∀ c, (f c).member = c.member)
    (hn : ∀ c, (f c).name = c.name) :
    (((setPod pods p f).filter (fun c => !c.member)).map (·.name)).Sublist ((pods.filter (fun c => !c.member)).map (·.name)) := by
  rw [setPod_nonmem_names pods p f hm hn]

/-- the names of the non-members after the calls are among those before, each at most once -/
theorem nonmem_names_applyActs (setName : String) (orig : List CPod) (acts : List Action) (pods : List CPod) :
    (((applyActs setName orig pods acts).filter (fun c => !c.member)).map (·.name)).Sublist
      ((pods.filter (fun c => !c.member)).map (·.name)) := by
  induction acts generalizing pods with
  | nil => exact List.Sublist.refl _
  | cons a rest ih =>
    cases a with
    | create o rev =>
      unfold applyActs
      refine (ih _).trans ?_
      rw [List.filter_append]
      simp
    | delete o id w =>
      unfold applyActs
      refine (ih _).trans ?_
      refine (List.Sublist.trans (setPod_nonmem_sub _ _ _ ?_ ?_) ?_)
      · intro c; rfl
      · intro c; rfl
      · rw [List.filter_filter]
        apply List.Sublist.map
        apply List.monotone_filter_right
        intro c hc
        simp only [Bool.and_eq_true] at hc
        exact hc.1
    | update o =>
      unfold applyActs
      refine (ih _).trans ?_
      refine setPod_nonmem_sub _ _ _ ?_ ?_
      · intro c; rfl
      · intro c; rfl

section
variable {h : Hashing} {x : SyncIn} {G : List Rev} {upd : Rev} {cc : Int}

theorem mOf_pick (hpick : PickOut h x.template (x.collisionCount.getD 0) (adoptS x.store) G upd cc) :
    PickOut h (mOf x).template ((mOf x).collisionCount.getD 0) (adoptS (mOf x).store) G upd cc := hpick

/-- **one sync + apply in a world with non-members**, against the prepared members-only world: everything but the pod
    list is the same, and the pod list is the old one with the claim stage's patches and the reconcile's calls applied -/
theorem prep_simM (hp : PreM x) (hpick : PickOut h x.template (x.collisionCount.getD 0) (adoptS x.store) G upd cc)
    (hcc : cc ≠ x.collisionCount.getD 0 → x.stored.updateRev ≠ upd.name)
    (hn : NormC h (prepW h (mOf x))) (hok : hn.recon.2 = .ok) :
    ({ applySync x [] (syncF h x []) with pods := [] } : SyncIn) =
      { applySync (prepW h (mOf x)) [] (syncF h (prepW h (mOf x)) []) with pods := [] } ∧
    (syncF h x []).outcome = .ok ∧
    (applySync x [] (syncF h x [])).pods =
      reindex (sortPods (applyActs x.setName x.pods (x.pods.map norm1) hn.recon.1.acts)) ∧
    (applySync (prepW h (mOf x)) [] (syncF h (prepW h (mOf x)) [])).pods =
      reindex (sortPods (applyActs x.setName (prepW h (mOf x)).pods (prepW h (mOf x)).pods hn.recon.1.acts)) := by
  have hpc := hp.preC
  have hpickm := mOf_pick hpick
  obtain ⟨lim, hlim, _⟩ := hp.spec.lim
  obtain ⟨lg1, lg2, hlg1, hlg2, hsync⟩ := sync_preM hp hpick
  have hro : updateStatefulSet x.view
      (((sortRevs (listRevisions (adoptS x.store))).find? (·.name == x.stored.currentRev)).getD upd).name upd.name
      ((x.pods.filter (·.member)).map (·.pod)) [] = hn.recon := by
    unfold NormC.recon
    rw [prepW_curName hpc hpickm hn, prepW_updRev hpc hpickm hn]
    have : (prepW h (mOf x)).pods.map (·.pod) = (x.pods.filter (·.member)).map (·.pod) := map_own_pod _
    rw [this]
    rfl
  have hnohit : NoHit (podFaults x.setName [] x.pods (x.pods.filter (·.member))
      (maxReplicaAndSlots (replicasOf x.view) x.view.slots).1 (maxReplicaAndSlots (replicasOf x.view) x.view.slots).2)
      (idxOf (maxReplicaAndSlots (replicasOf x.view) x.view.slots).1 (maxReplicaAndSlots (replicasOf x.view) x.view.slots).2) := by
    apply podFaults_noHitM
    · intro c hc
      rw [List.mem_filter] at hc
      exact (hp.mem c hc.1 hc.2).2.2.1
    · exact hp.ords
    · intro c hc hncl hcn
      have hm : c.member = false := by
        cases hcm : c.member
        · rfl
        · exact absurd (List.mem_filter.2 ⟨hc, hcm⟩) hncl
      cases hr : inRange (maxReplicaAndSlots (replicasOf x.view) x.view.slots).1
          (maxReplicaAndSlots (replicasOf x.view) x.view.slots).2 c.pod.ord
      · rfl
      · exfalso
        have hD : c.pod.ord ∈ desired (replicasOf x.view) x.view.slots := by
          rw [desired_eq_idxOf _ _ hp.spec.r0]; exact mem_idxOf.2 hr
        exact hp.inertNames c hc hm _ hD hcn
  obtain ⟨lgR, hlgR, hrec⟩ := reconcileF_nilM x (x.pods.filter (·.member)) (sortRevs (listRevisions (adoptS x.store)))
    (((sortRevs (listRevisions (adoptS x.store))).find? (·.name == x.stored.currentRev)).getD upd) upd cc G
    (lg1 ++ claimLogM false x.pods ++ lg2) hnohit hp.spec.rep hp.gone lim hlim
    hpick.sub (SYb.sorted_listing_names_nodup _) hn.recon hro hok
  obtain ⟨hN, _⟩ := applySync_normC h (prepW h (mOf x)) hn hok
  have hkeep : (fun y : Rev => !((victimsOf lim ((x.pods.filter (·.member)).map (·.pod.rev))
      (sortRevs (listRevisions (adoptS x.store)))
      (((sortRevs (listRevisions (adoptS x.store))).find? (·.name == x.stored.currentRev)).getD upd) upd).map
        (·.name)).contains y.name) = hn.keep := by
    funext y; unfold NormC.keep; rw [prepW_victims hpc hpickm hn lim hlim]; rfl
  have hstore : (prepW h (mOf x)).store = G := (prep_eq hpc hpickm).1
  have hus : hn.recon.1.status.updateRev = upd.name := by
    rw [(recon_status_names hn hok).2, prepW_updRev hpc hpickm hn]
  have hccN : (prepW h (mOf x)).collisionCount = (if cc == x.collisionCount.getD 0 then x.collisionCount else some cc) :=
    (prep_eq hpc hpickm).2
  have hccD : (prepW h (mOf x)).collisionCount.getD 0 = cc := prepCC_getD hpc hpickm
  have hview : ∀ (a b : Status), a = b →
      ({ x.view with stCurrentReplicas := a.current } : SetView) =
        { (prepW h (mOf x)).view with stCurrentReplicas := b.current } := by
    intro a b hab; rw [hab]; rfl
  have hP1 : applyPatches [] (lg1 ++ claimLogM false x.pods ++ lg2 ++ lgR) x.pods = x.pods.map norm1 := by
    rw [applyPatches_nil, List.foldl_append, List.foldl_append, List.foldl_append, foldl_patch_noPatch lg1 hlg1,
      claimLogM_norm x.pods hp.podNames hp.flipColon, foldl_patch_noPatch lg2 hlg2, foldl_patch_noPatch lgR hlgR]
  refine ⟨?_, by rw [hsync, hrec], ?_, ?_⟩
  · rw [hN, hsync, hrec]
    by_cases hinc : inconsistentStatus x.stored (completeRollingUpdate x.view hn.recon.1.status) = true
    · have hinc' : inconsistentStatus (prepW h (mOf x)).stored (completeRollingUpdate (prepW h (mOf x)).view hn.recon.1.status) = true := hinc
      refine syncIn_ext _ _ rfl rfl rfl ?_ ?_ ?_ rfl rfl rfl ?_ rfl
      · apply hview
        simp only [hinc, hinc', if_true, Option.getD_some]
        rfl
      · show (_ : Option Status).getD x.stored = _
        simp only [hinc, hinc', if_true, Option.getD_some]
        rfl
      · show (if (_ : Option Status).isSome then _ else x.collisionCount) = _
        simp only [hinc, hinc', if_true, Option.isSome_some, hccD]
      · show List.filter _ G = List.filter hn.keep (prepW h (mOf x)).store
        rw [hkeep, hstore]
    · have hinc0 : inconsistentStatus x.stored (completeRollingUpdate x.view hn.recon.1.status) = false := by simpa using hinc
      have hinc' : inconsistentStatus (prepW h (mOf x)).stored (completeRollingUpdate (prepW h (mOf x)).view hn.recon.1.status) = false := hinc0
      have hcceq : cc = x.collisionCount.getD 0 := by
        by_contra hne
        have h1 := hcc hne
        unfold inconsistentStatus at hinc0
        simp only [Bool.or_eq_false_iff, bne_eq_false_iff_eq] at hinc0
        have h2 := hinc0.2
        rw [cru_updateRev, hus] at h2
        exact h1 h2.symm
      have hccN' : (prepW h (mOf x)).collisionCount = x.collisionCount := by
        rw [hccN, hcceq]; simp
      refine syncIn_ext _ _ rfl rfl rfl ?_ ?_ ?_ rfl rfl rfl ?_ rfl
      · apply hview
        simp only [hinc0, hinc', Bool.false_eq_true, if_false, Option.getD_none]
        rfl
      · show (_ : Option Status).getD x.stored = _
        simp only [hinc0, hinc', Bool.false_eq_true, if_false, Option.getD_none]
        rfl
      · show (if (_ : Option Status).isSome then _ else x.collisionCount) = _
        simp only [hinc0, hinc', Bool.false_eq_true, if_false, Option.isSome_none, hccN']
      · show List.filter _ G = List.filter hn.keep (prepW h (mOf x)).store
        rw [hkeep, hstore]
  · rw [hsync, hrec]
    show reindex (sortPods (applyActs x.setName x.pods (applyPatches [] _ x.pods) (hn.recon.1.acts.take _))) = _
    rw [List.take_length, hP1]
  · rw [hN]
    rfl

end

end Asts.C02p
