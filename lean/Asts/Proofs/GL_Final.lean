import Asts.Proofs.C02_Target
import Asts.Props.C12

/-! # GL — glue, C02 × C12: the status of a `Final` world is an exact census

`Final` (the quiescent state of `Props/C02.lean`) asks that the stored status be consistent with the status a reconcile of
the set's own pods would compute. Read through the independently written counting specification `ExactCensus` of
`Props/C12.lean`, that says: the four counters of the stored status are exactly the numbers of own pods, of Running and
Ready own pods, and of admitted, non-terminating own pods at `status.currentRevision` / `status.updateRevision`. -/
namespace Asts.GL
open Asts Asts.C02p

theorem completeRollingUpdate_updated (v : SetView) (st : Status) : (completeRollingUpdate v st).updated = st.updated := by
  unfold completeRollingUpdate; split_ifs <;> rfl

/-- the completion rule changes `current` only to a value that is the census at the revision it then reports -/
theorem completeRollingUpdate_current (v : SetView) (c u : String) (P : List Pod) (g : Int)
    (hc : (completeRollingUpdate v { census c u P with observedGen := g, currentRev := c, updateRev := u }).currentRev = c) :
    (completeRollingUpdate v { census c u P with observedGen := g, currentRev := c, updateRev := u }).current
      = (census c u P).current := by
  unfold completeRollingUpdate at hc ⊢
  split_ifs at hc ⊢
  · simp only at hc ⊢
    subst hc
    rfl
  · rfl

/-- **the stored status of a `Final` world is an exact census of the set's own pods** -/
theorem final_census {h : Hashing} {i : SyncIn} (hf : Final h i) :
    C12.ExactCensus i.stored.currentRev i.stored.updateRev ((ownPods i).map (·.pod)) i.stored := by
  obtain ⟨-, h2, h3, h4, h5, h6, -⟩ := inconsistent_false hf.status
  have hc := C12.census_exact i.stored.currentRev i.stored.updateRev ((ownPods i).map (·.pod))
  unfold expectedStatus at h2 h3 h4 h5 h6
  simp only at h2 h3 h4 h5 h6
  refine ⟨?_, ?_, ?_, ?_⟩
  · rw [← h2, completeRollingUpdate_replicas]; exact hc.total
  · rw [← h4, completeRollingUpdate_ready]; exact hc.ready
  · rw [← h3, completeRollingUpdate_current _ _ _ _ _ h6]; exact hc.current
  · rw [← h5, completeRollingUpdate_updated]; exact hc.updated

end Asts.GL
