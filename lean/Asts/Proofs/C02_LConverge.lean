import Asts.Proofs.C02_LMono
import Asts.Proofs.C02_Policies

/-! C02, legacy boundary mode: convergence for both pod management policies. -/
namespace Asts.C02p
open Asts Asts.L1c

section
variable {h : Hashing} {j : SyncIn}

theorem wPod_le_wLPod {v : SetView} {upd : String} {o : Int} {c : CPod} (hnt : c.pod.terminating = false) :
    wPod v upd o c ≤ wLPod upd c := by
  unfold wPod wLPod
  rw [hnt]
  simp only [Bool.false_eq_true, if_false, Nat.add_zero]
  cases hfs : (c.pod.failed || c.pod.succeeded)
  · simp only [Bool.false_eq_true, if_false]
    cases h2 : (c.pod.rev != upd)
    · simp
    · simp only [Bool.and_true, if_true]
      split_ifs <;> omega
  · simp

theorem wOf_le_wLOf {v : SetView} {cur upd : String} {D : List Int} {pods : List CPod}
    (hnt : ∀ c ∈ pods, c.pod.terminating = false) (o : Int) : wOf v upd pods o ≤ wLOf v cur upd pods D o := by
  unfold wOf wLOf
  cases hf : pods.find? (·.pod.ord == o) with
  | none => simp only; split_ifs <;> omega
  | some c => exact wPod_le_wLPod (hnt c (List.mem_of_find?_eq_some hf))

theorem sum_map_le {α : Type} (f g : α → Nat) (l : List α) (hle : ∀ x ∈ l, f x ≤ g x) : (l.map f).sum ≤ (l.map g).sum := by
  induction l with
  | nil => simp
  | cons a t ih =>
    simp only [List.map_cons, List.sum_cons]
    have := hle a List.mem_cons_self
    have := ih (fun x hx => hle x (List.mem_cons_of_mem _ hx))
    omega

/-- the legacy measure dominates the ordinary one on settled worlds -/
theorem muPods_le_muL (hs : NSC h j) : muPods j ≤ muL j := by
  rw [muPods_eq, muL_eq hs.norm, ← hs.norm.updName]
  unfold muOf muLOf
  have := sum_map_le (wOf j.view (updName j) j.pods)
    (wLOf j.view hs.norm.curRev.name (updName j) j.pods (desired (replicasOf j.view) j.view.slots))
    (desired (replicasOf j.view) j.view.slots) (fun o _ => wOf_le_wLOf (fun c hc => (hs.settled c hc).1) o)
  omega

end

/-- a class of legacy-mode worlds on which a pod management policy works -/
structure LClass (h : Hashing) (K : SyncIn → Prop) : Prop where
  ns : ∀ j, K j → NSC h j
  step : ∀ j (hk : K j), ∃ A tg, LPol (ns j hk) A tg ∧ (0 < muL j → LEvent j A tg)
  next : ∀ j, K j → K (nextW h j)

theorem converge_lclass {h : Hashing} {K : SyncIn → Prop} (hK : LClass h K) (m : Nat) :
    ∀ {j : SyncIn}, K j → muL j ≤ m → ∃ k ≤ m + 2, Final h (nextWN h k j) := by
  induction m with
  | zero =>
    intro j hk hm
    have := muPods_le_muL (hK.ns j hk)
    exact ⟨2, by omega, done_final2 (hK.ns j hk) (by omega)⟩
  | succ m ih =>
    intro j hk hm
    by_cases hz : muL j = 0
    · have := muPods_le_muL (hK.ns j hk)
      exact ⟨2, by omega, done_final2 (hK.ns j hk) (by omega)⟩
    · obtain ⟨A, tg, hl, hev⟩ := hK.step j hk
      have hlt := (muL_step hl).2 (hev (by omega))
      obtain ⟨k, hkk, hf⟩ := ih (hK.next j hk) (by omega)
      exact ⟨k + 1, by omega, hf⟩

theorem converge_of_lclass {h : Hashing} {K : SyncIn → Prop} (hK : LClass h K) {i : SyncIn} (hk : K (settle i)) :
    ∃ n ≤ muL (settle i) + 3, Final h (roundsN h n i) := by
  obtain ⟨k, hkk, hf⟩ := converge_lclass hK (muL (settle i)) hk (le_refl _)
  refine ⟨k + 1, by omega, ?_⟩
  rw [roundsN_succ, round_fst, settle_roundsN]
  exact final_applySync h _ hf

theorem lpar_class (h : Hashing) : LClass h (LParK h) where
  ns := fun _ hk => hk.1
  step := fun _ hk => ⟨_, _, lpar_pol hk, lpar_progress hk⟩
  next := fun _ hk => lpar_next hk

theorem lmono_class (h : Hashing) : LClass h (LMonoK h) where
  ns := fun _ hk => hk.1.1
  step := fun _ hk => ⟨_, _, lmono_pol hk, lmono_progress hk⟩
  next := fun _ hk => lmono_next hk

theorem legacy_of_legacyB {v : SetView} (hb : legacyB v = true) : v.strat = .rolling ∧ v.ru = none := by
  unfold legacyB at hb
  simp only [Bool.and_eq_true, beq_iff_eq, Option.isNone_iff_eq_none] at hb
  exact hb

/-- the decidable reading: `normLB` on the world (or on its settled form) puts the settled world in a legacy class -/
theorem lclass_of_normLB {h : Hashing} {i : SyncIn} (hb : normLB h i = true) :
    (i.view.parallel = true ∧ LParK h (settle i)) ∨ (i.view.parallel = false ∧ LMonoK h (settle i)) := by
  unfold normLB at hb
  simp only [Bool.and_eq_true, Bool.or_eq_true] at hb
  obtain ⟨⟨⟨h1, hl⟩, h2⟩, h3⟩ := hb
  obtain ⟨hroll, hru⟩ := legacy_of_legacyB hl
  have hn := normC_of_normCB h1
  cases hp : i.view.parallel with
  | true => exact Or.inl ⟨rfl, nsc_settle hn (by simpa [roomB] using h2), hp, hroll, hru⟩
  | false =>
    rw [hp] at h3
    exact Or.inr ⟨rfl, monoK0_settle hn h2 hp (by simpa using h3), hroll, hru⟩

theorem lclass_of_normLB_settled {h : Hashing} {i : SyncIn} (hb : normLB h (settle i) = true) :
    (i.view.parallel = true ∧ LParK h (settle i)) ∨ (i.view.parallel = false ∧ LMonoK h (settle i)) := by
  unfold normLB at hb
  simp only [Bool.and_eq_true, Bool.or_eq_true] at hb
  obtain ⟨⟨⟨h1, hl⟩, h2⟩, h3⟩ := hb
  obtain ⟨hroll, hru⟩ := legacy_of_legacyB hl
  have hn := normC_of_normCB h1
  cases hp : i.view.parallel with
  | true => exact Or.inl ⟨rfl, ⟨hn, idOk_of_idPos (settle_idPos i) hn.small, settle_settled i, by simpa [roomB] using h2⟩, hp, hroll, hru⟩
  | false =>
    have hp' : (settle i).view.parallel = false := hp
    rw [hp'] at h3
    exact Or.inr ⟨rfl, monoK0_settled hn h2 hp (by simpa using h3), hroll, hru⟩

/-- **convergence in the legacy boundary mode**, both policies -/
theorem converge_legacy {h : Hashing} {i : SyncIn} (hb : normLB h i = true) :
    ∃ n ≤ muL (settle i) + 3, Final h (roundsN h n i) := by
  rcases lclass_of_normLB hb with ⟨_, hk⟩ | ⟨_, hk⟩
  · exact converge_of_lclass (lpar_class h) hk
  · exact converge_of_lclass (lmono_class h) hk

theorem converge_legacy_settled {h : Hashing} {i : SyncIn} (hb : normLB h (settle i) = true) :
    ∃ n ≤ muL (settle i) + 3, Final h (roundsN h n i) := by
  rcases lclass_of_normLB_settled hb with ⟨_, hk⟩ | ⟨_, hk⟩
  · exact converge_of_lclass (lpar_class h) hk
  · exact converge_of_lclass (lmono_class h) hk

end Asts.C02p

namespace Asts.C02p
open Asts Asts.L1c

theorem wLPod_le_five (upd : String) (c : CPod) : wLPod upd c ≤ 5 := by
  unfold wLPod; split_ifs <;> omega

theorem wLOf_le_count (v : SetView) (cur upd : String) (pods : List CPod) (D : List Int) (o : Int) :
    wLOf v cur upd pods D o ≤ 4 + (pods.filter (fun c => c.pod.ord == o)).length := by
  unfold wLOf
  cases hf : pods.find? (·.pod.ord == o) with
  | none => simp only; split_ifs <;> omega
  | some c =>
    have hm := List.mem_of_find?_eq_some hf
    have hp := List.find?_some hf
    have : 0 < (pods.filter (fun c => c.pod.ord == o)).length :=
      List.length_pos_of_mem (List.mem_filter.2 ⟨hm, hp⟩)
    have := wLPod_le_five upd c
    simp only
    omega

theorem sum_count_le (D : List Int) (hD : D.Nodup) (l : List CPod) :
    (D.map (fun o => (l.filter (fun c => c.pod.ord == o)).length)).sum ≤ l.length := by
  induction l with
  | nil => simp
  | cons c t ih =>
    have hsplit : ∀ D' : List Int, (D'.map (fun o => ((c :: t).filter (fun c => c.pod.ord == o)).length)).sum =
        D'.count c.pod.ord + (D'.map (fun o => (t.filter (fun c => c.pod.ord == o)).length)).sum := by
      intro D'
      induction D' with
      | nil => simp
      | cons a D' ih' =>
        rw [List.map_cons, List.sum_cons, ih', List.map_cons, List.sum_cons, List.count_cons]
        have hh : ((c :: t).filter (fun c => c.pod.ord == a)).length =
            (if (a == c.pod.ord) = true then 1 else 0) + (t.filter (fun c => c.pod.ord == a)).length := by
          rw [List.filter_cons]
          by_cases hca : c.pod.ord = a
          · simp [hca]; omega
          · have : (a == c.pod.ord) = false := by simp [Ne.symm hca]
            simp [hca, this]
        rw [hh]
        split_ifs <;> omega
    rw [hsplit]
    have := List.nodup_iff_count_le_one.1 hD c.pod.ord
    simp only [List.length_cons]
    omega

/-- **the legacy measure is within the bound the monitor `C02converges` allows** -/
theorem muL_le_roundBound (i : SyncIn) : muL (settle i) + 3 ≤ roundBound i := by
  have hlen : (desired (replicasOf i.view) i.view.slots).length = (replicasOf i.view).toNat := (desired_isDesired _ _).len
  have hnd : (desired (replicasOf i.view) i.view.slots).Nodup := (desired_isDesired _ _).sorted.nodup
  have e1 : replicasOf (settle i).view = replicasOf i.view := rfl
  have e2 : (settle i).view.slots = i.view.slots := rfl
  unfold muL muLOf
  rw [e1, e2]
  generalize desired (replicasOf i.view) i.view.slots = D at hlen hnd
  have hsum : (D.map (wLOf (settle i).view (curNameOf (settle i)) (updName (settle i)) (settle i).pods D)).sum ≤
      (D.map (fun o => 4 + ((settle i).pods.filter (fun c => c.pod.ord == o)).length)).sum :=
    sum_map_le _ _ D (fun o _ => wLOf_le_count _ _ _ _ _ o)
  have hadd : ∀ D' : List Int, (D'.map (fun o => 4 + ((settle i).pods.filter (fun c => c.pod.ord == o)).length)).sum =
      4 * D'.length + (D'.map (fun o => ((settle i).pods.filter (fun c => c.pod.ord == o)).length)).sum := by
    intro D'
    induction D' with
    | nil => simp
    | cons a D' ih => simp only [List.map_cons, List.sum_cons, ih, List.length_cons]; omega
  rw [hadd] at hsum
  have h1 := sum_count_le D hnd (settle i).pods
  have h2 : ((settle i).pods.filter (fun c => !D.contains c.pod.ord)).length ≤ (settle i).pods.length := List.length_filter_le _ _
  have h3 := settle_length_le i
  unfold roundBound
  omega

end Asts.C02p
