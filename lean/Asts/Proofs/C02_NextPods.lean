import Asts.Proofs.C02_Next

/-! C02: bookkeeping on lists of pod-control calls: where they create, and that `news` follows the creates. -/
namespace Asts.C02p
open Asts Asts.L1c

theorem wasOrphan_false {setName : String} {P : List CPod} (hc : PodsCtx setName P) (o : Int) : wasOrphan setName P o = false := by
  unfold wasOrphan
  cases hf : P.find? (·.name == canonicalName setName o) with
  | none => rfl
  | some c =>
    have := List.mem_of_find?_eq_some hf
    simp [(hc.own c this).1]

/-- the ordinals at which a list of calls creates -/
def createsOf : List Action → List Int
  | [] => []
  | .create o _ :: rest => o :: createsOf rest
  | .delete _ _ _ :: rest => createsOf rest
  | .update _ :: rest => createsOf rest

theorem createsOf_append (a b : List Action) : createsOf (a ++ b) = createsOf a ++ createsOf b := by
  induction a with
  | nil => rfl
  | cons x xs ih => cases x <;> simp [createsOf, ih]

theorem news_ords (setName : String) (orig : List CPod) (hno : ∀ o, wasOrphan setName orig o = false)
    (acts : List Action) (hfresh : ∀ id, freshId ≤ id → ¬ DelHits acts id) :
    (news setName orig acts).map (·.pod.ord) = createsOf acts := by
  induction acts with
  | nil => rfl
  | cons a rest ih =>
    have hrest : ∀ id, freshId ≤ id → ¬ DelHits rest id := by
      intro id hid hd
      obtain ⟨o, w, hm⟩ := hd
      exact hfresh id hid ⟨o, w, List.mem_cons_of_mem _ hm⟩
    cases a with
    | create o rev =>
      unfold news createsOf
      rw [eff_mkPod setName orig hno rest o rev (hrest _ (by omega))]
      simp only [Option.toList_some, List.singleton_append, List.map_cons, ih hrest]
      rfl
    | delete o id w => unfold news createsOf; exact ih hrest
    | update o => unfold news createsOf; exact ih hrest

theorem createsOf_reps_sublist (v : SetView) (cur upd : String) (reps : List (Int × Pod)) :
    (createsOf (reps.flatMap (repActs1 v cur upd))).Sublist (reps.map (·.1)) := by
  induction reps with
  | nil => exact List.Sublist.refl _
  | cons ip rest ih =>
    rw [List.flatMap_cons, createsOf_append, List.map_cons]
    unfold repActs1
    split_ifs
    · simp only [createsOf, List.singleton_append]; exact ih.cons₂ _
    · simp only [createsOf, List.singleton_append]; exact ih.cons₂ _
    · simp only [createsOf, List.nil_append]; exact ih.cons _
    · simp only [createsOf, List.nil_append]; exact ih.cons _

theorem createsOf_condActs (cs : List Pod) : createsOf (condActs cs) = [] := by
  unfold condActs
  induction cs.filter (fun c => !c.terminating) with
  | nil => rfl
  | cons c rest ih => simp [createsOf, ih]

theorem createsOf_walkActs (t : Option (Int × Pod)) : createsOf (walkActs t) = [] := by
  cases t with
  | none => rfl
  | some tq => rfl

theorem createsOf_actsOf_nodup (v : SetView) (cur upd : String) (b : Int) (E : List Int) (P : List CPod) :
    (createsOf (actsOf v cur upd b E P)).Nodup := by
  unfold actsOf
  rw [createsOf_append, createsOf_append, createsOf_condActs, createsOf_walkActs, List.append_nil, List.append_nil]
  apply (createsOf_reps_sublist v cur upd _).nodup
  have : (repsOf v cur upd b E (P.map (·.pod))).map (·.1) = idxOf b E := by
    unfold repsOf; rw [List.map_map]; exact List.map_id _
  rw [this]
  exact idxOf_nodup b E

theorem mem_createsOf {acts : List Action} {o : Int} : o ∈ createsOf acts ↔ ∃ rev, Action.create o rev ∈ acts := by
  induction acts with
  | nil => simp [createsOf]
  | cons a rest ih =>
    cases a with
    | create o' rev' =>
      simp only [createsOf, List.mem_cons, ih, Action.create.injEq]
      constructor
      · rintro (rfl | ⟨rev, h⟩)
        · exact ⟨rev', Or.inl ⟨rfl, rfl⟩⟩
        · exact ⟨rev, Or.inr h⟩
      · rintro ⟨rev, (⟨rfl, rfl⟩ | h)⟩
        · exact Or.inl rfl
        · exact Or.inr ⟨rev, h⟩
    | delete o' id w => simp [createsOf, ih]
    | update o' => simp [createsOf, ih]

theorem filterMap_map_sublist {α β : Type} (f : α → Option α) (g : α → β) (hfg : ∀ a a', f a = some a' → g a' = g a) (l : List α) :
    ((l.filterMap f).map g).Sublist (l.map g) := by
  induction l with
  | nil => exact List.Sublist.refl _
  | cons a l ih =>
    rw [List.filterMap_cons]
    cases hfa : f a with
    | none => simp only [List.map_cons]; exact ih.cons _
    | some a' =>
      simp only [List.map_cons]
      rw [hfg a a' hfa]
      exact ih.cons₂ _

theorem settleOne_ord (c : CPod) : (settleOne c).pod.ord = c.pod.ord := by unfold settleOne; split_ifs <;> rfl

end Asts.C02p
