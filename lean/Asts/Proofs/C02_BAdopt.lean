import Asts.Proofs.C02_BSort
import Asts.Proofs.C02_Log
import Asts.Proofs.C02_BDefs

/-! C02, normalising rounds: the adoption stage of the sync under the empty fault plan, exactly. -/
namespace Asts.C02p
open Asts

theorem noPatch_get_set : NoPatch "get:set" := by
  have : ("get:set" : String) = "get" ++ ":" ++ "set" := by decide
  rw [this]
  exact noPatch_prefix _ _ (by decide) (by decide)

theorem noPatch_update_rev (x : String) : NoPatch s!"update:rev:{x}" := by
  have : s!"update:rev:{x}" = "update" ++ ":" ++ ("rev:" ++ x) := by
    show "update:rev:" ++ x = _
    have e0 : ("update:rev:" : String) = "update" ++ ":" ++ "rev:" := by decide
    rw [e0, String.append_assoc]
  rw [this]
  exact noPatch_prefix _ _ (by decide) (by decide)

theorem noPatch_create_rev (x : String) : NoPatch s!"create:rev:{x}" := by
  have : s!"create:rev:{x}" = "create" ++ ":" ++ ("rev:" ++ x) := by
    show "create:rev:" ++ x = _
    have e0 : ("create:rev:" : String) = "create" ++ ":" ++ "rev:" := by decide
    rw [e0, String.append_assoc]
  rw [this]
  exact noPatch_prefix _ _ (by decide) (by decide)

theorem noPatch_get_rev (x : String) : NoPatch s!"get:rev:{x}" := by
  have : s!"get:rev:{x}" = "get" ++ ":" ++ ("rev:" ++ x) := by
    show "get:rev:" ++ x = _
    have e0 : ("get:rev:" : String) = "get" ++ ":" ++ "rev:" := by decide
    rw [e0, String.append_assoc]
  rw [this]
  exact noPatch_prefix _ _ (by decide) (by decide)

theorem noPatch_patch_rev (x : String) : NoPatch s!"patch:rev:{x}" := by
  have : s!"patch:rev:{x}" = "patch" ++ ":" ++ ("rev" ++ ":" ++ x) := by
    show "patch:rev:" ++ x = _
    have e0 : ("patch:rev:" : String) = "patch" ++ ":" ++ ("rev" ++ ":") := by decide
    rw [e0, String.append_assoc, String.append_assoc, String.append_assoc]
  rw [this]
  intro n h
  rw [splitOn_prefix _ _ (by decide), splitOn_prefix _ _ (by decide)] at h
  simp only [List.cons.injEq] at h
  exact absurd h.2.1 (by decide)

/-! ### folds that cannot fail -/

theorem foldOk_pure {α : Type} (g : List Rev → α → List Rev) (lg : α → List String) (f : RevSt → α → RevSt × Bool)
    (hf : ∀ s x, f s x = ({ store := g s.store x, tr := { log := s.tr.log ++ lg x } }, true)) (xs : List α) (s : RevSt) :
    foldOk xs s f = ({ store := xs.foldl g s.store, tr := { log := s.tr.log ++ (xs.map lg).flatten } }, true) := by
  unfold foldOk
  induction xs generalizing s with
  | nil => simp
  | cons x xs ih =>
    rw [List.foldl_cons]
    have e : (if ((s, true) : RevSt × Bool).2 = true then f ((s, true) : RevSt × Bool).1 x else (s, true)) = f s x := by simp
    rw [e, hf s x, ih]
    simp

def setSel (n : String) (x : Rev) : Rev := if x.name == n then { x with selMatch := true } else x
def setOwn (n : String) (x : Rev) : Rev := if x.name == n then { x with owner := .self } else x
def selAll (N : List String) (x : Rev) : Rev := if N.contains x.name then { x with selMatch := true } else x
def ownAll (N : List String) (x : Rev) : Rev := if N.contains x.name then { x with owner := .self } else x

theorem labelStep_nil (s : RevSt) (r : Rev) :
    labelStep [] s r = ({ store := (if r.marker then s.store.map (setSel r.name) else s.store),
                          tr := { log := s.tr.log ++ (if r.marker then [s!"update:rev:{r.name}"] else []) } }, true) := by
  unfold labelStep
  by_cases hm : r.marker = true
  · simp only [hm, if_true, call_nil]; rfl
  · simp [hm]

theorem adoptStep_nil (s : RevSt) (r : Rev) :
    adoptStep [] s r = ({ store := (if r.owner != .none then s.store else s.store.map (setOwn r.name)),
                          tr := { log := s.tr.log ++ (if r.owner != .none then [] else [s!"patch:rev:{r.name}"]) } }, true) := by
  unfold adoptStep
  by_cases hm : (r.owner != .none) = true
  · simp [hm]
  · simp only [hm, if_false, call_nil]; rfl

theorem selAll_cons (n : String) (N : List String) (x : Rev) : selAll N (setSel n x) = selAll (n :: N) x := by
  unfold selAll setSel
  by_cases h1 : x.name = n
  · subst h1; by_cases h2 : N.contains x.name = true <;> simp [h2]
  · have : (x.name == n) = false := by simpa using h1
    by_cases h2 : N.contains x.name = true
    · have h2' : x.name ∈ N := by simpa using h2
      simp [this, h2', h1]
    · have h2' : x.name ∉ N := by simpa using h2
      simp [this, h2', h1]

theorem ownAll_cons (n : String) (N : List String) (x : Rev) : ownAll N (setOwn n x) = ownAll (n :: N) x := by
  unfold ownAll setOwn
  by_cases h1 : x.name = n
  · subst h1; by_cases h2 : N.contains x.name = true <;> simp [h2]
  · have : (x.name == n) = false := by simpa using h1
    by_cases h2 : N.contains x.name = true
    · have h2' : x.name ∈ N := by simpa using h2
      simp [this, h2', h1]
    · have h2' : x.name ∉ N := by simpa using h2
      simp [this, h2', h1]

theorem selAll_nil (x : Rev) : selAll [] x = x := by simp [selAll]
theorem ownAll_nil (x : Rev) : ownAll [] x = x := by simp [ownAll]

theorem foldl_label (revs : List Rev) (S : List Rev) :
    revs.foldl (fun S r => if r.marker then S.map (setSel r.name) else S) S =
      S.map (selAll ((revs.filter (·.marker)).map (·.name))) := by
  induction revs generalizing S with
  | nil =>
    have : selAll [] = id := funext selAll_nil
    simp [this]
  | cons r rs ih =>
    rw [List.foldl_cons, ih]
    by_cases hm : r.marker = true
    · simp only [hm, if_true, List.filter_cons_of_pos, List.map_cons, List.map_map]
      apply List.map_congr_left
      intro x _
      exact selAll_cons r.name _ x
    · simp [hm]

theorem foldl_own (revs : List Rev) (S : List Rev) :
    revs.foldl (fun S r => if r.owner != .none then S else S.map (setOwn r.name)) S =
      S.map (ownAll ((revs.filter (·.owner == .none)).map (·.name))) := by
  induction revs generalizing S with
  | nil =>
    have : ownAll [] = id := funext ownAll_nil
    simp [this]
  | cons r rs ih =>
    rw [List.foldl_cons, ih]
    by_cases hm : r.owner = .none
    · simp only [hm, bne_self_eq_false, Bool.false_eq_true, if_false, beq_self_eq_true, List.filter_cons_of_pos,
        List.map_cons, List.map_map]
      apply List.map_congr_left
      intro x _
      exact ownAll_cons r.name _ x
    · have h1 : (r.owner != Owner.none) = true := by simpa using hm
      have h2 : (r.owner == Owner.none) = false := by simpa using hm
      simp [h1, h2]

/-- the store after the adoption stage -/
def adoptS (S : List Rev) : List Rev :=
  if (listRevisions S).any (·.owner == .none) then
    (S.map (selAll (((listRevisions S).filter (·.marker)).map (·.name)))).map
      (ownAll (((listRevisions S).filter (·.owner == .none)).map (·.name)))
  else S

/-- **the adoption stage under the empty fault plan**, for a set the uncached GET confirms -/
theorem adopt_nil (fresh : Fresh) (hg : fresh.gone = false) (hu : fresh.uidOk = true) (hd : fresh.deleting = false)
    (S : List Rev) (l0 : List String) :
    ∃ lg, (∀ e ∈ lg, NoPatch e) ∧
      adoptOrphanRevisionsF [] false fresh { store := S, tr := { log := l0 } } =
        ({ store := adoptS S, tr := { log := l0 ++ lg } }, .ok) := by
  rw [adopt_eq]
  simp only [Bool.false_eq_true, if_false, listRevsF_nil]
  unfold adoptS
  by_cases ho : (listRevisions S).any (·.owner == .none) = true
  · simp only [ho, Bool.not_true, Bool.false_eq_true, if_false, if_true]
    rw [foldOk_pure (fun S r => if r.marker then S.map (setSel r.name) else S)
      (fun r => if r.marker then [s!"update:rev:{r.name}"] else []) _ labelStep_nil]
    simp only [Bool.not_true, Bool.false_eq_true, if_false, call_nil, Option.isSome_none, hg, hu, hd, Bool.or_self,
      Bool.not_true]
    rw [foldOk_pure (fun S r => if r.owner != .none then S else S.map (setOwn r.name))
      (fun r => if r.owner != .none then [] else [s!"patch:rev:{r.name}"]) _ adoptStep_nil]
    simp only [if_true, foldl_label, foldl_own]
    refine ⟨["list:revs", "list:revs"] ++ ((listRevisions S).map (fun r => if r.marker then [s!"update:rev:{r.name}"] else [])).flatten
      ++ ["get:set"] ++ ((listRevisions S).map (fun r => if r.owner != .none then [] else [s!"patch:rev:{r.name}"])).flatten, ?_, ?_⟩
    · intro e he
      simp only [List.mem_append, List.mem_flatten, List.mem_map] at he
      rcases he with ((he | ⟨l, ⟨r, _, rfl⟩, he⟩) | he) | ⟨l, ⟨r, _, rfl⟩, he⟩
      · simp only [List.mem_cons, List.not_mem_nil, or_false, or_self] at he
        rw [he]; exact noPatch_list_revs
      · split_ifs at he
        · rw [List.mem_singleton] at he; rw [he]; exact noPatch_update_rev _
        · cases he
      · rw [List.mem_singleton] at he; rw [he]; exact noPatch_get_set
      · split_ifs at he
        · cases he
        · rw [List.mem_singleton] at he; rw [he]; exact noPatch_patch_rev _
    · simp [List.append_assoc]
  · have ho' : (listRevisions S).any (·.owner == .none) = false := by simpa using ho
    simp only [ho', Bool.not_false, if_true, Bool.false_eq_true, if_false]
    refine ⟨["list:revs", "list:revs"], ?_, rfl⟩
    intro e he
    simp only [List.mem_cons, List.not_mem_nil, or_false, or_self] at he
    rw [he]; exact noPatch_list_revs

end Asts.C02p
