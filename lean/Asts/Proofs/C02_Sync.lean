import Asts.Proofs.C02_Quiet

/-! C02: the whole sync of a `Final` world, computed. -/
namespace Asts.C02p
open Asts Asts.L1c

theorem revsFinal_iff (h : Hashing) (i : SyncIn) : revsFinal h i = true ↔
    ∃ l, (listedRevs i).getLast? = some l ∧ l.name = i.stored.updateRev ∧
      equalRev l (freshRev h i (listedRevs i)) = true ∧
      (listedRevs i).any (·.name == i.stored.currentRev) = true ∧
      (listRevisions i.store).any (·.owner == .none) = false ∧
      ∃ lim, i.historyLimit = some lim ∧
        ((((listedRevs i).filter (fun r => !(i.stored.currentRev :: i.stored.updateRev :: (ownPods i).map (·.pod.rev)).contains r.name
            && r.owner == .self)).length : Nat) : Int) ≤ lim := by
  simp only [revsFinal]
  cases hl : (listedRevs i).getLast? with
  | none => simp
  | some l =>
    simp only [Bool.and_eq_true, beq_iff_eq, Bool.not_eq_true', Option.some.injEq, exists_eq_left']
    cases hlim : i.historyLimit with
    | none => simp
    | some lim => simp only [decide_eq_true_eq, and_assoc, Option.some.injEq, exists_eq_left']

theorem find_name {revs : List Rev} {n : String} (l : Rev) (h : revs.any (·.name == n) = true) :
    ((revs.find? (·.name == n)).getD l).name = n := by
  cases hf : revs.find? (·.name == n) with
  | none =>
    rw [List.find?_eq_none] at hf
    rw [List.any_eq_true] at h
    obtain ⟨x, hx, hxn⟩ := h
    exact absurd hxn (hf x hx)
  | some x => simpa using List.find?_some hf

theorem goodPods_of_final {i : SyncIn} (hs : SpecOk i) (hp : PodsFinal i) :
    GoodPods i.view i.stored.updateRev (maxReplicaAndSlots (replicasOf i.view) i.view.slots).1
      (maxReplicaAndSlots (replicasOf i.view) i.view.slots).2 ((ownPods i).map (·.pod)) := by
  constructor
  · intro p hpm
    rw [List.mem_map] at hpm
    obtain ⟨c, hc, rfl⟩ := hpm
    unfold ownPods at hc
    rw [List.mem_filter] at hc
    obtain ⟨a1, a2, a3, a4, a5, a6, a7, a8⟩ := hp.own c hc.1 (by simpa using hc.2)
    refine ⟨a5, a6, a7, ?_, fun hod hpart => ?_⟩
    · rw [desired_eq_idxOf _ _ hs.r0] at a4
      exact mem_idxOf.1 a4
    · rcases hs.strat with h | h
      · exact a8 h hpart
      · exact absurd h hod
  · intro o ho
    have : o ∈ desired (replicasOf i.view) i.view.slots := by
      rw [desired_eq_idxOf _ _ hs.r0]; exact mem_idxOf.2 ho
    obtain ⟨c, hc, hco⟩ := hp.full o this
    exact ⟨c.pod, List.mem_map.2 ⟨c, hc, rfl⟩, hco⟩

/-- **the sync of a `Final` world**: four list calls, nothing written, nothing done, `.ok` -/
theorem syncF_final (h : Hashing) (i : SyncIn) (hf : Final h i) :
    syncF h i [] = { log := ["list:revs", "list:revs", "list:revs", "list:revs"], status := none, cc := none, store := i.store,
                     cur := i.stored.currentRev, upd := i.stored.updateRev, claimed := ownPods i, acts := [], actsDone := 0,
                     outcome := .ok } := by
  have hs := (specOk_iff i).1 hf.spec
  have hp := (podsFinal_iff i).1 hf.pods
  obtain ⟨l, hl, hln, hleq, hcur, hno, lim, hlim, hhist⟩ := (revsFinal_iff h i).1 hf.revs
  have hst := hf.status
  have hcn := find_name l hcur
  unfold listedRevs at hl hleq hcur hhist hcn
  unfold freshRev at hleq
  unfold syncF
  simp only [hs.paused, hs.sel, Bool.not_true, Bool.or_self, Bool.false_eq_true, if_false, hs.del]
  rw [adopt_no_orphan _ _ hno]
  simp only
  rw [claimPodsF_noWork _ _ _ hp.noClaimWork]
  simp only [Bool.false_eq_true, if_false]
  rw [listRevsF_nil]
  simp only
  rw [getRevisionsF_final h _ _ _ _ _ l hl hleq]
  simp only
  have hg := goodPods_of_final hs hp
  rw [← hln] at hg
  unfold ownPods at hg
  rw [updateStatefulSet_quiet _ _ _ _ _ (replicasOf i.view) hs.rep hs.del hg]
  simp only [List.map_nil, List.flatten_nil, List.append_nil]
  have hinc : inconsistentStatus i.stored (completeRollingUpdate i.view
      (st0Of i.view ((List.find? (fun x => x.name == i.stored.currentRev) (sortRevs (listRevisions i.store))).getD l).name
        l.name (List.map (fun x => x.pod) (List.filter (fun c => c.owner == Owner.self) i.pods)))) = false := by
    rw [hcn, hln]
    exact hst
  rw [hinc, hlim]
  simp only [Bool.false_eq_true, if_false]
  rw [truncateF_within]
  · simp only [hcn, hln]
    simp [ownPods]
  · rw [hcn, hln]
    exact hhist

end Asts.C02p
