import Asts.Proofs.GL_Sync
import Asts.Model.World

/-! # GL — glue, world level: every round re-numbers the pods by position

`settle` and `applySync` both end with `reindex (sortPods …)`, and `reindex` gives every pod its position as id. Hence
the sync of every round of `World.round` / `runRounds` runs on a world whose pod ids are positions, which is the
`IdsOk` hypothesis of the reconcile-level theorems (as long as there are at most `freshId` = 1 000 000 pod objects). -/
namespace Asts.GL
open Asts

/-- pod ids are list positions -/
def PosIds (pods : List CPod) : Prop := ∀ (k : Nat) (c : CPod), pods[k]? = some c → c.pod.id = k

/-- **`reindex` yields ids = positions** -/
theorem reindex_posIds (l : List CPod) : PosIds (reindex l) := by
  intro k c hk
  unfold reindex at hk
  rw [List.getElem?_map, List.getElem?_zipIdx] at hk
  cases hl : l[k]? with
  | none => rw [hl] at hk; cases hk
  | some a =>
    rw [hl] at hk
    simp only [Option.map_some, Option.some.injEq] at hk
    rw [← hk]
    simp

@[simp] theorem length_reindex (l : List CPod) : (reindex l).length = l.length := by
  simp [reindex]

theorem insertPodByName_perm (c : CPod) : ∀ l : List CPod, (insertPodByName c l).Perm (c :: l)
  | [] => List.Perm.refl _
  | q :: qs => by
    unfold insertPodByName
    split
    · exact List.Perm.refl _
    · exact ((insertPodByName_perm c qs).cons q).trans (List.Perm.swap c q qs)

theorem foldl_insertPodByName_perm : ∀ (l acc : List CPod),
    (l.foldl (fun acc c => insertPodByName c acc) acc).Perm (l ++ acc)
  | [], acc => List.Perm.refl _
  | c :: cs, acc => by
    rw [List.foldl_cons]
    refine (foldl_insertPodByName_perm cs (insertPodByName c acc)).trans ?_
    refine ((insertPodByName_perm c acc).append_left cs).trans ?_
    simp

theorem sortPods_perm (l : List CPod) : (sortPods l).Perm l := by
  unfold sortPods
  refine (foldl_insertPodByName_perm l.reverse []).trans ?_
  simp

@[simp] theorem length_sortPods (l : List CPod) : (sortPods l).length = l.length := (sortPods_perm l).length_eq

/-- **`settle` ends with `reindex (sortPods …)`**, of a list no longer than the pods it started from -/
theorem settle_pods (i : SyncIn) : ∃ l, (settle i).pods = reindex (sortPods l) ∧ l.length ≤ i.pods.length := by
  refine ⟨_, rfl, ?_⟩
  rw [List.length_map]
  exact List.length_filter_le _ _

/-- **`applySync` ends with `reindex (sortPods …)`** -/
theorem applySync_pods (i : SyncIn) (plan : List Fault) (o : SyncOut) :
    ∃ l, (applySync i plan o).pods = reindex (sortPods l) := ⟨_, rfl⟩

theorem settle_posIds (i : SyncIn) : PosIds (settle i).pods := reindex_posIds _

theorem applySync_posIds (i : SyncIn) (plan : List Fault) (o : SyncOut) : PosIds (applySync i plan o).pods :=
  reindex_posIds _

theorem settle_length_le (i : SyncIn) : (settle i).pods.length ≤ i.pods.length := by
  obtain ⟨l, h, hl⟩ := settle_pods i
  rw [h]; simpa using hl

/-- positions as ids, on the pod objects handed to the reconcile-level predicates -/
theorem posIds_map {pods : List CPod} (h : PosIds pods) :
    ∀ (k : Nat) (p : Pod), (pods.map (·.pod))[k]? = some p → p.id = k := by
  intro k p hk
  rw [List.getElem?_map] at hk
  cases hc : pods[k]? with
  | none => rw [hc] at hk; cases hk
  | some c =>
    rw [hc] at hk
    simp only [Option.map_some, Option.some.injEq] at hk
    rw [← hk]; exact h k c hc

/-- **positions as ids give `IdsOk`** for the pods of a world -/
theorem idsOk_of_posIds {pods : List CPod} (h : PosIds pods) (hlen : pods.length ≤ freshId) :
    IdsOk (pods.map (·.pod)) :=
  idsOk_of_pos (posIds_map h) (by simpa using hlen)

/-- the world a round syncs on has `IdsOk` pods, whatever world the round started from -/
theorem settle_idsOk (i : SyncIn) (hlen : i.pods.length ≤ freshId) : IdsOk ((settle i).pods.map (·.pod)) :=
  idsOk_of_posIds (settle_posIds i) (le_trans (settle_length_le i) hlen)

/-! ### rounds -/

/-- the sync a round runs is the sync of the settled world -/
theorem round_fst (h : Hashing) (i : SyncIn) (plan : List Fault) :
    (round h i plan).1 = applySync (settle i) plan (syncF h (settle i) plan) := rfl

/-- the world after one round per fault plan of the list, in order -/
def roundsWith (h : Hashing) : List (List Fault) → SyncIn → SyncIn
  | [], i => i
  | p :: ps, i => roundsWith h ps (round h i p).1

theorem roundsWith_append (h : Hashing) (ps qs : List (List Fault)) (i : SyncIn) :
    roundsWith h (ps ++ qs) i = roundsWith h qs (roundsWith h ps i) := by
  induction ps generalizing i with
  | nil => rfl
  | cons p ps ih => exact ih _

/-- rounds change nothing of the spec part of the view the reconcile-level predicates read (only
    `status.currentReplicas` moves) -/
theorem round_view (h : Hashing) (i : SyncIn) (plan : List Fault) :
    (round h i plan).1.view = { i.view with stCurrentReplicas := (round h i plan).1.view.stCurrentReplicas } := rfl

theorem roundsWith_view (h : Hashing) (ps : List (List Fault)) (i : SyncIn) :
    (roundsWith h ps i).view = { i.view with stCurrentReplicas := (roundsWith h ps i).view.stCurrentReplicas } := by
  induction ps generalizing i with
  | nil => rfl
  | cons p ps ih =>
    show (roundsWith h ps (round h i p).1).view = _
    rw [ih, round_view]
    rfl

theorem roundsWith_replicasOf (h : Hashing) (ps : List (List Fault)) (i : SyncIn) :
    replicasOf (roundsWith h ps i).view = replicasOf i.view := by
  rw [roundsWith_view]; rfl

theorem roundsWith_parallel (h : Hashing) (ps : List (List Fault)) (i : SyncIn) :
    (roundsWith h ps i).view.parallel = i.view.parallel := by
  rw [roundsWith_view]

theorem settle_view (i : SyncIn) : (settle i).view = i.view := rfl

/-- after at least one round the pods of the world carry their positions as ids (before any `settle`) -/
theorem roundsWith_posIds (h : Hashing) (ps : List (List Fault)) (i : SyncIn) (hne : ps ≠ []) :
    PosIds (roundsWith h ps i).pods := by
  obtain ⟨qs, p, rfl⟩ : ∃ qs p, ps = qs ++ [p] := ⟨ps.dropLast, ps.getLast hne, (List.dropLast_append_getLast hne).symm⟩
  rw [roundsWith_append]
  show PosIds (round h _ p).1.pods
  rw [round_fst]
  exact applySync_posIds _ _ _

theorem runRounds_succ (h : Hashing) (fuel silent : Nat) (i : SyncIn) (plan : List Fault) :
    runRounds h (fuel + 1) silent i plan =
      if (if ((round h i plan).2.out == "ok" && (round h i plan).2.writes == 0) = true then silent + 1 else 0) ≥ 2
      then [(round h i plan).2]
      else (round h i plan).2 :: runRounds h fuel
        (if ((round h i plan).2.out == "ok" && (round h i plan).2.writes == 0) = true then silent + 1 else 0)
        (round h i plan).1 [] := rfl

/-- every observation of `runRounds` is the observation of one round on a world reached by rounds from the initial one
    (the first with the given plan, the later ones fault-free) -/
theorem runRounds_obs (h : Hashing) : ∀ (fuel silent : Nat) (i : SyncIn) (plan : List Fault),
    ∀ r ∈ runRounds h fuel silent i plan, ∃ (ps : List (List Fault)) (p : List Fault), r = (round h (roundsWith h ps i) p).2
  | 0, _, _, _ => by intro r hr; simp [runRounds] at hr
  | fuel + 1, silent, i, plan => by
    intro r hr
    rw [runRounds_succ] at hr
    split_ifs at hr
    all_goals
      rcases List.mem_cons.1 hr with hr | hr
      · exact ⟨[], plan, hr⟩
      · first
        | cases hr
        | (obtain ⟨ps, p, hp⟩ := runRounds_obs h fuel _ _ [] r hr
           exact ⟨plan :: ps, p, hp⟩)

end Asts.GL
