import Asts.Model.Defaults
import Asts.Spec.Defaults
import Asts.Gen.Defaulters
import Mathlib.Tactic

namespace Asts.Defaults
open List

/-! Every rule is "if zero then constant" or an idempotent rounding, so one more pass changes nothing. -/

@[simp] theorem orS_idem (d s : String) : orS d (orS d s) = orS d s := by
  unfold orS; split_ifs <;> simp_all

@[simp] theorem orI_idem (d n : Int) : orI d (orI d n) = orI d n := by
  unfold orI; split_ifs <;> simp_all

@[simp] theorem orO_idem {α : Type} (d : α) (o : Option α) : orO d (orO d o) = orO d o := by
  cases o <;> rfl

theorem orO_isSome {α : Type} (d : α) (o : Option α) : (orO d o).isSome = true := by
  cases o <;> rfl

theorem map_idem {α : Type} {f : α → α} (h : ∀ x, f (f x) = f x) (l : List α) : (l.map f).map f = l.map f := by
  rw [List.map_map]; congr 1; funext x; exact h x

theorem omap_idem {α : Type} {f : α → α} (h : ∀ x, f (f x) = f x) (o : Option α) : (o.map f).map f = o.map f := by
  cases o <;> simp [h]

/-- rounding up to a multiple of 10^6 is idempotent -/
@[simp] theorem roundUpMilli_idem (n : Int) : roundUpMilli (roundUpMilli n) = roundUpMilli n := by
  unfold roundUpMilli
  split_ifs <;> omega

/-- the rounded value is a multiple of 10^-3, at least as large in magnitude, and less than one step away -/
theorem roundUpMilli_spec (n : Int) :
    roundUpMilli n % 1000000 = 0 ∧ (0 ≤ n → n ≤ roundUpMilli n ∧ roundUpMilli n < n + 1000000) ∧
    (n < 0 → roundUpMilli n ≤ n ∧ n - 1000000 < roundUpMilli n) := by
  unfold roundUpMilli
  split_ifs <;> omega

@[simp] theorem dRes_idem (l : ResList) : dRes (dRes l) = dRes l := by
  unfold dRes; exact map_idem (fun e => by simp) l

@[simp] theorem dHttp_idem (h : HttpGet) : dHttp (dHttp h) = dHttp h := by simp [dHttp]

@[simp] theorem dProbe_idem (p : Probe) : dProbe (dProbe p) = dProbe p := by
  simp [dProbe, omap_idem dHttp_idem]

@[simp] theorem dRef_idem (r : Option String) : dRef (dRef r) = dRef r := by
  unfold dRef; exact omap_idem (fun s => by simp) r

/-- host port then protocol, for one port -/
def dPortAll (hn : Bool) (p : Port) : Port := dPort (if hn then dHostPort p else p)

theorem dPortAll_idem (hn : Bool) (p : Port) : dPortAll hn (dPortAll hn p) = dPortAll hn p := by
  cases hn <;> simp [dPortAll, dPort, dHostPort]

theorem dContainer_ports (hn : Bool) (c : Container) : (dContainer hn c).ports = c.ports.map (dPortAll hn) := by
  cases hn <;> simp [dContainer, dCommon, dContainerOnly, dHostPorts, dPortAll, List.map_map, Function.comp_def]

@[simp] theorem dCommon_idem (c : Container) : dCommon (dCommon c) = dCommon c := by
  simp [dCommon, map_idem (f := dPort) (fun p => by simp [dPort]), map_idem dRef_idem, omap_idem dProbe_idem, omap_idem dHttp_idem]

theorem dContainer_eq (hn : Bool) (c : Container) : dContainer hn c =
    { image := c.image,
      pullPolicy := if c.pullPolicy = "" then pullPolicyOf c.image else c.pullPolicy,
      termPath := orS "/dev/termination-log" c.termPath, termPolicy := orS "File" c.termPolicy,
      ports := c.ports.map (dPortAll hn), envRefs := c.envRefs.map dRef, limits := dRes c.limits, requests := dRes c.requests,
      liveness := c.liveness.map dProbe, readiness := c.readiness.map dProbe, startup := c.startup.map dProbe,
      postStart := c.postStart.map dHttp, preStop := c.preStop.map dHttp } := by
  cases hn <;> simp [dContainer, dCommon, dContainerOnly, dHostPorts, dPortAll, List.map_map, Function.comp_def]

theorem dContainer_idem (hn : Bool) (c : Container) : dContainer hn (dContainer hn c) = dContainer hn c := by
  rw [dContainer_eq hn (dContainer hn c), dContainer_eq hn c]
  simp only [map_idem (dPortAll_idem hn), map_idem dRef_idem, dRes_idem, omap_idem dProbe_idem, omap_idem dHttp_idem, orS_idem]
  congr 1
  split_ifs <;> simp_all

@[simp] theorem dProj_idem (s : ProjSource) : dProj (dProj s) = dProj s := by
  simp only [dProj]
  congr 1
  · exact omap_idem (fun items => map_idem dRef_idem items) _
  · exact omap_idem (fun e => orO_idem 3600 e) _

theorem dVolume_noModelledSource (v : Volume) : (dVolume v).noModelledSource = v.noModelledSource := by
  simp [Volume.noModelledSource, dVolume]

theorem dVolume_allNil (v : Volume) : (dVolume v).allNil = false := by
  have h := dVolume_noModelledSource v
  unfold Volume.allNil
  rw [h]
  simp only [dVolume, Volume.allNil]
  cases v.other <;> cases v.emptyDir <;> cases v.noModelledSource <;> rfl

theorem dVolume_idem (v : Volume) : dVolume (dVolume v) = dVolume v := by
  have h := dVolume_allNil v
  obtain ⟨o, e, hp, se, is, rbd, dw, cm, az, pr, sio⟩ := v
  simp only [dVolume] at h
  simp only [dVolume, Volume.mk.injEq, h, Bool.or_false, true_and]
  refine ⟨?_, ?_, ?_, ?_, ?_, ?_, ?_, ?_, ?_⟩
  · exact omap_idem (fun x => orO_idem "" x) _
  · exact omap_idem (fun x => orO_idem 420 x) _
  · exact omap_idem (fun x => orS_idem "default" x) _
  · exact omap_idem (fun r => by simp) _
  · exact omap_idem (fun d => by simp [map_idem dRef_idem]) _
  · exact omap_idem (fun x => orO_idem 420 x) _
  · exact omap_idem (fun a => by simp) _
  · exact omap_idem (fun p => by simp [map_idem dProj_idem]) _
  · exact omap_idem (fun s => by simp) _

@[simp] theorem dClaim_idem (c : Claim) : dClaim (dClaim c) = dClaim c := by simp [dClaim]

theorem dStrategy_idem (t : String) (ru : Option (Option Int)) :
    dStrategy (dStrategy t ru).1 (dStrategy t ru).2 = dStrategy t ru := by
  have hne : ("RollingUpdate" : String) ≠ "" := by decide
  by_cases ht : t = ""
  · subst ht
    rcases ru with _ | (_ | p) <;> simp [dStrategy, orS, orO, hne]
  · by_cases hr : t = "RollingUpdate"
    · subst hr; simp [dStrategy, orS, hne, omap_idem (fun x => orO_idem (0 : Int) x)]
    · simp [dStrategy, orS, ht, hr]

/-- **client-side defaulting applied twice equals applying it once**, for every defaulting view -/
theorem defaults_idem (v : View) : defaults (defaults v) = defaults v := by
  have hs := dStrategy_idem v.stratType v.rollingUpdate
  have h1 : (dStrategy (dStrategy v.stratType v.rollingUpdate).1 (dStrategy v.stratType v.rollingUpdate).2).1 =
      (dStrategy v.stratType v.rollingUpdate).1 := by rw [hs]
  have h2 : (dStrategy (dStrategy v.stratType v.rollingUpdate).1 (dStrategy v.stratType v.rollingUpdate).2).2 =
      (dStrategy v.stratType v.rollingUpdate).2 := by rw [hs]
  simp only [defaults, h1, h2, orS_idem, orO_idem, dRes_idem, map_idem dVolume_idem, map_idem (dContainer_idem v.hostNetwork),
    map_idem dCommon_idem, map_idem dClaim_idem]

/-- after one pass the pod template part is a fixed point: a further pass (what re-submitting a read-back object through
    the hijack client does) leaves it alone -/
theorem template_fixed (v : View) : (defaults (defaults v)).templatePart = (defaults v).templatePart := by
  rw [defaults_idem]

/-! ### defaulting never loses a value that was set -/

open Spec
@[simp] theorem keptS_orS (d s : String) : keptS s (orS d s) = true := by
  unfold keptS orS; split_ifs <;> simp_all
@[simp] theorem keptI_orI (d n : Int) : keptI n (orI d n) = true := by
  unfold keptI orI; split_ifs <;> simp_all
@[simp] theorem keptS_self (s : String) : keptS s s = true := by simp [keptS]
@[simp] theorem keptI_self (n : Int) : keptI n n = true := by simp [keptI]
@[simp] theorem sameI_self (n : Int) : sameI n n = true := by simp [sameI]
@[simp] theorem sameS_self (n : String) : sameS n n = true := by simp [sameS]
@[simp] theorem sameB_self (n : Bool) : sameB n n = true := by simp [sameB]
@[simp] theorem keptB_self (b : Bool) : keptB b b = true := by cases b <;> rfl
@[simp] theorem keptB_or (a b : Bool) : keptB a (a || b) = true := by cases a <;> cases b <;> rfl

theorem keptO_map {α : Type} {f : α → α → Bool} {g : α → α} (h : ∀ x, f x (g x) = true) (o : Option α) :
    keptO f o (o.map g) = true := by
  cases o <;> simp [keptO, h]

theorem keptO_orO {α : Type} {f : α → α → Bool} (h : ∀ x, f x x = true) (d : α) (o : Option α) :
    keptO f o (orO d o) = true := by
  cases o <;> simp [keptO, orO, h]

theorem keptL_map {α : Type} {f : α → α → Bool} {g : α → α} (h : ∀ x, f x (g x) = true) :
    ∀ l : List α, keptL f l (l.map g) = true
  | [] => rfl
  | x :: xs => by simp [keptL, h, keptL_map h xs]

@[simp] theorem roundedUp_roundUpMilli (q : Int) : roundedUp q (roundUpMilli q) = true := by
  have h := roundUpMilli_spec q
  unfold roundedUp
  by_cases hq : 0 ≤ q
  · have := h.2.1 hq
    simp [hq, h.1, this.1, this.2]
  · have := h.2.2 (by omega)
    simp [hq, h.1, this.1, this.2]

@[simp] theorem keptRes_dRes (l : ResList) : keptRes l (dRes l) = true := by
  unfold keptRes dRes; exact keptL_map (fun e => by simp) l

@[simp] theorem keptHttp_dHttp (h : HttpGet) : keptHttp h (dHttp h) = true := by simp [keptHttp, dHttp]
@[simp] theorem keptProbe_dProbe (p : Probe) : keptProbe p (dProbe p) = true := by
  simp [keptProbe, dProbe, keptO_map keptHttp_dHttp]
@[simp] theorem keptRef_dRef (r : Option String) : keptRef r (dRef r) = true := by
  unfold keptRef dRef; exact keptO_map (fun s => keptS_orS "v1" s) r

theorem keptPort_dPortAll (hn : Bool) (p : Port) : keptPort p (dPortAll hn p) = true := by
  cases hn <;> simp [keptPort, dPortAll, dPort, dHostPort]

theorem keptContainer_dContainer (hn : Bool) (c : Container) : keptContainer c (dContainer hn c) = true := by
  rw [dContainer_eq]
  simp only [keptContainer, sameS_self, keptS_orS, keptL_map (keptPort_dPortAll hn), keptL_map keptRef_dRef, keptRes_dRes,
    keptO_map keptProbe_dProbe, keptO_map keptHttp_dHttp, Bool.and_true, Bool.true_and]
  unfold keptS; split_ifs <;> simp_all

theorem keptContainer_dCommon (c : Container) : keptContainer c (dCommon c) = true := by
  simp [keptContainer, dCommon, keptL_map (f := keptPort) (g := dPort) (fun p => by simp [keptPort, dPort]), keptL_map keptRef_dRef,
    keptO_map keptProbe_dProbe, keptO_map keptHttp_dHttp]

theorem keptProj_dProj (s : ProjSource) : keptProj s (dProj s) = true := by
  simp [keptProj, dProj, keptO_map (f := keptL keptRef) (fun items => keptL_map keptRef_dRef items),
    keptO_map (f := keptO sameI) (fun e => keptO_orO sameI_self 3600 e)]

theorem keptVolume_dVolume (v : Volume) : keptVolume v (dVolume v) = true := by
  simp only [keptVolume, dVolume, sameB_self, keptB_or, Bool.true_and, Bool.and_eq_true]
  refine ⟨⟨⟨⟨⟨⟨⟨⟨?_, ?_⟩, ?_⟩, ?_⟩, ?_⟩, ?_⟩, ?_⟩, ?_⟩, ?_⟩
  · exact keptO_map (fun x => keptO_orO sameS_self "" x) _
  · exact keptO_map (fun x => keptO_orO sameI_self 420 x) _
  · exact keptO_map (fun x => keptS_orS "default" x) _
  · exact keptO_map (fun r => by simp) _
  · exact keptO_map (fun d => by simp [keptO_orO sameI_self, keptL_map keptRef_dRef]) _
  · exact keptO_map (fun x => keptO_orO sameI_self 420 x) _
  · exact keptO_map (fun a => by simp [keptO_orO sameS_self, keptO_orO sameB_self]) _
  · exact keptO_map (fun p => by simp [keptO_orO sameI_self, keptL_map keptProj_dProj]) _
  · exact keptO_map (fun s => by simp) _

theorem keptClaim_dClaim (c : Claim) : keptClaim c (dClaim c) = true := by simp [keptClaim, dClaim]

theorem kept_dStrategy (t : String) (ru : Option (Option Int)) :
    keptS t (dStrategy t ru).1 = true ∧ keptO (keptO sameI) ru (dStrategy t ru).2 = true := by
  refine ⟨by simp [dStrategy], ?_⟩
  rcases ru with _ | (_ | p) <;> simp [dStrategy, keptO, orO] <;> split_ifs <;> simp

/-- **one pass of defaulting keeps every value that was set** (quantities rounded up to 10^-3), for every view -/
theorem keptView_defaults (v : View) : keptView v (defaults v) = true := by
  have hs := kept_dStrategy v.stratType v.rollingUpdate
  simp only [keptView, defaults, keptS_orS, hs.1, hs.2, keptO_orO sameI_self, sameB_self, keptL_map keptVolume_dVolume,
    keptL_map (keptContainer_dContainer v.hostNetwork), keptL_map keptContainer_dCommon, keptRes_dRes, keptL_map keptClaim_dClaim,
    Bool.and_true, Bool.true_and]
  cases v.secCtx <;> rfl

/-- the unfixed strategy rule does lose one: no type, a block with partition 3 -/
theorem replacing_strategy_loses : keptO (keptO sameI) (some (some 3)) (dStrategyReplacing "" (some (some 3))).2 = false := by
  decide

/-- the monitor of the `defaults` engine is true on the model's observation of every view -/
theorem clauses_model (v : View) : ∀ c ∈ Spec.clauses (Spec.observe v), c.2 = true := by
  intro c hc
  simp only [Spec.clauses, Spec.observe, Spec.idempotent, Spec.templateKept, Spec.neverFails, Spec.setValuesKept, defaults_idem, keptView_defaults,
    beq_self_eq_true, Bool.and_self, List.mem_cons, List.not_mem_nil, or_false] at hc
  rcases hc with rfl | rfl | rfl | rfl <;> rfl

/-- the rule table names exactly the defaulting functions reachable from `SetObjectDefaults_StatefulSet` in the current
    tree (regenerated into `Gen.defaulters` on every check): a defaulter that is not modelled breaks this obligation -/
theorem ruleTable_covers_generated :
    (Gen.defaulters.all (fun d => ruleNames.contains d) && ruleNames.all (fun d => Gen.defaulters.contains d)) = true := by
  decide

end Asts.Defaults
