import Asts.Proofs.C02_Stable
import Mathlib.Data.String.Basic

/-! C02: `settle` is idempotent on worlds whose pod names are pairwise distinct (as object names in one namespace are). -/
namespace Asts.C02p
open Asts

def WeakSorted (l : List CPod) : Prop := l.Pairwise (fun a b => ¬ b.name < a.name)
def StrictSorted (l : List CPod) : Prop := l.Pairwise (fun a b => a.name < b.name)

theorem mem_insertPodByName {c x : CPod} {l : List CPod} : x ∈ insertPodByName c l ↔ x = c ∨ x ∈ l :=
  (insertPodByName_perm c l).mem_iff.trans List.mem_cons

theorem insertPodByName_sorted (c : CPod) (l : List CPod) (hl : WeakSorted l) : WeakSorted (insertPodByName c l) := by
  induction l with
  | nil => simp [insertPodByName, WeakSorted]
  | cons q qs ih =>
    unfold insertPodByName
    unfold WeakSorted at hl ih ⊢
    rw [List.pairwise_cons] at hl
    split_ifs with hlt
    · rw [List.pairwise_cons]
      refine ⟨?_, List.pairwise_cons.2 hl⟩
      intro x hx
      rcases List.mem_cons.1 hx with rfl | hx
      · exact String.lt_asymm hlt
      · intro hxc
        exact hl.1 x hx (String.lt_trans hxc hlt)
    · rw [List.pairwise_cons]
      refine ⟨?_, ih hl.2⟩
      intro x hx
      rcases mem_insertPodByName.1 hx with rfl | hx
      · exact hlt
      · exact hl.1 x hx

theorem sortPods_cons (a : CPod) (l : List CPod) : sortPods (a :: l) = insertPodByName a (sortPods l) := by
  unfold sortPods
  rw [List.reverse_cons, List.foldl_append]
  rfl

theorem sortPods_sorted (l : List CPod) : WeakSorted (sortPods l) := by
  induction l with
  | nil => simp [sortPods, WeakSorted]
  | cons a l ih => rw [sortPods_cons]; exact insertPodByName_sorted a _ ih

theorem sortPods_of_strict (l : List CPod) (hl : StrictSorted l) : sortPods l = l := by
  induction l with
  | nil => rfl
  | cons a l ih =>
    unfold StrictSorted at hl ih
    rw [List.pairwise_cons] at hl
    rw [sortPods_cons, ih hl.2]
    cases l with
    | nil => rfl
    | cons q qs =>
      unfold insertPodByName
      rw [if_pos (hl.1 q List.mem_cons_self)]

theorem strict_of_weak_nodup (l : List CPod) (hw : WeakSorted l) (hn : (l.map (·.name)).Nodup) : StrictSorted l := by
  unfold WeakSorted at hw
  unfold StrictSorted
  rw [List.nodup_iff_pairwise_ne, List.pairwise_map] at hn
  have := hw.and hn
  refine this.imp ?_
  intro a b hab
  rcases lt_trichotomy a.name b.name with h | h | h
  · exact h
  · exact absurd h hab.2
  · exact absurd h hab.1

/-! ### `reindex` -/

def reindexFrom (n : Nat) (l : List CPod) : List CPod := (l.zipIdx n).map fun (c, k) => setId c k

theorem reindex_eq (l : List CPod) : reindex l = reindexFrom 0 l := rfl

theorem reindexFrom_cons (n : Nat) (a : CPod) (l : List CPod) : reindexFrom n (a :: l) = setId a n :: reindexFrom (n + 1) l := by
  unfold reindexFrom
  rw [List.zipIdx_cons, List.map_cons]

theorem reindexFrom_idem (n : Nat) (l : List CPod) : reindexFrom n (reindexFrom n l) = reindexFrom n l := by
  induction l generalizing n with
  | nil => rfl
  | cons a l ih => rw [reindexFrom_cons, reindexFrom_cons, ih]; rfl

theorem reindexFrom_names (n : Nat) (l : List CPod) : (reindexFrom n l).map (·.name) = l.map (·.name) := by
  induction l generalizing n with
  | nil => rfl
  | cons a l ih => rw [reindexFrom_cons, List.map_cons, List.map_cons, ih]; rfl

theorem mem_reindexFrom {n : Nat} {l : List CPod} {c : CPod} (h : c ∈ reindexFrom n l) : ∃ c' ∈ l, ∃ k, c = setId c' k := by
  induction l generalizing n with
  | nil => cases h
  | cons a l ih =>
    rw [reindexFrom_cons, List.mem_cons] at h
    rcases h with rfl | h
    · exact ⟨a, List.mem_cons_self, n, rfl⟩
    · obtain ⟨c', hc', k, hk⟩ := ih h
      exact ⟨c', List.mem_cons_of_mem _ hc', k, hk⟩

theorem reindexFrom_map (g : CPod → CPod) (hg : ∀ c k, g (setId c k) = setId (g c) k) (n : Nat) (l : List CPod) :
    (reindexFrom n l).map g = reindexFrom n (l.map g) := by
  induction l generalizing n with
  | nil => rfl
  | cons a l ih => rw [reindexFrom_cons, List.map_cons, List.map_cons, reindexFrom_cons, ih, hg]

theorem strictSorted_names {l l' : List CPod} (h : l'.map (·.name) = l.map (·.name)) (hs : StrictSorted l) : StrictSorted l' := by
  unfold StrictSorted at hs ⊢
  have h1 : (l.map (·.name)).Pairwise (· < ·) := List.pairwise_map.2 hs
  rw [← h] at h1
  exact List.pairwise_map.1 h1

/-! ### `settleOne` -/

theorem settleOne_idem (c : CPod) : settleOne (settleOne c) = settleOne c := by
  unfold settleOne
  by_cases hfs : (c.pod.failed || c.pod.succeeded) = true
  · simp only [hfs, if_true]
  · simp only [hfs, Bool.false_eq_true, if_false]
    simp [Pod.failed, Pod.succeeded]

theorem settleOne_setId (c : CPod) (k : Nat) : settleOne (setId c k) = setId (settleOne c) k := by
  have h1 : (setId c k).pod.failed = c.pod.failed := rfl
  have h2 : (setId c k).pod.succeeded = c.pod.succeeded := rfl
  unfold settleOne
  rw [h1, h2]
  split_ifs <;> rfl

theorem settleOne_name (c : CPod) : (settleOne c).name = c.name := by unfold settleOne; split_ifs <;> rfl
theorem settleOne_term (c : CPod) : (settleOne c).pod.terminating = c.pod.terminating := by unfold settleOne; split_ifs <;> rfl

/-- **`settle` is idempotent** when no two pods share a name -/
theorem settle_idem (i : SyncIn) (hn : (i.pods.map (·.name)).Nodup) : settle (settle i) = settle i := by
  have hp : (settle (settle i)).pods = (settle i).pods := by
    rw [settle_pods (settle i), settle_pods i]
    set M := (i.pods.filter (fun c => !c.pod.terminating)).map settleOne with hM
    -- names of M are distinct
    have hMn : (M.map (·.name)).Nodup := by
      rw [hM, List.map_map]
      have : ((fun c : CPod => c.name) ∘ settleOne) = (fun c => c.name) := by funext c; exact settleOne_name c
      rw [this]
      exact hn.sublist (List.Sublist.map _ List.filter_sublist)
    have hS : StrictSorted (sortPods M) :=
      strict_of_weak_nodup _ (sortPods_sorted M) (((sortPods_perm M).map _).nodup_iff.2 hMn)
    have hS1 : StrictSorted (reindex (sortPods M)) := strictSorted_names (reindexFrom_names 0 _) hS
    -- every pod of the settled list is fixed by the filter and by `settleOne`
    have hfix : ∀ c ∈ reindex (sortPods M), c.pod.terminating = false ∧ settleOne c = c := by
      intro c hc
      obtain ⟨c', hc', k, rfl⟩ := mem_reindexFrom hc
      have hc'M : c' ∈ M := (sortPods_perm M).mem_iff.1 hc'
      rw [hM, List.mem_map] at hc'M
      obtain ⟨c0, hc0, rfl⟩ := hc'M
      rw [List.mem_filter] at hc0
      constructor
      · show (settleOne c0).pod.terminating = false
        rw [settleOne_term]; simpa using hc0.2
      · rw [settleOne_setId, settleOne_idem]
    have h1 : ((reindex (sortPods M)).filter (fun c => !c.pod.terminating)).map settleOne = reindex (sortPods M) := by
      rw [List.filter_eq_self.2 (fun c hc => by simp [(hfix c hc).1])]
      conv_rhs => rw [← List.map_id (reindex (sortPods M))]
      exact List.map_congr_left (fun c hc => (hfix c hc).2)
    rw [h1, sortPods_of_strict _ hS1, reindex_eq, reindex_eq, reindexFrom_idem]
  show ({ settle i with pods := (settle (settle i)).pods, fresh := _ } : SyncIn) = settle i
  rw [hp]
  rfl

end Asts.C02p
