import Asts.Proofs.C02_BPick

/-! C02, normalising rounds: what the adoption stage leaves (`RevCtx`), and the hashing premise carried over to it. -/
namespace Asts.C02p
open Asts

/-- what the adoption stage does to one stored revision -/
def adoptG (S : List Rev) (x : Rev) : Rev :=
  if (listRevisions S).any (·.owner == .none) then
    ownAll (((listRevisions S).filter (·.owner == .none)).map (·.name))
      (selAll (((listRevisions S).filter (·.marker)).map (·.name)) x)
  else x

theorem adoptS_map (S : List Rev) : adoptS S = S.map (adoptG S) := by
  unfold adoptS adoptG
  split_ifs
  · rw [List.map_map]; rfl
  · simp

theorem selAll_fields (N : List String) (x : Rev) :
    (selAll N x).name = x.name ∧ (selAll N x).number = x.number ∧ (selAll N x).ctime = x.ctime ∧
    (selAll N x).data = x.data ∧ (selAll N x).hashNum = x.hashNum ∧ (selAll N x).marker = x.marker ∧
    (selAll N x).owner = x.owner := by
  unfold selAll; split <;> simp

theorem ownAll_fields (N : List String) (x : Rev) :
    (ownAll N x).name = x.name ∧ (ownAll N x).number = x.number ∧ (ownAll N x).ctime = x.ctime ∧
    (ownAll N x).data = x.data ∧ (ownAll N x).hashNum = x.hashNum ∧ (ownAll N x).marker = x.marker ∧
    (ownAll N x).selMatch = x.selMatch := by
  unfold ownAll; split <;> simp

theorem selAll_selMatch (N : List String) (x : Rev) : (selAll N x).selMatch = (x.selMatch || N.contains x.name) := by
  unfold selAll
  cases h1 : N.contains x.name
  · simp
  · simp

theorem ownAll_owner (N : List String) (x : Rev) : (ownAll N x).owner = if N.contains x.name then .self else x.owner := by
  unfold ownAll
  cases h1 : N.contains x.name
  · simp
  · simp

theorem adoptG_owner (S : List Rev) (x : Rev) (ho : (listRevisions S).any (·.owner == .none) = true) :
    (adoptG S x).owner =
      if (((listRevisions S).filter (·.owner == .none)).map (·.name)).contains x.name then .self else x.owner := by
  unfold adoptG
  rw [if_pos ho, ownAll_owner, (selAll_fields _ x).1, (selAll_fields _ x).2.2.2.2.2.2]

theorem adoptG_fields (S : List Rev) (x : Rev) :
    (adoptG S x).name = x.name ∧ (adoptG S x).data = x.data ∧ (adoptG S x).hashNum = x.hashNum ∧
    (adoptG S x).marker = x.marker := by
  unfold adoptG
  split_ifs
  · obtain ⟨a1, _, _, a4, a5, a6, _⟩ := ownAll_fields (((listRevisions S).filter (·.owner == .none)).map (·.name))
      (selAll (((listRevisions S).filter (·.marker)).map (·.name)) x)
    obtain ⟨b1, _, _, b4, b5, b6, _⟩ := selAll_fields (((listRevisions S).filter (·.marker)).map (·.name)) x
    exact ⟨a1.trans b1, a4.trans b4, a5.trans b5, a6.trans b6⟩
  · exact ⟨rfl, rfl, rfl, rfl⟩

theorem adoptS_names (S : List Rev) : (adoptS S).map (·.name) = S.map (·.name) := by
  rw [adoptS_map, List.map_map]
  apply List.map_congr_left
  intro x _
  exact (adoptG_fields S x).1

theorem adoptS_length (S : List Rev) : (adoptS S).length = S.length := by
  rw [adoptS_map, List.length_map]

/-- the adoption stage does not change what the listing can see -/
theorem adoptG_vis {S : List Rev} (hn : (S.map (·.name)).Nodup) {x : Rev} (hx : x ∈ S) : Vis (adoptG S x) ↔ Vis x := by
  unfold adoptG
  split_ifs with ho
  · set M := ((listRevisions S).filter (·.marker)).map (·.name) with hM
    set O := ((listRevisions S).filter (·.owner == .none)).map (·.name) with hO
    have hMx : x.name ∈ M → x.marker = true := by
      intro hm
      rw [hM, List.mem_map] at hm
      obtain ⟨y, hy, hye⟩ := hm
      rw [List.mem_filter] at hy
      have hyS := (SYb.mem_listRevisions hy.1).1
      have : y = x := List.inj_on_of_nodup_map hn hyS hx hye
      rw [← this]; exact hy.2
    have hOx : x.name ∈ O → x.owner = .none := by
      intro hm
      rw [hO, List.mem_map] at hm
      obtain ⟨y, hy, hye⟩ := hm
      rw [List.mem_filter] at hy
      have hyS := (SYb.mem_listRevisions hy.1).1
      have : y = x := List.inj_on_of_nodup_map hn hyS hx hye
      rw [← this]; simpa using hy.2
    have e1 : (ownAll O (selAll M x)).selMatch = (x.selMatch || M.contains x.name) := by
      rw [(ownAll_fields O _).2.2.2.2.2.2, selAll_selMatch]
    have e2 : (ownAll O (selAll M x)).marker = x.marker := by
      rw [(ownAll_fields O _).2.2.2.2.2.1, (selAll_fields M x).2.2.2.2.2.1]
    have e3 : (ownAll O (selAll M x)).owner = if O.contains x.name then .self else x.owner := by
      rw [ownAll_owner, (selAll_fields M x).1, (selAll_fields M x).2.2.2.2.2.2]
    unfold Vis
    rw [e1, e2, e3]
    constructor
    · rintro ⟨hv1, hv2⟩
      refine ⟨?_, ?_⟩
      · rcases hv1 with hv1 | hv1
        · simp only [Bool.or_eq_true] at hv1
          rcases hv1 with hv1 | hv1
          · exact Or.inl hv1
          · exact Or.inr (hMx (by simpa using hv1))
        · exact Or.inr hv1
      · by_cases h2 : O.contains x.name = true
        · rw [hOx (by simpa using h2)]; simp
        · rw [if_neg h2] at hv2; exact hv2
    · rintro ⟨hv1, hv2⟩
      refine ⟨?_, ?_⟩
      · rcases hv1 with hv1 | hv1
        · left; simp [hv1]
        · exact Or.inr hv1
      · split_ifs
        · simp
        · exact hv2
  · rfl

/-- after the adoption stage every listed revision is the set's own -/
theorem adoptS_owned {S : List Rev} (hn : (S.map (·.name)).Nodup) : ∀ x ∈ listRevisions (adoptS S), x.owner = .self := by
  intro x' hx'
  obtain ⟨hmem, hv1, hv2⟩ := SYb.mem_listRevisions hx'
  rw [adoptS_map, List.mem_map] at hmem
  obtain ⟨x, hx, rfl⟩ := hmem
  have hvx : Vis x := (adoptG_vis hn hx).1 ⟨hv1, hv2⟩
  have hxl : x ∈ listRevisions S := (SYb.mem_listRevisions_iff hn).2 ⟨hx, hvx.1, hvx.2⟩
  by_cases ho : (listRevisions S).any (·.owner == .none) = true
  · rw [adoptG_owner S x ho]
    by_cases hno : x.owner = .none
    · have : (((listRevisions S).filter (·.owner == .none)).map (·.name)).contains x.name = true := by
        rw [List.contains_iff_mem, List.mem_map]
        exact ⟨x, List.mem_filter.2 ⟨hxl, by simp [hno]⟩, rfl⟩
      rw [if_pos this]
    · have hs : x.owner = .self := by
        cases hxo : x.owner with
        | self => rfl
        | none => exact absurd hxo hno
        | other => exact absurd hxo hvx.2
      split_ifs
      · rfl
      · exact hs
  · have hall : (listRevisions S).any (·.owner == .none) = false := by simpa using ho
    have hid : adoptG S x = x := by unfold adoptG; rw [if_neg ho]
    rw [hid]
    rw [List.any_eq_false] at hall
    have := hall x hxl
    cases hxo : x.owner with
    | self => rfl
    | none => rw [hxo] at this; simp at this
    | other => exact absurd hxo hvx.2

/-- **the premise on the revisions** (the hashing premise of `C02_BDefs`, as a proposition): hash labels of the revisions
    that record the template parse (or the fresh one does not), and either a visible revision records the template, or the
    probe walk ends on a free name after `n` names taken by revisions recording something else — in which case, when the
    collision count moves, the stored status does not already name the revision about to be created -/
structure RevPrem (h : Hashing) (j : SyncIn) : Prop where
  labels : h.hashNumOf j.template (j.collisionCount.getD 0) = none ∨ ∀ r ∈ j.store, r.data = j.template → r.hashNum ≠ none
  hash : (∃ r ∈ j.store, Vis r ∧ equalRev r (SYb.freshOf h j.template (j.collisionCount.getD 0) []) = true) ∨
    ∃ n, n < j.store.length + 8 ∧
      (∀ k < n, ∃ ex ∈ j.store, ex.name = h.nameOf j.template (j.collisionCount.getD 0 + k) ∧ ex.data ≠ j.template) ∧
      (∀ r ∈ j.store, r.name ≠ h.nameOf j.template (j.collisionCount.getD 0 + n)) ∧
      (n ≠ 0 → j.stored.updateRev ≠ h.nameOf j.template (j.collisionCount.getD 0 + n))

theorem equalRev_adoptG (S : List Rev) (x f : Rev) : equalRev (adoptG S x) f = equalRev x f := by
  unfold equalRev
  rw [(adoptG_fields S x).2.2.1, (adoptG_fields S x).2.1]

theorem revCtx_of {h : Hashing} {j : SyncIn} (hn : (j.store.map (·.name)).Nodup) (hr : RevPrem h j) :
    RevCtx h j.template (j.collisionCount.getD 0) (adoptS j.store) := by
  refine ⟨by rw [adoptS_names]; exact hn, adoptS_owned hn, ?_⟩
  rcases hr.labels with h1 | h2
  · exact Or.inl h1
  · right
    intro r' hr' hd
    rw [adoptS_map, List.mem_map] at hr'
    obtain ⟨r, hrS, rfl⟩ := hr'
    rw [(adoptG_fields _ r).2.2.1]
    rw [(adoptG_fields _ r).2.1] at hd
    exact h2 r hrS hd

/-- **the revision stages under the premise**: a store `G`, an update revision and a collision count come out; when the
    collision count moved the stored status does not name the update revision -/
theorem pick_of_prem {h : Hashing} {j : SyncIn} (hn : (j.store.map (·.name)).Nodup) (hr : RevPrem h j) :
    ∃ G upd cc, PickOut h j.template (j.collisionCount.getD 0) (adoptS j.store) G upd cc ∧
      (cc ≠ j.collisionCount.getD 0 → j.stored.updateRev ≠ upd.name) := by
  have ctx := revCtx_of hn hr
  by_cases hE : ∃ r ∈ sortRevs (listRevisions (adoptS j.store)),
      equalRev r (SYb.freshOf h j.template (j.collisionCount.getD 0) []) = true
  · obtain ⟨G, upd, hpo⟩ := pick_equal ctx hE
    exact ⟨G, upd, _, hpo, fun hne => absurd rfl hne⟩
  · have hne : ∀ r ∈ sortRevs (listRevisions (adoptS j.store)),
        equalRev r (SYb.freshOf h j.template (j.collisionCount.getD 0) []) = false := by
      intro r hr'
      cases he : equalRev r (SYb.freshOf h j.template (j.collisionCount.getD 0) [])
      · rfl
      · exact absurd ⟨r, hr', he⟩ hE
    rcases hr.hash with ⟨r, hrS, hv, he⟩ | ⟨n, hnl, hwalk, hfree, hst⟩
    · exfalso
      apply hE
      refine ⟨adoptG j.store r, ?_, ?_⟩
      · rw [mem_listing ctx.names]
        exact ⟨by rw [adoptS_map]; exact List.mem_map_of_mem hrS, (adoptG_vis hn hrS).2 hv⟩
      · rw [equalRev_adoptG]; exact he
    · have hwalk' : ∀ k < n, ∃ ex ∈ adoptS j.store, ex.name = h.nameOf j.template (j.collisionCount.getD 0 + k) ∧
          ex.data ≠ j.template := by
        intro k hk
        obtain ⟨ex, h1, h2, h3⟩ := hwalk k hk
        refine ⟨adoptG j.store ex, by rw [adoptS_map]; exact List.mem_map_of_mem h1, ?_, ?_⟩
        · rw [(adoptG_fields _ ex).1]; exact h2
        · rw [(adoptG_fields _ ex).2.1]; exact h3
      have hfree' : ∀ r ∈ adoptS j.store, r.name ≠ h.nameOf j.template (j.collisionCount.getD 0 + n) := by
        intro r' hr'
        rw [adoptS_map, List.mem_map] at hr'
        obtain ⟨r, hrS, rfl⟩ := hr'
        rw [(adoptG_fields _ r).1]
        exact hfree r hrS
      have hpo := pick_create ctx hne n (by rw [adoptS_length]; exact hnl) hwalk' hfree'
      refine ⟨_, _, _, hpo, ?_⟩
      intro hcc
      have hn0 : n ≠ 0 := by
        intro h0; apply hcc; rw [h0]; simp
      exact hst hn0

end Asts.C02p
