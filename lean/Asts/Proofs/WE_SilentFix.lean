import Mathlib.Tactic
import Asts.Proofs.WE_Silent
import Asts.Proofs.WE_Pause
import Asts.Proofs.WE_Revert

/-! # WE — a silent successful round is a fixed point of the run -/
namespace Asts.WE
open Asts

theorem quiet_of_writes_zero {l : List String} (h : (l.filter isWrite).length = 0) : Quiet l := by
  intro e he
  by_contra hw
  have hw' : isWrite e = true := by simpa using hw
  have : e ∈ l.filter isWrite := List.mem_filter.mpr ⟨he, hw'⟩
  rw [List.length_eq_zero_iff] at h
  rw [h] at this; simp at this

theorem silentOk_iff (h : Hashing) (W : SyncIn) (p : List Fault) :
    silentOk (round h W p).2 = true ↔
      (syncF h (settle W) p).outcome = .ok ∧ ((syncF h (settle W) p).log.filter isWrite).length = 0 := by
  unfold silentOk
  rw [Bool.and_eq_true, beq_iff_eq, beq_iff_eq, round_out_ok]
  rfl

/-- **a silent successful round (empty fault plan) leaves the world at its settled form** -/
theorem silent_round_fix (h : Hashing) (W : SyncIn) (hv : ViewInStep W) (hn : (W.pods.map (·.name)).Nodup)
    (hs : silentOk (round h W []).2 = true) : (round h W []).1 = settle W := by
  obtain ⟨hok, hw⟩ := (silentOk_iff h W []).mp hs
  have hq := quiet_of_writes_zero hw
  obtain ⟨h1, h2, h3⟩ := silent_sync h (settle W) rfl hok hq
  show applySync (settle W) [] (syncF h (settle W) []) = settle W
  unfold applySync
  rw [h1, h2, h3]
  simp only [List.take_nil, applyActs, Option.getD_none, Option.isSome_none, Bool.false_eq_true, if_false]
  rw [C02p.applyPatches_noPatch [] _ _ (fun e he => noPatch_of_not_write e (hq e he)), settled_pods_fixed W hn]
  have hv' : (settle W).stored.current = (settle W).view.stCurrentReplicas := hv.symm
  rw [hv']

/-- … and every later round repeats it: the same observation, the same world -/
theorem silent_round_repeats (h : Hashing) (W : SyncIn) (hv : ViewInStep W) (hn : (W.pods.map (·.name)).Nodup)
    (hs : silentOk (round h W []).2 = true) : round h (round h W []).1 [] = round h W [] := by
  rw [silent_round_fix h W hv hn hs]
  exact round_settle h W [] hn

end Asts.WE
