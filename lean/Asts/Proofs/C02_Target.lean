import Asts.Proofs.C02_Stable
import Asts.Proofs.Desired

/-! C02: a `Final` world is in the state the property promises (`finalState` of `Spec/World.lean`), and the observation of a
    round that starts there is silent. -/
namespace Asts.C02p
open Asts Asts.L1c

theorem completeRollingUpdate_replicas (v : SetView) (st : Status) : (completeRollingUpdate v st).replicas = st.replicas := by
  unfold completeRollingUpdate; split_ifs <;> rfl
theorem completeRollingUpdate_ready (v : SetView) (st : Status) : (completeRollingUpdate v st).ready = st.ready := by
  unfold completeRollingUpdate; split_ifs <;> rfl

theorem inconsistent_false {a b : Status} (h : inconsistentStatus a b = false) :
    b.observedGen ≤ a.observedGen ∧ b.replicas = a.replicas ∧ b.current = a.current ∧ b.ready = a.ready ∧
    b.updated = a.updated ∧ b.currentRev = a.currentRev ∧ b.updateRev = a.updateRev := by
  unfold inconsistentStatus at h
  simp only [Bool.or_eq_false_iff, decide_eq_false_iff_not, not_lt, bne_eq_false_iff_eq] at h
  obtain ⟨⟨⟨⟨⟨⟨h1, h2⟩, h3⟩, h4⟩, h5⟩, h6⟩, h7⟩ := h
  exact ⟨by omega, h2, h3, h4, h5, h6, h7⟩

/-- `status.replicas = status.readyReplicas = spec.replicas` in a `Final` world -/
theorem final_counts {h : Hashing} {i : SyncIn} (hf : Final h i) :
    i.stored.replicas = replicasOf i.view ∧ i.stored.ready = replicasOf i.view := by
  have hs := (specOk_iff i).1 hf.spec
  have hp := (podsFinal_iff i).1 hf.pods
  obtain ⟨-, h2, -, h4, -⟩ := inconsistent_false hf.status
  have hlen : (((ownPods i).length : Nat) : Int) = replicasOf i.view := by
    rw [hp.len, (desired_isDesired _ _).len]
    have := hs.r0
    omega
  unfold expectedStatus at h2 h4
  simp only [completeRollingUpdate_replicas, completeRollingUpdate_ready] at h2 h4
  unfold census at h2 h4
  simp only [List.length_map] at h2 h4
  refine ⟨by rw [← h2]; exact hlen, ?_⟩
  rw [← h4, ← hlen]
  congr 1
  rw [← List.length_map (as := ownPods i) (f := (·.pod))]
  congr 1
  rw [List.filter_eq_self]
  intro p hpm
  rw [List.mem_map] at hpm
  obtain ⟨c, hc, rfl⟩ := hpm
  rw [mem_ownPods] at hc
  exact (healthy_facts (hp.own c hc.1 hc.2).2.2.2.2.1).1

/-- a `Final` world is in the promised state -/
theorem final_finalState {h : Hashing} {i : SyncIn} (hf : Final h i) (out : String) (w : Nat) (revs : List Rev) :
    finalState i { out := out, writes := w, pods := i.pods, revs := revs, status := i.stored } = true := by
  have hp := (podsFinal_iff i).1 hf.pods
  obtain ⟨hc1, hc2⟩ := final_counts hf
  unfold finalState
  simp only [Bool.and_eq_true, List.all_eq_true, List.any_eq_true, beq_iff_eq, List.contains_iff_mem, List.mem_map,
    List.mem_filter, decide_eq_true_eq]
  refine ⟨⟨⟨⟨⟨?_, ?_⟩, hp.len⟩, ?_⟩, hc1⟩, hc2⟩
  · rintro c ⟨hc, hs⟩
    obtain ⟨-, -, a3, a4, -⟩ := hp.own c hc hs
    exact ⟨c.pod.ord, a4, a3.symm⟩
  · rintro n ⟨o, ho, rfl⟩
    obtain ⟨c, hc, hco⟩ := hp.full o ho
    rw [mem_ownPods] at hc
    refine ⟨c, hc, ?_⟩
    rw [(hp.own c hc.1 hc.2).2.2.1, hco]
  · rintro c ⟨hc, hs⟩
    obtain ⟨a1, -, -, -, a5, a6, -, a8⟩ := hp.own c hc hs
    refine ⟨⟨⟨a5, a6⟩, a1⟩, ?_⟩
    split_ifs with hcond
    · exact beq_iff_eq.2 (a8 hcond.1 hcond.2)
    · rfl

/-- the sync of a `Final` world is silent -/
theorem final_quiet {h : Hashing} {i : SyncIn} (hf : Final h i) :
    (syncF h i []).log.filter isWrite = [] ∧ (syncF h i []).outcome = .ok := by
  rw [syncF_final h i hf]
  simp [isWrite]

/-- the observation of a round that starts in a `Final` world: silent, successful, in the promised state -/
theorem final_round_obs {h : Hashing} {i : SyncIn} (hf : Final h i) :
    silentOk (round h i []).2 = true ∧ finalState i (round h i []).2 = true := by
  have hq := final_quiet (final_settle h i hf)
  have hfin := final_round h i hf
  constructor
  · unfold silentOk round
    simp only [hq.1, hq.2, List.length_nil]
    decide
  · have := final_finalState hfin (round h i []).2.out (round h i []).2.writes (round h i []).2.revs
    exact this

/-- the world after `n` rounds without faults -/
def roundsN (h : Hashing) : Nat → SyncIn → SyncIn
  | 0, i => i
  | n + 1, i => roundsN h n (round h i []).1

theorem final_roundsN {h : Hashing} {i : SyncIn} (hf : Final h i) (n : Nat) : Final h (roundsN h n i) := by
  induction n generalizing i with
  | zero => exact hf
  | succ n ih => exact ih (final_round h i hf)

end Asts.C02p
