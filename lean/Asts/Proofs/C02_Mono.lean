import Asts.Proofs.C02_MonoLoops

/-! C02: the OrderedReady policy on normal, settled worlds without Failed/Succeeded pods outside the desired set. -/
namespace Asts.C02p
open Asts Asts.L1c

/-- the calls of the OrderedReady reconcile on settled pods -/
def monoActsOf (v : SetView) (cur upd : String) (b : Int) (E : List Int) (P : List CPod) : List Action :=
  let reps := repsOf v cur upd b E (P.map (·.pod))
  let cond := (condemnedOf b E (P.map (·.pod))).reverse
  (monoRep v cur upd reps).1 ++
    (if (monoRep v cur upd reps).2 then
      (if cond = [] then walkActs (walkTarget v upd reps) else monoCond cond)
     else [])

/-- the class (any update strategy): normal, settled, OrderedReady, no Failed/Succeeded pod outside the desired set -/
def MonoK0 (h : Hashing) (j : SyncIn) : Prop :=
  NSC h j ∧ j.view.parallel = false ∧ (∀ c ∈ j.pods, c.pod.fs = true → inRange (bOf j) (EOf j) c.pod.ord = true)

/-- the same with the `rollingUpdate` block present (or OnDelete) -/
def MonoK (h : Hashing) (j : SyncIn) : Prop := MonoK0 h j ∧ PartOk j.view

section
variable {h : Hashing} {j : SyncIn}

theorem mono_reps_kinds (hs : NSC h j) (cur upd : String) :
    ∀ ip ∈ repsOf j.view cur upd (bOf j) (EOf j) (j.pods.map (·.pod)), Plain ip.2 ∨ ip.2.fs = true ∨ ip.2.created = false := by
  intro ip hip
  obtain ⟨hr, hq0⟩ := mem_repsOf.1 hip
  cases hsl : slotOf (bOf j) (EOf j) (j.pods.map (·.pod)) ip.1 with
  | none =>
    rw [hsl] at hq0; simp only [Option.getD_none] at hq0
    right; right; rw [hq0]; exact newPod_created ..
  | some q =>
    rw [hsl] at hq0; simp only [Option.getD_some] at hq0
    obtain ⟨c, hcm, hcp, _, _⟩ := hs.ctx.slot_some hsl
    rw [hq0, ← hcp]
    rcases (hs.settled c hcm).2 with hfs | hrr
    · exact Or.inr (Or.inl hfs)
    · left
      refine ⟨?_, (hs.norm.pods c hcm).2.2.2.2.2.2, hrr, (hs.settled c hcm).1⟩
      unfold Pod.runningAndReady at hrr
      simp only [Bool.and_eq_true, beq_iff_eq] at hrr
      simp [Pod.fs, Pod.failed, Pod.succeeded, hrr.1]

theorem mono_cond_kinds (hk : MonoK0 h j) :
    ∀ c ∈ (condemnedOf (bOf j) (EOf j) (j.pods.map (·.pod))).reverse, c.runningAndReady = true ∧ c.terminating = false := by
  obtain ⟨hs, _, hnofs⟩ := hk
  intro q hq
  rw [List.mem_reverse, L1c.mem_condemnedOf, List.mem_map] at hq
  obtain ⟨⟨c, hcm, rfl⟩, hcond⟩ := hq
  have hnr : inRange (bOf j) (EOf j) c.pod.ord = false := by
    by_contra hr
    rw [inRange_not_condemned (by simpa using hr)] at hcond
    cases hcond
  refine ⟨?_, (hs.settled c hcm).1⟩
  rcases (hs.settled c hcm).2 with hfs | hrr
  · rw [hnofs c hcm hfs] at hnr; cases hnr
  · exact hrr

/-- **the OrderedReady reconcile, no faults, on a world of the class**: it ends `.ok` and issues `monoActsOf` -/
theorem recon_mono (hk : MonoK0 h j) :
    hk.1.norm.recon.2 = .ok ∧
    hk.1.norm.recon.1.acts = monoActsOf j.view hk.1.norm.curRev.name hk.1.norm.updRev.name (bOf j) (EOf j) j.pods := by
  have hs := hk.1
  have hn := hs.norm
  have hpar := hk.2.1
  unfold NormC.recon updateStatefulSet
  cases hp : prepare j.view hn.curRev.name hn.updRev.name (j.pods.map (·.pod)) with
  | error e =>
    obtain ⟨st, o⟩ := e
    exact absurd hp (prepare_calm' j.view _ _ _ (replicasOf j.view) hn.spec.rep st o)
  | ok p =>
    simp only [hn.spec.del, Bool.false_eq_true, if_false]
    obtain ⟨_, hreps, hcond, _, _⟩ := L1c.prepare_ok hn.spec.rep hp
    have hreps' : p.reps = repsOf j.view hn.curRev.name hn.updRev.name (bOf j) (EOf j) (j.pods.map (·.pod)) := hreps
    have hcond' : p.condemned = condemnedOf (bOf j) (EOf j) (j.pods.map (·.pod)) := hcond
    unfold runLoops monoActsOf
    simp only [hpar, Bool.not_false]
    obtain ⟨h1, h2⟩ := replicaLoop_mono j.view hn.curRev.name hn.updRev.name p.reps
      (by rw [hreps']; exact mono_reps_kinds hs _ _) { status := p.st0 }
    rw [← hreps', ← hcond']
    by_cases hfl : (monoRep j.view hn.curRev.name hn.updRev.name p.reps).2 = true
    · obtain ⟨s1, e1, a1⟩ := h1 hfl
      rw [e1]
      simp only [hfl, if_true]
      obtain ⟨c1, c2⟩ := condemnedLoop_mono hn.curRev.name hn.updRev.name p.fu p.condemned.reverse
        (by rw [hcond']; exact mono_cond_kinds hk) s1
      by_cases hce : p.condemned.reverse = []
      · rw [c1 hce]
        simp only [hce, if_true]
        obtain ⟨u1, u2⟩ := updateStage_nil_eq j.view hn.curRev.name hn.updRev.name p.reps s1
        refine ⟨u2, ?_⟩
        rw [u1, a1]; simp
      · obtain ⟨s2, e2, a2⟩ := c2 hce
        rw [e2]
        simp only [hce, if_false]
        exact ⟨trivial, by rw [a2, a1]; simp⟩
    · have hfl' : (monoRep j.view hn.curRev.name hn.updRev.name p.reps).2 = false := by simpa using hfl
      obtain ⟨s1, reps', e1, a1⟩ := h2 hfl'
      rw [e1]
      simp only [hfl', Bool.false_eq_true, if_false, List.append_nil]
      exact ⟨trivial, by rw [a1]; simp⟩

end

end Asts.C02p

namespace Asts.C02p
open Asts Asts.L1c

/-! ### what `monoRep` issues -/

theorem monoRep_delete {v : SetView} {cur upd : String} {reps : List (Int × Pod)} {o : Int} {id : Nat} {w : Why}
    (h : Action.delete o id w ∈ (monoRep v cur upd reps).1) :
    ∃ q, (o, q) ∈ reps ∧ q.fs = true ∧ id = q.id ∧ Action.create o (newPod v cur upd o).rev ∈ (monoRep v cur upd reps).1 := by
  induction reps with
  | nil => simp [monoRep] at h
  | cons ip rest ih =>
    obtain ⟨i, q⟩ := ip
    unfold monoRep at h ⊢
    by_cases hfs : q.fs = true
    · simp only [hfs, if_true, List.mem_cons, Action.delete.injEq, reduceCtorEq, List.not_mem_nil, or_false] at h ⊢
      obtain ⟨rfl, rfl, _⟩ := h
      exact ⟨q, Or.inl rfl, hfs, rfl, Or.inr rfl⟩
    · simp only [hfs, Bool.false_eq_true, if_false] at h ⊢
      by_cases hcr : (!q.created) = true
      · simp only [hcr, if_true, List.mem_singleton, reduceCtorEq] at h
      · simp only [hcr, Bool.false_eq_true, if_false, List.mem_append] at h ⊢
        rcases h with h | h
        · exact absurd (mem_idUpd h).1 (by simp)
        · obtain ⟨q', hq', a, b, c⟩ := ih h
          exact ⟨q', List.mem_cons_of_mem _ hq', a, b, Or.inr c⟩

theorem monoRep_create {v : SetView} {cur upd : String} {reps : List (Int × Pod)} {o : Int} {rev : String}
    (h : Action.create o rev ∈ (monoRep v cur upd reps).1) :
    ∃ q, (o, q) ∈ reps ∧
      ((q.fs = true ∧ rev = (newPod v cur upd o).rev ∧ Action.delete o q.id .replaceFailed ∈ (monoRep v cur upd reps).1) ∨
       (q.fs = false ∧ q.created = false ∧ rev = q.rev)) := by
  induction reps with
  | nil => simp [monoRep] at h
  | cons ip rest ih =>
    obtain ⟨i, q⟩ := ip
    unfold monoRep at h ⊢
    by_cases hfs : q.fs = true
    · simp only [hfs, if_true, List.mem_cons, reduceCtorEq, Action.create.injEq, List.not_mem_nil, or_false, false_or] at h ⊢
      obtain ⟨rfl, rfl⟩ := h
      exact ⟨q, Or.inl rfl, Or.inl ⟨hfs, rfl, by simp⟩⟩
    · simp only [hfs, Bool.false_eq_true, if_false] at h ⊢
      by_cases hcr : (!q.created) = true
      · simp only [hcr, if_true, List.mem_singleton, Action.create.injEq] at h ⊢
        obtain ⟨rfl, rfl⟩ := h
        exact ⟨q, List.mem_cons_self, Or.inr ⟨by simpa using hfs, by simpa using hcr, rfl⟩⟩
      · simp only [hcr, Bool.false_eq_true, if_false, List.mem_append] at h ⊢
        rcases h with h | h
        · exact absurd (mem_idUpd h).1 (by simp)
        · obtain ⟨q', hq', hcase⟩ := ih h
          refine ⟨q', List.mem_cons_of_mem _ hq', ?_⟩
          rcases hcase with ⟨a, b, c⟩ | hc
          · exact Or.inl ⟨a, b, Or.inr c⟩
          · exact Or.inr hc

theorem monoRep_creates_le_one (v : SetView) (cur upd : String) (reps : List (Int × Pod)) :
    (createsOf (monoRep v cur upd reps).1).length ≤ 1 := by
  induction reps with
  | nil => simp [monoRep, createsOf]
  | cons ip rest ih =>
    obtain ⟨i, q⟩ := ip
    unfold monoRep
    by_cases hfs : q.fs = true
    · simp [hfs, createsOf]
    · simp only [hfs, Bool.false_eq_true, if_false]
      by_cases hcr : (!q.created) = true
      · simp [hcr, createsOf]
      · simp only [hcr, Bool.false_eq_true, if_false]
        rw [createsOf_append, createsOf_idUpd]
        exact ih

theorem monoRep_done {v : SetView} {cur upd : String} {reps : List (Int × Pod)} (h : (monoRep v cur upd reps).2 = true) :
    ∀ ip ∈ reps, ip.2.fs = false ∧ ip.2.created = true ∧
      ((ip.2.idOk && ip.2.stOk) = false → Action.update ip.1 ∈ (monoRep v cur upd reps).1) := by
  induction reps with
  | nil => intro ip hip; cases hip
  | cons ip rest ih =>
    obtain ⟨i, q⟩ := ip
    unfold monoRep at h ⊢
    by_cases hfs : q.fs = true
    · simp [hfs] at h
    · simp only [hfs, Bool.false_eq_true, if_false] at h ⊢
      by_cases hcr : (!q.created) = true
      · simp [hcr] at h
      · simp only [hcr, Bool.false_eq_true, if_false] at h ⊢
        intro ip hip
        rcases List.mem_cons.1 hip with rfl | hip
        · exact ⟨by simpa using hfs, by simpa using hcr, fun hbad => List.mem_append_left _ (idUpd_of_bad hbad)⟩
        · obtain ⟨a, b, c⟩ := ih h ip hip
          exact ⟨a, b, fun hbad => List.mem_append_right _ (c hbad)⟩

theorem monoRep_stopped {v : SetView} {cur upd : String} {reps : List (Int × Pod)} (h : (monoRep v cur upd reps).2 = false) :
    ∃ o rev, Action.create o rev ∈ (monoRep v cur upd reps).1 := by
  induction reps with
  | nil => simp [monoRep] at h
  | cons ip rest ih =>
    obtain ⟨i, q⟩ := ip
    unfold monoRep at h ⊢
    by_cases hfs : q.fs = true
    · exact ⟨i, (newPod v cur upd i).rev, by simp [hfs]⟩
    · simp only [hfs, Bool.false_eq_true, if_false] at h ⊢
      by_cases hcr : (!q.created) = true
      · exact ⟨i, q.rev, by simp [hcr]⟩
      · simp only [hcr, Bool.false_eq_true, if_false] at h ⊢
        obtain ⟨o, rev, hm⟩ := ih h
        exact ⟨o, rev, List.mem_append_right _ hm⟩

theorem repNew_id_of_done {v : SetView} {cur upd : String} {reps : List (Int × Pod)} (h : (monoRep v cur upd reps).2 = true) :
    reps.map (repNew v cur upd) = reps := by
  conv_rhs => rw [← List.map_id reps]
  apply List.map_congr_left
  intro ip hip
  unfold repNew
  rw [(monoRep_done h ip hip).1]
  rfl

end Asts.C02p
