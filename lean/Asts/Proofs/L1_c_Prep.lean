import Asts.Proofs.L1_c_Frame
import Mathlib.Data.List.Perm.Subperm
import Mathlib.Data.List.Nodup

/-! How the slot list and the condemned list of `prepare` sit inside the pod snapshot. -/
namespace Asts.L1c

theorem insertByOrd_perm (p : Pod) (l : List Pod) : (insertByOrd p l).Perm (p :: l) := by
  induction l with
  | nil => simp [insertByOrd]
  | cons q qs ih =>
    unfold insertByOrd
    split_ifs
    · exact List.Perm.refl _
    · exact (List.Perm.cons q ih).trans (List.Perm.swap p q qs)

theorem foldl_insertByOrd_perm (l acc : List Pod) :
    (l.foldl (fun acc p => insertByOrd p acc) acc).Perm (l ++ acc) := by
  induction l generalizing acc with
  | nil => simp
  | cons q qs ih =>
    simp only [List.foldl_cons]
    refine (ih _).trans ?_
    refine (List.Perm.append_left qs (insertByOrd_perm q acc)).trans ?_
    simp

theorem condemnedOf_perm (b : Int) (E : List Int) (pods : List Pod) :
    (condemnedOf b E pods).Perm (pods.filter (fun p => isCondemned b E p.ord)) := by
  unfold condemnedOf
  refine (foldl_insertByOrd_perm _ []).trans ?_
  simp

theorem mem_condemnedOf {b : Int} {E : List Int} {pods : List Pod} {c : Pod} :
    c ∈ condemnedOf b E pods ↔ c ∈ pods ∧ isCondemned b E c.ord = true := by
  rw [(condemnedOf_perm b E pods).mem_iff, List.mem_filter]

theorem slotOf_some {b : Int} {E : List Int} {pods : List Pod} {o : Int} {p : Pod} (h : slotOf b E pods o = some p) :
    p ∈ pods ∧ p.ord = o ∧ inRange b E p.ord = true := by
  unfold slotOf at h
  have := List.mem_of_getLast? h
  rw [List.mem_filter] at this
  simp only [Bool.and_eq_true, beq_iff_eq] at this
  exact ⟨this.1, this.2.1, this.2.2⟩

theorem idxOf_nodup (b : Int) (E : List Int) : (idxOf b E).Nodup := by
  unfold idxOf
  apply List.Nodup.filter
  apply List.Nodup.map
  · intro a b h; exact Int.ofNat.inj h
  · exact List.nodup_range

theorem repsOf_ord {v : SetView} {cur upd : String} {b : Int} {E : List Int} {pods : List Pod} {ip : Int × Pod}
    (h : ip ∈ repsOf v cur upd b E pods) : ip.2.ord = ip.1 := by
  unfold repsOf at h
  rw [List.mem_map] at h
  obtain ⟨i, _, rfl⟩ := h
  cases hs : slotOf b E pods i with
  | none => simp [newPod]
  | some p => simpa using (slotOf_some hs).2.1

theorem repsOf_mem {v : SetView} {cur upd : String} {b : Int} {E : List Int} {pods : List Pod} {ip : Int × Pod}
    (h : ip ∈ repsOf v cur upd b E pods) :
    (ip.2 ∈ pods ∧ inRange b E ip.2.ord = true) ∨ ip.2 = newPod v cur upd ip.1 := by
  unfold repsOf at h
  rw [List.mem_map] at h
  obtain ⟨i, _, rfl⟩ := h
  cases hs : slotOf b E pods i with
  | none => right; simp
  | some p => left; simpa using ⟨(slotOf_some hs).1, (slotOf_some hs).2.2⟩

theorem repsOf_snd_nodup (v : SetView) (cur upd : String) (b : Int) (E : List Int) (pods : List Pod) :
    ((repsOf v cur upd b E pods).map (·.2)).Nodup := by
  have hfst : (repsOf v cur upd b E pods).map (·.1) = idxOf b E := by
    unfold repsOf; rw [List.map_map]; exact List.map_id _
  have hinj : ∀ x ∈ repsOf v cur upd b E pods, ∀ y ∈ repsOf v cur upd b E pods, x.2 = y.2 → x = y := by
    intro x hx y hy hxy
    have h1 := repsOf_ord hx
    have h2 := repsOf_ord hy
    ext
    · rw [← h1, ← h2, hxy]
    · rw [hxy]
  have hnd : (repsOf v cur upd b E pods).Nodup := by
    have := idxOf_nodup b E
    rw [← hfst] at this
    exact List.Nodup.of_map _ this
  exact List.Nodup.map_on hinj hnd

theorem inRange_not_condemned {b : Int} {E : List Int} {o : Int} (h : inRange b E o = true) : isCondemned b E o = false := by
  simp [isCondemned, h]

/-- the occupied slots and the condemned pods are disjoint sub-multisets of the snapshot -/
theorem count_split (v : SetView) (cur upd : String) (b : Int) (E : List Int) (pods : List Pod) (q : Pod → Bool)
    (hq : ∀ p, q p = true → p.created = true) :
    cnt q ((repsOf v cur upd b E pods).map (·.2)) + cnt q (condemnedOf b E pods) ≤ cnt q pods := by
  have h1 : cnt q ((repsOf v cur upd b E pods).map (·.2)) ≤ cnt q (pods.filter (fun p => inRange b E p.ord)) := by
    rw [cnt_eq_filter_length, cnt_eq_filter_length]
    have hnd : (((repsOf v cur upd b E pods).map (·.2)).filter q).Nodup := (repsOf_snd_nodup v cur upd b E pods).filter _
    have hsub : ((repsOf v cur upd b E pods).map (·.2)).filter q ⊆ (pods.filter (fun p => inRange b E p.ord)).filter q := by
      intro p hp
      rw [List.mem_filter, List.mem_map] at hp
      obtain ⟨⟨ip, hip, rfl⟩, hqp⟩ := hp
      rcases repsOf_mem hip with ⟨hm, hr⟩ | hn
      · exact List.mem_filter.2 ⟨List.mem_filter.2 ⟨hm, hr⟩, hqp⟩
      · have := hq _ hqp
        rw [hn, newPod_created] at this
        cases this
    exact_mod_cast (List.subperm_of_subset hnd hsub).length_le
  have h2 : cnt q (condemnedOf b E pods) ≤ cnt q (pods.filter (fun p => !inRange b E p.ord)) := by
    rw [cnt_perm (condemnedOf_perm b E pods), cnt_eq_filter_length, cnt_eq_filter_length]
    have : ((pods.filter (fun p => isCondemned b E p.ord)).filter q).Sublist ((pods.filter (fun p => !inRange b E p.ord)).filter q) := by
      apply List.Sublist.filter
      apply List.monotone_filter_right
      intro p hp
      by_cases hr : inRange b E p.ord = true
      · rw [inRange_not_condemned hr] at hp; cases hp
      · simpa using hr
    exact_mod_cast this.length_le
  have h3 : cnt q pods = cnt q (pods.filter (fun p => inRange b E p.ord)) + cnt q (pods.filter (fun p => !inRange b E p.ord)) := by
    rw [← cnt_append]
    exact cnt_perm (List.filter_append_perm _ pods).symm
  omega

end Asts.L1c
