import Asts.Proofs.L1_a_Loops
import Mathlib.Tactic

/-! # From the justified action list (`uss_seg`) to the monitors `C04`, `C01creates`, `C03` -/
namespace Asts
open List

/-- pod identities of a snapshot: pairwise distinct and below the identities given to fresh objects
    (the harness numbers the pods of a snapshot by position) -/
structure IdsOk (pods : List Pod) : Prop where
  nodup : (pods.map Pod.id).Nodup
  small : ∀ p ∈ pods, p.id < freshId

theorem idsOk_of_positions {pods : List Pod} (hpos : pods.map Pod.id = List.range pods.length)
    (hlen : pods.length ≤ freshId) : IdsOk pods := by
  refine ⟨by rw [hpos]; exact List.nodup_range, ?_⟩
  intro p hp
  have : p.id ∈ pods.map Pod.id := List.mem_map_of_mem hp
  rw [hpos, List.mem_range] at this
  omega

theorem podById_of_mem {pods : List Pod} (hnd : (pods.map Pod.id).Nodup) {p : Pod} (hp : p ∈ pods) :
    podById pods p.id = some p := by
  induction pods with
  | nil => simp at hp
  | cons q qs ih =>
    rw [List.map_cons, List.nodup_cons] at hnd
    unfold podById
    rw [List.find?_cons]
    rcases List.mem_cons.1 hp with rfl | hp'
    · simp
    · have hne : q.id ≠ p.id := by
        intro h; apply hnd.1; rw [h]; exact List.mem_map_of_mem hp'
      have : (q.id == p.id) = false := by simpa using hne
      simp only [this]
      exact ih hnd.2 hp'

theorem podAt_some {pods : List Pod} {o : Int} {q : Pod} (h : podAt pods o = some q) : q ∈ pods ∧ q.ord = o := by
  unfold podAt at h
  exact ⟨List.mem_of_find?_eq_some h, by simpa using List.find?_some h⟩

theorem partitionOf_le_partOf (v : SetView) : partitionOf v ≤ partOf v := by
  unfold partitionOf partOf
  rcases hru : v.ru with _ | _ | p
  · simp
  · simp
  · simp only; split_ifs <;> omega

/-- pointwise transfer: a justified model segment satisfies a context monitor on the observed actions -/
theorem allWithContext_of_SegOK {v : SetView} {upd : String} {pods : List Pod} {D : List Int} {b : Bool}
    {q : List OAct → OAct → Option OAct → Bool}
    (hq : ∀ pre a n, J v upd pods D b pre a n → q (observe pre) a.observe (n.map Action.observe) = true)
    {L l : List Action} (h : SegOK v upd pods D b L l) : allWithContext q (observe L) (observe l) = true := by
  induction l generalizing L with
  | nil => simp [observe, allWithContext]
  | cons a rest ih =>
    obtain ⟨ha, hrest⟩ := h
    have h2 := ih hrest
    have h1 := hq _ _ _ ha
    simp only [observe, List.map_cons, allWithContext, Bool.and_eq_true, List.map_append, List.map_nil,
      List.head?_map] at h1 h2 ⊢
    exact ⟨h1, h2⟩

theorem SegOK.create_mem {v : SetView} {upd : String} {pods : List Pod} {D : List Int} {b : Bool}
    {L l : List Action} (h : SegOK v upd pods D b L l) {o : Int} {rev : String} (hm : Action.create o rev ∈ l) :
    o ∈ D := by
  obtain ⟨pre, post, hl⟩ := List.append_of_mem hm
  exact (h.at hl).1

/-! ### C04 -/

theorem C04_pointwise {v : SetView} {upd : String} {pods : List Pod} {b : Bool}
    (hdel : v.deleting = false) (hcr : pods.all Pod.created = true) (hids : IdsOk pods)
    (pre : List Action) (a : Action) (n : Option Action)
    (h : J v upd pods (desired (replicasOf v) v.slots) b pre a n) :
    (fun (before : List OAct) (a : OAct) (_ : Option OAct) =>
      match a with
      | .create o _ =>
        (desired (replicasOf v) v.slots).contains o && !v.deleting && !v.slots.contains o &&
        (match podAt pods o with
         | none => true
         | some _ => before.any (fun b => match b with
              | .delete o' (some id) => o' == o && (podById pods id).any (fun p => p.failed || p.succeeded)
              | _ => false))
      | _ => true) (observe pre) a.observe (n.map Action.observe) = true := by
  cases a with
  | update o => rfl
  | delete o id why => rfl
  | create o rev =>
    obtain ⟨hD, hcases⟩ := h
    have h1 : (desired (replicasOf v) v.slots).contains o = true := by simpa using hD
    have h2 : v.slots.contains o = false := by
      have := (desired_isDesired (replicasOf v) v.slots).noSlot o hD
      simpa using this
    simp only [Action.observe, h1, hdel, h2, Bool.not_false, Bool.and_self, Bool.true_and]
    cases hpa : podAt pods o with
    | none => rfl
    | some q =>
      simp only
      obtain ⟨hq, hqo⟩ := podAt_some hpa
      rcases hcases with hnone | ⟨p, hp, hpo, hfs, hmem⟩ | ⟨p, hp, -, hc⟩
      · exact absurd hqo (hnone q hq)
      · rw [List.any_eq_true]
        refine ⟨.delete o (some p.id), ?_, ?_⟩
        · refine List.mem_map.2 ⟨_, hmem, ?_⟩
          simp [Action.observe, hids.small p hp]
        · simp only [podById_of_mem hids.nodup hp, Option.any_some, beq_self_eq_true, Bool.true_and]
          exact hfs
      · rw [List.all_eq_true] at hcr
        rw [hcr p hp] at hc; cases hc

theorem C04_holds_gen (v : SetView) (cur upd : String) (pods : List Pod) (f : Faults)
    (hcr : pods.all Pod.created = true) (hids : IdsOk pods) :
    C04 v pods (observe (updateStatefulSet v cur upd pods f).1.acts) = true := by
  by_cases hdel : v.deleting = true
  · have : (updateStatefulSet v cur upd pods f).1.acts = [] := by
      unfold updateStatefulSet
      split
      · rfl
      · simp [hdel]
    rw [this]; rfl
  · have hdel' : v.deleting = false := by simpa using hdel
    unfold C04
    exact allWithContext_of_SegOK (C04_pointwise hdel' hcr hids) (uss_seg v cur upd pods f)

/-! ### C01 (d) -/

theorem C01creates_holds_gen (v : SetView) (cur upd : String) (pods : List Pod) (f : Faults) :
    C01creates v (observe (updateStatefulSet v cur upd pods f).1.acts) = true := by
  unfold C01creates
  simp only [List.all_eq_true]
  intro o ho
  unfold createOrds at ho
  rw [List.mem_filterMap] at ho
  obtain ⟨a', ha', hm⟩ := ho
  unfold observe at ha'
  rw [List.mem_map] at ha'
  obtain ⟨a, ha, rfl⟩ := ha'
  cases a with
  | update o' => simp [Action.observe] at hm
  | delete o' id why => simp [Action.observe] at hm
  | create o' rev =>
    simp only [Action.observe, Option.some.injEq] at hm
    subst hm
    have := (uss_seg v cur upd pods f).create_mem ha
    simpa using this

/-! ### C03 -/

theorem C03_pointwise {v : SetView} {upd : String} {pods : List Pod} {b : Bool} (hids : IdsOk pods)
    (pre : List Action) (a : Action) (n : Option Action)
    (h : J v upd pods (desired (replicasOf v) v.slots) b pre a n) :
    (fun (before : List OAct) (a : OAct) (next : Option OAct) =>
      match a with
      | .delete o (some id) =>
        (match podById pods id with
         | none => false
         | some p => p.ord == o &&
            (!(desired (replicasOf v) v.slots).contains o
             || ((p.failed || p.succeeded) && (match next with | some (.create o' _) => o' == o | some _ => false | none => !b))
             || (v.strat != .onDelete && partitionOf v ≤ o && p.rev != upd)))
      | .delete o none =>
        v.strat != .onDelete && partitionOf v ≤ o &&
          before.any (fun b => match b with | .create o' rev => o' == o && rev != upd | _ => false)
      | _ => true) (observe pre) a.observe (n.map Action.observe) = true := by
  cases a with
  | update o => rfl
  | create o rev => rfl
  | delete o id why =>
    cases why with
    | replaceFailed =>
      obtain ⟨⟨p, hp, rfl, hord, -, hfs⟩, hn⟩ := h
      simp only [Action.observe, hids.small p hp, if_true, podById_of_mem hids.nodup hp, hord, beq_self_eq_true,
        Bool.true_and, hfs]
      rcases hn with ⟨rev, rfl⟩ | ⟨rfl, rfl⟩
      · simp [Action.observe]
      · simp
    | scaleDown =>
      obtain ⟨p, hp, rfl, hord, hnD⟩ := h
      have : (desired (replicasOf v) v.slots).contains o = false := by simpa using hnD
      simp [Action.observe, hids.small p hp, podById_of_mem hids.nodup hp, hord, hnD]
    | update =>
      obtain ⟨hstrat, hpart, -, hcases⟩ := h
      have hpart' : partitionOf v ≤ o := le_trans (partitionOf_le_partOf v) hpart
      have hs : (v.strat != .onDelete) = true := by simpa using hstrat
      rcases hcases with ⟨p, hp, rfl, hord, hrev, -, -⟩ | ⟨rfl, rev, hrev, hmem⟩
      · have hr : (p.rev != upd) = true := by simpa using hrev
        simp [Action.observe, hids.small p hp, podById_of_mem hids.nodup hp, hord, hs, hpart', hr]
      · have hnot : ¬ (freshId + o.toNat < freshId) := by omega
        simp only [Action.observe, hnot, if_false, hs, hpart', decide_true, Bool.and_self, Bool.true_and]
        rw [List.any_eq_true]
        refine ⟨.create o rev, List.mem_map.2 ⟨_, hmem, rfl⟩, ?_⟩
        simpa using hrev

theorem C03_holds_gen (v : SetView) (cur upd : String) (pods : List Pod) (f : Faults) (hids : IdsOk pods) :
    C03 v upd pods (observe (updateStatefulSet v cur upd pods f).1.acts)
      ((updateStatefulSet v cur upd pods f).2 == .ok) = true := by
  unfold C03
  exact allWithContext_of_SegOK (C03_pointwise hids) (uss_seg v cur upd pods f)

end Asts
