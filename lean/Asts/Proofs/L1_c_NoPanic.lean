import Asts.Spec.Reconcile
import Asts.Proofs.Ordinals
import Mathlib.Tactic

/-! C15 (reconcile part): `updateStatefulSet` never returns `.panic` on an admitted object. -/
set_option linter.unnecessarySeqFocus false
namespace Asts.L1c

/-- an outcome that is not a panic -/
def _root_.Asts.Outcome.calm (o : Outcome) : Prop := o = .ok ∨ o = .err

theorem _root_.Asts.Outcome.calm_ne_panic {o : Outcome} (h : o.calm) (site : String) : o ≠ .panic site := by
  rcases h with rfl | rfl <;> simp

/-! ### the loops only end with `.ok` or `.err` -/

theorem replaceFailed_calm (v cur upd f s i p) :
    ∀ s' o, replaceFailed v cur upd f s i p = .error (s', o) → o.calm := by
  intro s' o h
  unfold replaceFailed at h
  split_ifs at h
  · cases h; exact Or.inr rfl

theorem ensurePod_calm (cur upd f mono s i p) :
    ∀ s' o, ensurePod cur upd f mono s i p = .done s' o → o.calm := by
  intro s' o h
  unfold ensurePod at h
  split_ifs at h <;> cases h <;> first | exact Or.inl rfl | exact Or.inr rfl

theorem replicaStep_calm (v cur upd f mono s i p) :
    ∀ s' o, (replicaStep v cur upd f mono s i p).1 = .done s' o → o.calm := by
  intro s' o h
  unfold replicaStep at h
  split at h
  · rename_i s1 o1 heq
    cases h; exact replaceFailed_calm _ _ _ _ _ _ _ _ _ heq
  · exact ensurePod_calm _ _ _ _ _ _ _ _ _ h

theorem replicaLoop_calm (v cur upd f mono) (reps : List (Int × Pod)) (s : St) :
    ∀ s' o, (replicaLoop v cur upd f mono s reps).1 = .done s' o → o.calm := by
  induction reps generalizing s with
  | nil => intro s' o h; simp [replicaLoop] at h
  | cons ip rest ih =>
    obtain ⟨i, p⟩ := ip
    intro s' o h
    unfold replicaLoop at h
    cases hs : replicaStep v cur upd f mono s i p with
    | mk c p' =>
      rw [hs] at h
      cases c with
      | next s1 => simp only at h; exact ih s1 s' o h
      | done s1 o1 =>
        simp only at h
        have := replicaStep_calm v cur upd f mono s i p s1 o1 (by rw [hs])
        cases h; exact this

theorem condemnedLoop_calm (cur upd f mono fu) (cs : List Pod) (s : St) :
    ∀ s' o, condemnedLoop cur upd f mono fu s cs = .done s' o → o.calm := by
  induction cs generalizing s with
  | nil => intro s' o h; simp [condemnedLoop] at h
  | cons c rest ih =>
    intro s' o h
    unfold condemnedLoop at h
    split_ifs at h
    all_goals first
      | (cases h; first | exact Or.inl rfl | exact Or.inr rfl)
      | exact ih _ s' o h

theorem updateWalk_calm (cur upd f) (l : List (Int × Pod)) (s : St) : (updateWalk cur upd f s l).2.calm := by
  induction l generalizing s with
  | nil => exact Or.inl rfl
  | cons ip rest ih =>
    obtain ⟨t, p⟩ := ip
    unfold updateWalk
    by_cases h1 : (p.rev != upd && !p.terminating) = true
    · simp only [h1, if_true]
      by_cases hf : f.hit 1 t = true
      · simp only [hf, if_true]; exact Or.inr rfl
      · simp only [hf, Bool.false_eq_true, if_false]; exact Or.inl rfl
    · simp only [h1, Bool.false_eq_true, if_false]
      by_cases h2 : (!p.healthy) = true
      · simp only [h2, if_true]; exact Or.inl rfl
      · simp only [h2, Bool.false_eq_true, if_false]; exact ih s

theorem updateStage_calm (v cur upd f reps s) : (updateStage v cur upd f reps s).2.calm := by
  unfold updateStage
  split_ifs
  · exact Or.inl rfl
  · exact updateWalk_calm ..

theorem runLoops_calm (v cur upd f p) : (runLoops v cur upd f p).2.calm := by
  unfold runLoops
  simp only
  cases hrl : replicaLoop v cur upd f (!v.parallel) { status := p.st0 } p.reps with
  | mk c reps' =>
    cases c with
    | done s o =>
      exact replicaLoop_calm v cur upd f _ p.reps _ s o (by rw [hrl])
    | next s =>
      simp only
      cases hcl : condemnedLoop cur upd f (!v.parallel) p.fu s p.condemned.reverse with
      | done s' o => exact condemnedLoop_calm _ _ _ _ _ _ _ s' o hcl
      | next s' => exact updateStage_calm ..

/-! ### the `firstUnhealthy` sentinel -/

/-- the fold of `firstUnhealthy`, named -/
def fuStep (acc : (Option Pod × Int) × Nat) (p : Pod) : (Option Pod × Int) × Nat :=
  if !p.healthy then
    if acc.1.1.isNone || p.ord < acc.1.2 then ((some p, p.ord), acc.2 + 1) else (acc.1, acc.2 + 1)
  else acc

theorem firstUnhealthy_eq (ps : List Pod) :
    firstUnhealthy ps = ((ps.foldl fuStep ((none, maxInt32), 0)).1.1, (ps.foldl fuStep ((none, maxInt32), 0)).2) := rfl

theorem fuStep_inv (ps : List Pod) (hord : ∀ p ∈ ps, p.ord < maxInt32) (acc : (Option Pod × Int) × Nat)
    (hacc : acc.1.1 = none → acc.1.2 = maxInt32 ∧ acc.2 = 0) :
    (ps.foldl fuStep acc).1.1 = none → (ps.foldl fuStep acc).1.2 = maxInt32 ∧ (ps.foldl fuStep acc).2 = 0 := by
  induction ps generalizing acc with
  | nil => simpa using hacc
  | cons p rest ih =>
    simp only [List.foldl_cons]
    apply ih (fun q hq => hord q (List.mem_cons_of_mem _ hq))
    have hp := hord p List.mem_cons_self
    unfold fuStep
    by_cases hh : (!p.healthy) = true
    · simp only [hh, if_true]
      by_cases hlt : (acc.1.1.isNone || decide (p.ord < acc.1.2)) = true
      · simp [hlt]
      · simp only [hlt, Bool.false_eq_true, if_false]
        intro hnone
        simp [hnone] at hlt
    · simp only [hh, Bool.false_eq_true, if_false]; exact hacc

/-- If every scanned pod has an ordinal below the sentinel, a positive unhealthy count comes with a first unhealthy pod. -/
theorem firstUnhealthy_some (ps : List Pod) (hord : ∀ p ∈ ps, p.ord < maxInt32) :
    (firstUnhealthy ps).2 > 0 → (firstUnhealthy ps).1.isSome = true := by
  rw [firstUnhealthy_eq]
  intro hpos
  have := fuStep_inv ps hord ((none, maxInt32), 0) (by simp)
  cases h : (ps.foldl fuStep ((none, maxInt32), 0)).1.1 with
  | none => have := (this h).2; simp only at hpos; omega
  | some q => simp

/-- the unhealthy count is the number of unhealthy pods scanned -/
theorem fuStep_count (ps : List Pod) (acc : (Option Pod × Int) × Nat) :
    (ps.foldl fuStep acc).2 = acc.2 + (ps.filter (fun p => !p.healthy)).length := by
  induction ps generalizing acc with
  | nil => simp
  | cons p rest ih =>
    simp only [List.foldl_cons]
    rw [ih]
    unfold fuStep
    by_cases hh : (!p.healthy) = true
    · simp only [hh, if_true, List.filter_cons_of_pos, List.length_cons]
      split_ifs <;> simp only [] <;> omega
    · simp only [hh, Bool.false_eq_true, if_false]
      rw [List.filter_cons_of_neg (by simpa using hh)]

/-! ### bound of the replica count -/

theorem extend_fst_le (l : List Int) (b : Int) : (extend b l).1 ≤ b + l.length := by
  induction l generalizing b with
  | nil => simp [extend]
  | cons s ss ih =>
    unfold extend
    split_ifs
    · have := ih (b + 1); simp only [List.length_cons, Nat.cast_add, Nat.cast_one]; omega
    · have := ih b; simp only [List.length_cons, Nat.cast_add, Nat.cast_one]; omega

theorem length_insertSorted_le (x : Int) (l : List Int) : (insertSorted x l).length ≤ l.length + 1 := by
  induction l with
  | nil => simp [insertSorted]
  | cons y ys ih =>
    unfold insertSorted
    split_ifs <;> simp <;> omega

theorem length_dedupSort_le (l : List Int) : (dedupSort l).length ≤ l.length := by
  induction l with
  | nil => simp [dedupSort]
  | cons x xs ih =>
    have := length_insertSorted_le x (dedupSort xs)
    simp only [dedupSort, List.foldr_cons, List.length_cons] at *
    omega

theorem maxReplica_le (r : Int) (S : List Int) : (maxReplicaAndSlots r S).1 ≤ r + S.length := by
  unfold maxReplicaAndSlots
  have h1 := extend_fst_le (dedupSort S) r
  have h2 := length_dedupSort_le S
  omega

/-! ### `prepare` does not hit the sentinel panic -/

theorem slotOf_mem {b E pods o p} (h : slotOf b E pods o = some p) : p ∈ pods := by
  unfold slotOf at h
  have := List.mem_of_getLast? h
  exact (List.mem_filter.1 this).1

theorem prepare_calm (v : SetView) (cur upd : String) (pods : List Pod) (r : Int)
    (hr : v.replicas = some r) (hb : (maxReplicaAndSlots r v.slots).1 ≤ maxInt32)
    (hord : ∀ p ∈ pods, p.ord < maxInt32) :
    ∀ st o, prepare v cur upd pods ≠ .error (st, o) := by
  intro st o
  unfold prepare
  rw [hr]
  simp only
  split_ifs with hc
  · exfalso
    simp only [Bool.and_eq_true, decide_eq_true_eq] at hc
    obtain ⟨hpos, hnone⟩ := hc
    have hall : ∀ p ∈ (List.map (fun x => x.2)
        (List.map (fun i => (i, (slotOf (maxReplicaAndSlots r v.slots).1 (maxReplicaAndSlots r v.slots).2 pods i).getD
          (newPod v cur upd i)))
          (List.filter (fun i => !(maxReplicaAndSlots r v.slots).2.contains i)
            (List.map Int.ofNat (List.range (maxReplicaAndSlots r v.slots).1.toNat)))) ++
        condemnedOf (maxReplicaAndSlots r v.slots).1 (maxReplicaAndSlots r v.slots).2 pods), p.ord < maxInt32 := by
      intro p hp
      rcases List.mem_append.1 hp with hp | hp
      · simp only [List.map_map, List.mem_map, List.mem_filter, List.mem_range, Function.comp] at hp
        obtain ⟨i, ⟨⟨n, hn, rfl⟩, _⟩, rfl⟩ := hp
        cases hs : slotOf (maxReplicaAndSlots r v.slots).1 (maxReplicaAndSlots r v.slots).2 pods (Int.ofNat n) with
        | none =>
          simp only [Option.getD_none, newPod]
          have : (Int.ofNat n) < (maxReplicaAndSlots r v.slots).1 := by
            have : (n : Int) < ((maxReplicaAndSlots r v.slots).1.toNat : Int) := by exact_mod_cast hn
            simp only [Int.ofNat_eq_natCast]; omega
          omega
        | some q => simp only [Option.getD_some]; exact hord q (slotOf_mem hs)
      · unfold condemnedOf at hp
        have hmem : ∀ (l : List Pod) (acc : List Pod), p ∈ l.foldl (fun acc p => insertByOrd p acc) acc → p ∈ l ∨ p ∈ acc := by
          intro l
          induction l with
          | nil => intro acc h; exact Or.inr h
          | cons q qs ih =>
            intro acc h
            simp only [List.foldl_cons] at h
            rcases ih _ h with h | h
            · exact Or.inl (List.mem_cons_of_mem _ h)
            · have : ∀ (a : List Pod), p ∈ insertByOrd q a → p = q ∨ p ∈ a := by
                intro a
                induction a with
                | nil => intro h; simpa [insertByOrd] using h
                | cons x xs ihx =>
                  intro h
                  unfold insertByOrd at h
                  split_ifs at h
                  · rcases List.mem_cons.1 h with h | h
                    · exact Or.inl h
                    · exact Or.inr h
                  · rcases List.mem_cons.1 h with h | h
                    · exact Or.inr (by rw [h]; exact List.mem_cons_self)
                    · rcases ihx h with h | h
                      · exact Or.inl h
                      · exact Or.inr (List.mem_cons_of_mem _ h)
              rcases this _ h with h | h
              · exact Or.inl (by rw [h]; exact List.mem_cons_self)
              · exact Or.inr h
        rcases hmem _ _ hp with h | h
        · exact hord p (List.mem_filter.1 (List.mem_reverse.1 h)).1
        · simp at h
    have := firstUnhealthy_some _ hall hpos
    rw [Option.isNone_iff_eq_none] at hnone
    rw [hnone] at this
    simp at this
  · simp

/-- C15, reconcile part -/
theorem updateStatefulSet_calm (v : SetView) (cur upd : String) (pods : List Pod) (f : Faults) (r : Int)
    (hr : v.replicas = some r) (hb : (maxReplicaAndSlots r v.slots).1 ≤ maxInt32)
    (hord : ∀ p ∈ pods, p.ord < maxInt32) :
    (updateStatefulSet v cur upd pods f).2.calm := by
  unfold updateStatefulSet
  cases hp : prepare v cur upd pods with
  | error e => obtain ⟨st, o⟩ := e; exact absurd hp (prepare_calm v cur upd pods r hr hb hord st o)
  | ok p =>
    simp only
    split_ifs
    · exact Or.inl rfl
    · exact runLoops_calm ..

/-! ### the repaired scan: no bound on ordinals needed -/

theorem fuStep_inv' (ps : List Pod) (acc : (Option Pod × Int) × Nat) (hacc : acc.1.1 = none → acc.2 = 0) :
    (ps.foldl fuStep acc).1.1 = none → (ps.foldl fuStep acc).2 = 0 := by
  induction ps generalizing acc with
  | nil => simpa using hacc
  | cons p rest ih =>
    simp only [List.foldl_cons]
    apply ih
    unfold fuStep
    by_cases hh : (!p.healthy) = true
    · simp only [hh, if_true]
      by_cases hlt : (acc.1.1.isNone || decide (p.ord < acc.1.2)) = true
      · simp [hlt]
      · simp only [hlt, Bool.false_eq_true, if_false]
        intro hnone
        simp [hnone] at hlt
    · simp only [hh, Bool.false_eq_true, if_false]; exact hacc

/-- A positive unhealthy count comes with a first unhealthy pod, whatever the ordinals (the first unhealthy pod met is
    recorded unconditionally). -/
theorem firstUnhealthy_some' (ps : List Pod) :
    (firstUnhealthy ps).2 > 0 → (firstUnhealthy ps).1.isSome = true := by
  rw [firstUnhealthy_eq]
  intro hpos
  have := fuStep_inv' ps ((none, maxInt32), 0) (by simp)
  cases h : (ps.foldl fuStep ((none, maxInt32), 0)).1.1 with
  | none => have := this h; simp only at hpos; omega
  | some q => simp

theorem prepare_calm' (v : SetView) (cur upd : String) (pods : List Pod) (r : Int) (hr : v.replicas = some r) :
    ∀ st o, prepare v cur upd pods ≠ .error (st, o) := by
  intro st o
  unfold prepare
  rw [hr]
  simp only
  split_ifs with hc
  · exfalso
    simp only [Bool.and_eq_true, decide_eq_true_eq] at hc
    obtain ⟨hpos, hnone⟩ := hc
    have := firstUnhealthy_some' _ hpos
    rw [Option.isNone_iff_eq_none] at hnone
    rw [hnone] at this
    simp at this
  · simp

/-- C15, reconcile part, without any bound on ordinals or on the replica count -/
theorem updateStatefulSet_calm' (v : SetView) (cur upd : String) (pods : List Pod) (f : Faults) (r : Int)
    (hr : v.replicas = some r) :
    (updateStatefulSet v cur upd pods f).2.calm := by
  unfold updateStatefulSet
  cases hp : prepare v cur upd pods with
  | error e => obtain ⟨st, o⟩ := e; exact absurd hp (prepare_calm' v cur upd pods r hr st o)
  | ok p =>
    simp only
    split_ifs
    · exact Or.inl rfl
    · exact runLoops_calm ..

end Asts.L1c
