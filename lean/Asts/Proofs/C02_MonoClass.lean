import Asts.Proofs.C02_Mono

/-! C02: the OrderedReady policy is a `PolicyClass`. -/
namespace Asts.C02p
open Asts Asts.L1c

section
variable {h : Hashing} {j : SyncIn}

/-- where a delete of the OrderedReady reconcile comes from -/
theorem mono_delete_src (hk : MonoK h j) {o : Int} {id : Nat} {w : Why}
    (hm : Action.delete o id w ∈ monoActsOf j.view hk.1.1.norm.curRev.name hk.1.1.norm.updRev.name (bOf j) (EOf j) j.pods) :
    ∃ c ∈ j.pods, c.pod.id = id ∧
      ((c.pod.fs = true ∧ inRange (bOf j) (EOf j) c.pod.ord = true ∧
          ∃ rev, Action.create c.pod.ord rev ∈ monoActsOf j.view hk.1.1.norm.curRev.name hk.1.1.norm.updRev.name (bOf j) (EOf j) j.pods) ∨
       inRange (bOf j) (EOf j) c.pod.ord = false ∨
       (c.pod.fs = false ∧ inRange (bOf j) (EOf j) c.pod.ord = true ∧ j.view.strat = .rolling ∧ partOf j.view ≤ c.pod.ord ∧
          c.pod.rev ≠ hk.1.1.norm.updRev.name)) := by
  have hs := hk.1.1
  have hn := hs.norm
  have hctx := hs.ctx
  unfold monoActsOf at hm ⊢
  simp only at hm ⊢
  rw [List.mem_append] at hm
  rcases hm with hm | hm
  · obtain ⟨q, hq, hfs, hid, hcr⟩ := monoRep_delete hm
    obtain ⟨hr, hq0⟩ := mem_repsOf.1 hq
    cases hsl : slotOf (bOf j) (EOf j) (j.pods.map (·.pod)) o with
    | none =>
      rw [hsl] at hq0; simp only [Option.getD_none] at hq0
      rw [hq0, newPod_fs] at hfs; cases hfs
    | some q0 =>
      rw [hsl] at hq0; simp only [Option.getD_some] at hq0
      obtain ⟨c, hcm, hcp, hco, _⟩ := hctx.slot_some hsl
      refine ⟨c, hcm, by rw [hcp, ← hq0, hid], Or.inl ⟨by rw [hcp, ← hq0]; exact hfs, by rw [hco]; exact hr, ?_⟩⟩
      exact ⟨_, List.mem_append_left _ (by rw [hco]; exact hcr)⟩
  · by_cases hfl : (monoRep j.view hn.curRev.name hn.updRev.name
        (repsOf j.view hn.curRev.name hn.updRev.name (bOf j) (EOf j) (j.pods.map (·.pod)))).2 = true
    · simp only [hfl, if_true] at hm
      by_cases hce : (condemnedOf (bOf j) (EOf j) (j.pods.map (·.pod))).reverse = []
      · simp only [hce, if_true] at hm
        -- the update walk
        have htg : walkTarget j.view hn.updRev.name (repsOf j.view hn.curRev.name hn.updRev.name (bOf j) (EOf j) (j.pods.map (·.pod)))
            = tgtOf j.view hn.curRev.name hn.updRev.name (bOf j) (EOf j) j.pods := by
          unfold tgtOf; rw [repNew_id_of_done hfl]
        rw [htg] at hm
        cases ht : tgtOf j.view hn.curRev.name hn.updRev.name (bOf j) (EOf j) j.pods with
        | none => rw [ht] at hm; simp [walkActs] at hm
        | some tq =>
          obtain ⟨t, q⟩ := tq
          rw [ht] at hm
          simp only [walkActs, List.mem_singleton, Action.delete.injEq] at hm
          obtain ⟨c, hcm, hcp, hco, hr, hfs, hrev, hpt, hnod⟩ := target_is_pod hctx hk.2 ht
          refine ⟨c, hcm, by rw [hcp]; exact hm.2.1.symm, Or.inr (Or.inr ⟨hfs, by rw [hco]; exact hr,
            hn.spec.strat.resolve_right hnod, by rw [hco]; exact hpt, by rw [hcp]; exact hrev⟩)⟩
      · simp only [hce, if_false] at hm
        cases hcl : (condemnedOf (bOf j) (EOf j) (j.pods.map (·.pod))).reverse with
        | nil => exact absurd hcl hce
        | cons c0 rest =>
          rw [hcl] at hm
          simp only [monoCond, List.mem_singleton, Action.delete.injEq] at hm
          have hc0 : c0 ∈ (condemnedOf (bOf j) (EOf j) (j.pods.map (·.pod))).reverse := by rw [hcl]; exact List.mem_cons_self
          rw [List.mem_reverse, L1c.mem_condemnedOf, List.mem_map] at hc0
          obtain ⟨⟨c, hcm, rfl⟩, hcond⟩ := hc0
          refine ⟨c, hcm, hm.2.1.symm, Or.inr (Or.inl ?_)⟩
          by_contra hr
          rw [inRange_not_condemned (by simpa using hr)] at hcond
          cases hcond
    · simp only [hfl, Bool.false_eq_true, if_false, List.not_mem_nil] at hm

theorem mono_create_src (hk : MonoK h j) {o : Int} {rev : String}
    (hm : Action.create o rev ∈ monoActsOf j.view hk.1.1.norm.curRev.name hk.1.1.norm.updRev.name (bOf j) (EOf j) j.pods) :
    Action.create o rev ∈ (monoRep j.view hk.1.1.norm.curRev.name hk.1.1.norm.updRev.name
      (repsOf j.view hk.1.1.norm.curRev.name hk.1.1.norm.updRev.name (bOf j) (EOf j) (j.pods.map (·.pod)))).1 := by
  unfold monoActsOf at hm
  simp only at hm
  rw [List.mem_append] at hm
  rcases hm with hm | hm
  · exact hm
  · exfalso
    split_ifs at hm with h1 h2
    · cases ht : walkTarget j.view hk.1.1.norm.updRev.name
          (repsOf j.view hk.1.1.norm.curRev.name hk.1.1.norm.updRev.name (bOf j) (EOf j) (j.pods.map (·.pod))) with
      | none => rw [ht] at hm; simp [walkActs] at hm
      | some tq => rw [ht] at hm; simp [walkActs] at hm
    · cases hcl : (condemnedOf (bOf j) (EOf j) (j.pods.map (·.pod))).reverse with
      | nil => exact absurd hcl h2
      | cons c0 rest => rw [hcl] at hm; simp [monoCond] at hm
    · cases hm

theorem mono_facts (hk : MonoK h j) :
    ActFacts j.view hk.1.1.norm.curRev.name hk.1.1.norm.updRev.name (bOf j) (EOf j) j.pods
      (monoActsOf j.view hk.1.1.norm.curRev.name hk.1.1.norm.updRev.name (bOf j) (EOf j) j.pods) := by
  have hs := hk.1.1
  have hn := hs.norm
  have hctx := hs.ctx
  refine ⟨?_, ?_, ?_, ?_, ?_⟩
  · rintro id hid ⟨o, w, hm⟩
    obtain ⟨c, hcm, hcid, _⟩ := mono_delete_src hk hm
    have := hctx.id_lt hcm
    omega
  · -- at most one create
    have hle : (createsOf (monoActsOf j.view hn.curRev.name hn.updRev.name (bOf j) (EOf j) j.pods)).length ≤ 1 := by
      unfold monoActsOf
      simp only
      rw [createsOf_append]
      have htail : createsOf (if (monoRep j.view hn.curRev.name hn.updRev.name
          (repsOf j.view hn.curRev.name hn.updRev.name (bOf j) (EOf j) (j.pods.map (·.pod)))).2 = true then
            if (condemnedOf (bOf j) (EOf j) (j.pods.map (·.pod))).reverse = [] then
              walkActs (walkTarget j.view hn.updRev.name (repsOf j.view hn.curRev.name hn.updRev.name (bOf j) (EOf j) (j.pods.map (·.pod))))
            else monoCond (condemnedOf (bOf j) (EOf j) (j.pods.map (·.pod))).reverse
          else []) = [] := by
        split_ifs
        · exact createsOf_walkActs _
        · cases (condemnedOf (bOf j) (EOf j) (j.pods.map (·.pod))).reverse <;> rfl
        · rfl
      rw [htail, List.append_nil]
      exact monoRep_creates_le_one _ _ _ _
    match hcl : createsOf (monoActsOf j.view hn.curRev.name hn.updRev.name (bOf j) (EOf j) j.pods), hle with
    | [], _ => exact List.nodup_nil
    | [a], _ => exact List.nodup_singleton a
    | _ :: _ :: _, hle => simp at hle
  · intro o rev hcr
    obtain ⟨q, hq, hcase⟩ := monoRep_create (mono_create_src hk hcr)
    obtain ⟨hr, hq0⟩ := mem_repsOf.1 hq
    refine ⟨hr, ?_⟩
    rcases hcase with ⟨hfs, hrev, hdel⟩ | ⟨hfs, hcreated, hrev⟩
    · cases hsl : slotOf (bOf j) (EOf j) (j.pods.map (·.pod)) o with
      | none =>
        rw [hsl] at hq0; simp only [Option.getD_none] at hq0
        rw [hq0, newPod_fs] at hfs; cases hfs
      | some q0 =>
        rw [hsl] at hq0; simp only [Option.getD_some] at hq0
        obtain ⟨c, hcm, hcp, hco, _⟩ := hctx.slot_some hsl
        refine ⟨hrev, Or.inr ⟨c, hcm, hco, by rw [hcp, ← hq0]; exact hfs, o, .replaceFailed, ?_⟩⟩
        unfold monoActsOf
        simp only
        rw [hcp, ← hq0]
        exact List.mem_append_left _ hdel
    · cases hsl : slotOf (bOf j) (EOf j) (j.pods.map (·.pod)) o with
      | none =>
        rw [hsl] at hq0; simp only [Option.getD_none] at hq0
        refine ⟨by rw [hrev, hq0]; rfl, Or.inl ?_⟩
        intro c hcm hco
        have := hctx.slot_of_mem hcm (by rw [hco]; exact hr)
        rw [hco, hsl] at this; cases this
      | some q0 =>
        rw [hsl] at hq0; simp only [Option.getD_some] at hq0
        obtain ⟨c, hcm, hcp, _, _⟩ := hctx.slot_some hsl
        have := (hn.pods c hcm).2.2.2.2.2.2
        rw [hcp, ← hq0, hcreated] at this; cases this
  · rintro c hcm ⟨o, w, hm⟩ hfs hr
    obtain ⟨c', hc', hcid, hcase⟩ := mono_delete_src hk hm
    have : c' = c := hctx.id_inj hc' hcm hcid
    subst this
    rcases hcase with ⟨_, _, hcre⟩ | h2 | ⟨h3, _⟩
    · exact hcre
    · rw [hr] at h2; cases h2
    · rw [hfs] at h3; cases h3
  · rintro c hcm ⟨o, w, hm⟩ hfs hr
    obtain ⟨c', hc', hcid, hcase⟩ := mono_delete_src hk hm
    have : c' = c := hctx.id_inj hc' hcm hcid
    subst this
    rcases hcase with ⟨h1, _⟩ | h2 | ⟨_, _, a, b, c⟩
    · rw [hfs] at h1; cases h1
    · rw [hr] at h2; cases h2
    · exact ⟨a, b, c⟩

theorem mono_pol (hk : MonoK h j) : Pol hk.1.1.norm :=
  Pol.of_facts (recon_mono hk.1).1 (by rw [(recon_mono hk.1).2]; exact mono_facts hk)

end

end Asts.C02p

namespace Asts.C02p
open Asts Asts.L1c

section
variable {h : Hashing} {j : SyncIn}

theorem mono_progress (hk : MonoK h j) (hpos : 0 < muPods j) :
    Event (bOf j) (EOf j) j.pods hk.1.1.norm.recon.1.acts := by
  have hs := hk.1.1
  have hn := hs.norm
  have hctx := hs.ctx
  have hb0 := bOf_nonneg hn
  have hE := EOf_nonneg hn
  rw [(recon_mono hk.1).2]
  by_cases hfl : (monoRep j.view hn.curRev.name hn.updRev.name
      (repsOf j.view hn.curRev.name hn.updRev.name (bOf j) (EOf j) (j.pods.map (·.pod)))).2 = true
  · have hdone := monoRep_done hfl
    -- every desired ordinal holds a live pod
    have hall : ∀ o, inRange (bOf j) (EOf j) o = true → ∃ c ∈ j.pods, c.pod.ord = o ∧ c.pod.fs = false := by
      intro o hr
      have hmem : (o, (slotOf (bOf j) (EOf j) (j.pods.map (·.pod)) o).getD (newPod j.view hn.curRev.name hn.updRev.name o)) ∈
          repsOf j.view hn.curRev.name hn.updRev.name (bOf j) (EOf j) (j.pods.map (·.pod)) := mem_repsOf.2 ⟨hr, rfl⟩
      obtain ⟨hfs, hcr, _⟩ := hdone _ hmem
      cases hsl : slotOf (bOf j) (EOf j) (j.pods.map (·.pod)) o with
      | none =>
        rw [hsl] at hcr
        simp only [Option.getD_none] at hcr
        rw [newPod_created] at hcr; cases hcr
      | some q =>
        rw [hsl] at hfs
        simp only [Option.getD_some] at hfs
        obtain ⟨c, hcm, hcp, hco, _⟩ := hctx.slot_some hsl
        exact ⟨c, hcm, hco, by rw [hcp]; exact hfs⟩
    -- a pod outside the desired set makes the condemned loop delete one
    have hcondE : ∀ c ∈ j.pods, inRange (bOf j) (EOf j) c.pod.ord = false →
        Event (bOf j) (EOf j) j.pods (monoActsOf j.view hn.curRev.name hn.updRev.name (bOf j) (EOf j) j.pods) := by
      intro c hcm hr
      have hcmem : c.pod ∈ (condemnedOf (bOf j) (EOf j) (j.pods.map (·.pod))).reverse := by
        rw [List.mem_reverse, L1c.mem_condemnedOf]
        refine ⟨List.mem_map.2 ⟨c, hcm, rfl⟩, ?_⟩
        rw [isCondemned_eq hb0 hE, contains_idxOf, hr]
        simp [(hn.pods c hcm).2.2.2.2.1]
      cases hcl : (condemnedOf (bOf j) (EOf j) (j.pods.map (·.pod))).reverse with
      | nil => rw [hcl] at hcmem; cases hcmem
      | cons c0 rest =>
        have hc0 : c0 ∈ (condemnedOf (bOf j) (EOf j) (j.pods.map (·.pod))).reverse := by rw [hcl]; exact List.mem_cons_self
        rw [List.mem_reverse, L1c.mem_condemnedOf, List.mem_map] at hc0
        obtain ⟨⟨c', hc', rfl⟩, _⟩ := hc0
        refine Or.inr (Or.inl ⟨c', hc', c'.pod.ord, .scaleDown, ?_⟩)
        unfold monoActsOf
        simp only [hfl, if_true, hcl]
        apply List.mem_append_right
        simp [monoCond]
    rcases mu_pos_cases hs hpos with ⟨c, hcm, hr⟩ | ⟨o, hr, hnone⟩ | ⟨c, hcm, hr, hfs⟩ | ⟨c, hcm, hr, hfs, hid⟩ |
        ⟨c, hcm, hr, hfs, hroll, hpt, hrev⟩
    · exact hcondE c hcm hr
    · obtain ⟨c, hcm, hco, _⟩ := hall o hr
      exact absurd hco (hnone c hcm)
    · obtain ⟨c', hc', hco', hfs'⟩ := hall c.pod.ord hr
      rw [hctx.ord_inj hc' hcm hco', hfs] at hfs'; cases hfs'
    · have hmem : (c.pod.ord, c.pod) ∈ repsOf j.view hn.curRev.name hn.updRev.name (bOf j) (EOf j) (j.pods.map (·.pod)) :=
        mem_repsOf.2 ⟨hr, by simp [hctx.slot_of_mem hcm hr]⟩
      have hu := (hdone _ hmem).2.2 (by simp [hid])
      refine Or.inr (Or.inr ⟨c, hcm, hr, hfs, hid, ?_⟩)
      unfold monoActsOf
      exact List.mem_append_left _ hu
    · by_cases hce : (condemnedOf (bOf j) (EOf j) (j.pods.map (·.pod))).reverse = []
      · obtain ⟨c', hc', htg⟩ := target_exists hs hk.2 hall hcm hr hroll hpt hrev
        refine Or.inr (Or.inl ⟨c', hc', c'.pod.ord, .update, ?_⟩)
        have hw : walkTarget j.view hn.updRev.name (repsOf j.view hn.curRev.name hn.updRev.name (bOf j) (EOf j) (j.pods.map (·.pod)))
            = some (c'.pod.ord, c'.pod) := by
          have : tgtOf j.view hn.curRev.name hn.updRev.name (bOf j) (EOf j) j.pods = some (c'.pod.ord, c'.pod) := htg
          unfold tgtOf at this
          rw [repNew_id_of_done hfl] at this
          exact this
        unfold monoActsOf
        simp only [hfl, if_true, hce, hw]
        apply List.mem_append_right
        simp [walkActs]
      · -- some pod is outside the desired set
        cases hcl : (condemnedOf (bOf j) (EOf j) (j.pods.map (·.pod))).reverse with
        | nil => exact absurd hcl hce
        | cons c0 rest =>
          have hc0 : c0 ∈ (condemnedOf (bOf j) (EOf j) (j.pods.map (·.pod))).reverse := by rw [hcl]; exact List.mem_cons_self
          rw [List.mem_reverse, L1c.mem_condemnedOf, List.mem_map] at hc0
          obtain ⟨⟨c', hc', rfl⟩, hcond⟩ := hc0
          apply hcondE c' hc'
          by_contra hr'
          rw [inRange_not_condemned (by simpa using hr')] at hcond
          cases hcond
  · have hfl' : (monoRep j.view hn.curRev.name hn.updRev.name
        (repsOf j.view hn.curRev.name hn.updRev.name (bOf j) (EOf j) (j.pods.map (·.pod)))).2 = false := by simpa using hfl
    obtain ⟨o, rev, hm⟩ := monoRep_stopped hfl'
    refine Or.inl ⟨o, rev, ?_⟩
    unfold monoActsOf
    exact List.mem_append_left _ hm

theorem mono_next (hk : MonoK h j) : MonoK h (nextW h j) := by
  have hs := hk.1.1
  have hp := mono_pol hk
  have hview := nextW_view hs hp
  have hb : bOf (nextW h j) = bOf j := by unfold bOf; rw [hview]; rfl
  have hE : EOf (nextW h j) = EOf j := by unfold EOf; rw [hview]; rfl
  refine ⟨⟨nextW_ns hs hp, by rw [hview]; exact hk.1.2.1, ?_⟩, by rw [hview]; exact hk.2⟩
  intro x hx hfs
  obtain ⟨y, hy, hky⟩ := (nextW_pods hs hp).mem hx
  have e1 : y.pod.fs = x.pod.fs := key_transfer (·.pod.fs) (fun _ => rfl) hky
  have e2 : y.pod.ord = x.pod.ord := key_transfer (·.pod.ord) (fun _ => rfl) hky
  obtain ⟨c, hcm, hco, hcfs⟩ := (rawNext_pod hs hp hy).2.2.2.2.2.2.2.2 (by rw [e1]; exact hfs)
  rw [hb, hE, ← e2, ← hco]
  exact hk.1.2.2 c hcm hcfs

end

/-- **the OrderedReady policy is a policy class** -/
theorem mono_class (h : Hashing) : PolicyClass h (MonoK h) where
  ns := fun _ hk => hk.1.1
  part := fun _ hk => hk.2
  pol := fun _ hk => mono_pol hk
  facts := fun _ hk => by rw [(recon_mono hk.1).2]; exact mono_facts hk
  next := fun _ hk => mono_next hk
  progress := fun _ hk hpos => mono_progress hk hpos

end Asts.C02p
