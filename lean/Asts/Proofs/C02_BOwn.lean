import Asts.Proofs.C02_BSync

/-! C02, normalising rounds: forgetting who owns a pod (`ownS`) commutes with everything a round does to the pod list. -/
namespace Asts.C02p
open Asts Asts.L1c

/-- the pod, owned by the set -/
def own (c : CPod) : CPod := { c with owner := .self }

theorem ownS_pods (j : SyncIn) : (ownS j).pods = j.pods.map own := rfl

theorem insertPodByName_map (g : CPod → CPod) (hg : ∀ c, (g c).name = c.name) (c : CPod) (l : List CPod) :
    (insertPodByName c l).map g = insertPodByName (g c) (l.map g) := by
  induction l with
  | nil => rfl
  | cons q qs ih =>
    rw [List.map_cons]
    unfold insertPodByName
    rw [hg, hg]
    split_ifs
    · rfl
    · rw [List.map_cons, ih]

theorem sortPods_map (g : CPod → CPod) (hg : ∀ c, (g c).name = c.name) (l : List CPod) :
    (sortPods l).map g = sortPods (l.map g) := by
  induction l with
  | nil => rfl
  | cons a l ih => rw [sortPods_cons, insertPodByName_map g hg, ih, List.map_cons, sortPods_cons]

theorem reindex_sort_map (g : CPod → CPod) (hg : ∀ c, (g c).name = c.name) (hk : ∀ c k, g (setId c k) = setId (g c) k)
    (l : List CPod) : (reindex (sortPods l)).map g = reindex (sortPods (l.map g)) := by
  rw [reindex_eq, reindexFrom_map g hk, sortPods_map g hg, reindex_eq]

theorem own_reindex_sort_map (l : List CPod) : (reindex (sortPods l)).map own = reindex (sortPods (l.map own)) :=
  reindex_sort_map own (fun _ => rfl) (fun _ _ => rfl) l

theorem setPod_map_own (pods : List CPod) (p : CPod → Bool) (f f' : CPod → CPod) (hp : ∀ c, p (own c) = p c)
    (hf : ∀ c, own (f c) = f' (own c)) : (setPod pods p f).map own = setPod (pods.map own) p f' := by
  unfold setPod
  rw [List.map_map, List.map_map]
  apply List.map_congr_left
  intro c _
  simp only [Function.comp, hp]
  split_ifs
  · exact hf c
  · rfl

/-- the pod-control calls do the same to a pod list whoever owns the pods -/
theorem own_applyActs (setName : String) (orig : List CPod) (acts : List Action) (pods : List CPod) :
    (applyActs setName orig pods acts).map own = applyActs setName (orig.map own) (pods.map own) acts := by
  induction acts generalizing pods with
  | nil => rfl
  | cons a rest ih =>
    cases a with
    | create o rev =>
      unfold applyActs
      rw [ih, List.map_append]
      rfl
    | delete o id w =>
      unfold applyActs
      rw [ih]
      congr 1
      rw [setPod_map_own _ _ _ (fun c => { c with pod := { c.pod with terminating := true } }) (fun _ => rfl) (fun _ => rfl),
        List.filter_map]
      rfl
    | update o =>
      unfold applyActs
      rw [ih]
      congr 1
      apply setPod_map_own _ _ _ _ (fun _ => rfl)
      intro c
      have : ((orig.map own).find? (·.name == canonicalName setName o)).any (·.owner == .none) = false := by
        cases hf : (orig.map own).find? (·.name == canonicalName setName o) with
        | none => rfl
        | some x =>
          have hx := List.mem_of_find?_eq_some hf
          rw [List.mem_map] at hx
          obtain ⟨y, _, rfl⟩ := hx
          rfl
      simp only [this, Bool.false_eq_true, if_false]
      rfl

theorem own_patchGo (plan : List Fault) (seen log : List String) (pods : List CPod) :
    (applyPatches.go plan seen log pods).map own = pods.map own := by
  induction log generalizing seen pods with
  | nil => rfl
  | cons e rest ih =>
    unfold applyPatches.go
    rw [ih]
    split
    · split_ifs
      · rfl
      · unfold setPod
        rw [List.map_map]
        apply List.map_congr_left
        intro c _
        simp only [Function.comp]
        split_ifs
        · cases hco : c.owner <;> simp [own]
        · rfl
    · rfl

/-- the adoption / release patches change owners only -/
theorem own_applyPatches (plan : List Fault) (log : List String) (pods : List CPod) :
    (applyPatches plan log pods).map own = pods.map own := own_patchGo plan [] log pods

theorem own_own (l : List CPod) : (l.map own).map own = l.map own := by
  rw [List.map_map]; rfl

theorem map_own_pod (l : List CPod) : (l.map own).map (·.pod) = l.map (·.pod) := by
  rw [List.map_map]; rfl

theorem map_own_of_self {l : List CPod} (h : ∀ c ∈ l, c.owner = .self) : l.map own = l := by
  conv_rhs => rw [← List.map_id l]
  apply List.map_congr_left
  intro c hc
  have := h c hc
  cases c
  simp only [own, id]
  simp_all

/-- `settle` does not look at owners -/
theorem ownS_settle (j : SyncIn) : ownS (settle j) = settle (ownS j) := by
  show ({ settle j with pods := (settle j).pods.map own } : SyncIn) = settle (ownS j)
  have hp : (settle j).pods.map own = (settle (ownS j)).pods := by
    rw [settle_pods, settle_pods, own_reindex_sort_map, ownS_pods, List.map_map, List.filter_map, List.map_map]
    have e1 : (own ∘ settleOne) = (settleOne ∘ own) := by
      funext c
      simp only [Function.comp]
      by_cases hfs : (c.pod.failed || c.pod.succeeded) = true
      · have h1 : settleOne c = c := by unfold settleOne; rw [if_pos hfs]
        have h2 : settleOne (own c) = own c := by unfold settleOne; rw [if_pos (by exact hfs)]
        rw [h1, h2]
      · have h1 : settleOne c = { c with pod := { c.pod with phase := .running, ready := true } } := by
          unfold settleOne; rw [if_neg hfs]
        have h2 : settleOne (own c) = { own c with pod := { (own c).pod with phase := .running, ready := true } } := by
          unfold settleOne; rw [if_neg (by exact hfs)]
        rw [h1, h2]
        rfl
    have e2 : ((fun c : CPod => !c.pod.terminating) ∘ own) = (fun c => !c.pod.terminating) := rfl
    rw [e1, e2]
  rw [hp]
  rfl

end Asts.C02p
