import Mathlib.Tactic
import Batteries.Data.String.Lemmas
import Asts.Spec.Sync

/-! # SY_b (copied from sya-prover's SY_a_Strings.lean, namespace renamed) — `String.splitOn ":"` and `parseEntry` on the entry shapes of the call log

`String.splitOn` is implemented by well-founded recursion over UTF-8 byte positions; `splitOn_colon` ties it to
`List.splitOnP` on the characters. From there `parseEntry` is computed on every shape of entry the model logs:
`"<verb>:<res>:" ++ name` parses to `(verb, res, name)` when the name contains no colon, and to an entry whose verb is the
whole string and whose resource is empty when it does (the monitors then take it for no call at all). -/

namespace Asts.SYb
open Asts String

theorem colon_eq : ":" = String.ofList [':'] := by rfl
theorem get_colon : Pos.Raw.get ":" 0 = ':' := by
  rw [colon_eq]; exact get_of_valid [] [':']
theorem next_colon : Pos.Raw.next ":" 0 = ⟨1⟩ := by
  rw [colon_eq]; exact next_of_valid [] ':' []
theorem atEnd_colon : Pos.Raw.atEnd ":" ⟨1⟩ = true := by
  rw [colon_eq]; exact (atEnd_of_valid [':'] []).2 rfl

theorem splitOnAux_colon (r : List Char) : ∀ (l m : List Char) (acc : List String),
    String.splitOnAux (ofList (l ++ m ++ r)) ":" ⟨utf8Len l⟩ ⟨utf8Len l + utf8Len m⟩ 0 acc =
      acc.reverse ++ (List.splitOnPPrepend (· == ':') r m.reverse).map ofList := by
  induction r with
  | nil =>
    intro l m acc
    unfold String.splitOnAux
    have h1 : Pos.Raw.atEnd (ofList (l ++ m ++ [])) ⟨utf8Len l + utf8Len m⟩ = true := by
      have := (atEnd_of_valid (l ++ m) []).2 rfl
      simpa [utf8Len_append] using this
    have h2 := extract_of_valid l m []
    simp only [h1, if_true, h2]
    simp
  | cons c r ih =>
    intro l m acc
    unfold String.splitOnAux
    have h1 : Pos.Raw.atEnd (ofList (l ++ m ++ c :: r)) ⟨utf8Len l + utf8Len m⟩ = false := by
      have := (atEnd_of_valid (l ++ m) (c :: r))
      simp only [utf8Len_append] at this
      cases h : Pos.Raw.atEnd (ofList (l ++ m ++ c :: r)) ⟨utf8Len l + utf8Len m⟩
      · rfl
      · exact absurd (this.1 h) (by simp)
    have h2 : Pos.Raw.get (ofList (l ++ m ++ c :: r)) ⟨utf8Len l + utf8Len m⟩ = c := by
      have := get_of_valid (l ++ m) (c :: r)
      simpa [utf8Len_append] using this
    have h3 : Pos.Raw.next (ofList (l ++ m ++ c :: r)) ⟨utf8Len l + utf8Len m⟩ =
        ⟨utf8Len l + utf8Len m + c.utf8Size⟩ := by
      have := next_of_valid (l ++ m) c r
      simpa [utf8Len_append] using this
    simp only [h1, Bool.false_eq_true, if_false, h2, get_colon]
    by_cases hc : c = ':'
    · subst hc
      simp only [beq_self_eq_true, if_true, next_colon, atEnd_colon, h3]
      have hsz : ':'.utf8Size = 1 := by decide
      have hoff : (({ byteIdx := utf8Len l + utf8Len m + ':'.utf8Size } : Pos.Raw).unoffsetBy { byteIdx := 1 }) =
          ⟨utf8Len l + utf8Len m⟩ := by
        simp [Pos.Raw.unoffsetBy, hsz]
      rw [hoff, extract_of_valid l m (':' :: r)]
      have := ih (l ++ m ++ [':']) [] (ofList m :: acc)
      simp only [List.append_nil, List.append_assoc, List.singleton_append, utf8Len_append, utf8Len_cons, utf8Len_nil,
        Nat.add_zero, Nat.zero_add, List.reverse_nil, List.reverse_cons] at this
      simp only [List.append_assoc]
      rw [show utf8Len l + utf8Len m + ':'.utf8Size = utf8Len l + (utf8Len m + ':'.utf8Size) by omega]
      rw [this]
      rw [List.splitOnPPrepend_cons_eq_if, if_pos (by simp), List.splitOnP_eq_splitOnPPrepend]
      simp
    · have hc' : (c == ':') = false := by simpa using hc
      simp only [hc', Bool.false_eq_true, if_false]
      have hoff : (({ byteIdx := utf8Len l + utf8Len m } : Pos.Raw).unoffsetBy 0) = ⟨utf8Len l + utf8Len m⟩ := by
        simp [Pos.Raw.unoffsetBy]
      rw [hoff, h3]
      have := ih l (m ++ [c]) acc
      simp only [List.append_assoc, List.singleton_append, utf8Len_append, utf8Len_cons, utf8Len_nil,
        Nat.zero_add, List.reverse_append, List.reverse_cons, List.reverse_nil, List.nil_append] at this
      simp only [List.append_assoc]
      rw [show utf8Len l + utf8Len m + c.utf8Size = utf8Len l + (utf8Len m + c.utf8Size) by omega]
      rw [this]
      simp [List.splitOnPPrepend_cons_eq_if, hc']

/-- `splitOn ":"` is `List.splitOnP (· == ':')` on the characters -/
theorem splitOn_colon (s : String) :
    s.splitOn ":" = (List.splitOnP (· == ':') s.toList).map String.ofList := by
  have h := splitOnAux_colon s.toList [] [] []
  simp only [List.append_nil, List.nil_append, String.ofList_toList, utf8Len_nil, Nat.add_zero, List.reverse_nil,
    ← List.splitOnP_eq_splitOnPPrepend] at h
  unfold String.splitOn
  rw [if_neg (by decide)]
  exact h

/-- a name that does not contain the separator -/
def NoColon (n : String) : Prop := ∀ x ∈ n.toList, (x == ':') = false

instance (n : String) : Decidable (NoColon n) := by unfold NoColon; infer_instance

theorem splitOnP_two {l : List Char} (h : ¬ ∀ x ∈ l, (x == ':') = false) :
    ∃ a b c, List.splitOnP (· == ':') l = a :: b :: c := by
  induction l with
  | nil => simp at h
  | cons y ys ih =>
    rw [List.splitOnP_cons_eq_if_modifyHead]
    by_cases hy : (y == ':') = true
    · simp only [hy, if_true]
      cases hs : List.splitOnP (· == ':') ys with
      | nil => exact absurd hs (List.splitOnP_ne_nil _ _)
      | cons b c => exact ⟨[], b, c, rfl⟩
    · have hy' : (y == ':') = false := by simpa using hy
      simp only [hy', Bool.false_eq_true, if_false]
      have : ¬ ∀ x ∈ ys, (x == ':') = false := by
        intro hall; apply h
        intro x hx
        rcases List.mem_cons.1 hx with rfl | hx
        · exact hy'
        · exact hall x hx
      obtain ⟨a, b, c, habc⟩ := ih this
      exact ⟨y :: a, b, c, by rw [habc]; rfl⟩

/-- `pre` renders `"<v>:<r>:"` and neither part contains the separator -/
structure Pre3 (pre v r : String) : Prop where
  toList_eq : pre.toList = v.toList ++ ':' :: (r.toList ++ [':'])
  hv : ∀ x ∈ v.toList, (x == ':') = false
  hr : ∀ x ∈ r.toList, (x == ':') = false

theorem splitOn_pre3 {pre v r : String} (h : Pre3 pre v r) (n : String) :
    (pre ++ n).splitOn ":" = v :: r :: (List.splitOnP (· == ':') n.toList).map String.ofList := by
  rw [splitOn_colon, String.toList_append, h.toList_eq]
  have e1 : v.toList ++ ':' :: (r.toList ++ [':']) ++ n.toList = v.toList ++ ':' :: (r.toList ++ ':' :: n.toList) := by
    simp
  rw [e1, List.splitOnP_append_cons_of_forall_mem h.hv ':' (by simp),
    List.splitOnP_append_cons_of_forall_mem h.hr ':' (by simp)]
  simp

theorem parseEntry_pre3 {pre v r : String} (h : Pre3 pre v r) (n : String) (hn : NoColon n) :
    parseEntry (pre ++ n) = { verb := v, res := r, name := n } := by
  unfold parseEntry
  rw [splitOn_pre3 h, List.splitOnP_eq_singleton hn]
  simp

theorem parseEntry_pre3_colon {pre v r : String} (h : Pre3 pre v r) (n : String) (hn : ¬NoColon n) :
    parseEntry (pre ++ n) = { verb := pre ++ n, res := "", name := "" } := by
  unfold parseEntry
  obtain ⟨a, b, c, habc⟩ := splitOnP_two hn
  rw [splitOn_pre3 h, habc]
  simp only [List.map_cons]

/-- in either case: the resource is `r` or empty; if it is `r` the entry is exactly `(v, r, n)` -/
theorem parseEntry_pre3_cases {pre v r : String} (h : Pre3 pre v r) (n : String) :
    parseEntry (pre ++ n) = { verb := v, res := r, name := n } ∨
    (parseEntry (pre ++ n)).res = "" := by
  by_cases hn : NoColon n
  · exact Or.inl (parseEntry_pre3 h n hn)
  · exact Or.inr (by rw [parseEntry_pre3_colon h n hn])

theorem pre_patch_pod : Pre3 "patch:pod:" "patch" "pod" := ⟨by decide, by decide, by decide⟩
theorem pre_create_pod : Pre3 "create:pod:" "create" "pod" := ⟨by decide, by decide, by decide⟩
theorem pre_delete_pod : Pre3 "delete:pod:" "delete" "pod" := ⟨by decide, by decide, by decide⟩
theorem pre_update_pod : Pre3 "update:pod:" "update" "pod" := ⟨by decide, by decide, by decide⟩
theorem pre_patch_rev : Pre3 "patch:rev:" "patch" "rev" := ⟨by decide, by decide, by decide⟩
theorem pre_update_rev : Pre3 "update:rev:" "update" "rev" := ⟨by decide, by decide, by decide⟩
theorem pre_create_rev : Pre3 "create:rev:" "create" "rev" := ⟨by decide, by decide, by decide⟩
theorem pre_get_rev : Pre3 "get:rev:" "get" "rev" := ⟨by decide, by decide, by decide⟩
theorem pre_delete_rev : Pre3 "delete:rev:" "delete" "rev" := ⟨by decide, by decide, by decide⟩

theorem parseEntry_list_revs : parseEntry "list:revs" = { verb := "list", res := "revs", name := "" } := by
  unfold parseEntry
  rw [splitOn_colon, show List.splitOnP (· == ':') "list:revs".toList = [['l','i','s','t'],['r','e','v','s']] by decide]
  rfl

theorem parseEntry_get_set : parseEntry "get:set" = { verb := "get", res := "set", name := "" } := by
  unfold parseEntry
  rw [splitOn_colon, show List.splitOnP (· == ':') "get:set".toList = [['g','e','t'],['s','e','t']] by decide]
  rfl

theorem parseEntry_updatestatus : parseEntry "updatestatus" = { verb := "updatestatus", res := "", name := "" } := by
  unfold parseEntry
  rw [splitOn_colon, show List.splitOnP (· == ':') "updatestatus".toList =
    [['u','p','d','a','t','e','s','t','a','t','u','s']] by decide]
  rfl

end Asts.SYb
