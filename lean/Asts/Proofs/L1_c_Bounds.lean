import Asts.Proofs.L1_c_Prep

/-! C12 (bounds): the loop invariant relating the running counters to what is still to be processed. -/
set_option linter.unnecessarySeqFocus false
namespace Asts.L1c

/-- not terminating and at revision `x` -/
def liveAt (x : String) (p : Pod) : Bool := !p.terminating && p.rev == x
/-- what the census counts for revision `x` -/
def countedAt (x : String) (p : Pod) : Bool := p.created && !p.terminating && p.rev == x

/-- `current` (k = true) or `updated` (k = false) -/
def ctr (k : Bool) (st : Status) : Int := if k then st.current else st.updated
def revK (k : Bool) (cur upd : String) : String := if k then cur else upd

def ind (b : Bool) : Int := if b then 1 else 0
theorem ind_true : ind true = 1 := rfl
theorem ind_false : ind false = 0 := rfl

theorem ctr_bump (k : Bool) (st : Status) (cur upd rev : String) (d : Int) :
    ctr k (bump st cur upd rev d) = ctr k st + (if rev == revK k cur upd then d else 0) := by
  cases k
  · simp [ctr, revK, bump_updated]
  · simp [ctr, revK, bump_current]

theorem ctr_replicas_irrel (k : Bool) (st : Status) (n : Int) : ctr k { st with replicas := n } = ctr k st := by
  cases k <;> rfl

theorem fs_created {p : Pod} (h : p.fs = true) : p.created = true := by
  unfold Pod.fs Pod.failed Pod.succeeded at h
  unfold Pod.created
  cases hp : p.phase <;> simp_all

theorem fs_not_rr {p : Pod} (h : p.fs = true) : p.runningAndReady = false := by
  unfold Pod.fs Pod.failed Pod.succeeded at h
  unfold Pod.runningAndReady
  cases hp : p.phase <;> simp_all

/-- the invariant of the three loops, for one of the two revision counters -/
structure InvB (k : Bool) (cur upd : String) (s : St) (R W : List (Int × Pod)) (C : List Pod) : Prop where
  lower : cnt (countedAt (revK k cur upd)) (R.map (·.2)) + cnt (liveAt (revK k cur upd)) (W.map (·.2))
            + cnt (liveAt (revK k cur upd)) C ≤ ctr k s.status
  upper : cnt (fun p => p.fs && !liveAt (revK k cur upd) p) (R.map (·.2)) ≤ s.status.replicas - ctr k s.status
  rdy : cnt Pod.fs (R.map (·.2)) ≤ s.status.replicas - s.status.ready
  rdy0 : 0 ≤ s.status.ready

/-- what is to be shown of every status returned with `.ok` -/
def BndK (k : Bool) (st : Status) : Prop :=
  0 ≤ ctr k st ∧ ctr k st ≤ st.replicas ∧ 0 ≤ st.ready ∧ st.ready ≤ st.replicas

theorem InvB.bnd {k cur upd s R W C} (h : InvB k cur upd s R W C) : BndK k s.status := by
  have h1 := h.lower; have h2 := h.upper; have h3 := h.rdy; have h4 := h.rdy0
  have := cnt_nonneg (countedAt (revK k cur upd)) (R.map (·.2))
  have := cnt_nonneg (liveAt (revK k cur upd)) (W.map (·.2))
  have := cnt_nonneg (liveAt (revK k cur upd)) C
  have := cnt_nonneg (fun p => p.fs && !liveAt (revK k cur upd) p) (R.map (·.2))
  have := cnt_nonneg Pod.fs (R.map (·.2))
  refine ⟨?_, ?_, ?_, ?_⟩ <;> omega

theorem ctr_stepReplace (k : Bool) (v : SetView) (cur upd : String) (s : St) (i : Int) (q : Pod) :
    ctr k (stepReplace v cur upd s i q).status =
      ctr k s.status - ind (liveAt (revK k cur upd) q) + ind ((newPod v cur upd i).rev == revK k cur upd) := by
  unfold stepReplace liveAt ind
  simp only [ctr_bump, ctr_replicas_irrel]
  cases ht : q.terminating
  · simp only [Bool.false_eq_true, if_false, ctr_bump, Bool.not_false, Bool.true_and]
    split_ifs <;> omega
  · simp only [if_true, Bool.not_true, Bool.false_and, Bool.false_eq_true, if_false]
    split_ifs <;> omega

theorem replicas_stepReplace (v : SetView) (cur upd : String) (s : St) (i : Int) (q : Pod) :
    (stepReplace v cur upd s i q).status.replicas = s.status.replicas := by
  unfold stepReplace
  simp only [bump_replicas]
  split_ifs <;> simp

theorem ready_stepReplace (v : SetView) (cur upd : String) (s : St) (i : Int) (q : Pod) :
    (stepReplace v cur upd s i q).status.ready = s.status.ready := by
  unfold stepReplace
  simp only [bump_ready]
  split_ifs <;> simp

theorem ctr_stepCreate (k : Bool) (cur upd : String) (s : St) (i : Int) (q : Pod) :
    ctr k (stepCreate cur upd s i q).status = ctr k s.status + ind (q.rev == revK k cur upd) := by
  unfold stepCreate ind
  simp only [ctr_bump, ctr_replicas_irrel]

theorem replicas_stepCreate (cur upd : String) (s : St) (i : Int) (q : Pod) :
    (stepCreate cur upd s i q).status.replicas = s.status.replicas + 1 := by
  unfold stepCreate; simp

theorem ready_stepCreate (cur upd : String) (s : St) (i : Int) (q : Pod) :
    (stepCreate cur upd s i q).status.ready = s.status.ready := by
  unfold stepCreate; simp

theorem cnt_cons_ind (q : Pod → Bool) (p : Pod) (l : List Pod) : cnt q (p :: l) = cnt q l + ind (q p) := by
  rw [cnt_cons]; rfl

theorem ind_nonneg (b : Bool) : 0 ≤ ind b := by cases b <;> simp [ind]
theorem ind_le_one (b : Bool) : ind b ≤ 1 := by cases b <;> simp [ind]

theorem invB_hA (k : Bool) (v : SetView) (cur upd : String) (s : St) (i : Int) (q : Pod) (R W : List (Int × Pod)) (C : List Pod)
    (h : InvB k cur upd s ((i, q) :: R) W C) (hfs : q.fs = true) :
    InvB k cur upd (stepReplace v cur upd s i q) R (W ++ [(i, newPod v cur upd i)]) C := by
  have h1 := h.lower; have h2 := h.upper; have h3 := h.rdy
  simp only [List.map_cons, cnt_cons_ind] at h1 h2 h3
  have hcr := fs_created hfs
  have hnp : liveAt (revK k cur upd) (newPod v cur upd i) = ((newPod v cur upd i).rev == revK k cur upd) := by
    simp [liveAt, newPod]
  have hcq : countedAt (revK k cur upd) q = liveAt (revK k cur upd) q := by
    simp [countedAt, liveAt, hcr]
  rw [hcq] at h1
  rw [hfs] at h3
  simp only [hfs, Bool.true_and] at h2
  refine ⟨?_, ?_, ?_, ?_⟩
  · rw [ctr_stepReplace]
    simp only [List.map_append, List.map_cons, List.map_nil, cnt_append, cnt_cons_ind, cnt_nil, hnp]
    omega
  · rw [ctr_stepReplace, replicas_stepReplace]
    have := ind_le_one ((newPod v cur upd i).rev == revK k cur upd)
    cases hl : liveAt (revK k cur upd) q <;> simp only [hl, Bool.not_true, Bool.not_false, ind_true, ind_false] at h2 ⊢ <;> omega
  · rw [replicas_stepReplace, ready_stepReplace]
    simp only [ind_true] at h3
    omega
  · rw [ready_stepReplace]; exact h.rdy0

theorem invB_hB (k : Bool) (cur upd : String) (s : St) (i : Int) (q : Pod) (R W : List (Int × Pod)) (C : List Pod)
    (h : InvB k cur upd s ((i, q) :: R) W C) (hfs : q.fs = false) (hc : q.created = false) :
    InvB k cur upd (stepCreate cur upd s i q) R (W ++ [(i, q)]) C := by
  have h1 := h.lower; have h2 := h.upper; have h3 := h.rdy
  simp only [List.map_cons, cnt_cons_ind] at h1 h2 h3
  have hcq : countedAt (revK k cur upd) q = false := by simp [countedAt, hc]
  have hlq : ind (liveAt (revK k cur upd) q) ≤ ind (q.rev == revK k cur upd) := by
    unfold liveAt; cases q.terminating <;> simp [ind_nonneg, ind_false]
  rw [hcq] at h1
  rw [hfs] at h3
  simp only [hfs, Bool.false_and, ind_false] at h1 h2 h3
  refine ⟨?_, ?_, ?_, ?_⟩
  · rw [ctr_stepCreate]
    simp only [List.map_append, List.map_cons, List.map_nil, cnt_append, cnt_cons_ind, cnt_nil]
    omega
  · rw [ctr_stepCreate, replicas_stepCreate]
    have := ind_le_one (q.rev == revK k cur upd)
    omega
  · rw [replicas_stepCreate, ready_stepCreate]; omega
  · rw [ready_stepCreate]; exact h.rdy0

theorem invB_hC (k : Bool) (cur upd : String) (s : St) (i : Int) (q : Pod) (R W : List (Int × Pod)) (C : List Pod)
    (h : InvB k cur upd s ((i, q) :: R) W C) (hfs : q.fs = false) (hc : q.created = true) :
    InvB k cur upd s R (W ++ [(i, q)]) C := by
  have h1 := h.lower; have h2 := h.upper; have h3 := h.rdy
  simp only [List.map_cons, cnt_cons_ind] at h1 h2 h3
  have hcq : countedAt (revK k cur upd) q = liveAt (revK k cur upd) q := by
    simp [countedAt, liveAt, hc]
  rw [hcq] at h1
  rw [hfs] at h3
  simp only [hfs, Bool.false_and, ind_false] at h1 h2 h3
  refine ⟨?_, ?_, ?_, h.rdy0⟩
  · simp only [List.map_append, List.map_cons, List.map_nil, cnt_append, cnt_cons_ind, cnt_nil]
    omega
  · omega
  · omega

theorem invB_hU (k : Bool) (cur upd : String) (s : St) (a : List Action) (R W : List (Int × Pod)) (C : List Pod)
    (h : InvB k cur upd s R W C) : InvB k cur upd { s with acts := a } R W C :=
  ⟨h.lower, h.upper, h.rdy, h.rdy0⟩

theorem invB_hskip (k : Bool) (cur upd : String) (s : St) (c : Pod) (C : List Pod) (W : List (Int × Pod))
    (h : InvB k cur upd s [] W (c :: C)) : InvB k cur upd s [] W C := by
  have h1 := h.lower
  simp only [cnt_cons_ind] at h1
  have := ind_nonneg (liveAt (revK k cur upd) c)
  exact ⟨by omega, h.upper, h.rdy, h.rdy0⟩

theorem invB_hdel (k : Bool) (cur upd : String) (s : St) (c : Pod) (C : List Pod) (W : List (Int × Pod)) (a : List Action)
    (h : InvB k cur upd s [] W (c :: C)) (ht : c.terminating = false) :
    InvB k cur upd { acts := a, status := bump s.status cur upd c.rev (-1) } [] W C := by
  have h1 := h.lower; have h2 := h.upper; have h3 := h.rdy
  simp only [cnt_cons_ind] at h1
  have hl : liveAt (revK k cur upd) c = (c.rev == revK k cur upd) := by simp [liveAt, ht]
  rw [hl] at h1
  refine ⟨?_, ?_, ?_, ?_⟩
  · simp only [ctr_bump]
    cases hb : (c.rev == revK k cur upd) <;> simp only [hb, ind_true, ind_false, Bool.false_eq_true, if_false, if_true] at h1 ⊢ <;> omega
  · simp only [ctr_bump, bump_replicas]
    cases hb : (c.rev == revK k cur upd) <;> simp only [Bool.false_eq_true, if_false, if_true] <;> omega
  · simpa using h3
  · simpa using h.rdy0

theorem invB_hwalk (k : Bool) (cur upd : String) (s : St) (W : List (Int × Pod)) (t : Int) (q : Pod) (a : List Action)
    (h : InvB k cur upd s [] W []) (hm : (t, q) ∈ W) (hne : (q.rev != upd) = true) (ht : q.terminating = false) :
    BndK k ({ acts := a, status := if q.rev == cur then { s.status with current := s.status.current - 1 } else s.status } : St).status := by
  have hb := h.bnd
  have h1 := h.lower
  simp only [List.map_nil, cnt_nil] at h1
  unfold BndK at hb ⊢
  have hne' : (q.rev == upd) = false := by simpa using hne
  cases k with
  | false =>
    -- `updated` is untouched
    have : ∀ st : Status, ctr false (if q.rev == cur then { st with current := st.current - 1 } else st) = ctr false st := by
      intro st; split_ifs <;> rfl
    simp only [this]
    have h2 : ∀ st : Status, (if q.rev == cur then { st with current := st.current - 1 } else st).replicas = st.replicas := by
      intro st; split_ifs <;> rfl
    have h3 : ∀ st : Status, (if q.rev == cur then { st with current := st.current - 1 } else st).ready = st.ready := by
      intro st; split_ifs <;> rfl
    simp only [h2, h3]; exact hb
  | true =>
    by_cases hc : (q.rev == cur) = true
    · simp only [hc, if_true]
      have hl : liveAt (revK true cur upd) q = true := by simp [liveAt, revK, ht, hc]
      have hq : q ∈ W.map (·.2) := List.mem_map.2 ⟨(t, q), hm, rfl⟩
      have := cnt_pos_of_mem hq hl
      simp only [ctr, if_true] at hb h1 ⊢
      omega
    · simp only [hc, Bool.false_eq_true, if_false]; exact hb

/-- every status `runLoops` returns with `.ok` is within bounds, provided the invariant holds initially -/
theorem runLoops_bnd (k : Bool) (v : SetView) (cur upd : String) (f : Faults) (p : Prepared)
    (hinit : InvB k cur upd { status := p.st0 } p.reps [] p.condemned.reverse) :
    ∀ s, runLoops v cur upd f p = (s, .ok) → BndK k s.status := by
  apply runLoops_induct' v cur upd f p (InvB k cur upd) (fun s => BndK k s.status)
  · intro s R W C h; exact h.bnd
  · intro s i q R W C h hfs; exact invB_hA k v cur upd s i q R W C h hfs
  · intro s i q R W C h hfs hc; exact invB_hB k cur upd s i q R W C h hfs hc
  · intro s i q R W C h hfs hc; exact invB_hC k cur upd s i q R W C h hfs hc
  · intro s i R W C h; exact invB_hU k cur upd s _ R W C h
  · intro s c C W h; exact invB_hskip k cur upd s c C W h
  · intro s c C W h ht _; exact invB_hdel k cur upd s c C W _ h ht
  · intro s W t q h hm hne ht _; exact invB_hwalk k cur upd s W t q _ h hm hne ht
  · exact hinit

/-! ### the invariant holds initially -/

theorem census_ctr (k : Bool) (cur upd : String) (pods : List Pod) :
    ctr k (census cur upd pods) = cnt (countedAt (revK k cur upd)) pods := by
  cases k <;> simp only [ctr, revK, census, cnt_eq_filter_length, if_true, Bool.false_eq_true, if_false] <;> rfl

theorem census_ready (cur upd : String) (pods : List Pod) :
    (census cur upd pods).ready = cnt Pod.runningAndReady pods := by
  simp [census, cnt_eq_filter_length]

theorem cnt_compl (q : Pod → Bool) (l : List Pod) : cnt (fun p => !q p) l = l.length - cnt q l := by
  induction l with
  | nil => simp
  | cons p ps ih =>
    rw [cnt_cons, cnt_cons, ih]
    cases q p <;> simp <;> omega

theorem invB_init (k : Bool) (v : SetView) (cur upd : String) (pods : List Pod) (b : Int) (E : List Int)
    (hcr : ∀ p ∈ pods, p.created = true) :
    InvB k cur upd { status := st0Of v cur upd pods } (repsOf v cur upd b E pods) [] (condemnedOf b E pods).reverse := by
  have hctr : ctr k (st0Of v cur upd pods) = cnt (countedAt (revK k cur upd)) pods := by
    rw [← census_ctr]; cases k <;> rfl
  have hrep : (st0Of v cur upd pods).replicas = pods.length := by simp [st0Of, census]
  have hrdy : (st0Of v cur upd pods).ready = cnt Pod.runningAndReady pods := by
    rw [← census_ready cur upd]; rfl
  refine ⟨?_, ?_, ?_, ?_⟩
  · -- lower
    simp only [List.map_nil, cnt_nil, hctr]
    have h := count_split v cur upd b E pods (countedAt (revK k cur upd))
      (by intro p hp; simp only [countedAt, Bool.and_eq_true] at hp; exact hp.1.1)
    have hc : cnt (liveAt (revK k cur upd)) (condemnedOf b E pods).reverse
        = cnt (countedAt (revK k cur upd)) (condemnedOf b E pods) := by
      rw [cnt_perm (List.reverse_perm _)]
      unfold cnt
      congr 1
      apply List.countP_congr
      intro c hc
      have := hcr c (mem_condemnedOf.1 hc).1
      simp [liveAt, countedAt, this]
    rw [hc]; omega
  · -- upper
    simp only [hctr, hrep]
    have h := count_split v cur upd b E pods (fun p => p.fs && !liveAt (revK k cur upd) p)
      (by intro p hp; simp only [Bool.and_eq_true] at hp; exact fs_created hp.1)
    have h2 : cnt (fun p => p.fs && !liveAt (revK k cur upd) p) pods ≤ cnt (fun p => !countedAt (revK k cur upd) p) pods := by
      apply cnt_mono
      intro p _ hp
      simp only [Bool.and_eq_true, Bool.not_eq_true', liveAt, Bool.and_eq_false_iff] at hp
      simp only [countedAt, Bool.not_eq_true', Bool.and_eq_false_iff]
      rcases hp.2 with h | h
      · exact Or.inl (Or.inr h)
      · exact Or.inr h
    rw [cnt_compl] at h2
    have := cnt_nonneg (fun p => p.fs && !liveAt (revK k cur upd) p) (condemnedOf b E pods)
    omega
  · -- ready
    simp only [hrdy, hrep]
    have h := count_split v cur upd b E pods Pod.fs (fun p hp => fs_created hp)
    have h2 : cnt Pod.fs pods ≤ cnt (fun p => !p.runningAndReady) pods := by
      apply cnt_mono
      intro p _ hp
      simp [fs_not_rr hp]
    rw [cnt_compl] at h2
    have := cnt_nonneg Pod.fs (condemnedOf b E pods)
    omega
  · rw [hrdy]; exact cnt_nonneg _ _

/-- bounds of a status, as a `Prop` -/
def Bounded (st : Status) : Prop :=
  0 ≤ st.ready ∧ st.ready ≤ st.replicas ∧ 0 ≤ st.current ∧ st.current ≤ st.replicas ∧
  0 ≤ st.updated ∧ st.updated ≤ st.replicas

theorem C12bounds_iff (st : Status) : C12bounds st = true ↔ Bounded st := by
  simp [C12bounds, Bounded, and_assoc]

theorem census_bounded (cur upd : String) (pods : List Pod) (g : Int) (a b : String) :
    Bounded { census cur upd pods with observedGen := g, currentRev := a, updateRev := b } := by
  simp only [Bounded, census]
  have h1 := List.length_filter_le Pod.runningAndReady pods
  have h2 := List.length_filter_le (fun p => p.created && !p.terminating && p.rev == cur) pods
  have h3 := List.length_filter_le (fun p => p.created && !p.terminating && p.rev == upd) pods
  refine ⟨?_, ?_, ?_, ?_, ?_, ?_⟩ <;> omega

/-- C12 bounds for the status returned by the reconcile -/
theorem updateStatefulSet_bounded (v : SetView) (cur upd : String) (pods : List Pod) (f : Faults)
    (hcr : ∀ p ∈ pods, p.created = true) (s : St)
    (h : updateStatefulSet v cur upd pods f = (s, .ok)) : Bounded s.status := by
  obtain ⟨p, hp, hcase⟩ := updateStatefulSet_ok h
  obtain ⟨r, hr⟩ := prepare_replicas hp
  obtain ⟨_, hreps, hcond, _, hst0⟩ := prepare_ok hr hp
  rcases hcase with ⟨_, rfl⟩ | ⟨_, hrun⟩
  · simp only [hst0]; exact census_bounded ..
  · have hinit : ∀ k, InvB k cur upd { status := p.st0 } p.reps [] p.condemned.reverse := by
      intro k; rw [hst0, hreps, hcond]; exact invB_init k v cur upd pods _ _ hcr
    have ht := runLoops_bnd true v cur upd f p (hinit true) s hrun
    have hf := runLoops_bnd false v cur upd f p (hinit false) s hrun
    simp only [BndK, ctr, if_true, Bool.false_eq_true, if_false] at ht hf
    exact ⟨ht.2.2.1, ht.2.2.2, ht.1, ht.2.1, hf.1, hf.2.1⟩

theorem completeRollingUpdate_bounded (v : SetView) (st : Status) (h : Bounded st) :
    Bounded (completeRollingUpdate v st) := by
  unfold completeRollingUpdate
  split_ifs
  · obtain ⟨h1, h2, h3, h4, h5, h6⟩ := h
    exact ⟨h1, h2, h5, h6, h5, h6⟩
  · exact h

end Asts.L1c
