import Mathlib.Tactic
import Asts.Proofs.WE_Inv

/-! # WE — whatever `pickF` returns is the newest revision of the store it leaves (all revisions visible, labels never
    numeric) -/
namespace Asts.WE
open Asts Asts.SYb

theorem revLt_of_number {a b : Rev} (hlt : a.number < b.number) : revLt a b = true := (revLt_iff a b).mpr (Or.inl hlt)

theorem top_pick {h : Hashing} (hnum : ∀ d c, h.hashNumOf d c = none) (plan : List Fault) (t : String) (cc0 : Int)
    (A : List Rev) (hn : (A.map (·.name)).Nodup) (hv : AllVis A) (s : RevSt) (hs : s.store = A) {upd : Rev} {cc : Int}
    {sG : RevSt} (hp : pickF h plan t cc0 (sortRevs (listRevisions A)) s = (sG, some (upd, cc))) :
    Top sG.store upd := by
  have hsorted : SortedRevs (sortRevs (listRevisions A)) := sortRevs_sorted _
  have hmemL : ∀ {r : Rev}, r ∈ sortRevs (listRevisions A) ↔ r ∈ A := listing_mem hn hv
  have hnext : ∀ r ∈ A, r.number < (freshOf h t cc0 (sortRevs (listRevisions A))).number := by
    intro r hr
    exact nextRevision_gt hsorted r (hmemL.mpr hr)
  -- a stored revision that records the template is among the equal ones
  have heqmem : ∀ r ∈ A, r.data = t → r ∈ equalsOf h t cc0 (sortRevs (listRevisions A)) := by
    intro r hr hd
    unfold equalsOf
    rw [List.mem_filter]
    refine ⟨hmemL.mpr hr, ?_⟩
    rw [equalRev_fresh_of_hnum hnum, hd]; simp
  unfold pickF at hp
  cases he : (equalsOf h t cc0 (sortRevs (listRevisions A))).getLast? with
  | none =>
    rw [he] at hp
    simp only at hp
    have hnil : equalsOf h t cc0 (sortRevs (listRevisions A)) = [] := List.getLast?_eq_none_iff.mp he
    obtain ⟨_, hst, hret, _⟩ := createRevLoopF_spec h plan (freshOf h t cc0 (sortRevs (listRevisions A))) (s.store.length + 8) cc0 s
    simp only [hp] at hst hret
    obtain ⟨hu1, hu2, _, _, hu5⟩ := hret upd cc rfl
    have hdata : upd.data = t := hu2
    have hnotA : upd ∉ A := by
      intro hA
      have := heqmem upd hA hdata
      rw [hnil] at this; simp at this
    rcases hst with hst | ⟨cc', _, hres, _, hst⟩
    · rw [hst, hs] at hu1; exact absurd hu1 hnotA
    · simp only [Option.some.injEq, Prod.mk.injEq] at hres
      have hupd : upd = candidate h (freshOf h t cc0 (sortRevs (listRevisions A))) cc' := hres.1
      rw [hst, hs]
      refine ⟨by rw [hupd]; exact mem_insertByName.mpr (Or.inl rfl), ?_⟩
      intro r hr
      rcases mem_insertByName.mp hr with h1 | h1
      · exact Or.inl (by rw [h1, hupd])
      · right
        apply revLt_of_number
        rw [hupd]
        exact hnext r h1
  | some e =>
    have hem := mem_equalsOf (List.mem_of_getLast? he)
    have heA : e ∈ A := hmemL.mp hem.1
    cases hl : (sortRevs (listRevisions A)).getLast? with
    | none =>
      rw [List.getLast?_eq_none_iff] at hl
      rw [hl] at hem; simp at hem
    | some l =>
      rw [he, hl] at hp
      simp only at hp
      split_ifs at hp with c1 c2 c3
      · -- the newest revision is used as it is
        simp only [Prod.mk.injEq, Option.some.injEq] at hp
        obtain ⟨h1, h2, _⟩ := hp
        rw [← h1, ← h2, hs]
        exact top_of_last hn hv hl
      · -- the equal revision already carries the next number: impossible
        have := hnext e heA
        simp only [beq_iff_eq] at c2
        omega
      · -- renumbered
        simp only [Prod.mk.injEq, Option.some.injEq] at hp
        obtain ⟨h1, h2, _⟩ := hp
        have hst := (renumberF_spec plan e.name (freshOf h t cc0 (sortRevs (listRevisions A))).number 4 s).2.1
        rw [c3] at hst
        simp only [if_true] at hst
        rw [← h1, hst, hs, ← h2]
        refine ⟨?_, ?_⟩
        · rw [← setNumber_self e]; exact List.mem_map_of_mem heA
        · intro y hy
          obtain ⟨r, hr, rfl⟩ := List.mem_map.mp hy
          by_cases hre : r.name = e.name
          · left
            have : r = e := eq_of_mem_nodup_name hn hr heA hre
            rw [this, setNumber_self]
          · right
            have hno : setNumber e.name (freshOf h t cc0 (sortRevs (listRevisions A))).number r = r := by
              unfold setNumber
              rw [if_neg (by simpa using hre)]
            rw [hno]
            apply revLt_of_number
            exact hnext r hr
      · simp at hp

end Asts.WE

namespace Asts.WE
open Asts Asts.SYb

theorem top_sublist {S T : List Rev} (hs : T.Sublist S) {l : Rev} (ht : Top S l) (hl : l ∈ T) : Top T l :=
  ⟨hl, fun r hr => ht.2 r (hs.subset hr)⟩

theorem round_stored_updateRev (h : Hashing) (w : SyncIn) (p : List Fault) :
    (round h w p).1.stored.updateRev = reportedUpd (settle w) (syncF h (settle w) p) := round_status_updateRev h w p

/-- **a successful reconcile establishes the invariant** (whatever the edits before it, whatever the fault plan) -/
theorem inv_established {h : Hashing} (hnum : ∀ d c, h.hashNumOf d c = none) (W : SyncIn) (p : List Fault)
    (hn : (W.store.map (·.name)).Nodup) (hv : AllVis W.store)
    (hrun : (W.paused || !W.selectorOk) = false) (hok : (round h W p).2.out = "ok") : Inv (round h W p).1 := by
  have hok' := (round_out_ok h W p).mp hok
  have hrun' : ((settle W).paused || !(settle W).selectorOk) = false := hrun
  refine ⟨?_, ?_, ?_⟩
  · rw [round_store]; exact sync_names_nodup h (settle W) p hn
  · rw [round_store]; exact sync_allVis h (settle W) p hv
  · rcases sync_cases h (settle W) p hrun' with ⟨h1, _⟩ | ⟨⟨R⟩⟩
    · exact absurd hok' h1
    · have hAn : ((adoptedStore p (settle W)).map (·.name)).Nodup := by
        rw [(adoptedStore_adopted p (settle W)).names]; exact hn
      have hAv : AllVis (adoptedStore p (settle W)) := allVis_adopted (adoptedStore_adopted p (settle W)) hv
      have htop := top_pick hnum p (settle W).template ((settle W).collisionCount.getD 0) (adoptedStore p (settle W)) hAn hAv
        R.sL R.hL R.hpick
      obtain ⟨hd, hmem, _⟩ := R.upd_stored
      refine ⟨R.upd, ?_, hd, ?_⟩
      · rw [round_store, R.ostore]
        apply top_sublist (truncateF_store _ _ _ _ _ _ _).1 _ (by rw [← R.ostore]; exact hmem)
        rw [R.hT]; exact htop
      · rw [round_stored_updateRev, R.orep]

/-- **a round that follows edits other than a template edit preserves the invariant** (whatever its outcome) -/
theorem inv_preserved {h : Hashing} (hnum : ∀ d c, h.hashNumOf d c = none) (W : SyncIn) (es : List Edit) (p : List Fault)
    (hes : ∀ e ∈ es, keepsTemplate e = true) (hI : Inv W) : Inv (round h (applyEdits es W) p).1 := by
  have hstat := norestart_status_step h W es p hes (inv_pinned hnum hI p)
  obtain ⟨hn, hv, l, ht, hd, hname⟩ := hI
  have hst : (applyEdits es W).store = W.store := (applyEdits_frame es W).1
  have htpl : (applyEdits es W).template = W.template := (applyEdits_sameInputs es W hes).template
  have hn' : ((settle (applyEdits es W)).store.map (·.name)).Nodup := by
    show ((applyEdits es W).store.map (·.name)).Nodup
    rw [hst]; exact hn
  have hv' : AllVis (settle (applyEdits es W)).store := by
    show AllVis (applyEdits es W).store
    rw [hst]; exact hv
  refine ⟨?_, ?_, ?_⟩
  · rw [round_store]; exact sync_names_nodup h _ p hn'
  · rw [round_store]; exact sync_allVis h _ p hv'
  · -- the revision the status names, adopted, is still the newest
    have hname' : ∀ x : Rev, core x = core l →
        x.data = (round h (applyEdits es W) p).1.template ∧ x.name = (round h (applyEdits es W) p).1.stored.updateRev := by
      intro x hc
      simp only [core, Prod.mk.injEq] at hc
      refine ⟨?_, ?_⟩
      · show x.data = (applyEdits es W).template
        rw [htpl, hc.2.2.2.1]; exact hd
      · show x.name = (round h (applyEdits es W) p).2.status.updateRev
        rw [hstat, hc.1]; exact hname
    rw [round_store]
    by_cases hrun : ((settle (applyEdits es W)).paused || !(settle (applyEdits es W)).selectorOk) = true
    · rw [syncF_eq, if_pos hrun]
      refine ⟨l, ?_, hname' l rfl⟩
      show Top (applyEdits es W).store l
      rw [hst]; exact ht
    · have hrun' : ((settle (applyEdits es W)).paused || !(settle (applyEdits es W)).selectorOk) = false := by simpa using hrun
      obtain ⟨f, hf, hA⟩ := adoptedStore_adopted p (settle (applyEdits es W))
      have hA' : adoptedStore p (settle (applyEdits es W)) = W.store.map f := by
        rw [hA]; show (applyEdits es W).store.map f = _; rw [hst]
      have hAn : ((adoptedStore p (settle (applyEdits es W))).map (·.name)).Nodup := by
        rw [(adoptedStore_adopted p (settle (applyEdits es W))).names]; exact hn'
      have hAv : AllVis (adoptedStore p (settle (applyEdits es W))) :=
        allVis_adopted (adoptedStore_adopted p (settle (applyEdits es W))) hv'
      have htopA : Top (adoptedStore p (settle (applyEdits es W))) (f l) := by rw [hA']; exact top_adopted hf ht
      have hlast : (syncListing p (settle (applyEdits es W))).getLast? = some (f l) := last_of_top hAn hAv htopA
      have hcore := (hf l).1
      have heq : equalRev (f l) (freshOf h (settle (applyEdits es W)).template ((settle (applyEdits es W)).collisionCount.getD 0)
          (syncListing p (settle (applyEdits es W)))) = true := by
        rw [equalRev_fresh_of_hnum hnum]
        have hx : (f l).data = (settle (applyEdits es W)).template := (hname' (f l) hcore).1
        rw [hx]; simp
      have hpick : ∀ s : RevSt, pickF h p (settle (applyEdits es W)).template ((settle (applyEdits es W)).collisionCount.getD 0)
          (syncListing p (settle (applyEdits es W))) s = (s, some (f l, (settle (applyEdits es W)).collisionCount.getD 0)) :=
        fun s => (pickF_unchanged h p _ _ _ s hlast heq).1
      rcases sync_cases h (settle (applyEdits es W)) p hrun' with ⟨_, _, ⟨h3, _⟩ | ⟨sL, hs, _, h3, _⟩⟩ | ⟨⟨R⟩⟩
      · obtain ⟨g, hg, hG⟩ := h3
        refine ⟨g l, ?_, hname' (g l) (hg l).1⟩
        rw [hG]; show Top ((applyEdits es W).store.map g) (g l)
        rw [hst]; exact top_adopted hg ht
      · refine ⟨f l, ?_, hname' (f l) hcore⟩
        rw [h3, hpick sL, hs]; exact htopA
      · have hp := R.hpick
        rw [hpick R.sL] at hp
        simp only [Prod.mk.injEq, Option.some.injEq] at hp
        obtain ⟨h1, h2, _⟩ := hp
        obtain ⟨_, hmem, _⟩ := R.upd_stored
        refine ⟨f l, ?_, hname' (f l) hcore⟩
        rw [R.ostore]
        apply top_sublist (truncateF_store _ _ _ _ _ _ _).1 _ (by rw [← R.ostore, h2]; exact hmem)
        rw [R.hT, ← h1, R.hL]; exact htopA

end Asts.WE
