import Asts.Proofs.C02_BAdopt

/-! C02, normalising rounds: the claim stage of the sync under the empty fault plan when every pod object is a member the
    set owns or may adopt; and what `applyPatches` then does with the log: every orphan ends up owned. -/
namespace Asts.C02p
open Asts

/-! ### canonical names contain no colon -/

theorem canon_eq (s : String) (o : Int) : canonicalName s o = s ++ "-" ++ toString o := rfl

theorem colon_not_digit (c : Char) (h : c.isDigit = true) : (c == ':') = false := by
  cases hc : (c == ':')
  · rfl
  · have : c = ':' := by simpa using hc
    rw [this] at h
    exact absurd h (by decide)

theorem canon_noColon (s : String) (o : Int) (ho : 0 ≤ o) (hs : ∀ c ∈ s.toList, (c == ':') = false) :
    ∀ c ∈ (canonicalName s o).toList, (c == ':') = false := by
  obtain ⟨n, rfl⟩ := Int.eq_ofNat_of_zero_le ho
  rw [canon_eq]
  intro c hc
  rw [String.toList_append, String.toList_append, List.mem_append, List.mem_append] at hc
  rcases hc with (hc | hc) | hc
  · exact hs c hc
  · have : ("-" : String).toList = ['-'] := by decide
    rw [this, List.mem_singleton] at hc
    rw [hc]; decide
  · have : toString ((n : Nat) : Int) = String.ofList (Nat.toDigits 10 n) := rfl
    rw [this, String.toList_ofList] at hc
    exact colon_not_digit c (Nat.isDigit_of_mem_toDigits (by decide) (by decide) hc)

theorem splitOn_patch_pod (n : String) (hn : ∀ c ∈ n.toList, (c == ':') = false) :
    (s!"patch:pod:{n}").splitOn ":" = ["patch", "pod", n] := by
  have : s!"patch:pod:{n}" = "patch" ++ ":" ++ ("pod" ++ ":" ++ n) := by
    show "patch:pod:" ++ n = _
    have e0 : ("patch:pod:" : String) = "patch" ++ ":" ++ ("pod" ++ ":") := by decide
    rw [e0, String.append_assoc, String.append_assoc, String.append_assoc]
  rw [this, splitOn_prefix _ _ (by decide), splitOn_prefix _ _ (by decide), splitOn_noColon n hn]

/-! ### the claim stage -/

/-- the step function of `claimPodsF` -/
def claimStep (plan : List Fault) (setDeleting : Bool) (fresh : Fresh) (o : ClaimOutF) (c : CPod) : ClaimOutF :=
    match claimDecision setDeleting c with
    | .keep => { o with claimed := o.claimed ++ [c] }
    | .ignore => o
    | .release =>
      let (t, e) := o.tr.call plan s!"patch:pod:{c.name}"
      let o := { o with tr := t }
      match e with
      | some .notFound | some .invalid | none => o
      | some _ => { o with failed := true }
    | .adopt =>
      let (o, can) := match o.canAdopt with
        | some b => (o, b)
        | none =>
          let (t, e) := o.tr.call plan "get:set"
          let b := e.isNone && !fresh.gone && fresh.uidOk && !fresh.deleting
          ({ o with tr := t, canAdopt := some b }, b)
      if !can then { o with failed := true }
      else
        let (t, e) := o.tr.call plan s!"patch:pod:{c.name}"
        let o := { o with tr := t }
        match e with
        | none => { o with claimed := o.claimed ++ [c] }
        | some .notFound => o
        | some _ => { o with failed := true }

theorem claimPodsF_eq_foldl (plan : List Fault) (d : Bool) (fresh : Fresh) (pods : List CPod) (tr : Tr) :
    claimPodsF plan d fresh pods tr = pods.foldl (claimStep plan d fresh) { tr := tr } := rfl

/-- the calls of the claim stage: one uncached GET before the first adoption, one patch per orphan -/
def claimLog : Bool → List CPod → List String
  | _, [] => []
  | m, c :: rest =>
    if c.owner == .self then claimLog m rest
    else (if m then [] else ["get:set"]) ++ [s!"patch:pod:{c.name}"] ++ claimLog true rest

/-- a pod the set keeps or adopts -/
def Claimable (c : CPod) : Prop :=
  (c.owner = .self ∨ c.owner = .none) ∧ c.selMatch = true ∧ c.member = true ∧ c.pod.terminating = false

theorem claim_fold (fresh : Fresh) (hg : fresh.gone = false) (hu : fresh.uidOk = true) (hd : fresh.deleting = false)
    (pods : List CPod) (hp : ∀ c ∈ pods, Claimable c) :
    ∀ o : ClaimOutF, o.failed = false → (o.canAdopt = none ∨ o.canAdopt = some true) →
      ∃ m, pods.foldl (claimStep [] false fresh) o =
        { claimed := o.claimed ++ pods, failed := false, canAdopt := m,
          tr := { log := o.tr.log ++ claimLog o.canAdopt.isSome pods } } := by
  induction pods with
  | nil =>
    intro o hf _
    refine ⟨o.canAdopt, ?_⟩
    simp only [List.foldl_nil, claimLog, List.append_nil]
    cases o; simp_all
  | cons c rest ih =>
    intro o hf hm
    obtain ⟨hown, hsel, hmem, hterm⟩ := hp c List.mem_cons_self
    have hrest := fun c hc => hp c (List.mem_cons_of_mem _ hc)
    rw [List.foldl_cons]
    rcases hown with hs | hn
    · have hdec : claimDecision false c = .keep := by simp [claimDecision, hs, hsel, hmem]
      have hstep : claimStep [] false fresh o c = { o with claimed := o.claimed ++ [c] } := by
        simp [claimStep, hdec]
      rw [hstep]
      obtain ⟨m, hm'⟩ := ih hrest { o with claimed := o.claimed ++ [c] } hf hm
      refine ⟨m, ?_⟩
      rw [hm']
      simp [claimLog, hs]
    · have hdec : claimDecision false c = .adopt := by simp [claimDecision, hn, hsel, hmem, hterm]
      have hno : (c.owner == Owner.self) = false := by rw [hn]; rfl
      rcases hm with hm | hm
      · have hstep : claimStep [] false fresh o c =
            { o with claimed := o.claimed ++ [c], canAdopt := some true,
                     tr := { log := o.tr.log ++ ["get:set"] ++ [s!"patch:pod:{c.name}"] } } := by
          simp [claimStep, hdec, hm, call_nil, hg, hu, hd]
        rw [hstep]
        obtain ⟨m, hm'⟩ := ih hrest ⟨o.claimed ++ [c], o.failed, some true, ⟨o.tr.log ++ ["get:set"] ++ [s!"patch:pod:{c.name}"]⟩⟩ hf (Or.inr rfl)
        refine ⟨m, ?_⟩
        rw [hm']
        simp [claimLog, hno, hm]
      · have hstep : claimStep [] false fresh o c =
            { o with claimed := o.claimed ++ [c],
                     tr := { log := o.tr.log ++ [s!"patch:pod:{c.name}"] } } := by
          simp [claimStep, hdec, hm, call_nil]
        rw [hstep]
        obtain ⟨m, hm'⟩ := ih hrest ⟨o.claimed ++ [c], o.failed, o.canAdopt, ⟨o.tr.log ++ [s!"patch:pod:{c.name}"]⟩⟩ hf (Or.inr hm)
        refine ⟨m, ?_⟩
        rw [hm']
        simp [claimLog, hno, hm]

/-- **the claim stage under the empty fault plan**: every pod is claimed -/
theorem claim_nil (fresh : Fresh) (hg : fresh.gone = false) (hu : fresh.uidOk = true) (hd : fresh.deleting = false)
    (pods : List CPod) (hp : ∀ c ∈ pods, Claimable c) (l0 : List String) :
    ∃ m, claimPodsF [] false fresh pods { log := l0 } =
      { claimed := pods, failed := false, canAdopt := m, tr := { log := l0 ++ claimLog false pods } } := by
  rw [claimPodsF_eq_foldl]
  obtain ⟨m, hm⟩ := claim_fold fresh hg hu hd pods hp { tr := { log := l0 } } rfl (Or.inl rfl)
  exact ⟨m, by rw [hm]; simp⟩

/-! ### `applyPatches` under the empty plan is a fold over the log -/

def flipOwner (c : CPod) : CPod :=
  match c.owner with
  | .none => { c with owner := .self }
  | .self => { c with owner := .none }
  | .other => c

def patchStep (pods : List CPod) (e : String) : List CPod :=
  match e.splitOn ":" with
  | ["patch", "pod", n] => setPod pods (fun c => c.name == n) flipOwner
  | _ => pods

theorem applyPatches_go_nil (seen log : List String) (pods : List CPod) :
    applyPatches.go [] seen log pods = log.foldl patchStep pods := by
  induction log generalizing seen pods with
  | nil => rfl
  | cons e rest ih =>
    unfold applyPatches.go
    rw [ih, List.foldl_cons]
    congr 1

theorem applyPatches_nil (log : List String) (pods : List CPod) : applyPatches [] log pods = log.foldl patchStep pods :=
  applyPatches_go_nil [] log pods

theorem patchStep_noPatch {e : String} (he : NoPatch e) (pods : List CPod) : patchStep pods e = pods := by
  unfold patchStep
  split
  · rename_i n heq; exact absurd heq (he n)
  · rfl

theorem foldl_patch_noPatch (lg : List String) (hlg : ∀ e ∈ lg, NoPatch e) (pods : List CPod) :
    lg.foldl patchStep pods = pods := by
  induction lg generalizing pods with
  | nil => rfl
  | cons e rest ih =>
    rw [List.foldl_cons, patchStep_noPatch (hlg e List.mem_cons_self)]
    exact ih (fun e he => hlg e (List.mem_cons_of_mem _ he)) pods

theorem patchStep_patch (n : String) (hn : ∀ c ∈ n.toList, (c == ':') = false) (pods : List CPod) :
    patchStep pods s!"patch:pod:{n}" = setPod pods (fun c => c.name == n) flipOwner := by
  unfold patchStep
  rw [splitOn_patch_pod n hn]
  rfl

/-- flipping the owners of the pods whose names are in `N` -/
def flipAll (N : List String) (c : CPod) : CPod := if N.contains c.name then flipOwner c else c

theorem flipOwner_name (c : CPod) : (flipOwner c).name = c.name := by
  unfold flipOwner; split <;> rfl

theorem foldl_claimLog (Q : List CPod) (hQn : ((Q.filter (fun c => c.owner != .self)).map (·.name)).Nodup)
    (hcol : ∀ c ∈ Q, ∀ ch ∈ c.name.toList, (ch == ':') = false) :
    ∀ (m : Bool) (P : List CPod),
      (claimLog m Q).foldl patchStep P = P.map (flipAll ((Q.filter (fun c => c.owner != .self)).map (·.name))) := by
  induction Q with
  | nil =>
    intro m P
    have : flipAll [] = id := by funext c; simp [flipAll]
    simp [claimLog, this]
  | cons c rest ih =>
    intro m P
    have hcol' := fun c hc => hcol c (List.mem_cons_of_mem _ hc)
    by_cases hs : c.owner = .self
    · have h1 : (c.owner == Owner.self) = true := by simpa using hs
      have h2 : (c.owner != Owner.self) = false := by simpa using hs
      have hfc : (c :: rest).filter (fun c => c.owner != .self) = rest.filter (fun c => c.owner != .self) := by
        rw [List.filter_cons]; simp [h2]
      rw [hfc] at hQn ⊢
      simp only [claimLog, h1, if_true]
      rw [ih hQn hcol']
    · have h1 : (c.owner == Owner.self) = false := by simpa using hs
      have h2 : (c.owner != Owner.self) = true := by simpa using hs
      have hfc : (c :: rest).filter (fun c => c.owner != .self) = c :: rest.filter (fun c => c.owner != .self) := by
        rw [List.filter_cons]; simp [h2]
      rw [hfc, List.map_cons] at hQn ⊢
      rw [List.nodup_cons] at hQn
      simp only [claimLog, h1, Bool.false_eq_true, if_false, List.foldl_append]
      have hget : (if m = true then ([] : List String) else ["get:set"]).foldl patchStep P = P := by
        split_ifs
        · rfl
        · simp [patchStep_noPatch noPatch_get_set]
      rw [hget, List.foldl_cons, List.foldl_nil, patchStep_patch c.name (hcol c List.mem_cons_self), ih hQn.2 hcol']
      unfold setPod
      rw [List.map_map]
      apply List.map_congr_left
      intro x _
      show flipAll _ (if (x.name == c.name) = true then flipOwner x else x) = flipAll _ x
      by_cases hx : x.name = c.name
      · have hx' : (x.name == c.name) = true := by simpa using hx
        rw [if_pos hx']
        have hnot : ((rest.filter (fun c => c.owner != .self)).map (·.name)).contains x.name = false := by
          rw [hx]
          cases hcon : ((rest.filter (fun c => c.owner != .self)).map (·.name)).contains c.name
          · rfl
          · exact absurd (List.contains_iff_mem.1 hcon) hQn.1
        unfold flipAll
        rw [flipOwner_name, hnot, List.contains_cons, hx']
        simp
      · have hx' : (x.name == c.name) = false := by simpa using hx
        rw [if_neg (by simp [hx'])]
        unfold flipAll
        rw [List.contains_cons, hx', Bool.false_or]

/-- **the patches of the claim stage make every orphan the set's own** -/
theorem claimLog_owns (pods : List CPod) (hn : (pods.map (·.name)).Nodup)
    (hown : ∀ c ∈ pods, c.owner = .self ∨ c.owner = .none)
    (hcol : ∀ c ∈ pods, ∀ ch ∈ c.name.toList, (ch == ':') = false) :
    (claimLog false pods).foldl patchStep pods = pods.map (fun c => { c with owner := .self }) := by
  have hQn : ((pods.filter (fun c => c.owner != .self)).map (·.name)).Nodup :=
    (List.Sublist.map _ List.filter_sublist).nodup hn
  rw [foldl_claimLog pods hQn hcol]
  apply List.map_congr_left
  intro c hc
  unfold flipAll
  rcases hown c hc with hs | hno
  · have : ((pods.filter (fun c => c.owner != .self)).map (·.name)).contains c.name = false := by
      cases hcon : ((pods.filter (fun c => c.owner != .self)).map (·.name)).contains c.name
      · rfl
      · rw [List.contains_iff_mem, List.mem_map] at hcon
        obtain ⟨c', hc', hce⟩ := hcon
        rw [List.mem_filter] at hc'
        have : c' = c := List.inj_on_of_nodup_map hn hc'.1 hc hce
        rw [this, hs] at hc'
        simp at hc'
    rw [this]
    simp only [Bool.false_eq_true, if_false]
    cases c; simp_all
  · have : ((pods.filter (fun c => c.owner != .self)).map (·.name)).contains c.name = true := by
      rw [List.contains_iff_mem, List.mem_map]
      exact ⟨c, List.mem_filter.2 ⟨hc, by simp [hno]⟩, rfl⟩
    rw [this]
    simp only [if_true]
    unfold flipOwner
    rw [hno]

end Asts.C02p
