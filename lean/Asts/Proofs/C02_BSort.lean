import Asts.Proofs.SY_b_GetRevs
import Asts.Proofs.C02_Store

/-! C02, normalising rounds: the sorted listing of a store with distinct names is determined by its members. -/
namespace Asts.C02p
open Asts

/-- visible to `ListRevisions` -/
def Vis (r : Rev) : Prop := (r.selMatch = true ∨ r.marker = true) ∧ r.owner ≠ .other

theorem vis_iff_visB (r : Rev) : Vis r ↔ visB r = true := by
  unfold Vis visB
  simp only [Bool.and_eq_true, bne_iff_ne, ne_eq, Bool.or_eq_true]
  tauto

/-- two sorted lists with the same members and distinct names are equal -/
theorem sorted_unique {l1 l2 : List Rev} (h1 : SYb.SortedRevs l1) (h2 : SYb.SortedRevs l2)
    (hn : (l1.map (·.name)).Nodup) (hp : l1.Perm l2) : l1 = l2 := by
  have hn2 : (l2.map (·.name)).Nodup := (hp.map _).nodup_iff.1 hn
  have s1 := SYb.sorted_strict h1 hn
  have s2 := SYb.sorted_strict h2 hn2
  refine List.Perm.eq_of_pairwise ?_ s1 s2 hp
  intro a b _ _ hab hba
  rw [SYb.revLt_asymm hab] at hba
  cases hba

/-- the sorted listing is the sorted list `X` as soon as `X` has the right members -/
theorem listing_eq_of_mem {S X : List Rev} (hn : (S.map (·.name)).Nodup) (hX : SYb.SortedRevs X)
    (hXn : (X.map (·.name)).Nodup) (hmem : ∀ r, r ∈ X ↔ r ∈ S ∧ Vis r) : sortRevs (listRevisions S) = X := by
  apply sorted_unique (SYb.sortRevs_sorted _) hX (SYb.sorted_listing_names_nodup S)
  rw [List.perm_ext_iff_of_nodup (List.Nodup.of_map _ (SYb.sorted_listing_names_nodup S)) (List.Nodup.of_map _ hXn)]
  intro r
  rw [SYb.mem_sortRevs, SYb.mem_listRevisions_iff hn, hmem]
  rfl

theorem mem_listing {S : List Rev} (hn : (S.map (·.name)).Nodup) {r : Rev} :
    r ∈ sortRevs (listRevisions S) ↔ r ∈ S ∧ Vis r := by
  rw [SYb.mem_sortRevs, SYb.mem_listRevisions_iff hn]; rfl

/-- appending a revision whose number is above all the others keeps a list sorted -/
theorem sorted_snoc {l : List Rev} (hl : SYb.SortedRevs l) {x : Rev} (hx : ∀ r ∈ l, r.number < x.number) :
    SYb.SortedRevs (l ++ [x]) := by
  unfold SYb.SortedRevs at *
  rw [List.pairwise_append]
  refine ⟨hl, List.pairwise_singleton _ _, ?_⟩
  intro a ha b hb
  rw [List.mem_singleton] at hb
  subst hb
  have := hx a ha
  cases hlt : revLt b a
  · rfl
  · rw [SYb.revLt_iff] at hlt
    omega

theorem sorted_filter {l : List Rev} (hl : SYb.SortedRevs l) (p : Rev → Bool) : SYb.SortedRevs (l.filter p) :=
  List.Pairwise.sublist List.filter_sublist hl

/-- looking a name up in a list with distinct names -/
theorem find_name_some {l : List Rev} (hn : (l.map (·.name)).Nodup) {r : Rev} (hr : r ∈ l) :
    l.find? (·.name == r.name) = some r := by
  induction l with
  | nil => cases hr
  | cons a t ih =>
    rw [List.map_cons, List.nodup_cons] at hn
    rcases List.mem_cons.1 hr with rfl | hr'
    · simp
    · have hne : a.name ≠ r.name := fun e => hn.1 (e ▸ List.mem_map_of_mem hr')
      rw [List.find?_cons_of_neg (by simpa using hne)]
      exact ih hn.2 hr'

theorem find_name_none {l : List Rev} {n : String} (h : ∀ r ∈ l, r.name ≠ n) : l.find? (·.name == n) = none := by
  rw [List.find?_eq_none]
  intro r hr
  simpa using h r hr

/-- the name of what a lookup with default finds depends on the names in the list only -/
theorem find_getD_name {l : List Rev} (n : String) (d : Rev) :
    ((l.find? (·.name == n)).getD d).name = if n ∈ l.map (·.name) then n else d.name := by
  cases hf : l.find? (·.name == n) with
  | none =>
    rw [List.find?_eq_none] at hf
    have : n ∉ l.map (·.name) := by
      intro hm
      rw [List.mem_map] at hm
      obtain ⟨r, hr, rfl⟩ := hm
      exact absurd (hf r hr) (by simp)
    simp [this]
  | some r =>
    have h1 := List.find?_some hf
    have h2 := List.mem_of_find?_eq_some hf
    have : n ∈ l.map (·.name) := List.mem_map.2 ⟨r, h2, by simpa using h1⟩
    simp only [Option.getD_some, this, if_true]
    simpa using h1

end Asts.C02p
