import Asts.Proofs.C02_Walk

/-! C02: `applyActs` pod by pod: what a list of pod-control calls does to an object that is already there (`eff`) and which
    new objects it leaves (`news`). -/
namespace Asts.C02p
open Asts Asts.L1c

/-- the object a successful create leaves in the API -/
def mkPod (setName : String) (o : Int) (rev : String) : CPod :=
  { name := canonicalName setName o, owner := .self, selMatch := true, member := true,
    pod := { id := freshId + o.toNat, ord := o, phase := .none, ready := false, terminating := false, rev := rev,
             idOk := true, stOk := true } }

def wasOrphan (setName : String) (orig : List CPod) (o : Int) : Bool :=
  (orig.find? (·.name == canonicalName setName o)).any (·.owner == .none)

def delStep (id : Nat) (c : CPod) : CPod :=
  if c.pod.id == id then { c with pod := { c.pod with terminating := true } } else c

def updStep (setName : String) (orig : List CPod) (o : Int) (c : CPod) : CPod :=
  if c.name == canonicalName setName o then
    { c with owner := (if wasOrphan setName orig o then .none else c.owner), pod := { c.pod with idOk := true } }
  else c

/-- effect of the calls on one pod object -/
def eff (setName : String) (orig : List CPod) : List Action → CPod → Option CPod
  | [], c => some c
  | .create _ _ :: rest, c => eff setName orig rest c
  | .delete _ id _ :: rest, c =>
    if c.pod.id == id && (c.pod.failed || c.pod.succeeded) then none
    else eff setName orig rest (delStep id c)
  | .update o :: rest, c => eff setName orig rest (updStep setName orig o c)

/-- the objects the creates leave -/
def news (setName : String) (orig : List CPod) : List Action → List CPod
  | [] => []
  | .create o rev :: rest => (eff setName orig rest (mkPod setName o rev)).toList ++ news setName orig rest
  | .delete _ _ _ :: rest => news setName orig rest
  | .update _ :: rest => news setName orig rest

theorem applyActs_eq (setName : String) (orig : List CPod) (acts : List Action) (pods : List CPod) :
    applyActs setName orig pods acts = pods.filterMap (eff setName orig acts) ++ news setName orig acts := by
  induction acts generalizing pods with
  | nil => simp [applyActs, eff, news]
  | cons a rest ih =>
    cases a with
    | create o rev =>
      unfold applyActs
      rw [ih]
      simp only [List.filterMap_append, eff, news, List.append_assoc]
      congr 1
    | delete o id w =>
      unfold applyActs
      rw [ih]
      simp only [news]
      congr 1
      unfold setPod
      rw [List.filterMap_map, List.filterMap_filter]
      apply List.filterMap_congr
      intro c _
      simp only [Function.comp, eff, delStep]
      by_cases h1 : (c.pod.id == id && (c.pod.failed || c.pod.succeeded)) = true
      · simp [h1]
      · simp only [h1, Bool.false_eq_true, if_false, Bool.not_false, if_true]
    | update o =>
      unfold applyActs
      rw [ih]
      simp only [news]
      congr 1
      unfold setPod
      rw [List.filterMap_map]
      apply List.filterMap_congr
      intro c _
      simp only [Function.comp, eff, updStep, wasOrphan]
      rfl

end Asts.C02p

namespace Asts.C02p
open Asts Asts.L1c

/-- what no pod-control call changes, and what it can only switch on -/
structure SameBody (c c1 : CPod) : Prop where
  name : c1.name = c.name
  sel : c1.selMatch = c.selMatch
  mem : c1.member = c.member
  id : c1.pod.id = c.pod.id
  ord : c1.pod.ord = c.pod.ord
  phase : c1.pod.phase = c.pod.phase
  ready : c1.pod.ready = c.pod.ready
  rev : c1.pod.rev = c.pod.rev
  stOk : c1.pod.stOk = c.pod.stOk
  idOk : c.pod.idOk = true → c1.pod.idOk = true
  term : c.pod.terminating = true → c1.pod.terminating = true

theorem SameBody.refl (c : CPod) : SameBody c c := ⟨rfl, rfl, rfl, rfl, rfl, rfl, rfl, rfl, rfl, fun h => h, fun h => h⟩

theorem SameBody.trans {a b c : CPod} (h1 : SameBody a b) (h2 : SameBody b c) : SameBody a c :=
  ⟨h2.name.trans h1.name, h2.sel.trans h1.sel, h2.mem.trans h1.mem, h2.id.trans h1.id, h2.ord.trans h1.ord,
   h2.phase.trans h1.phase, h2.ready.trans h1.ready, h2.rev.trans h1.rev, h2.stOk.trans h1.stOk,
   fun h => h2.idOk (h1.idOk h), fun h => h2.term (h1.term h)⟩

theorem delStep_same (id : Nat) (c : CPod) : SameBody c (delStep id c) := by
  unfold delStep; split_ifs
  · exact ⟨rfl, rfl, rfl, rfl, rfl, rfl, rfl, rfl, rfl, fun h => h, fun _ => rfl⟩
  · exact SameBody.refl c

theorem updStep_same (setName : String) (orig : List CPod) (o : Int) (c : CPod) : SameBody c (updStep setName orig o c) := by
  unfold updStep
  by_cases hc : (c.name == canonicalName setName o) = true
  · rw [if_pos hc]
    exact ⟨rfl, rfl, rfl, rfl, rfl, rfl, rfl, rfl, rfl, fun _ => rfl, fun h => h⟩
  · rw [if_neg hc]
    exact SameBody.refl c

theorem eff_same (setName : String) (orig : List CPod) (acts : List Action) (c c1 : CPod)
    (h : eff setName orig acts c = some c1) : SameBody c c1 := by
  induction acts generalizing c with
  | nil => simp only [eff, Option.some.injEq] at h; rw [← h]; exact SameBody.refl c
  | cons a rest ih =>
    cases a with
    | create o rev => exact ih c h
    | delete o id w =>
      unfold eff at h
      split_ifs at h
      exact (delStep_same id c).trans (ih _ h)
    | update o =>
      unfold eff at h
      exact (updStep_same setName orig o c).trans (ih _ h)

theorem eff_owner (setName : String) (orig : List CPod) (hno : ∀ o, wasOrphan setName orig o = false)
    (acts : List Action) (c c1 : CPod) (h : eff setName orig acts c = some c1) : c1.owner = c.owner := by
  induction acts generalizing c with
  | nil => simp only [eff, Option.some.injEq] at h; rw [← h]
  | cons a rest ih =>
    cases a with
    | create o rev => exact ih c h
    | delete o id w =>
      unfold eff at h
      split_ifs at h
      rw [ih _ h]; unfold delStep; split_ifs <;> rfl
    | update o =>
      unfold eff at h
      rw [ih _ h]; unfold updStep
      rw [hno o]
      simp only [Bool.false_eq_true, if_false]
      split_ifs <;> rfl

/-- a call deletes the object with this id -/
def DelHits (acts : List Action) (id : Nat) : Prop := ∃ o w, Action.delete o id w ∈ acts

theorem delHits_cons_delete {acts : List Action} {o : Int} {id id' : Nat} {w : Why} :
    DelHits (.delete o id w :: acts) id' ↔ id = id' ∨ DelHits acts id' := by
  unfold DelHits
  constructor
  · rintro ⟨o', w', hm⟩
    rcases List.mem_cons.1 hm with h | h
    · cases h; exact Or.inl rfl
    · exact Or.inr ⟨o', w', h⟩
  · rintro (rfl | ⟨o', w', hm⟩)
    · exact ⟨o, w, List.mem_cons_self⟩
    · exact ⟨o', w', List.mem_cons_of_mem _ hm⟩

theorem delHits_cons_other {acts : List Action} {a : Action} {id' : Nat} (ha : ∀ o id w, a ≠ .delete o id w) :
    DelHits (a :: acts) id' ↔ DelHits acts id' := by
  unfold DelHits
  constructor
  · rintro ⟨o', w', hm⟩
    rcases List.mem_cons.1 hm with h | h
    · exact absurd h.symm (ha _ _ _)
    · exact ⟨o', w', h⟩
  · rintro ⟨o', w', hm⟩
    exact ⟨o', w', List.mem_cons_of_mem _ hm⟩

theorem delStep_fs (id : Nat) (c : CPod) :
    ((delStep id c).pod.failed || (delStep id c).pod.succeeded) = (c.pod.failed || c.pod.succeeded) := by
  unfold delStep; split_ifs <;> rfl
theorem updStep_fs (setName : String) (orig : List CPod) (o : Int) (c : CPod) :
    ((updStep setName orig o c).pod.failed || (updStep setName orig o c).pod.succeeded) = (c.pod.failed || c.pod.succeeded) := by
  unfold updStep; split_ifs <;> rfl

/-- an object no delete hits survives, terminating or not as before -/
theorem eff_noDel (setName : String) (orig : List CPod) (acts : List Action) (c : CPod) (hnd : ¬ DelHits acts c.pod.id) :
    ∃ c1, eff setName orig acts c = some c1 ∧ c1.pod.terminating = c.pod.terminating := by
  induction acts generalizing c with
  | nil => exact ⟨c, rfl, rfl⟩
  | cons a rest ih =>
    cases a with
    | create o rev =>
      rw [delHits_cons_other (by intro _ _ _ h; cases h)] at hnd
      exact ih c hnd
    | delete o id w =>
      rw [delHits_cons_delete, not_or] at hnd
      unfold eff
      have hne : (c.pod.id == id) = false := by simpa using fun h => hnd.1 h.symm
      simp only [hne, Bool.false_and, Bool.false_eq_true, if_false, delStep]
      exact ih c hnd.2
    | update o =>
      rw [delHits_cons_other (by intro _ _ _ h; cases h)] at hnd
      unfold eff
      have hid : (updStep setName orig o c).pod.id = c.pod.id := (updStep_same setName orig o c).id
      obtain ⟨c1, h1, h2⟩ := ih (updStep setName orig o c) (by rw [hid]; exact hnd)
      refine ⟨c1, h1, h2.trans ?_⟩
      unfold updStep; split_ifs <;> rfl

/-- an object a delete hits is gone at once when Failed/Succeeded, terminating otherwise -/
theorem eff_del (setName : String) (orig : List CPod) (acts : List Action) (c : CPod) (hd : DelHits acts c.pod.id) :
    ((c.pod.failed || c.pod.succeeded) = true → eff setName orig acts c = none) ∧
    (∀ c1, eff setName orig acts c = some c1 → c1.pod.terminating = true) := by
  induction acts generalizing c with
  | nil => obtain ⟨o, w, hm⟩ := hd; cases hm
  | cons a rest ih =>
    cases a with
    | create o rev =>
      rw [delHits_cons_other (by intro _ _ _ h; cases h)] at hd
      exact ih c hd
    | delete o id w =>
      unfold eff
      by_cases hid : c.pod.id = id
      · have hb : (c.pod.id == id) = true := by simpa using hid
        constructor
        · intro hfs; simp [hb, hfs]
        · intro c1 h1
          split_ifs at h1
          have hs := eff_same setName orig rest _ _ h1
          apply hs.term
          unfold delStep; simp [hb]
      · have hb : (c.pod.id == id) = false := by simpa using hid
        rw [delHits_cons_delete] at hd
        have hd' : DelHits rest c.pod.id := by
          rcases hd with h | h
          · exact absurd h.symm hid
          · exact h
        simp only [hb, Bool.false_and, Bool.false_eq_true, if_false, delStep]
        exact ih c hd'
    | update o =>
      rw [delHits_cons_other (by intro _ _ _ h; cases h)] at hd
      unfold eff
      have hid : (updStep setName orig o c).pod.id = c.pod.id := (updStep_same setName orig o c).id
      have := ih (updStep setName orig o c) (by rw [hid]; exact hd)
      rw [updStep_fs] at this
      exact this

/-- an object whose name an update addresses has its identity afterwards -/
theorem eff_upd (setName : String) (orig : List CPod) (acts : List Action) (c c1 : CPod) (o : Int)
    (hu : Action.update o ∈ acts) (hname : c.name = canonicalName setName o) (h : eff setName orig acts c = some c1) :
    c1.pod.idOk = true := by
  induction acts generalizing c with
  | nil => cases hu
  | cons a rest ih =>
    cases a with
    | create o' rev =>
      rcases List.mem_cons.1 hu with h' | h'
      · cases h'
      · exact ih c h' hname h
    | delete o' id w =>
      rcases List.mem_cons.1 hu with h' | h'
      · cases h'
      · unfold eff at h
        split_ifs at h
        exact ih _ h' (by rw [(delStep_same id c).name]; exact hname) h
    | update o' =>
      unfold eff at h
      rcases List.mem_cons.1 hu with h' | h'
      · cases h'
        have hs := eff_same setName orig rest _ _ h
        apply hs.idOk
        unfold updStep
        simp [hname]
      · exact ih _ h' (by rw [(updStep_same setName orig o' c).name]; exact hname) h

/-- a freshly created object is left alone by calls that delete only older ids, when no original pod is an orphan -/
theorem eff_mkPod (setName : String) (orig : List CPod) (hno : ∀ o, wasOrphan setName orig o = false)
    (acts : List Action) (o : Int) (rev : String) (hnd : ¬ DelHits acts (freshId + o.toNat)) :
    eff setName orig acts (mkPod setName o rev) = some (mkPod setName o rev) := by
  obtain ⟨c1, h1, h2⟩ := eff_noDel setName orig acts (mkPod setName o rev) hnd
  have hs := eff_same setName orig acts _ _ h1
  have ho := eff_owner setName orig hno acts _ _ h1
  rw [h1]
  congr 1
  obtain ⟨name, pod, owner, sel, mem⟩ := c1
  obtain ⟨id, ord, phase, ready, term, rv, idOk, stOk⟩ := pod
  have e1 := hs.name; have e2 := hs.sel; have e3 := hs.mem; have e4 := hs.id; have e5 := hs.ord
  have e6 := hs.phase; have e7 := hs.ready; have e8 := hs.rev; have e9 := hs.stOk; have e10 := hs.idOk rfl
  simp only [mkPod] at *
  subst e1 e2 e3 e4 e5 e6 e7 e8 e9 e10 h2 ho
  rfl

end Asts.C02p
