import Asts.Proofs.L1_a_SlotK
import Mathlib.Tactic

/-! # `Prop` readings of C04 / C03 on the model's own action list (with the delete reason visible) -/
namespace Asts
open List

theorem uss_deleting_acts (v : SetView) (cur upd : String) (pods : List Pod) (f : Faults) (hdel : v.deleting = true) :
    (updateStatefulSet v cur upd pods f).1.acts = [] := by
  unfold updateStatefulSet
  split
  · rfl
  · simp [hdel]

/-- C04 read as a proposition: a create at `o`, wherever it stands in the action list, is for a desired ordinal that is
    not a listed slot, of a set that is not being deleted, and `o` is vacant in the snapshot or held a Failed/Succeeded pod
    whose deletion stands earlier in the list. -/
theorem C04_reading (v : SetView) (cur upd : String) (pods : List Pod) (f : Faults)
    (hcr : pods.all Pod.created = true) {pre post : List Action} {o : Int} {rev : String}
    (h : (updateStatefulSet v cur upd pods f).1.acts = pre ++ .create o rev :: post) :
    o ∈ desired (replicasOf v) v.slots ∧ o ∉ v.slots ∧ v.deleting = false ∧
      ((∀ q ∈ pods, q.ord ≠ o) ∨
       ∃ p ∈ pods, p.ord = o ∧ (p.failed = true ∨ p.succeeded = true) ∧ Action.delete o p.id .replaceFailed ∈ pre) := by
  have hJ := (uss_seg v cur upd pods f).at h
  obtain ⟨hD, hcases⟩ := hJ
  refine ⟨hD, (desired_isDesired _ _).noSlot o hD, ?_, ?_⟩
  · by_contra hd
    have hd' : v.deleting = true := by simpa using hd
    rw [uss_deleting_acts v cur upd pods f hd'] at h
    simp at h
  · rcases hcases with h1 | ⟨p, hp, hpo, hfs, hmem⟩ | ⟨p, hp, -, hc⟩
    · exact Or.inl h1
    · exact Or.inr ⟨p, hp, hpo, by simpa using hfs, by simpa using hmem⟩
    · rw [List.all_eq_true] at hcr
      rw [hcr p hp] at hc; cases hc

/-- a listed delete slot is never populated -/
theorem slot_not_repopulated (v : SetView) (cur upd : String) (pods : List Pod) (f : Faults) {o : Int}
    (ho : o ∈ v.slots) (rev : String) : Action.create o rev ∉ (updateStatefulSet v cur upd pods f).1.acts := by
  intro hm
  exact (desired_isDesired _ _).noSlot o ((uss_seg v cur upd pods f).create_mem hm) ho

/-- C03 read as a proposition: every delete targets a pod of the snapshot that is outside the desired set, or Failed /
    Succeeded, or (strategy ≠ OnDelete) at or above the partition with a revision other than the update revision —
    or the object this same reconcile created earlier at that ordinal with a revision other than the update revision. -/
theorem C03_reading (v : SetView) (cur upd : String) (pods : List Pod) (f : Faults) {o : Int} {id : Nat} {why : Why}
    (h : Action.delete o id why ∈ (updateStatefulSet v cur upd pods f).1.acts) :
    (∃ p ∈ pods, p.id = id ∧ p.ord = o ∧
        ((why = .scaleDown ∧ o ∉ desired (replicasOf v) v.slots) ∨
         (why = .replaceFailed ∧ (p.failed = true ∨ p.succeeded = true)) ∨
         (why = .update ∧ v.strat ≠ .onDelete ∧ partOf v ≤ o ∧ p.rev ≠ upd ∧ p.terminating = false))) ∨
    (why = .update ∧ id = freshId + o.toNat ∧ v.strat ≠ .onDelete ∧ partOf v ≤ o ∧
        ∃ rev, rev ≠ upd ∧ Action.create o rev ∈ (updateStatefulSet v cur upd pods f).1.acts) := by
  obtain ⟨pre, post, hl⟩ := List.append_of_mem h
  have hJ := (uss_seg v cur upd pods f).at hl
  cases why with
  | scaleDown =>
    obtain ⟨p, hp, hid, hord, hnD⟩ := hJ
    exact Or.inl ⟨p, hp, hid, hord, Or.inl ⟨rfl, hnD⟩⟩
  | replaceFailed =>
    obtain ⟨⟨p, hp, hid, hord, -, hfs⟩, -⟩ := hJ
    exact Or.inl ⟨p, hp, hid, hord, Or.inr (Or.inl ⟨rfl, by simpa using hfs⟩)⟩
  | update =>
    obtain ⟨hs, hpart, -, hcases⟩ := hJ
    rcases hcases with ⟨p, hp, hid, hord, hrev, hterm, -⟩ | ⟨hid, rev, hrev, hmem⟩
    · exact Or.inl ⟨p, hp, hid, hord, Or.inr (Or.inr ⟨rfl, hs, hpart, hrev, hterm⟩)⟩
    · refine Or.inr ⟨rfl, hid, hs, hpart, rev, hrev, ?_⟩
      rw [hl]; simp only [List.nil_append] at hmem
      exact List.mem_append_left _ hmem

/-- a Failed/Succeeded pod is deleted only to be replaced at once: the next action is the create at the same ordinal,
    or the delete itself failed and the reconcile stopped there with an error -/
theorem replace_followed (v : SetView) (cur upd : String) (pods : List Pod) (f : Faults) {pre post : List Action}
    {o : Int} {id : Nat}
    (h : (updateStatefulSet v cur upd pods f).1.acts = pre ++ .delete o id .replaceFailed :: post) :
    (∃ rev post', post = .create o rev :: post') ∨ (post = [] ∧ (updateStatefulSet v cur upd pods f).2 ≠ .ok) := by
  obtain ⟨-, hn⟩ := (uss_seg v cur upd pods f).at h
  rcases hn with ⟨rev, hrev⟩ | ⟨hnone, hb⟩
  · left
    cases post with
    | nil => simp at hrev
    | cons x xs => simp only [List.head?_cons, Option.some.injEq] at hrev; exact ⟨rev, xs, by rw [hrev]⟩
  · right
    refine ⟨by simpa using hnone, ?_⟩
    intro hok; rw [hok] at hb; simp at hb

theorem eq_of_id_eq {pods : List Pod} (hnd : (pods.map Pod.id).Nodup) {p q : Pod} (hp : p ∈ pods) (hq : q ∈ pods)
    (h : p.id = q.id) : p = q := by
  have h1 := podById_of_mem hnd hp
  have h2 := podById_of_mem hnd hq
  rw [h, h2] at h1
  exact (Option.some.inj h1).symm

/-- **A live pod of the desired set that is up to date is never deleted, whatever else is going on**: not Failed, not
    Succeeded, ordinal in the desired set, and (at the update revision, or strategy OnDelete, or below the partition). -/
theorem live_uptodate_never_deleted (v : SetView) (cur upd : String) (pods : List Pod) (f : Faults) (hids : IdsOk pods)
    {p : Pod} (hp : p ∈ pods) (hD : p.ord ∈ desired (replicasOf v) v.slots)
    (hlive : p.failed = false ∧ p.succeeded = false)
    (hup : p.rev = upd ∨ v.strat = .onDelete ∨ p.ord < partOf v) (o : Int) (why : Why) :
    Action.delete o p.id why ∉ (updateStatefulSet v cur upd pods f).1.acts := by
  intro hm
  rcases C03_reading v cur upd pods f hm with ⟨q, hq, hid, hord, hcases⟩ | ⟨-, hid, -⟩
  · have hqp : q = p := eq_of_id_eq hids.nodup hq hp hid
    subst hqp
    rcases hcases with ⟨-, hnD⟩ | ⟨-, hfs⟩ | ⟨-, hs, hpart, hrev, -⟩
    · rw [← hord] at hnD; exact hnD hD
    · rcases hfs with h | h
      · rw [hlive.1] at h; cases h
      · rw [hlive.2] at h; cases h
    · rcases hup with h | h | h
      · exact hrev h
      · exact hs h
      · omega
  · have := hids.small p hp
    omega

end Asts
