import Asts.Proofs.C02_GStep
import Asts.Proofs.C02_Target

/-! C02, stage 2: a normal, settled world whose pods need no work is `Final` after two more rounds: one that writes the
    status if it differs (and may complete the rolling update: `currentRevision := updateRevision`), one that deletes the
    history that this left unused. -/
namespace Asts.C02p
open Asts Asts.L1c

section
variable {h : Hashing} {j : SyncIn}

/-- what `muPods j = 0` says, pod by pod -/
theorem done_pods (hs : NSC h j) (hz : muPods j = 0) :
    (∀ c ∈ j.pods, inRange (bOf j) (EOf j) c.pod.ord = true ∧ c.pod.healthy = true ∧ c.pod.idOk = true ∧
      (j.view.strat = .rolling → partOf j.view ≤ c.pod.ord → c.pod.rev = hs.norm.updRev.name)) ∧
    (∀ o, inRange (bOf j) (EOf j) o = true → ∃ c ∈ j.pods, c.pod.ord = o) := by
  have hn := hs.norm
  unfold muPods at hz
  rw [hn.updName] at hz
  simp only [Nat.add_eq_zero_iff, Nat.mul_eq_zero, OfNat.ofNat_ne_zero, false_or, List.length_eq_zero_iff] at hz
  obtain ⟨hsum, hcond⟩ := hz
  have hw : ∀ o ∈ desired (replicasOf j.view) j.view.slots, wOf j.view hn.updRev.name j.pods o = 0 := by
    intro o ho
    have := List.sum_eq_zero_iff.1 hsum (wOf j.view hn.updRev.name j.pods o) (List.mem_map.2 ⟨o, ho, rfl⟩)
    exact this
  have hfull : ∀ o, inRange (bOf j) (EOf j) o = true → ∃ c ∈ j.pods, c.pod.ord = o := by
    intro o hr
    by_contra hcon
    push_neg at hcon
    have := hw o ((mem_desired_iff hn o).2 hr)
    rw [wOf_none hcon] at this
    cases this
  refine ⟨?_, hfull⟩
  intro c hcm
  have hin : c.pod.ord ∈ desired (replicasOf j.view) j.view.slots := by
    rw [List.filter_eq_nil_iff] at hcond
    have := hcond c hcm
    simpa using this
  have hr := (mem_desired_iff hn _).1 hin
  have hw0 := hw _ hin
  rw [wOf_some hn.ords hcm] at hw0
  have hnt := (hs.settled c hcm).1
  have hfs : c.pod.fs = false := by
    by_contra hfs
    rw [wPod_fs (by simpa using hfs) hnt] at hw0
    cases hw0
  rw [wPod_live hfs hnt] at hw0
  have hid : c.pod.idOk = true := by
    by_contra hid
    simp [hid] at hw0
  have hrr : c.pod.runningAndReady = true := by
    rcases (hs.settled c hcm).2 with h1 | h1
    · rw [hfs] at h1; cases h1
    · exact h1
  refine ⟨hr, by simp [Pod.healthy, hrr, hnt], hid, ?_⟩
  intro hroll hpt
  by_contra hrev
  have : outW j.view hn.updRev.name c.pod.ord c.pod.rev = 3 := by
    unfold outW; simp [hroll, hpt, hrev]
  omega

theorem done_goodPods (hs : NSC h j) (hz : muPods j = 0) :
    GoodPods j.view hs.norm.updRev.name (maxReplicaAndSlots (replicasOf j.view) j.view.slots).1
      (maxReplicaAndSlots (replicasOf j.view) j.view.slots).2 (j.pods.map (·.pod)) := by
  obtain ⟨h1, h2⟩ := done_pods hs hz
  constructor
  · intro p hp
    rw [List.mem_map] at hp
    obtain ⟨c, hcm, rfl⟩ := hp
    obtain ⟨a1, a2, a3, a4⟩ := h1 c hcm
    refine ⟨a2, a3, (hs.norm.pods c hcm).2.2.2.2.2.1, a1, ?_⟩
    intro hnod
    exact a4 (hs.norm.spec.strat.resolve_right hnod)
  · intro o ho
    obtain ⟨c, hcm, hco⟩ := h2 o ho
    exact ⟨c.pod, List.mem_map.2 ⟨c, hcm, rfl⟩, hco⟩

/-- the reconcile of such a world does nothing and returns the census -/
theorem done_recon (hs : NSC h j) (hz : muPods j = 0) :
    hs.norm.recon = ({ acts := [], status := st0Of j.view hs.norm.curRev.name hs.norm.updRev.name (j.pods.map (·.pod)) }, .ok) :=
  updateStatefulSet_quiet j.view _ _ _ [] (replicasOf j.view) hs.norm.spec.rep hs.norm.spec.del (done_goodPods hs hz)

/-- the status computed from a census under given revision names -/
def cruCensus (v : SetView) (cur upd : String) (pods : List Pod) (g : Int) : Status :=
  completeRollingUpdate v (st0Of { v with generation := g } cur upd pods)

/-- the completion rule is idempotent on a census: recomputing the status from the revision names it carries gives it back -/
theorem cru_census_fix (v : SetView) (cur upd : String) (pods : List Pod) (g : Int) :
    cruCensus v (cruCensus v cur upd pods g).currentRev (cruCensus v cur upd pods g).updateRev pods g = cruCensus v cur upd pods g := by
  unfold cruCensus completeRollingUpdate st0Of
  by_cases hfire : (v.strat == .rolling && (census cur upd pods).updated == (census cur upd pods).replicas &&
      (census cur upd pods).ready == (census cur upd pods).replicas) = true
  · simp only [hfire, if_true]
    have h1 : (census upd upd pods).updated = (census cur upd pods).updated := rfl
    have h2 : (census upd upd pods).replicas = (census cur upd pods).replicas := rfl
    have h3 : (census upd upd pods).ready = (census cur upd pods).ready := rfl
    rw [h1, h2, h3, hfire]
    simp only [if_true]
  · simp only [hfire, Bool.false_eq_true, if_false]

end

end Asts.C02p

namespace Asts.C02p
open Asts Asts.L1c

section
variable {h : Hashing} {j : SyncIn}

theorem inconsistent_self (st : Status) : inconsistentStatus st st = false := by
  unfold inconsistentStatus; simp

theorem cru_updateRev (v : SetView) (st : Status) : (completeRollingUpdate v st).updateRev = st.updateRev := by
  unfold completeRollingUpdate; split_ifs <;> rfl

theorem cru_currentRev (v : SetView) (st : Status) :
    (completeRollingUpdate v st).currentRev = st.currentRev ∨ (completeRollingUpdate v st).currentRev = st.updateRev := by
  unfold completeRollingUpdate; split_ifs
  · right; rfl
  · left; rfl

theorem expectedStatus_eq (i : SyncIn) :
    expectedStatus i = cruCensus i.view i.stored.currentRev i.stored.updateRev ((ownPods i).map (·.pod)) i.view.generation := rfl

theorem storedNext_cons (hn : NormC h j) : inconsistentStatus (storedNext hn) (completeRollingUpdate j.view hn.recon.1.status) = false := by
  unfold storedNext
  split_ifs with hinc
  · exact inconsistent_self _
  · simpa using hinc

theorem actFacts_nil (v : SetView) (cur upd : String) (b : Int) (E : List Int) (P : List CPod) : ActFacts v cur upd b E P [] := by
  refine ⟨?_, List.nodup_nil, ?_, ?_, ?_⟩
  · rintro id _ ⟨o, w, hm⟩; cases hm
  · intro o rev hm; cases hm
  · rintro c _ ⟨o, w, hm⟩; cases hm
  · rintro c _ ⟨o, w, hm⟩; cases hm

/-- when nothing is to do, every policy is fine -/
theorem pol_of_done (hs : NSC h j) (hz : muPods j = 0) : Pol hs.norm := by
  have hrec := done_recon hs hz
  apply Pol.of_facts (by rw [hrec])
  rw [hrec]
  exact actFacts_nil _ _ _ _ _ _

/-- the pods stay as they are -/
theorem done_next_pods (hs : NSC h j) (hz : muPods j = 0) : KeyPerm (nextW h j).pods j.pods := by
  have hp := pol_of_done hs hz
  have h1 := nextW_pods hs hp
  have hraw : rawNext hs.norm = j.pods := by
    unfold rawNext nextRawG
    rw [done_recon hs hz]
    simp only [applyActs]
    rw [List.filter_eq_self.2 (fun c hc => by simp [(hs.settled c hc).1])]
    conv_rhs => rw [← List.map_id j.pods]
    exact List.map_congr_left (fun c hc => settleOne_healthy ((done_pods hs hz).1 c hc).2.1)
  rw [hraw] at h1
  exact h1

theorem done_next_mu (hs : NSC h j) (hz : muPods j = 0) : muPods (nextW h j) = 0 := by
  have h1 := muPods_next hs (pol_of_done hs hz)
  have hraw : rawNext hs.norm = j.pods := by
    unfold rawNext nextRawG
    rw [done_recon hs hz]
    simp only [applyActs]
    rw [List.filter_eq_self.2 (fun c hc => by simp [(hs.settled c hc).1])]
    conv_rhs => rw [← List.map_id j.pods]
    exact List.map_congr_left (fun c hc => settleOne_healthy ((done_pods hs hz).1 c hc).2.1)
  rw [h1, hraw, ← hs.norm.updName, ← muPods_eq]
  exact hz

/-- the status is settled: it names the newest revision, a listed current revision, and equals the census it implies -/
structure Fix (hn : NormC h j) : Prop where
  upd : j.stored.updateRev = hn.updRev.name
  cur : (listedRevs j).any (·.name == j.stored.currentRev) = true
  status : inconsistentStatus j.stored (expectedStatus j) = false

theorem updRev_unique (hn hn' : NormC h j) : hn.updRev = hn'.updRev := rfl

/-- the update revision of the next world is the same revision -/
theorem nextW_updRev (hs : NSC h j) (hp : Pol hs.norm) (hn1 : NormC h (nextW h j)) : hn1.updRev = hs.norm.updRev := by
  have h1 := hn1.updRev_spec.1
  rw [nextW_last hs hp] at h1
  exact (Option.some.inj h1).symm

theorem curRev_mem (hn : NormC h j) : hn.curRev ∈ listedRevs j := by
  have hupdMem : hn.updRev ∈ listedRevs j := List.mem_of_getLast? hn.updRev_spec.1
  unfold NormC.curRev
  cases hf : (listedRevs j).find? (·.name == j.stored.currentRev) with
  | none => simpa using hupdMem
  | some x => simpa using List.mem_of_find?_eq_some hf

/-- **first round after the pods are done**: the status is settled -/
theorem done_fix (hs : NSC h j) (hz : muPods j = 0) : Fix (nextW_ns hs (pol_of_done hs hz)).norm := by
  have hn := hs.norm
  have hp := pol_of_done hs hz
  have hrec := done_recon hs hz
  have hstatus : completeRollingUpdate j.view hn.recon.1.status =
      cruCensus j.view hn.curRev.name hn.updRev.name (j.pods.map (·.pod)) j.view.generation := by rw [hrec]; rfl
  have hcons := storedNext_cons hn
  rw [hstatus] at hcons
  generalize hstdef : cruCensus j.view hn.curRev.name hn.updRev.name (j.pods.map (·.pod)) j.view.generation = st at hcons
  obtain ⟨e0, e1, e2, e3, e4, e5, e6⟩ := inconsistent_false hcons
  have hstUpd : st.updateRev = hn.updRev.name := by
    rw [← hstdef]; unfold cruCensus; rw [cru_updateRev]; rfl
  have hstCur : st.currentRev = hn.curRev.name ∨ st.currentRev = hn.updRev.name := by
    rw [← hstdef]; unfold cruCensus
    rcases cru_currentRev j.view (st0Of { j.view with generation := j.view.generation } hn.curRev.name hn.updRev.name (j.pods.map (·.pod))) with h1 | h1
    · left; rw [h1]; rfl
    · right; rw [h1]; rfl
  have hstored := nextW_stored hs hp
  have hupdMem : hn.updRev ∈ listedRevs j := List.mem_of_getLast? hn.updRev_spec.1
  refine ⟨?_, ?_, ?_⟩
  · rw [nextW_updRev hs hp, hstored, ← e6, hstUpd]
  · rw [nextW_listed hs hp, hstored, ← e5, List.any_eq_true]
    rcases hstCur with h1 | h1
    · exact ⟨hn.curRev, List.mem_filter.2 ⟨curRev_mem hn, keep_of_live hn List.mem_cons_self⟩, by rw [h1]; simp⟩
    · exact ⟨hn.updRev, List.mem_filter.2 ⟨hupdMem, keep_updRev hn⟩, by rw [h1]; simp⟩
  · have hfix := cru_census_fix j.view hn.curRev.name hn.updRev.name (j.pods.map (·.pod)) j.view.generation
    rw [hstdef] at hfix
    have hown : ownPods (nextW h j) = (nextW h j).pods := (nextW_ns hs hp).norm.ownPods
    have hexp : expectedStatus (nextW h j) = st := by
      rw [expectedStatus_eq, hown, hstored]
      have hview := nextW_view hs hp
      have hc : ∀ (c u : String) (ps : List Pod), cruCensus (nextW h j).view c u ps (nextW h j).view.generation
          = cruCensus j.view c u ps j.view.generation := by
        intro c u ps; rw [hview]; rfl
      rw [hc]
      unfold cruCensus st0Of
      rw [census_of_keys _ _ (done_next_pods hs hz), ← e5, ← e6]
      exact hfix
    rw [hexp, hstored]
    exact hcons

theorem filter_not_take {α β : Type} [DecidableEq β] (f : α → β) (l : List α) (k : Nat) (hnd : (l.map f).Nodup) :
    l.filter (fun x => !((l.take k).map f).contains (f x)) = l.drop k := by
  induction l generalizing k with
  | nil => simp
  | cons a t ih =>
    cases k with
    | zero => simp
    | succ k =>
      rw [List.map_cons, List.nodup_cons] at hnd
      rw [List.take_succ_cons, List.drop_succ_cons, List.filter_cons]
      simp only [List.map_cons, List.contains_cons, beq_self_eq_true, Bool.true_or, Bool.not_true, Bool.false_eq_true, if_false]
      rw [← ih k hnd.2]
      apply List.filter_congr
      intro x hx
      have hne : f x ≠ f a := fun h => hnd.1 (h ▸ List.mem_map.2 ⟨x, hx, rfl⟩)
      have : (f x == f a) = false := by simpa using hne
      rw [this, Bool.false_or]

/-- after the truncation the unused history is within the limit -/
theorem hist_after (lim : Int) (h0 : 0 ≤ lim) (podRevs : List String) (revs : List Rev) (cur upd : Rev)
    (hnd : (revs.map (·.name)).Nodup) :
    ((((histOf podRevs revs cur upd).filter
        (fun x => !((victimsOf lim podRevs revs cur upd).map (·.name)).contains x.name)).length : Nat) : Int) ≤ lim := by
  have hndH : ((histOf podRevs revs cur upd).map (·.name)).Nodup := (List.Sublist.map _ List.filter_sublist).nodup hnd
  unfold victimsOf
  split_ifs with hle
  · simpa using hle
  · have := filter_not_take (fun x : Rev => x.name) (histOf podRevs revs cur upd)
      ((histOf podRevs revs cur upd).length - lim.toNat) hndH
    rw [this, List.length_drop]
    omega

/-- **second round after the pods are done**: with the status settled, the round only deletes unused history beyond the
    limit, and the next settled world is `Final` -/
theorem fix_final (hs : NSC h j) (hz : muPods j = 0) (hfix : Fix hs.norm) : Final h (nextW h j) := by
  have hn := hs.norm
  have hp := pol_of_done hs hz
  obtain ⟨hp1, hp2⟩ := done_pods hs hz
  have hrec := done_recon hs hz
  obtain ⟨lim, hlim, hlim0⟩ := hn.spec.lim
  have hcurName : hn.curRev.name = j.stored.currentRev := find_name hn.updRev hfix.cur
  -- the status the reconcile computes is the stored one: nothing is written
  have hnoinc : inconsistentStatus j.stored (completeRollingUpdate j.view hn.recon.1.status) = false := by
    have : completeRollingUpdate j.view hn.recon.1.status = expectedStatus j := by
      rw [hrec, expectedStatus_eq, hn.ownPods, ← hcurName, hfix.upd]
      rfl
    rw [this]; exact hfix.status
  have hstoredN : storedNext hn = j.stored := by unfold storedNext; rw [hnoinc]; rfl
  -- the world with the history truncated, pods untouched
  set jm : SyncIn := { j with store := j.store.filter hn.keep } with hjm
  have hlisted : listedRevs jm = (listedRevs j).filter hn.keep := by
    unfold listedRevs
    rw [keep_eq]
    exact listedRevs_filter (fun n => !(hn.victims.map (·.name)).contains n) j _ rfl
  have hown : ownPods jm = j.pods := hn.ownPods
  have hspec : specOk jm = true :=
    (specOk_iff _).2 ⟨hn.spec.paused, hn.spec.sel, hn.spec.del, hn.spec.rep, hn.spec.r0, hn.spec.strat, hn.spec.lim⟩
  have hlen : j.pods.length = (desired (replicasOf j.view) j.view.slots).length := by
    have hperm : (j.pods.map (·.pod.ord)).Perm (desired (replicasOf j.view) j.view.slots) := by
      rw [List.perm_ext_iff_of_nodup hn.ords (desired_isDesired _ _).sorted.nodup]
      intro o
      rw [mem_desired_iff hn, List.mem_map]
      constructor
      · rintro ⟨c, hcm, rfl⟩; exact (hp1 c hcm).1
      · intro hr; obtain ⟨c, hcm, hco⟩ := hp2 o hr; exact ⟨c, hcm, hco⟩
    simpa using hperm.length_eq
  have hpods : podsFinal jm = true := by
    rw [podsFinal_iff]
    refine ⟨?_, ?_, ?_, ?_⟩
    · intro c hcm _
      obtain ⟨a1, a2, a3, a4, a5, a7, a8⟩ := hn.pods c hcm
      obtain ⟨b1, b2, b3, b4⟩ := hp1 c hcm
      refine ⟨a3, a2, a4, (mem_desired_iff hn _).2 b1, b2, b3, a7, ?_⟩
      intro hroll hpt
      exact (b4 hroll hpt).trans hfix.upd.symm
    · intro c hcm hnone
      rw [(hn.pods c hcm).1] at hnone; cases hnone
    · intro o ho
      obtain ⟨c, hcm, hco⟩ := hp2 o ((mem_desired_iff hn o).1 ho)
      exact ⟨c, by rw [hown]; exact hcm, hco⟩
    · rw [hown]; exact hlen
  have hrevs : revsFinal h jm = true := by
    rw [revsFinal_iff]
    refine ⟨hn.updRev, ?_, hfix.upd.symm, ?_, ?_, ?_, lim, hlim, ?_⟩
    · rw [hlisted]
      exact getLast?_filter_of_last _ _ _ hn.updRev_spec.1 (keep_updRev hn)
    · exact hn.updRev_spec.2
    · rw [hlisted]
      have := hfix.cur
      rw [List.any_eq_true] at this ⊢
      obtain ⟨x, hx, hxn⟩ := this
      refine ⟨x, List.mem_filter.2 ⟨hx, ?_⟩, hxn⟩
      apply keep_of_live hn
      have : x.name = j.stored.currentRev := by simpa using hxn
      rw [this, ← hcurName]
      exact List.mem_cons_self
    · have : listRevisions (j.store.filter hn.keep) = (listRevisions j.store).filter hn.keep := by
        rw [keep_eq]
        exact listRevisions_filter (fun n => !(hn.victims.map (·.name)).contains n) j.store
      show (listRevisions (j.store.filter hn.keep)).any (·.owner == .none) = false
      rw [this]
      have h0 := hn.noOrphanRev
      rw [Bool.eq_false_iff, ne_eq, List.any_eq_true] at h0 ⊢
      rintro ⟨x, hx, hxo⟩
      exact h0 ⟨x, List.mem_of_mem_filter hx, hxo⟩
    · rw [hlisted, hown]
      have hvict : hn.victims = victimsOf lim (j.pods.map (·.pod.rev)) (listedRevs j) hn.curRev hn.updRev := by
        unfold NormC.victims; rw [hlim]; rfl
      have := hist_after lim hlim0 (j.pods.map (·.pod.rev)) (listedRevs j) hn.curRev hn.updRev (listedRevs_names_nodup j)
      unfold histOf at this
      rw [List.filter_filter] at this ⊢
      have hcongr : (listedRevs j).filter (fun r => (!(jm.stored.currentRev :: jm.stored.updateRev :: j.pods.map (·.pod.rev)).contains r.name
          && r.owner == .self) && hn.keep r) =
          (listedRevs j).filter (fun a => !((victimsOf lim (j.pods.map (·.pod.rev)) (listedRevs j) hn.curRev hn.updRev).map (·.name)).contains a.name
            && (!(hn.curRev.name :: hn.updRev.name :: j.pods.map (·.pod.rev)).contains a.name && a.owner == .self)) := by
        apply List.filter_congr
        intro r _
        show ((!(j.stored.currentRev :: j.stored.updateRev :: j.pods.map (·.pod.rev)).contains r.name && r.owner == .self) && hn.keep r) = _
        rw [← hcurName, hfix.upd]
        unfold NormC.keep
        rw [hvict, Bool.and_comm]
      rw [hcongr]
      exact this
  have hstat : inconsistentStatus jm.stored (expectedStatus jm) = false := hfix.status
  have hmid : Final h jm := by
    unfold Final finalB
    rw [hspec, hpods, hrevs, hstat]
    rfl
  have hacts : hn.recon.1.acts = [] := by rw [hrec]
  rw [nextW_eq hs hp, hacts, hstoredN, hnoinc]
  simp only [applyActs, Bool.false_eq_true, if_false]
  apply final_settle
  have := final_transfer h jm j.stored.current j.fresh (reindex (sortPods j.pods)) (own_reindex_sort _) ?_ hmid
  · exact this
  · intro c hc hnone
    obtain ⟨c', hc', hk⟩ := mem_reindex_sort hc
    refine ⟨c', hc', ?_, key_transfer (·.selMatch) (fun _ => rfl) hk, key_transfer (·.member) (fun _ => rfl) hk, fun ht => ?_⟩
    · exact (key_transfer (·.owner) (fun _ => rfl) hk).trans hnone
    · rw [← ht]; exact (key_transfer (·.pod.terminating) (fun _ => rfl) hk).symm

/-- **stage 2**: when the pods of a normal, settled world need no work, two more rounds end in `Final` -/
theorem done_final2 (hs : NSC h j) (hz : muPods j = 0) : Final h (nextW h (nextW h j)) :=
  fix_final (nextW_ns hs (pol_of_done hs hz)) (done_next_mu hs hz) (done_fix hs hz)

end

end Asts.C02p
