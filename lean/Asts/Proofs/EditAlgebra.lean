import Asts.Proofs.L1_a_SlotK
import Mathlib.Tactic

/-! # The algebra of user edits on the desired ordinal set

How `desired r S` moves when the user edits `spec.replicas` and the delete-slots annotation one after the other: the slot list
is read as a set (order and duplicates are irrelevant), a plain scale-out appends one ordinal and a plain scale-in removes the
top one, listing a desired ordinal while decrementing replicas removes exactly it (`desired_cons_erase`), un-listing it while
incrementing replicas brings exactly it back when it lies below the bound and is the same as a plain scale-out when it does
not. -/
namespace Asts
open List

theorem isDesired_congr {r : Nat} {S T O : List Int} (h : IsDesired r S O) (hST : ∀ x, x ∈ S ↔ x ∈ T) : IsDesired r T O :=
  ⟨h.sorted, h.len, h.nonneg, fun o ho hT => h.noSlot o ho ((hST o).2 hT),
   fun o ho n hn0 hno hnT => h.least o ho n hn0 hno (fun hS => hnT ((hST n).1 hS))⟩

theorem desired_congr (r : Int) (S T : List Int) (hST : ∀ x, x ∈ S ↔ x ∈ T) : desired r S = desired r T :=
  isDesired_unique (isDesired_congr (desired_isDesired r S) hST) (desired_isDesired r T)

/-- only the non-negative slots matter -/
theorem desired_nonneg_slots (r : Int) (S : List Int) : desired r (S.filter (fun s => decide (0 ≤ s))) = desired r S := by
  have hO := desired_isDesired r S
  refine (isDesired_unique ⟨hO.sorted, hO.len, hO.nonneg, ?_, ?_⟩ (desired_isDesired r _)).symm
  · intro o ho hm; exact hO.noSlot o ho (List.mem_filter.1 hm).1
  · intro o ho n hn0 hno hnS
    exact hO.least o ho n hn0 hno (fun h => hnS (List.mem_filter.2 ⟨h, by simpa using hn0⟩))

theorem dropLast_isDesired {r : Nat} {S O : List Int} (h : IsDesired (r + 1) S O) : IsDesired r S O.dropLast := by
  have hne : O ≠ [] := by intro h0; have := h.len; rw [h0] at this; simp at this
  have hsplit : O = O.dropLast ++ [O.getLast hne] := (List.dropLast_append_getLast hne).symm
  have hs := h.sorted
  rw [hsplit, List.pairwise_append] at hs
  have hlt : ∀ a ∈ O.dropLast, a < O.getLast hne := fun a ha => hs.2.2 a ha _ (by simp)
  have hsub : ∀ a ∈ O.dropLast, a ∈ O := fun a ha => List.dropLast_subset O ha
  refine ⟨hs.1, by rw [List.length_dropLast, h.len]; rfl, fun o ho => h.nonneg o (hsub o ho),
    fun o ho => h.noSlot o (hsub o ho), ?_⟩
  intro o ho n hn0 hno hnS
  have hn : n ∈ O := h.least o (hsub o ho) n hn0 hno hnS
  rw [hsplit, List.mem_append] at hn
  rcases hn with hn | hn
  · exact hn
  · have : n = O.getLast hne := by simpa using hn
    have := hlt o ho
    omega

/-- **plain scale-in** by one removes the top ordinal and nothing else -/
theorem desired_dropLast (r : Int) (S : List Int) (hr : 0 ≤ r) : (desired (r + 1) S).dropLast = desired r S := by
  have h := desired_isDesired (r + 1) S
  have e : (r + 1).toNat = r.toNat + 1 := by omega
  rw [e] at h
  exact isDesired_unique (dropLast_isDesired h) (desired_isDesired r S)

/-- **plain scale-out** by one appends one ordinal — above every ordinal already desired, not a slot — and keeps the rest -/
theorem desired_succ (r : Int) (S : List Int) (hr : 0 ≤ r) :
    ∃ n, desired (r + 1) S = desired r S ++ [n] ∧ 0 ≤ n ∧ n ∉ S ∧ ∀ o ∈ desired r S, o < n := by
  have h := desired_isDesired (r + 1) S
  have hne : desired (r + 1) S ≠ [] := by
    intro h0; have := h.len; rw [h0] at this; simp at this; omega
  have hsplit := (List.dropLast_append_getLast hne).symm
  rw [desired_dropLast r S hr] at hsplit
  have hl : (desired (r + 1) S).getLast hne ∈ desired (r + 1) S := List.getLast_mem hne
  refine ⟨_, hsplit, h.nonneg _ hl, h.noSlot _ hl, ?_⟩
  have hs := h.sorted
  rw [hsplit, List.pairwise_append] at hs
  exact fun o ho => hs.2.2 o ho _ (by simp)

/-- scaling out never drops a desired ordinal, by however much -/
theorem desired_mono (r : Int) (S : List Int) (d : Nat) (hr : 0 ≤ r) : ∀ o ∈ desired r S, o ∈ desired (r + d) S := by
  induction d with
  | zero => intro o ho; simpa using ho
  | succ d ih =>
    intro o ho
    obtain ⟨n, hn, -⟩ := desired_succ (r + d) S (by omega)
    have : r + (d + 1 : Nat) = r + d + 1 := by push_cast; ring
    rw [this, hn]
    exact List.mem_append_left _ (ih o ho)

/-- **un-listing an effective slot while incrementing replicas brings back exactly that ordinal** -/
theorem desired_unlist_erase (r : Int) (S : List Int) (k : Int) (hr : 0 ≤ r) (hkS : k ∈ S)
    (hk : k ∈ desired (r + 1) (S.filter (fun s => decide (s ≠ k)))) :
    (desired (r + 1) (S.filter (fun s => decide (s ≠ k)))).erase k = desired r S := by
  have h := desired_cons_erase (r + 1) (S.filter (fun s => decide (s ≠ k))) k (by omega) hk
  rw [← h]
  have e : r + 1 - 1 = r := by omega
  rw [e]
  apply desired_congr
  intro x
  simp only [List.mem_cons, List.mem_filter, decide_eq_true_eq]
  constructor
  · rintro (rfl | ⟨hx, -⟩)
    · exact hkS
    · exact hx
  · intro hx
    by_cases hxk : x = k
    · exact Or.inl hxk
    · exact Or.inr ⟨hx, hxk⟩

/-- un-listing a slot that lies beyond the bound changes nothing: the desired set is the one of the longer list -/
theorem desired_unlist_ineffective (r : Int) (S : List Int) (k : Int)
    (hk : k ∉ desired r (S.filter (fun s => decide (s ≠ k)))) :
    desired r (S.filter (fun s => decide (s ≠ k))) = desired r S := by
  have hO := desired_isDesired r (S.filter (fun s => decide (s ≠ k)))
  refine isDesired_unique ⟨hO.sorted, hO.len, hO.nonneg, ?_, ?_⟩ (desired_isDesired r S)
  · intro o ho hS
    refine hO.noSlot o ho (List.mem_filter.2 ⟨hS, ?_⟩)
    simp only [decide_eq_true_eq]
    rintro rfl
    exact hk ho
  · intro o ho n hn0 hno hnS
    exact hO.least o ho n hn0 hno (fun h => hnS (List.mem_filter.1 h).1)

/-- list `k` and decrement, then un-list `k` and increment: the desired set is back where it was -/
theorem desired_list_unlist (r : Int) (S : List Int) (k : Int) (hkS : k ∉ S) :
    desired (r - 1 + 1) ((k :: S).filter (fun s => decide (s ≠ k))) = desired r S := by
  have e : r - 1 + 1 = r := by omega
  rw [e]
  apply desired_congr
  intro x
  simp only [List.mem_filter, List.mem_cons, decide_eq_true_eq]
  constructor
  · rintro ⟨rfl | hx, hne⟩
    · exact absurd rfl hne
    · exact hx
  · intro hx
    exact ⟨Or.inr hx, fun h => hkS (h ▸ hx)⟩

/-- **listing a desired ordinal with `replicas` unchanged moves one pod**: the desired set loses `k` and gains one ordinal above
    all the others -/
theorem desired_cons_same (r : Int) (S : List Int) (k : Int) (h1 : 1 ≤ r) (hk : k ∈ desired r S) :
    ∃ n, desired r (k :: S) = (desired r S).erase k ++ [n] ∧ 0 ≤ n ∧ n ∉ k :: S ∧ ∀ o ∈ (desired r S).erase k, o < n := by
  obtain ⟨n, hn, hn0, hnS, hlt⟩ := desired_succ (r - 1) (k :: S) (by omega)
  have e : r - 1 + 1 = r := by omega
  rw [e, desired_cons_erase r S k h1 hk] at hn
  rw [desired_cons_erase r S k h1 hk] at hlt
  exact ⟨n, hn, hn0, hnS, hlt⟩

/-- scaling by any amount never renumbers: the smaller desired set is a prefix of the larger one, everything beyond it is higher -/
theorem desired_prefix (r : Int) (S : List Int) (d : Nat) (hr : 0 ≤ r) :
    ∃ L, desired (r + d) S = desired r S ++ L ∧ L.length = d ∧ ∀ o ∈ desired r S, ∀ n ∈ L, o < n := by
  induction d with
  | zero => exact ⟨[], by simp, rfl, by simp⟩
  | succ d ih =>
    obtain ⟨L, hL, hlen, hlt⟩ := ih
    obtain ⟨n, hn, -, -, hnlt⟩ := desired_succ (r + d) S (by omega)
    have e : r + ((d + 1 : Nat) : Int) = r + d + 1 := by push_cast; ring
    refine ⟨L ++ [n], by rw [e, hn, hL, List.append_assoc], by simp [hlen], ?_⟩
    intro o ho m hm
    rcases List.mem_append.1 hm with hm | hm
    · exact hlt o ho m hm
    · have : m = n := by simpa using hm
      subst this
      exact hnlt o (by rw [hL]; exact List.mem_append_left _ ho)

end Asts
