import Asts.Proofs.C02_Reconcile

/-! C02, sync level: in a `Final` world the whole sync makes four `list:revs` calls and nothing else. -/
namespace Asts.C02p
open Asts Asts.L1c

/-! ### the pieces of `syncF` under the empty fault plan -/

theorem call_nil (t : Tr) (k : String) : t.call [] k = ({ log := t.log ++ [k] }, none) := by
  simp [Tr.call]

theorem listRevsF_nil (s : RevSt) :
    listRevsF [] s = ({ s with tr := { log := s.tr.log ++ ["list:revs", "list:revs"] } }, some (listRevisions s.store)) := by
  unfold listRevsF
  simp [call_nil]

theorem adopt_no_orphan (fresh : Fresh) (s : RevSt) (hno : (listRevisions s.store).any (·.owner == .none) = false) :
    adoptOrphanRevisionsF [] false fresh s =
      ({ s with tr := { log := s.tr.log ++ ["list:revs", "list:revs"] } }, .ok) := by
  unfold adoptOrphanRevisionsF
  simp only [Bool.false_eq_true, if_false, listRevsF_nil, hno, Bool.not_false, if_true]

/-- no pod is adopted or released -/
def NoClaimWork (pods : List CPod) : Prop :=
  ∀ c ∈ pods, (c.owner = .self → claimDecision false c = .keep) ∧ (c.owner ≠ .self → claimDecision false c = .ignore)

theorem foldl_claim_generic (f : ClaimOutF → CPod → ClaimOutF) (pods : List CPod)
    (hf : ∀ o c, c ∈ pods → f o c = if c.owner == .self then { o with claimed := o.claimed ++ [c] } else o) (o : ClaimOutF) :
    pods.foldl f o = { o with claimed := o.claimed ++ pods.filter (fun c => c.owner == .self) } := by
  induction pods generalizing o with
  | nil => simp
  | cons c rest ih =>
    rw [List.foldl_cons, hf o c List.mem_cons_self, ih (fun o q hq => hf o q (List.mem_cons_of_mem _ hq))]
    by_cases hs : c.owner = .self
    · simp [hs]
    · have : (c.owner == Owner.self) = false := by simpa using hs
      simp [this]

theorem claimPodsF_noWork (fresh : Fresh) (pods : List CPod) (tr : Tr) (hw : NoClaimWork pods) :
    claimPodsF [] false fresh pods tr =
      { claimed := pods.filter (fun c => c.owner == .self), failed := false, canAdopt := none, tr := tr } := by
  unfold claimPodsF
  rw [foldl_claim_generic]
  · simp
  · intro o c hc
    by_cases hs : c.owner = .self
    · rw [(hw c hc).1 hs]; simp [hs]
    · rw [(hw c hc).2 hs]
      have : (c.owner == Owner.self) = false := by simpa using hs
      simp [this]

theorem equalRev_self (l : Rev) : equalRev l l = true := by
  unfold equalRev
  cases l.hashNum <;> simp

theorem getLast?_filter_of_last {α : Type} (p : α → Bool) (l : List α) (a : α) (h : l.getLast? = some a) (hp : p a = true) :
    (l.filter p).getLast? = some a := by
  rw [List.getLast?_eq_some_iff] at h
  obtain ⟨ys, rfl⟩ := h
  rw [List.filter_append]
  simp [hp]

theorem getRevisionsF_final (h : Hashing) (template curName : String) (cc0 : Int) (revs : List Rev) (s : RevSt) (l : Rev)
    (hl : revs.getLast? = some l)
    (heq : equalRev l { name := h.nameOf template cc0, number := nextRevision revs, ctime := 0, data := template,
                         hashNum := h.hashNumOf template cc0, owner := .self, selMatch := true, marker := false } = true) :
    getRevisionsF h [] template curName cc0 revs s =
      (s, some ((revs.find? (·.name == curName)).getD l, l, cc0)) := by
  unfold getRevisionsF
  simp only
  rw [getLast?_filter_of_last _ revs l hl heq, hl]
  simp only [equalRev_self, if_true]

theorem truncateF_within (plan : List Fault) (lim : Int) (podRevs : List String) (revs : List Rev) (cur upd : Rev) (s : RevSt)
    (hlim : (((revs.filter (fun r => !(cur.name :: upd.name :: podRevs).contains r.name && r.owner == .self)).length : Nat) : Int) ≤ lim) :
    truncateF plan (some lim) podRevs revs cur upd s = (s, .ok) := by
  unfold truncateF
  simp only [hlim, if_true]

/-! ### unpacking `Final` -/

theorem Final.spec {h : Hashing} {i : SyncIn} (hf : Final h i) : specOk i = true := by
  unfold Final finalB at hf; simp only [Bool.and_eq_true] at hf; exact hf.1.1.1

theorem Final.pods {h : Hashing} {i : SyncIn} (hf : Final h i) : podsFinal i = true := by
  unfold Final finalB at hf; simp only [Bool.and_eq_true] at hf; exact hf.1.1.2

theorem Final.revs {h : Hashing} {i : SyncIn} (hf : Final h i) : revsFinal h i = true := by
  unfold Final finalB at hf; simp only [Bool.and_eq_true] at hf; exact hf.1.2

theorem Final.status {h : Hashing} {i : SyncIn} (hf : Final h i) : inconsistentStatus i.stored (expectedStatus i) = false := by
  unfold Final finalB at hf; simp only [Bool.and_eq_true, Bool.not_eq_true'] at hf; exact hf.2

structure SpecOk (i : SyncIn) : Prop where
  paused : i.paused = false
  sel : i.selectorOk = true
  del : i.view.deleting = false
  rep : i.view.replicas = some (replicasOf i.view)
  r0 : 0 ≤ replicasOf i.view
  strat : i.view.strat = .rolling ∨ i.view.strat = .onDelete
  lim : ∃ l, i.historyLimit = some l ∧ 0 ≤ l

theorem specOk_iff (i : SyncIn) : specOk i = true ↔ SpecOk i := by
  unfold specOk
  simp only [Bool.and_eq_true, Bool.not_eq_true', Bool.or_eq_true, beq_iff_eq, decide_eq_true_eq]
  constructor
  · rintro ⟨⟨⟨⟨⟨⟨h1, h2⟩, h3⟩, h4⟩, h5⟩, h6⟩, h7⟩
    refine ⟨h1, h2, h3, ?_, h5, h6, ?_⟩
    · unfold replicasOf
      cases hr : i.view.replicas with
      | none => rw [hr] at h4; cases h4
      | some r => rfl
    · cases hl : i.historyLimit with
      | none => rw [hl] at h7; cases h7
      | some l => rw [hl] at h7; exact ⟨l, rfl, by simpa using h7⟩
  · intro hs
    obtain ⟨l, hl, hl0⟩ := hs.lim
    refine ⟨⟨⟨⟨⟨⟨hs.paused, hs.sel⟩, hs.del⟩, ?_⟩, hs.r0⟩, hs.strat⟩, ?_⟩
    · rw [hs.rep]; rfl
    · rw [hl]; simpa using hl0

/-- the pods half, as propositions -/
structure PodsFinal (i : SyncIn) : Prop where
  own : ∀ c ∈ i.pods, c.owner = .self →
    c.selMatch = true ∧ c.member = true ∧ c.name = canonicalName i.setName c.pod.ord ∧
    c.pod.ord ∈ desired (replicasOf i.view) i.view.slots ∧ c.pod.healthy = true ∧ c.pod.idOk = true ∧ c.pod.stOk = true ∧
    (i.view.strat = .rolling → partOf i.view ≤ c.pod.ord → c.pod.rev = i.stored.updateRev)
  orphan : ∀ c ∈ i.pods, c.owner = .none → (c.selMatch && c.member) = false ∨ c.pod.terminating = true
  full : ∀ o ∈ desired (replicasOf i.view) i.view.slots, ∃ c ∈ ownPods i, c.pod.ord = o
  len : (ownPods i).length = (desired (replicasOf i.view) i.view.slots).length

theorem podsFinal_iff (i : SyncIn) : podsFinal i = true ↔ PodsFinal i := by
  unfold podsFinal
  simp only [Bool.and_eq_true, List.all_eq_true, List.any_eq_true, beq_iff_eq]
  constructor
  · rintro ⟨⟨h1, h2⟩, h3⟩
    refine ⟨?_, ?_, fun o ho => ?_, h3⟩
    · intro c hc hs
      have := h1 c hc
      rw [hs] at this
      simp only [Bool.and_eq_true, beq_iff_eq, List.contains_iff_mem] at this
      obtain ⟨⟨⟨⟨⟨⟨⟨a1, a2⟩, a3⟩, a4⟩, a5⟩, a6⟩, a7⟩, a8⟩ := this
      refine ⟨a1, a2, a3, a4, a5, a6, a7, fun hr hp => ?_⟩
      simpa [hr, hp] using a8
    · intro c hc hn
      have := h1 c hc
      rw [hn] at this
      revert this
      cases c.selMatch <;> cases c.member <;> cases c.pod.terminating <;> simp
    · obtain ⟨c, hc, hco⟩ := h2 o ho
      exact ⟨c, hc, hco⟩
  · intro hp
    refine ⟨⟨?_, fun o ho => ?_⟩, hp.len⟩
    · intro c hc
      cases ho : c.owner with
      | self =>
        obtain ⟨a1, a2, a3, a4, a5, a6, a7, a8⟩ := hp.own c hc ho
        simp only [a1, a2, a3, a5, a6, a7, Bool.and_true, beq_self_eq_true, Bool.true_and, Bool.and_eq_true,
          List.contains_iff_mem]
        refine ⟨a4, ?_⟩
        split_ifs with hc2
        · simp only [Bool.and_eq_true, beq_iff_eq, decide_eq_true_eq] at hc2
          simpa using a8 hc2.1 hc2.2
        · rfl
      | none =>
        have := hp.orphan c hc ho
        revert this
        cases c.selMatch <;> cases c.member <;> cases c.pod.terminating <;> simp
      | other => rfl
    · obtain ⟨c, hc, hco⟩ := hp.full o ho
      exact ⟨c, hc, hco⟩

theorem PodsFinal.noClaimWork {i : SyncIn} (hp : PodsFinal i) : NoClaimWork i.pods := by
  intro c hc
  constructor
  · intro hs
    obtain ⟨a1, a2, -⟩ := hp.own c hc hs
    simp [claimDecision, hs, a1, a2]
  · intro hs
    cases ho : c.owner with
    | self => exact absurd ho hs
    | other => simp [claimDecision, ho]
    | none =>
      rcases hp.orphan c hc ho with h | h
      · simp only [claimDecision, ho, Bool.false_or]
        simp [h]
      · simp only [claimDecision, ho, Bool.false_or, h]
        split_ifs <;> rfl

end Asts.C02p
