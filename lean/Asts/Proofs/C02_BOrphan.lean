import Asts.Proofs.C02_BSim
import Asts.Proofs.C02_LConverge

/-! C02, normalising rounds: what becomes of orphan pods. A pod adopted in a sync is an orphan again afterwards only if the
    same sync also repaired its identity (the Update call writes back the copy taken from the cache, which had no
    controller reference); its identity is then in order, so the next sync adopts it for good. -/
namespace Asts.C02p
open Asts Asts.L1c

/-! ### quiet revisions: the revision stages change nothing -/

theorem adoptS_quiet {S : List Rev} (hno : (listRevisions S).any (·.owner == .none) = false) : adoptS S = S := by
  unfold adoptS; rw [hno]; rfl

/-- the revision stages on a store whose newest listed revision records the template and whose listed revisions are all
    the set's own -/
theorem pick_quiet {h : Hashing} {tmpl : String} {cc0 : Int} {S : List Rev} (hn : (S.map (·.name)).Nodup)
    (hno : (listRevisions S).any (·.owner == .none) = false) {l : Rev}
    (hl : (sortRevs (listRevisions S)).getLast? = some l)
    (heq : equalRev l (SYb.freshOf h tmpl cc0 (sortRevs (listRevisions S))) = true) :
    PickOut h tmpl cc0 (adoptS S) S l cc0 := by
  rw [adoptS_quiet hno]
  have hlm : l ∈ sortRevs (listRevisions S) := List.mem_of_getLast? hl
  refine ⟨hn, ?_, hl, heq, ?_, fun _ _ _ => rfl, ?_, ?_⟩
  · intro x hx
    rw [List.any_eq_false] at hno
    have h1 := hno x hx
    have h2 := (SYb.mem_listRevisions hx).2.2
    cases hxo : x.owner with
    | self => rfl
    | none => rw [hxo] at h1; simp at h1
    | other => exact absurd hxo h2
  · intro n
    constructor
    · exact Or.inl
    · rintro (hm | rfl)
      · exact hm
      · exact List.mem_map_of_mem hlm
  · intro r hr
    exact any_name_of_mem (listed_sub hr) rfl
  · intro curName l0
    refine ⟨[], (by intro x hx; cases hx), ?_⟩
    rw [getRevisionsF_final h tmpl curName cc0 _ _ l hl heq]
    simp

/-! ### who owns the pods after a sync -/

/-- owned, or an orphan whose identity is in order -/
def OwnP (c : CPod) : Prop := c.owner = .self ∨ (c.owner = .none ∧ c.pod.idOk = true)

theorem setPod_mem {pods : List CPod} {p : CPod → Bool} {f : CPod → CPod} {c : CPod} (hc : c ∈ setPod pods p f) :
    ∃ c0 ∈ pods, c = f c0 ∨ c = c0 := by
  unfold setPod at hc
  rw [List.mem_map] at hc
  obtain ⟨c0, hc0, rfl⟩ := hc
  refine ⟨c0, hc0, ?_⟩
  split_ifs
  · exact Or.inl rfl
  · exact Or.inr rfl

theorem applyActs_ownP (setName : String) (orig : List CPod) (acts : List Action) (pods : List CPod)
    (hP : ∀ c ∈ pods, OwnP c) : ∀ c ∈ applyActs setName orig pods acts, OwnP c := by
  induction acts generalizing pods with
  | nil => exact hP
  | cons a rest ih =>
    cases a with
    | create o rev =>
      unfold applyActs
      apply ih
      intro c hc
      rw [List.mem_append, List.mem_singleton] at hc
      rcases hc with hc | rfl
      · exact hP c hc
      · exact Or.inl rfl
    | delete o id w =>
      unfold applyActs
      apply ih
      intro c hc
      obtain ⟨c0, hc0, hcc⟩ := setPod_mem hc
      have := hP c0 (List.mem_of_mem_filter hc0)
      rcases hcc with rfl | rfl
      · exact this
      · exact this
    | update o =>
      unfold applyActs
      apply ih
      intro c hc
      obtain ⟨c0, hc0, hcc⟩ := setPod_mem hc
      have := hP c0 hc0
      rcases hcc with rfl | rfl
      · simp only
        split_ifs
        · exact Or.inr ⟨rfl, rfl⟩
        · rcases this with h1 | h1
          · exact Or.inl h1
          · exact Or.inr ⟨h1.1, rfl⟩
      · exact this

theorem applyActs_noOrphan (setName : String) (orig : List CPod) (acts : List Action) (pods : List CPod)
    (hP : ∀ c ∈ pods, c.owner = .self) (hno : ∀ o, Action.update o ∈ acts → wasOrphan setName orig o = false) :
    ∀ c ∈ applyActs setName orig pods acts, c.owner = .self := by
  induction acts generalizing pods with
  | nil => exact hP
  | cons a rest ih =>
    have hno' : ∀ o, Action.update o ∈ rest → wasOrphan setName orig o = false :=
      fun o ho => hno o (List.mem_cons_of_mem _ ho)
    cases a with
    | create o rev =>
      unfold applyActs
      apply ih _ _ hno'
      intro c hc
      rw [List.mem_append, List.mem_singleton] at hc
      rcases hc with hc | rfl
      · exact hP c hc
      · rfl
    | delete o id w =>
      unfold applyActs
      apply ih _ _ hno'
      intro c hc
      obtain ⟨c0, hc0, hcc⟩ := setPod_mem hc
      have := hP c0 (List.mem_of_mem_filter hc0)
      rcases hcc with rfl | rfl
      · exact this
      · exact this
    | update o =>
      unfold applyActs
      apply ih _ _ hno'
      intro c hc
      obtain ⟨c0, hc0, hcc⟩ := setPod_mem hc
      have := hP c0 hc0
      have hw := hno o List.mem_cons_self
      unfold wasOrphan at hw
      rcases hcc with rfl | rfl
      · simp only [hw, Bool.false_eq_true, if_false]
        exact this
      · exact this

/-! ### where identity updates come from -/

theorem reps_created_src {setName : String} {P : List CPod} (hc : PodsCtx setName P) {v : SetView} {cur upd : String}
    {b : Int} {E : List Int} {i : Int} {q : Pod} (hm : (i, q) ∈ repsOf v cur upd b E (P.map (·.pod)))
    (hcr : q.created = true) : ∃ c ∈ P, c.pod = q ∧ c.pod.ord = i := by
  obtain ⟨_, hq⟩ := mem_repsOf.1 hm
  simp only at hq
  cases hsl : slotOf b E (P.map (·.pod)) i with
  | none =>
    rw [hsl] at hq
    simp only [Option.getD_none] at hq
    rw [hq, newPod_created] at hcr
    cases hcr
  | some q' =>
    rw [hsl] at hq
    simp only [Option.getD_some] at hq
    obtain ⟨c, hcm, hcp, hco, _⟩ := hc.slot_some hsl
    exact ⟨c, hcm, by rw [hcp, hq], hco⟩

theorem par_update_src {setName : String} {P : List CPod} (hc : PodsCtx setName P) {v : SetView} {cur upd : String}
    {b : Int} {E : List Int} {o : Int} (hu : Action.update o ∈ actsOf v cur upd b E P) :
    ∃ c ∈ P, c.pod.ord = o ∧ c.pod.idOk = false := by
  rw [actsOf_split, List.mem_append] at hu
  rcases hu with hu | hu
  · unfold actsA at hu
    rw [List.mem_append] at hu
    rcases hu with hu | hu
    · rw [List.mem_flatMap] at hu
      obtain ⟨⟨i, q⟩, hm, hq⟩ := hu
      unfold repActs1 at hq
      simp only at hq
      split_ifs at hq with h1 h2 h3
      · simp at hq
      · simp at hq
      · cases hq
      · simp only [List.mem_singleton, Action.update.injEq] at hq
        subst hq
        have hcr : q.created = true := by simpa using h2
        obtain ⟨c, hcm, hcp, hco⟩ := reps_created_src hc hm hcr
        refine ⟨c, hcm, hco, ?_⟩
        have hst := (hc.own c hcm).2.2.2.2.2.1
        rw [hcp] at hst ⊢
        cases hid : q.idOk
        · rfl
        · rw [hid, hst] at h3; simp at h3
    · unfold condActs at hu
      rw [List.mem_map] at hu
      obtain ⟨x, _, hx⟩ := hu
      cases hx
  · exact absurd hu (walkActs_no_update _ _)

theorem monoRep_update_src (v : SetView) (cur upd : String) (reps : List (Int × Pod)) {o : Int}
    (hu : Action.update o ∈ (monoRep v cur upd reps).1) :
    ∃ q, (o, q) ∈ reps ∧ q.created = true ∧ (q.idOk && q.stOk) = false := by
  induction reps with
  | nil => simp [monoRep] at hu
  | cons iq rest ih =>
    obtain ⟨i, q⟩ := iq
    unfold monoRep at hu
    split_ifs at hu with h1 h2
    · simp at hu
    · simp at hu
    · simp only [List.mem_append] at hu
      rcases hu with hu | hu
      · obtain ⟨he, hb⟩ := mem_idUpd hu
        simp only [Action.update.injEq] at he
        subst he
        exact ⟨q, List.mem_cons_self, by simpa using h2, hb⟩
      · obtain ⟨q', hq', h3⟩ := ih hu
        exact ⟨q', List.mem_cons_of_mem _ hq', h3⟩

theorem mono_update_src {setName : String} {P : List CPod} (hc : PodsCtx setName P) {v : SetView} {cur upd : String}
    {b : Int} {E : List Int} {o : Int} (hu : Action.update o ∈ monoActsOf v cur upd b E P) :
    ∃ c ∈ P, c.pod.ord = o ∧ c.pod.idOk = false := by
  rw [monoActsOf_split, List.mem_append] at hu
  rcases hu with hu | hu
  · unfold monoA at hu
    rw [List.mem_append] at hu
    rcases hu with hu | hu
    · obtain ⟨q, hm, hcr, hb⟩ := monoRep_update_src _ _ _ _ hu
      obtain ⟨c, hcm, hcp, hco⟩ := reps_created_src hc hm hcr
      refine ⟨c, hcm, hco, ?_⟩
      have hst := (hc.own c hcm).2.2.2.2.2.1
      rw [hcp] at hst ⊢
      cases hid : q.idOk
      · rfl
      · rw [hid, hst] at hb; simp at hb
    · split_ifs at hu
      · cases hu
      · cases hcl : (condemnedOf b E (P.map (·.pod))).reverse with
        | nil => rw [hcl] at hu; simp [monoCond] at hu
        | cons c0 r => rw [hcl] at hu; simp [monoCond] at hu
      · cases hu
  · exact absurd hu (walkActs_no_update _ _)

end Asts.C02p
