import Asts.Proofs.C02_BAdopt

/-! C02, normalising rounds: the resolution of the update revision (`getStatefulSetRevisions`) under the empty fault plan,
    exactly: reuse of the newest revision, renumbering of an older equal one, or creation after a walk past taken names. -/
namespace Asts.C02p
open Asts

theorem renumber_nil (name : String) (n : Int) (A : List Rev) (l0 : List String) :
    renumberF [] name n 4 { store := A, tr := { log := l0 } } =
      ({ store := A.map (SYb.setNumber name n), tr := { log := l0 ++ [s!"update:rev:{name}"] } }, true) := by
  rw [SYb.renumberF_succ]
  simp only [call_nil]
  rfl

/-- **the probe walk of `createControllerRevision`**: `n` taken names recording something else, then a free one -/
theorem createLoop_walk (h : Hashing) (fresh : Rev) (A : List Rev) (hA : (A.map (·.name)).Nodup) (n : Nat) :
    ∀ (fuel : Nat) (cc : Int) (l0 : List String), n < fuel →
      (∀ k < n, ∃ ex ∈ A, ex.name = h.nameOf fresh.data (cc + k) ∧ ex.data ≠ fresh.data) →
      (∀ r ∈ A, r.name ≠ h.nameOf fresh.data (cc + n)) →
      ∃ lg, (∀ e ∈ lg, NoPatch e) ∧
        createRevLoopF h [] fresh fuel cc { store := A, tr := { log := l0 } } =
          ({ store := insertByName (SYb.candidate h fresh (cc + n)) A, tr := { log := l0 ++ lg } },
           some (SYb.candidate h fresh (cc + n), cc + n)) := by
  induction n with
  | zero =>
    intro fuel cc l0 hf _ hfree
    obtain ⟨f, rfl⟩ : ∃ f, fuel = f + 1 := ⟨fuel - 1, by omega⟩
    rw [SYb.createRevLoopF_succ]
    have hfind : A.find? (·.name == h.nameOf fresh.data cc) = none := by
      apply find_name_none
      intro r hr
      have := hfree r hr
      simpa using this
    have hk : SYb.createKind h [] fresh cc { store := A, tr := { log := l0 } } = none := by
      unfold SYb.createKind
      simp only [call_nil, hfind, Option.isSome_none, Bool.false_eq_true, if_false]
    rw [hk]
    refine ⟨[s!"create:rev:{h.nameOf fresh.data cc}"], ?_, ?_⟩
    · intro e he; rw [List.mem_singleton] at he; rw [he]; exact noPatch_create_rev _
    · simp only [Nat.cast_zero, add_zero]
      rfl
  | succ n ih =>
    intro fuel cc l0 hf hwalk hfree
    obtain ⟨f, rfl⟩ : ∃ f, fuel = f + 1 := ⟨fuel - 1, by omega⟩
    rw [SYb.createRevLoopF_succ]
    obtain ⟨ex, hexm, hexn, hexd⟩ := hwalk 0 (by omega)
    simp only [Nat.cast_zero, add_zero] at hexn
    have hfind : A.find? (·.name == h.nameOf fresh.data cc) = some ex := by
      rw [← hexn]; exact find_name_some hA hexm
    have hk : SYb.createKind h [] fresh cc { store := A, tr := { log := l0 } } = some .alreadyExists := by
      unfold SYb.createKind
      simp only [call_nil, hfind, Option.isSome_some, if_true]
    rw [hk]
    simp only [SYb.afterCreate, call_nil, hfind]
    have hd : (ex.data == fresh.data) = false := by simpa using hexd
    rw [if_neg (by simp [hd])]
    obtain ⟨lg, hlg, hrun⟩ := ih f (cc + 1)
      (l0 ++ [(SYb.RevCall.create (h.nameOf fresh.data cc)).key] ++ [(SYb.RevCall.get (h.nameOf fresh.data cc)).key])
      (by omega)
      (by
        intro k hk'
        obtain ⟨ex', h1, h2, h3⟩ := hwalk (k + 1) (by omega)
        refine ⟨ex', h1, ?_, h3⟩
        rw [h2]; congr 1; push_cast; ring)
      (by
        intro r hr
        have := hfree r hr
        intro e; apply this; rw [e]; congr 1; push_cast; ring)
    have e1 : cc + 1 + (n : Int) = cc + ((n + 1 : Nat) : Int) := by push_cast; ring
    rw [e1] at hrun
    refine ⟨[(SYb.RevCall.create (h.nameOf fresh.data cc)).key, (SYb.RevCall.get (h.nameOf fresh.data cc)).key] ++ lg, ?_, ?_⟩
    · intro e he
      simp only [List.mem_append, List.mem_cons, List.not_mem_nil, or_false] at he
      rcases he with (rfl | rfl) | he
      · exact noPatch_create_rev _
      · exact noPatch_get_rev _
      · exact hlg e he
    · have : SYb.afterGet h [] fresh cc { store := A, tr := { log := l0 } } =
          { store := A, tr := { log := l0 ++ [(SYb.RevCall.create (h.nameOf fresh.data cc)).key] ++
            [(SYb.RevCall.get (h.nameOf fresh.data cc)).key] } } := by
        simp [SYb.afterGet, SYb.afterCreate, call_nil]
      rw [this, hrun]
      simp [List.append_assoc]

/-- `equalRev` against the fresh revision does not look at the listing the fresh revision was numbered from -/
theorem equalRev_freshOf (h : Hashing) (tmpl : String) (cc : Int) (L1 L2 : List Rev) (r : Rev) :
    equalRev r (SYb.freshOf h tmpl cc L1) = equalRev r (SYb.freshOf h tmpl cc L2) := rfl

theorem equalRev_of_same {a b : Rev} (h1 : a.hashNum = b.hashNum) (h2 : a.data = b.data) : equalRev a b = true := by
  rw [SYb.equalRev_iff]
  refine ⟨h2, ?_⟩
  intro x y hx hy
  rw [h1, hy] at hx
  exact (Option.some.inj hx).symm

/-- what the revision stages need to know about the store they start from (after adoption) -/
structure RevCtx (h : Hashing) (tmpl : String) (cc0 : Int) (A : List Rev) : Prop where
  names : (A.map (·.name)).Nodup
  owned : ∀ x ∈ listRevisions A, x.owner = .self
  labels : h.hashNumOf tmpl cc0 = none ∨ ∀ r ∈ A, r.data = tmpl → r.hashNum ≠ none

/-- what they establish: the store `G`, the update revision `upd`, the collision count `cc` -/
structure PickOut (h : Hashing) (tmpl : String) (cc0 : Int) (A G : List Rev) (upd : Rev) (cc : Int) : Prop where
  names : (G.map (·.name)).Nodup
  owned : ∀ x ∈ listRevisions G, x.owner = .self
  last : (sortRevs (listRevisions G)).getLast? = some upd
  eqv : equalRev upd (SYb.freshOf h tmpl cc (sortRevs (listRevisions G))) = true
  lnames : ∀ n, n ∈ (sortRevs (listRevisions G)).map (·.name) ↔ (n ∈ (sortRevs (listRevisions A)).map (·.name) ∨ n = upd.name)
  hist : ∀ q : Rev → Bool, q upd = false → (∀ r r' : Rev, r.name = r'.name → r.owner = r'.owner → q r = q r') →
    (sortRevs (listRevisions G)).filter q = (sortRevs (listRevisions A)).filter q
  sub : ∀ r ∈ sortRevs (listRevisions A), G.any (·.name == r.name) = true
  run : ∀ (curName : String) (l0 : List String), ∃ lg, (∀ e ∈ lg, NoPatch e) ∧
    getRevisionsF h [] tmpl curName cc0 (sortRevs (listRevisions A)) { store := A, tr := { log := l0 } } =
      ({ store := G, tr := { log := l0 ++ lg } },
       some (((sortRevs (listRevisions A)).find? (·.name == curName)).getD upd, upd, cc))

theorem listed_sub {A : List Rev} {r : Rev} (hr : r ∈ sortRevs (listRevisions A)) : r ∈ A :=
  (SYb.mem_listRevisions (SYb.mem_sortRevs.1 hr)).1

theorem any_name_of_mem {G : List Rev} {r x : Rev} (hx : x ∈ G) (hn : x.name = r.name) : G.any (·.name == r.name) = true :=
  List.any_eq_true.2 ⟨x, hx, by simpa using hn⟩

theorem vis_setNumber (name : String) (n : Int) (r : Rev) : Vis (SYb.setNumber name n r) ↔ Vis r := by
  unfold SYb.setNumber Vis; split <;> rfl

theorem setNumber_owner (name : String) (n : Int) (r : Rev) : (SYb.setNumber name n r).owner = r.owner := by
  unfold SYb.setNumber; split <;> rfl

theorem setNumber_ne {name : String} {n : Int} {r : Rev} (h : r.name ≠ name) : SYb.setNumber name n r = r := by
  unfold SYb.setNumber; simp [h]

/-- **some listed revision records the template**: the newest one is used as it is, or the last equal one is renumbered -/
theorem pick_equal {h : Hashing} {tmpl : String} {cc0 : Int} {A : List Rev} (ctx : RevCtx h tmpl cc0 A)
    (hE : ∃ r ∈ sortRevs (listRevisions A), equalRev r (SYb.freshOf h tmpl cc0 []) = true) :
    ∃ G upd, PickOut h tmpl cc0 A G upd cc0 := by
  set L := sortRevs (listRevisions A) with hL
  have hLs : SYb.SortedRevs L := SYb.sortRevs_sorted _
  have hLn : (L.map (·.name)).Nodup := SYb.sorted_listing_names_nodup A
  obtain ⟨r0, hr0, hr0e⟩ := hE
  have hmem0 : r0 ∈ SYb.equalsOf h tmpl cc0 L := by
    unfold SYb.equalsOf
    rw [List.mem_filter]
    exact ⟨hr0, hr0e⟩
  cases he : (SYb.equalsOf h tmpl cc0 L).getLast? with
  | none => rw [List.getLast?_eq_none_iff] at he; rw [he] at hmem0; cases hmem0
  | some e =>
    obtain ⟨l, hl⟩ := SYb.equalsOf_getLast?_some_revs he
    have hem := SYb.mem_equalsOf (List.mem_of_getLast? he)
    have helm : e ∈ L := hem.1
    have hlm : l ∈ L := List.mem_of_getLast? hl
    have heA : e ∈ A := listed_sub helm
    have hlA : l ∈ A := listed_sub hlm
    by_cases hle : equalRev l e = true
    · -- the newest revision is used as it is
      have hlf : equalRev l (SYb.freshOf h tmpl cc0 L) = true := by
        have hd : l.data = tmpl := (SYb.equalRev_data hle).trans hem.2.2
        rcases ctx.labels with hn | hall
        · rw [SYb.equalRev_iff_of_nonnumeric (Or.inr hn)]; exact hd
        · rw [SYb.equalRev_iff]
          refine ⟨hd, ?_⟩
          intro x y hx hy
          have h1 := (SYb.equalRev_iff l e).1 hle
          have h2 := (SYb.equalRev_iff e _).1 hem.2.1
          cases hee : e.hashNum with
          | none => exact absurd hee (hall e heA hem.2.2)
          | some z => rw [h1.2 x z hx hee]; exact h2.2 z y hee hy
      refine ⟨A, l, ctx.names, ctx.owned, hl, hlf, ?_, fun _ _ _ => rfl, ?_, ?_⟩
      · intro n
        constructor
        · exact Or.inl
        · rintro (hn | rfl)
          · exact hn
          · exact List.mem_map_of_mem hlm
      · intro r hr
        exact any_name_of_mem (listed_sub hr) rfl
      · intro curName l0
        refine ⟨[], (by intro x hx; cases hx), ?_⟩
        rw [SYb.getRevisionsF_eq, SYb.pickF_of_some he hl, if_pos hle]
        simp
    · -- the last equal revision is renumbered
      have hnum : ¬ (e.number == (SYb.freshOf h tmpl cc0 L).number) = true := by
        have := SYb.nextRevision_gt hLs e helm
        simp only [SYb.freshOf, beq_iff_eq]
        omega
      set n := (SYb.freshOf h tmpl cc0 L).number with hn
      have hnL : ∀ r ∈ L, r.number < n := SYb.nextRevision_gt hLs
      set upd : Rev := { e with number := n } with hupd
      have hupd' : SYb.setNumber e.name n e = upd := SYb.setNumber_self e n
      set G := A.map (SYb.setNumber e.name n) with hG
      have hGn : (G.map (·.name)).Nodup := by
        rw [hG, List.map_map]
        have : ((fun r : Rev => r.name) ∘ SYb.setNumber e.name n) = (fun r => r.name) := by
          funext r; exact SYb.setNumber_name _ _ r
        rw [this]; exact ctx.names
      have hX : sortRevs (listRevisions G) = L.filter (fun r => r.name != e.name) ++ [upd] := by
        apply listing_eq_of_mem hGn
        · apply sorted_snoc (sorted_filter hLs _)
          intro r hr
          exact hnL r (List.mem_of_mem_filter hr)
        · rw [List.map_append, List.nodup_append]
          refine ⟨(List.Sublist.map _ List.filter_sublist).nodup hLn, by simp, ?_⟩
          intro a ha b hb
          rw [List.mem_map] at ha
          obtain ⟨r, hr, rfl⟩ := ha
          simp only [List.map_cons, List.map_nil, List.mem_singleton] at hb
          rw [List.mem_filter] at hr
          rw [hb]
          simpa using hr.2
        · intro r
          rw [List.mem_append, List.mem_filter, List.mem_singleton]
          constructor
          · rintro (⟨hr, hne⟩ | rfl)
            · have hrA := (mem_listing ctx.names).1 hr
              refine ⟨List.mem_map.2 ⟨r, hrA.1, setNumber_ne (by simpa using hne)⟩, hrA.2⟩
            · refine ⟨List.mem_map.2 ⟨e, heA, hupd'⟩, ?_⟩
              rw [← hupd', vis_setNumber]
              exact ((mem_listing ctx.names).1 helm).2
          · rintro ⟨hr, hv⟩
            rw [List.mem_map] at hr
            obtain ⟨y, hy, rfl⟩ := hr
            rw [vis_setNumber] at hv
            have hyL : y ∈ L := (mem_listing ctx.names).2 ⟨hy, hv⟩
            by_cases hye : y.name = e.name
            · have : y = e := List.inj_on_of_nodup_map ctx.names hy heA hye
              right; rw [this, hupd']
            · left; rw [setNumber_ne hye]; exact ⟨hyL, by simpa using hye⟩
      refine ⟨G, upd, hGn, ?_, ?_, ?_, ?_, ?_, ?_, ?_⟩
      · intro x hx
        obtain ⟨hxG, hv1, hv2⟩ := SYb.mem_listRevisions hx
        rw [List.mem_map] at hxG
        obtain ⟨y, hy, rfl⟩ := hxG
        rw [setNumber_owner]
        apply ctx.owned
        rw [SYb.mem_listRevisions_iff ctx.names]
        have : Vis (SYb.setNumber e.name n y) := ⟨hv1, hv2⟩
        rw [vis_setNumber] at this
        exact ⟨hy, this.1, this.2⟩
      · rw [hX]; simp
      · have : equalRev e (SYb.freshOf h tmpl cc0 L) = true := hem.2.1
        rw [SYb.equalRev_iff] at this ⊢
        exact this
      · intro m
        rw [hX]
        simp only [List.map_append, List.mem_append, List.mem_map, List.mem_filter, List.map_cons, List.map_nil,
          List.mem_singleton]
        constructor
        · rintro (⟨r, ⟨hr, _⟩, rfl⟩ | rfl)
          · exact Or.inl ⟨r, hr, rfl⟩
          · exact Or.inr rfl
        · rintro (⟨r, hr, rfl⟩ | rfl)
          · by_cases hre : r.name = e.name
            · right; exact hre
            · left; exact ⟨r, ⟨hr, by simpa using hre⟩, rfl⟩
          · right; rfl
      · intro q hqu hq
        rw [hX, List.filter_append, List.filter_filter]
        have : [upd].filter q = [] := by simp [hqu]
        rw [this, List.append_nil]
        apply List.filter_congr
        intro r hr
        by_cases hre : r.name = e.name
        · have : r = e := List.inj_on_of_nodup_map hLn hr helm hre
          have hqe : q e = false := by rw [hq e upd rfl rfl]; exact hqu
          rw [this, hqe]; simp
        · have : (r.name != e.name) = true := by simpa using hre
          simp [this]
      · intro r hr
        exact any_name_of_mem (List.mem_map_of_mem (f := SYb.setNumber e.name n) (listed_sub hr)) (SYb.setNumber_name _ _ r)
      · intro curName l0
        refine ⟨[s!"update:rev:{e.name}"], ?_, ?_⟩
        · intro x hx; rw [List.mem_singleton] at hx; rw [hx]; exact noPatch_update_rev _
        · rw [SYb.getRevisionsF_eq, SYb.pickF_of_some he hl, if_neg hle, if_neg hnum, renumber_nil]
          simp only [if_true, Option.map_some]
          rfl

/-- **no listed revision records the template**: one is created on the first free probe name -/
theorem pick_create {h : Hashing} {tmpl : String} {cc0 : Int} {A : List Rev} (ctx : RevCtx h tmpl cc0 A)
    (hne : ∀ r ∈ sortRevs (listRevisions A), equalRev r (SYb.freshOf h tmpl cc0 []) = false)
    (n : Nat) (hn : n < A.length + 8)
    (hwalk : ∀ k < n, ∃ ex ∈ A, ex.name = h.nameOf tmpl (cc0 + k) ∧ ex.data ≠ tmpl)
    (hfree : ∀ r ∈ A, r.name ≠ h.nameOf tmpl (cc0 + n)) :
    PickOut h tmpl cc0 A
      (insertByName (SYb.candidate h (SYb.freshOf h tmpl cc0 (sortRevs (listRevisions A))) (cc0 + n)) A)
      (SYb.candidate h (SYb.freshOf h tmpl cc0 (sortRevs (listRevisions A))) (cc0 + n)) (cc0 + n) := by
  set L := sortRevs (listRevisions A) with hL
  have hLs : SYb.SortedRevs L := SYb.sortRevs_sorted _
  have hLn : (L.map (·.name)).Nodup := SYb.sorted_listing_names_nodup A
  set cand := SYb.candidate h (SYb.freshOf h tmpl cc0 L) (cc0 + n) with hcand
  have hcn : cand.name = h.nameOf tmpl (cc0 + n) := rfl
  have hcnum : cand.number = nextRevision L := rfl
  have hcv : Vis cand := ⟨Or.inl rfl, by simp [hcand, SYb.candidate, SYb.freshOf]⟩
  have hGn : ((insertByName cand A).map (·.name)).Nodup := by
    rw [((SYb.insertByName_perm cand A).map _).nodup_iff, List.map_cons, List.nodup_cons]
    refine ⟨?_, ctx.names⟩
    intro hm
    rw [List.mem_map] at hm
    obtain ⟨r, hr, hre⟩ := hm
    exact hfree r hr (hre.trans hcn)
  have hX : sortRevs (listRevisions (insertByName cand A)) = L ++ [cand] := by
    apply listing_eq_of_mem hGn
    · apply sorted_snoc hLs
      intro r hr
      rw [hcnum]; exact SYb.nextRevision_gt hLs r hr
    · rw [List.map_append, List.nodup_append]
      refine ⟨hLn, by simp, ?_⟩
      intro a ha b hb
      rw [List.mem_map] at ha
      obtain ⟨r, hr, rfl⟩ := ha
      simp only [List.map_cons, List.map_nil, List.mem_singleton] at hb
      rw [hb, hcn]
      exact hfree r (listed_sub hr)
    · intro r
      rw [List.mem_append, List.mem_singleton, SYb.mem_insertByName]
      constructor
      · rintro (hr | rfl)
        · have := (mem_listing ctx.names).1 hr
          exact ⟨Or.inr this.1, this.2⟩
        · exact ⟨Or.inl rfl, hcv⟩
      · rintro ⟨hr | hr, hv⟩
        · exact Or.inr hr
        · exact Or.inl ((mem_listing ctx.names).2 ⟨hr, hv⟩)
  have heq : SYb.equalsOf h tmpl cc0 L = [] := by
    unfold SYb.equalsOf
    rw [List.filter_eq_nil_iff]
    intro r hr
    have := hne r hr
    rw [equalRev_freshOf h tmpl cc0 [] L] at this
    simp [this]
  refine ⟨hGn, ?_, ?_, ?_, ?_, ?_, ?_, ?_⟩
  · intro x hx
    obtain ⟨hxG, hv1, hv2⟩ := SYb.mem_listRevisions hx
    rw [SYb.mem_insertByName] at hxG
    rcases hxG with rfl | hxA
    · rfl
    · exact ctx.owned x ((SYb.mem_listRevisions_iff ctx.names).2 ⟨hxA, hv1, hv2⟩)
  · rw [hX]; simp
  · exact equalRev_of_same rfl rfl
  · intro m
    rw [hX]
    simp only [List.map_append, List.mem_append, List.map_cons, List.map_nil, List.mem_singleton]
    rfl
  · intro q hqu _
    rw [hX, List.filter_append]
    have : [cand].filter q = [] := by simp [hqu]
    rw [this, List.append_nil]
  · intro r hr
    exact any_name_of_mem (SYb.mem_insertByName.2 (Or.inr (listed_sub hr))) rfl
  · intro curName l0
    obtain ⟨lg, hlg, hrun⟩ := createLoop_walk h (SYb.freshOf h tmpl cc0 L) A ctx.names n (A.length + 8) cc0 l0 hn hwalk hfree
    refine ⟨lg, hlg, ?_⟩
    rw [SYb.getRevisionsF_eq, (SYb.pickF_of_none heq).1]
    show (_, _) = _
    rw [hrun]
    rfl

end Asts.C02p
