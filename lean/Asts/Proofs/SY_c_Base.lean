import Asts.Spec.Sync
import Mathlib.Tactic

/-! # C09: vocabulary shared by the proofs

* `planAt plan k occ` — the fault the plan assigns to the `occ`-th call with key `k`;
* `cnt log k` — how often `k` occurs in `log`; `Tr.call` = append + `planAt … (cnt …)`;
* distinctness of the call keys (the keys are interpolated strings; the facts below are all that is used about them);
* `RetryOk` — the shape "one of the first `fuel` attempts is unfaulted and all earlier ones are Conflicts". -/
namespace Asts.SYc

/-- the fault (if any) the plan assigns to the `occ`-th (0-based) call with key `k` -/
def planAt (plan : List Fault) (k : String) (occ : Nat) : Option ErrKind :=
  (plan.find? (fun f => f.key == k && f.occ == occ)).map (·.kind)

/-- occurrences of `k` in a log -/
def cnt (log : List String) (k : String) : Nat := (log.filter (· == k)).length

theorem call_eq (t : Tr) (plan : List Fault) (k : String) :
    t.call plan k = ({ log := t.log ++ [k] }, planAt plan k (cnt t.log k)) := rfl

@[simp] theorem call_log (t : Tr) (plan : List Fault) (k : String) : (t.call plan k).1.log = t.log ++ [k] := rfl
@[simp] theorem call_fault (t : Tr) (plan : List Fault) (k : String) :
    (t.call plan k).2 = planAt plan k (cnt t.log k) := rfl

@[simp] theorem planAt_nil (k : String) (occ : Nat) : planAt [] k occ = none := rfl

@[simp] theorem cnt_nil (k : String) : cnt [] k = 0 := rfl
theorem cnt_append (a b : List String) (k : String) : cnt (a ++ b) k = cnt a k + cnt b k := by
  simp [cnt, List.filter_append]
@[simp] theorem cnt_single_self (k : String) : cnt [k] k = 1 := by simp [cnt]
theorem cnt_single_ne {k k' : String} (h : k' ≠ k) : cnt [k'] k = 0 := by simp [cnt, h]
theorem cnt_snoc_self (a : List String) (k : String) : cnt (a ++ [k]) k = cnt a k + 1 := by
  rw [cnt_append, cnt_single_self]
theorem cnt_snoc_ne (a : List String) {k k' : String} (h : k' ≠ k) : cnt (a ++ [k']) k = cnt a k := by
  rw [cnt_append, cnt_single_ne h, Nat.add_zero]

/-! ### the call keys -/

def kUpdateRev (n : String) : String := s!"update:rev:{n}"
def kGetRev (n : String) : String := s!"get:rev:{n}"
def kPatchRev (n : String) : String := s!"patch:rev:{n}"
def kCreateRev (n : String) : String := s!"create:rev:{n}"
def kDeleteRev (n : String) : String := s!"delete:rev:{n}"
def kPatchPod (n : String) : String := s!"patch:pod:{n}"
def kCreatePod (n : String) : String := s!"create:pod:{n}"
def kDeletePod (n : String) : String := s!"delete:pod:{n}"
def kUpdatePod (n : String) : String := s!"update:pod:{n}"

theorem kGetRev_ne_kUpdateRev (a b : String) : kGetRev a ≠ kUpdateRev b := by
  intro h
  have := congrArg String.toList h
  simp [kGetRev, kUpdateRev, toString, String.toList_append] at this

/-! ### the retry shape -/

/-- among the attempts `0 … fuel-1`, one is unfaulted and all earlier ones answered Conflict -/
def RetryOk (f : Nat → Option ErrKind) (fuel : Nat) : Prop :=
  ∃ j, j < fuel ∧ f j = none ∧ ∀ j', j' < j → f j' = some ErrKind.conflict

theorem retryOk_zero (f : Nat → Option ErrKind) : ¬ RetryOk f 0 := by
  rintro ⟨j, hj, _⟩; omega

theorem retryOk_succ (f : Nat → Option ErrKind) (fuel : Nat) :
    RetryOk f (fuel + 1) ↔ f 0 = none ∨ (f 0 = some ErrKind.conflict ∧ RetryOk (fun j => f (j + 1)) fuel) := by
  constructor
  · rintro ⟨j, hj, hn, hc⟩
    cases j with
    | zero => exact Or.inl hn
    | succ j =>
      refine Or.inr ⟨hc 0 (by omega), j, by omega, hn, ?_⟩
      intro j' hj'; exact hc (j' + 1) (by omega)
  · rintro (h | ⟨h0, j, hj, hn, hc⟩)
    · exact ⟨0, by omega, h, by intro j' hj'; omega⟩
    · refine ⟨j + 1, by omega, hn, ?_⟩
      intro j' hj'
      cases j' with
      | zero => exact h0
      | succ j' => exact hc j' (by omega)

instance (f : Nat → Option ErrKind) (fuel : Nat) : Decidable (RetryOk f fuel) := by
  unfold RetryOk; infer_instance

end Asts.SYc
