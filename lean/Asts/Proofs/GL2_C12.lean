import Mathlib.Tactic
import Asts.Proofs.GL2_Removed

/-! # GL2 — `C12.completion` at sync level: from the recorded actions to the pod-control calls of the log

`monitorSync` judges the completion rule on `podActs i log creates` — the pod-control calls it reads back from the call
log. `C12complete` looks at the actions only through "was anything created or deleted". A create / delete read back from
the log of the model is a `create:pod:` / `delete:pod:` entry, and such an entry is the pod-control call of a recorded
create / delete action (`sync_log_decomp`). -/
namespace Asts.GL2
open Asts Asts.SYb

/-- a create or delete among the actions read back from a log comes from an entry that splits into
    `create:pod:<n>` / `delete:pod:<n>` -/
theorem podActsGo_any (i : SyncIn) (creates : List String) :
    ∀ (log seen : List String) (prev : Option String),
      (podActsGo i creates seen prev log).any (fun a => a.isCreate || a.isDelete) = true →
      ∃ e ∈ log, ∃ n, e.splitOn ":" = ["create", "pod", n] ∨ e.splitOn ":" = ["delete", "pod", n]
  | [], _, _, h => by simp [podActsGo] at h
  | e :: rest, seen, prev, h => by
    unfold podActsGo at h
    split at h
    · rename_i n heq
      exact ⟨e, by simp, n, Or.inl heq⟩
    · rename_i n heq
      exact ⟨e, by simp, n, Or.inr heq⟩
    · split at h
      · obtain ⟨e', he', hn⟩ := podActsGo_any i creates rest _ _ h
        exact ⟨e', List.mem_cons_of_mem _ he', hn⟩
      · rw [List.any_cons] at h
        simp only [OAct.isCreate, OAct.isDelete, Bool.or_self, Bool.false_or] at h
        obtain ⟨e', he', hn⟩ := podActsGo_any i creates rest _ _ h
        exact ⟨e', List.mem_cons_of_mem _ he', hn⟩
    · obtain ⟨e', he', hn⟩ := podActsGo_any i creates rest _ _ h
      exact ⟨e', List.mem_cons_of_mem _ he', hn⟩

theorem parseEntry_of_split {e v r n : String} (h : e.splitOn ":" = [v, r, n]) :
    parseEntry e = { verb := v, res := r, name := n } := by
  unfold parseEntry
  rw [h]

/-- a `create:pod:` / `delete:pod:` entry of the log of a sync is the call of a recorded create / delete -/
theorem sync_podCD_entry (h : Hashing) (i : SyncIn) (plan : List Fault) {e : String} (he : e ∈ (syncF h i plan).log)
    (hp : pre "create:pod:" e = true ∨ pre "delete:pod:" e = true) :
    ∃ a ∈ (syncF h i plan).acts, isCreateA a = true ∨ ∃ o id w, a = .delete o id w := by
  obtain ⟨P, Q, hdec, hP, hQ⟩ := sync_log_decomp h i plan
  rw [hdec] at he
  rcases List.mem_append.1 he with he | he
  · rcases List.mem_append.1 he with he | he
    · exfalso
      rcases hp with hp | hp
      · have := (hP e he).1; rw [hp] at this; cases this
      · have := (hP e he).2; rw [hp] at this; cases this
    · obtain ⟨l, hl, hel⟩ := List.mem_flatten.1 he
      obtain ⟨a, ha, rfl⟩ := List.mem_map.mp hl
      rcases hp with hp | hp
      · obtain ⟨o, r, rfl, _⟩ := actLog_create hel hp
        exact ⟨_, ha, Or.inl rfl⟩
      · obtain ⟨o, id, w, rfl, _, _⟩ := actLog_delete hel hp
        exact ⟨_, ha, Or.inr ⟨o, id, w, rfl⟩⟩
  · exfalso
    rcases hp with hp | hp
    · have := (hQ e he).1; rw [hp] at this; cases this
    · have := (hQ e he).2; rw [hp] at this; cases this

/-- nothing created or deleted among the recorded actions ⇒ nothing created or deleted among the calls read back from the
    log, whatever create labels the harness recorded -/
theorem podActs_quiet (h : Hashing) (i : SyncIn) (plan : List Fault) (creates : List String)
    (hq : (observe (syncF h i plan).acts).any (fun a => a.isCreate || a.isDelete) = false) :
    (podActs i (syncF h i plan).log creates).any (fun a => a.isCreate || a.isDelete) = false := by
  by_contra hne
  have hany : (podActs i (syncF h i plan).log creates).any (fun a => a.isCreate || a.isDelete) = true := by
    cases hb : (podActs i (syncF h i plan).log creates).any (fun a => a.isCreate || a.isDelete) with
    | true => rfl
    | false => exact absurd hb hne
  obtain ⟨e, he, n, hn⟩ := podActsGo_any i creates _ _ _ hany
  have hshape := sync_log_shapes h i plan e he
  have hp : pre "create:pod:" e = true ∨ pre "delete:pod:" e = true := by
    rcases hn with hn | hn
    · obtain ⟨rfl, _⟩ := eq_of_parse hshape pre_create_pod (Or.inr rfl) (parseEntry_of_split hn)
      exact Or.inl (pre_self _ _)
    · obtain ⟨rfl, _⟩ := eq_of_parse hshape pre_delete_pod (Or.inr rfl) (parseEntry_of_split hn)
      exact Or.inr (pre_self _ _)
  obtain ⟨a, ha, hk⟩ := sync_podCD_entry h i plan he hp
  rw [List.any_eq_false] at hq
  have := hq (Action.observe a) (by unfold observe; exact List.mem_map_of_mem ha)
  rcases hk with hk | ⟨o, id, w, rfl⟩
  · cases a <;> simp [isCreateA] at hk
    simp [Action.observe, OAct.isCreate] at this
  · simp [Action.observe, OAct.isDelete] at this

/-- **`C12.completion` (sync level)** from the completion rule on the recorded actions (`Glue.sync_C12_completion`) -/
theorem C12completionSync_of_observed (h : Hashing) (i : SyncIn) (plan : List Fault) (creates : List String)
    (hobs : ∀ st, (syncF h i plan).status = some st →
      C12complete (syncF h i plan).cur (syncF h i plan).upd ((syncF h i plan).claimed.map (·.pod))
        (observe (syncF h i plan).acts) st = true) :
    C12completionSync i (syncF h i plan) (syncF h i plan).observe creates = true := by
  unfold C12completionSync
  rw [Bool.or_eq_true]
  right
  show (match (syncF h i plan).status with
    | some st => C12complete (syncF h i plan).cur (syncF h i plan).upd ((syncF h i plan).claimed.map (·.pod))
        (podActs i (syncF h i plan).log creates) st
    | none => true) = true
  cases hst : (syncF h i plan).status with
  | none => rfl
  | some st =>
    simp only
    have h0 := hobs st hst
    unfold C12complete at h0 ⊢
    rw [Bool.or_eq_true] at h0 ⊢
    rcases h0 with h0 | h0
    · exact Or.inl h0
    · right
      rw [Bool.and_eq_true, Bool.and_eq_true] at h0 ⊢
      refine ⟨h0.1, ?_⟩
      have hq : (observe (syncF h i plan).acts).any (fun a => a.isCreate || a.isDelete) = false := by simpa using h0.2
      rw [podActs_quiet h i plan creates hq]
      rfl

end Asts.GL2
