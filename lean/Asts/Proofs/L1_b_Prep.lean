import Asts.Proofs.Desired
import Asts.Spec.Reconcile
import Mathlib.Tactic

/-! # L1_b — shared invariants of `prepare` (used by the C05 and C07 proofs)

* list facts: `eraseDups`, `find?` with an injective key, last element of a sorted list;
* what `wfSnapshot` means (`distinctOrds` ⇒ the ordinals are `Nodup`, every pod is created);
* `prepare_inv`: the index list of `reps` is `desired r v.slots`; every entry of `reps` is a pod of the snapshot with that
  ordinal or the fresh object `newPod`; `condemned` is, up to order, the pods of the snapshot whose ordinal is `≥ 0` and
  not desired, and it is sorted by ordinal. -/
namespace Asts.L1b
open List

/-! ### generic list facts -/

theorem length_eraseDups_le : ∀ (l : List Int), l.eraseDups.length ≤ l.length
  | [] => by simp
  | a :: as => by
    rw [List.eraseDups_cons]
    have h1 := length_eraseDups_le (as.filter (fun b => !b == a))
    have h2 := List.length_filter_le (fun b => !b == a) as
    simp only [List.length_cons]; omega
termination_by l => l.length
decreasing_by
  simp only [List.length_cons]
  exact Nat.lt_succ_of_le (List.length_filter_le _ _)

theorem nodup_of_length_eraseDups : ∀ (l : List Int), l.eraseDups.length = l.length → l.Nodup
  | [] => by simp
  | a :: as => by
    intro h
    rw [List.eraseDups_cons] at h
    simp only [List.length_cons] at h
    have h1 := length_eraseDups_le (as.filter (fun b => !b == a))
    have h2 := List.length_filter_le (fun b => !b == a) as
    have hf : (as.filter (fun b => !b == a)).length = as.length := by omega
    have hall : ∀ b ∈ as, (!b == a) = true := List.length_filter_eq_length_iff.1 hf
    have hfe : as.filter (fun b => !b == a) = as := List.filter_eq_self.2 hall
    rw [hfe] at h
    have ih := nodup_of_length_eraseDups as (by omega)
    refine List.nodup_cons.2 ⟨?_, ih⟩
    intro ha
    have := hall a ha
    simp at this
termination_by l => l.length

/-- a list all of whose members are equal has at most one member after `eraseDups` -/
theorem length_eraseDups_of_same {l : List Int} (h : ∀ a ∈ l, ∀ b ∈ l, a = b) : l.eraseDups.length ≤ 1 := by
  cases l with
  | nil => simp
  | cons a as =>
    rw [List.eraseDups_cons]
    have : as.filter (fun b => !b == a) = [] := by
      rw [List.filter_eq_nil_iff]
      intro b hb
      have := h b (List.mem_cons_of_mem _ hb) a (List.mem_cons_self ..)
      simp [this]
    rw [this]; simp

theorem find?_of_inj {α β : Type} [DecidableEq β] (k : α → β) {l : List α}
    (hinj : ∀ x ∈ l, ∀ y ∈ l, k x = k y → x = y) {p : α} (hp : p ∈ l) :
    l.find? (fun x => k x == k p) = some p := by
  cases hf : l.find? (fun x => k x == k p) with
  | none =>
    rw [List.find?_eq_none] at hf
    have := hf p hp
    simp at this
  | some q =>
    have hq := List.mem_of_find?_eq_some hf
    have hk := List.find?_some hf
    simp only [beq_iff_eq] at hk
    rw [hinj q hq p hp hk]

/-- in a list sorted by `R` the last element is `R`-above every other one -/
theorem rel_last_of_pairwise {α : Type} {R : α → α → Prop} {l : List α} (hs : l.Pairwise R) {c : α}
    (hc : l.reverse.head? = some c) : ∀ x ∈ l, x = c ∨ R x c := by
  cases hrev : l.reverse with
  | nil => rw [hrev] at hc; simp at hc
  | cons d t =>
    rw [hrev] at hc
    simp only [List.head?_cons, Option.some.injEq] at hc
    subst hc
    have hl : l = t.reverse ++ [d] := by
      have := congrArg List.reverse hrev
      simpa using this
    rw [hl] at hs ⊢
    intro x hx
    rcases List.mem_append.1 hx with hx | hx
    · right
      exact (List.pairwise_append.1 hs).2.2 x hx d (by simp)
    · left; simpa using hx

/-! ### snapshots -/

theorem _root_.Asts.Pod.healthy_iff (p : Pod) :
    p.healthy = true ↔ p.phase = .running ∧ p.ready = true ∧ p.terminating = false := by
  simp [Pod.healthy, Pod.runningAndReady, and_assoc]

theorem _root_.Asts.Pod.healthy_created {p : Pod} (h : p.healthy = true) : p.created = true := by
  rw [Pod.healthy_iff] at h
  simp [Pod.created, h.1]

theorem _root_.Asts.Pod.failed_created {p : Pod} (h : (p.failed || p.succeeded) = true) : p.created = true := by
  simp only [Pod.failed, Pod.succeeded, Bool.or_eq_true, beq_iff_eq] at h
  rcases h with h | h <;> simp [Pod.created, h]

@[simp] theorem newPod_created (v : SetView) (cur upd : String) (i : Int) : (newPod v cur upd i).created = false := by
  simp [newPod, Pod.created]

@[simp] theorem newPod_ord (v : SetView) (cur upd : String) (i : Int) : (newPod v cur upd i).ord = i := rfl

@[simp] theorem newPod_rev (v : SetView) (cur upd : String) (i : Int) :
    (newPod v cur upd i).rev = newPodRev v cur upd i := rfl

theorem newPod_id_ge (v : SetView) (cur upd : String) (i : Int) : freshId ≤ (newPod v cur upd i).id := by
  simp [newPod]

theorem wfSnapshot_created {pods : List Pod} (h : wfSnapshot pods = true) : ∀ p ∈ pods, p.created = true := by
  simp only [wfSnapshot, Bool.and_eq_true, List.all_eq_true] at h
  exact h.1

theorem wfSnapshot_nodup {pods : List Pod} (h : wfSnapshot pods = true) : (pods.map (·.ord)).Nodup := by
  simp only [wfSnapshot, Bool.and_eq_true, distinctOrds, beq_iff_eq] at h
  exact nodup_of_length_eraseDups _ (by simpa using h.2)

theorem wfSnapshot_inj {pods : List Pod} (h : wfSnapshot pods = true) :
    ∀ p ∈ pods, ∀ q ∈ pods, p.ord = q.ord → p = q :=
  fun _ hp _ hq he => List.inj_on_of_nodup_map (wfSnapshot_nodup h) hp hq he

theorem podAt_of_mem {pods : List Pod} (h : wfSnapshot pods = true) {p : Pod} (hp : p ∈ pods) :
    podAt pods p.ord = some p :=
  find?_of_inj (fun q : Pod => q.ord) (wfSnapshot_inj h) hp

theorem podById_of_mem {pods : List Pod} (hid : ∀ p ∈ pods, ∀ q ∈ pods, p.id = q.id → p = q) {p : Pod}
    (hp : p ∈ pods) : podById pods p.id = some p :=
  find?_of_inj (fun q : Pod => q.id) hid hp

theorem healthyAt_of_mem {pods : List Pod} (h : wfSnapshot pods = true) {p : Pod} (hp : p ∈ pods)
    (hh : p.healthy = true) : healthyAt pods p.ord = true := by
  simp [healthyAt, podAt_of_mem h hp, hh]

/-! ### the ordinal range -/

theorem mem_idx (b : Int) (E : List Int) (o : Int) :
    o ∈ ((List.range b.toNat).map Int.ofNat).filter (fun i => !E.contains i) ↔ inRange b E o = true := by
  simp only [List.mem_filter, List.mem_map, List.mem_range, inRange, Bool.and_eq_true, decide_eq_true_eq]
  constructor
  · rintro ⟨⟨n, hn, rfl⟩, hE⟩
    simp only [Int.ofNat_eq_natCast]
    exact ⟨⟨by omega, by omega⟩, hE⟩
  · rintro ⟨⟨h0, h1⟩, hE⟩
    exact ⟨⟨o.toNat, by omega, by simp [Int.toNat_of_nonneg h0]⟩, hE⟩

theorem maxReplicaAndSlots_facts (r : Int) (S : List Int) (h0 : 0 ≤ r) :
    0 ≤ (maxReplicaAndSlots r S).1 ∧ ∀ x ∈ (maxReplicaAndSlots r S).2, 0 ≤ x := by
  obtain ⟨h1, h2⟩ := extend_spec (sorted_dedupSort S) r h0
  unfold maxReplicaAndSlots
  refine ⟨by rw [h1]; omega, ?_⟩
  intro x hx
  rw [h2, List.mem_filter] at hx
  simpa using hx.2 |> fun h => (by simp at h; exact h.1)

theorem isCondemned_iff {b : Int} {E : List Int} (hb : 0 ≤ b) (hE : ∀ x ∈ E, 0 ≤ x) (o : Int) :
    isCondemned b E o = true ↔ 0 ≤ o ∧ inRange b E o = false := by
  by_cases hc : E.contains o = true
  · have hmem : o ∈ E := by simpa using hc
    have := hE o hmem
    simp [isCondemned, inRange, hmem, this]
  · simp only [Bool.not_eq_true] at hc
    simp only [isCondemned, inRange, hc, Bool.not_false, Bool.and_true, Bool.or_false]
    by_cases h1 : 0 ≤ o <;> by_cases h2 : o < b <;> simp [h1, h2] <;> omega

/-! ### `condemnedOf` -/

theorem mem_insertByOrd {p x : Pod} {l : List Pod} : x ∈ insertByOrd p l ↔ x = p ∨ x ∈ l := by
  induction l with
  | nil => simp [insertByOrd]
  | cons q qs ih =>
    unfold insertByOrd
    split_ifs
    · simp
    · simp [ih]; tauto

theorem sorted_insertByOrd {p : Pod} {l : List Pod} (h : l.Pairwise (fun a b => a.ord ≤ b.ord)) :
    (insertByOrd p l).Pairwise (fun a b => a.ord ≤ b.ord) := by
  induction l with
  | nil => simp [insertByOrd]
  | cons q qs ih =>
    unfold insertByOrd
    rw [List.pairwise_cons] at h
    split_ifs with h1
    · rw [List.pairwise_cons]
      refine ⟨?_, List.pairwise_cons.2 h⟩
      intro x hx
      rcases List.mem_cons.1 hx with rfl | hx
      · omega
      · have := h.1 x hx; omega
    · rw [List.pairwise_cons]
      refine ⟨?_, ih h.2⟩
      intro x hx
      rcases mem_insertByOrd.1 hx with rfl | hx
      · omega
      · exact h.1 x hx

theorem foldl_insertByOrd (l acc : List Pod) (hacc : acc.Pairwise (fun a b => a.ord ≤ b.ord)) :
    (∀ x, x ∈ l.foldl (fun acc p => insertByOrd p acc) acc ↔ x ∈ l ∨ x ∈ acc) ∧
    (l.foldl (fun acc p => insertByOrd p acc) acc).Pairwise (fun a b => a.ord ≤ b.ord) := by
  induction l generalizing acc with
  | nil => simp [hacc]
  | cons a as ih =>
    simp only [List.foldl_cons]
    obtain ⟨h1, h2⟩ := ih (insertByOrd a acc) (sorted_insertByOrd hacc)
    refine ⟨fun x => ?_, h2⟩
    rw [h1, mem_insertByOrd, List.mem_cons]; tauto

theorem mem_condemnedOf {b : Int} {E : List Int} {pods : List Pod} {x : Pod} :
    x ∈ condemnedOf b E pods ↔ x ∈ pods ∧ isCondemned b E x.ord = true := by
  unfold condemnedOf
  rw [(foldl_insertByOrd _ [] List.Pairwise.nil).1]
  simp [List.mem_filter]

theorem sorted_condemnedOf (b : Int) (E : List Int) (pods : List Pod) :
    (condemnedOf b E pods).Pairwise (fun a b => a.ord ≤ b.ord) :=
  (foldl_insertByOrd _ [] List.Pairwise.nil).2

/-! ### `slotOf` -/

theorem slotOf_some {b : Int} {E : List Int} {pods : List Pod} {o : Int} {p : Pod}
    (h : slotOf b E pods o = some p) : p ∈ pods ∧ p.ord = o := by
  unfold slotOf at h
  have := List.mem_of_getLast? h
  rw [List.mem_filter] at this
  refine ⟨this.1, ?_⟩
  have h2 := this.2
  simp only [Bool.and_eq_true, beq_iff_eq] at h2
  exact h2.1

/-! ### `prepare` -/

/-- what the proofs use of a successful `prepare` -/
structure PrepInv (v : SetView) (cur upd : String) (pods : List Pod) (D : List Int) (P : Prepared) : Prop where
  /-- the occupied-or-vacant slots walked by the replica loop are exactly the desired ordinals, ascending -/
  idx : P.reps.map (·.1) = D
  /-- each slot holds a pod of the snapshot with that ordinal, or the fresh object -/
  rep : ∀ x ∈ P.reps, (x.2 ∈ pods ∧ x.2.ord = x.1) ∨ x.2 = newPod v cur upd x.1
  /-- the condemned pods are the snapshot pods with a parsed ordinal outside the desired set -/
  condMem : ∀ c, c ∈ P.condemned ↔ c ∈ pods ∧ 0 ≤ c.ord ∧ c.ord ∉ D
  /-- ascending by ordinal -/
  condSorted : P.condemned.Pairwise (fun a b => a.ord ≤ b.ord)

theorem prepare_inv {v : SetView} {cur upd : String} {pods : List Pod} {r : Int} {P : Prepared}
    (hr : v.replicas = some r) (h0 : 0 ≤ r) (h : prepare v cur upd pods = .ok P) :
    PrepInv v cur upd pods (desired r v.slots) P := by
  have hD := podOrdinals_eq_desired r v.slots h0
  obtain ⟨hb, hE⟩ := maxReplicaAndSlots_facts r v.slots h0
  unfold podOrdinals at hD
  simp only at hD
  unfold prepare at h
  rw [hr] at h
  simp only at h
  generalize maxReplicaAndSlots r v.slots = bE at h hD hb hE
  obtain ⟨b, E⟩ := bE
  simp only at h hD hb hE
  split at h
  · cases h
  · simp only [Except.ok.injEq] at h
    subst h
    have hmemD : ∀ o, o ∈ desired r v.slots ↔ inRange b E o = true := by
      intro o; rw [← hD]; exact mem_idx b E o
    refine ⟨?_, ?_, ?_, ?_⟩
    · simp only [List.map_map]
      rw [← hD]
      conv_rhs => rw [← List.map_id (List.filter _ _)]
      rfl
    · intro x hx
      simp only [List.mem_map] at hx
      obtain ⟨i, _, rfl⟩ := hx
      simp only
      cases hs : slotOf b E pods i with
      | none => right; rfl
      | some p => left; simpa using slotOf_some hs
    · intro c
      simp only
      rw [mem_condemnedOf, isCondemned_iff hb hE, hmemD]
      simp
    · exact sorted_condemnedOf b E pods

/-- the slots are walked in strictly increasing ordinal order (no hypothesis on `replicas`) -/
theorem prepare_sorted {v : SetView} {cur upd : String} {pods : List Pod} {P : Prepared}
    (h : prepare v cur upd pods = .ok P) : (P.reps.map (·.1)).Pairwise (· < ·) := by
  unfold prepare at h
  cases hr : v.replicas with
  | none => rw [hr] at h; cases h
  | some r =>
    rw [hr] at h
    simp only at h
    generalize maxReplicaAndSlots r v.slots = bE at h
    obtain ⟨b, E⟩ := bE
    simp only at h
    split at h
    · cases h
    · simp only [Except.ok.injEq] at h
      subst h
      simp only [List.map_map]
      rw [List.pairwise_map]
      apply List.Pairwise.filter
      rw [List.pairwise_map]
      exact (List.pairwise_lt_range).imp (fun h => by simpa using h)

end Asts.L1b
