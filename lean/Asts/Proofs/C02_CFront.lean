import Asts.Proofs.C02_CConverge
import Asts.Proofs.C02_BBound

/-! C02, convergence with pod objects that are not members of the set: the decidable front end and the bound. -/
namespace Asts.C02p
open Asts Asts.L1c

/-- `preCB` with pod objects that are no members of the set allowed: the clauses on pods speak about the members; pod
    names are distinct (as in any namespace); a non-member does not carry the canonical name of a desired ordinal (in the
    real world a pod with such a name IS a member; in the model `member` is a field of its own); a non-member the set
    controls has no colon in its name (so that the model's log entry of its release can be read back) -/
def preMB (h : Hashing) (i : SyncIn) : Bool :=
  specOk i &&
  i.pods.all (fun c => !c.member || (c.owner != .other && c.selMatch && c.name == canonicalName i.setName c.pod.ord &&
    decide (0 ≤ c.pod.ord) && c.pod.stOk && c.pod.created)) &&
  distinctOrdsC (i.pods.filter (·.member)) &&
  decide ((i.pods.map (·.name)).Nodup) &&
  i.pods.all (fun c => c.member ||
    !((desired (replicasOf i.view) i.view.slots).map (canonicalName i.setName)).contains c.name) &&
  i.pods.all (fun c => c.member || c.owner != .self || noColon c.name) &&
  decide ((i.store.map (·.name)).Nodup) && noColon i.setName && hashOkB h i && labelsOkB h i

/-- room in the model's id scheme: non-members, members outside the desired set, a full desired set -/
def roomMB (i : SyncIn) : Bool :=
  decide ((i.pods.filter (fun c => !c.member)).length +
    ((i.pods.filter (·.member)).filter (fun c => !(desired (replicasOf i.view) i.view.slots).contains c.pod.ord)).length +
    (replicasOf i.view).toNat ≤ freshId)

/-- no Failed/Succeeded member outside the desired set -/
def noFsOutMB (i : SyncIn) : Bool :=
  i.pods.all (fun c => !c.member || !(c.pod.failed || c.pod.succeeded) ||
    (desired (replicasOf i.view) i.view.slots).contains c.pod.ord)

/-- the class of the general convergence theorem, non-members allowed -/
def preNMB (h : Hashing) (i : SyncIn) : Bool :=
  preMB h i && (partB i.view || legacyB i.view) && roomMB i && (i.view.parallel || noFsOutMB i)

/-- what `preNMB` asks beyond `wfWorld` -/
def extraMB (h : Hashing) (i : SyncIn) : Bool :=
  i.view.replicas.isSome &&
  i.pods.all (fun c => !c.member || c.pod.stOk) &&
  distinctOrdsC (i.pods.filter (·.member)) &&
  decide ((i.pods.map (·.name)).Nodup) &&
  i.pods.all (fun c => c.member ||
    !((desired (replicasOf i.view) i.view.slots).map (canonicalName i.setName)).contains c.name) &&
  i.pods.all (fun c => c.member || c.owner != .self || noColon c.name) &&
  decide ((i.store.map (·.name)).Nodup) && noColon i.setName && hashOkB h i && labelsOkB h i && roomMB i

theorem settle_src (i : SyncIn) {x : CPod} (hx : x ∈ (settle i).pods) :
    ∃ c0 ∈ i.pods, c0.pod.terminating = false ∧ key (settleOne c0) = key x := by
  rw [settle_pods] at hx
  obtain ⟨y, hy, hk⟩ := mem_reindex_sort hx
  rw [List.mem_map] at hy
  obtain ⟨c0, hc0, rfl⟩ := hy
  rw [List.mem_filter] at hc0
  exact ⟨c0, hc0.1, by simpa using hc0.2, hk⟩

theorem settle_kp (i : SyncIn) : KeyPerm (settle i).pods ((i.pods.filter (fun c => !c.pod.terminating)).map settleOne) := by
  rw [settle_pods]; exact keyPerm_reindex_sort _

theorem filter_settleStage (i : SyncIn) (q : CPod → Bool) (hq : ∀ c, q (settleOne c) = q c) :
    (((i.pods.filter (fun c => !c.pod.terminating)).map settleOne).filter q).length ≤ (i.pods.filter q).length := by
  rw [List.filter_map, List.length_map, List.filter_filter]
  have : (q ∘ settleOne) = q := by funext c; exact hq c
  rw [this]
  apply List.Sublist.length_le
  apply List.monotone_filter_right
  intro c hc
  simp only [Bool.and_eq_true] at hc
  exact hc.1

/-- the fairness step takes a world inside `preMB` to one the argument speaks about -/
theorem preM_settle {h : Hashing} {i : SyncIn} (hb : preMB h i = true) (hroom : roomMB i = true) :
    PreM (settle i) ∧ roomM (settle i) ∧ RevPrem h (settle i) := by
  unfold preMB at hb
  simp only [Bool.and_eq_true, List.all_eq_true, decide_eq_true_eq, beq_iff_eq, bne_iff_ne, ne_eq, Bool.or_eq_true,
    Bool.not_eq_true'] at hb
  obtain ⟨⟨⟨⟨⟨⟨⟨⟨⟨hspec, hmem⟩, hdist⟩, hpn⟩, hin⟩, hic⟩, hnames⟩, hcol⟩, hhash⟩, hlab⟩ := hb
  have hs := (specOk_iff i).1 hspec
  have hkp := settle_kp i
  have hords : ((i.pods.filter (·.member)).map (·.pod.ord)).Nodup := by
    unfold distinctOrdsC at hdist
    apply nodup_of_eraseDups_length
    simpa using hdist
  have hfield : ∀ x ∈ (settle i).pods, ∃ c0 ∈ i.pods, c0.owner = x.owner ∧ c0.member = x.member ∧ c0.selMatch = x.selMatch ∧
      c0.name = x.name ∧ c0.pod.ord = x.pod.ord ∧ c0.pod.stOk = x.pod.stOk ∧ (c0.pod.created = true → x.pod.created = true) := by
    intro x hx
    obtain ⟨c0, hc0, _, hk⟩ := settle_src i hx
    refine ⟨c0, hc0, ?_, ?_, ?_, ?_, ?_, ?_, ?_⟩
    · rw [← settleOne_owner c0]; exact key_transfer (·.owner) (fun _ => rfl) hk
    · rw [← settleOne_member c0]; exact key_transfer (·.member) (fun _ => rfl) hk
    · rw [← settleOne_sel c0]; exact key_transfer (·.selMatch) (fun _ => rfl) hk
    · rw [← settleOne_name c0]; exact key_transfer (·.name) (fun _ => rfl) hk
    · rw [← settleOne_ord c0]; exact key_transfer (·.pod.ord) (fun _ => rfl) hk
    · have e : (settleOne c0).pod.stOk = x.pod.stOk := key_transfer (·.pod.stOk) (fun _ => rfl) hk
      rw [← e]; unfold settleOne; split_ifs <;> rfl
    · intro hcr
      have e : (settleOne c0).pod.created = x.pod.created := key_transfer (·.pod.created) (fun _ => rfl) hk
      rw [← e]; unfold settleOne; split_ifs
      · exact hcr
      · simp [Pod.created]
  have hroom0 := hroom
  unfold roomMB at hroom0
  simp only [decide_eq_true_eq] at hroom0
  have hsmR : (replicasOf i.view).toNat ≤ freshId := by omega
  have hsm : i.pods.length ≤ freshId := by
    have h1 := List.length_eq_length_filter_add (l := i.pods) (fun c => c.member)
    have h2 := length_split_le (D := desired (replicasOf i.view) i.view.slots) hords
    rw [(desired_isDesired _ _).len] at h2
    have h3 : (i.pods.filter (fun c => !decide (c.member = true))).length = (i.pods.filter (fun c => !c.member)).length := by
      congr 1; apply List.filter_congr; intro c _; simp
    have h4 : (i.pods.filter (fun c => decide (c.member = true))).length = (i.pods.filter (·.member)).length := by
      congr 1; apply List.filter_congr; intro c _; simp
    omega
  have hsmall : (settle i).pods.length ≤ freshId := le_trans (settle_length_le i) hsm
  have hD : desired (replicasOf (settle i).view) (settle i).view.slots = desired (replicasOf i.view) i.view.slots := rfl
  refine ⟨⟨⟨hs.paused, hs.sel, hs.del, hs.rep, hs.r0, hs.strat, hs.lim⟩, ?_, ?_, ?_, ?_, ?_,
    idOk_of_idPos (settle_idPos i) hsmall, hsmall, hsmR, rfl, rfl, hs.del,
    fun c hc => (settle_settled i c hc).1, noColon_iff hcol, hnames⟩, ?_, revPrem_of hhash hlab⟩
  · intro x hx hm
    obtain ⟨c0, hc0, e1, e2, e3, e4, e5, e7, e8⟩ := hfield x hx
    have hm0 : c0.member = true := by rw [e2]; exact hm
    rcases hmem c0 hc0 with hf | hg
    · rw [hm0] at hf; cases hf
    · obtain ⟨⟨⟨⟨⟨a1, a2⟩, a3⟩, a4⟩, a5⟩, a6⟩ := hg
      rw [← e1, ← e3, ← e4, ← e5, ← e7]
      refine ⟨?_, a2, a3, a4, a5, e8 a6⟩
      cases hco : c0.owner with
      | self => exact Or.inl rfl
      | none => exact Or.inr rfl
      | other => exact absurd hco a1
  · have h1 := (hkp.filter (·.member) (fun _ => rfl)).ords
    rw [h1.nodup_iff, List.filter_map, List.map_map, List.filter_filter]
    have e1 : ((fun c : CPod => c.member) ∘ settleOne) = fun c => c.member := by funext c; exact settleOne_member c
    have e2 : ((fun c : CPod => c.pod.ord) ∘ settleOne) = fun c => c.pod.ord := by funext c; exact settleOne_ord c
    rw [e1, e2]
    refine (List.Sublist.map _ ?_).nodup hords
    apply List.monotone_filter_right
    intro c hc
    simp only [Bool.and_eq_true] at hc
    exact hc.1
  · rw [(keyPerm_names hkp).nodup_iff, List.map_map]
    have e2 : ((fun c : CPod => c.name) ∘ settleOne) = fun c => c.name := by funext c; exact settleOne_name c
    rw [e2]
    exact (List.Sublist.map _ List.filter_sublist).nodup hpn
  · intro x hx hm o ho
    obtain ⟨c0, hc0, _, e2, _, e4, _⟩ := hfield x hx
    have hm0 : c0.member = false := by rw [e2]; exact hm
    rcases hin c0 hc0 with hf | hg
    · rw [hm0] at hf; cases hf
    · rw [← e4]
      intro heq
      have : ((desired (replicasOf i.view) i.view.slots).map (canonicalName i.setName)).contains c0.name = true := by
        rw [List.contains_iff_mem, List.mem_map]
        exact ⟨o, ho, heq.symm⟩
      rw [this] at hg; cases hg
  · intro x hx hm hself
    obtain ⟨c0, hc0, e1, e2, _, e4, _⟩ := hfield x hx
    have hm0 : c0.member = false := by rw [e2]; exact hm
    have hs0 : c0.owner = .self := by rw [e1]; exact hself
    rcases hic c0 hc0 with (hf | hf) | hg
    · rw [hm0] at hf; cases hf
    · exact absurd hs0 hf
    · rw [← e4]; exact noColon_iff hg
  · unfold roomM
    rw [hD]
    unfold roomMB at hroom
    simp only [decide_eq_true_eq] at hroom
    have h1 : ((settle i).pods.filter (fun c => !c.member)).length ≤ (i.pods.filter (fun c => !c.member)).length := by
      rw [(hkp.filter (fun c => !c.member) (fun _ => rfl)).length]
      exact filter_settleStage i _ (fun c => by simp only [settleOne_member])
    have h2 : (((settle i).pods.filter (·.member)).filter
        (fun c => !(desired (replicasOf i.view) i.view.slots).contains c.pod.ord)).length ≤
        ((i.pods.filter (·.member)).filter (fun c => !(desired (replicasOf i.view) i.view.slots).contains c.pod.ord)).length := by
      rw [List.filter_filter, List.filter_filter,
        (hkp.filter (fun c => !(desired (replicasOf i.view) i.view.slots).contains c.pod.ord && c.member) (fun _ => rfl)).length]
      exact filter_settleStage i _ (fun c => by simp only [settleOne_member, settleOne_ord])
    have e : replicasOf (settle i).view = replicasOf i.view := rfl
    rw [e]
    omega

/-- the first stage -/
theorem stg_settle {h : Hashing} {i : SyncIn} (hb : preNMB h i = true) :
    (legacyB i.view = true → i.view.parallel = true → Stg h (LParK h) (settle i)) ∧
    (legacyB i.view = true → i.view.parallel = false → Stg h (LMonoK h) (settle i)) ∧
    (legacyB i.view = false → i.view.parallel = true → Stg h (ParK h) (settle i)) ∧
    (legacyB i.view = false → i.view.parallel = false → Stg h (MonoK h) (settle i)) := by
  unfold preNMB at hb
  simp only [Bool.and_eq_true, Bool.or_eq_true] at hb
  obtain ⟨⟨⟨hpre, hmode⟩, hroom⟩, hpol⟩ := hb
  obtain ⟨hp, hrm, hr⟩ := preM_settle hpre hroom
  obtain ⟨G, upd, cc, hpick, hcc⟩ := pick_of_prem hp.names hr
  have hpc := hp.preC
  have hs : NSC h (prepW h (mOf (settle i))) := by
    refine ⟨prepW_norm hpc (mOf_pick hpick), idOk_ownM hp.ids, ?_, ?_⟩
    · intro c hc
      rw [prepW_pods, mem_ownM] at hc
      obtain ⟨c0, hc0, _, rfl⟩ := hc
      exact settle_settled i c0 hc0
    · show ((ownM (settle i).pods).filter (fun c => !(desired (replicasOf i.view) i.view.slots).contains c.pod.ord)).length +
        (replicasOf i.view).toNat ≤ freshId
      rw [ownM_filter_len _ _ (fun _ => rfl)]
      unfold roomM at hrm
      have e : replicasOf (settle i).view = replicasOf i.view := rfl
      have hD : desired (replicasOf (settle i).view) (settle i).view.slots = desired (replicasOf i.view) i.view.slots := rfl
      rw [hD, e] at hrm
      omega
  have hnofs : i.view.parallel = false → ∀ c ∈ (prepW h (mOf (settle i))).pods, c.pod.fs = true →
      inRange (bOf (prepW h (mOf (settle i)))) (EOf (prepW h (mOf (settle i)))) c.pod.ord = true := by
    intro hpar c hc hfs
    rw [hpar] at hpol
    have h4 : noFsOutMB i = true := by simpa using hpol
    rw [prepW_pods, mem_ownM] at hc
    obtain ⟨x, hx, hxm, rfl⟩ := hc
    obtain ⟨c0, hc0, _, hk⟩ := settle_src i hx
    have e1 : (settleOne c0).pod.fs = x.pod.fs := key_transfer (·.pod.fs) (fun _ => rfl) hk
    have e2 : (settleOne c0).pod.ord = x.pod.ord := key_transfer (·.pod.ord) (fun _ => rfl) hk
    have e3 : (settleOne c0).member = x.member := key_transfer (·.member) (fun _ => rfl) hk
    rw [settleOne_fs] at e1; rw [settleOne_ord] at e2; rw [settleOne_member] at e3
    unfold noFsOutMB at h4
    rw [List.all_eq_true] at h4
    have := h4 c0 hc0
    have hxfs : x.pod.fs = true := hfs
    have hc0fs : (c0.pod.failed || c0.pod.succeeded) = true := by rw [← e1] at hxfs; exact hxfs
    have hc0m : c0.member = true := by rw [e3]; exact hxm
    simp only [hc0fs, hc0m, Bool.not_true, Bool.false_or, List.contains_iff_mem] at this
    show inRange _ _ x.pod.ord = true
    rw [← e2]
    exact (mem_desired_iff hs.norm _).1 this
  have hstg : ∀ {K : SyncIn → Prop}, K (prepW h (mOf (settle i))) → Stg h K (settle i) :=
    fun hk => ⟨hp, hrm, ⟨G, upd, cc, hpick, hcc⟩, hk⟩
  refine ⟨?_, ?_, ?_, ?_⟩
  · intro hleg hpar
    obtain ⟨hroll, hru⟩ := legacy_of_legacyB hleg
    exact hstg ⟨hs, hpar, hroll, hru⟩
  · intro hleg hpar
    obtain ⟨hroll, hru⟩ := legacy_of_legacyB hleg
    exact hstg ⟨⟨hs, hpar, hnofs hpar⟩, hroll, hru⟩
  · intro hleg hpar
    have hpart : PartOk i.view := by
      rcases hmode with hm | hm
      · exact partOk_of_partB hm
      · rw [hleg] at hm; cases hm
    exact hstg ⟨hs, hpar, hpart⟩
  · intro hleg hpar
    have hpart : PartOk i.view := by
      rcases hmode with hm | hm
      · exact partOk_of_partB hm
      · rw [hleg] at hm; cases hm
    exact hstg ⟨⟨hs, hpar, hnofs hpar⟩, hpart⟩

/-- **general convergence, pod objects that are not members of the set allowed** -/
theorem converge_generalM {h : Hashing} {i : SyncIn} (hb : preNMB h i = true) :
    ∃ n ≤ (if legacyB i.view then muL (prepW h (mOf (settle i))) else muPods (prepW h (mOf (settle i)))) + 3,
      Final h (roundsN h n i) := by
  obtain ⟨s1, s2, s3, s4⟩ := stg_settle hb
  cases hleg : legacyB i.view with
  | true =>
    simp only [if_true]
    cases hpar : i.view.parallel with
    | true => exact converge_stg_rounds (lpar_conv h) (s1 hleg hpar)
    | false => exact converge_stg_rounds (lmono_conv h) (s2 hleg hpar)
  | false =>
    simp only [Bool.false_eq_true, if_false]
    cases hpar : i.view.parallel with
    | true => exact converge_stg_rounds (par_conv h) (s3 hleg hpar)
    | false => exact converge_stg_rounds (mono_conv h) (s4 hleg hpar)

/-- the bound is within what the monitor allows -/
theorem generalM_le_roundBound (h : Hashing) (i : SyncIn) :
    (if legacyB i.view then muL (prepW h (mOf (settle i))) else muPods (prepW h (mOf (settle i)))) + 3 ≤ roundBound i := by
  have hlen : (prepW h (mOf (settle i))).pods.length ≤ i.pods.length := by
    rw [prepW_pods]
    unfold ownM
    rw [List.length_map]
    exact le_trans (List.length_filter_le _ _) (settle_length_le i)
  have hrep : replicasOf (prepW h (mOf (settle i))).view = replicasOf i.view := rfl
  have hnt : ∀ c ∈ (prepW h (mOf (settle i))).pods, c.pod.terminating = false := by
    intro c hc
    rw [prepW_pods, mem_ownM] at hc
    obtain ⟨c0, hc0, _, rfl⟩ := hc
    exact (settle_settled i c0 hc0).1
  have h1 := muPods_le_gen (prepW h (mOf (settle i))) hnt
  have h2 := muL_le_gen (prepW h (mOf (settle i)))
  rw [hrep] at h1 h2
  unfold roundBound
  split_ifs <;> omega

end Asts.C02p

namespace Asts.C02p
open Asts Asts.L1c

/-- `preNMB` is `wfWorld` plus `extraMB` -/
theorem preNMB_of_wf {h : Hashing} {i : SyncIn} (hw : wfWorld h i = true) (hx : extraMB h i = true) : preNMB h i = true := by
  obtain ⟨hspec, _, hpods⟩ := (wfWorld_iff h i).1 hw
  unfold wfSpec at hspec
  simp only [Bool.and_eq_true, Bool.not_eq_true', Bool.or_eq_true, beq_iff_eq, decide_eq_true_eq, List.all_eq_true] at hspec
  obtain ⟨⟨⟨⟨⟨⟨⟨⟨⟨⟨s1, s2⟩, s3⟩, _⟩, _⟩, _⟩, s7⟩, s8⟩, s9⟩, _⟩, s11⟩ := hspec
  unfold extraMB at hx
  simp only [Bool.and_eq_true, List.all_eq_true, decide_eq_true_eq] at hx
  obtain ⟨⟨⟨⟨⟨⟨⟨⟨⟨⟨x1, x2⟩, x3⟩, x4⟩, x5⟩, x6⟩, x10⟩, x11⟩, x12⟩, x13⟩, x14⟩ := hx
  have hpod : ∀ c ∈ i.pods, c.member = true → c.name = canonicalName i.setName c.pod.ord ∧ 0 ≤ c.pod.ord ∧ c.selMatch = true ∧
      c.owner ≠ .other ∧ c.pod.created = true ∧
      (i.view.parallel = true ∨ ((c.pod.failed || c.pod.succeeded) = true →
        (desired (replicasOf i.view) i.view.slots).contains c.pod.ord = true)) := by
    intro c hc hm
    have hwf := hpods c hc
    unfold wfPod at hwf
    rw [if_pos hm] at hwf
    simp only [Bool.and_eq_true, beq_iff_eq, decide_eq_true_eq, bne_iff_ne, ne_eq, Bool.or_eq_true, Bool.not_eq_true',
      Bool.and_eq_false_imp, Bool.not_eq_false'] at hwf
    obtain ⟨⟨⟨⟨⟨w1, w2⟩, w3⟩, w4⟩, w5⟩, w6⟩ := hwf
    refine ⟨w1, w2, w3, w4, w5, ?_⟩
    rcases w6 with w6 | w6
    · exact Or.inl w6
    · exact Or.inr (fun hfs => w6 (by simpa using hfs))
  unfold preNMB preMB
  simp only [Bool.and_eq_true, List.all_eq_true, decide_eq_true_eq]
  refine ⟨⟨⟨⟨⟨⟨⟨⟨⟨⟨⟨⟨?_, ?_⟩, x3⟩, x4⟩, x5⟩, x6⟩, x10⟩, x11⟩, x12⟩, x13⟩, ?_⟩, x14⟩, ?_⟩
  · unfold specOk
    simp only [Bool.and_eq_true, Bool.not_eq_true', Bool.or_eq_true, beq_iff_eq, decide_eq_true_eq]
    exact ⟨⟨⟨⟨⟨⟨s1, s2⟩, s3⟩, x1⟩, s7⟩, s8⟩, s11⟩
  · intro c hc
    cases hm : c.member
    · rfl
    · obtain ⟨p1, p2, p3, p4, p5, _⟩ := hpod c hc hm
      have := x2 c hc
      rw [hm] at this
      simp only [Bool.not_true, Bool.false_or, Bool.and_eq_true, decide_eq_true_eq] at this
      simp only [Bool.not_true, Bool.false_or, Bool.and_eq_true, bne_iff_ne, ne_eq, beq_iff_eq, decide_eq_true_eq]
      exact ⟨⟨⟨⟨⟨p4, p3⟩, p1⟩, p2⟩, this⟩, p5⟩
  · rw [Bool.or_eq_true]
    unfold partB legacyB
    rcases s8 with hr | ho
    · cases hru : i.view.ru with
      | none => right; simp [hr]
      | some q =>
        cases q with
        | none => rw [hru] at s9; simp at s9
        | some p => left; rw [hru] at s9; simp only [Bool.or_eq_true, beq_iff_eq]; right; simpa using s9
    · left; simp [ho]
  · rw [Bool.or_eq_true]
    by_cases hp : i.view.parallel = true
    · exact Or.inl hp
    · right
      unfold noFsOutMB
      rw [List.all_eq_true]
      intro c hc
      cases hm : c.member
      · simp
      · rcases (hpod c hc hm).2.2.2.2.2 with h1 | h1
        · exact absurd h1 hp
        · cases hfs : (c.pod.failed || c.pod.succeeded)
          · simp
          · have := h1 hfs
            simp only [List.contains_iff_mem] at this
            simp [this]

end Asts.C02p
