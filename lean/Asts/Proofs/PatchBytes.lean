import Asts.Proofs.Patch
import Asts.Proofs.JsonLex
/-! # Byte-level corollaries: `Match` (equality of bytes) decides equality of templates; `getPatchBytes` on serialised trees -/
namespace Asts.Patch

/-- `Match(set, revision)` compares BYTES; with Go's escaping, equal bytes ⇔ equal templates -/
theorem patch_bytes_eq_iff (t₁ t₂ : Obj) (h₁ : hasKey directiveKey t₁ = false) (h₂ : hasKey directiveKey t₂ = false) :
    ser goEscape (patchOf t₁) = ser goEscape (patchOf t₂) ↔ t₁ = t₂ :=
  ⟨fun h => patchOf_injective t₁ t₂ h₁ h₂ (ser_injective _ _ h), fun e => by rw [e]⟩

/-- on the bytes of any tree the byte-level function is the tree-level one -/
theorem getPatchBytes_ser (enc : Json) : getPatchBytes goEscape (ser goEscape enc) = (getPatch (canon enc)).map (ser goEscape) := by
  simp [getPatchBytes, parse_ser]

end Asts.Patch
