import Asts.Proofs.C02_NormSync

/-! C02: faults that hit no call the reconcile makes do not change it; and the reconcile-level faults `podFaults` derives
    from the empty API-level plan in a world where every pod object belongs to the set hit nothing. -/
namespace Asts.C02p
open Asts Asts.L1c

structure NoHit (f : Faults) (idx : List Int) : Prop where
  del : ∀ o, f.hit 1 o = false
  upd : ∀ o, f.hit 2 o = false
  cre : ∀ o ∈ idx, f.hit 0 o = false

theorem replicaStep_noHit (v : SetView) (cur upd : String) (f : Faults) (mono : Bool) (s : St) (i : Int) (q : Pod)
    (h0 : f.hit 0 i = false) (h1 : f.hit 1 i = false) (h2 : f.hit 2 i = false) :
    replicaStep v cur upd f mono s i q = replicaStep v cur upd [] mono s i q := by
  unfold replicaStep replaceFailed ensurePod
  simp only [h0, h1, h2, hit_nil]

theorem replicaLoop_noHit (v : SetView) (cur upd : String) (f : Faults) (mono : Bool) (reps : List (Int × Pod)) (s : St)
    (hd : ∀ o, f.hit 1 o = false) (hu : ∀ o, f.hit 2 o = false) (hc : ∀ ip ∈ reps, f.hit 0 ip.1 = false) :
    replicaLoop v cur upd f mono s reps = replicaLoop v cur upd [] mono s reps := by
  induction reps generalizing s with
  | nil => rfl
  | cons ip rest ih =>
    obtain ⟨i, q⟩ := ip
    unfold replicaLoop
    rw [replicaStep_noHit v cur upd f mono s i q (hc (i, q) List.mem_cons_self) (hd i) (hu i)]
    split
    · rename_i s' p' heq
      simp only
      rw [ih s' (fun ip hip => hc ip (List.mem_cons_of_mem _ hip))]
    · rfl

theorem condemnedLoop_noHit (cur upd : String) (f : Faults) (mono : Bool) (fu : Option Pod) (cs : List Pod) (s : St)
    (hd : ∀ o, f.hit 1 o = false) :
    condemnedLoop cur upd f mono fu s cs = condemnedLoop cur upd [] mono fu s cs := by
  induction cs generalizing s with
  | nil => rfl
  | cons c rest ih =>
    unfold condemnedLoop
    simp only [hd, hit_nil, ih]

theorem updateWalk_noHit (cur upd : String) (f : Faults) (l : List (Int × Pod)) (s : St) (hd : ∀ o, f.hit 1 o = false) :
    updateWalk cur upd f s l = updateWalk cur upd [] s l := by
  induction l generalizing s with
  | nil => rfl
  | cons ip rest ih =>
    obtain ⟨t, p⟩ := ip
    unfold updateWalk
    simp only [hd, hit_nil, ih]

theorem runLoops_noHit (v : SetView) (cur upd : String) (f : Faults) (p : Prepared) (hn : NoHit f (p.reps.map (·.1))) :
    runLoops v cur upd f p = runLoops v cur upd [] p := by
  unfold runLoops
  simp only
  rw [replicaLoop_noHit v cur upd f _ p.reps _ hn.del hn.upd
    (fun ip hip => hn.cre ip.1 (List.mem_map.2 ⟨ip, hip, rfl⟩))]
  split
  · rfl
  · rw [condemnedLoop_noHit _ _ f _ _ _ _ hn.del]
    split
    · rfl
    · unfold updateStage
      split_ifs
      · rfl
      · exact updateWalk_noHit _ _ f _ _ hn.del

theorem updateStatefulSet_noHit (v : SetView) (cur upd : String) (pods : List Pod) (f : Faults) (r : Int)
    (hr : v.replicas = some r)
    (hn : NoHit f (idxOf (maxReplicaAndSlots r v.slots).1 (maxReplicaAndSlots r v.slots).2)) :
    updateStatefulSet v cur upd pods f = updateStatefulSet v cur upd pods [] := by
  unfold updateStatefulSet
  cases hp : prepare v cur upd pods with
  | error e => rfl
  | ok p =>
    simp only
    split_ifs
    · rfl
    · apply runLoops_noHit
      obtain ⟨_, hreps, _⟩ := L1c.prepare_ok hr hp
      rw [hreps]
      have : (repsOf v cur upd (maxReplicaAndSlots r v.slots).1 (maxReplicaAndSlots r v.slots).2 pods).map (·.1)
          = idxOf (maxReplicaAndSlots r v.slots).1 (maxReplicaAndSlots r v.slots).2 := by
        unfold repsOf; rw [List.map_map]; exact List.map_id _
      rw [this]
      exact hn

end Asts.C02p

namespace Asts.C02p
open Asts Asts.L1c

theorem updateAttempts_nil (key : String) : updateAttempts [] key 4 0 = (1, true) := by
  unfold updateAttempts
  simp

theorem ord_inj_of_nodup {pods : List CPod} (hnd : (pods.map (·.pod.ord)).Nodup) {a b : CPod} (ha : a ∈ pods) (hb : b ∈ pods)
    (h : a.pod.ord = b.pod.ord) : a = b :=
  List.inj_on_of_nodup_map hnd ha hb h

theorem occupantAt_self {pods : List CPod} (hnd : (pods.map (·.pod.ord)).Nodup) {b : Int} {E : List Int} {c : CPod}
    (hc : c ∈ pods) (hr : inRange b E c.pod.ord = true) : occupantAt pods b E c.pod.ord = some c := by
  unfold occupantAt
  have hmem : c ∈ pods.filter (fun q => q.pod.ord == c.pod.ord && inRange b E q.pod.ord) := by
    rw [List.mem_filter]; exact ⟨hc, by simp [hr]⟩
  cases hg : (pods.filter (fun q => q.pod.ord == c.pod.ord && inRange b E q.pod.ord)).getLast? with
  | none =>
    rw [List.getLast?_eq_none_iff] at hg
    rw [hg] at hmem; cases hmem
  | some c' =>
    have hc' := List.mem_of_getLast? hg
    rw [List.mem_filter] at hc'
    have h2 := hc'.2
    simp only [Bool.and_eq_true, beq_iff_eq] at h2
    have : c'.pod.ord = c.pod.ord := h2.1
    rw [ord_inj_of_nodup hnd hc'.1 hc this]

theorem occupantAt_mem {claimed : List CPod} {b : Int} {E : List Int} {o : Int} {c : CPod}
    (h : occupantAt claimed b E o = some c) : c ∈ claimed ∧ c.pod.ord = o := by
  unfold occupantAt at h
  have := List.mem_of_getLast? h
  rw [List.mem_filter] at this
  have h2 := this.2
  simp only [Bool.and_eq_true, beq_iff_eq] at h2
  exact ⟨this.1, h2.1⟩

/-- the faults derived from the empty plan hit no call, in a world where every pod object is claimed, carries the canonical
    name of its ordinal, and ordinals are distinct -/
theorem podFaults_noHit (setName : String) (pods : List CPod) (b : Int) (E : List Int)
    (hname : ∀ c ∈ pods, c.name = canonicalName setName c.pod.ord) (hnd : (pods.map (·.pod.ord)).Nodup) :
    NoHit (podFaults setName [] pods pods b E) (idxOf b E) := by
  have hupd : ∀ o, (updateResult setName [] pods pods b E o).2 = true := by
    intro o
    unfold updateResult
    cases ho : occupantAt pods b E o with
    | none => simp only [updateAttempts_nil]
    | some c =>
      obtain ⟨hc, hco⟩ := occupantAt_mem ho
      have : (c.name != canonicalName setName o) = false := by
        rw [hname c hc, hco]; simp
      simp only [this, Bool.false_eq_true, if_false, updateAttempts_nil]
  have hmem : ∀ verb o, (verb, o) ∈ podFaults setName [] pods pods b E →
      verb = 0 ∧ ∃ c ∈ pods, c.pod.ord = o ∧
        (!(pods.any (·.pod.id == c.pod.id) && ((occupantAt pods b E c.pod.ord).map (·.pod.id)) == some c.pod.id)) = true := by
    intro verb o hm
    unfold podFaults at hm
    simp only [List.filterMap_nil, List.nil_append, List.mem_append, List.mem_filterMap, List.mem_map, List.mem_filter] at hm
    rcases hm with ⟨o', _, ho'⟩ | ⟨c, ⟨hc, hcond⟩, hco⟩
    · rw [hupd o'] at ho'
      simp at ho'
    · simp only [Prod.mk.injEq] at hco
      simp only [Bool.and_eq_true] at hcond
      exact ⟨hco.1.symm, c, hc, hco.2, hcond.2⟩
  refine ⟨?_, ?_, ?_⟩
  · intro o
    unfold Faults.hit
    rw [Bool.eq_false_iff]
    intro hcon
    rw [List.contains_iff_mem] at hcon
    have := (hmem 1 o hcon).1
    omega
  · intro o
    unfold Faults.hit
    rw [Bool.eq_false_iff]
    intro hcon
    rw [List.contains_iff_mem] at hcon
    have := (hmem 2 o hcon).1
    omega
  · intro o ho
    unfold Faults.hit
    rw [Bool.eq_false_iff]
    intro hcon
    rw [List.contains_iff_mem] at hcon
    obtain ⟨-, c, hc, hco, hbad⟩ := hmem 0 o hcon
    have hr : inRange b E c.pod.ord = true := by rw [hco]; exact mem_idxOf.1 ho
    rw [occupantAt_self hnd hc hr] at hbad
    have hany : pods.any (·.pod.id == c.pod.id) = true := List.any_eq_true.2 ⟨c, hc, by simp⟩
    simp [hany] at hbad

end Asts.C02p
