import Mathlib.Tactic
import Asts.Model.Sync
import Asts.Proofs.SY_a_Phases
import Asts.Proofs.L1_a_Readings

/-! # SY_a — `syncF` cut into stages, and the classification of every entry of its call log -/

namespace Asts.SYa
open Asts

/-! ## stages (definitionally the body of `syncF`) -/

/-- status write and history truncation, given the result `r` of the reconcile -/
def finishCore (i : SyncIn) (plan : List Fault) (claimed : List CPod) (revs : List Rev) (cur upd : Rev) (cc : Int)
    (s : RevSt) (b : Int) (E : List Int) (r : St × Outcome) : SyncOut :=
  let s1 : RevSt := { s with tr := { log := s.tr.log ++ (r.1.acts.map (actLog i.setName plan i.pods claimed b E)).flatten } }
  let base : SyncOut := { cur := cur.name, upd := upd.name, claimed := claimed, acts := r.1.acts,
                          actsDone := if r.2 == .err then r.1.acts.length - 1 else r.1.acts.length }
  match r.2 with
  | .ok =>
    let status := completeRollingUpdate i.view r.1.status
    if inconsistentStatus i.stored status then
      let w := statusWriteF plan i.fresh.gone 5 s1.tr
      let s2 : RevSt := { s1 with tr := w.1 }
      if !w.2 then { base with log := s2.tr.log, store := s2.store, outcome := .err } else
      let t := truncateF plan i.historyLimit (claimed.map (·.pod.rev)) revs cur upd s2
      { base with log := t.1.tr.log, store := t.1.store, status := some status, cc := some cc, outcome := t.2 }
    else
      let t := truncateF plan i.historyLimit (claimed.map (·.pod.rev)) revs cur upd s1
      { base with log := t.1.tr.log, store := t.1.store, outcome := t.2 }
  | o => { base with log := s1.tr.log, store := s1.store, outcome := o }

/-- the range of the set: `GetMaxReplicaCountAndDeleteSlots` -/
def rangeOf (i : SyncIn) : Int × List Int := maxReplicaAndSlots (i.view.replicas.getD 0) i.view.slots

/-- the reconcile proper on the claimed pods -/
def reconcileOf (i : SyncIn) (plan : List Fault) (claimed : List CPod) (cur upd : Rev) : St × Outcome :=
  updateStatefulSet i.view cur.name upd.name (claimed.map (·.pod))
    (podFaults i.setName plan i.pods claimed (rangeOf i).1 (rangeOf i).2)

/-- reconcile, status write, history truncation -/
def finishF (i : SyncIn) (plan : List Fault) (claimed : List CPod) (revs : List Rev) (cur upd : Rev) (cc : Int)
    (s : RevSt) : SyncOut :=
  finishCore i plan claimed revs cur upd cc s (rangeOf i).1 (rangeOf i).2 (reconcileOf i plan claimed cur upd)

/-- everything after the claim pass; `s` already carries the log of the claim pass -/
def afterClaimF (h : Hashing) (i : SyncIn) (plan : List Fault) (s : RevSt) (failed : Bool) (claimed : List CPod) :
    SyncOut :=
  if failed then { log := s.tr.log, store := s.store, outcome := .err } else
  match listRevsF plan s with
  | (s, none) => { log := s.tr.log, store := s.store, claimed := claimed, outcome := .err }
  | (s, some listed) =>
    match getRevisionsF h plan i.template i.stored.currentRev (i.collisionCount.getD 0) (sortRevs listed) s with
    | (s, none) => { log := s.tr.log, store := s.store, claimed := claimed, outcome := .err }
    | (s, some (cur, upd, cc)) => finishF i plan claimed (sortRevs listed) cur upd cc s

theorem syncF_eq (h : Hashing) (i : SyncIn) (plan : List Fault) :
    syncF h i plan =
      if i.paused || !i.selectorOk then { store := i.store } else
      match adoptOrphanRevisionsF plan i.view.deleting i.fresh { store := i.store } with
      | (s, .ok) =>
        afterClaimF h i plan { s with tr := (claimPodsF plan i.view.deleting i.fresh i.pods s.tr).tr }
          (claimPodsF plan i.view.deleting i.fresh i.pods s.tr).failed
          (claimPodsF plan i.view.deleting i.fresh i.pods s.tr).claimed
      | (s, out) => { log := s.tr.log, store := s.store, outcome := out } := rfl

/-! ## classification of log entries -/

/-- entries of the claim pass -/
def ClaimEntry (i : SyncIn) (e : String) : Prop :=
  e = "get:set" ∨ ∃ c ∈ i.pods, e = s!"patch:pod:{c.name}" ∧ c.owner ≠ .other ∧
    (claimDecision i.view.deleting c = .release ∨ claimDecision i.view.deleting c = .adopt)

/-- entries of the pod control -/
def ActEntry (i : SyncIn) (plan : List Fault) (claimed : List CPod) (acts : List Action) (e : String) : Prop :=
  ∃ a ∈ acts, e ∈ actLog i.setName plan i.pods claimed (rangeOf i).1 (rangeOf i).2 a

/-- every entry that is not a pod-control call; `st1` is the revision store after the adoption phase -/
def PreEntry (i : SyncIn) (st1 : List Rev) (e : String) : Prop :=
  (i.view.deleting = false ∧ AdoptEntry (listRevisions i.store) e) ∨
  (i.view.deleting = false ∧ ClaimEntry i e) ∨
  e = "list:revs" ∨ GetRevEntry (sortRevs (listRevisions st1)) e ∨ e = "updatestatus" ∨
  (∃ r ∈ sortRevs (listRevisions st1), r.owner = .self ∧ e = s!"delete:rev:{r.name}")

theorem finishCore_shape (i : SyncIn) (plan : List Fault) (claimed : List CPod) (revs : List Rev) (cur upd : Rev)
    (cc : Int) (s : RevSt) (b : Int) (E : List Int) (r : St × Outcome) (P : String → Prop)
    (hP1 : P "updatestatus") (hP2 : ∀ x ∈ revs, x.owner = .self → P s!"delete:rev:{x.name}")
    (hs : ∀ e ∈ s.tr.log, P e) :
    (∀ e ∈ (finishCore i plan claimed revs cur upd cc s b E r).log,
        P e ∨ ∃ a ∈ r.1.acts, e ∈ actLog i.setName plan i.pods claimed b E a) ∧
    (∀ x ∈ (finishCore i plan claimed revs cur upd cc s b E r).store, x ∈ s.store) ∧
    (finishCore i plan claimed revs cur upd cc s b E r).claimed = claimed ∧
    (finishCore i plan claimed revs cur upd cc s b E r).acts = r.1.acts := by
  have h1 : ∀ e ∈ s.tr.log ++ (r.1.acts.map (actLog i.setName plan i.pods claimed b E)).flatten,
      P e ∨ ∃ a ∈ r.1.acts, e ∈ actLog i.setName plan i.pods claimed b E a := by
    intro e he
    rcases List.mem_append.1 he with he | he
    · exact Or.inl (hs e he)
    · obtain ⟨l, hl, hel⟩ := List.mem_flatten.1 he
      obtain ⟨a, ha, rfl⟩ := List.mem_map.1 hl
      exact Or.inr ⟨a, ha, hel⟩
  have hst : ∀ t : Tr, (∀ e ∈ t.log, P e ∨ ∃ a ∈ r.1.acts, e ∈ actLog i.setName plan i.pods claimed b E a) →
      ∀ e ∈ (statusWriteF plan i.fresh.gone 5 t).1.log,
        P e ∨ ∃ a ∈ r.1.acts, e ∈ actLog i.setName plan i.pods claimed b E a := by
    intro t ht
    exact ((statusWriteF_spec plan i.fresh.gone 5 t).mono (fun e he => by rw [he]; exact Or.inl hP1)).all ht
  have htr : ∀ s' : RevSt, (∀ e ∈ s'.tr.log, P e ∨ ∃ a ∈ r.1.acts, e ∈ actLog i.setName plan i.pods claimed b E a) →
      (∀ e ∈ (truncateF plan i.historyLimit (claimed.map (·.pod.rev)) revs cur upd s').1.tr.log,
        P e ∨ ∃ a ∈ r.1.acts, e ∈ actLog i.setName plan i.pods claimed b E a) ∧
      (∀ x ∈ (truncateF plan i.historyLimit (claimed.map (·.pod.rev)) revs cur upd s').1.store, x ∈ s'.store) := by
    intro s' hs'
    obtain ⟨hsub, hext⟩ := truncateF_spec plan i.historyLimit (claimed.map (·.pod.rev)) revs cur upd s'
    refine ⟨(hext.mono ?_).all hs', hsub⟩
    rintro e ⟨x, hx, hxo, rfl⟩
    exact Or.inl (hP2 x hx hxo)
  unfold finishCore
  simp only
  split
  · split
    · split
      · exact ⟨hst _ h1, fun x hx => hx, rfl, rfl⟩
      · obtain ⟨ha, hb⟩ := htr { store := s.store, tr := (statusWriteF plan i.fresh.gone 5
          { log := s.tr.log ++ (r.1.acts.map (actLog i.setName plan i.pods claimed b E)).flatten }).1 } (hst _ h1)
        exact ⟨ha, hb, rfl, rfl⟩
    · obtain ⟨ha, hb⟩ := htr { store := s.store, tr :=
          { log := s.tr.log ++ (r.1.acts.map (actLog i.setName plan i.pods claimed b E)).flatten } } h1
      exact ⟨ha, hb, rfl, rfl⟩
  · exact ⟨h1, fun x hx => hx, rfl, rfl⟩

theorem finishF_shape (i : SyncIn) (plan : List Fault) (claimed : List CPod) (cur upd : Rev)
    (cc : Int) (s : RevSt) (st1 : List Rev) (hs : ∀ e ∈ s.tr.log, PreEntry i st1 e) :
    (∀ e ∈ (finishF i plan claimed (sortRevs (listRevisions st1)) cur upd cc s).log,
        PreEntry i st1 e ∨
        ActEntry i plan claimed (finishF i plan claimed (sortRevs (listRevisions st1)) cur upd cc s).acts e) ∧
    (∀ x ∈ (finishF i plan claimed (sortRevs (listRevisions st1)) cur upd cc s).store, x ∈ s.store) ∧
    (finishF i plan claimed (sortRevs (listRevisions st1)) cur upd cc s).claimed = claimed ∧
    (finishF i plan claimed (sortRevs (listRevisions st1)) cur upd cc s).acts =
      (reconcileOf i plan claimed cur upd).1.acts := by
  obtain ⟨h1, h2, h3, h4⟩ := finishCore_shape i plan claimed (sortRevs (listRevisions st1)) cur upd cc s
    (rangeOf i).1 (rangeOf i).2 (reconcileOf i plan claimed cur upd) (PreEntry i st1)
    (Or.inr (Or.inr (Or.inr (Or.inr (Or.inl rfl)))))
    (fun x hx hxo => Or.inr (Or.inr (Or.inr (Or.inr (Or.inr ⟨x, hx, hxo, rfl⟩))))) hs
  refine ⟨?_, h2, h3, h4⟩
  intro e he
  rcases h1 e he with h | h
  · exact Or.inl h
  · refine Or.inr ?_
    unfold ActEntry
    rw [show (finishF i plan claimed (sortRevs (listRevisions st1)) cur upd cc s).acts =
      (reconcileOf i plan claimed cur upd).1.acts from h4]
    exact h

theorem Resolved.refl (st : List Rev) : Resolved st st :=
  Or.inl ⟨id, fun _ => ⟨rfl, rfl, rfl, rfl, rfl, rfl, rfl⟩, by simp⟩

/-- what `afterClaimF` guarantees about its output -/
structure TailShape (i : SyncIn) (plan : List Fault) (st1 : List Rev) (claimed : List CPod) (o : SyncOut) : Prop where
  store : ∃ st2, Resolved st1 st2 ∧ ∀ x ∈ o.store, x ∈ st2
  entries : ∀ e ∈ o.log, PreEntry i st1 e ∨ ActEntry i plan o.claimed o.acts e
  hclaimed : o.claimed = [] ∨ o.claimed = claimed
  hacts : o.acts = [] ∨ ∃ cur upd, o.claimed = claimed ∧ o.acts = (reconcileOf i plan claimed cur upd).1.acts

theorem afterClaimF_shape (h : Hashing) (i : SyncIn) (plan : List Fault) (s : RevSt) (failed : Bool)
    (claimed : List CPod) (hs : ∀ e ∈ s.tr.log, PreEntry i s.store e) :
    TailShape i plan s.store claimed (afterClaimF h i plan s failed claimed) := by
  unfold afterClaimF
  split
  · exact ⟨⟨s.store, Resolved.refl _, fun x hx => hx⟩, fun e he => Or.inl (hs e he), Or.inl rfl, Or.inl rfl⟩
  obtain ⟨hst, hlog, hres⟩ := listRevsF_spec plan s
  rcases hl : listRevsF plan s with ⟨s1, _ | listed⟩
  · rw [hl] at hst hlog
    simp only
    refine ⟨⟨s.store, Resolved.refl _, fun x hx => by rw [← hst]; exact hx⟩, ?_, Or.inr rfl, Or.inl rfl⟩
    intro e he
    exact Or.inl ((hlog.mono (fun e he => Or.inr (Or.inr (Or.inl he)))).all hs e he)
  rw [hl] at hst hlog hres
  obtain rfl : listed = listRevisions s.store := hres _ rfl
  simp only at hst hlog
  have hs1 : ∀ e ∈ s1.tr.log, PreEntry i s.store e :=
    (hlog.mono (fun e he => Or.inr (Or.inr (Or.inl he)))).all hs
  simp only
  obtain ⟨hr, hlg⟩ := getRevisionsF_spec h plan i.template i.stored.currentRev (i.collisionCount.getD 0)
    (sortRevs (listRevisions s.store)) s1
  rw [hst] at hr
  rcases hg : getRevisionsF h plan i.template i.stored.currentRev (i.collisionCount.getD 0)
    (sortRevs (listRevisions s.store)) s1 with ⟨s2, _ | ⟨cur, upd, cc⟩⟩
  · rw [hg] at hr hlg
    simp only
    refine ⟨⟨s2.store, hr, fun x hx => hx⟩, ?_, Or.inr rfl, Or.inl rfl⟩
    intro e he
    exact Or.inl ((hlg.mono (fun e he => Or.inr (Or.inr (Or.inr (Or.inl he))))).all hs1 e he)
  · rw [hg] at hr hlg
    simp only at hr hlg ⊢
    have hs2 : ∀ e ∈ s2.tr.log, PreEntry i s.store e :=
      (hlg.mono (fun e he => Or.inr (Or.inr (Or.inr (Or.inl he))))).all hs1
    obtain ⟨h1, h2, h3, h4⟩ := finishF_shape i plan claimed cur upd cc s2 s.store hs2
    refine ⟨⟨s2.store, hr, h2⟩, ?_, Or.inr h3, Or.inr ⟨cur, upd, h3, h4⟩⟩
    intro e he
    rw [h3]
    exact h1 e he

/-- **shape of a whole sync**: `st1` is the revision store after the adoption phase, `st2` after revision resolution -/
structure SyncShape (i : SyncIn) (plan : List Fault) (o : SyncOut) : Prop where
  main : ∃ st1 : List Rev,
    (∃ g : Rev → Rev, (∀ x, AdoptG (listRevisions i.store) x (g x)) ∧ st1 = i.store.map g) ∧
    (i.view.deleting = true → st1 = i.store) ∧
    (∃ st2, Resolved st1 st2 ∧ ∀ x ∈ o.store, x ∈ st2) ∧
    ∀ e ∈ o.log, PreEntry i st1 e ∨ ActEntry i plan o.claimed o.acts e
  hclaimed : o.claimed = [] ∨ ∃ tr : Tr, o.claimed = (claimPodsF plan i.view.deleting i.fresh i.pods tr).claimed
  hacts : o.acts = [] ∨ ∃ cur upd, o.acts = (reconcileOf i plan o.claimed cur upd).1.acts

theorem syncF_shape (h : Hashing) (i : SyncIn) (plan : List Fault) : SyncShape i plan (syncF h i plan) := by
  have idg : ∃ g : Rev → Rev, (∀ x, AdoptG (listRevisions i.store) x (g x)) ∧ i.store = i.store.map g :=
    ⟨id, fun x => AdoptG.refl _ x, by simp⟩
  rw [syncF_eq]
  split
  · exact ⟨⟨i.store, idg, fun _ => rfl, ⟨i.store, Resolved.refl _, fun x hx => hx⟩, by simp⟩, Or.inl rfl, Or.inl rfl⟩
  -- the adoption phase
  have hA := adoptF_spec plan i.view.deleting i.fresh { store := i.store }
  have hAd : i.view.deleting = true →
      adoptOrphanRevisionsF plan i.view.deleting i.fresh { store := i.store } = ({ store := i.store }, .ok) := by
    intro hd; rw [hd]; exact adoptF_deleting plan i.fresh _
  rcases hadopt : adoptOrphanRevisionsF plan i.view.deleting i.fresh { store := i.store } with ⟨s1, out⟩
  rw [hadopt] at hA hAd
  obtain ⟨⟨g, hg, hgs⟩, hAlog⟩ := hA
  simp only at hgs hAlog
  have hdel1 : i.view.deleting = true → s1.store = i.store ∧ s1.tr.log = [] := by
    intro hd
    have := hAd hd
    simp only [Prod.mk.injEq] at this
    rw [this.1]; exact ⟨rfl, rfl⟩
  have hs1 : ∀ e ∈ s1.tr.log, PreEntry i s1.store e := by
    intro e he
    by_cases hd : i.view.deleting = true
    · rw [(hdel1 hd).2] at he; simp at he
    · refine Or.inl ⟨by simpa using hd, ?_⟩
      exact hAlog.all (by simp) e he
  have hfail : ∀ out', SyncShape i plan { log := s1.tr.log, store := s1.store, outcome := out' } := fun out' =>
    ⟨⟨s1.store, ⟨g, hg, hgs⟩, fun hd => (hdel1 hd).1, ⟨s1.store, Resolved.refl _, fun x hx => hx⟩,
      fun e he => Or.inl (hs1 e he)⟩, Or.inl rfl, Or.inl rfl⟩
  cases out with
  | err => exact hfail _
  | panic site => exact hfail _
  | ok =>
    simp only
    -- the claim pass
    have hC : ∀ e ∈ (claimPodsF plan i.view.deleting i.fresh i.pods s1.tr).tr.log, PreEntry i s1.store e := by
      by_cases hd : i.view.deleting = true
      · rw [hd, (claimPodsF_deleting plan i.fresh i.pods s1.tr).1]; exact hs1
      · obtain ⟨ext, hext, hall⟩ := claimPodsF_appends plan i.view.deleting i.fresh i.pods s1.tr
        rw [hext]
        intro e he
        rcases List.mem_append.1 he with he | he
        · exact hs1 e he
        · exact Or.inr (Or.inl ⟨by simpa using hd, hall e he⟩)
    have T := afterClaimF_shape h i plan
      { store := s1.store, tr := (claimPodsF plan i.view.deleting i.fresh i.pods s1.tr).tr }
      (claimPodsF plan i.view.deleting i.fresh i.pods s1.tr).failed
      (claimPodsF plan i.view.deleting i.fresh i.pods s1.tr).claimed hC
    refine ⟨⟨s1.store, ⟨g, hg, hgs⟩, fun hd => (hdel1 hd).1, T.store, T.entries⟩, ?_, ?_⟩
    · rcases T.hclaimed with hc | hc
      · exact Or.inl hc
      · exact Or.inr ⟨s1.tr, hc⟩
    · rcases T.hacts with ha | ⟨cur, upd, hc, ha⟩
      · exact Or.inl ha
      · exact Or.inr ⟨cur, upd, by rw [hc]; exact ha⟩

end Asts.SYa
