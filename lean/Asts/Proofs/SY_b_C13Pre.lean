import Asts.Proofs.SY_b_ClaimExact

/-! Preparation for the C13 monitor on the model: in a sync that reaches the truncation, exactly which revisions are owned
    after adoption and exactly which pods are claimed, in terms of the unfaulted `patch:` calls in the complete log. -/
namespace Asts.SYb
open Asts

/-- the hypotheses on the input under which the string-level monitor reads the log back faithfully: one object per name
    in the store and in the pod cache, and no ':' in those names -/
structure InputOk (i : SyncIn) : Prop where
  storeNames : (i.store.map (·.name)).Nodup
  podNames : (i.pods.map (·.name)).Nodup
  revNoColon : ∀ r ∈ i.store, NoColon r.name
  podNoColon : ∀ c ∈ i.pods, NoColon c.name

/-! ## prefixes of the other shapes -/

theorem ClaimShape.not_patchRev {e : String} (h : ClaimShape e) : pre "patch:rev:" e = false := by
  rcases h with rfl | ⟨n, rfl⟩ <;> shape_simp
theorem TailShape.not_patchRev {e : String} (h : TailShape e) : pre "patch:rev:" e = false := by
  rcases h with rfl | ⟨n, rfl | rfl | rfl⟩ <;> shape_simp
theorem TailShape.not_patchPod {e : String} (h : TailShape e) : pre "patch:pod:" e = false := by
  rcases h with rfl | ⟨n, rfl | rfl | rfl⟩ <;> shape_simp
theorem RevCall.not_patchRev (c : RevCall) : pre "patch:rev:" c.key = false := by cases c <;> shape_simp
theorem RevCall.not_patchPod (c : RevCall) : pre "patch:pod:" c.key = false := by cases c <;> shape_simp
theorem delKey_not_patchRev (r : Rev) : pre "patch:rev:" (delKey r) = false := by shape_simp
theorem delKey_not_patchPod (r : Rev) : pre "patch:pod:" (delKey r) = false := by shape_simp
theorem listrevs_not_patchRev : pre "patch:rev:" "list:revs" = false := by shape_simp
theorem listrevs_not_patchPod : pre "patch:pod:" "list:revs" = false := by shape_simp
theorem AdoptShape.not_patchPod {e : String} (h : AdoptShape e) : pre "patch:pod:" e = false := by
  rcases h with rfl | rfl | ⟨n, rfl | rfl⟩ <;> shape_simp
theorem patchRevKey_pre (r : Rev) : pre "patch:rev:" (patchRevKey r) = true := by
  simp [patchRevKey, pre, toString, String.toList_append, List.isPrefixOf]
theorem patchRevKey_inj {a b : Rev} (h : patchRevKey a = patchRevKey b) : a.name = b.name := by
  simp only [patchRevKey, toString] at h
  have := congrArg String.toList h
  simpa [String.toList_append, String.ext_iff] using this

/-! ## the log of a sync that reaches the truncation, seen from the adoption stage and from the claim stage -/

/-- the state after the adoption stage -/
def adoptState (plan : List Fault) (i : SyncIn) : RevSt :=
  (adoptOrphanRevisionsF plan i.view.deleting i.fresh { store := i.store }).1
/-- the log after the claim stage -/
def claimLog (plan : List Fault) (i : SyncIn) : List String :=
  (claimPodsF plan i.view.deleting i.fresh i.pods (adoptState plan i).tr).tr.log

theorem Reach.log_after {h : Hashing} {i : SyncIn} {plan : List Fault} {o : SyncOut} (R : Reach h i plan o) :
    ∃ rest, o.log = R.sL.tr.log ++ rest ∧ ∀ e ∈ rest, (∃ c : RevCall, e = c.key) ∨ TailShape e ∨ ∃ r : Rev, e = delKey r := by
  obtain ⟨hd, tl, hlog, _, htl⟩ := R.log_eq
  obtain ⟨hd', h1, _⟩ := R.hlogL
  obtain ⟨tl', h3, h4⟩ := R.hlogT
  refine ⟨(pickCalls h plan i.template (i.collisionCount.getD 0) (syncListing plan i) R.sL).map RevCall.key ++ tl' ++
      (truncDeletes plan i.historyLimit (o.claimed.map (·.pod.rev)) (syncListing plan i) R.cur R.upd R.sT).map delKey, ?_, ?_⟩
  · rw [R.olog, truncateF_log, h3, R.sG_eq, pickF_log]; simp
  · intro e he
    simp only [List.mem_append] at he
    rcases he with (he | he) | he
    · obtain ⟨c, _, rfl⟩ := List.mem_map.mp he; exact Or.inl ⟨c, rfl⟩
    · exact Or.inr (Or.inl (h4 e he))
    · obtain ⟨r, _, rfl⟩ := List.mem_map.mp he; exact Or.inr (Or.inr ⟨r, rfl⟩)

theorem Reach.log_from_claim {h : Hashing} {i : SyncIn} {plan : List Fault} {o : SyncOut} (R : Reach h i plan o) :
    ∃ rest, o.log = claimLog plan i ++ rest ∧ ∀ e ∈ rest, pre "patch:pod:" e = false ∧ pre "patch:rev:" e = false := by
  obtain ⟨rest, h1, h2⟩ := R.log_after
  have hl : Ext (· = "list:revs") (claimLog plan i) R.sL.tr.log := by
    rw [R.hsL]; unfold listedState claimLog adoptState
    exact listRevsF_log plan _
  obtain ⟨lr, h3, h4⟩ := hl
  refine ⟨lr ++ rest, by rw [h1, h3]; simp, ?_⟩
  intro e he
  rcases List.mem_append.mp he with he | he
  · rw [h4 e he]; exact ⟨listrevs_not_patchPod, listrevs_not_patchRev⟩
  · rcases h2 e he with ⟨c, rfl⟩ | ht | ⟨r, rfl⟩
    · exact ⟨c.not_patchPod, c.not_patchRev⟩
    · exact ⟨ht.not_patchPod, ht.not_patchRev⟩
    · exact ⟨delKey_not_patchPod r, delKey_not_patchRev r⟩

theorem Reach.log_from_adopt {h : Hashing} {i : SyncIn} {plan : List Fault} {o : SyncOut} (R : Reach h i plan o) :
    ∃ rest, o.log = (adoptState plan i).tr.log ++ rest ∧ ∀ e ∈ rest, pre "patch:rev:" e = false := by
  obtain ⟨rest, h1, h2⟩ := R.log_from_claim
  obtain ⟨cl, h3, h4⟩ := claim_log plan i.view.deleting i.fresh i.pods (adoptState plan i).tr
  refine ⟨cl ++ rest, by rw [h1]; unfold claimLog; rw [h3]; simp, ?_⟩
  intro e he
  rcases List.mem_append.mp he with he | he
  · exact (h4 e he).not_patchRev
  · exact (h2 e he).2

theorem succ_back {plan : List Fault} {l rest : List String} {k P : String} (hk : pre P k = true)
    (hrest : ∀ e ∈ rest, pre P e = false) (h : Succ plan (l ++ rest) k) : Succ plan l k := by
  apply succ_of_append_not_mem h
  intro hmem
  rw [hrest k hmem] at hk
  exact absurd hk (by simp)

/-- an unfaulted `patch:rev:` call is in the complete log iff it is in the adoption stage's log -/
theorem Reach.succ_patchRev {h : Hashing} {i : SyncIn} {plan : List Fault} {o : SyncOut} (R : Reach h i plan o) (r : Rev) :
    Succ plan o.log (patchRevKey r) ↔ Succ plan (adoptState plan i).tr.log (patchRevKey r) := by
  obtain ⟨rest, h1, h2⟩ := R.log_from_adopt
  rw [h1]
  exact ⟨succ_back (patchRevKey_pre r) h2, fun hs => hs.mono rest⟩

/-- an unfaulted `patch:pod:` call is in the complete log iff it is in the log up to the claim stage -/
theorem Reach.succ_patchPod {h : Hashing} {i : SyncIn} {plan : List Fault} {o : SyncOut} (R : Reach h i plan o) (c : CPod) :
    Succ plan o.log (patchPodKey c) ↔ Succ plan (claimLog plan i) (patchPodKey c) := by
  obtain ⟨rest, h1, h2⟩ := R.log_from_claim
  rw [h1]
  exact ⟨succ_back (patchPodKey_pre c) (fun e he => (h2 e he).1), fun hs => hs.mono rest⟩

/-! ## exactly which revisions are owned after adoption -/

theorem mem_orphanNames {L : List Rev} {n : String} : n ∈ orphanNames L ↔ ∃ r ∈ L, r.owner = .none ∧ r.name = n := by
  unfold orphanNames
  simp only [List.mem_map, List.mem_filter, beq_iff_eq]
  constructor
  · rintro ⟨r, ⟨h1, h2⟩, h3⟩; exact ⟨r, h1, h2, h3⟩
  · rintro ⟨r, h1, h2, h3⟩; exact ⟨r, ⟨h1, h2⟩, h3⟩

theorem mem_markerNames {L : List Rev} {n : String} : n ∈ markerNames L ↔ ∃ r ∈ L, r.marker = true ∧ r.name = n := by
  unfold markerNames
  simp only [List.mem_map, List.mem_filter]
  constructor
  · rintro ⟨r, ⟨h1, h2⟩, h3⟩; exact ⟨r, h1, h2, h3⟩
  · rintro ⟨r, h1, h2, h3⟩; exact ⟨r, ⟨h1, h2⟩, h3⟩

/-- what a successful adoption stage over the listing `L` does to one stored revision -/
def adoptG (L : List Rev) (x : Rev) : Rev := ownAll (orphanNames L) (selAll (markerNames L) x)

theorem adoptG_core (L : List Rev) (x : Rev) : core (adoptG L x) = core x := by
  unfold adoptG ownAll selAll; split <;> split <;> rfl
theorem adoptG_marker (L : List Rev) (x : Rev) : (adoptG L x).marker = x.marker := by
  unfold adoptG ownAll selAll; split <;> split <;> rfl
theorem adoptG_owner (L : List Rev) (x : Rev) :
    (adoptG L x).owner = if x.name ∈ orphanNames L then Owner.self else x.owner := by
  have hn : (selAll (markerNames L) x).name = x.name := by unfold selAll; split <;> rfl
  have ho : (selAll (markerNames L) x).owner = x.owner := by unfold selAll; split <;> rfl
  unfold adoptG ownAll
  rw [hn]
  by_cases h : x.name ∈ orphanNames L
  · rw [if_pos (by simpa using h), if_pos h]
  · rw [if_neg (by simpa using h), if_neg h, ho]
theorem adoptG_sel (L : List Rev) (x : Rev) :
    (adoptG L x).selMatch = if x.name ∈ markerNames L then true else x.selMatch := by
  have h1 : ∀ y : Rev, (ownAll (orphanNames L) y).selMatch = y.selMatch := by intro y; unfold ownAll; split <;> rfl
  unfold adoptG
  rw [h1]
  unfold selAll
  by_cases h : x.name ∈ markerNames L
  · rw [if_pos (by simpa using h), if_pos h]
  · rw [if_neg (by simpa using h), if_neg h]

/-- In a sync that reaches the truncation the adopted store is the initial store mapped, revision by revision, by a
    function `G` that keeps the core, owns exactly the revisions that were owned or were orphans with an unfaulted
    `patch:rev:` in the log, leaves foreign ones foreign, and keeps "listed by selector or marker". -/
theorem Reach.adopt_image {h : Hashing} {i : SyncIn} {plan : List Fault} {o : SyncOut} (R : Reach h i plan o)
    (hn : (i.store.map (·.name)).Nodup) :
    ∃ G : Rev → Rev, adoptedStore plan i = i.store.map G ∧ ∀ x ∈ i.store,
      core (G x) = core x ∧
      ((G x).owner = .self ↔ x.owner = .self ∨ (x.owner = .none ∧ Succ plan o.log (patchRevKey x))) ∧
      ((G x).owner = .other ↔ x.owner = .other) ∧
      (((G x).selMatch = true ∨ (G x).marker = true) ↔ (x.selMatch = true ∨ x.marker = true)) := by
  have hA : adoptOrphanRevisionsF plan i.view.deleting i.fresh { store := i.store } = (adoptState plan i, .ok) := by
    unfold adoptState
    rw [← R.hadopt]
  have huniq : ∀ {r x : Rev}, r ∈ listRevisions i.store → x ∈ i.store → r.name = x.name → r = x :=
    fun hr hx he => List.inj_on_of_nodup_map hn (mem_listRevisions hr).1 hx he
  have hAs : adoptedStore plan i = (adoptState plan i).store := rfl
  rcases adopt_ok_exact plan i.view.deleting i.fresh { store := i.store } (adoptState plan i) hA with
    ⟨_, hst, hlog⟩ | ⟨_, _, hst, hlog, hsucc⟩
  · refine ⟨id, by rw [hAs, hst]; simp, ?_⟩
    intro x hx
    refine ⟨rfl, ⟨fun h => Or.inl h, ?_⟩, Iff.rfl, Iff.rfl⟩
    rintro (h | ⟨_, hs⟩)
    · exact h
    · exfalso
      rw [R.succ_patchRev] at hs
      obtain ⟨m, hm, hm'⟩ := hlog
      simp only [List.nil_append] at hm
      apply not_succ_of_not_mem _ hs
      rw [hm]
      intro hmem
      have := patchRevKey_pre x
      rw [hm' _ hmem, listrevs_not_patchRev] at this
      exact absurd this (by simp)
  · refine ⟨adoptG (listRevisions i.store), ?_, ?_⟩
    · rw [hAs, hst, List.map_map]; rfl
    · intro x hx
      refine ⟨adoptG_core _ x, ?_, ?_, ?_⟩
      · rw [adoptG_owner]
        by_cases hO : x.name ∈ orphanNames (listRevisions i.store)
        · rw [if_pos hO]
          obtain ⟨r, hr, hro, hrn⟩ := mem_orphanNames.mp hO
          have hrx : r = x := huniq hr hx hrn
          subst hrx
          refine ⟨fun _ => Or.inr ⟨hro, ?_⟩, fun _ => rfl⟩
          rw [R.succ_patchRev]; exact hsucc r hr hro
        · rw [if_neg hO]
          refine ⟨fun h => Or.inl h, ?_⟩
          rintro (h | ⟨hno, hs⟩)
          · exact h
          · exfalso
            rw [R.succ_patchRev] at hs
            obtain ⟨pre', post, hlg, _⟩ := hs
            obtain ⟨m, hm, hm'⟩ := hlog
            simp only [List.nil_append] at hm
            have hmem : patchRevKey x ∈ m := by rw [← hm, hlg]; simp
            rcases hm' _ hmem with he | he | ⟨n, he⟩ | ⟨r, hr, hro, he⟩
            · have := patchRevKey_pre x; rw [he, listrevs_not_patchRev] at this; exact absurd this (by simp)
            · have := patchRevKey_pre x; rw [he] at this
              exact absurd this (by simp [pre, List.isPrefixOf])
            · have := patchRevKey_pre x; rw [he] at this
              exact absurd this (by simp [pre, toString, String.toList_append, List.isPrefixOf])
            · exact hO (mem_orphanNames.mpr ⟨r, hr, hro, (patchRevKey_inj he).symm⟩)
      · rw [adoptG_owner]
        by_cases hO : x.name ∈ orphanNames (listRevisions i.store)
        · rw [if_pos hO]
          obtain ⟨r, hr, hro, hrn⟩ := mem_orphanNames.mp hO
          have hrx : r = x := huniq hr hx hrn
          subst hrx
          exact ⟨fun h => by simp at h, fun h => by rw [hro] at h; simp at h⟩
        · rw [if_neg hO]
      · rw [adoptG_marker, adoptG_sel]
        by_cases hM : x.name ∈ markerNames (listRevisions i.store)
        · obtain ⟨r, hr, hrm, hrn⟩ := mem_markerNames.mp hM
          have hrx : r = x := huniq hr hx hrn
          subst hrx
          exact ⟨fun _ => Or.inr hrm, fun _ => Or.inr hrm⟩
        · rw [if_neg hM]

end Asts.SYb
