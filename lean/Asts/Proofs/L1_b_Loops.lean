import Asts.Proofs.L1_b_Prep

/-! # L1_b — what the three loops of `updateStatefulSet` may emit

One specification lemma per step function (`replaceFailed`, `ensurePod`, `replicaStep`, `replicaLoop`, `condemnedLoop`,
`updateWalk`, `updateStage`), composed in `runLoops_spec`: every action of a run is *justified* (`Just`) by the prepared
data, at most one action is an update-delete, and under OrderedReady all creates/deletes share one ordinal. -/
namespace Asts.L1b
open List

def _root_.Asts.Ctl.stB : Ctl → St | .next s => s | .done s _ => s
def _root_.Asts.Ctl.isNextB : Ctl → Bool | .next _ => true | .done _ _ => false

def _root_.Asts.Action.ord : Action → Int | .create o _ => o | .delete o _ _ => o | .update o => o
/-- a create or a delete (the actions C05 counts) -/
def _root_.Asts.Action.isCD : Action → Bool | .update _ => false | _ => true
/-- a delete issued by the update walk -/
def _root_.Asts.Action.isUpdDel : Action → Bool | .delete _ _ .update => true | _ => false

/-- what one iteration of the replica loop at slot `(i, p0)` may emit -/
inductive StepAct (v : SetView) (cur upd : String) (i : Int) (p0 : Pod) : Action → Prop
  | del : (p0.failed || p0.succeeded) = true → StepAct v cur upd i p0 (.delete i p0.id .replaceFailed)
  | createNew : (p0.failed || p0.succeeded) = true → StepAct v cur upd i p0 (.create i (newPodRev v cur upd i))
  | createOld : p0.created = false → StepAct v cur upd i p0 (.create i p0.rev)
  | upd : StepAct v cur upd i p0 (.update i)

theorem StepAct.ord_eq {v : SetView} {cur upd : String} {i : Int} {p0 : Pod} {a : Action}
    (h : StepAct v cur upd i p0 a) : a.ord = i := by
  cases h <;> rfl

theorem StepAct.not_updDel {v : SetView} {cur upd : String} {i : Int} {p0 : Pod} {a : Action}
    (h : StepAct v cur upd i p0 a) : a.isUpdDel = false := by
  cases h <;> rfl

/-! ### replica loop -/

theorem replaceFailed_cases (v : SetView) (cur upd : String) (f : Faults) (s : St) (i : Int) (p0 : Pod) :
    ((p0.failed || p0.succeeded) = false ∧ replaceFailed v cur upd f s i p0 = .ok (s, p0)) ∨
    ((p0.failed || p0.succeeded) = true ∧
      (replaceFailed v cur upd f s i p0
          = .error ({ s with acts := s.acts ++ [.delete i p0.id .replaceFailed] }, .err) ∨
       ∃ st, replaceFailed v cur upd f s i p0
          = .ok ({ acts := s.acts ++ [.delete i p0.id .replaceFailed], status := st }, newPod v cur upd i))) := by
  unfold replaceFailed
  by_cases h : (p0.failed || p0.succeeded) = true
  · right
    refine ⟨h, ?_⟩
    simp only [h, if_true]
    by_cases hf : f.hit 1 i = true
    · left; simp only [hf, if_true]
    · right; simp only [hf, Bool.false_eq_true, if_false]; exact ⟨_, rfl⟩
  · left
    simp only [Bool.not_eq_true] at h
    exact ⟨h, by simp only [h, Bool.false_eq_true, if_false]⟩

theorem ensurePod_spec (cur upd : String) (f : Faults) (mono : Bool) (s : St) (i : Int) (p : Pod) :
    ∃ l, (ensurePod cur upd f mono s i p).stB.acts = s.acts ++ l ∧
      (∀ a ∈ l, (a = .create i p.rev ∧ p.created = false) ∨ a = .update i) ∧
      ((ensurePod cur upd f mono s i p).isNextB = true → mono = true →
        p.healthy = true ∧ ∀ a ∈ l, a.isCD = false) := by
  unfold ensurePod
  by_cases hc : p.created = true
  · simp only [hc, Bool.not_true, Bool.false_eq_true, if_false]
    by_cases ht : p.terminating = true
    · cases mono
      · simp only [ht, Bool.and_false, Bool.false_eq_true, if_false]
        by_cases h3 : (p.idOk && p.stOk) = true
        · simp only [h3, if_true]; exact ⟨[], by simp [Ctl.stB], by simp, by simp⟩
        · simp only [h3, Bool.false_eq_true, if_false]
          by_cases h4 : f.hit 2 i = true
          · simp only [h4, if_true]; exact ⟨[.update i], by simp [Ctl.stB], by simp, by simp⟩
          · simp only [h4, Bool.false_eq_true, if_false]; exact ⟨[.update i], by simp [Ctl.stB], by simp, by simp⟩
      · simp only [ht, Bool.and_true, if_true]; exact ⟨[], by simp [Ctl.stB], by simp, by simp [Ctl.isNextB]⟩
    · simp only [Bool.not_eq_true] at ht
      simp only [ht, Bool.false_and, Bool.false_eq_true, if_false]
      by_cases hrr : p.runningAndReady = true
      · have hh : p.healthy = true := by simp [Pod.healthy, hrr, ht]
        simp only [hrr, Bool.not_true, Bool.false_and, Bool.false_eq_true, if_false]
        by_cases h3 : (p.idOk && p.stOk) = true
        · simp only [h3, if_true]; exact ⟨[], by simp [Ctl.stB], by simp, by simp [hh]⟩
        · simp only [h3, Bool.false_eq_true, if_false]
          by_cases h4 : f.hit 2 i = true
          · simp only [h4, if_true]
            exact ⟨[.update i], by simp [Ctl.stB], by simp, by simp [hh, Action.isCD]⟩
          · simp only [h4, Bool.false_eq_true, if_false]
            exact ⟨[.update i], by simp [Ctl.stB], by simp, by simp [hh, Action.isCD]⟩
      · simp only [Bool.not_eq_true] at hrr
        cases mono
        · simp only [hrr, Bool.not_false, Bool.and_false, Bool.false_eq_true, if_false]
          by_cases h3 : (p.idOk && p.stOk) = true
          · simp only [h3, if_true]; exact ⟨[], by simp [Ctl.stB], by simp, by simp⟩
          · simp only [h3, Bool.false_eq_true, if_false]
            by_cases h4 : f.hit 2 i = true
            · simp only [h4, if_true]; exact ⟨[.update i], by simp [Ctl.stB], by simp, by simp⟩
            · simp only [h4, Bool.false_eq_true, if_false]; exact ⟨[.update i], by simp [Ctl.stB], by simp, by simp⟩
        · simp only [hrr, Bool.not_false, Bool.and_true, if_true]
          exact ⟨[], by simp [Ctl.stB], by simp, by simp [Ctl.isNextB]⟩
  · simp only [Bool.not_eq_true] at hc
    simp only [hc, Bool.not_false, if_true]
    by_cases h0 : f.hit 0 i = true
    · simp only [h0, if_true]
      exact ⟨[.create i p.rev], by simp [Ctl.stB], by simp, by simp [Ctl.isNextB]⟩
    · simp only [h0, Bool.false_eq_true, if_false]
      cases mono
      · simp only [Bool.false_eq_true, if_false]
        exact ⟨[.create i p.rev], by simp [Ctl.stB], by simp, by simp⟩
      · simp only [if_true]
        exact ⟨[.create i p.rev], by simp [Ctl.stB], by simp, by simp [Ctl.isNextB]⟩

theorem replicaStep_spec (v : SetView) (cur upd : String) (f : Faults) (mono : Bool) (s : St) (i : Int) (p0 : Pod) :
    ∃ l, (replicaStep v cur upd f mono s i p0).1.stB.acts = s.acts ++ l ∧
      (∀ a ∈ l, StepAct v cur upd i p0 a) ∧
      ((replicaStep v cur upd f mono s i p0).2 = p0 ∨ (replicaStep v cur upd f mono s i p0).2 = newPod v cur upd i) ∧
      ((replicaStep v cur upd f mono s i p0).1.isNextB = true →
        ((replicaStep v cur upd f mono s i p0).2.failed || (replicaStep v cur upd f mono s i p0).2.succeeded) = false ∧
        (mono = true → p0.healthy = true ∧ ∀ a ∈ l, a.isCD = false)) := by
  unfold replicaStep
  rcases replaceFailed_cases v cur upd f s i p0 with ⟨hnf, he⟩ | ⟨hf, he | ⟨st, he⟩⟩
  · rw [he]
    simp only
    obtain ⟨l, h1, h2, h3⟩ := ensurePod_spec cur upd f mono s i p0
    refine ⟨l, h1, ?_, by simp, fun hn => ⟨hnf, h3 hn⟩⟩
    intro a ha
    rcases h2 a ha with ⟨rfl, hc⟩ | rfl
    · exact .createOld hc
    · exact .upd
  · rw [he]
    simp only
    refine ⟨[.delete i p0.id .replaceFailed], by simp [Ctl.stB], ?_, by simp, by simp [Ctl.isNextB]⟩
    intro a ha
    simp only [List.mem_singleton] at ha
    subst ha
    exact .del hf
  · rw [he]
    simp only
    obtain ⟨l, h1, h2, h3⟩ := ensurePod_spec cur upd f mono
      { acts := s.acts ++ [.delete i p0.id .replaceFailed], status := st } i (newPod v cur upd i)
    refine ⟨.delete i p0.id .replaceFailed :: l, by rw [h1]; simp, ?_, by simp, fun hn => ⟨?_, fun hm => ?_⟩⟩
    · intro a ha
      rcases List.mem_cons.1 ha with rfl | ha
      · exact .del hf
      · rcases h2 a ha with ⟨rfl, _⟩ | rfl
        · exact .createNew hf
        · exact .upd
    · simp [newPod, Pod.failed, Pod.succeeded]
    · have := (h3 hn hm).1
      have := Pod.healthy_created this
      simp at this

/-- a slot after the replica loop: same index, same object or the fresh replacement -/
def SlotRel (v : SetView) (cur upd : String) (x y : Int × Pod) : Prop :=
  y.1 = x.1 ∧ (y.2 = x.2 ∨ y.2 = newPod v cur upd x.1)

/-- what the replica loop over `reps` may emit -/
def RepAct (v : SetView) (cur upd : String) (mono : Bool) (reps : List (Int × Pod)) (a : Action) : Prop :=
  ∃ pre i p post, reps = pre ++ (i, p) :: post ∧ StepAct v cur upd i p a ∧
    (mono = true → ∀ x ∈ pre, x.2.healthy = true)

theorem replicaLoop_spec (v : SetView) (cur upd : String) (f : Faults) (mono : Bool) (reps : List (Int × Pod)) :
    ∀ (s : St) (c : Ctl) (reps' : List (Int × Pod)), replicaLoop v cur upd f mono s reps = (c, reps') →
    ∃ l, c.stB.acts = s.acts ++ l ∧
      (∀ a ∈ l, RepAct v cur upd mono reps a) ∧
      List.Forall₂ (SlotRel v cur upd) reps reps' ∧
      (mono = true → ∃ i, ∀ a ∈ l, a.isCD = true → a.ord = i) ∧
      (c.isNextB = true →
        (∀ y ∈ reps', (y.2.failed || y.2.succeeded) = false) ∧
        (mono = true → (∀ x ∈ reps, x.2.healthy = true) ∧ ∀ a ∈ l, a.isCD = false)) := by
  induction reps with
  | nil =>
    intro s c reps' h
    simp only [replicaLoop, Prod.mk.injEq] at h
    obtain ⟨rfl, rfl⟩ := h
    exact ⟨[], by simp [Ctl.stB], by simp, List.Forall₂.nil, fun _ => ⟨0, by simp⟩, fun _ => ⟨by simp, fun _ => by simp⟩⟩
  | cons ip rest ih =>
    obtain ⟨i, p⟩ := ip
    intro s c reps' h
    obtain ⟨l1, h1, h2, h3, h4⟩ := replicaStep_spec v cur upd f mono s i p
    rw [replicaLoop] at h
    cases hs : replicaStep v cur upd f mono s i p with
    | mk c1 p' =>
      rw [hs] at h h1 h3 h4
      simp only at h1 h3 h4
      have hrel : SlotRel v cur upd (i, p) (i, p') := ⟨rfl, h3⟩
      cases c1 with
      | next s' =>
        simp only [Ctl.stB] at h1
        simp only [Ctl.isNextB, forall_const] at h4
        simp only at h
        cases hl : replicaLoop v cur upd f mono s' rest with
        | mk c2 rest' =>
          rw [hl] at h
          simp only [Prod.mk.injEq] at h
          obtain ⟨rfl, rfl⟩ := h
          obtain ⟨l2, g1, g2, g3, g4, g5⟩ := ih s' c2 rest' hl
          refine ⟨l1 ++ l2, by rw [g1, h1]; simp, ?_, List.Forall₂.cons hrel g3, ?_, ?_⟩
          · intro a ha
            rcases List.mem_append.1 ha with ha | ha
            · exact ⟨[], i, p, rest, rfl, h2 a ha, fun _ => by simp⟩
            · obtain ⟨pre, j, q, post, e1, e2, e3⟩ := g2 a ha
              refine ⟨(i, p) :: pre, j, q, post, by rw [e1]; rfl, e2, fun hm x hx => ?_⟩
              rcases List.mem_cons.1 hx with rfl | hx
              · exact (h4.2 hm).1
              · exact e3 hm x hx
          · intro hm
            obtain ⟨j, hj⟩ := g4 hm
            refine ⟨j, fun a ha hcd => ?_⟩
            rcases List.mem_append.1 ha with ha | ha
            · have := (h4.2 hm).2 a ha
              rw [this] at hcd; cases hcd
            · exact hj a ha hcd
          · intro hn
            obtain ⟨k1, k2⟩ := g5 hn
            refine ⟨?_, fun hm => ⟨?_, ?_⟩⟩
            · intro y hy
              rcases List.mem_cons.1 hy with rfl | hy
              · exact h4.1
              · exact k1 y hy
            · intro x hx
              rcases List.mem_cons.1 hx with rfl | hx
              · exact (h4.2 hm).1
              · exact (k2 hm).1 x hx
            · intro a ha
              rcases List.mem_append.1 ha with ha | ha
              · exact (h4.2 hm).2 a ha
              · exact (k2 hm).2 a ha
      | done s' o =>
        simp only [Prod.mk.injEq] at h
        obtain ⟨rfl, rfl⟩ := h
        simp only [Ctl.stB] at h1
        refine ⟨l1, h1, ?_, List.Forall₂.cons hrel (List.forall₂_same.2 fun x _ => ⟨rfl, Or.inl rfl⟩), ?_, ?_⟩
        · intro a ha
          exact ⟨[], i, p, rest, rfl, h2 a ha, fun _ => by simp⟩
        · intro _
          exact ⟨i, fun a ha _ => (h2 a ha).ord_eq⟩
        · intro hn; simp [Ctl.isNextB] at hn

theorem forall₂_mem_left {α β : Type} {R : α → β → Prop} {l1 : List α} {l2 : List β} (h : List.Forall₂ R l1 l2)
    {x : α} (hx : x ∈ l1) : ∃ y ∈ l2, R x y := by
  induction h with
  | nil => simp at hx
  | cons hr _ ih =>
    rcases List.mem_cons.1 hx with rfl | hx
    · exact ⟨_, List.mem_cons_self .., hr⟩
    · obtain ⟨y, hy, hxy⟩ := ih hx
      exact ⟨y, List.mem_cons_of_mem _ hy, hxy⟩

theorem forall₂_mem_right {α β : Type} {R : α → β → Prop} {l1 : List α} {l2 : List β} (h : List.Forall₂ R l1 l2)
    {y : β} (hy : y ∈ l2) : ∃ x ∈ l1, R x y := by
  induction h with
  | nil => simp at hy
  | cons hr _ ih =>
    rcases List.mem_cons.1 hy with rfl | hy
    · exact ⟨_, List.mem_cons_self .., hr⟩
    · obtain ⟨x, hx, hxy⟩ := ih hy
      exact ⟨x, List.mem_cons_of_mem _ hx, hxy⟩

theorem slotRel_map_fst {v : SetView} {cur upd : String} {l1 l2 : List (Int × Pod)}
    (h : List.Forall₂ (SlotRel v cur upd) l1 l2) : l2.map (·.1) = l1.map (·.1) := by
  induction h with
  | nil => rfl
  | cons hr _ ih => simp [ih, hr.1]

/-! ### condemned loop -/

theorem condemnedLoop_spec (cur upd : String) (f : Faults) (mono : Bool) (fu : Option Pod) (cs : List Pod) :
    ∀ s : St, ∃ l, (condemnedLoop cur upd f mono fu s cs).stB.acts = s.acts ++ l ∧
      (∀ a ∈ l, ∃ c ∈ cs, a = .delete c.ord c.id .scaleDown ∧ (mono = true → cs.head? = some c)) ∧
      (mono = true → l.length ≤ 1) ∧
      (mono = true → (condemnedLoop cur upd f mono fu s cs).isNextB = true → cs = []) := by
  induction cs with
  | nil => intro s; exact ⟨[], by simp [condemnedLoop, Ctl.stB], by simp, by simp, by simp⟩
  | cons c rest ih =>
    intro s
    rw [condemnedLoop]
    by_cases ht : c.terminating = true
    · simp only [ht, if_true]
      cases mono
      · simp only [Bool.false_eq_true, if_false]
        obtain ⟨l, h1, h2, _, _⟩ := ih s
        refine ⟨l, h1, fun a ha => ?_, by simp, by simp⟩
        obtain ⟨d, hd, e, _⟩ := h2 a ha
        exact ⟨d, List.mem_cons_of_mem _ hd, e, by simp⟩
      · simp only [if_true]
        exact ⟨[], by simp [Ctl.stB], by simp, by simp, by simp [Ctl.isNextB]⟩
    · simp only [ht, Bool.false_eq_true, if_false]
      by_cases hb : (!c.runningAndReady && mono && (Option.map (fun x => x.id) fu != some c.id)) = true
      · simp only [hb, if_true]
        refine ⟨[], by simp [Ctl.stB], by simp, by simp, by simp [Ctl.isNextB]⟩
      · simp only [hb, Bool.false_eq_true, if_false]
        by_cases hf : f.hit 1 c.ord = true
        · simp only [hf, if_true]
          exact ⟨[.delete c.ord c.id .scaleDown], by simp [Ctl.stB], by simp, by simp, by simp [Ctl.isNextB]⟩
        · simp only [hf, Bool.false_eq_true, if_false]
          cases mono
          · simp only [Bool.false_eq_true, if_false]
            obtain ⟨l, h1, h2, _, _⟩ :=
              ih { acts := s.acts ++ [.delete c.ord c.id .scaleDown], status := bump s.status cur upd c.rev (-1) }
            refine ⟨.delete c.ord c.id .scaleDown :: l, by rw [h1]; simp, fun a ha => ?_, by simp, by simp⟩
            rcases List.mem_cons.1 ha with rfl | ha
            · exact ⟨c, List.mem_cons_self .., rfl, by simp⟩
            · obtain ⟨d, hd, e, _⟩ := h2 a ha
              exact ⟨d, List.mem_cons_of_mem _ hd, e, by simp⟩
          · simp only [if_true]
            exact ⟨[.delete c.ord c.id .scaleDown], by simp [Ctl.stB], by simp, by simp, by simp [Ctl.isNextB]⟩

/-! ### update walk -/

theorem updateWalk_spec (cur upd : String) (f : Faults) (l : List (Int × Pod)) :
    ∀ s : St, (updateWalk cur upd f s l).1.acts = s.acts ∨
      ∃ pre t p post, l = pre ++ (t, p) :: post ∧
        (updateWalk cur upd f s l).1.acts = s.acts ++ [.delete t p.id .update] ∧
        (∀ x ∈ pre, x.2.healthy = true ∧ x.2.rev = upd) ∧ p.rev ≠ upd ∧ p.terminating = false := by
  induction l with
  | nil => intro s; left; simp [updateWalk]
  | cons tp rest ih =>
    obtain ⟨t, p⟩ := tp
    intro s
    rw [updateWalk]
    by_cases h1 : (p.rev != upd && !p.terminating) = true
    · simp only [h1, if_true]
      right
      simp only [Bool.and_eq_true, bne_iff_ne, ne_eq, Bool.not_eq_true'] at h1
      exact ⟨[], t, p, rest, rfl, rfl, by simp, h1.1, h1.2⟩
    · simp only [h1, Bool.false_eq_true, if_false]
      by_cases h2 : (!p.healthy) = true
      · simp only [h2, if_true]; left; trivial
      · simp only [h2, Bool.false_eq_true, if_false]
        simp only [Bool.not_eq_true', Bool.not_eq_false] at h2
        have hrev : p.rev = upd := by
          have ht := ((Pod.healthy_iff p).1 h2).2.2
          simp only [ht, Bool.not_false, Bool.and_true, bne_iff_ne, ne_eq, Decidable.not_not] at h1
          exact h1
        rcases ih s with h | ⟨pre, t', p', post, e1, e2, e3, e4, e5⟩
        · left; exact h
        · right
          refine ⟨(t, p) :: pre, t', p', post, by rw [e1]; rfl, e2, ?_, e4, e5⟩
          intro x hx
          rcases List.mem_cons.1 hx with rfl | hx
          · exact ⟨h2, hrev⟩
          · exact e3 x hx

theorem updateStage_spec (v : SetView) (cur upd : String) (f : Faults) (reps : List (Int × Pod)) (s : St)
    (hs : (reps.map (·.1)).Pairwise (· < ·)) :
    (updateStage v cur upd f reps s).1.acts = s.acts ∨
    (v.strat ≠ .onDelete ∧ ∃ t p, (t, p) ∈ reps ∧ partOf v ≤ t ∧
      (updateStage v cur upd f reps s).1.acts = s.acts ++ [.delete t p.id .update] ∧
      (∀ x ∈ reps, t < x.1 → x.2.healthy = true ∧ x.2.rev = upd) ∧ p.rev ≠ upd ∧ p.terminating = false) := by
  unfold updateStage
  by_cases ho : v.strat = .onDelete
  · left; simp [ho]
  · have ho' : (v.strat == StratType.onDelete) = false := by simpa using ho
    simp only [ho', Bool.false_eq_true, if_false]
    rcases updateWalk_spec cur upd f (reps.filter (fun ip => partOf v ≤ ip.1)).reverse s with
      h | ⟨pre, t, p, post, e1, e2, e3, e4, e5⟩
    · left; exact h
    · right
      refine ⟨ho, t, p, ?_, ?_, e2, ?_, e4, e5⟩
      · have : (t, p) ∈ (reps.filter (fun ip => partOf v ≤ ip.1)).reverse := by rw [e1]; simp
        rw [List.mem_reverse, List.mem_filter] at this
        exact this.1
      · have : (t, p) ∈ (reps.filter (fun ip => partOf v ≤ ip.1)).reverse := by rw [e1]; simp
        rw [List.mem_reverse, List.mem_filter] at this
        simpa using this.2
      · intro x hx htx
        have hpt : partOf v ≤ t := by
          have : (t, p) ∈ (reps.filter (fun ip => partOf v ≤ ip.1)).reverse := by rw [e1]; simp
          rw [List.mem_reverse, List.mem_filter] at this
          simpa using this.2
        have hxm : x ∈ (reps.filter (fun ip => partOf v ≤ ip.1)).reverse := by
          rw [List.mem_reverse, List.mem_filter]
          exact ⟨hx, by simp; omega⟩
        have hsorted : ((reps.filter (fun ip => partOf v ≤ ip.1)).reverse).Pairwise (fun a b => b.1 < a.1) := by
          rw [List.pairwise_reverse]
          exact (List.pairwise_map.1 hs).filter _
        rw [e1] at hxm hsorted
        rcases List.mem_append.1 hxm with hxm | hxm
        · exact e3 x hxm
        · rcases List.mem_cons.1 hxm with rfl | hxm
          · simp at htx
          · have h2 := (List.pairwise_append.1 hsorted).2.1
            have := (List.pairwise_cons.1 h2).1 x hxm
            simp only at this
            omega

/-! ### composition -/

/-- why the model emits an action, in terms of the prepared data -/
inductive Just (v : SetView) (cur upd : String) (mono : Bool) (P : Prepared) : Action → Prop
  | create (pre : List (Int × Pod)) (i : Int) (p : Pod) (post : List (Int × Pod)) (rev : String) :
      P.reps = pre ++ (i, p) :: post →
      (rev = newPodRev v cur upd i ∨ (p.created = false ∧ rev = p.rev)) →
      (mono = true → ∀ x ∈ pre, x.2.healthy = true) → Just v cur upd mono P (.create i rev)
  | replace (i : Int) (p : Pod) : (i, p) ∈ P.reps → (p.failed || p.succeeded) = true →
      Just v cur upd mono P (.delete i p.id .replaceFailed)
  | scale (c : Pod) : c ∈ P.condemned →
      (mono = true → (∀ x ∈ P.reps, x.2.healthy = true) ∧ P.condemned.reverse.head? = some c) →
      Just v cur upd mono P (.delete c.ord c.id .scaleDown)
  | upd (i : Int) (p q : Pod) : (i, p) ∈ P.reps → (q = p ∨ q = newPod v cur upd i) →
      (q.failed || q.succeeded) = false → v.strat ≠ .onDelete → partOf v ≤ i →
      (∀ x ∈ P.reps, i < x.1 → x.2.healthy = true ∧ x.2.rev = upd) →
      (mono = true → P.condemned = [] ∧ ∀ x ∈ P.reps, x.2.healthy = true) →
      Just v cur upd mono P (.delete i q.id .update)
  | update (i : Int) : Just v cur upd mono P (.update i)

theorem RepAct.just {v : SetView} {cur upd : String} {mono : Bool} {P : Prepared} {a : Action}
    (h : RepAct v cur upd mono P.reps a) : Just v cur upd mono P a ∧ a.isUpdDel = false := by
  obtain ⟨pre, i, p, post, e, hs, hm⟩ := h
  refine ⟨?_, hs.not_updDel⟩
  cases hs with
  | del hf => exact .replace i p (by rw [e]; simp) hf
  | createNew hf => exact .create pre i p post _ e (Or.inl rfl) hm
  | createOld hc => exact .create pre i p post _ e (Or.inr ⟨hc, rfl⟩) hm
  | upd => exact .update i

theorem runLoops_spec (v : SetView) (cur upd : String) (f : Faults) (P : Prepared)
    (hs : (P.reps.map (·.1)).Pairwise (· < ·)) :
    (∀ a ∈ (runLoops v cur upd f P).1.acts, Just v cur upd (!v.parallel) P a) ∧
    ((runLoops v cur upd f P).1.acts.filter Action.isUpdDel).length ≤ 1 ∧
    (v.parallel = false → ∃ i, ∀ a ∈ (runLoops v cur upd f P).1.acts, a.isCD = true → a.ord = i) := by
  unfold runLoops
  simp only
  generalize hmono : (!v.parallel) = mono
  have hmono' : v.parallel = false → mono = true := by intro h; rw [← hmono, h]; rfl
  cases hrl : replicaLoop v cur upd f mono { status := P.st0 } P.reps with
  | mk c reps' =>
    obtain ⟨l1, a1, a2, a3, a4, a5⟩ := replicaLoop_spec v cur upd f mono P.reps _ c reps' hrl
    simp only [List.nil_append] at a1
    have hl1 : ∀ a ∈ l1, Just v cur upd mono P a ∧ a.isUpdDel = false := fun a ha => (a2 a ha).just
    have hf1 : l1.filter Action.isUpdDel = [] := by
      rw [List.filter_eq_nil_iff]; intro a ha; simp [(hl1 a ha).2]
    cases c with
    | done s o =>
      simp only [Ctl.stB] at a1
      simp only
      rw [a1]
      refine ⟨fun a ha => (hl1 a ha).1, by simp [hf1], fun hp => a4 (hmono' hp)⟩
    | next s =>
      simp only [Ctl.stB] at a1
      simp only [Ctl.isNextB, forall_const] at a5
      simp only
      obtain ⟨l2, b1, b2, b3, b4⟩ := condemnedLoop_spec cur upd f mono P.fu P.condemned.reverse s
      have hl2 : ∀ a ∈ l2, Just v cur upd mono P a ∧ a.isUpdDel = false := by
        intro a ha
        obtain ⟨d, hd, rfl, hh⟩ := b2 a ha
        refine ⟨.scale d (List.mem_reverse.1 hd) (fun hm => ⟨(a5.2 hm).1, hh hm⟩), rfl⟩
      have hf2 : l2.filter Action.isUpdDel = [] := by
        rw [List.filter_eq_nil_iff]; intro a ha; simp [(hl2 a ha).2]
      cases hcl : condemnedLoop cur upd f mono P.fu s P.condemned.reverse with
      | done s' o =>
        rw [hcl] at b1 b4
        simp only [Ctl.stB] at b1
        simp only
        rw [b1, a1]
        refine ⟨fun a ha => ?_, by simp [hf1, hf2], fun hp => ?_⟩
        · rcases List.mem_append.1 ha with ha | ha
          · exact (hl1 a ha).1
          · exact (hl2 a ha).1
        · have hm := hmono' hp
          have hlen := b3 hm
          match l2, hlen, b2 with
          | [], _, _ => exact ⟨0, fun a ha hcd => by
              simp only [List.append_nil] at ha
              have := (a5.2 hm).2 a ha
              rw [this] at hcd; cases hcd⟩
          | [x], _, _ => exact ⟨x.ord, fun a ha hcd => by
              rcases List.mem_append.1 ha with ha | ha
              · have := (a5.2 hm).2 a ha
                rw [this] at hcd; cases hcd
              · simp only [List.mem_singleton] at ha; rw [ha]⟩
      | next s' =>
        rw [hcl] at b1 b4
        simp only [Ctl.stB] at b1
        simp only [Ctl.isNextB, forall_const] at b4
        simp only
        have hs' : (reps'.map (·.1)).Pairwise (· < ·) := by rw [slotRel_map_fst a3]; exact hs
        rcases updateStage_spec v cur upd f reps' s' hs' with h | ⟨hod, t, q, hq, hpt, e2, e3, _, _⟩
        · rw [h, b1, a1]
          refine ⟨fun a ha => ?_, by simp [hf1, hf2], fun hp => ?_⟩
          · rcases List.mem_append.1 ha with ha | ha
            · exact (hl1 a ha).1
            · exact (hl2 a ha).1
          · have hm := hmono' hp
            have hc : P.condemned = [] := by simpa using b4 hm
            refine ⟨0, fun a ha hcd => ?_⟩
            rcases List.mem_append.1 ha with ha | ha
            · have := (a5.2 hm).2 a ha
              rw [this] at hcd; cases hcd
            · obtain ⟨d, hd, _⟩ := b2 a ha
              rw [hc] at hd; simp at hd
        · rw [e2, b1, a1]
          obtain ⟨x, hx, hxq⟩ := forall₂_mem_right a3 hq
          obtain ⟨i, p⟩ := x
          obtain ⟨hi, hqp⟩ := hxq
          simp only at hi hqp
          subst hi
          have hjust : Just v cur upd mono P (.delete t q.id .update) := by
            refine .upd t p q hx hqp (a5.1 _ hq) hod hpt ?_ ?_
            · intro x hx htx
              obtain ⟨y, hy, hy1, hy2⟩ := forall₂_mem_left a3 hx
              have := e3 y hy (by rw [hy1]; exact htx)
              rcases hy2 with hy2 | hy2
              · rw [← hy2]; exact this
              · have hc := Pod.healthy_created this.1
                rw [hy2] at hc; simp at hc
            · intro hm
              exact ⟨by simpa using b4 hm, (a5.2 hm).1⟩
          refine ⟨fun a ha => ?_, ?_, fun hp => ?_⟩
          · rcases List.mem_append.1 ha with ha | ha
            · rcases List.mem_append.1 ha with ha | ha
              · exact (hl1 a ha).1
              · exact (hl2 a ha).1
            · simp only [List.mem_singleton] at ha; rw [ha]; exact hjust
          · have := List.length_filter_le Action.isUpdDel [Action.delete t q.id Why.update]
            simpa [List.filter_append, hf1, hf2] using this
          · have hm := hmono' hp
            have hc : P.condemned = [] := by simpa using b4 hm
            refine ⟨t, fun a ha hcd => ?_⟩
            rcases List.mem_append.1 ha with ha | ha
            · rcases List.mem_append.1 ha with ha | ha
              · have := (a5.2 hm).2 a ha
                rw [this] at hcd; cases hcd
              · obtain ⟨d, hd, _⟩ := b2 a ha
                rw [hc] at hd; simp at hd
            · simp only [List.mem_singleton] at ha; rw [ha]; rfl

end Asts.L1b
