import Mathlib.Tactic
import Asts.Model.Sync

/-! # SY_a — the working list of ControllerRevisions (C10, revision half)

`listRevisions` drops everything controlled by somebody else and lists each name once; sorting is a permutation. -/

namespace Asts.SYa
open Asts

theorem dedupByName_spec : ∀ (l : List Rev) (seen : List String),
    ((dedupByName l seen).map (·.name)).Nodup ∧ ∀ r ∈ dedupByName l seen, r ∈ l ∧ r.name ∉ seen
  | [], seen => by simp [dedupByName]
  | r :: rs, seen => by
    have ih1 := dedupByName_spec rs seen
    have ih2 := dedupByName_spec rs (r.name :: seen)
    unfold dedupByName
    by_cases h : seen.contains r.name = true
    · simp only [h, if_true]
      exact ⟨ih1.1, fun x hx => ⟨List.mem_cons_of_mem _ (ih1.2 x hx).1, (ih1.2 x hx).2⟩⟩
    · simp only [h]
      refine ⟨?_, ?_⟩
      · simp only [Bool.false_eq_true, if_false, List.map_cons, List.nodup_cons]
        refine ⟨?_, ih2.1⟩
        intro hm
        obtain ⟨x, hx, hxn⟩ := List.mem_map.1 hm
        exact (ih2.2 x hx).2 (by simp [hxn])
      · intro x hx
        simp only [Bool.false_eq_true, if_false] at hx
        rcases List.mem_cons.1 hx with rfl | hx
        · exact ⟨by simp, by simpa using h⟩
        · exact ⟨List.mem_cons_of_mem _ (ih2.2 x hx).1, fun hs => (ih2.2 x hx).2 (List.mem_cons_of_mem _ hs)⟩

/-- (5a) nothing controlled by somebody else is on the working list -/
theorem listRevisions_not_other (store : List Rev) : ∀ r ∈ listRevisions store, r.owner ≠ .other := by
  intro r hr
  have := (List.mem_filter.1 hr).2
  simpa using this

/-- (5b) each name at most once -/
theorem listRevisions_nodup (store : List Rev) : ((listRevisions store).map (·.name)).Nodup := by
  unfold listRevisions
  exact ((dedupByName_spec _ []).1).sublist (List.Sublist.map _ List.filter_sublist)

/-- the working list is drawn from the store: by selector or by upgrade marker -/
theorem listRevisions_mem (store : List Rev) : ∀ r ∈ listRevisions store,
    r ∈ store ∧ (r.selMatch = true ∨ r.marker = true) := by
  intro r hr
  have h1 := (List.mem_filter.1 hr).1
  have h2 := ((dedupByName_spec _ []).2 r h1).1
  rcases List.mem_append.1 h2 with h | h
  · exact ⟨(List.mem_filter.1 h).1, Or.inl (by simpa using (List.mem_filter.1 h).2)⟩
  · exact ⟨(List.mem_filter.1 h).1, Or.inr (by simpa using (List.mem_filter.1 h).2)⟩

theorem insertRev_perm (r : Rev) : ∀ l : List Rev, (insertRev r l).Perm (r :: l)
  | [] => by simp [insertRev]
  | q :: qs => by
    unfold insertRev
    split
    · exact List.Perm.refl _
    · exact ((insertRev_perm r qs).cons q).trans (List.Perm.swap r q qs)

theorem sortRevs_perm (l : List Rev) : (sortRevs l).Perm l := by
  have key : ∀ (xs acc : List Rev), (xs.foldl (fun acc r => insertRev r acc) acc).Perm (xs ++ acc) := by
    intro xs
    induction xs with
    | nil => intro acc; simp
    | cons x xs ih =>
      intro acc
      simp only [List.foldl_cons]
      refine (ih _).trans ?_
      refine ((insertRev_perm x acc).append_left xs).trans ?_
      simp
  unfold sortRevs
  simpa using (key l.reverse []).trans (by simp)

theorem mem_sortRevs {l : List Rev} {r : Rev} : r ∈ sortRevs l ↔ r ∈ l := (sortRevs_perm l).mem_iff

/-- (5) for the list the reconcile works with: sorted working list — no foreign revision, names distinct, all stored -/
theorem sorted_listing_spec (store : List Rev) :
    (∀ r ∈ sortRevs (listRevisions store), r.owner ≠ .other ∧ r ∈ store ∧ (r.selMatch = true ∨ r.marker = true)) ∧
    ((sortRevs (listRevisions store)).map (·.name)).Nodup := by
  refine ⟨?_, ?_⟩
  · intro r hr
    have hr' := mem_sortRevs.1 hr
    exact ⟨listRevisions_not_other store r hr', listRevisions_mem store r hr'⟩
  · exact (((sortRevs_perm (listRevisions store)).map (·.name)).nodup_iff).2 (listRevisions_nodup store)

/-- `nextRevision` reads nothing but the number of a revision on the list it is given -/
theorem nextRevision_mem (sorted : List Rev) :
    nextRevision sorted = 1 ∨ ∃ r ∈ sorted, nextRevision sorted = r.number + 1 := by
  unfold nextRevision
  cases h : sorted.getLast? with
  | none => exact Or.inl rfl
  | some r => exact Or.inr ⟨r, List.mem_of_getLast? h, rfl⟩

end Asts.SYa
