import Batteries.Data.String.Lemmas
import Asts.Proofs.SY_c_Base

/-! # `parseEntry` on the call keys

`String.splitOn` with the separator `":"` computes `List.splitOn ':'` on the characters (Batteries has this for
`splitToList` only), hence `parseEntry` reads back verb, resource and name of every key whose name part contains no `':'`
(object names are DNS labels; for arbitrary strings this is the explicit hypothesis `ColonFree`). -/
namespace Asts.SYc
open String

theorem colon_get : (0 : Pos.Raw).get ":" = ':' := by decide
theorem colon_next : (0 : Pos.Raw).next ":" = ⟨1⟩ := by decide
theorem colon_atEnd : (⟨1⟩ : Pos.Raw).atEnd ":" = true := by decide

theorem splitOnAux_colon (r : List Char) : ∀ (l m : List Char) (acc : List String),
    splitOnAux (ofList (l ++ m ++ r)) ":" ⟨utf8Len l⟩ ⟨utf8Len l + utf8Len m⟩ 0 acc =
      acc.reverse ++ (List.splitOnPPrepend (· == ':') r m.reverse).map ofList := by
  induction r with
  | nil =>
    intro l m acc
    unfold splitOnAux
    have hend : (⟨utf8Len l + utf8Len m⟩ : Pos.Raw).atEnd (ofList (l ++ m ++ [])) = true := by
      have := (atEnd_of_valid (l ++ m) []).2 rfl
      simpa using this
    rw [if_pos hend]
    have := extract_of_valid l m []
    simp only [List.append_nil] at this ⊢
    rw [this]
    simp
  | cons c r ih =>
    intro l m acc
    unfold splitOnAux
    have hend : ¬ (⟨utf8Len l + utf8Len m⟩ : Pos.Raw).atEnd (ofList (l ++ m ++ c :: r)) = true := by
      have := (atEnd_of_valid (l ++ m) (c :: r))
      simp only [utf8Len_append] at this
      rw [this]; simp
    rw [if_neg hend]
    have hget : (⟨utf8Len l + utf8Len m⟩ : Pos.Raw).get (ofList (l ++ m ++ c :: r)) = c := by
      have := get_of_valid (l ++ m) (c :: r)
      simpa using this
    have hnext : (⟨utf8Len l + utf8Len m⟩ : Pos.Raw).next (ofList (l ++ m ++ c :: r)) = ⟨utf8Len l + utf8Len m + c.utf8Size⟩ := by
      have := next_of_valid (l ++ m) c r
      simpa using this
    rw [hget, colon_get]
    by_cases hc : c = ':'
    · subst hc
      simp only [beq_self_eq_true, if_true, colon_next, colon_atEnd, hnext]
      have hsz : (':' : Char).utf8Size = 1 := by decide
      have hun : (⟨utf8Len l + utf8Len m + (':' : Char).utf8Size⟩ : Pos.Raw).unoffsetBy ⟨1⟩ = ⟨utf8Len l + utf8Len m⟩ := by
        simp [Pos.Raw.unoffsetBy, hsz]
      rw [hun]
      have hex := extract_of_valid l m (':' :: r)
      rw [hex]
      have := ih (l ++ m ++ [':']) [] (ofList m :: acc)
      simp only [List.append_assoc, List.singleton_append, List.append_nil, utf8Len_append, utf8Len_cons, utf8Len_nil,
        Nat.zero_add, Nat.add_zero, List.reverse_nil] at this
      simp only [List.append_assoc] at this ⊢
      rw [List.splitOnPPrepend_cons_pos (by simp)]
      simp only [Nat.add_assoc] at this ⊢
      rw [this]
      simp
    · have hne : (c == ':') = false := by simpa using hc
      simp only [hne, Bool.false_eq_true, if_false]
      have hun : (⟨utf8Len l + utf8Len m⟩ : Pos.Raw).unoffsetBy 0 = ⟨utf8Len l + utf8Len m⟩ := by
        simp [Pos.Raw.unoffsetBy]
      rw [hun, hnext]
      have := ih l (m ++ [c]) acc
      simp only [List.append_assoc, List.singleton_append, utf8Len_append, utf8Len_cons, utf8Len_nil, Nat.zero_add,
        List.reverse_append, List.reverse_cons, List.reverse_nil, List.nil_append] at this
      simp only [List.append_assoc, Nat.add_assoc] at this ⊢
      rw [this, List.splitOnPPrepend_cons_neg (p := fun x => x == ':') hne]

theorem splitOn_colon (s : String) : s.splitOn ":" = (s.toList.splitOn ':').map ofList := by
  have h := splitOnAux_colon s.toList [] [] []
  simp only [List.nil_append, utf8Len_nil, Nat.add_zero, List.reverse_nil, ofList_toList] at h
  unfold String.splitOn
  have hne : (":" == "") = false := by decide
  rw [hne]
  simp only [Bool.false_eq_true, if_false]
  exact h

/-- the name contains no `':'` -/
def ColonFree (n : String) : Prop := ':' ∉ n.toList

instance (n : String) : Decidable (ColonFree n) := by unfold ColonFree; infer_instance

theorem splitOn3 (v r n : List Char) (hv : ':' ∉ v) (hr : ':' ∉ r) (hn : ':' ∉ n) :
    (v ++ ':' :: (r ++ ':' :: n)).splitOn ':' = [v, r, n] := by
  rw [List.splitOn_append_cons_self_of_not_mem hv, List.splitOn_append_cons_self_of_not_mem hr,
    List.splitOn_eq_singleton hn]

theorem parseEntry3 (v r : String) (n : String) (hv : ColonFree v) (hr : ColonFree r) (hn : ColonFree n) :
    parseEntry (v ++ ":" ++ r ++ ":" ++ n) = { verb := v, res := r, name := n } := by
  unfold parseEntry
  rw [splitOn_colon]
  have : (v ++ ":" ++ r ++ ":" ++ n).toList = v.toList ++ ':' :: (r.toList ++ ':' :: n.toList) := by
    simp [String.toList_append]
  rw [this, splitOn3 _ _ _ hv hr hn]
  simp

theorem parseEntry1 (v : String) (hv : ColonFree v) : parseEntry v = { verb := v, res := "", name := "" } := by
  unfold parseEntry
  rw [splitOn_colon, List.splitOn_eq_singleton hv]
  simp

theorem parse_updatestatus : parseEntry "updatestatus" = { verb := "updatestatus", res := "", name := "" } :=
  parseEntry1 _ (by decide)

theorem key3_eq (v r n : String) : v ++ ":" ++ r ++ ":" ++ n = (v ++ ":" ++ r ++ ":") ++ n := rfl

theorem parse_kUpdateRev {n : String} (hn : ColonFree n) :
    parseEntry (kUpdateRev n) = { verb := "update", res := "rev", name := n } := by
  have h := parseEntry3 "update" "rev" n (by decide) (by decide) hn
  have e : kUpdateRev n = "update" ++ ":" ++ "rev" ++ ":" ++ n := by
    rw [key3_eq]; simp [kUpdateRev, toString]
  rw [e]; exact h

theorem parse_kGetRev {n : String} (hn : ColonFree n) :
    parseEntry (kGetRev n) = { verb := "get", res := "rev", name := n } := by
  have h := parseEntry3 "get" "rev" n (by decide) (by decide) hn
  have e : kGetRev n = "get" ++ ":" ++ "rev" ++ ":" ++ n := by
    rw [key3_eq]; simp [kGetRev, toString]
  rw [e]; exact h

theorem parse_kPatchRev {n : String} (hn : ColonFree n) :
    parseEntry (kPatchRev n) = { verb := "patch", res := "rev", name := n } := by
  have h := parseEntry3 "patch" "rev" n (by decide) (by decide) hn
  have e : kPatchRev n = "patch" ++ ":" ++ "rev" ++ ":" ++ n := by
    rw [key3_eq]; simp [kPatchRev, toString]
  rw [e]; exact h

theorem parse_kCreateRev {n : String} (hn : ColonFree n) :
    parseEntry (kCreateRev n) = { verb := "create", res := "rev", name := n } := by
  have h := parseEntry3 "create" "rev" n (by decide) (by decide) hn
  have e : kCreateRev n = "create" ++ ":" ++ "rev" ++ ":" ++ n := by
    rw [key3_eq]; simp [kCreateRev, toString]
  rw [e]; exact h

theorem parse_kDeleteRev {n : String} (hn : ColonFree n) :
    parseEntry (kDeleteRev n) = { verb := "delete", res := "rev", name := n } := by
  have h := parseEntry3 "delete" "rev" n (by decide) (by decide) hn
  have e : kDeleteRev n = "delete" ++ ":" ++ "rev" ++ ":" ++ n := by
    rw [key3_eq]; simp [kDeleteRev, toString]
  rw [e]; exact h

theorem parse_kPatchPod {n : String} (hn : ColonFree n) :
    parseEntry (kPatchPod n) = { verb := "patch", res := "pod", name := n } := by
  have h := parseEntry3 "patch" "pod" n (by decide) (by decide) hn
  have e : kPatchPod n = "patch" ++ ":" ++ "pod" ++ ":" ++ n := by
    rw [key3_eq]; simp [kPatchPod, toString]
  rw [e]; exact h

theorem parse_kCreatePod {n : String} (hn : ColonFree n) :
    parseEntry (kCreatePod n) = { verb := "create", res := "pod", name := n } := by
  have h := parseEntry3 "create" "pod" n (by decide) (by decide) hn
  have e : kCreatePod n = "create" ++ ":" ++ "pod" ++ ":" ++ n := by
    rw [key3_eq]; simp [kCreatePod, toString]
  rw [e]; exact h

theorem parse_kDeletePod {n : String} (hn : ColonFree n) :
    parseEntry (kDeletePod n) = { verb := "delete", res := "pod", name := n } := by
  have h := parseEntry3 "delete" "pod" n (by decide) (by decide) hn
  have e : kDeletePod n = "delete" ++ ":" ++ "pod" ++ ":" ++ n := by
    rw [key3_eq]; simp [kDeletePod, toString]
  rw [e]; exact h

theorem parse_kUpdatePod {n : String} (hn : ColonFree n) :
    parseEntry (kUpdatePod n) = { verb := "update", res := "pod", name := n } := by
  have h := parseEntry3 "update" "pod" n (by decide) (by decide) hn
  have e : kUpdatePod n = "update" ++ ":" ++ "pod" ++ ":" ++ n := by
    rw [key3_eq]; simp [kUpdatePod, toString]
  rw [e]; exact h

theorem parse_listRevs : parseEntry "list:revs" = { verb := "list", res := "revs", name := "" } := by
  unfold parseEntry
  rw [splitOn_colon]
  have : ("list:revs" : String).toList = "list".toList ++ ':' :: "revs".toList := by decide
  rw [this, List.splitOn_append_cons_self_of_not_mem (by decide), List.splitOn_eq_singleton (by decide)]
  simp

theorem parse_getSet : parseEntry "get:set" = { verb := "get", res := "set", name := "" } := by
  unfold parseEntry
  rw [splitOn_colon]
  have : ("get:set" : String).toList = "get".toList ++ ':' :: "set".toList := by decide
  rw [this, List.splitOn_append_cons_self_of_not_mem (by decide), List.splitOn_eq_singleton (by decide)]
  simp

end Asts.SYc
