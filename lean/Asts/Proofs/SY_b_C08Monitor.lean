import Asts.Proofs.SY_b_Scaling
import Asts.Proofs.SY_b_Strings

/-! The monitor `Spec.C08` on the model: `C08 h i (syncF h i plan).observe = true`, clause by clause. -/
namespace Asts.SYb
open Asts

/-! ## every entry of a sync log has one of the literal shapes -/

def AnyShape (e : String) : Prop := HeadShape e ∨ (∃ c : RevCall, e = c.key) ∨ TailShape e ∨ ∃ r : Rev, e = delKey r

theorem sync_log_shapes (h : Hashing) (i : SyncIn) (plan : List Fault) : ∀ e ∈ (syncF h i plan).log, AnyShape e := by
  by_cases hrun : (i.paused || !i.selectorOk) = true
  · rw [syncF_eq, if_pos hrun]; intro e he; simp at he
  · have hrun' : (i.paused || !i.selectorOk) = false := by simpa using hrun
    rcases sync_cases h i plan hrun' with ⟨h1, _, ⟨h3, h4⟩ | ⟨sL, hs, hl, h3, h4⟩⟩ | ⟨⟨R⟩⟩
    · intro e he
      obtain ⟨m, hm, hm'⟩ := h4
      rw [hm, List.nil_append] at he
      exact Or.inl (hm' e he)
    · intro e he
      obtain ⟨tl, h5, h6⟩ := h4
      obtain ⟨hd, h7, h8⟩ := hl
      rw [h5, pickF_log, h7] at he
      simp only [List.nil_append, List.mem_append] at he
      rcases he with (he | he) | he
      · exact Or.inl (h8 e he)
      · obtain ⟨c, _, rfl⟩ := List.mem_map.mp he; exact Or.inr (Or.inl ⟨c, rfl⟩)
      · exact Or.inr (Or.inr (Or.inl (h6 e he)))
    · intro e he
      obtain ⟨hd, tl, hlog, hhd, htl⟩ := R.log_eq
      rw [hlog] at he
      simp only [List.mem_append] at he
      rcases he with ((he | he) | he) | he
      · exact Or.inl (hhd e he)
      · obtain ⟨c, _, rfl⟩ := List.mem_map.mp he; exact Or.inr (Or.inl ⟨c, rfl⟩)
      · exact Or.inr (Or.inr (Or.inl (htl e he)))
      · obtain ⟨r, _, rfl⟩ := List.mem_map.mp he; exact Or.inr (Or.inr (Or.inr ⟨r, rfl⟩))

/-- does the parsed entry read as a Create of a ControllerRevision? -/
def isRevCreate (en : Entry) : Bool := en.res == "rev" && en.verb == "create"

theorem pre3_not_revCreate {p v r : String} (hp : Pre3 p v r) (hvr : (r == "rev" && v == "create") = false) (n : String) :
    isRevCreate (parseEntry (p ++ n)) = false := by
  rcases parseEntry_pre3_cases hp n with h | h
  · rw [h]; exact hvr
  · unfold isRevCreate; rw [h]; simp

/-- an entry that does not start with `create:rev:` does not parse as a revision Create (whatever its name contains) -/
theorem not_revCreate_of_shape {e : String} (hs : AnyShape e) (hp : pre "create:rev:" e = false) :
    isRevCreate (parseEntry e) = false := by
  have hlr : isRevCreate (parseEntry "list:revs") = false := by rw [parseEntry_list_revs]; decide
  have hgs : isRevCreate (parseEntry "get:set") = false := by rw [parseEntry_get_set]; decide
  have hus : isRevCreate (parseEntry "updatestatus") = false := by rw [parseEntry_updatestatus]; decide
  rcases hs with (hs | hs) | ⟨c, rfl⟩ | hs | ⟨r, rfl⟩
  · rcases hs with rfl | rfl | ⟨n, rfl | rfl⟩
    · exact hlr
    · exact hgs
    · exact pre3_not_revCreate pre_update_rev (by decide) n
    · exact pre3_not_revCreate pre_patch_rev (by decide) n
  · rcases hs with rfl | ⟨n, rfl⟩
    · exact hgs
    · exact pre3_not_revCreate pre_patch_pod (by decide) n
  · cases c with
    | create n => rw [RevCall.pre_create] at hp; simp [RevCall.isCreate] at hp
    | update n => exact pre3_not_revCreate pre_update_rev (by decide) n
    | get n => exact pre3_not_revCreate pre_get_rev (by decide) n
  · rcases hs with rfl | ⟨n, rfl | rfl | rfl⟩
    · exact hus
    · exact pre3_not_revCreate pre_create_pod (by decide) n
    · exact pre3_not_revCreate pre_delete_pod (by decide) n
    · exact pre3_not_revCreate pre_update_pod (by decide) n
  · exact pre3_not_revCreate pre_delete_rev (by decide) r.name

/-! ## the clauses of `Spec.C08` -/

def obsUpd (i : SyncIn) (o : SyncObs) : String := match o.status with | some s => s.updateRev | none => i.stored.updateRev
def ran (i : SyncIn) (o : SyncObs) : Bool := o.out == "ok" && !i.paused && i.selectorOk
def noRevCreate (o : SyncObs) : Bool := (o.log.map parseEntry).all (fun e => !(e.res == "rev" && e.verb == "create"))
def compatWith (h : Hashing) (i : SyncIn) (r : Rev) : Bool :=
  match r.hashNum, h.hashNumOf i.template (i.collisionCount.getD 0) with | some a, some b => a == b | _, _ => true

/-- clause 1 of `Spec.C08`: after a successful reconcile the update revision is stored and records the current template -/
def C08stored (i : SyncIn) (o : SyncObs) : Bool :=
  if ran i o then (o.revs.find? (·.name == obsUpd i o)).any (fun d => d.data == i.template) else true
/-- clause 2: every revision that is still there records what it recorded before -/
def C08kept (i : SyncIn) (o : SyncObs) : Bool :=
  i.store.all (fun r => (o.revs.find? (·.name == r.name)).all (fun d => d.data == r.data))
/-- clause 3: an unchanged template adds no revision -/
def C08unchanged (h : Hashing) (i : SyncIn) (o : SyncObs) : Bool :=
  match (sortRevs (listRevisions i.store)).getLast? with
  | some l => if l.data == i.template && compatWith h i l then noRevCreate o else true
  | none => true
/-- clause 4: reverting re-uses the earlier revision, renumbered above all others -/
def C08revert (h : Hashing) (i : SyncIn) (o : SyncObs) : Bool :=
  if (listRevisions i.store).any (fun r => r.data == i.template && compatWith h i r) then
    noRevCreate o &&
    (if ran i o then
      (o.revs.find? (·.name == obsUpd i o)).any (fun d => (listRevisions i.store).all (fun r => r.name == obsUpd i o || (o.revs.find? (·.name == r.name)).all (fun q => q.number ≤ d.number)))
     else true)
  else true

theorem C08_split (h : Hashing) (i : SyncIn) (o : SyncObs) :
    C08 h i o = (C08stored i o && C08kept i o && C08unchanged h i o && C08revert h i o) := rfl

/-! ## the observation of a model run -/

def toD (r : Rev) : RevD :=
  { name := r.name, number := r.number, owner := r.owner, sel := r.selMatch, marker := r.marker, data := r.data }

theorem observe_revs (o : SyncOut) : o.observe.revs = o.store.map toD := rfl
theorem observe_log (o : SyncOut) : o.observe.log = o.log := rfl
theorem observe_status (o : SyncOut) : o.observe.status = o.status := rfl

theorem observe_out_ok (o : SyncOut) : (o.observe.out == "ok") = true ↔ o.outcome = .ok := by
  unfold SyncOut.observe
  cases o.outcome <;> simp

theorem obsUpd_observe (i : SyncIn) (o : SyncOut) : obsUpd i o.observe = reportedUpd i o := rfl

theorem ran_observe (i : SyncIn) (o : SyncOut) :
    ran i o.observe = true ↔ o.outcome = .ok ∧ (i.paused || !i.selectorOk) = false := by
  unfold ran
  rw [Bool.and_eq_true, Bool.and_eq_true, observe_out_ok]
  cases i.paused <;> cases i.selectorOk <;> simp

theorem find?_toD (l : List Rev) (n : String) : (l.map toD).find? (·.name == n) = (l.find? (·.name == n)).map toD := by
  rw [List.find?_map]; rfl

theorem find?_some_of_nodup {l : List Rev} (hn : (l.map (·.name)).Nodup) {x : Rev} (hx : x ∈ l) {n : String} (hxn : x.name = n) :
    l.find? (·.name == n) = some x := hxn ▸ find?_of_names_nodup hn hx

/-- whatever a lookup by name finds is a member with that name -/
theorem find?_name {l : List Rev} {n : String} {q : Rev} (h : l.find? (·.name == n) = some q) : q ∈ l ∧ q.name = n :=
  ⟨List.mem_of_find?_eq_some h, by have := List.find?_some h; simpa using this⟩

/-! ## clause 1 and clause 2 -/

theorem C08stored_model (h : Hashing) (i : SyncIn) (plan : List Fault) (hn : (i.store.map (·.name)).Nodup) :
    C08stored i (syncF h i plan).observe = true := by
  unfold C08stored
  split
  · rename_i hr
    obtain ⟨hok, hrun⟩ := (ran_observe i _).mp hr
    obtain ⟨u, hu, _, h2, h3⟩ := sync_ok_upd_stored h i plan hrun hok
    rw [observe_revs, obsUpd_observe, find?_toD, find?_some_of_nodup (sync_names_nodup h i plan hn) hu h2]
    simp [toD, h3]
  · rfl

theorem C08kept_model (h : Hashing) (i : SyncIn) (plan : List Fault) (hn : (i.store.map (·.name)).Nodup) :
    C08kept i (syncF h i plan).observe = true := by
  unfold C08kept
  rw [List.all_eq_true]
  intro r hr
  rw [observe_revs, find?_toD]
  cases hf : (syncF h i plan).store.find? (·.name == r.name) with
  | none => rfl
  | some q =>
    obtain ⟨hq, hqn⟩ := find?_name hf
    have : q.data = r.data := by
      rcases sync_store_evolved h i plan q hq with ⟨x', hx', h1, h2, _⟩ | ⟨h1, _⟩
      · have : x' = r := List.inj_on_of_nodup_map hn hx' hr (h1.symm.trans hqn)
        rw [h2, this]
      · exact absurd (hqn ▸ List.mem_map_of_mem (f := (·.name)) hr) h1
    simp [toD, this]

/-! ## clauses 3 and 4: no Create when a listed revision equals the fresh one -/

theorem noRevCreate_of_filter (h : Hashing) (i : SyncIn) (plan : List Fault)
    (hf : (syncF h i plan).log.filter (pre "create:rev:") = []) : noRevCreate (syncF h i plan).observe = true := by
  unfold noRevCreate
  rw [observe_log, List.all_eq_true]
  intro en hen
  obtain ⟨e, he, rfl⟩ := List.mem_map.mp hen
  have hp : pre "create:rev:" e = false := by
    rw [List.filter_eq_nil_iff] at hf
    simpa using hf e he
  have := not_revCreate_of_shape (sync_log_shapes h i plan e he) hp
  unfold isRevCreate at this
  rw [this]; rfl

/-- a revision listed from the initial store is, after adoption, still listed: same name, number, data, hash label -/
theorem listed_adopted {plan : List Fault} {i : SyncIn} (hn : (i.store.map (·.name)).Nodup) {l : Rev}
    (hl : l ∈ listRevisions i.store) : ∃ r ∈ listRevisions (adoptedStore plan i), core r = core l := by
  obtain ⟨h1, h2, h3⟩ := mem_listRevisions hl
  obtain ⟨r, hr, hc, ho, hs⟩ := (adoptedStore_adopted plan i).mem' h1
  have hnA : ((adoptedStore plan i).map (·.name)).Nodup := by rw [(adoptedStore_adopted plan i).names]; exact hn
  refine ⟨r, (mem_listRevisions_iff hnA).mpr ⟨hr, ?_, ?_⟩, hc⟩
  · rcases h2 with h2 | h2
    · exact Or.inl (hs h2)
    · right
      have : r.marker = l.marker := congrArg (fun p => p.2.2.2.2.2) hc
      rw [this]; exact h2
  · rcases ho with ho | ho
    · rw [ho]; exact h3
    · rw [ho]; simp

theorem equalRev_fresh_of_compat {h : Hashing} {i : SyncIn} {revs : List Rev} {l r : Rev} (hc : core r = core l)
    (hd : (l.data == i.template && compatWith h i l) = true) :
    equalRev r (freshOf h i.template (i.collisionCount.getD 0) revs) = true := by
  have e1 : r.data = l.data := core_data hc
  have e2 : r.hashNum = l.hashNum := congrArg (fun p => p.2.2.2.2.1) hc
  unfold equalRev freshOf
  simp only [Bool.and_eq_true, beq_iff_eq] at hd ⊢
  rw [e1, e2]
  exact ⟨by unfold compatWith at hd; exact hd.2, hd.1⟩

theorem C08unchanged_model (h : Hashing) (i : SyncIn) (plan : List Fault) (hn : (i.store.map (·.name)).Nodup) :
    C08unchanged h i (syncF h i plan).observe = true := by
  unfold C08unchanged
  split
  · rename_i l hl
    split
    · rename_i hd
      have hlm : l ∈ listRevisions i.store := mem_sortRevs.mp (List.mem_of_getLast? hl)
      obtain ⟨r, hr, hc⟩ := listed_adopted (plan := plan) hn hlm
      apply noRevCreate_of_filter
      exact sync_no_create_of_equal h i plan (r := r) (mem_sortRevs.mpr hr) (equalRev_fresh_of_compat hc hd)
    · rfl
  · rfl

theorem C08revert_model (h : Hashing) (i : SyncIn) (plan : List Fault) (hn : (i.store.map (·.name)).Nodup) :
    C08revert h i (syncF h i plan).observe = true := by
  unfold C08revert
  split
  · rename_i hany
    rw [List.any_eq_true] at hany
    obtain ⟨l, hlm, hd⟩ := hany
    obtain ⟨r, hr, hc⟩ := listed_adopted (plan := plan) hn hlm
    have hrl : r ∈ syncListing plan i := mem_sortRevs.mpr hr
    have heq := equalRev_fresh_of_compat (revs := syncListing plan i) hc hd
    rw [Bool.and_eq_true]
    refine ⟨noRevCreate_of_filter h i plan (sync_no_create_of_equal h i plan hrl heq), ?_⟩
    split
    · rename_i hran
      obtain ⟨hok, hrun⟩ := (ran_observe i _).mp hran
      obtain ⟨u, hu, hun, _, hmax, _, hrest⟩ := sync_revert_number h i plan hrun hok hrl heq
      have hrep : reportedUpd i (syncF h i plan) = (syncF h i plan).upd := by
        obtain ⟨u', _, a, b, _⟩ := sync_ok_upd_stored h i plan hrun hok
        rw [← b, a]
      have hnf := sync_names_nodup h i plan hn
      rw [observe_revs, obsUpd_observe, find?_toD, find?_some_of_nodup hnf hu (hun.trans hrep.symm)]
      simp only [Option.map_some, Option.any_some, List.all_eq_true, Bool.or_eq_true, beq_iff_eq]
      intro r' hr'
      by_cases hname : r'.name = reportedUpd i (syncF h i plan)
      · exact Or.inl hname
      · right
        rw [find?_toD]
        cases hf : (syncF h i plan).store.find? (·.name == r'.name) with
        | none => rfl
        | some q =>
          obtain ⟨hq, hqn⟩ := find?_name hf
          have hqA : q ∈ adoptedStore plan i := hrest q hq (by rw [hqn, ← hrep]; exact hname)
          obtain ⟨r'', hr'', hc''⟩ := listed_adopted (plan := plan) hn hr'
          have hnA : ((adoptedStore plan i).map (·.name)).Nodup := by rw [(adoptedStore_adopted plan i).names]; exact hn
          have : q = r'' := List.inj_on_of_nodup_map hnA hqA (mem_listRevisions hr'').1 (hqn.trans (core_name hc'').symm)
          have hle := hmax r'' (mem_sortRevs.mpr hr'')
          simp only [Option.map_some, Option.all_some, toD]
          rw [this]; exact decide_eq_true hle
    · rfl
  · rfl

/-- **C08, the monitor on the model**: for every hashing (colliding ones included), every input whose store keeps one
    object per name, every fault plan -/
theorem C08_model (h : Hashing) (i : SyncIn) (plan : List Fault) (hn : (i.store.map (·.name)).Nodup) :
    C08 h i (syncF h i plan).observe = true := by
  rw [C08_split, C08stored_model h i plan hn, C08kept_model h i plan hn, C08unchanged_model h i plan hn,
    C08revert_model h i plan hn]
  rfl

end Asts.SYb
