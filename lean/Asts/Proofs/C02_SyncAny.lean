import Asts.Proofs.C02_Store

/-! C02: structural facts about `syncF` under ANY fault plan: where its actions come from, what it can do to the revision
    store, and that a written status carries a collision count that did not go down. -/
namespace Asts.C02p
open Asts Asts.L1c

/-- what we track about a sync output -/
structure OutOk (i : SyncIn) (S : List Rev) (cc0 : Int) (o : SyncOut) : Prop where
  store : StoreLe S o.store
  cc : o.status.isSome = true → ∃ c, o.cc = some c ∧ cc0 ≤ c
  acts : ∀ a ∈ o.acts, ∃ cur upd pods f, a ∈ (updateStatefulSet i.view cur upd pods f).1.acts

theorem outOk_plain (i : SyncIn) (S : List Rev) (cc0 : Int) (log : List String) (st : List Rev) (cl : List CPod) (out : Outcome)
    (hs : StoreLe S st) : OutOk i S cc0 { log := log, store := st, claimed := cl, outcome := out } :=
  ⟨hs, (by intro h; cases h), (by intro a ha; cases ha)⟩

theorem finishF_ok (i : SyncIn) (plan : List Fault) (claimed : List CPod) (revs : List Rev) (cur upd : Rev) (cc : Int)
    (s : RevSt) (st : St) (out : Outcome) (S : List Rev) (cc0 : Int) (hS : StoreLe S s.store) (hcc : cc0 ≤ cc)
    (hacts : ∀ a ∈ st.acts, ∃ cur upd pods f, a ∈ (updateStatefulSet i.view cur upd pods f).1.acts) :
    OutOk i S cc0 (finishF i plan claimed revs cur upd cc s st out) := by
  unfold finishF
  dsimp only
  split
  · split_ifs
    all_goals refine ⟨?_, ?_, hacts⟩
    all_goals first
      | exact hS
      | exact hS.trans (truncateF_storeLe _ _ _ _ _ _ _)
      | (intro _; exact ⟨cc, rfl, hcc⟩)
      | (intro h; cases h)
  · exact ⟨hS, (by intro h; cases h), hacts⟩

theorem reconcileF_ok (i : SyncIn) (plan : List Fault) (claimed : List CPod) (revs : List Rev) (cur upd : Rev) (cc : Int)
    (s : RevSt) (S : List Rev) (cc0 : Int) (hS : StoreLe S s.store) (hcc : cc0 ≤ cc) :
    OutOk i S cc0 (reconcileF i plan claimed revs cur upd cc s) := by
  unfold reconcileF
  dsimp only
  apply finishF_ok
  · exact hS
  · exact hcc
  · intro a ha
    exact ⟨_, _, _, _, ha⟩

theorem revisionsF_ok (h : Hashing) (i : SyncIn) (plan : List Fault) (claimed : List CPod) (s : RevSt) (S : List Rev)
    (hS : StoreLe S s.store) : OutOk i S (i.collisionCount.getD 0) (revisionsF h i plan claimed s) := by
  unfold revisionsF
  have hl := listRevsF_store plan s
  split
  · rename_i s1 heq
    rw [heq] at hl
    exact outOk_plain _ _ _ _ _ _ _ (by rw [show s1.store = s.store from hl]; exact hS)
  · rename_i s1 listed heq
    rw [heq] at hl
    have hS1 : StoreLe S s1.store := by rw [show s1.store = s.store from hl]; exact hS
    dsimp only
    obtain ⟨g1, g2⟩ := getRevisionsF_spec h plan i.template i.stored.currentRev (i.collisionCount.getD 0) (sortRevs listed) s1
    split
    · rename_i s2 heq2
      rw [heq2] at g1
      exact outOk_plain _ _ _ _ _ _ _ (hS1.trans g1)
    · rename_i s2 cur upd cc heq2
      rw [heq2] at g1 g2
      exact reconcileF_ok _ _ _ _ _ _ _ _ _ _ (hS1.trans g1) (g2 _ _ _ rfl)

/-- **structure of a sync, any fault plan** -/
theorem syncF_ok (h : Hashing) (i : SyncIn) (plan : List Fault) :
    OutOk i i.store (i.collisionCount.getD 0) (syncF h i plan) := by
  rw [syncF_stages]
  split_ifs
  · exact ⟨StoreLe.refl _, (by intro h; cases h), (by intro a ha; cases ha)⟩
  · have ha := adopt_storeLe plan i.view.deleting i.fresh { store := i.store }
    split
    · rename_i s heq
      rw [heq] at ha
      dsimp only
      split_ifs
      · exact ⟨ha, (by intro h; cases h), (by intro a ha; cases ha)⟩
      · exact revisionsF_ok h i plan _ _ _ ha
    · rename_i s out heq
      rw [heq] at ha
      exact ⟨ha, (by intro h; cases h), (by intro a ha; cases ha)⟩

end Asts.C02p
