import Asts.Proofs.SY_b_Revs

/-! `renumberF`, `createRevLoopF`, `getRevisionsF` (`getStatefulSetRevisions`): structured twins of their call logs and
    the structural facts behind C08 (store half). -/
namespace Asts.SYb
open Asts

/-- the API calls `getStatefulSetRevisions` can make on ControllerRevisions -/
inductive RevCall
  | create (n : String)
  | update (n : String)
  | get (n : String)
  deriving DecidableEq, Repr

/-- rendering as a log entry -/
def RevCall.key : RevCall → String
  | .create n => s!"create:rev:{n}"
  | .update n => s!"update:rev:{n}"
  | .get n => s!"get:rev:{n}"

def RevCall.isCreate : RevCall → Bool | .create _ => true | _ => false
def RevCall.isUpdate : RevCall → Bool | .update _ => true | _ => false

@[simp] theorem call_log (t : Tr) (plan : List Fault) (k : String) : (t.call plan k).1.log = t.log ++ [k] := rfl

theorem call_err (t : Tr) (plan : List Fault) (k : String) :
    (t.call plan k).2 = (plan.find? (fun f => f.key == k && f.occ == (t.log.filter (· == k)).length)).map (·.kind) := rfl

/-! ## `renumberF` -/

/-- what a successful `updateControllerRevision` does to the store -/
def setNumber (name : String) (n : Int) (r : Rev) : Rev := if r.name == name then { r with number := n } else r

theorem renumberF_zero (plan : List Fault) (name : String) (n : Int) (s : RevSt) :
    renumberF plan name n 0 s = (s, false) := rfl

theorem renumberF_succ (plan : List Fault) (name : String) (n : Int) (fuel : Nat) (s : RevSt) :
    renumberF plan name n (fuel + 1) s =
      match (s.tr.call plan (RevCall.update name).key).2 with
      | none => ({ store := s.store.map (setNumber name n), tr := (s.tr.call plan (RevCall.update name).key).1 }, true)
      | some k =>
        if k == .conflict && fuel != 0 then
          renumberF plan name n fuel
            { store := s.store, tr := ((s.tr.call plan (RevCall.update name).key).1.call plan (RevCall.get name).key).1 }
        else ({ store := s.store, tr := ((s.tr.call plan (RevCall.update name).key).1.call plan (RevCall.get name).key).1 }, false) := by
  rw [renumberF]
  rfl

/-- structured twin: the calls of `renumberF` -/
def renumberCalls (plan : List Fault) (name : String) : Nat → Tr → List RevCall
  | 0, _ => []
  | fuel + 1, t =>
    match (t.call plan (RevCall.update name).key).2 with
    | none => [.update name]
    | some k =>
      if k == .conflict && fuel != 0 then
        .update name :: .get name ::
          renumberCalls plan name fuel ((t.call plan (RevCall.update name).key).1.call plan (RevCall.get name).key).1
      else [.update name, .get name]

theorem renumberF_spec (plan : List Fault) (name : String) (n : Int) (fuel : Nat) (s : RevSt) :
    (renumberF plan name n fuel s).1.tr.log = s.tr.log ++ (renumberCalls plan name fuel s.tr).map RevCall.key ∧
    (renumberF plan name n fuel s).1.store =
      (if (renumberF plan name n fuel s).2 then s.store.map (setNumber name n) else s.store) ∧
    (∀ c ∈ renumberCalls plan name fuel s.tr, c = .update name ∨ c = .get name) := by
  induction fuel generalizing s with
  | zero => simp [renumberF_zero, renumberCalls]
  | succ fuel ih =>
    rw [renumberF_succ]
    simp only [renumberCalls]
    cases he : (s.tr.call plan (RevCall.update name).key).2 with
    | none => simp
    | some k =>
      simp only
      by_cases hc : (k == .conflict && fuel != 0) = true
      · simp only [hc, ↓reduceIte]
        obtain ⟨h1, h2, h3⟩ := ih { store := s.store, tr := ((s.tr.call plan (RevCall.update name).key).1.call plan (RevCall.get name).key).1 }
        refine ⟨?_, h2, ?_⟩
        · rw [h1]; simp
        · intro c hc'
          simp only [List.mem_cons] at hc'
          rcases hc' with rfl | rfl | hc'
          · exact Or.inl rfl
          · exact Or.inr rfl
          · exact h3 c hc'
      · simp only [hc]
        simp

/-! ## `createRevLoopF` -/

/-- the revision `createControllerRevision` tries to create at collision count `cc` -/
def candidate (h : Hashing) (fresh : Rev) (cc : Int) : Rev :=
  { fresh with name := h.nameOf fresh.data cc, hashNum := h.hashNumOf fresh.data cc }

/-- state after the Create call and after the Create + Get calls for the name probed at `cc` -/
def afterCreate (h : Hashing) (plan : List Fault) (fresh : Rev) (cc : Int) (s : RevSt) : RevSt :=
  { store := s.store, tr := (s.tr.call plan (RevCall.create (h.nameOf fresh.data cc)).key).1 }
def afterGet (h : Hashing) (plan : List Fault) (fresh : Rev) (cc : Int) (s : RevSt) : RevSt :=
  { store := s.store, tr := ((afterCreate h plan fresh cc s).tr.call plan (RevCall.get (h.nameOf fresh.data cc)).key).1 }

/-- outcome of the Create call at `cc`: injected fault first, else AlreadyExists iff the name is taken -/
def createKind (h : Hashing) (plan : List Fault) (fresh : Rev) (cc : Int) (s : RevSt) : Option ErrKind :=
  match (s.tr.call plan (RevCall.create (h.nameOf fresh.data cc)).key).2 with
  | some k => some k
  | none => if (s.store.find? (·.name == h.nameOf fresh.data cc)).isSome then some .alreadyExists else none

theorem createRevLoopF_zero (h : Hashing) (plan : List Fault) (fresh : Rev) (cc : Int) (s : RevSt) :
    createRevLoopF h plan fresh 0 cc s = (s, none) := rfl

theorem createRevLoopF_succ (h : Hashing) (plan : List Fault) (fresh : Rev) (fuel : Nat) (cc : Int) (s : RevSt) :
    createRevLoopF h plan fresh (fuel + 1) cc s =
      match createKind h plan fresh cc s with
      | none => ({ store := insertByName (candidate h fresh cc) s.store, tr := (afterCreate h plan fresh cc s).tr },
                 some (candidate h fresh cc, cc))
      | some .alreadyExists =>
        match ((afterCreate h plan fresh cc s).tr.call plan (RevCall.get (h.nameOf fresh.data cc)).key).2,
              s.store.find? (·.name == h.nameOf fresh.data cc) with
        | none, some ex =>
          if ex.data == fresh.data then (afterGet h plan fresh cc s, some (ex, cc))
          else createRevLoopF h plan fresh fuel (cc + 1) (afterGet h plan fresh cc s)
        | _, _ => (afterGet h plan fresh cc s, none)
      | some _ => (afterCreate h plan fresh cc s, none) := by
  rw [createRevLoopF]
  rfl

/-- structured twin: the calls of `createRevLoopF` -/
def createCalls (h : Hashing) (plan : List Fault) (fresh : Rev) : Nat → Int → RevSt → List RevCall
  | 0, _, _ => []
  | fuel + 1, cc, s =>
    match createKind h plan fresh cc s with
    | none => [.create (h.nameOf fresh.data cc)]
    | some .alreadyExists =>
      match ((afterCreate h plan fresh cc s).tr.call plan (RevCall.get (h.nameOf fresh.data cc)).key).2,
            s.store.find? (·.name == h.nameOf fresh.data cc) with
      | none, some ex =>
        if ex.data == fresh.data then [.create (h.nameOf fresh.data cc), .get (h.nameOf fresh.data cc)]
        else .create (h.nameOf fresh.data cc) :: .get (h.nameOf fresh.data cc) ::
               createCalls h plan fresh fuel (cc + 1) (afterGet h plan fresh cc s)
      | _, _ => [.create (h.nameOf fresh.data cc), .get (h.nameOf fresh.data cc)]
    | some _ => [.create (h.nameOf fresh.data cc)]

theorem afterCreate_log (h : Hashing) (plan : List Fault) (fresh : Rev) (cc : Int) (s : RevSt) :
    (afterCreate h plan fresh cc s).tr.log = s.tr.log ++ [(RevCall.create (h.nameOf fresh.data cc)).key] := rfl
theorem afterGet_log (h : Hashing) (plan : List Fault) (fresh : Rev) (cc : Int) (s : RevSt) :
    (afterGet h plan fresh cc s).tr.log =
      s.tr.log ++ [(RevCall.create (h.nameOf fresh.data cc)).key, (RevCall.get (h.nameOf fresh.data cc)).key] := by
  simp [afterGet, afterCreate]

/-- The loop, structurally. The store changes at most by the insertion of one new revision under a name that was
    absent; a returned revision is stored, records `fresh.data`, and is named `h.nameOf fresh.data cc'` for the returned
    collision count `cc' ≥ cc`; the calls are Creates and Gets of probed names only. -/
theorem createRevLoopF_spec (h : Hashing) (plan : List Fault) (fresh : Rev) (fuel : Nat) (cc : Int) (s : RevSt) :
    let res := createRevLoopF h plan fresh fuel cc s
    res.1.tr.log = s.tr.log ++ (createCalls h plan fresh fuel cc s).map RevCall.key ∧
    (res.1.store = s.store ∨
      ∃ cc', cc ≤ cc' ∧ res.2 = some (candidate h fresh cc', cc') ∧ (∀ x ∈ s.store, x.name ≠ h.nameOf fresh.data cc') ∧
             res.1.store = insertByName (candidate h fresh cc') s.store) ∧
    (∀ r cc', res.2 = some (r, cc') →
        r ∈ res.1.store ∧ r.data = fresh.data ∧ r.name = h.nameOf fresh.data cc' ∧ cc ≤ cc' ∧
        (r ∈ s.store ∨ r = candidate h fresh cc')) ∧
    (∀ c ∈ createCalls h plan fresh fuel cc s, ∃ j, cc ≤ j ∧ (c = .create (h.nameOf fresh.data j) ∨ c = .get (h.nameOf fresh.data j))) := by
  induction fuel generalizing cc s with
  | zero =>
    simp [createRevLoopF_zero, createCalls]
  | succ fuel ih =>
    intro res
    have hres : res = createRevLoopF h plan fresh (fuel + 1) cc s := rfl
    rw [createRevLoopF_succ] at hres
    simp only [createCalls]
    cases hk : createKind h plan fresh cc s with
    | none =>
      rw [hk] at hres
      simp only at hres
      have habs : ∀ x ∈ s.store, x.name ≠ h.nameOf fresh.data cc := by
        intro x hx hxe
        unfold createKind at hk
        split at hk
        · simp at hk
        · split at hk
          · simp at hk
          · rename_i hnone
            simp only [Option.isSome_iff_ne_none, ne_eq, not_not] at hnone
            rw [List.find?_eq_none] at hnone
            exact hnone x hx (by simpa using hxe)
      rw [hres]
      refine ⟨by simp [afterCreate], Or.inr ⟨cc, le_refl _, rfl, habs, rfl⟩, ?_, ?_⟩
      · intro r cc' he
        simp only [Option.some.injEq, Prod.mk.injEq] at he
        obtain ⟨rfl, rfl⟩ := he
        exact ⟨mem_insertByName.mpr (Or.inl rfl), rfl, rfl, le_refl _, Or.inr rfl⟩
      · intro c hc
        simp only [List.mem_singleton] at hc
        exact ⟨cc, le_refl _, Or.inl hc⟩
    | some k =>
      rw [hk] at hres
      by_cases hae : k = .alreadyExists
      · subst hae
        simp only at hres ⊢
        cases hg : ((afterCreate h plan fresh cc s).tr.call plan (RevCall.get (h.nameOf fresh.data cc)).key).2 with
        | some e =>
          rw [hg] at hres
          simp only at hres
          rw [hres]
          refine ⟨by rw [afterGet_log]; rfl, Or.inl rfl, by simp, ?_⟩
          intro c hc
          simp only [List.mem_cons, List.not_mem_nil, or_false] at hc
          rcases hc with rfl | rfl
          · exact ⟨cc, le_refl _, Or.inl rfl⟩
          · exact ⟨cc, le_refl _, Or.inr rfl⟩
        | none =>
          rw [hg] at hres
          cases hf : s.store.find? (·.name == h.nameOf fresh.data cc) with
          | none =>
            rw [hf] at hres
            simp only at hres
            rw [hres]
            refine ⟨by rw [afterGet_log]; rfl, Or.inl rfl, by simp, ?_⟩
            intro c hc
            simp only [List.mem_cons, List.not_mem_nil, or_false] at hc
            rcases hc with rfl | rfl
            · exact ⟨cc, le_refl _, Or.inl rfl⟩
            · exact ⟨cc, le_refl _, Or.inr rfl⟩
          | some ex =>
            rw [hf] at hres
            simp only at hres ⊢
            have hexm : ex ∈ s.store := List.mem_of_find?_eq_some hf
            have hexn : ex.name = h.nameOf fresh.data cc := by
              have := List.find?_some hf; simpa using this
            by_cases hd : (ex.data == fresh.data) = true
            · rw [if_pos hd] at hres
              rw [if_pos hd, hres]
              refine ⟨by rw [afterGet_log]; rfl, Or.inl rfl, ?_, ?_⟩
              · intro r cc' he
                simp only [Option.some.injEq, Prod.mk.injEq] at he
                obtain ⟨rfl, rfl⟩ := he
                exact ⟨hexm, by simpa using hd, hexn, le_refl _, Or.inl hexm⟩
              · intro c hc
                simp only [List.mem_cons, List.not_mem_nil, or_false] at hc
                rcases hc with rfl | rfl
                · exact ⟨cc, le_refl _, Or.inl rfl⟩
                · exact ⟨cc, le_refl _, Or.inr rfl⟩
            · rw [if_neg hd] at hres
              rw [if_neg hd, hres]
              obtain ⟨h1, h2, h3, h4⟩ := ih (cc + 1) (afterGet h plan fresh cc s)
              refine ⟨?_, ?_, ?_, ?_⟩
              · rw [h1, afterGet_log]; simp
              · rcases h2 with h2 | ⟨cc', hc1, hc2, hc3, hc4⟩
                · exact Or.inl h2
                · exact Or.inr ⟨cc', by omega, hc2, hc3, hc4⟩
              · intro r cc' he
                obtain ⟨a, b, c, d, e⟩ := h3 r cc' he
                exact ⟨a, b, c, by omega, e⟩
              · intro c hc
                simp only [List.mem_cons] at hc
                rcases hc with rfl | rfl | hc
                · exact ⟨cc, le_refl _, Or.inl rfl⟩
                · exact ⟨cc, le_refl _, Or.inr rfl⟩
                · obtain ⟨j, hj, hj'⟩ := h4 c hc
                  exact ⟨j, by omega, hj'⟩
      · have hres' : res = (afterCreate h plan fresh cc s, none) := by
          rw [hres]; cases k <;> first | rfl | exact absurd rfl hae
        have hcalls : (match (some k : Option ErrKind) with
            | none => [RevCall.create (h.nameOf fresh.data cc)]
            | some .alreadyExists =>
              match ((afterCreate h plan fresh cc s).tr.call plan (RevCall.get (h.nameOf fresh.data cc)).key).2,
                    s.store.find? (·.name == h.nameOf fresh.data cc) with
              | none, some ex =>
                if ex.data == fresh.data then [.create (h.nameOf fresh.data cc), .get (h.nameOf fresh.data cc)]
                else .create (h.nameOf fresh.data cc) :: .get (h.nameOf fresh.data cc) ::
                       createCalls h plan fresh fuel (cc + 1) (afterGet h plan fresh cc s)
              | _, _ => [.create (h.nameOf fresh.data cc), .get (h.nameOf fresh.data cc)]
            | some _ => [.create (h.nameOf fresh.data cc)]) = [RevCall.create (h.nameOf fresh.data cc)] := by
          cases k <;> first | rfl | exact absurd rfl hae
        rw [hcalls, hres']
        refine ⟨by rw [afterCreate_log]; rfl, Or.inl rfl, by simp, ?_⟩
        intro c hc
        simp only [List.mem_singleton] at hc
        exact ⟨cc, le_refl _, Or.inl hc⟩

/-! ## `getRevisionsF` -/

/-- the revision `getStatefulSetRevisions` builds from the set's current template (`newRevision`) -/
def freshOf (h : Hashing) (template : String) (cc0 : Int) (revs : List Rev) : Rev :=
  { name := h.nameOf template cc0, number := nextRevision revs, ctime := 0, data := template,
    hashNum := h.hashNumOf template cc0, owner := .self, selMatch := true, marker := false }

/-- the listed revisions equal to the fresh one (`FindEqualRevisions`) -/
def equalsOf (h : Hashing) (template : String) (cc0 : Int) (revs : List Rev) : List Rev :=
  revs.filter (fun r => equalRev r (freshOf h template cc0 revs))

/-- resolution of the update revision: reuse the newest, reuse an older one (renumbered), or create -/
def pickF (h : Hashing) (plan : List Fault) (template : String) (cc0 : Int) (revs : List Rev) (s : RevSt) :
    RevSt × Option (Rev × Int) :=
  match (equalsOf h template cc0 revs).getLast?, revs.getLast? with
  | some e, some l =>
    if equalRev l e then (s, some (l, cc0))
    else if e.number == (freshOf h template cc0 revs).number then (s, some (e, cc0))
    else
      ((renumberF plan e.name (freshOf h template cc0 revs).number 4 s).1,
       if (renumberF plan e.name (freshOf h template cc0 revs).number 4 s).2
       then some ({ e with number := (freshOf h template cc0 revs).number }, cc0) else none)
  | _, _ => createRevLoopF h plan (freshOf h template cc0 revs) (s.store.length + 8) cc0 s

def postPick (cur : String) (revs : List Rev) (pick : RevSt × Option (Rev × Int)) : RevSt × Option (Rev × Rev × Int) :=
  match pick with
  | (s, none) => (s, none)
  | (s, some (upd, cc)) => (s, some ((revs.find? (·.name == cur)).getD upd, upd, cc))

theorem postPick_eq (cur : String) (revs : List Rev) (pick : RevSt × Option (Rev × Int)) :
    postPick cur revs pick = (pick.1, pick.2.map (fun p => ((revs.find? (·.name == cur)).getD p.1, p.1, p.2))) := by
  obtain ⟨s, o⟩ := pick
  cases o with
  | none => rfl
  | some p => obtain ⟨u, c⟩ := p; rfl

theorem getRevisionsF_eq (h : Hashing) (plan : List Fault) (template cur : String) (cc0 : Int) (revs : List Rev) (s : RevSt) :
    getRevisionsF h plan template cur cc0 revs s =
      ((pickF h plan template cc0 revs s).1,
       (pickF h plan template cc0 revs s).2.map
         (fun p => ((revs.find? (·.name == cur)).getD p.1, p.1, p.2))) := by
  rw [← postPick_eq]
  rfl

/-- structured twin: the calls of `getRevisionsF` -/
def pickCalls (h : Hashing) (plan : List Fault) (template : String) (cc0 : Int) (revs : List Rev) (s : RevSt) : List RevCall :=
  match (equalsOf h template cc0 revs).getLast?, revs.getLast? with
  | some e, some l =>
    if equalRev l e then []
    else if e.number == (freshOf h template cc0 revs).number then []
    else renumberCalls plan e.name 4 s.tr
  | _, _ => createCalls h plan (freshOf h template cc0 revs) (s.store.length + 8) cc0 s

theorem pickF_log (h : Hashing) (plan : List Fault) (template : String) (cc0 : Int) (revs : List Rev) (s : RevSt) :
    (pickF h plan template cc0 revs s).1.tr.log = s.tr.log ++ (pickCalls h plan template cc0 revs s).map RevCall.key := by
  unfold pickF pickCalls
  split
  · split
    · simp
    · split
      · simp
      · exact (renumberF_spec plan _ _ 4 s).1
  · exact (createRevLoopF_spec h plan _ _ cc0 s).1

theorem getLast?_filter_of_last {α} {p : α → Bool} {l : List α} {x : α} (hl : l.getLast? = some x) (hp : p x = true) :
    (l.filter p).getLast? = some x := by
  obtain ⟨init, rfl⟩ : ∃ init, l = init ++ [x] := by
    rcases List.eq_nil_or_concat l with rfl | ⟨init, y, rfl⟩
    · simp at hl
    · simp at hl; subst hl; exact ⟨init, by simp⟩
  simp [List.filter_append, hp]

theorem equalRev_refl (a : Rev) : equalRev a a = true := by
  unfold equalRev; cases a.hashNum <;> simp

theorem mem_equalsOf {h : Hashing} {template : String} {cc0 : Int} {revs : List Rev} {e : Rev}
    (he : e ∈ equalsOf h template cc0 revs) : e ∈ revs ∧ equalRev e (freshOf h template cc0 revs) = true ∧ e.data = template := by
  unfold equalsOf at he
  rw [List.mem_filter] at he
  exact ⟨he.1, he.2, equalRev_data he.2⟩

theorem setNumber_self (e : Rev) (n : Int) : setNumber e.name n e = { e with number := n } := by
  simp [setNumber]

theorem setNumber_name (name : String) (n : Int) (r : Rev) : (setNumber name n r).name = r.name := by
  unfold setNumber; split <;> rfl

theorem setNumber_data (name : String) (n : Int) (r : Rev) : (setNumber name n r).data = r.data := by
  unfold setNumber; split <;> rfl

/-- **update revision mirrors the template**: whatever `pickF` returns records the template and is stored afterwards
    (given that every listed revision is stored, as it is for `revs = sortRevs (listRevisions s.store)`) -/
theorem pickF_sound (h : Hashing) (plan : List Fault) (template : String) (cc0 : Int) (revs : List Rev) (s : RevSt)
    (hsub : ∀ r ∈ revs, r ∈ s.store) {upd : Rev} {cc : Int}
    (hres : (pickF h plan template cc0 revs s).2 = some (upd, cc)) :
    upd.data = template ∧ upd ∈ (pickF h plan template cc0 revs s).1.store ∧ cc0 ≤ cc := by
  unfold pickF at hres ⊢
  split at hres
  · rename_i e l he hl
    have hem := mem_equalsOf (List.mem_of_getLast? he)
    have hlm : l ∈ revs := List.mem_of_getLast? hl
    split at hres
    · rename_i heq
      simp only [Option.some.injEq, Prod.mk.injEq] at hres
      obtain ⟨rfl, rfl⟩ := hres
      simp only [heq, if_true]
      exact ⟨(equalRev_data heq).trans hem.2.2, hsub _ hlm, le_refl _⟩
    · rename_i heq
      split at hres
      · rename_i hnum
        simp only [Option.some.injEq, Prod.mk.injEq] at hres
        obtain ⟨rfl, rfl⟩ := hres
        simp only [heq, hnum, if_true]
        exact ⟨hem.2.2, hsub _ hem.1, le_refl _⟩
      · rename_i hnum
        simp only [heq, hnum]
        split at hres
        · rename_i hok
          simp only [Option.some.injEq, Prod.mk.injEq] at hres
          obtain ⟨rfl, rfl⟩ := hres
          refine ⟨hem.2.2, ?_, le_refl _⟩
          have := (renumberF_spec plan e.name (freshOf h template cc0 revs).number 4 s).2.1
          rw [hok] at this
          simp only [if_true] at this
          simp only [Bool.false_eq_true, if_false]
          rw [this, ← setNumber_self]
          exact List.mem_map_of_mem (hsub _ hem.1)
        · simp at hres
  · rename_i hno
    have hsp := createRevLoopF_spec h plan (freshOf h template cc0 revs) (s.store.length + 8) cc0 s
    obtain ⟨a, b, c, d, _⟩ := hsp.2.2.1 upd cc hres
    exact ⟨b, a, d⟩

/-! ### the three ways of resolving the update revision -/

theorem equalsOf_getLast?_some_revs {h : Hashing} {template : String} {cc0 : Int} {revs : List Rev} {e : Rev}
    (he : (equalsOf h template cc0 revs).getLast? = some e) : ∃ l, revs.getLast? = some l := by
  have := (mem_equalsOf (List.mem_of_getLast? he)).1
  cases hr : revs.getLast? with
  | none => rw [List.getLast?_eq_none_iff] at hr; subst hr; simp at this
  | some l => exact ⟨l, rfl⟩

theorem pickF_of_some {h : Hashing} {plan : List Fault} {template : String} {cc0 : Int} {revs : List Rev} {s : RevSt}
    {e l : Rev} (he : (equalsOf h template cc0 revs).getLast? = some e) (hl : revs.getLast? = some l) :
    pickF h plan template cc0 revs s =
      if equalRev l e then (s, some (l, cc0))
      else if e.number == (freshOf h template cc0 revs).number then (s, some (e, cc0))
      else
        ((renumberF plan e.name (freshOf h template cc0 revs).number 4 s).1,
         if (renumberF plan e.name (freshOf h template cc0 revs).number 4 s).2
         then some ({ e with number := (freshOf h template cc0 revs).number }, cc0) else none) := by
  unfold pickF; rw [he, hl]

theorem pickCalls_of_some {h : Hashing} {plan : List Fault} {template : String} {cc0 : Int} {revs : List Rev} {s : RevSt}
    {e l : Rev} (he : (equalsOf h template cc0 revs).getLast? = some e) (hl : revs.getLast? = some l) :
    pickCalls h plan template cc0 revs s =
      if equalRev l e then []
      else if e.number == (freshOf h template cc0 revs).number then []
      else renumberCalls plan e.name 4 s.tr := by
  unfold pickCalls; rw [he, hl]

theorem pickF_of_none {h : Hashing} {plan : List Fault} {template : String} {cc0 : Int} {revs : List Rev} {s : RevSt}
    (he : equalsOf h template cc0 revs = []) :
    pickF h plan template cc0 revs s = createRevLoopF h plan (freshOf h template cc0 revs) (s.store.length + 8) cc0 s ∧
    pickCalls h plan template cc0 revs s = createCalls h plan (freshOf h template cc0 revs) (s.store.length + 8) cc0 s := by
  unfold pickF pickCalls; rw [he]; exact ⟨rfl, rfl⟩

/-- **unchanged template**: the newest listed revision equals the fresh one ⇒ it is the update revision, no call is made
    (so no Create, no Update) and the store is untouched -/
theorem pickF_unchanged (h : Hashing) (plan : List Fault) (template : String) (cc0 : Int) (revs : List Rev) (s : RevSt)
    {l : Rev} (hl : revs.getLast? = some l) (heq : equalRev l (freshOf h template cc0 revs) = true) :
    pickF h plan template cc0 revs s = (s, some (l, cc0)) ∧ pickCalls h plan template cc0 revs s = [] := by
  have he : (equalsOf h template cc0 revs).getLast? = some l := getLast?_filter_of_last hl heq
  rw [pickF_of_some he hl, pickCalls_of_some he hl, equalRev_refl]
  exact ⟨rfl, rfl⟩

/-- **revert**: some listed revision equals the fresh one ⇒ nothing is created; every call is an Update or a Get of the
    last equal revision `e`. If the listing is sorted and the resolution succeeds, the collision count is unchanged and
    either the newest revision is used as it is (it records the same data as `e`), or `e` is used, renumbered to
    `nextRevision revs` — above every listed number — and stored so. -/
theorem pickF_revert (h : Hashing) (plan : List Fault) (template : String) (cc0 : Int) (revs : List Rev) (s : RevSt)
    (hne : equalsOf h template cc0 revs ≠ []) :
    ∃ e l, (equalsOf h template cc0 revs).getLast? = some e ∧ revs.getLast? = some l ∧
      (∀ c ∈ pickCalls h plan template cc0 revs s, c = .update e.name ∨ c = .get e.name) ∧
      (SortedRevs revs → ∀ upd cc, (pickF h plan template cc0 revs s).2 = some (upd, cc) →
        cc = cc0 ∧
        ((upd = l ∧ equalRev l e = true ∧ (pickF h plan template cc0 revs s).1.store = s.store ∧
            pickCalls h plan template cc0 revs s = []) ∨
         (upd = { e with number := nextRevision revs } ∧ equalRev l e = false ∧
            (pickF h plan template cc0 revs s).1.store = s.store.map (setNumber e.name (nextRevision revs)) ∧
            ∀ r ∈ revs, r.number < upd.number))) := by
  obtain ⟨e, he⟩ : ∃ e, (equalsOf h template cc0 revs).getLast? = some e := by
    cases hx : (equalsOf h template cc0 revs).getLast? with
    | none => rw [List.getLast?_eq_none_iff] at hx; exact absurd hx hne
    | some e => exact ⟨e, rfl⟩
  obtain ⟨l, hl⟩ := equalsOf_getLast?_some_revs he
  refine ⟨e, l, he, hl, ?_, ?_⟩
  · rw [pickCalls_of_some he hl]
    intro c hc
    split at hc
    · simp at hc
    · split at hc
      · simp at hc
      · exact (renumberF_spec plan e.name 0 4 s).2.2 c hc
  · intro hs upd cc hres
    have hem := mem_equalsOf (List.mem_of_getLast? he)
    have hlt := nextRevision_gt hs
    rw [pickF_of_some he hl] at hres ⊢
    rw [pickCalls_of_some he hl]
    by_cases heq : equalRev l e = true
    · simp only [heq, if_true, Option.some.injEq, Prod.mk.injEq] at hres ⊢
      obtain ⟨rfl, rfl⟩ := hres
      exact ⟨rfl, Or.inl ⟨rfl, trivial, trivial, trivial⟩⟩
    · have hnum : (e.number == (freshOf h template cc0 revs).number) = false := by
        have := hlt e hem.1
        simp only [freshOf, beq_eq_false_iff_ne, ne_eq]
        omega
      simp only [heq, hnum, Bool.false_eq_true, if_false] at hres ⊢
      split at hres
      · rename_i hok
        simp only [Option.some.injEq, Prod.mk.injEq] at hres
        obtain ⟨rfl, rfl⟩ := hres
        refine ⟨rfl, Or.inr ⟨rfl, by simp, ?_, ?_⟩⟩
        · have := (renumberF_spec plan e.name (freshOf h template cc0 revs).number 4 s).2.1
          rw [hok] at this
          simp only [if_true] at this
          exact this
        · intro r hr; exact hlt r hr
      · simp at hres

/-- **a collision never overwrites**: `pickF` leaves the store alone, or changes the number of one revision, or inserts
    one revision under a name that was absent — in every case each revision that was stored is still stored under its
    name with its data, owner, labels untouched -/
theorem pickF_store (h : Hashing) (plan : List Fault) (template : String) (cc0 : Int) (revs : List Rev) (s : RevSt) :
    (pickF h plan template cc0 revs s).1.store = s.store ∨
    (∃ e n, (pickF h plan template cc0 revs s).1.store = s.store.map (setNumber e n)) ∨
    (∃ cc, cc0 ≤ cc ∧ (∀ x ∈ s.store, x.name ≠ h.nameOf template cc) ∧
       (pickF h plan template cc0 revs s).1.store = insertByName (candidate h (freshOf h template cc0 revs) cc) s.store ∧
       (pickF h plan template cc0 revs s).2 = some (candidate h (freshOf h template cc0 revs) cc, cc)) := by
  unfold pickF
  split
  · split
    · exact Or.inl rfl
    · split
      · exact Or.inl rfl
      · rename_i e l _ _ _ _
        have := (renumberF_spec plan e.name (freshOf h template cc0 revs).number 4 s).2.1
        simp only
        rw [this]
        split
        · exact Or.inr (Or.inl ⟨_, _, rfl⟩)
        · exact Or.inl rfl
  · rcases (createRevLoopF_spec h plan (freshOf h template cc0 revs) (s.store.length + 8) cc0 s).2.1 with h1 | ⟨cc, h1, h2, h3, h4⟩
    · exact Or.inl h1
    · exact Or.inr (Or.inr ⟨cc, h1, h3, h4, h2⟩)

theorem pickF_preserves (h : Hashing) (plan : List Fault) (template : String) (cc0 : Int) (revs : List Rev) (s : RevSt)
    {x : Rev} (hx : x ∈ s.store) :
    ∃ y ∈ (pickF h plan template cc0 revs s).1.store,
      y.name = x.name ∧ y.data = x.data ∧ y.owner = x.owner ∧ y.selMatch = x.selMatch ∧ y.marker = x.marker ∧
      y.hashNum = x.hashNum ∧ y.ctime = x.ctime := by
  rcases pickF_store h plan template cc0 revs s with h1 | ⟨e, n, h1⟩ | ⟨cc, _, _, h1, _⟩
  · rw [h1]; exact ⟨x, hx, rfl, rfl, rfl, rfl, rfl, rfl, rfl⟩
  · rw [h1]
    refine ⟨setNumber e n x, List.mem_map_of_mem hx, ?_⟩
    unfold setNumber; split <;> exact ⟨rfl, rfl, rfl, rfl, rfl, rfl, rfl⟩
  · rw [h1]; exact ⟨x, mem_insertByName.mpr (Or.inr hx), rfl, rfl, rfl, rfl, rfl, rfl, rfl⟩

/-- distinct names stay distinct -/
theorem pickF_names_nodup (h : Hashing) (plan : List Fault) (template : String) (cc0 : Int) (revs : List Rev) (s : RevSt)
    (hn : (s.store.map (·.name)).Nodup) : ((pickF h plan template cc0 revs s).1.store.map (·.name)).Nodup := by
  rcases pickF_store h plan template cc0 revs s with h1 | ⟨e, n, h1⟩ | ⟨cc, _, h0, h1, _⟩
  · rw [h1]; exact hn
  · rw [h1, List.map_map]
    have : ((fun x : Rev => x.name) ∘ setNumber e n) = (fun x : Rev => x.name) := by
      funext x; exact setNumber_name e n x
    rw [this]; exact hn
  · rw [h1]
    have := ((insertByName_perm (candidate h (freshOf h template cc0 revs) cc) s.store).map (·.name)).nodup_iff
    rw [this, List.map_cons, List.nodup_cons]
    refine ⟨?_, hn⟩
    intro hmem
    obtain ⟨x, hx, hxe⟩ := List.mem_map.mp hmem
    exact h0 x hx hxe

/-! ### collisions and fuel -/

/-- AlreadyExists with different data: nothing is written, the collision count grows by one, the next name is probed -/
theorem createRevLoopF_collision (h : Hashing) (plan : List Fault) (fresh : Rev) (fuel : Nat) (cc : Int) (s : RevSt) {ex : Rev}
    (hk : createKind h plan fresh cc s = some .alreadyExists)
    (hg : ((afterCreate h plan fresh cc s).tr.call plan (RevCall.get (h.nameOf fresh.data cc)).key).2 = none)
    (hf : s.store.find? (·.name == h.nameOf fresh.data cc) = some ex) (hd : ex.data ≠ fresh.data) :
    createRevLoopF h plan fresh (fuel + 1) cc s = createRevLoopF h plan fresh fuel (cc + 1) (afterGet h plan fresh cc s) ∧
    (afterGet h plan fresh cc s).store = s.store ∧
    (afterGet h plan fresh cc s).tr.log =
      s.tr.log ++ [(RevCall.create (h.nameOf fresh.data cc)).key, (RevCall.get (h.nameOf fresh.data cc)).key] := by
  refine ⟨?_, rfl, afterGet_log h plan fresh cc s⟩
  rw [createRevLoopF_succ, hk]
  simp only [hg, hf]
  rw [if_neg (by simpa using hd)]

theorem createRevLoopF_fuel_aux (h : Hashing) (plan : List Fault) (fresh : Rev) (cc0 : Int) (n : Nat)
    (hinj : ∀ a b : Nat, a ≤ n → b ≤ n → h.nameOf fresh.data (cc0 + a) = h.nameOf fresh.data (cc0 + b) → a = b)
    (fuel : Nat) : ∀ (k : Nat) (s : RevSt), s.store.length = n →
      (∀ j < k, h.nameOf fresh.data (cc0 + j) ∈ s.store.map (·.name)) → n + 1 ≤ fuel + k →
      createRevLoopF h plan fresh fuel (cc0 + k) s = createRevLoopF h plan fresh (fuel + 1) (cc0 + k) s := by
  induction fuel with
  | zero =>
    intro k s hlen hk hf
    exfalso
    -- n + 1 distinct names, all stored, in a store of n revisions
    have hnd : ((List.range (n + 1)).map (fun j : Nat => h.nameOf fresh.data (cc0 + j))).Nodup := by
      apply List.Nodup.map_on
      · intro a ha b hb hab
        rw [List.mem_range] at ha hb
        exact hinj a b (by omega) (by omega) hab
      · exact List.nodup_range
    have hsub : (List.range (n + 1)).map (fun j : Nat => h.nameOf fresh.data (cc0 + j)) ⊆ s.store.map (·.name) := by
      intro x hx
      obtain ⟨j, hj, rfl⟩ := List.mem_map.mp hx
      rw [List.mem_range] at hj
      exact hk j (by omega)
    have := (List.Nodup.subperm hnd hsub).length_le
    simp at this
    omega
  | succ fuel ih =>
    intro k s hlen hk hf
    rw [createRevLoopF_succ, createRevLoopF_succ (fuel := fuel + 1)]
    cases hkind : createKind h plan fresh (cc0 + k) s with
    | none => rfl
    | some kind =>
      cases kind <;> try rfl
      simp only
      cases hg : ((afterCreate h plan fresh (cc0 + k) s).tr.call plan (RevCall.get (h.nameOf fresh.data (cc0 + k))).key).2 with
      | some e => rfl
      | none =>
        cases hfind : s.store.find? (·.name == h.nameOf fresh.data (cc0 + k)) with
        | none => rfl
        | some ex =>
          simp only
          by_cases hd : (ex.data == fresh.data) = true
          · rw [if_pos hd, if_pos hd]
          · rw [if_neg hd, if_neg hd]
            have hexm : ex ∈ s.store := List.mem_of_find?_eq_some hfind
            have hexn : ex.name = h.nameOf fresh.data (cc0 + k) := by
              have := List.find?_some hfind; simpa using this
            have := ih (k + 1) (afterGet h plan fresh (cc0 + k) s) hlen (by
              intro j hj
              rcases Nat.lt_succ_iff_lt_or_eq.mp hj with hj | rfl
              · exact hk j hj
              · exact List.mem_map.mpr ⟨ex, hexm, hexn⟩) (by omega)
            have hcast : cc0 + (k : Int) + 1 = cc0 + ((k + 1 : Nat) : Int) := by push_cast; ring
            rw [hcast]
            exact this

/-- **the fuel is never exhausted**: if the hash-derived name is injective in the collision count on the
    `|store| + 1` values from `cc0` on, every fuel ≥ `|store| + 1` gives the same result (state, log, answer) — the
    unbounded loop of the Go code behaves like the fuelled model. Without this assumption the Go loop could spin
    for ever on names that all exist with other data, which is why it is stated. -/
theorem createRevLoopF_fuel (h : Hashing) (plan : List Fault) (fresh : Rev) (cc0 : Int) (s : RevSt)
    (hinj : ∀ a b : Nat, a ≤ s.store.length → b ≤ s.store.length →
      h.nameOf fresh.data (cc0 + a) = h.nameOf fresh.data (cc0 + b) → a = b)
    (fuel : Nat) (hf : s.store.length + 1 ≤ fuel) :
    createRevLoopF h plan fresh fuel cc0 s = createRevLoopF h plan fresh (s.store.length + 1) cc0 s := by
  obtain ⟨extra, rfl⟩ : ∃ extra, fuel = s.store.length + 1 + extra := ⟨fuel - (s.store.length + 1), by omega⟩
  induction extra with
  | zero => rfl
  | succ m ih =>
    have := createRevLoopF_fuel_aux h plan fresh cc0 s.store.length hinj (s.store.length + 1 + m) 0 s rfl
      (by intro j hj; omega) (by omega)
    simp only [Nat.cast_zero, add_zero] at this
    rw [← ih (by omega), show s.store.length + 1 + (m + 1) = s.store.length + 1 + m + 1 by omega, ← this]

/-- where a revision of the store after `pickF` comes from: an old one (only its number may differ), or the returned one -/
theorem pickF_back (h : Hashing) (plan : List Fault) (template : String) (cc0 : Int) (revs : List Rev) (s : RevSt)
    {y : Rev} (hy : y ∈ (pickF h plan template cc0 revs s).1.store) :
    (∃ x ∈ s.store, y.name = x.name ∧ y.owner = x.owner ∧ y.selMatch = x.selMatch ∧ y.marker = x.marker ∧ y.data = x.data) ∨
    (∃ cc, (pickF h plan template cc0 revs s).2 = some (y, cc)) := by
  rcases pickF_store h plan template cc0 revs s with h1 | ⟨e, n, h1⟩ | ⟨cc, _, _, h1, h2⟩
  · rw [h1] at hy; exact Or.inl ⟨y, hy, rfl, rfl, rfl, rfl, rfl⟩
  · rw [h1] at hy
    obtain ⟨x, hx, rfl⟩ := List.mem_map.mp hy
    refine Or.inl ⟨x, hx, ?_⟩
    unfold setNumber; split <;> exact ⟨rfl, rfl, rfl, rfl, rfl⟩
  · rw [h1, mem_insertByName] at hy
    rcases hy with rfl | hy
    · exact Or.inr ⟨cc, h2⟩
    · exact Or.inl ⟨y, hy, rfl, rfl, rfl, rfl, rfl⟩

end Asts.SYb
