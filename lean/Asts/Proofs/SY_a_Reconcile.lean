import Mathlib.Tactic
import Asts.Proofs.L1_a_Readings

/-! # SY_a — two more facts about the action list of `updateStatefulSet`

* an `update o` is issued only for a pod of the snapshot with ordinal `o`;
* a `create o` that the fault plan fails is the last action (the reconcile returns at once). -/

namespace Asts.SYa
open Asts

section
variable (pods : List Pod) (f : Faults)

/-- every update has a snapshot pod at its ordinal; no create so far was faulted -/
def Good (acts : List Action) : Prop :=
  (∀ o, Action.update o ∈ acts → ∃ p ∈ pods, p.ord = o) ∧
  (∀ o rev, Action.create o rev ∈ acts → f.hit 0 o = false)

/-- the same, except that the very last action may be a faulted create -/
def Fin (acts : List Action) : Prop :=
  (∀ o, Action.update o ∈ acts → ∃ p ∈ pods, p.ord = o) ∧
  (∀ pre o rev post, acts = pre ++ Action.create o rev :: post → post ≠ [] → f.hit 0 o = false)

variable {pods f}

theorem Good.fin {acts : List Action} (h : Good pods f acts) : Fin pods f acts :=
  ⟨h.1, fun pre o rev post hacts _ => h.2 o rev (by rw [hacts]; simp)⟩

theorem Good.snoc {acts : List Action} (h : Good pods f acts) {a : Action}
    (hu : ∀ o, a = .update o → ∃ p ∈ pods, p.ord = o) (hc : ∀ o rev, a = .create o rev → f.hit 0 o = false) :
    Good pods f (acts ++ [a]) := by
  refine ⟨?_, ?_⟩
  · intro o ho
    rcases List.mem_append.1 ho with ho | ho
    · exact h.1 o ho
    · exact hu o (List.mem_singleton.1 ho).symm
  · intro o rev ho
    rcases List.mem_append.1 ho with ho | ho
    · exact h.2 o rev ho
    · exact hc o rev (List.mem_singleton.1 ho).symm

theorem Good.snoc_fin {acts : List Action} (h : Good pods f acts) {a : Action}
    (hu : ∀ o, a = .update o → ∃ p ∈ pods, p.ord = o) : Fin pods f (acts ++ [a]) := by
  refine ⟨?_, ?_⟩
  · intro o ho
    rcases List.mem_append.1 ho with ho | ho
    · exact h.1 o ho
    · exact hu o (List.mem_singleton.1 ho).symm
  · intro pre o rev post hacts hpost
    -- the create is not the last element, so it lies in `acts`
    have hmem : Action.create o rev ∈ acts := by
      rcases List.eq_nil_or_concat post with rfl | ⟨post', x, rfl⟩
      · exact absurd rfl hpost
      · have : acts ++ [a] = (pre ++ Action.create o rev :: post') ++ [x] := by
          rw [hacts]; simp
        have h2 := List.append_inj_left' this rfl
        rw [h2]; simp
    exact h.2 o rev hmem

def CtlOk (pods : List Pod) (f : Faults) : Ctl → Prop
  | .next s => Good pods f s.acts
  | .done s _ => Fin pods f s.acts

theorem ensurePod_ok (cur upd : String) (mono : Bool) (s : St) (i : Int) (p : Pod)
    (hs : Good pods f s.acts) (hp : p.created = true → p ∈ pods ∧ p.ord = i) :
    CtlOk pods f (ensurePod cur upd f mono s i p) := by
  unfold ensurePod
  by_cases hc : p.created = true
  · obtain ⟨hm, ho⟩ := hp hc
    have hu : ∀ o, Action.update i = .update o → ∃ q ∈ pods, q.ord = o := by
      intro o h; cases h; exact ⟨p, hm, ho⟩
    simp only [hc, Bool.not_true, Bool.false_eq_true, if_false]
    split_ifs
    · exact hs.fin
    · exact hs.fin
    · exact hs
    · exact hs.snoc_fin hu
    · exact hs.snoc hu (by intro o rev h; cases h)
  · have hc' : p.created = false := by simpa using hc
    simp only [hc', Bool.not_false, if_true]
    by_cases hf : f.hit 0 i = true
    · simp only [hf, if_true]
      exact hs.snoc_fin (by intro o h; cases h)
    · have hf' : f.hit 0 i = false := by simpa using hf
      simp only [hf', Bool.false_eq_true, if_false]
      have hg : Good pods f (s.acts ++ [.create i p.rev]) :=
        hs.snoc (by intro o h; cases h) (by intro o rev h; cases h; exact hf')
      split_ifs
      · exact hg.fin
      · exact hg

theorem replicaStep_ok (v : SetView) (cur upd : String) (mono : Bool) (s : St) (i : Int) (p0 : Pod)
    (hs : Good pods f s.acts) (hp : p0.created = true → p0 ∈ pods ∧ p0.ord = i) :
    CtlOk pods f (replicaStep v cur upd f mono s i p0).1 := by
  unfold replicaStep replaceFailed
  by_cases hfs : (p0.failed || p0.succeeded) = true
  · simp only [hfs, if_true]
    by_cases hf : f.hit 1 i = true
    · simp only [hf, if_true]
      exact hs.snoc_fin (by intro o h; cases h)
    · simp only [hf, Bool.false_eq_true, if_false]
      refine ensurePod_ok cur upd mono _ i _ ?_ ?_
      · exact hs.snoc (by intro o h; cases h) (by intro o rev h; cases h)
      · intro hc; rw [newPod_created] at hc; cases hc
  · have hfs' : (p0.failed || p0.succeeded) = false := by simpa using hfs
    simp only [hfs', Bool.false_eq_true, if_false]
    exact ensurePod_ok cur upd mono s i p0 hs hp

theorem replicaLoop_ok (v : SetView) (cur upd : String) (mono : Bool) (R : List (Int × Pod))
    (hR : ∀ ip ∈ R, ip.2.created = true → ip.2 ∈ pods ∧ ip.2.ord = ip.1) (s : St) (hs : Good pods f s.acts) :
    CtlOk pods f (replicaLoop v cur upd f mono s R).1 := by
  induction R generalizing s with
  | nil => simpa [replicaLoop, CtlOk] using hs
  | cons ip rest ih =>
    obtain ⟨i, p0⟩ := ip
    have h1 := replicaStep_ok v cur upd mono s i p0 hs (hR (i, p0) (by simp))
    unfold replicaLoop
    cases hstep : replicaStep v cur upd f mono s i p0 with
    | mk c p' =>
      rw [hstep] at h1
      cases c with
      | done s' o => simpa [CtlOk] using h1
      | next s' =>
        simp only
        exact ih (fun ip hip => hR ip (by simp [hip])) s' h1

theorem condemnedLoop_ok (cur upd : String) (mono : Bool) (fu : Option Pod) (cs : List Pod) (s : St)
    (hs : Good pods f s.acts) : CtlOk pods f (condemnedLoop cur upd f mono fu s cs) := by
  induction cs generalizing s with
  | nil => simpa [condemnedLoop, CtlOk] using hs
  | cons c rest ih =>
    have hg : Good pods f (s.acts ++ [.delete c.ord c.id .scaleDown]) :=
      hs.snoc (by intro o h; cases h) (by intro o rev h; cases h)
    unfold condemnedLoop
    split_ifs
    · exact hs.fin
    · exact ih s hs
    · exact hs.fin
    · exact hg.fin
    · exact hg.fin
    · exact ih _ hg

theorem updateWalk_ok (cur upd : String) (W : List (Int × Pod)) (s : St) (hs : Good pods f s.acts) :
    Fin pods f (updateWalk cur upd f s W).1.acts := by
  induction W generalizing s with
  | nil => simpa [updateWalk] using hs.fin
  | cons tp rest ih =>
    obtain ⟨t, p⟩ := tp
    unfold updateWalk
    by_cases h1 : (p.rev != upd && !p.terminating) = true
    · rw [if_pos h1]
      show Fin pods f (s.acts ++ [.delete t p.id .update])
      exact (hs.snoc (a := .delete t p.id .update) (by intro o h; cases h) (by intro o rev h; cases h)).fin
    · rw [if_neg h1]
      by_cases h2 : (!p.healthy) = true
      · rw [if_pos h2]; exact hs.fin
      · rw [if_neg h2]; exact ih s hs

theorem runLoops_ok (v : SetView) (cur upd : String) (p : Prepared)
    (hR : ∀ ip ∈ p.reps, ip.2.created = true → ip.2 ∈ pods ∧ ip.2.ord = ip.1) :
    Fin pods f (runLoops v cur upd f p).1.acts := by
  have h0 : Good pods f ({ status := p.st0 } : St).acts := ⟨by simp, by simp⟩
  have h1 := replicaLoop_ok v cur upd (!v.parallel) p.reps hR { status := p.st0 } h0
  unfold runLoops
  simp only
  cases hl : replicaLoop v cur upd f (!v.parallel) { status := p.st0 } p.reps with
  | mk c reps =>
    rw [hl] at h1
    cases c with
    | done s o => simpa [CtlOk] using h1
    | next s =>
      simp only
      have h2 := condemnedLoop_ok cur upd (!v.parallel) p.fu p.condemned.reverse s h1
      cases hc : condemnedLoop cur upd f (!v.parallel) p.fu s p.condemned.reverse with
      | done s' o => rw [hc] at h2; simpa [CtlOk] using h2
      | next s' =>
        rw [hc] at h2
        simp only
        unfold updateStage
        split_ifs
        · exact Good.fin h2
        · exact updateWalk_ok cur upd _ s' h2

end

/-- **the action list of the reconcile**: updates only at ordinals held by a snapshot pod; a faulted create is last -/
theorem uss_fin (v : SetView) (cur upd : String) (pods : List Pod) (f : Faults) :
    Fin pods f (updateStatefulSet v cur upd pods f).1.acts := by
  have hnil : Fin pods f [] := ⟨by simp, by intro pre o rev post h; simp at h⟩
  cases hprep : prepare v cur upd pods with
  | error e =>
    obtain ⟨st, o⟩ := e
    rw [prepare_error_acts hprep]; exact hnil
  | ok p =>
    unfold updateStatefulSet
    rw [hprep]
    simp only
    by_cases hdel : v.deleting = true
    · simp only [hdel, if_true]; exact hnil
    · simp only [hdel, Bool.false_eq_true, if_false]
      cases hr : v.replicas with
      | none => simp [prepare, hr] at hprep
      | some r =>
        have hinv := prepare_inv hr hprep
        refine runLoops_ok v cur upd p ?_
        intro ip hip hc
        obtain ⟨_, hord, hmem⟩ := hinv.rep ip hip
        rcases hmem with hm | ⟨hn, _⟩
        · exact ⟨hm, hord⟩
        · rw [hn, newPod_created] at hc; cases hc

theorem uss_update_has_pod (v : SetView) (cur upd : String) (pods : List Pod) (f : Faults) {o : Int}
    (h : Action.update o ∈ (updateStatefulSet v cur upd pods f).1.acts) : ∃ p ∈ pods, p.ord = o :=
  (uss_fin v cur upd pods f).1 o h

theorem uss_faulted_create_last (v : SetView) (cur upd : String) (pods : List Pod) (f : Faults)
    {pre post : List Action} {o : Int} {rev : String}
    (h : (updateStatefulSet v cur upd pods f).1.acts = pre ++ Action.create o rev :: post) (hpost : post ≠ []) :
    f.hit 0 o = false :=
  (uss_fin v cur upd pods f).2 pre o rev post h hpost

end Asts.SYa
