import Asts.Proofs.C02_CTransfer

/-! C02, **convergence with pod objects that are not members of the set**: the rounds of the world, restricted to the
    members, follow the rounds of the normal-world theory step by step (up to pod ids); the other pod objects stay inert. -/
namespace Asts.C02p
open Asts Asts.L1c

theorem idOk_ownM {l : List CPod} (hl : IdOk l) : IdOk (ownM l) := by
  refine ⟨?_, ?_⟩
  · intro a ha b hb hab
    rw [mem_ownM] at ha hb
    obtain ⟨a0, ha0, _, rfl⟩ := ha
    obtain ⟨b0, hb0, _, rfl⟩ := hb
    rw [hl.inj a0 ha0 b0 hb0 hab]
  · intro c hc
    rw [mem_ownM] at hc
    obtain ⟨c0, hc0, _, rfl⟩ := hc
    exact hl.lt c0 hc0

/-- a world the argument speaks about, at any stage: pods and room as in `PreM`, the revision stages resolved (`PickOut`),
    the prepared members-only world in the policy class -/
structure Stg (h : Hashing) (K : SyncIn → Prop) (x : SyncIn) : Prop where
  pre : PreM x
  room : roomM x
  pick : ∃ G upd cc, PickOut h x.template (x.collisionCount.getD 0) (adoptS x.store) G upd cc ∧
    (cc ≠ x.collisionCount.getD 0 → x.stored.updateRev ≠ upd.name)
  cls : K (prepW h (mOf x))

/-- members owned or orphans in order, non-members not the set's -/
def POne (z : SyncIn) : Prop :=
  (∀ c ∈ z.pods, c.member = true → OwnP c) ∧ (∀ c ∈ z.pods, c.member = false → c.owner ≠ .self)
/-- members owned, non-members not the set's -/
def PTwo (z : SyncIn) : Prop :=
  (∀ c ∈ z.pods, c.member = true → c.owner = .self) ∧ (∀ c ∈ z.pods, c.member = false → c.owner ≠ .self)

theorem PTwo.one {z : SyncIn} (hz : PTwo z) : POne z := ⟨fun c hc hm => Or.inl (hz.1 c hc hm), hz.2⟩

section
variable {h : Hashing} {K : SyncIn → Prop} {x : SyncIn}

theorem fix_of_eq {j j' : SyncIn} (e : j' = j) (hn : NormC h j) (hn' : NormC h j') (hf : Fix hn) : Fix hn' := by
  subst e; exact hf

/-- **one round**: the next world is again at a stage; its prepared members-only world is the next world of the theory
    with the pod ids of the real world -/
theorem stg_next (C : ConvClass h K) (hs : Stg h K x) :
    Stg h K (nextW h x) ∧
    prepW h (mOf (nextW h x)) = withPods (nextW h (prepW h (mOf x))) (ownM (nextW h x).pods) ∧
    prepW h (mOf (nextW h x)) = Y (nextW h x) ∧
    KeyPerm (nextW h (prepW h (mOf x))).pods (ownM (nextW h x).pods) ∧
    POne (nextW h x) ∧ (POne x → PTwo (nextW h x)) := by
  obtain ⟨G, upd, cc, hpick, hcc⟩ := hs.pick
  have hsN := C.step.ns _ hs.cls
  have hpol := C.step.pol _ hs.cls
  have hr : StepRaw h x hsN.norm := stepRaw hs.pre hpick hcc hsN.norm hpol.ok
  have pre1 := hr.preM hs.pre hs.room hpick hsN hpol
  have room1 := hr.room hs.room hsN hpol
  have hkp : KeyPerm (nextW h (prepW h (mOf x))).pods (ownM (nextW h x).pods) := by
    have := hr.keyPerm.symm
    rw [Y_pods] at this
    exact this
  have hW : Y (nextW h x) = withPods (nextW h (prepW h (mOf x))) (ownM (nextW h x).pods) := by
    have e : ({ nextW h (prepW h (mOf x)) with pods := [] } : SyncIn) = { Y (nextW h x) with pods := [] } := hr.rest.symm
    exact eq_withPods e
  have kY : K (Y (nextW h x)) := by
    rw [hW]
    exact C.repl _ _ (C.step.next _ hs.cls) hkp (idOk_ownM pre1.ids)
  have hn1 := (C.step.ns _ kY).norm
  obtain ⟨l, hl, heq⟩ := hn1.rev
  have hpick1 : PickOut h (nextW h x).template ((nextW h x).collisionCount.getD 0) (adoptS (nextW h x).store)
      (nextW h x).store l ((nextW h x).collisionCount.getD 0) :=
    pick_quiet pre1.names hn1.noOrphanRev hl heq
  have hY : prepW h (mOf (nextW h x)) = Y (nextW h x) := by
    obtain ⟨h1, h2⟩ := prep_eq pre1.preC (mOf_pick hpick1)
    have h2' : prepCC h (mOf (nextW h x)) = (nextW h x).collisionCount := by
      rw [h2]
      exact if_pos (beq_self_eq_true _)
    unfold prepW
    rw [h1, h2']
    rfl
  refine ⟨⟨pre1, room1, ⟨_, l, _, hpick1, fun hne => absurd rfl hne⟩, by rw [hY]; exact kY⟩, by rw [hY, hW], hY, hkp,
    ⟨hr.ownP hs.pre, hr.inert⟩, ?_⟩
  intro hO
  exact ⟨hr.noOrphan hs.pre (C.step.upd _ hs.cls) hO.1, hr.inert⟩

/-- **the measure argument on the real worlds** -/
theorem conv_stg (C : ConvClass h K) (m : Nat) : ∀ (x : SyncIn), Stg h K x → C.mu (prepW h (mOf x)) ≤ m →
    ∃ k, 2 ≤ k ∧ k ≤ m + 2 ∧ Final h (Y (nextWN h k x)) := by
  induction m with
  | zero =>
    intro x hs hm
    exact conv_zero C hs (by omega)
  | succ m ih =>
    intro x hs hm
    by_cases hz : C.mu (prepW h (mOf x)) = 0
    · obtain ⟨k, h1, h2, h3⟩ := conv_zero C hs hz
      exact ⟨k, h1, by omega, h3⟩
    · obtain ⟨hs1, hW, _, hkp, _, _⟩ := stg_next C hs
      have hlt := C.down _ hs.cls hz
      have hmu : C.mu (prepW h (mOf (nextW h x))) = C.mu (nextW h (prepW h (mOf x))) := by
        rw [hW]; exact C.mu_repl _ _ (C.step.next _ hs.cls) hkp
      obtain ⟨k, h1, h2, h3⟩ := ih _ hs1 (by omega)
      exact ⟨k + 1, by omega, by omega, h3⟩
where
  conv_zero (C : ConvClass h K) {x : SyncIn} (hs : Stg h K x) (hz : C.mu (prepW h (mOf x)) = 0) :
      ∃ k, 2 ≤ k ∧ k ≤ 0 + 2 ∧ Final h (Y (nextWN h k x)) := by
    have hsN := C.step.ns _ hs.cls
    have hz0 : muPods (prepW h (mOf x)) = 0 := C.zero _ hs.cls hz
    obtain ⟨hs1, hW1, _, hkp1, _, _⟩ := stg_next C hs
    have hsN1 := C.step.ns _ hs1.cls
    have hnN := (nextW_ns hsN (pol_of_done hsN hz0)).norm
    have hz1 : muPods (prepW h (mOf (nextW h x))) = 0 := by
      rw [hW1, muPods_withPods hnN hkp1]
      exact done_next_mu hsN hz0
    have hfix1 : Fix hsN1.norm :=
      fix_of_eq hW1 (normC_withPods hnN hkp1) hsN1.norm (fix_withPods hnN hkp1 (done_fix hsN hz0))
    have hfin : Final h (nextW h (prepW h (mOf (nextW h x)))) := fix_final hsN1 hz1 hfix1
    obtain ⟨_, hW2, hY2, hkp2, _, _⟩ := stg_next C hs1
    refine ⟨2, le_refl _, le_refl _, ?_⟩
    show Final h (Y (nextW h (nextW h x)))
    rw [← hY2, hW2]
    exact final_withPods hkp2 hfin

/-- who owns the pods along the rounds -/
theorem stg_owners (C : ConvClass h K) : ∀ (k : Nat) {x : SyncIn}, Stg h K x →
    (1 ≤ k → POne (nextWN h k x)) ∧ (2 ≤ k → PTwo (nextWN h k x)) := by
  intro k
  induction k with
  | zero => intro x _; exact ⟨fun h0 => absurd h0 (by omega), fun h0 => absurd h0 (by omega)⟩
  | succ k ih =>
    intro x hs
    obtain ⟨hs1, _, _, _, hone, _⟩ := stg_next C hs
    obtain ⟨i1, i2⟩ := ih hs1
    refine ⟨fun _ => ?_, fun h2 => ?_⟩
    · show POne (nextWN h k (nextW h x))
      by_cases hk0 : k = 0
      · subst hk0; exact hone
      · exact i1 (by omega)
    · show PTwo (nextWN h k (nextW h x))
      by_cases hk1 : k = 1
      · subst hk1
        obtain ⟨_, _, _, _, _, htwo⟩ := stg_next C hs1
        exact htwo hone
      · exact i2 (by omega)

theorem stg_rounds (C : ConvClass h K) : ∀ (k : Nat) {x : SyncIn}, Stg h K x → Stg h K (nextWN h k x) := by
  intro k
  induction k with
  | zero => intro x hs; exact hs
  | succ k ih => intro x hs; exact ih (stg_next C hs).1

end

/-- **`Final` of the members-only view is `Final` of the world** once every member is owned and no other pod object is
    the set's -/
theorem final_of_Y {h : Hashing} {z : SyncIn} (hf : Final h (Y z)) (hz : PTwo z) : Final h z := by
  have hfilt : z.pods.filter (fun c => c.owner == .self) = z.pods.filter (·.member) := by
    apply List.filter_congr
    intro c hc
    cases hm : c.member
    · have := hz.2 c hc hm
      simpa using this
    · rw [hz.1 c hc hm]; rfl
  have hown : ownPods (Y z) = ownPods z := by
    show (ownM z.pods).filter (fun c => c.owner == .self) = z.pods.filter (fun c => c.owner == .self)
    rw [hfilt]
    have h1 : (ownM z.pods).filter (fun c => c.owner == .self) = ownM z.pods := by
      apply List.filter_eq_self.2
      intro c hc
      rw [mem_ownM] at hc
      obtain ⟨c0, _, _, rfl⟩ := hc
      rfl
    rw [h1]
    unfold ownM
    apply map_own_of_self
    intro c hc
    rw [List.mem_filter] at hc
    exact hz.1 c hc.1 hc.2
  have hspec : specOk z = specOk (Y z) := rfl
  have hrevs : revsFinal h z = revsFinal h (Y z) := by
    unfold revsFinal
    rw [hown]
    rfl
  have hexp : expectedStatus z = expectedStatus (Y z) := by
    unfold expectedStatus
    rw [hown]
    rfl
  have hpY := (podsFinal_iff (Y z)).1 hf.pods
  have hpods : podsFinal z = true := by
    rw [podsFinal_iff]
    refine ⟨?_, ?_, ?_, ?_⟩
    · intro c hc hs
      have hcm : c ∈ ownPods z := mem_ownPods.2 ⟨hc, hs⟩
      rw [← hown] at hcm
      exact hpY.own c (mem_ownPods.1 hcm).1 hs
    · intro c hc hno
      left
      cases hm : c.member
      · simp
      · have := hz.1 c hc hm
        rw [hno] at this; cases this
    · intro o ho
      have := hpY.full o ho
      rw [hown] at this
      exact this
    · have := hpY.len
      rw [hown] at this
      exact this
  unfold Final finalB
  rw [hspec, hpods, hrevs, hexp]
  have := hf
  unfold Final finalB at this
  simp only [Bool.and_eq_true] at this
  obtain ⟨⟨⟨t1, _⟩, t3⟩, t4⟩ := this
  rw [t1, t3]
  simp only [Bool.and_self, Bool.true_and]
  exact t4

/-- **convergence from a stage** -/
theorem converge_stg {h : Hashing} {K : SyncIn → Prop} (C : ConvClass h K) {x : SyncIn} (hs : Stg h K x) :
    ∃ k ≤ C.mu (prepW h (mOf x)) + 2, Final h (nextWN h k x) := by
  obtain ⟨k, h1, h2, h3⟩ := conv_stg C _ x hs (le_refl _)
  exact ⟨k, h2, final_of_Y h3 ((stg_owners C k hs).2 h1)⟩

theorem converge_stg_rounds {h : Hashing} {K : SyncIn → Prop} (C : ConvClass h K) {i : SyncIn} (hs : Stg h K (settle i)) :
    ∃ n ≤ C.mu (prepW h (mOf (settle i))) + 3, Final h (roundsN h n i) := by
  obtain ⟨k, hkk, hf⟩ := converge_stg C hs
  refine ⟨k + 1, by omega, ?_⟩
  rw [roundsN_succ, round_fst, settle_roundsN]
  exact final_applySync h _ hf

end Asts.C02p
