import Asts.Proofs.Ordinals2
import Asts.Spec.Desired

/-! The executable specification `desired` satisfies `IsDesired`; with uniqueness, the helper equals it. -/
namespace Asts
open List

theorem desiredAux_mem_ge {S : List Int} {fuel : Nat} {n : Int} {need : Nat} :
    ∀ o ∈ desiredAux S fuel n need, n ≤ o ∧ o ∉ S := by
  induction fuel generalizing n need with
  | zero => simp [desiredAux]
  | succ f ih =>
    cases need with
    | zero => simp [desiredAux]
    | succ k =>
      intro o ho
      unfold desiredAux at ho
      split at ho
      · have := ih o ho; exact ⟨by omega, this.2⟩
      · rename_i hc
        rcases List.mem_cons.1 ho with rfl | ho
        · exact ⟨le_refl _, by simpa using hc⟩
        · have := ih o ho; exact ⟨by omega, this.2⟩

theorem desiredAux_sorted {S : List Int} {fuel : Nat} {n : Int} {need : Nat} :
    (desiredAux S fuel n need).Pairwise (· < ·) := by
  induction fuel generalizing n need with
  | zero => simp [desiredAux]
  | succ f ih =>
    cases need with
    | zero => simp [desiredAux]
    | succ k =>
      unfold desiredAux
      split
      · exact ih
      · rw [List.pairwise_cons]
        refine ⟨fun o ho => ?_, ih⟩
        have := (desiredAux_mem_ge o ho).1; omega

theorem desiredAux_least {S : List Int} {fuel : Nat} {n : Int} {need : Nat} :
    ∀ o ∈ desiredAux S fuel n need, ∀ m, n ≤ m → m < o → m ∉ S → m ∈ desiredAux S fuel n need := by
  induction fuel generalizing n need with
  | zero => simp [desiredAux]
  | succ f ih =>
    cases need with
    | zero => simp [desiredAux]
    | succ k =>
      intro o ho m hnm hmo hmS
      unfold desiredAux at ho ⊢
      split at ho
      · rename_i hc
        rw [if_pos hc]
        have hne : m ≠ n := by rintro rfl; exact hmS (by simpa using hc)
        exact ih o ho m (by omega) hmo hmS
      · rename_i hc
        rw [if_neg hc]
        rcases List.mem_cons.1 ho with rfl | ho
        · omega
        · by_cases hmn : m = n
          · subst hmn; simp
          · exact List.mem_cons_of_mem _ (ih o ho m (by omega) hmo hmS)

theorem filter_ge_succ_le (S : List Int) (n : Int) :
    (S.filter (fun s => decide (n + 1 ≤ s))).length ≤ (S.filter (fun s => decide (n ≤ s))).length := by
  induction S with
  | nil => simp
  | cons a as ih =>
    by_cases h1 : n + 1 ≤ a
    · have h2 : n ≤ a := by omega
      simp only [List.filter_cons, h1, h2, decide_true, if_true, List.length_cons]; omega
    · by_cases h2 : n ≤ a
      · simp only [List.filter_cons, h1, h2, decide_true, decide_false, if_true, List.length_cons]
        simp only [Bool.false_eq_true, if_false]; omega
      · simp only [List.filter_cons, h1, h2, decide_false, Bool.false_eq_true, if_false]; exact ih

theorem filter_ge_succ_lt {S : List Int} {n : Int} (h : n ∈ S) :
    (S.filter (fun s => decide (n + 1 ≤ s))).length < (S.filter (fun s => decide (n ≤ s))).length := by
  induction S with
  | nil => simp at h
  | cons a as ih =>
    by_cases hna : a = n
    · subst hna
      have h1 : ¬ (a + 1 ≤ a) := by omega
      have h2 : a ≤ a := le_refl a
      have := filter_ge_succ_le as a
      simp only [List.filter_cons, h1, h2, decide_true, decide_false, if_true, List.length_cons]
      simp only [Bool.false_eq_true, if_false]; omega
    · have h' : n ∈ as := by
        rcases List.mem_cons.1 h with rfl | h
        · exact absurd rfl hna
        · exact h
      have := ih h'
      by_cases h1 : n + 1 ≤ a
      · have h2 : n ≤ a := by omega
        simp only [List.filter_cons, h1, h2, decide_true, if_true, List.length_cons]; omega
      · by_cases h2 : n ≤ a
        · simp only [List.filter_cons, h1, h2, decide_true, decide_false, if_true, List.length_cons]
          simp only [Bool.false_eq_true, if_false]; omega
        · simp only [List.filter_cons, h1, h2, decide_false, Bool.false_eq_true, if_false]; exact this

theorem desiredAux_length {S : List Int} {fuel : Nat} {n : Int} {need : Nat}
    (h : need + (S.filter (fun s => decide (n ≤ s))).length ≤ fuel) :
    (desiredAux S fuel n need).length = need := by
  induction fuel generalizing n need with
  | zero =>
    have : need = 0 := by omega
    subst this; simp [desiredAux]
  | succ f ih =>
    cases need with
    | zero => simp [desiredAux]
    | succ k =>
      unfold desiredAux
      split
      · rename_i hc
        have hmem : n ∈ S := by simpa using hc
        have := filter_ge_succ_lt hmem
        exact ih (by omega)
      · have := filter_ge_succ_le S n
        simp only [List.length_cons]
        rw [ih (by omega)]

theorem desired_isDesired (r : Int) (S : List Int) : IsDesired r.toNat S (desired r S) := by
  unfold desired
  refine ⟨desiredAux_sorted, ?_, ?_, ?_, ?_⟩
  · apply desiredAux_length
    have := List.length_filter_le (fun s => decide ((0 : Int) ≤ s)) S
    omega
  · intro o ho; exact (desiredAux_mem_ge o ho).1
  · intro o ho; exact (desiredAux_mem_ge o ho).2
  · intro o ho m h0 hmo hmS; exact desiredAux_least o ho m h0 hmo hmS

/-- The helper computes exactly the specified set. -/
theorem podOrdinals_eq_desired (r : Int) (S : List Int) (hr : 0 ≤ r) : podOrdinals r S = desired r S :=
  isDesired_unique (helper_isDesired r S hr) (desired_isDesired r S)

end Asts
