import Asts.Model.Events
import Asts.Spec.Events
import Mathlib.Tactic

/-! Lemmas for C16 (no lost wake-ups): the handlers of `Model/Events` against the table of `Spec/Events`. -/
namespace Asts.Events
open Asts.Events.Spec

/-! ### owner resolution -/

theorem ctrlRef_eq (p : Pod) : ctrlRef p = controllerOf p := by
  simp [ctrlRef, controllerOf, List.head?_filter]

/-- With at most one set per namespace/name in the cache, `resolveControllerRef` finds exactly the set the reference
    designates (same namespace, kind, name, uid). -/
theorem resolve_designates (sets : List SetObj) (ns : String) (r : OwnerRef) (hc : cacheOk sets = true) :
    (resolveControllerRef sets ns r).map SetObj.key = designates sets ns r := by
  unfold resolveControllerRef designates
  by_cases hk : r.kind = "StatefulSet"
  · simp only [hk, bne_self_eq_false, Bool.false_eq_true, if_false, true_and]
    induction sets with
    | nil => simp [getSet]
    | cons s rest ih =>
      simp only [cacheOk, Bool.and_eq_true, Bool.not_eq_true', List.any_eq_false] at hc
      obtain ⟨hno, hrest⟩ := hc
      have ih := ih hrest
      by_cases hm : (s.ns == ns && s.name == r.name) = true
      · have hget : getSet (s :: rest) ns r.name = some s := by simp [getSet, hm]
        simp only [Bool.and_eq_true, beq_iff_eq] at hm
        have hnone : rest.any (fun t => t.ns == ns && t.name == r.name && t.uid == r.uid) = false := by
          rw [List.any_eq_false]
          intro t ht
          have := hno t ht
          simp only [Bool.and_eq_true, beq_iff_eq, not_and] at this ⊢
          intro ⟨h1, h2⟩ _
          exact this (h1.trans hm.1.symm) (h2.trans hm.2.symm)
        rw [hget]
        by_cases hu : s.uid = r.uid
        · simp [hu, hm.1, hm.2, SetObj.key]
        · simp [hu, hm.1, hm.2, hnone]
      · have hget : getSet (s :: rest) ns r.name = getSet rest ns r.name := by
          simp only [Bool.not_eq_true] at hm
          simp [getSet, hm]
        have hany : (s :: rest).any (fun t => t.ns == ns && t.name == r.name && t.uid == r.uid)
            = rest.any (fun t => t.ns == ns && t.name == r.name && t.uid == r.uid) := by
          simp only [Bool.not_eq_true] at hm
          simp [List.any_cons, hm]
        rw [hget, hany]; exact ih
  · simp [hk]

theorem enqueueResolved_eq (sets : List SetObj) (ns : String) (r : OwnerRef) (hc : cacheOk sets = true) :
    enqueueResolved sets ns r = (designates sets ns r).toList := by
  rw [← resolve_designates sets ns r hc]
  unfold enqueueResolved
  cases resolveControllerRef sets ns r <;> simp

/-- `deletePod` wakes the owner's key, if the owner designates a cached set -/
theorem deletePod_eq (sets : List SetObj) (p : Pod) (hc : cacheOk sets = true) :
    deletePod sets p = (ownerKey sets p).toList := by
  unfold deletePod ownerKey
  rw [ctrlRef_eq]
  cases h : controllerOf p with
  | none => simp
  | some r => simp [enqueueResolved_eq sets p.ns r hc]

/-! ### the lister expansion (intended behaviour) -/

/-- what the loop of the intended `GetPodStatefulSets` keeps -/
def keep (ns : String) (labels : List Label) (s : SetObj) : Bool :=
  s.ns == ns &&
  match convert s.sel with
  | none => false
  | some sel => !(sel.empty || !sel.matches labels)

theorem podSetsLoop_fixed (ns : String) (labels : List Label) (sets : List SetObj) :
    podSetsLoop .fixed ns labels sets = some (sets.filter (keep ns labels)) := by
  induction sets with
  | nil => simp [podSetsLoop]
  | cons s rest ih =>
    unfold podSetsLoop
    rw [ih, List.filter_cons]
    by_cases hns : s.ns = ns
    · have h1 : (s.ns != ns) = false := by simp [hns]
      simp only [h1, Bool.false_eq_true, if_false]
      cases hcv : convert s.sel with
      | none => simp [keep, hcv]
      | some sel =>
        by_cases hm : (sel.empty || !sel.matches labels) = true
        · simp [keep, hcv, hm]
        · simp only [Bool.not_eq_true] at hm
          simp [keep, hcv, hm, hns]
    · have h1 : (s.ns != ns) = true := by simp [hns]
      have h2 : keep ns labels s = false := by simp [keep, hns]
      simp [h1, h2]

theorem keep_eq_selects (p : Pod) (s : SetObj) : keep p.ns (labelsOf p) s = selects s p := by
  unfold keep selects
  cases s.sel with
  | nil => simp [convert, Selector.empty, Selector.matches]
  | bad => simp [convert]
  | labels l => simp [convert, Selector.empty, Selector.matches]

/-- the intended `getStatefulSetsForPod` returns exactly the cached sets that select the pod -/
theorem enqueueMatching_fixed (sets : List SetObj) (p : Pod) :
    enqueueMatching .fixed sets p = matching sets p := by
  unfold enqueueMatching getStatefulSetsForPod getPodStatefulSets matching
  simp only [podSetsLoop_fixed]
  have hk : keep p.ns (p.labels.getD []) = fun s => selects s p := by
    funext s; exact keep_eq_selects p s
  rw [hk]
  by_cases hl : (p.labels.getD []).length = 0
  · have hnil : labelsOf p = [] := List.length_eq_zero_iff.mp hl
    have hsel : ∀ s : SetObj, selects s p = false := by
      intro s
      unfold selects
      rw [hnil]
      cases s.sel with
      | nil => simp
      | bad => simp
      | labels l => cases l <;> simp
    simp [hl, hsel]
  · simp only [hl, beq_iff_eq, if_false]
    cases hf : sets.filter (fun s => selects s p) with
    | nil => simp
    | cons a as => simp [SetObj.key]

/-! ### set-of-keys comparison -/

theorem subset_iff (a b : List Key) : subset a b = true ↔ ∀ k ∈ a, k ∈ b := by
  simp [subset, List.all_eq_true]

theorem sameSet_iff (a b : List Key) : sameSet a b = true ↔ ∀ k, k ∈ a ↔ k ∈ b := by
  simp only [sameSet, Bool.and_eq_true, subset_iff]
  constructor
  · intro ⟨h1, h2⟩ k; exact ⟨h1 k, h2 k⟩
  · intro h; exact ⟨fun k hk => (h k).1 hk, fun k hk => (h k).2 hk⟩

theorem sameSet_refl (a : List Key) : sameSet a a = true := by simp [sameSet_iff]

theorem sameSet_of_eq {a b : List Key} (h : a = b) : sameSet a b = true := h ▸ sameSet_refl a

/-! ### the handlers in the vocabulary of the specification -/

theorem matching_nil_of_no_labels (sets : List SetObj) (p : Pod) (h : labelsOf p = []) : matching sets p = [] := by
  have hsel : ∀ s : SetObj, selects s p = false := by
    intro s
    unfold selects
    rw [h]
    cases s.sel with
    | nil => simp
    | bad => simp
    | labels l => cases l <;> simp
  simp [matching, hsel]

theorem designates_congr (sets : List SetObj) (ns : String) (r₁ r₂ : OwnerRef)
    (h : (r₁.kind, r₁.name, r₁.uid) = (r₂.kind, r₂.name, r₂.uid)) : designates sets ns r₁ = designates sets ns r₂ := by
  simp only [Prod.mk.injEq] at h
  obtain ⟨h1, h2, h3⟩ := h
  simp [designates, h1, h2, h3]

theorem addPod_eq (sets : List SetObj) (p : Pod) (hc : cacheOk sets = true) :
    addPod .fixed sets p =
      if p.terminating then (ownerKey sets p).toList
      else if (ctrlRef p).isSome then (ownerKey sets p).toList else matching sets p := by
  unfold addPod
  rw [deletePod_eq sets p hc, enqueueMatching_fixed]
  by_cases ht : p.terminating = true
  · simp [ht]
  · simp only [ht, Bool.false_eq_true, if_false]
    unfold ownerKey
    rw [ctrlRef_eq]
    cases h : controllerOf p with
    | none => simp
    | some r => simp [enqueueResolved_eq sets p.ns r hc]

theorem updateOld_eq (sets : List SetObj) (old cur : Pod) (hc : cacheOk sets = true) :
    updateOld sets old cur = if controllerOf cur = controllerOf old then [] else (ownerKey sets old).toList := by
  unfold updateOld ownerKey
  rw [ctrlRef_eq]
  by_cases h : controllerOf cur = controllerOf old
  · simp [h]
  · simp only [h, if_false]
    cases ho : controllerOf old with
    | none => simp
    | some r => simp [enqueueResolved_eq sets old.ns r hc]

theorem updateCur_eq (sets : List SetObj) (old cur : Pod) (hc : cacheOk sets = true) :
    updateCur .fixed sets old cur =
      if (controllerOf cur).isSome then (ownerKey sets cur).toList
      else if cur.labels ≠ old.labels ∨ controllerOf cur ≠ controllerOf old then matching sets cur else [] := by
  unfold updateCur ownerKey
  rw [ctrlRef_eq, enqueueMatching_fixed]
  cases h : controllerOf cur with
  | none => simp
  | some r => simp [enqueueResolved_eq sets cur.ns r hc]

theorem ownerId_eq_of_controllerOf_eq {old cur : Pod} (h : controllerOf cur = controllerOf old) : ownerId old = ownerId cur := by
  simp [ownerId, ctrlRef_eq, h]

theorem labelsOf_eq_of_labels_eq {old cur : Pod} (h : cur.labels = old.labels) : labelsOf old = labelsOf cur := by
  simp [labelsOf, h]

/-- Same controlling owner (kind, name, uid) and same namespace: the same cached set is designated. -/
theorem ownerKey_congr (sets : List SetObj) {old cur : Pod} (hns : old.ns = cur.ns) (hid : ownerId old = ownerId cur) :
    ownerKey sets old = ownerKey sets cur := by
  unfold ownerKey
  unfold ownerId at hid
  cases ho : ctrlRef old with
  | none =>
    cases hcu : ctrlRef cur with
    | none => rfl
    | some r => simp [ho, hcu] at hid
  | some r₁ =>
    cases hcu : ctrlRef cur with
    | none => simp [ho, hcu] at hid
    | some r₂ =>
      simp only [ho, hcu, Option.map_some, Option.some.injEq] at hid
      simp only [Option.bind_some, hns]
      exact designates_congr sets cur.ns r₁ r₂ hid

/-- **The table.** For every cache with at most one set per key and every event, the keys the (intended) handlers add to
    the queue are, as a set, exactly the keys the specification expects. -/
theorem handle_exact (sets : List SetObj) (ev : Event) (hc : cacheOk sets = true) (hev : eventOk ev = true) :
    exact sets ev (handle .fixed sets ev) = true := by
  unfold exact
  cases ev with
  | add p => exact sameSet_of_eq (by simp [handle, expected, addPod_eq sets p hc])
  | delete p => exact sameSet_of_eq (by simp [handle, expected, deletePod_eq sets p hc])
  | tombstone p => exact sameSet_of_eq (by simp [handle, expected, deletePod_eq sets p hc])
  | tombstoneOther => exact sameSet_of_eq (by simp [handle, expected])
  | deleteOther => exact sameSet_of_eq (by simp [handle, expected])
  | setAdd k => exact sameSet_of_eq (by simp [handle, expected])
  | setUpdate k => exact sameSet_of_eq (by simp [handle, expected])
  | setDelete k => exact sameSet_of_eq (by simp [handle, expected])
  | setTombstone k => exact sameSet_of_eq (by simp [handle, expected])
  | update old cur =>
    have hns : old.ns = cur.ns := by simpa [eventOk] using hev
    simp only [handle, updatePod, expected]
    by_cases hrv : old.rv = cur.rv
    · simp [hrv, sameSet_refl]
    · have hrv' : ¬ cur.rv = old.rv := fun h => hrv h.symm
      simp only [beq_iff_eq, hrv, hrv', if_false]
      rw [updateOld_eq sets old cur hc, updateCur_eq sets old cur hc, ctrlRef_eq]
      by_cases hco : controllerOf cur = controllerOf old
      · -- same reference
        have hid := ownerId_eq_of_controllerOf_eq hco
        by_cases hsome : (controllerOf old).isSome = true
        · exact sameSet_of_eq (by simp [hco, hid, hsome])
        · by_cases hl : cur.labels = old.labels
          · have hl' := labelsOf_eq_of_labels_eq hl
            exact sameSet_of_eq (by simp [hco, hid, hsome, hl, hl', orphanNews])
          · by_cases hl' : labelsOf old = labelsOf cur
            · -- nil map against empty map: "changed" for DeepEqual, but then the pod has no labels and nothing matches
              have hnil : labelsOf cur = [] := by
                unfold labelsOf at hl' ⊢
                cases h1 : cur.labels with
                | none => simp
                | some l1 =>
                  cases h2 : old.labels with
                  | none => simpa [h1, h2] using hl'.symm
                  | some l2 => simp [h1, h2] at hl hl'; exact absurd hl'.symm hl
              exact sameSet_of_eq (by simp [hco, hid, hsome, hl, hl', orphanNews, matching_nil_of_no_labels sets cur hnil])
            · exact sameSet_of_eq (by simp [hco, hid, hsome, hl, hl', orphanNews])
      · by_cases hid : ownerId old = ownerId cur
        · -- the reference changed in a field that does not identify the owner: the same set, added twice
          have hk := ownerKey_congr sets hns hid
          have hsome : (controllerOf cur).isSome = true := by
            unfold ownerId at hid
            rw [ctrlRef_eq, ctrlRef_eq] at hid
            cases h1 : controllerOf cur with
            | some r => rfl
            | none =>
              cases h2 : controllerOf old with
              | none => exact absurd (h1.trans h2.symm) hco
              | some r => simp [h1, h2] at hid
          rw [sameSet_iff]
          intro k
          simp [hco, hid, hsome, hk]
        · have hn : cur.labels ≠ old.labels ∨ controllerOf cur ≠ controllerOf old := Or.inr hco
          exact sameSet_of_eq (by simp [hco, hid, orphanNews])

/-! ### the clauses follow from the table (for any observed key set) -/

theorem ctrlRef_isSome_of_ownerKey {sets : List SetObj} {p : Pod} {k : Key} (h : ownerKey sets p = some k) :
    (ctrlRef p).isSome = true := by
  unfold ownerKey at h
  cases hc : ctrlRef p with
  | none => simp [hc] at h
  | some r => rfl

theorem ownerWoken_of_exact (sets : List SetObj) (ev : Event) (keys : List Key) (h : exact sets ev keys = true) :
    ownerWoken sets ev keys = true := by
  rw [exact, sameSet_iff] at h
  unfold ownerWoken wokenIf
  cases ev with
  | add p =>
    simp only [podOf, isResync, Bool.false_or]
    cases hk : ownerKey sets p with
    | none => rfl
    | some k =>
      have hs := ctrlRef_isSome_of_ownerKey hk
      have : k ∈ expected sets (.add p) := by simp [expected, hk, hs]
      simpa using (h k).2 this
  | delete p =>
    simp only [podOf, isResync, Bool.false_or]
    cases hk : ownerKey sets p with
    | none => rfl
    | some k =>
      have : k ∈ expected sets (.delete p) := by simp [expected, hk]
      simpa using (h k).2 this
  | tombstone p =>
    simp only [podOf, isResync, Bool.false_or]
    cases hk : ownerKey sets p with
    | none => rfl
    | some k =>
      have : k ∈ expected sets (.tombstone p) := by simp [expected, hk]
      simpa using (h k).2 this
  | update old cur =>
    simp only [podOf, isResync]
    by_cases hrv : old.rv = cur.rv
    · simp [hrv]
    · cases hk : ownerKey sets cur with
      | none => simp
      | some k =>
        have hs := ctrlRef_isSome_of_ownerKey hk
        have : k ∈ expected sets (.update old cur) := by simp [expected, hrv, hk, hs]
        simp [(h k).2 this]
  | tombstoneOther => rfl
  | deleteOther => rfl
  | setAdd k => rfl
  | setUpdate k => rfl
  | setDelete k => rfl
  | setTombstone k => rfl

theorem oldOwnerWoken_of_exact (sets : List SetObj) (ev : Event) (keys : List Key) (h : exact sets ev keys = true) :
    oldOwnerWoken sets ev keys = true := by
  rw [exact, sameSet_iff] at h
  unfold oldOwnerWoken wokenIf
  cases ev with
  | update old cur =>
    by_cases hrv : old.rv = cur.rv
    · simp [hrv]
    · by_cases hid : ownerId old = ownerId cur
      · simp [hid]
      · cases hk : ownerKey sets old with
        | none => simp [hk]
        | some k =>
          have : k ∈ expected sets (.update old cur) := by simp [expected, hrv, hk, hid]
          simp [hk, (h k).2 this]
  | _ => rfl

theorem orphanWoken_of_exact (sets : List SetObj) (ev : Event) (keys : List Key) (h : exact sets ev keys = true) :
    orphanWoken sets ev keys = true := by
  rw [exact, sameSet_iff] at h
  unfold orphanWoken
  cases ev with
  | add p =>
    simp only [podOf, isResync, isArrival, orphanNews, Bool.false_or, Bool.not_not, Bool.not_true]
    by_cases ht : p.terminating = true
    · simp [ht]
    · by_cases hs : (ctrlRef p).isSome = true
      · simp [hs]
      · have : subset (matching sets p) keys = true := by
          rw [subset_iff]
          intro k hk
          exact (h k).2 (by simpa [expected, ht, hs] using hk)
        simp [this]
  | update old cur =>
    simp only [podOf, isResync, isArrival, Bool.not_true]
    by_cases hrv : old.rv = cur.rv
    · simp [hrv]
    · by_cases hs : (ctrlRef cur).isSome = true
      · simp [hs]
      · by_cases hn : orphanNews (.update old cur) = true
        · have : subset (matching sets cur) keys = true := by
            rw [subset_iff]
            intro k hk
            exact (h k).2 (by simp [expected, hrv, hs, hn, hk])
          simp [this]
        · simp [hn]
  | delete p => simp [podOf, isResync, isArrival]
  | tombstone p => simp [podOf, isResync, isArrival]
  | tombstoneOther => rfl
  | deleteOther => rfl
  | setAdd k => rfl
  | setUpdate k => rfl
  | setDelete k => rfl
  | setTombstone k => rfl

theorem setWoken_of_exact (sets : List SetObj) (ev : Event) (keys : List Key) (h : exact sets ev keys = true) :
    setWoken ev keys = true := by
  rw [exact, sameSet_iff] at h
  unfold setWoken
  cases ev with
  | setAdd k => simpa using (h k).2 (by simp [expected])
  | setUpdate k => simpa using (h k).2 (by simp [expected])
  | setDelete k => simpa using (h k).2 (by simp [expected])
  | setTombstone k => simpa using (h k).2 (by simp [expected])
  | _ => rfl

theorem nothingElse_of_exact (sets : List SetObj) (ev : Event) (keys : List Key) (h : exact sets ev keys = true) :
    nothingElse sets ev keys = true := by
  simp only [exact, sameSet, Bool.and_eq_true] at h
  exact h.1

/-- conversely the five clauses together give the table: nothing is demanded by `exact` that no clause names -/
theorem exact_of_clauses (sets : List SetObj) (ev : Event) (keys : List Key)
    (h1 : ownerWoken sets ev keys = true) (h2 : oldOwnerWoken sets ev keys = true) (h3 : orphanWoken sets ev keys = true)
    (h4 : setWoken ev keys = true) (h5 : nothingElse sets ev keys = true) : exact sets ev keys = true := by
  unfold exact sameSet
  rw [Bool.and_eq_true]
  refine ⟨h5, ?_⟩
  rw [subset_iff]
  intro k hk
  -- a key expected because it is the owner of `p`
  have hown : ∀ p : Pod, wokenIf (ownerKey sets p) keys = true →
      k ∈ (ownerKey sets p).toList → k ∈ keys := by
    intro p hw hm
    cases hk' : ownerKey sets p with
    | none => simp [hk'] at hm
    | some k' =>
      simp only [hk', Option.toList_some, List.mem_singleton] at hm
      subst hm
      simpa [hk', wokenIf] using hw
  cases ev with
  | add p =>
    have h1' : wokenIf (ownerKey sets p) keys = true := by
      simpa [ownerWoken, podOf, isResync] using h1
    by_cases ht : p.terminating = true
    · exact hown p h1' (by simpa [expected, ht] using hk)
    · by_cases hs : (ctrlRef p).isSome = true
      · exact hown p h1' (by simpa [expected, ht, hs] using hk)
      · have hm : k ∈ matching sets p := by simpa [expected, ht, hs] using hk
        have ht' : p.terminating = false := by simpa using ht
        have hs' : (ctrlRef p).isSome = false := by simpa using hs
        have h3' : subset (matching sets p) keys = true := by
          simpa [orphanWoken, podOf, isResync, isArrival, orphanNews, ht', hs'] using h3
        exact (subset_iff _ _).1 h3' k hm
  | delete p =>
    have h1' : wokenIf (ownerKey sets p) keys = true := by
      simpa [ownerWoken, podOf, isResync] using h1
    exact hown p h1' (by simpa [expected] using hk)
  | tombstone p =>
    have h1' : wokenIf (ownerKey sets p) keys = true := by
      simpa [ownerWoken, podOf, isResync] using h1
    exact hown p h1' (by simpa [expected] using hk)
  | update old cur =>
    by_cases hrv : old.rv = cur.rv
    · simp [expected, hrv] at hk
    · have hrvb : (old.rv == cur.rv) = false := by simpa using hrv
      have h1' : wokenIf (ownerKey sets cur) keys = true := by
        simpa [ownerWoken, podOf, isResync, hrvb] using h1
      simp only [expected, hrvb, Bool.false_eq_true, if_false, List.mem_append] at hk
      rcases hk with hk | hk
      · by_cases hid : ownerId old = ownerId cur
        · simp [hid] at hk
        · have h2' : wokenIf (ownerKey sets old) keys = true := by
            simpa [oldOwnerWoken, hrvb, hid] using h2
          exact hown old h2' (by simpa [hid] using hk)
      · by_cases hs : (ctrlRef cur).isSome = true
        · exact hown cur h1' (by simpa [hs] using hk)
        · by_cases hn : orphanNews (.update old cur) = true
          · have hm : k ∈ matching sets cur := by simpa [hs, hn] using hk
            have hs' : (ctrlRef cur).isSome = false := by simpa using hs
            have h3' : subset (matching sets cur) keys = true := by
              simpa [orphanWoken, podOf, isResync, isArrival, hrvb, hs', hn] using h3
            exact (subset_iff _ _).1 h3' k hm
          · simp [hs, hn] at hk
  | tombstoneOther => simp [expected] at hk
  | deleteOther => simp [expected] at hk
  | setAdd k' => simp only [expected, List.mem_singleton] at hk; subst hk; simpa [setWoken] using h4
  | setUpdate k' => simp only [expected, List.mem_singleton] at hk; subst hk; simpa [setWoken] using h4
  | setDelete k' => simp only [expected, List.mem_singleton] at hk; subst hk; simpa [setWoken] using h4
  | setTombstone k' => simp only [expected, List.mem_singleton] at hk; subst hk; simpa [setWoken] using h4

/-! ### the rows of the table, one by one (statements about the handlers themselves) -/

theorem ownerKey_some {sets : List SetObj} {p : Pod} {k : Key} (h : ownerKey sets p = some k) :
    ∃ r, controllerOf p = some r ∧ designates sets p.ns r = some k := by
  unfold ownerKey at h
  rw [ctrlRef_eq] at h
  cases hc : controllerOf p with
  | none => simp [hc] at h
  | some r => exact ⟨r, rfl, by simpa [hc] using h⟩

theorem ownerKey_none_of_orphan {sets : List SetObj} {p : Pod} (h : ctrlRef p = none) : ownerKey sets p = none := by
  simp [ownerKey, h]

theorem row_owned (L : Lister) (sets : List SetObj) (p : Pod) (k : Key) (hc : cacheOk sets = true)
    (hk : ownerKey sets p = some k) :
    handle L sets (.add p) = [k] ∧ handle L sets (.delete p) = [k] ∧ handle L sets (.tombstone p) = [k] := by
  obtain ⟨r, hr, hd⟩ := ownerKey_some hk
  have hdel : deletePod sets p = [k] := by rw [deletePod_eq sets p hc, hk]; rfl
  refine ⟨?_, hdel, hdel⟩
  simp only [handle, addPod]
  by_cases ht : p.terminating = true
  · simp [ht, hdel]
  · simp [ht, hr, enqueueResolved_eq sets p.ns r hc, hd]

theorem row_update_owned (L : Lister) (sets : List SetObj) (old cur : Pod) (k : Key) (hc : cacheOk sets = true)
    (hns : old.ns = cur.ns) (hrv : old.rv ≠ cur.rv) (hid : ownerId old = ownerId cur) (hk : ownerKey sets cur = some k) :
    ∀ k', k' ∈ handle L sets (.update old cur) ↔ k' = k := by
  obtain ⟨r, hr, hd⟩ := ownerKey_some hk
  have hko : ownerKey sets old = some k := (ownerKey_congr sets hns hid).trans hk
  have hrv' : ¬ cur.rv = old.rv := fun h => hrv h.symm
  intro k'
  simp only [handle, updatePod, beq_iff_eq, hrv', if_false, updateOld_eq sets old cur hc, updateCur, hr,
    enqueueResolved_eq sets cur.ns r hc, hd, hko]
  by_cases hco : some r = controllerOf old <;> simp [hco]

theorem row_owner_change (L : Lister) (sets : List SetObj) (old cur : Pod) (k₁ k₂ : Key) (hc : cacheOk sets = true)
    (hrv : old.rv ≠ cur.rv) (hid : ownerId old ≠ ownerId cur)
    (hk₁ : ownerKey sets old = some k₁) (hk₂ : ownerKey sets cur = some k₂) :
    handle L sets (.update old cur) = [k₁, k₂] := by
  obtain ⟨r, hr, hd⟩ := ownerKey_some hk₂
  have hrv' : ¬ cur.rv = old.rv := fun h => hrv h.symm
  have hco : ¬ controllerOf cur = controllerOf old := fun h => hid (ownerId_eq_of_controllerOf_eq h)
  have hco' : ¬ some r = controllerOf old := fun h => hco (hr.trans h)
  simp only [handle, updatePod, beq_iff_eq, hrv', if_false, updateOld_eq sets old cur hc, updateCur, hr,
    enqueueResolved_eq sets cur.ns r hc, hd, hk₁, hco']
  rfl

theorem row_same_rv (L : Lister) (sets : List SetObj) (old cur : Pod) (hrv : old.rv = cur.rv) :
    handle L sets (.update old cur) = [] := by
  simp [handle, updatePod, hrv]

theorem row_orphan_add (sets : List SetObj) (p : Pod) (ht : p.terminating = false) (ho : ctrlRef p = none) :
    handle .fixed sets (.add p) = matching sets p := by
  rw [ctrlRef_eq] at ho
  simp [handle, addPod, ht, ho, enqueueMatching_fixed]

theorem row_orphan_update_labels (sets : List SetObj) (old cur : Pod) (hrv : old.rv ≠ cur.rv)
    (ho : ctrlRef old = none) (hcu : ctrlRef cur = none) (hl : labelsOf old ≠ labelsOf cur) :
    handle .fixed sets (.update old cur) = matching sets cur := by
  rw [ctrlRef_eq] at ho hcu
  have hrv' : ¬ cur.rv = old.rv := fun h => hrv h.symm
  have hl' : cur.labels ≠ old.labels := fun h => hl (labelsOf_eq_of_labels_eq h)
  simp [handle, updatePod, hrv', updateOld, updateCur, ho, hcu, hl', enqueueMatching_fixed]

theorem row_orphan_update_released (sets : List SetObj) (old cur : Pod) (hc : cacheOk sets = true) (hrv : old.rv ≠ cur.rv)
    (hcu : ctrlRef cur = none) (hid : ownerId old ≠ ownerId cur) :
    handle .fixed sets (.update old cur) = (ownerKey sets old).toList ++ matching sets cur := by
  have hrv' : ¬ cur.rv = old.rv := fun h => hrv h.symm
  have hco : ¬ controllerOf cur = controllerOf old := fun h => hid (ownerId_eq_of_controllerOf_eq h)
  rw [ctrlRef_eq] at hcu
  have hco' : ¬ none = controllerOf old := fun h => hco (hcu.trans h)
  simp [handle, updatePod, hrv', updateOld_eq sets old cur hc, updateCur, hcu, enqueueMatching_fixed, hco']

theorem row_orphan_update_unchanged (sets : List SetObj) (old cur : Pod)
    (ho : ctrlRef old = none) (hcu : ctrlRef cur = none) (hl : labelsOf old = labelsOf cur) :
    handle .fixed sets (.update old cur) = [] := by
  rw [ctrlRef_eq] at ho hcu
  simp only [handle, updatePod]
  by_cases hrv : cur.rv = old.rv
  · simp [hrv]
  · simp only [beq_iff_eq, hrv, if_false, updateOld, updateCur, ho, hcu, enqueueMatching_fixed]
    by_cases hlab : cur.labels = old.labels
    · simp [hlab]
    · have hnil : labelsOf cur = [] := by
        unfold labelsOf at hl ⊢
        cases h1 : cur.labels with
        | none => simp
        | some l1 =>
          cases h2 : old.labels with
          | none => simpa [h1, h2] using hl.symm
          | some l2 => simp [h1, h2] at hlab hl; exact absurd hl.symm hlab
      simp [matching_nil_of_no_labels sets cur hnil]

theorem row_unresolvable (L : Lister) (sets : List SetObj) (p : Pod) (r : OwnerRef) (hc : cacheOk sets = true)
    (hr : ctrlRef p = some r) (hd : designates sets p.ns r = none) :
    handle L sets (.add p) = [] ∧ handle L sets (.delete p) = [] ∧ handle L sets (.tombstone p) = [] := by
  have hk : ownerKey sets p = none := by simp [ownerKey, hr, hd]
  have hdel : deletePod sets p = [] := by rw [deletePod_eq sets p hc, hk]; rfl
  rw [ctrlRef_eq] at hr
  refine ⟨?_, hdel, hdel⟩
  simp only [handle, addPod]
  by_cases ht : p.terminating = true
  · simp [ht, hdel]
  · simp [ht, hr, enqueueResolved_eq sets p.ns r hc, hd]

theorem designates_none_of_kind (sets : List SetObj) (ns : String) (r : OwnerRef) (h : r.kind ≠ "StatefulSet") :
    designates sets ns r = none := by
  simp [designates, h]

theorem designates_none_of_stale (sets : List SetObj) (ns : String) (r : OwnerRef)
    (h : ∀ s ∈ sets, s.ns = ns → s.name = r.name → s.uid ≠ r.uid) : designates sets ns r = none := by
  have : sets.any (fun s => s.ns == ns && s.name == r.name && s.uid == r.uid) = false := by
    rw [List.any_eq_false]
    intro s hs
    have := h s hs
    simp only [Bool.and_eq_true, beq_iff_eq, not_and]
    intro ⟨h1, h2⟩
    exact this h1 h2
  simp [designates, this]

theorem row_orphan_gone (L : Lister) (sets : List SetObj) (p : Pod) (ho : ctrlRef p = none) :
    handle L sets (.delete p) = [] ∧ handle L sets (.tombstone p) = [] ∧
    (p.terminating = true → handle L sets (.add p) = []) := by
  rw [ctrlRef_eq] at ho
  have hdel : deletePod sets p = [] := by simp [deletePod, ho]
  exact ⟨hdel, hdel, fun ht => by simp [handle, addPod, ht, hdel]⟩

theorem row_not_a_pod (L : Lister) (sets : List SetObj) :
    handle L sets .tombstoneOther = [] ∧ handle L sets .deleteOther = [] := ⟨rfl, rfl⟩

theorem row_set_event (L : Lister) (sets : List SetObj) (k : Key) :
    handle L sets (.setAdd k) = [k] ∧ handle L sets (.setUpdate k) = [k] ∧ handle L sets (.setDelete k) = [k] ∧
    handle L sets (.setTombstone k) = [k] := ⟨rfl, rfl, rfl, rfl⟩

theorem row_unrelated (sets : List SetObj) (p : Pod) (ho : ctrlRef p = none) (hm : matching sets p = []) :
    handle .fixed sets (.add p) = [] ∧ handle .fixed sets (.delete p) = [] ∧ handle .fixed sets (.tombstone p) = [] ∧
    ∀ old, ctrlRef old = none → handle .fixed sets (.update old p) = [] := by
  have hg := row_orphan_gone .fixed sets p ho
  refine ⟨?_, hg.1, hg.2.1, ?_⟩
  · by_cases ht : p.terminating = true
    · exact hg.2.2 ht
    · rw [row_orphan_add sets p (by simpa using ht) ho, hm]
  · intro old hold
    rw [ctrlRef_eq] at ho hold
    simp only [handle, updatePod]
    by_cases hrv : p.rv = old.rv
    · simp [hrv]
    · simp [hrv, updateOld, updateCur, ho, hold, enqueueMatching_fixed, hm]

/-! ### the lister on the pinned tree loses wake-ups (a witness) -/

def witnessSets : List SetObj :=
  [{ ns := "n1", name := "a", uid := "u1", sel := .labels [("k", "x")] },
   { ns := "n1", name := "b", uid := "u2", sel := .labels [("k", "x")] },
   { ns := "n1", name := "c", uid := "u3", sel := .bad }]

def witnessPod : Pod := { ns := "n1", labels := some [("k", "x")], owners := [], rv := "2", terminating := false }

theorem witness_ok : cacheOk witnessSets = true ∧ eventOk (.add witnessPod) = true := by decide

/-- with the lister of the pinned tree the two sets that select the orphan are not woken -/
theorem witness_pinned : handle .pinned witnessSets (.add witnessPod) = [] := by decide

theorem witness_fixed : handle .fixed witnessSets (.add witnessPod) = [("n1", "a"), ("n1", "b")] := by decide

theorem witness_expected : matching witnessSets witnessPod = [("n1", "a"), ("n1", "b")] := by decide

/-! ### the worker -/

/-- the requeue counter as the rate limiter keeps it: +1 on a failure, 0 on a success -/
def cnt (n : Nat) (failed : Bool) : Nat := if failed then n + 1 else 0

theorem foldl_cnt_eq_trailing (results : List Bool) : results.foldl cnt 0 = trailingFailures results := by
  induction results using List.reverseRecOn with
  | nil => rfl
  | append_singleton l r ih =>
    rw [List.foldl_append, List.foldl_cons, List.foldl_nil, ih]
    unfold trailingFailures
    rw [List.reverse_append]
    cases r <;> simp [cnt]

theorem run_fails (shapeOf : Key → Shape) (k : Key) (ops : List Op) :
    ∀ st : WState, (run shapeOf st ops).1.fails k = (reconciled shapeOf k st ops).foldl cnt (st.fails k) := by
  induction ops with
  | nil => intro st; rfl
  | cons op ops ih =>
    intro st
    simp only [run, reconciled]
    rw [ih]
    cases op with
    | event k' => simp [step]
    | process sc =>
      cases hq : st.queue with
      | nil => simp [step, hq]
      | cons k' rest =>
        simp only [step, hq, processKey]
        by_cases hk : k' = k
        · subst hk
          by_cases hf : syncFails (shapeOf k') sc = true
          · simp [hf, bump, cnt]
          · simp [hf, reset, cnt]
        · have hk' : ¬ k = k' := fun h => hk h.symm
          by_cases hf : syncFails (shapeOf k') sc = true
          · simp [hf, hk, hk', bump]
          · simp [hf, hk, hk', reset]

theorem syncFails_eq_reconcileFails (shapeOf : Key → Shape) (k : Key) (sc : Scripted) :
    syncFails (shapeOf k) sc = reconcileFails shapeOf k sc := by
  unfold syncFails reconcileFails
  cases shapeOf k <;> cases sc <;> rfl

theorem step_ok (shapeOf : Key → Shape) (st : WState) (op : Op) :
    stepOk shapeOf st.fails op (step shapeOf st op).2 = true ∧
    nextPrev st.fails (step shapeOf st op).2 = (step shapeOf st op).1.fails := by
  cases op with
  | event k =>
    refine ⟨?_, rfl⟩
    simp only [step, stepOk, qAdd, List.contains_iff_mem, decide_eq_true_eq]
    by_cases h : k ∈ st.queue
    · simp only [h, if_true]
      exact List.length_pos_of_mem h
    · simp [h]
  | process sc =>
    cases hq : st.queue with
    | nil => simp [step, hq, stepOk, nextPrev]
    | cons k rest =>
      simp only [step, hq, processKey]
      by_cases hf : syncFails (shapeOf k) sc = true
      · have hr : reconcileFails shapeOf k sc = true := by rw [← syncFails_eq_reconcileFails]; exact hf
        simp only [hf, if_true]
        constructor
        · simp [stepOk, hr, bump]
        · funext k'; simp [nextPrev, bump]
      · have hr : reconcileFails shapeOf k sc = false := by
          rw [← syncFails_eq_reconcileFails]; simpa using hf
        simp only [hf]
        constructor
        · simp [stepOk, hr]
        · funext k'; simp [nextPrev, reset]

/-- the worker monitor is true on the model, for every script and every starting state -/
theorem run_workerOk (shapeOf : Key → Shape) (ops : List Op) :
    ∀ st : WState, workerOk shapeOf st.fails ops (run shapeOf st ops).2 = true := by
  induction ops with
  | nil => intro st; rfl
  | cons op ops ih =>
    intro st
    simp only [run, workerOk]
    obtain ⟨h1, h2⟩ := step_ok shapeOf st op
    rw [h1, h2]
    exact ih _

end Asts.Events
