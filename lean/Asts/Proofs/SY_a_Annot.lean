import Mathlib.Tactic
import Asts.Spec.Sync
import Asts.Proofs.SY_a_Claim

/-! # SY_a — `annotate`: the entries of a log with their positions and injected faults -/

namespace Asts.SYa
open Asts

theorem mem_annotate_go (plan : List Fault) : ∀ (rest seen : List String) (idx : Nat)
    (x : Entry × Nat × Option ErrKind),
    x ∈ annotate.go plan seen idx rest ↔
      ∃ pre e post, rest = pre ++ e :: post ∧
        x = (parseEntry e, idx + pre.length,
              look plan e ((seen.filter (· == e)).length + (pre.filter (· == e)).length))
  | [], seen, idx, x => by simp [annotate.go]
  | e0 :: rest, seen, idx, x => by
    rw [annotate.go, List.mem_cons, mem_annotate_go plan rest (e0 :: seen) (idx + 1) x]
    constructor
    · rintro (rfl | ⟨pre, e, post, rfl, rfl⟩)
      · exact ⟨[], e0, rest, rfl, by simp [look]⟩
      · refine ⟨e0 :: pre, e, post, rfl, ?_⟩
        have : ((e0 :: seen).filter (· == e)).length + (pre.filter (· == e)).length =
            (seen.filter (· == e)).length + ((e0 :: pre).filter (· == e)).length := by
          by_cases h : (e0 == e) = true
          · simp [h]; omega
          · simp [h]
        rw [this]
        simp only [List.length_cons, Prod.mk.injEq, true_and]
        exact ⟨by omega, trivial⟩
    · rintro ⟨pre, e, post, hr, rfl⟩
      cases pre with
      | nil =>
        simp only [List.nil_append, List.cons.injEq] at hr
        obtain ⟨rfl, rfl⟩ := hr
        left; simp [look]
      | cons p pre' =>
        simp only [List.cons_append, List.cons.injEq] at hr
        obtain ⟨rfl, rfl⟩ := hr
        right
        refine ⟨pre', e, post, rfl, ?_⟩
        have : ((e0 :: seen).filter (· == e)).length + (pre'.filter (· == e)).length =
            (seen.filter (· == e)).length + ((e0 :: pre').filter (· == e)).length := by
          by_cases h : (e0 == e) = true
          · simp [h]; omega
          · simp [h]
        rw [this]
        simp only [List.length_cons, Prod.mk.injEq, true_and]
        exact ⟨by omega, trivial⟩

/-- the annotated log: one triple per position — the parsed entry, its index, and the fault the plan injects into that
    occurrence of the call -/
theorem mem_annotate (plan : List Fault) (log : List String) (x : Entry × Nat × Option ErrKind) :
    x ∈ annotate plan log ↔
      ∃ pre e post, log = pre ++ e :: post ∧ x = (parseEntry e, pre.length, look plan e (occIn pre e)) := by
  unfold annotate
  rw [mem_annotate_go]
  simp [occIn]

end Asts.SYa
