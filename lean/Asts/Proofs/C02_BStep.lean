import Asts.Proofs.C02_BOrphan

/-! C02, normalising rounds: one round from a world whose pods may be orphans, seen through the prepared world; the
    invariant that carries the argument from round to round. -/
namespace Asts.C02p
open Asts Asts.L1c

/-- what the normalising argument needs from a policy class: closed under rounds, the reconcile succeeds, and identity
    updates go to pods that lack their identity -/
structure StepClass (h : Hashing) (K : SyncIn → Prop) : Prop where
  ns : ∀ j, K j → NSC h j
  pol : ∀ j (hk : K j), Pol (ns j hk).norm
  next : ∀ j, K j → K (nextW h j)
  upd : ∀ j (hk : K j) o, Action.update o ∈ (ns j hk).norm.recon.1.acts → ∃ c ∈ j.pods, c.pod.ord = o ∧ c.pod.idOk = false

theorem par_step (h : Hashing) : StepClass h (ParK h) where
  ns := fun _ hk => hk.1
  pol := fun _ hk => par_pol hk.1 hk.2.1 hk.2.2
  next := (par_class h).next
  upd := fun _ hk o ho => by rw [par_recon_acts hk.1 hk.2.1] at ho; exact par_update_src hk.1.ctx ho

theorem mono_step (h : Hashing) : StepClass h (MonoK h) where
  ns := fun _ hk => hk.1.1
  pol := fun _ hk => mono_pol hk
  next := fun _ hk => mono_next hk
  upd := fun _ hk o ho => by rw [(recon_mono hk.1).2] at ho; exact mono_update_src hk.1.1.ctx ho

theorem lpar_step (h : Hashing) : StepClass h (LParK h) where
  ns := fun _ hk => hk.1
  pol := fun _ hk => (lpar_pol hk).pol
  next := fun _ hk => lpar_next hk
  upd := fun _ hk o ho => by rw [par_recon_acts hk.1 hk.2.1] at ho; exact par_update_src hk.1.ctx ho

theorem lmono_step (h : Hashing) : StepClass h (LMonoK h) where
  ns := fun _ hk => hk.1.1
  pol := fun _ hk => (lmono_pol hk).pol
  next := fun _ hk => lmono_next hk
  upd := fun _ hk o ho => by rw [(recon_mono hk.1).2] at ho; exact mono_update_src hk.1.1.ctx ho

/-! ### transfer of per-pod facts through `reindex ∘ sortPods` and `settle` -/

theorem OwnP_key {c c' : CPod} (hk : key c' = key c) : OwnP c' ↔ OwnP c := by
  unfold OwnP
  rw [key_transfer (·.owner) (fun _ => rfl) hk, key_transfer (·.pod.idOk) (fun _ => rfl) hk]

theorem ownP_reindex_sort {l : List CPod} (hl : ∀ c ∈ l, OwnP c) : ∀ c ∈ reindex (sortPods l), OwnP c := by
  intro c hc
  obtain ⟨c', hc', hk⟩ := mem_reindex_sort hc
  exact (OwnP_key hk).1 (hl c' hc')

theorem self_reindex_sort {l : List CPod} (hl : ∀ c ∈ l, c.owner = .self) : ∀ c ∈ reindex (sortPods l), c.owner = .self := by
  intro c hc
  obtain ⟨c', hc', hk⟩ := mem_reindex_sort hc
  rw [← key_transfer (·.owner) (fun _ => rfl) hk]
  exact hl c' hc'

theorem settleOne_idOk (c : CPod) : (settleOne c).pod.idOk = c.pod.idOk := by unfold settleOne; split_ifs <;> rfl

theorem ownP_settle {a : SyncIn} (ha : ∀ c ∈ a.pods, OwnP c) : ∀ c ∈ (settle a).pods, OwnP c := by
  rw [settle_pods]
  apply ownP_reindex_sort
  intro c hc
  rw [List.mem_map] at hc
  obtain ⟨c0, hc0, rfl⟩ := hc
  have := ha c0 (List.mem_of_mem_filter hc0)
  unfold OwnP at this ⊢
  rw [settleOne_owner, settleOne_idOk]
  exact this

theorem self_settle {a : SyncIn} (ha : ∀ c ∈ a.pods, c.owner = .self) : ∀ c ∈ (settle a).pods, c.owner = .self := by
  rw [settle_pods]
  apply self_reindex_sort
  intro c hc
  rw [List.mem_map] at hc
  obtain ⟨c0, hc0, rfl⟩ := hc
  rw [settleOne_owner]
  exact ha c0 (List.mem_of_mem_filter hc0)

theorem find_pod_name {l : List CPod} (hn : (l.map (·.name)).Nodup) {c : CPod} (hc : c ∈ l) :
    l.find? (·.name == c.name) = some c := by
  induction l with
  | nil => cases hc
  | cons a t ih =>
    rw [List.map_cons, List.nodup_cons] at hn
    rcases List.mem_cons.1 hc with rfl | hc'
    · simp
    · have hne : a.name ≠ c.name := fun e => hn.1 (e ▸ List.mem_map_of_mem hc')
      rw [List.find?_cons_of_neg (by simpa using hne)]
      exact ih hn.2 hc'

section
variable {h : Hashing} {x : SyncIn} {G : List Rev} {upd : Rev} {cc : Int} {K : SyncIn → Prop}

/-- **one round from a world whose pods may be orphans**: with the owners forgotten it is the round of the prepared world;
    afterwards every pod is owned or an orphan whose identity is in order; and if that was already so before, every pod is
    owned afterwards -/
theorem step_core (hp : PreC x) (hpick : PickOut h x.template (x.collisionCount.getD 0) (adoptS x.store) G upd cc)
    (hcc : cc ≠ x.collisionCount.getD 0 → x.stored.updateRev ≠ upd.name)
    (hK : StepClass h K) (hk : K (prepW h x)) :
    ownS (nextW h x) = nextW h (prepW h x) ∧
    (∀ c ∈ (nextW h x).pods, OwnP c) ∧
    ((∀ c ∈ x.pods, OwnP c) → ∀ c ∈ (nextW h x).pods, c.owner = .self) := by
  have hs := hK.ns _ hk
  have hpol := hK.pol _ hk
  obtain ⟨hsim, _, lg1, lg2, h1, h2, hpods⟩ := prep_sim hp hpick hcc hs.norm hpol.ok
  have hP1 : applyPatches [] (lg1 ++ claimLog false x.pods ++ lg2) x.pods = x.pods.map own := by
    rw [applyPatches_nil, List.foldl_append, List.foldl_append, foldl_patch_noPatch lg1 h1,
      claimLog_owns x.pods hp.podNames (fun c hc => (hp.pods c hc).1) hp.noColon, foldl_patch_noPatch lg2 h2]
    rfl
  rw [hP1] at hpods
  have hself : ∀ c ∈ x.pods.map own, c.owner = .self := by
    intro c hc
    rw [List.mem_map] at hc
    obtain ⟨c0, _, rfl⟩ := hc
    rfl
  refine ⟨?_, ?_, ?_⟩
  · show ownS (settle (applySync x [] (syncF h x []))) = settle (applySync (prepW h x) [] (syncF h (prepW h x) []))
    rw [ownS_settle, hsim]
  · apply ownP_settle
    rw [hpods]
    apply ownP_reindex_sort
    apply applyActs_ownP
    intro c hc
    exact Or.inl (hself c hc)
  · intro hO
    apply self_settle
    rw [hpods]
    apply self_reindex_sort
    apply applyActs_noOrphan _ _ _ _ hself
    intro o ho
    obtain ⟨c', hc', hco, hid⟩ := hK.upd _ hk o ho
    have hc'' : c' ∈ x.pods.map own := hc'
    rw [List.mem_map] at hc''
    obtain ⟨c0, hc0, rfl⟩ := hc''
    have hco0 : c0.pod.ord = o := hco
    have hid0 : c0.pod.idOk = false := hid
    unfold wasOrphan
    have hname : canonicalName x.setName o = c0.name := by rw [(hp.pods c0 hc0).2.2.2.1, hco0]
    rw [hname, find_pod_name hp.podNames hc0]
    simp only [Option.any_some]
    rcases hO c0 hc0 with hself0 | ⟨_, hidok⟩
    · rw [hself0]; rfl
    · rw [hidok] at hid0; cases hid0

/-- a world whose pods may be orphans and whose owner-forgetting image lies in the policy class -/
structure Mid (h : Hashing) (K : SyncIn → Prop) (x : SyncIn) : Prop where
  pre : PreC x
  cls : K (ownS x)

/-- the world after such a round is again of that kind -/
theorem mid_next (hp : PreC x) (hpick : PickOut h x.template (x.collisionCount.getD 0) (adoptS x.store) G upd cc)
    (hcc : cc ≠ x.collisionCount.getD 0 → x.stored.updateRev ≠ upd.name)
    (hK : StepClass h K) (hk : K (prepW h x)) : Mid h K (nextW h x) := by
  obtain ⟨hsim, hown, _⟩ := step_core hp hpick hcc hK hk
  have hs := hK.ns _ hk
  have hpol := hK.pol _ hk
  have hsN : NSC h (ownS (nextW h x)) := by rw [hsim]; exact nextW_ns hs hpol
  have hn := hsN.norm
  refine ⟨⟨⟨hn.spec.paused, hn.spec.sel, hn.spec.del, hn.spec.rep, hn.spec.r0, hn.spec.strat, hn.spec.lim⟩,
    ?_, ?_, ?_, hn.smallR, rfl, rfl, hp.spec.del, ?_, hp.colon, ?_⟩, by rw [hsim]; exact hK.next _ hk⟩
  · intro c hc
    have hm : own c ∈ (ownS (nextW h x)).pods := List.mem_map_of_mem hc
    obtain ⟨_, a2, a3, a4, a5, a7, a8⟩ := hn.pods (own c) hm
    refine ⟨?_, a2, a3, a4, a5, a7, a8⟩
    rcases hown c hc with h1 | h1
    · exact Or.inl h1
    · exact Or.inr h1.1
  · have := hn.ords
    rw [ownS_pods, List.map_map] at this
    exact this
  · have := hn.small
    rw [ownS_pods, List.length_map] at this
    exact this
  · intro c hc
    exact (hsN.settled (own c) (List.mem_map_of_mem hc)).1
  · have hst : (nextW h x).store = (nextW h (prepW h x)).store := by rw [← hsim]; rfl
    rw [hst, nextW_store hs hpol]
    have hG : (prepW h x).store = G := (prep_eq hp hpick).1
    rw [hG]
    exact (List.Sublist.map _ List.filter_sublist).nodup hpick.names

theorem Mid.pick (hm : Mid h K x) (hK : StepClass h K) :
    ∃ l, PickOut h x.template (x.collisionCount.getD 0) (adoptS x.store) x.store l (x.collisionCount.getD 0) := by
  have hn := (hK.ns _ hm.cls).norm
  obtain ⟨l, hl, heq⟩ := hn.rev
  exact ⟨l, pick_quiet hm.pre.names hn.noOrphanRev hl heq⟩

theorem Mid.prep (hm : Mid h K x) (hK : StepClass h K) : prepW h x = ownS x := by
  obtain ⟨l, hpick⟩ := hm.pick hK
  obtain ⟨h1, h2⟩ := prep_eq hm.pre hpick
  unfold prepW
  rw [h1, h2]
  simp

/-- **rounds from such a world**, seen with the owners forgotten, are the rounds of the class; after the first one no pod
    is an orphan if the orphans' identities were in order -/
theorem mid_rounds (hK : StepClass h K) : ∀ (k : Nat) {x : SyncIn}, Mid h K x →
    ownS (nextWN h k x) = nextWN h k (ownS x) ∧ Mid h K (nextWN h k x) ∧
    ((∀ c ∈ x.pods, OwnP c) → 1 ≤ k → ∀ c ∈ (nextWN h k x).pods, c.owner = .self) := by
  intro k
  induction k with
  | zero => intro x hm; exact ⟨rfl, hm, fun _ h0 => absurd h0 (by omega)⟩
  | succ k ih =>
    intro x hm
    obtain ⟨l, hpick⟩ := hm.pick hK
    have hprep := hm.prep hK
    have hk : K (prepW h x) := by rw [hprep]; exact hm.cls
    have hcc : x.collisionCount.getD 0 ≠ x.collisionCount.getD 0 → x.stored.updateRev ≠ l.name := fun hne => absurd rfl hne
    obtain ⟨hsim, hown, hself⟩ := step_core hm.pre hpick hcc hK hk
    have hm' := mid_next hm.pre hpick hcc hK hk
    obtain ⟨i1, i2, i3⟩ := ih hm'
    refine ⟨?_, i2, ?_⟩
    · show ownS (nextWN h k (nextW h x)) = nextWN h k (nextW h (ownS x))
      rw [i1, hsim, hprep]
    · intro hO _
      show ∀ c ∈ (nextWN h k (nextW h x)).pods, c.owner = .self
      have hs1 := hself hO
      by_cases hk0 : k = 0
      · subst hk0; exact hs1
      · exact i3 (fun c hc => Or.inl (hs1 c hc)) (by omega)

end

end Asts.C02p
