import Asts.Spec.Sync
import Mathlib.Tactic

/-! # C09 (iii): a crash is a prefix, and prefixes are safe

A process that dies at call `k` leaves behind exactly the first `k` calls of the run. The safety monitors that read a
list of observed actions (`Spec/Reconcile.lean`) or the API call log (`Spec/Sync.lean`) are *prefix-closed*:
`P (a ++ b) → P a`. None of the statements depends on the model: they are about arbitrary lists. -/
namespace Asts.SYc

/-! ### reconcile level: lists of observed pod-control actions -/

theorem createOrds_append (a b : List OAct) : createOrds (a ++ b) = createOrds a ++ createOrds b := by
  simp [createOrds, List.filterMap_append]

/-- C01 (d) is prefix-closed. -/
theorem C01creates_prefix (v : SetView) (a b : List OAct) (h : C01creates v (a ++ b) = true) :
    C01creates v a = true := by
  unfold C01creates at h ⊢
  simp only [createOrds_append, List.all_append, Bool.and_eq_true] at h
  exact h.1

/-- `allWithContext` on a prefix: the per-action condition may look at the *next* action, which a cut removes; it is enough
    that the condition survives replacing the next action by "none" (in `q`). -/
theorem allWithContext_prefix {p q : List OAct → OAct → Option OAct → Bool}
    (hsame : ∀ before x nx, p before x (some nx) = true → q before x (some nx) = true)
    (hcut : ∀ before x nx, p before x nx = true → q before x none = true) :
    ∀ (a b before : List OAct), allWithContext p before (a ++ b) = true → allWithContext q before a = true
  | [], _, _, _ => by simp [allWithContext]
  | [x], b, before, h => by
    simp only [List.singleton_append, allWithContext, Bool.and_eq_true] at h
    simp only [allWithContext, List.head?_nil, Bool.and_true]
    exact hcut _ _ _ h.1
  | x :: y :: rest, b, before, h => by
    simp only [List.cons_append, allWithContext, List.head?_cons, Bool.and_eq_true] at h
    simp only [allWithContext, List.head?_cons, Bool.and_eq_true]
    refine ⟨hsame _ _ _ h.1, ?_⟩
    have := allWithContext_prefix hsame hcut (y :: rest) b (before ++ [x])
    simp only [List.cons_append, allWithContext, Bool.and_eq_true] at this
    exact this h.2

/-- C04 is prefix-closed: its per-action condition reads only the actions before. -/
theorem C04_prefix (v : SetView) (pods : List Pod) (a b : List OAct) (h : C04 v pods (a ++ b) = true) :
    C04 v pods a = true := by
  unfold C04 at h ⊢
  refine allWithContext_prefix ?_ ?_ a b [] h
  · intro before x nx hx; exact hx
  · intro before x nx hx
    cases x <;> exact hx

/-- C03 is prefix-closed in the sense a crash needs: the partial run is judged as one that did *not* end well
    (`outOk := false`), so that the last delete of a Failed/Succeeded pod may stand without its replacing create. -/
theorem C03_prefix (v : SetView) (upd : String) (pods : List Pod) (a b : List OAct) (outOk : Bool)
    (h : C03 v upd pods (a ++ b) outOk = true) : C03 v upd pods a false = true := by
  unfold C03 at h ⊢
  refine allWithContext_prefix ?_ ?_ a b [] h
  · intro before x nx hx
    cases x with
    | delete o id =>
      cases id with
      | none => exact hx
      | some id => cases nx <;> exact hx
    | _ => rfl
  · intro before x nx hx
    cases x with
    | delete o id =>
      cases id with
      | none => exact hx
      | some id =>
        simp only at hx ⊢
        cases hp : podById pods id with
        | none => rw [hp] at hx; simp at hx
        | some p =>
          rw [hp] at hx
          simp only [Bool.and_eq_true, Bool.or_eq_true] at hx ⊢
          refine ⟨hx.1, ?_⟩
          rcases hx.2 with (h1 | h1) | h1
          · exact Or.inl (Or.inl h1)
          · refine Or.inl (Or.inr ⟨h1.1, by simp⟩)
          · exact Or.inr h1
    | _ => rfl

/-- a run that ended well is also fine when judged as a partial run -/
theorem C03_weaken (v : SetView) (upd : String) (pods : List Pod) (a : List OAct) (outOk : Bool)
    (h : C03 v upd pods a outOk = true) : C03 v upd pods a false = true := by
  simpa using C03_prefix v upd pods a [] outOk (by simpa using h)

/-- C05 (one ordinal per reconcile, ordering conditions per action) is prefix-closed. -/
theorem C05_prefix (v : SetView) (pods : List Pod) (a b : List OAct) (h : C05 v pods (a ++ b) = true) :
    C05 v pods a = true := by
  unfold C05 at h ⊢
  simp only [List.filter_append, List.map_append, List.eraseDups_append, List.length_append, List.all_append,
    Bool.and_eq_true, decide_eq_true_eq] at h ⊢
  exact ⟨by omega, h.2.1⟩

theorem updateDeletes_append (D : List Int) (pods : List Pod) (a b : List OAct) :
    updateDeletes D pods (a ++ b) = updateDeletes D pods a ++ updateDeletes D pods b := by
  simp [updateDeletes, List.filterMap_append]

/-- C07 (update deletes and revisions of created pods) is prefix-closed. -/
theorem C07_prefix (v : SetView) (cur upd : String) (pods : List Pod) (a b : List OAct)
    (h : C07 v cur upd pods (a ++ b) = true) : C07 v cur upd pods a = true := by
  unfold C07 at h ⊢
  simp only [updateDeletes_append, Bool.and_eq_true, decide_eq_true_eq, List.length_append, List.all_append] at h ⊢
  obtain ⟨⟨⟨h1, h2⟩, h3⟩, h4⟩ := h
  refine ⟨⟨⟨?_, by omega⟩, h3.1⟩, ?_⟩
  · split_ifs at h1 ⊢ with hs
    · simp only [List.isEmpty_iff, List.append_eq_nil_iff] at h1 ⊢
      exact h1.1
    · rfl
  · cases hru : v.ru with
    | none => rfl
    | some p =>
      cases p with
      | none => rfl
      | some p =>
        rw [hru] at h4
        simp only [Bool.and_eq_true] at h4 ⊢
        exact h4.1

/-! ### sync level: the API call log -/

theorem annotate_go_append (plan : List Fault) :
    ∀ (a b seen : List String) (idx : Nat),
      annotate.go plan seen idx (a ++ b) =
        annotate.go plan seen idx a ++ annotate.go plan (a.reverse ++ seen) (idx + a.length) b
  | [], b, seen, idx => by simp [annotate.go]
  | e :: a, b, seen, idx => by
    simp only [List.cons_append, annotate.go, List.reverse_cons, List.append_assoc, List.length_cons]
    rw [annotate_go_append plan a b (e :: seen) (idx + 1)]
    congr 3
    omega

theorem annotate_go_idx (plan : List Fault) :
    ∀ (l seen : List String) (idx : Nat) x, x ∈ annotate.go plan seen idx l → idx ≤ x.2.1 ∧ x.2.1 < idx + l.length
  | [], _, _, _, h => by simp [annotate.go] at h
  | e :: l, seen, idx, x, h => by
    simp only [annotate.go, List.mem_cons] at h
    rcases h with h | h
    · subst h; simp
    · have := annotate_go_idx plan l (e :: seen) (idx + 1) x h
      simp only [List.length_cons]; omega

/-- the annotation of a prefix is a prefix of the annotation; what follows carries larger indices -/
theorem annotate_append (plan : List Fault) (a b : List String) :
    annotate plan (a ++ b) = annotate plan a ++ annotate.go plan a.reverse a.length b := by
  unfold annotate
  rw [annotate_go_append]; simp

theorem annotate_idx_lt (plan : List Fault) (a : List String) {x} (h : x ∈ annotate plan a) : x.2.1 < a.length := by
  have := annotate_go_idx plan a [] 0 x h; omega

theorem annotate_tail_idx_ge (plan : List Fault) (a b : List String) {x}
    (h : x ∈ annotate.go plan a.reverse a.length b) : a.length ≤ x.2.1 :=
  (annotate_go_idx plan b _ _ x h).1

/-- "some earlier entry satisfies `p`" reads the same in the annotation of a prefix -/
theorem any_earlier_prefix (plan : List Fault) (a b : List String) (idx : Nat) (hidx : idx < a.length)
    (p : Entry → Option ErrKind → Bool) :
    (annotate plan (a ++ b)).any (fun (g, j, k) => p g k && decide (j < idx)) =
    (annotate plan a).any (fun (g, j, k) => p g k && decide (j < idx)) := by
  rw [annotate_append, List.any_append]
  have : (annotate.go plan a.reverse a.length b).any (fun (g, j, k) => p g k && decide (j < idx)) = false := by
    rw [List.any_eq_false]
    intro x hx
    have := annotate_tail_idx_ge plan a b hx
    obtain ⟨g, j, k⟩ := x
    simp only [Bool.and_eq_true, decide_eq_true_eq, not_and, not_lt]
    intro _; simp only at this; omega
  rw [this, Bool.or_false]

/-- C10 (pods) is prefix-closed: every condition on an entry reads the snapshot and *earlier* entries only. -/
theorem C10pods_prefix (i : SyncIn) (plan : List Fault) (o : SyncObs) (a b : List String)
    (h : C10pods i plan { o with log := a ++ b } = true) : C10pods i plan { o with log := a } = true := by
  unfold C10pods at h ⊢
  simp only [List.all_eq_true] at h ⊢
  intro x hx
  have hlt := annotate_idx_lt plan a hx
  have hmem : x ∈ annotate plan (a ++ b) := by rw [annotate_append]; exact List.mem_append_left _ hx
  have hx' := h x hmem
  obtain ⟨e, idx, k⟩ := x
  simp only at hlt hx' ⊢
  have e1 := any_earlier_prefix plan a b idx hlt (fun g k => g.verb == "get" && g.res == "set" && k.isNone)
  have e2 := any_earlier_prefix plan a b idx hlt
    (fun g k => g.verb == "patch" && g.res == "pod" && g.name == e.name && k.isNone)
  have r1 : ∀ l : List (Entry × Nat × Option ErrKind),
      l.any (fun (g, j, k) => g.verb == "get" && g.res == "set" && decide (j < idx) && k.isNone) =
      l.any (fun (g, j, k) => (g.verb == "get" && g.res == "set" && k.isNone) && decide (j < idx)) := by
    intro l; congr 1; funext ⟨g, j, k⟩; simp only [Bool.and_assoc]; rw [Bool.and_comm (decide _)]
  have r2 : ∀ l : List (Entry × Nat × Option ErrKind),
      l.any (fun (g, j, k) => g.verb == "patch" && g.res == "pod" && g.name == e.name && decide (j < idx) && k.isNone) =
      l.any (fun (g, j, k) => (g.verb == "patch" && g.res == "pod" && g.name == e.name && k.isNone) && decide (j < idx)) := by
    intro l; congr 1; funext ⟨g, j, k⟩; simp only [Bool.and_assoc]; rw [Bool.and_comm (decide _)]
  rw [r1, e1, ← r1] at hx'
  rw [r2, e2, ← r2] at hx'
  exact hx'

/-- C10 (revisions) is prefix-closed. -/
theorem C10revs_prefix (i : SyncIn) (o : SyncObs) (a b : List String)
    (h : C10revs i { o with log := a ++ b } = true) : C10revs i { o with log := a } = true := by
  unfold C10revs at h ⊢
  change ((a ++ b).map parseEntry).all _ = true at h
  rw [List.map_append, List.all_append, Bool.and_eq_true] at h
  exact h.1

/-- C10 (the set is written only through its status) is prefix-closed. -/
theorem C10set_prefix (o : SyncObs) (a b : List String)
    (h : C10set { o with log := a ++ b } = true) : C10set { o with log := a } = true := by
  unfold C10set at h ⊢
  change ((a ++ b).map parseEntry).all _ = true at h
  rw [List.map_append, List.all_append, Bool.and_eq_true] at h
  exact h.1

/-- the part of C11 (deleting) that reads the call log -/
def C11deletingLog (log : List String) : Bool :=
  (log.map parseEntry).all (fun e => !isPodWrite e && e.verb != "patch")

/-- the part of C11 (deleting) that reads the revisions left in the API -/
def C11deletingStore (i : SyncIn) (revs : List RevD) : Bool :=
  i.store.all (fun r => (revs.find? (·.name == r.name)).all (fun d => d.owner == r.owner && d.sel == r.selMatch))

theorem C11deleting_split (i : SyncIn) (o : SyncObs) :
    C11deleting i o = (!i.view.deleting || (C11deletingLog o.log && C11deletingStore i o.revs)) := rfl

/-- the log part of C11 (deleting) is prefix-closed -/
theorem C11deletingLog_prefix (a b : List String) (h : C11deletingLog (a ++ b) = true) : C11deletingLog a = true := by
  unfold C11deletingLog at h ⊢
  change ((a ++ b).map parseEntry).all _ = true at h
  rw [List.map_append, List.all_append, Bool.and_eq_true] at h
  exact h.1

/-- C11 (deleting) for a crashed run: the log part of the full run's verdict carries over to every prefix; the store part
    has to be read on the store as the crash left it. -/
theorem C11deleting_prefix (i : SyncIn) (o : SyncObs) (a b : List String) (revs' : List RevD)
    (h : C11deleting i { o with log := a ++ b } = true) (hs : C11deletingStore i revs' = true) :
    C11deleting i { o with log := a, revs := revs' } = true := by
  rw [C11deleting_split] at h ⊢
  simp only [Bool.or_eq_true, Bool.and_eq_true] at h ⊢
  rcases h with h | h
  · exact Or.inl h
  · exact Or.inr ⟨C11deletingLog_prefix a b h.1, hs⟩

/-- C11 (paused): a paused set sees no call; trivially prefix-closed. -/
theorem C11paused_prefix (i : SyncIn) (o : SyncObs) (a b : List String)
    (h : C11paused i { o with log := a ++ b } = true) : C11paused i { o with log := a } = true := by
  unfold C11paused at h ⊢
  simp only [Bool.or_eq_true, Bool.and_eq_true, List.isEmpty_iff, List.append_eq_nil_iff] at h ⊢
  rcases h with h | h
  · exact Or.inl h
  · exact Or.inr ⟨h.1.1, h.2⟩

end Asts.SYc
