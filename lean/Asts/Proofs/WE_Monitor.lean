import Mathlib.Tactic
import Asts.Proofs.WE_History
import Asts.Proofs.SY_a_Pause

/-! # WE — the monitor `C11pausedSilent` is true on the model's histories -/
namespace Asts.WE
open Asts Asts.SYa

/-- what the driver prints of a history of the model: the edits, the set's spec state after them (only for rounds with
    edits), the round observation -/
def observeHist (hs : List HistRound) : List HRound :=
  hs.map fun r => { edits := r.edits, spec := if r.edits.isEmpty then none else some (specOfWorld r.world), obs := r.obs }

theorem applyEdits_frame (es : List Edit) (i : SyncIn) :
    (applyEdits es i).store = i.store ∧ (applyEdits es i).stored = i.stored := by
  induction es generalizing i with
  | nil => exact ⟨rfl, rfl⟩
  | cons e es ih =>
    rw [applyEdits_cons]
    obtain ⟨a, b⟩ := ih (applyEdit e i)
    obtain ⟨c, _, d, _⟩ := applyEdit_frame e i
    exact ⟨a.trans c, b.trans d⟩

theorem round_keeps_paused (h : Hashing) (i : SyncIn) (p : List Fault) : (round h i p).1.paused = i.paused := rfl
theorem round_obs_revs (h : Hashing) (i : SyncIn) (p : List Fault) : (round h i p).2.revs = (round h i p).1.store := rfl
theorem round_obs_status (h : Hashing) (i : SyncIn) (p : List Fault) : (round h i p).2.status = (round h i p).1.stored := rfl

/-- the monitor's step on a round of the model -/
theorem paused_step (h : Hashing) (w : SyncIn) (plan : List Fault) (prev : Option RoundObs)
    (hprev : ∀ p, prev = some p → p.revs = w.store ∧ p.status = w.stored) :
    (!w.paused ||
      ((round h w plan).2.writes == 0 && (round h w plan).2.out == "ok" && sameAsPrev prev (round h w plan).2)) = true := by
  cases hp : w.paused with
  | false => rfl
  | true =>
    obtain ⟨a, b, _, c, d, _⟩ := round_paused h w plan hp
    rw [a, b]
    cases prev with
    | none => rfl
    | some p =>
      obtain ⟨e, f⟩ := hprev p rfl
      unfold sameAsPrev
      rw [round_obs_revs, round_obs_status, c, d, ← e, ← f]
      simp

/-- a history of at least one round is its first round, alone or followed by the history from the next round on -/
theorem runHistory_shape (h : Hashing) (script : Script) (fuel j silent : Nat) (w : SyncIn) (plan : List Fault) :
    runHistory h script (fuel + 1) j silent w plan =
        [{ edits := editsAt script j, world := applyEdits (editsAt script j) w,
           obs := (round h (applyEdits (editsAt script j) w) plan).2 }] ∨
    ∃ s', runHistory h script (fuel + 1) j silent w plan =
        { edits := editsAt script j, world := applyEdits (editsAt script j) w,
          obs := (round h (applyEdits (editsAt script j) w) plan).2 } ::
        runHistory h script fuel (j + 1) s' (round h (applyEdits (editsAt script j) w) plan).1 [] := by
  rw [runHistory_succ]
  dsimp only
  split_ifs <;> first | exact Or.inl rfl | exact Or.inr ⟨_, rfl⟩

theorem pausedSilentFrom_runHistory (h : Hashing) (script : Script) :
    ∀ (fuel j silent : Nat) (w : SyncIn) (plan : List Fault) (sp : SpecState) (prev : Option RoundObs),
      sp.paused = w.paused → (∀ p, prev = some p → p.revs = w.store ∧ p.status = w.stored) →
      pausedSilentFrom sp prev (observeHist (runHistory h script fuel j silent w plan)) = true
  | 0, _, _, _, _, _, _, _, _ => rfl
  | fuel + 1, j, silent, w, plan, sp, prev, hsp, hprev => by
    obtain ⟨fs, fd⟩ := applyEdits_frame (editsAt script j) w
    -- the spec state the monitor reads for this round has the world's pause flag
    have hflag : ((if (editsAt script j).isEmpty then none else some (specOfWorld (applyEdits (editsAt script j) w)) :
        Option SpecState).getD sp).paused = (applyEdits (editsAt script j) w).paused := by
      by_cases he : (editsAt script j).isEmpty = true
      · have : editsAt script j = [] := List.isEmpty_iff.mp he
        simp only [he, if_true, Option.getD_none]
        rw [hsp, this]; rfl
      · simp only [he, Bool.false_eq_true, if_false, Option.getD_some]; rfl
    have hprev0 : ∀ p, prev = some p → p.revs = (applyEdits (editsAt script j) w).store ∧
        p.status = (applyEdits (editsAt script j) w).stored := by
      intro p hp; obtain ⟨a, b⟩ := hprev p hp; exact ⟨a.trans fs.symm, b.trans fd.symm⟩
    have hstep := paused_step h (applyEdits (editsAt script j) w) plan prev hprev0
    rcases runHistory_shape h script fuel j silent w plan with e | ⟨s', e⟩
    · rw [e]
      simp only [observeHist, List.map_cons, List.map_nil, pausedSilentFrom]
      rw [hflag, hstep]; rfl
    · rw [e]
      have hnext := pausedSilentFrom_runHistory h script fuel (j + 1) s' (round h (applyEdits (editsAt script j) w) plan).1 []
        ((if (editsAt script j).isEmpty then none else some (specOfWorld (applyEdits (editsAt script j) w)) : Option SpecState).getD sp)
        (some (round h (applyEdits (editsAt script j) w) plan).2) (by rw [hflag]; rfl)
        (by intro p hp; cases hp; exact ⟨rfl, rfl⟩)
      simp only [observeHist, List.map_cons, pausedSilentFrom] at hnext ⊢
      rw [hflag, hstep, Bool.true_and]
      exact hnext

/-- **C11.pausedsilent is true on the model** for every case: every hashing, script, budget, initial world and fault plan -/
theorem C11pausedSilent_model (h : Hashing) (script : Script) (fuel : Nat) (i : SyncIn) (plan : List Fault) :
    C11pausedSilent i (observeHist (runHistory h script fuel 1 0 i plan)) = true :=
  pausedSilentFrom_runHistory h script fuel 1 0 i plan (specOfWorld i) none rfl (fun _ hp => by cases hp)

end Asts.WE
