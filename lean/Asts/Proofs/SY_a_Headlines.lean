import Mathlib.Tactic
import Asts.Proofs.SY_a_Check

/-! # SY_a — the monitors of `Spec/Sync.lean` hold on the model: C11 (paused, deleting), C10 (set, revisions) -/

namespace Asts.SYa
open Asts

/-- names are unique in the revision store (one namespace of the API) -/
def StoreNamesOk (i : SyncIn) : Prop := (i.store.map (·.name)).Nodup

theorem eq_of_name_eq {st : List Rev} (hnd : (st.map (·.name)).Nodup) {x y : Rev} (hx : x ∈ st) (hy : y ∈ st)
    (h : x.name = y.name) : x = y :=
  List.inj_on_of_nodup_map hnd hx hy h

theorem mem_insertByName {r x : Rev} : ∀ {st : List Rev}, x ∈ insertByName r st ↔ x = r ∨ x ∈ st
  | [] => by simp [insertByName]
  | q :: qs => by
    unfold insertByName
    split
    · simp
    · simp only [List.mem_cons, mem_insertByName (st := qs)]
      tauto

/-! ## C11, paused -/

theorem syncF_paused (h : Hashing) (i : SyncIn) (plan : List Fault) (hp : i.paused = true) :
    syncF h i plan = { store := i.store } := by
  rw [syncF_eq]; simp [hp]

theorem C11paused_holds (h : Hashing) (i : SyncIn) (plan : List Fault) :
    C11paused i (syncF h i plan).observe = true := by
  unfold C11paused
  by_cases hp : i.paused = true
  · rw [syncF_paused h i plan hp]; simp [SyncOut.observe]
  · simp [hp]

/-! ## C11, deleting -/

theorem reconcileOf_deleting (i : SyncIn) (plan : List Fault) (claimed : List CPod) (cur upd : Rev)
    (hd : i.view.deleting = true) : (reconcileOf i plan claimed cur upd).1.acts = [] :=
  uss_deleting_acts _ _ _ _ _ hd

theorem syncF_deleting_acts (h : Hashing) (i : SyncIn) (plan : List Fault) (hd : i.view.deleting = true) :
    (syncF h i plan).acts = [] := by
  rcases (syncF_shape h i plan).hacts with ha | ⟨cur, upd, ha⟩
  · exact ha
  · rw [ha]; exact reconcileOf_deleting i plan _ cur upd hd

/-- a deleting set: the whole log consists of revision listing, revision bookkeeping (renumber / create / its reads /
    history deletion) and the status update; the store is the old one with numbers changed or one own revision added,
    minus truncated history -/
theorem syncF_deleting_structure (h : Hashing) (i : SyncIn) (plan : List Fault) (hd : i.view.deleting = true) :
    (∃ st2, Resolved i.store st2 ∧ ∀ x ∈ (syncF h i plan).store, x ∈ st2) ∧
    ∀ e ∈ (syncF h i plan).log,
      e = "list:revs" ∨ GetRevEntry (sortRevs (listRevisions i.store)) e ∨ e = "updatestatus" ∨
      (∃ r ∈ sortRevs (listRevisions i.store), r.owner = .self ∧ e = s!"delete:rev:{r.name}") := by
  obtain ⟨st1, _, hdel, hst, hent⟩ := (syncF_shape h i plan).main
  obtain rfl := hdel hd
  refine ⟨hst, ?_⟩
  intro e he
  rcases hent e he with (⟨hd', _⟩ | ⟨hd', _⟩ | h1 | h1 | h1 | h1) | ⟨a, ha, _⟩
  · rw [hd] at hd'; cases hd'
  · rw [hd] at hd'; cases hd'
  · exact Or.inl h1
  · exact Or.inr (Or.inl h1)
  · exact Or.inr (Or.inr (Or.inl h1))
  · exact Or.inr (Or.inr (Or.inr h1))
  · rw [syncF_deleting_acts h i plan hd] at ha; cases ha

/-- every revision of the final store that shares its name with an initial one has the same owner and selector match -/
theorem resolved_keeps {st st2 : List Rev} (hnd : (st.map (·.name)).Nodup) (hr : Resolved st st2)
    {r x : Rev} (hrm : r ∈ st) (hx : x ∈ st2) (hn : x.name = r.name) :
    x.owner = r.owner ∧ x.selMatch = r.selMatch ∧ x.marker = r.marker ∧ x.data = r.data := by
  rcases hr with ⟨g, hg, rfl⟩ | ⟨nr, rfl, _, hfree⟩
  · obtain ⟨y, hy, rfl⟩ := List.mem_map.1 hx
    obtain ⟨h1, _, h3, _, h5, h6, h7⟩ := hg y
    have : y = r := eq_of_name_eq hnd hy hrm (by rw [← h1]; exact hn)
    subst this
    exact ⟨h6, h7, h5, h3⟩
  · rcases mem_insertByName.1 hx with rfl | hx
    · exact absurd hn.symm (hfree r hrm)
    · have : x = r := eq_of_name_eq hnd hx hrm hn
      subst this; exact ⟨rfl, rfl, rfl, rfl⟩

/-- the digest `SyncOut.observe` takes of a stored revision -/
def digest (r : Rev) : RevD :=
  { name := r.name, number := r.number, owner := r.owner, sel := r.selMatch, marker := r.marker, data := r.data }

theorem observe_revs (o : SyncOut) : o.observe.revs = o.store.map digest := rfl

theorem find_digest (store : List Rev) (n : String) :
    (store.map digest).find? (fun d => d.name == n) = (store.find? (fun x => x.name == n)).map digest := by
  induction store with
  | nil => rfl
  | cons x xs ih =>
    simp only [List.map_cons, List.find?_cons]
    have : (digest x).name = x.name := rfl
    rw [this]
    cases hx : (x.name == n)
    · simpa using ih
    · simp

theorem C11deleting_holds (h : Hashing) (i : SyncIn) (plan : List Fault) (hnd : StoreNamesOk i) :
    C11deleting i (syncF h i plan).observe = true := by
  unfold C11deleting
  by_cases hd : i.view.deleting = true
  swap
  · simp [hd]
  obtain ⟨⟨st2, hres, hsub⟩, _⟩ := syncF_deleting_structure h i plan hd
  obtain ⟨st1, _, hdel, _, hent⟩ := (syncF_shape h i plan).main
  obtain rfl := hdel hd
  have hfalse : i.view.deleting = false → False := by rw [hd]; intro hh; cases hh
  simp only [hd, Bool.not_true, Bool.false_or, Bool.and_eq_true]
  refine ⟨?_, ?_⟩
  · -- the log
    apply all_parse
    intro e he
    refine log_check i plan i.store (syncF h i plan).claimed (syncF h i plan).acts
      (fun e => !isPodWrite e && e.verb != "patch") (by decide) (fun hh => (hfalse hh).elim) (by decide) ?_
      (fun hh => (hfalse hh).elim) (fun hh => (hfalse hh).elim) (fun hh => (hfalse hh).elim)
      ?_ ?_ ?_ ?_ ?_ e (hent e he)
    · intro pre v r n hpre hn
      have : pre ++ n ≠ "patch" := pre3_append_ne hpre n "patch" (by decide)
      simp [isPodWrite, this]
    · intro r _ _; simp [isPodWrite]
    · intro n _; simp [isPodWrite]
    · intro n _; simp [isPodWrite]
    · intro r _ _ _; simp [isPodWrite]
    · intro a ha
      rw [syncF_deleting_acts h i plan hd] at ha; cases ha
  · -- the store
    rw [List.all_eq_true]
    intro r hr
    rw [observe_revs, find_digest]
    cases hf : (syncF h i plan).store.find? (fun x => x.name == r.name) with
    | none => simp
    | some x =>
      have hx : x ∈ (syncF h i plan).store := List.mem_of_find?_eq_some hf
      have hn : x.name = r.name := by simpa using List.find?_some hf
      obtain ⟨h1, h2, _, _⟩ := resolved_keeps hnd hres hr (hsub x hx) hn
      simp [digest, h1, h2]

/-! ## C10, the set itself -/

theorem C10set_holds (h : Hashing) (i : SyncIn) (plan : List Fault) :
    C10set (syncF h i plan).observe = true := by
  unfold C10set
  obtain ⟨st1, _, _, _, hent⟩ := (syncF_shape h i plan).main
  apply all_parse
  intro e he
  refine log_check i plan st1 (syncF h i plan).claimed (syncF h i plan).acts
    (fun e => !(e.res == "set" && e.verb != "get")) (by decide) (fun _ => by decide) (by decide) ?_
    ?_ ?_ ?_ ?_ ?_ ?_ ?_ ?_ e (hent e he)
  · intro pre v r n _ _; simp
  · intros; simp
  · intros; simp
  · intros; simp
  · intros; simp
  · intros; simp
  · intros; simp
  · intros; simp
  · intro a _
    cases a <;> (intro _; simp)

/-! ## C10, revisions -/

theorem find_ok_of_mem {i : SyncIn} (hnd : StoreNamesOk i) {y : Rev} (hy : y ∈ i.store) (ho : y.owner ≠ .other) :
    (i.store.find? (·.name == y.name)).all (fun r => r.owner != .other) = true := by
  cases hf : i.store.find? (fun x => x.name == y.name) with
  | none => simp
  | some x =>
    have hx : x ∈ i.store := List.mem_of_find?_eq_some hf
    have hn : x.name = y.name := by simpa using List.find?_some hf
    obtain rfl := eq_of_name_eq hnd hx hy hn
    simpa using ho

/-- a revision listed after the adoption phase descends from a stored revision of the same name that nobody else owns -/
theorem listed_after_adoption {i : SyncIn} (hnd : StoreNamesOk i) {g : Rev → Rev}
    (hg : ∀ x, AdoptG (listRevisions i.store) x (g x)) {r : Rev} (hr : r ∈ listRevisions (i.store.map g)) :
    ∃ y ∈ i.store, y.name = r.name ∧ y.owner ≠ .other := by
  obtain ⟨hm, _⟩ := listRevisions_mem _ r hr
  have hno := listRevisions_not_other _ r hr
  obtain ⟨y, hy, rfl⟩ := List.mem_map.1 hm
  obtain ⟨h1, _, _, _, _, _, h7, _⟩ := hg y
  refine ⟨y, hy, h1.symm, ?_⟩
  rcases h7 with h7 | ⟨_, r2, hr2, ho2, hn2⟩
  · rw [← h7]; exact hno
  · have hr2m := (listRevisions_mem _ r2 hr2).1
    obtain rfl := eq_of_name_eq hnd hr2m hy hn2
    rw [ho2]; simp

theorem C10revs_holds (h : Hashing) (i : SyncIn) (plan : List Fault) (hnd : StoreNamesOk i) :
    C10revs i (syncF h i plan).observe = true := by
  unfold C10revs
  obtain ⟨st1, ⟨g, hg, rfl⟩, _, _, hent⟩ := (syncF_shape h i plan).main
  have hold : ∀ r ∈ listRevisions i.store,
      (i.store.find? (·.name == r.name)).all (fun r => r.owner != .other) = true := fun r hr =>
    find_ok_of_mem hnd (listRevisions_mem _ r hr).1 (listRevisions_not_other _ r hr)
  have hnew : ∀ r ∈ sortRevs (listRevisions (i.store.map g)),
      (i.store.find? (·.name == r.name)).all (fun r => r.owner != .other) = true := by
    intro r hr
    obtain ⟨y, hy, hn, ho⟩ := listed_after_adoption hnd hg (mem_sortRevs.1 hr)
    rw [← hn]; exact find_ok_of_mem hnd hy ho
  apply all_parse
  intro e he
  refine log_check i plan (i.store.map g) (syncF h i plan).claimed (syncF h i plan).acts
    (fun e => if isRevWrite e && e.verb != "create" then
      (i.store.find? (·.name == e.name)).all (fun r => r.owner != .other) else true)
    (by simp [isRevWrite]) (fun _ => by simp [isRevWrite]) (by simp [isRevWrite]) ?_ ?_ ?_ ?_ ?_ ?_ ?_ ?_ ?_ e
    (hent e he)
  · intro pre v r n _ _; simp [isRevWrite]
  · intro _ r hr _ _; simp only [hold r hr]; simp
  · intro _ r hr _ _; simp only [hold r hr]; simp
  · intros; simp [isRevWrite]
  · intro r hr _; simp only [hnew r hr]; simp
  · intros; simp [isRevWrite]
  · intros; simp [isRevWrite]
  · intro r hr _ _; simp only [hnew r hr]; simp
  · intro a _
    cases a <;> (intro _; simp [isRevWrite])

end Asts.SYa
