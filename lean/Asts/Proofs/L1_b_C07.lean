import Asts.Proofs.L1_b_C05

/-! # L1_b — C07: rolling update honours the partition and goes highest-first; OnDelete never restarts -/
namespace Asts.L1b
open List

/-- the model's partition (`getRollingUpdatePartition`) is the raw partition of the spec clamped at 0 -/
theorem partOf_eq_max (v : SetView) : partOf v = max 0 (partitionOf v) := by
  unfold partOf partitionOf
  rcases v.ru with _ | _ | p
  · simp
  · simp
  · simp only
    split_ifs with h
    · omega
    · omega

theorem partitionOf_le_partOf (v : SetView) : partitionOf v ≤ partOf v := by
  rw [partOf_eq_max]; exact le_max_right _ _

section
variable (v : SetView) (cur upd : String) (pods : List Pod) (f : Faults)

/-- C07, OnDelete: the update walk deletes nothing (both pod management policies, any spec, any snapshot) -/
theorem C07_onDelete (hod : v.strat = .onDelete) (o : Int) (id : Nat) :
    Action.delete o id .update ∉ (updateStatefulSet v cur upd pods f).1.acts := by
  intro h
  rcases updateStatefulSet_spec v cur upd pods f with h' | ⟨P, _, _, hj, _, _⟩
  · rw [h'] at h; simp at h
  · have hj' := hj _ h
    cases hj' with
    | upd i p q hp hq hnf hne hpt hpost hmn => exact hne hod

/-- C07: at most one delete by the update walk per reconcile (both policies, any spec, any snapshot) -/
theorem C07_one_update_delete :
    ((updateStatefulSet v cur upd pods f).1.acts.filter Action.isUpdDel).length ≤ 1 := by
  rcases updateStatefulSet_spec v cur upd pods f with h' | ⟨P, _, _, _, hc, _⟩
  · rw [h']; simp
  · exact hc

variable (r : Int) (hr : v.replicas = some r) (h0 : 0 ≤ r)
include hr h0

/-- C07: a delete by the update walk at `o` is not under OnDelete, is at or above the partition (raw and clamped), and
    every desired ordinal above `o` holds a pod of the snapshot that is healthy and at the update revision. -/
theorem C07_update_delete {o : Int} {id : Nat}
    (h : Action.delete o id .update ∈ (updateStatefulSet v cur upd pods f).1.acts) :
    v.strat ≠ .onDelete ∧ partitionOf v ≤ o ∧ partOf v ≤ o ∧
    ∀ i ∈ desired r v.slots, o < i → HealthyAtRev pods upd i := by
  obtain ⟨P, inv, _, _, hj, _⟩ := run_just v cur upd pods f r hr h0 h
  have hj' := hj _ h
  cases hj' with
  | upd i p q hp hq hnf hne hpt hpost hmn =>
    refine ⟨hne, le_trans (partitionOf_le_partOf v) hpt, hpt, ?_⟩
    intro j hj hlt
    obtain ⟨x, hx, rfl⟩ := inv.exists_rep hj
    obtain ⟨k1, k2⟩ := hpost x hx hlt
    obtain ⟨m1, m2⟩ := inv.created_mem hx (Pod.healthy_created k1)
    exact ⟨x.2, m1, m2, k2, (Pod.healthy_iff _).1 k1⟩

/-- C07: every create is at a desired ordinal and carries the revision `newVersionedStatefulSetPod` chooses -/
theorem C07_create_rev (hwf : wfSnapshot pods = true) {o : Int} {rev : String}
    (h : Action.create o rev ∈ (updateStatefulSet v cur upd pods f).1.acts) :
    o ∈ desired r v.slots ∧ rev = newPodRev v cur upd o := by
  obtain ⟨P, inv, _, _, hj, _⟩ := run_just v cur upd pods f r hr h0 h
  have hj' := hj _ h
  cases hj' with
  | create pre i p post rev e hrev hpre =>
    have hmem : (o, p) ∈ P.reps := by rw [e]; simp
    refine ⟨inv.idx_mem hmem, ?_⟩
    rcases hrev with hrev | ⟨hc, hrev⟩
    · exact hrev
    · rcases inv.rep _ hmem with ⟨k1, _⟩ | k1
      · have := wfSnapshot_created hwf _ k1
        simp only at this
        rw [hc] at this; cases this
      · simp only at k1
        rw [hrev, k1]; rfl

/-- C07, partition present: created pods below the partition carry the current revision, the others the update revision -/
theorem C07_create_partition (hwf : wfSnapshot pods = true) {p : Int} (hru : v.ru = some (some p)) {o : Int}
    {rev : String} (h : Action.create o rev ∈ (updateStatefulSet v cur upd pods f).1.acts) :
    rev = if o < p then cur else upd := by
  obtain ⟨hD, hrev⟩ := C07_create_rev v cur upd pods f r hr h0 hwf h
  have hnn : 0 ≤ o := (desired_isDesired r v.slots).nonneg o hD
  rw [hrev]
  simp only [newPodRev, partOf, hru, Option.isNone_some, Bool.and_false, Bool.false_and, Bool.false_eq_true, if_false,
    Option.isSome_some, Bool.true_and, decide_eq_true_eq]
  by_cases hp : p < 0
  · have h1 : ¬ o < 0 := by omega
    have h2 : ¬ o < p := by omega
    simp only [hp, if_true, h1, h2, if_false]
  · simp only [hp, if_false]

/-- C07, legacy rule (`rollingUpdate` block absent under RollingUpdate): the boundary is `status.currentReplicas` -/
theorem C07_legacy_boundary (hwf : wfSnapshot pods = true) (hst : v.strat = .rolling) (hru : v.ru = none) {o : Int}
    {rev : String} (h : Action.create o rev ∈ (updateStatefulSet v cur upd pods f).1.acts) :
    rev = if o < v.stCurrentReplicas then cur else upd := by
  obtain ⟨_, hrev⟩ := C07_create_rev v cur upd pods f r hr h0 hwf h
  rw [hrev]
  simp [newPodRev, hru, hst]

/-- the same as an equivalence, when the two revisions differ -/
theorem C07_legacy_boundary_iff (hwf : wfSnapshot pods = true) (hst : v.strat = .rolling) (hru : v.ru = none)
    (hne : cur ≠ upd) {o : Int} {rev : String}
    (h : Action.create o rev ∈ (updateStatefulSet v cur upd pods f).1.acts) :
    rev = cur ↔ o < v.stCurrentReplicas := by
  rw [C07_legacy_boundary v cur upd pods f r hr h0 hwf hst hru h]
  split_ifs with hlt
  · simp [hlt]
  · simp only [hlt, iff_false]; exact fun e => hne e.symm

/-- C07, no partition value (`rollingUpdate: {}`), or no block under a strategy other than RollingUpdate: every created
    pod carries the update revision -/
theorem C07_create_no_partition (hwf : wfSnapshot pods = true)
    (hru : v.ru = some none ∨ (v.ru = none ∧ v.strat ≠ .rolling)) {o : Int} {rev : String}
    (h : Action.create o rev ∈ (updateStatefulSet v cur upd pods f).1.acts) : rev = upd := by
  obtain ⟨hD, hrev⟩ := C07_create_rev v cur upd pods f r hr h0 hwf h
  have hnn : 0 ≤ o := (desired_isDesired r v.slots).nonneg o hD
  rw [hrev]
  rcases hru with hru | ⟨hru, hst⟩
  · have : ¬ o < 0 := by omega
    simp [newPodRev, partOf, hru, this]
  · simp [newPodRev, hru, hst]

/-- the monitors' update-class deletes of a model run are the deletes issued by the update walk -/
theorem C07_updateDeletes_eq (hids : IdsOk pods) :
    updateDeletes (desired r v.slots) pods (observe (updateStatefulSet v cur upd pods f).1.acts)
      = (updateStatefulSet v cur upd pods f).1.acts.filterMap updOrd := by
  rcases updateStatefulSet_spec v cur upd pods f with h' | ⟨P, hp, _, hj, _, _⟩
  · rw [h']; rfl
  · exact updateDeletes_observe (prepare_inv hr h0 hp) hids hj

/-- OnDelete on the monitor's side: no observed delete is of class `update` -/
theorem C07_onDelete_observed (hids : IdsOk pods) (hod : v.strat = .onDelete) :
    updateDeletes (desired r v.slots) pods (observe (updateStatefulSet v cur upd pods f).1.acts) = [] := by
  rw [C07_updateDeletes_eq v cur upd pods f r hr h0 hids, List.eq_nil_iff_forall_not_mem]
  intro o ho
  obtain ⟨id, hid⟩ := mem_filterMap_updOrd.1 ho
  exact C07_onDelete v cur upd pods f hod o id hid

/-- at most one observed delete is of class `update` -/
theorem C07_one_update_delete_observed (hids : IdsOk pods) :
    (updateDeletes (desired r v.slots) pods (observe (updateStatefulSet v cur upd pods f).1.acts)).length ≤ 1 := by
  rw [C07_updateDeletes_eq v cur upd pods f r hr h0 hids, length_filterMap_updOrd]
  exact C07_one_update_delete v cur upd pods f

/-- **C07** — the monitor is true on the model's output for every spec, snapshot and fault plan, both policies. -/
theorem C07_holds (hwf : wfSnapshot pods = true) (hids : IdsOk pods) :
    C07 v cur upd pods (observe (updateStatefulSet v cur upd pods f).1.acts) = true := by
  have hrep : replicasOf v = r := by simp [replicasOf, hr]
  have huds := C07_updateDeletes_eq v cur upd pods f r hr h0 hids
  unfold C07
  simp only [hrep, huds, Bool.and_eq_true]
  refine ⟨⟨⟨?_, ?_⟩, ?_⟩, ?_⟩
  · by_cases hs : v.strat = .onDelete
    · simp only [hs, beq_self_eq_true, if_true]
      rw [List.isEmpty_iff, List.eq_nil_iff_forall_not_mem]
      intro o ho
      obtain ⟨id, hid⟩ := mem_filterMap_updOrd.1 ho
      exact C07_onDelete v cur upd pods f hs o id hid
    · have : (v.strat == StratType.onDelete) = false := by simpa using hs
      simp only [this, Bool.false_eq_true, if_false]
  · rw [decide_eq_true_eq, length_filterMap_updOrd]
    exact C07_one_update_delete v cur upd pods f
  · rw [List.all_eq_true]
    intro o ho
    obtain ⟨id, hid⟩ := mem_filterMap_updOrd.1 ho
    obtain ⟨_, k1, _, k2⟩ := C07_update_delete v cur upd pods f r hr h0 hid
    rw [Bool.and_eq_true, decide_eq_true_eq]
    refine ⟨k1, ?_⟩
    rw [List.all_eq_true]
    intro i hi
    rw [List.mem_filter] at hi
    obtain ⟨q, q1, q2, q3, q4⟩ := k2 i hi.1 (by simpa using hi.2)
    have hpa := podAt_of_mem hwf q1
    rw [q2] at hpa
    rw [hpa]
    simp [(Pod.healthy_iff q).2 q4, q3]
  · cases hru : v.ru with
    | none => simp only
    | some x =>
      cases x with
      | none => simp only
      | some p =>
        simp only
        rw [List.all_eq_true]
        intro a ha
        simp only [observe, List.mem_map] at ha
        obtain ⟨a0, ha0, rfl⟩ := ha
        cases a0 with
        | create o rev =>
          simp only [Action.observe]
          rw [C07_create_partition v cur upd pods f r hr h0 hwf hru ha0]
          split_ifs <;> simp
        | update o => simp only [Action.observe]
        | delete o id w => simp only [Action.observe]

end

/-- C07 with the replica count read as the monitor reads it (`replicasOf v`, 0 for a nil pointer) -/
theorem C07_holds_total (v : SetView) (cur upd : String) (pods : List Pod) (f : Faults)
    (h0 : 0 ≤ replicasOf v) (hwf : wfSnapshot pods = true) (hids : IdsOk pods) :
    C07 v cur upd pods (observe (updateStatefulSet v cur upd pods f).1.acts) = true := by
  cases hr : v.replicas with
  | none =>
    rw [acts_nil_of_replicas_none v cur upd pods f hr]
    rcases hru : v.ru with _ | _ | p <;> simp [C07, observe, updateDeletes, hru]
  | some r =>
    have : replicasOf v = r := by simp [replicasOf, hr]
    exact C07_holds v cur upd pods f r hr (this ▸ h0) hwf hids

end Asts.L1b
