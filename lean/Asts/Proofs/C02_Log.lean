import Asts.Proofs.C02_SplitOn
import Asts.Proofs.C02_Stable

/-! C02: how `applyPatches` reads the log entries the model writes. Only an entry whose first `:`-separated field is `patch`
    (and whose second is `pod`) can be taken for an adoption / release patch. -/
namespace Asts.C02p
open Asts String

theorem splitOn_prefix (pre rest : String) (hpre : ∀ c ∈ pre.toList, (c == ':') = false) :
    (pre ++ ":" ++ rest).splitOn ":" = pre :: rest.splitOn ":" := by
  rw [splitOn_colon, splitOn_colon]
  have h1 : (pre ++ ":" ++ rest).toList = pre.toList ++ ':' :: rest.toList := by
    rw [String.toList_append, String.toList_append]
    have : (":" : String).toList = [':'] := by decide
    rw [this]; simp
  rw [h1, List.splitOnP_append_cons_of_forall_mem hpre ':' (by decide)]
  simp

theorem splitOn_noColon (s : String) (hs : ∀ c ∈ s.toList, (c == ':') = false) : s.splitOn ":" = [s] := by
  rw [splitOn_colon, List.splitOnP_eq_singleton hs]
  simp

/-- the entry cannot be read as `patch:pod:<name>` -/
def NoPatch (e : String) : Prop := ∀ n, e.splitOn ":" ≠ ["patch", "pod", n]

theorem noPatch_prefix (pre rest : String) (hpre : ∀ c ∈ pre.toList, (c == ':') = false) (hne : pre ≠ "patch") :
    NoPatch (pre ++ ":" ++ rest) := by
  intro n h
  rw [splitOn_prefix pre rest hpre] at h
  simp only [List.cons.injEq] at h
  exact hne h.1

theorem noPatch_list_revs : NoPatch "list:revs" := by
  have : ("list:revs" : String) = "list" ++ ":" ++ "revs" := by decide
  rw [this]
  exact noPatch_prefix _ _ (by decide) (by decide)

theorem noPatch_updatestatus : NoPatch "updatestatus" := by
  intro n h
  rw [splitOn_noColon _ (by decide)] at h
  simp at h

theorem noPatch_create_pod (x : String) : NoPatch s!"create:pod:{x}" := by
  have : s!"create:pod:{x}" = "create" ++ ":" ++ ("pod:" ++ x) := by
    show "create:pod:" ++ x = _
    have e0 : ("create:pod:" : String) = "create" ++ ":" ++ "pod:" := by decide
    rw [e0, String.append_assoc]
  rw [this]
  exact noPatch_prefix _ _ (by decide) (by decide)

theorem noPatch_delete_pod (x : String) : NoPatch s!"delete:pod:{x}" := by
  have : s!"delete:pod:{x}" = "delete" ++ ":" ++ ("pod:" ++ x) := by
    show "delete:pod:" ++ x = _
    have e0 : ("delete:pod:" : String) = "delete" ++ ":" ++ "pod:" := by decide
    rw [e0, String.append_assoc]
  rw [this]
  exact noPatch_prefix _ _ (by decide) (by decide)

theorem noPatch_update_pod (x : String) : NoPatch s!"update:pod:{x}" := by
  have : s!"update:pod:{x}" = "update" ++ ":" ++ ("pod:" ++ x) := by
    show "update:pod:" ++ x = _
    have e0 : ("update:pod:" : String) = "update" ++ ":" ++ "pod:" := by decide
    rw [e0, String.append_assoc]
  rw [this]
  exact noPatch_prefix _ _ (by decide) (by decide)

theorem noPatch_delete_rev (x : String) : NoPatch s!"delete:rev:{x}" := by
  have : s!"delete:rev:{x}" = "delete" ++ ":" ++ ("rev:" ++ x) := by
    show "delete:rev:" ++ x = _
    have e0 : ("delete:rev:" : String) = "delete" ++ ":" ++ "rev:" := by decide
    rw [e0, String.append_assoc]
  rw [this]
  exact noPatch_prefix _ _ (by decide) (by decide)

/-- a log without patch entries leaves the pods alone -/
theorem applyPatches_go_noPatch (plan : List Fault) (seen log : List String) (pods : List CPod)
    (hlog : ∀ e ∈ log, NoPatch e) : applyPatches.go plan seen log pods = pods := by
  induction log generalizing seen with
  | nil => rfl
  | cons e rest ih =>
    unfold applyPatches.go
    have he := hlog e List.mem_cons_self
    have hrest := fun e he => hlog e (List.mem_cons_of_mem _ he)
    split
    · rename_i n heq; exact absurd heq (he n)
    · exact ih _ hrest

theorem applyPatches_noPatch (plan : List Fault) (log : List String) (pods : List CPod)
    (hlog : ∀ e ∈ log, NoPatch e) : applyPatches plan log pods = pods :=
  applyPatches_go_noPatch plan [] log pods hlog

end Asts.C02p
