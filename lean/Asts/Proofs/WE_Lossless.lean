import Mathlib.Tactic
import Asts.Proofs.WE_SilentFix
import Asts.Proofs.WE_Index

/-! # WE — the monitor `C11lossless` is true on the model's histories (scripts that are one pause interval) -/
namespace Asts.WE
open Asts Asts.GL

/-! ## the plain run as a trajectory -/

theorem worldFrom_nil_eq (h : Hashing) (p : List Fault) (w : SyncIn) : ∀ n, worldFrom h [] 1 p w n = plainWorld h w p n
  | 0 => rfl
  | n + 1 => by
    show (round h (applyEdits (editsAt [] (1 + n)) (worldFrom h [] 1 p w n)) (planAt p n)).1 = (round h (plainWorld h w p n) (planAt p n)).1
    rw [worldFrom_nil_eq h p w n]; rfl

theorem histRoundAt_nil_obs (h : Hashing) (p : List Fault) (w : SyncIn) (n : Nat) :
    (histRoundAt h [] 1 p w n).obs = obsFrom h w p n := by
  show (round h (applyEdits (editsAt [] (1 + n)) (worldFrom h [] 1 p w n)) (planAt p n)).2 = _
  rw [worldFrom_nil_eq]; rfl

theorem plainWorld_add (h : Hashing) (w : SyncIn) (p : List Fault) (n : Nat) :
    ∀ k, plainWorld h w p (n + 1 + k) = plainWorld h (plainWorld h w p (n + 1)) [] k
  | 0 => rfl
  | k + 1 => by
    show (round h (plainWorld h w p (n + 1 + k)) (planAt p (n + 1 + k))).1 = (round h (plainWorld h (plainWorld h w p (n + 1)) [] k) (planAt [] k)).1
    have : n + 1 + k = (n + k) + 1 := by omega
    rw [plainWorld_add h w p n k, this, planAt_succ, planAt_nil]

theorem obsFrom_add (h : Hashing) (w : SyncIn) (p : List Fault) (n k : Nat) :
    obsFrom h w p (n + 1 + k) = obsFrom h (plainWorld h w p (n + 1)) [] k := by
  unfold obsFrom
  have : n + 1 + k = (n + k) + 1 := by omega
  rw [plainWorld_add h w p n k, this, planAt_succ, planAt_nil]

theorem plainWorld_viewInStep (h : Hashing) (w : SyncIn) (p : List Fault) (n : Nat) : ViewInStep (plainWorld h w p (n + 1)) :=
  round_viewInStep h _ _

/-- **once silent (after the first round), silent for ever, with the same observation** -/
theorem silent_forever (h : Hashing) (w : SyncIn) (p : List Fault)
    (hnod : ∀ n, ((plainWorld h w p n).pods.map (·.name)).Nodup) (n : Nat)
    (hs : sil (obsFrom h w p (n + 1)) = true) : ∀ j, obsFrom h w p (n + 1 + j) = obsFrom h w p (n + 1) := by
  have hrep := silent_round_repeats h (plainWorld h w p (n + 1)) (plainWorld_viewInStep h w p n) (hnod (n + 1))
    (by have : obsFrom h w p (n + 1) = (round h (plainWorld h w p (n + 1)) []).2 := by
          unfold obsFrom; rw [planAt_succ]
        rw [← this]; exact hs)
  have hfix : ∀ j, plainWorld h w p (n + 1 + (j + 1)) = plainWorld h w p (n + 1 + 1) ∧
      obsFrom h w p (n + 1 + j) = obsFrom h w p (n + 1) := by
    intro j
    induction j with
    | zero => exact ⟨rfl, rfl⟩
    | succ j ih =>
      obtain ⟨ihw, _⟩ := ih
      have e1 : n + 1 + (j + 1) = (n + 1 + j) + 1 := by omega
      have hw1 : plainWorld h w p (n + 1 + 1) = (round h (plainWorld h w p (n + 1)) []).1 := by
        show (round h (plainWorld h w p (n + 1)) (planAt p (n + 1))).1 = _
        rw [planAt_succ]
      constructor
      · show (round h (plainWorld h w p (n + 1 + (j + 1))) (planAt p (n + 1 + (j + 1)))).1 = _
        rw [ihw, e1, planAt_succ, hw1, hrep]
      · show (round h (plainWorld h w p (n + 1 + (j + 1))) (planAt p (n + 1 + (j + 1)))).2 = (round h (plainWorld h w p (n + 1)) (planAt p (n + 1))).2
        rw [ihw, e1, planAt_succ, planAt_succ, hw1, hrep]
  exact fun j => (hfix j).2

end Asts.WE

namespace Asts.WE
open Asts Asts.GL

/-- while edits are pending a history cannot stop: its first `n` rounds are those of the trajectory, then it goes on -/
theorem runHistory_unroll (h : Hashing) (script : Script) (j : Nat) (w : SyncIn) (p : List Fault) :
    ∀ (n fuel c : Nat), n ≤ fuel → (∀ m, m < n → pendingAfter script (j + m) = true) →
      ∃ c', runHistory h script fuel j c w p =
        (List.range n).map (histRoundAt h script j p w) ++
          runHistory h script (fuel - n) (j + n) c' (worldFrom h script j p w n) (planAt p n)
  | 0, fuel, c, _, _ => ⟨c, by simp [planAt, worldFrom]⟩
  | n + 1, fuel, c, hle, hpend => by
    obtain ⟨c', hc'⟩ := runHistory_unroll h script j w p n fuel c (by omega) (fun m hm => hpend m (by omega))
    have hf : fuel - n = (fuel - (n + 1)) + 1 := by omega
    rw [hc', hf, runHistory_succ]
    simp only
    have hp := hpend n (by omega)
    rw [hp]
    simp only [Bool.not_true, Bool.and_false, Bool.false_eq_true, if_false]
    refine ⟨(if ((round h (applyEdits (editsAt script (j + n)) (worldFrom h script j p w n)) (planAt p n)).2.out == "ok" &&
        (round h (applyEdits (editsAt script (j + n)) (worldFrom h script j p w n)) (planAt p n)).2.writes == 0) = true
      then (if (editsAt script (j + n)).isEmpty = true then c' else 0) + 1 else 0), ?_⟩
    rw [List.range_succ, List.map_append, List.append_assoc, planAt_succ]
    rfl

theorem runRounds_settle (h : Hashing) (fuel c : Nat) (w : SyncIn) (hn : (w.pods.map (·.name)).Nodup) :
    runRounds h fuel c (settle w) [] = runRounds h fuel c w [] := by
  cases fuel with
  | zero => rfl
  | succ fuel => rw [runRounds_succ, runRounds_succ, round_settle h w [] hn]

theorem endsSilent_spec {L : List RoundObs} (hL : endsSilent L = true) :
    ∃ m x y, L.length = m + 2 ∧ L[m + 1]? = some x ∧ L[m]? = some y ∧ silentOk x = true ∧ silentOk y = true := by
  unfold endsSilent at hL
  match hr : L.reverse with
  | [] => rw [hr] at hL; simp at hL
  | [a] => rw [hr] at hL; simp at hL
  | x :: y :: t =>
    rw [hr] at hL
    simp only [Bool.and_eq_true] at hL
    have hLe : L = t.reverse ++ [y, x] := by
      have := congrArg List.reverse hr
      rw [List.reverse_reverse] at this
      rw [this]; simp
    refine ⟨t.length, x, y, by rw [hLe]; simp, ?_, ?_, hL.1, hL.2⟩
    · rw [hLe, List.getElem?_append_right (by simp)]; simp
    · rw [hLe, List.getElem?_append_right (by simp)]; simp

end Asts.WE

namespace Asts.WE
open Asts Asts.GL

theorem sameState_refl (x : RoundObs) : sameState x x = true := by
  unfold sameState; simp

theorem runRounds_nonempty (h : Hashing) (fuel c : Nat) (w : SyncIn) (p : List Fault) :
    1 ≤ (runRounds h (fuel + 1) c w p).length := by
  rw [runRounds_step]; split_ifs <;> simp

theorem pending_pause (a d m : Nat) (hm : m < a + d + 2) : pendingAfter (pauseScript a d) (1 + m) = true := by
  unfold pendingAfter pauseScript
  simp only [List.any_cons, List.any_nil, Bool.or_false, Bool.or_eq_true, decide_eq_true_eq]
  right; omega

/-- the observations of a history with one pause interval: the rounds up to the un-pause, then the plain run of the world
    the pause found -/
theorem pause_history_obs (h : Hashing) (plan : List Fault) (i : SyncIn) (a d fuel : Nat) (hnp : i.paused = false)
    (hnod : ∀ n, ((plainWorld h i plan n).pods.map (·.name)).Nodup) (hfuel : a + d + 2 ≤ fuel) :
    (runHistory h (pauseScript a d) fuel 1 0 i plan).map (·.obs) =
      ((List.range (a + d + 2)).map (histRoundAt h (pauseScript a d) 1 plan i)).map (·.obs) ++
        runRounds h (fuel - (a + d + 2)) 0 (plainWorld h i plan (a + 1)) [] := by
  obtain ⟨c', hc'⟩ := runHistory_unroll h (pauseScript a d) 1 i plan (a + d + 2) fuel 0 hfuel (fun m hm => pending_pause a d m hm)
  rw [hc', List.map_append]
  congr 1
  have hX : worldFrom h [] 1 plan i (a + 1) = plainWorld h i plan (a + 1) := worldFrom_nil_eq h plan i (a + 1)
  have hn : ((worldFrom h [] 1 plan i (a + 1)).pods.map (·.name)).Nodup := by rw [hX]; exact hnod (a + 1)
  rw [runHistory_last h (pauseScript a d) _ _ _ _ _ (by
    intro e he
    unfold pauseScript at he
    simp only [List.mem_cons, List.not_mem_nil, or_false] at he
    rcases he with rfl | rfl <;> simp <;> omega)]
  have hedits : editsAt (pauseScript a d) (1 + (a + d + 2)) = [.pause false] := by
    unfold pauseScript
    rw [editsAt_pair, if_neg (by omega), if_pos (by omega)]; rfl
  have hw : worldFrom h (pauseScript a d) 1 plan i (a + d + 2) =
      settle (applyEdit (.pause true) (worldFrom h [] 1 plan i (a + 1))) := by
    have := pause_during h plan i a d hn d (le_refl _)
    have e : a + 1 + (d + 1) = a + d + 2 := by omega
    rw [e] at this; exact this
  rw [hedits, hw]
  simp only [List.isEmpty_cons, Bool.false_eq_true, if_false]
  have hpl : planAt plan (a + d + 2) = [] := planAt_succ plan (a + d + 1)
  rw [hpl]
  have happ : applyEdits [.pause false] (settle (applyEdit (.pause true) (worldFrom h [] 1 plan i (a + 1)))) =
      settle (worldFrom h [] 1 plan i (a + 1)) := by
    show settle (applyEdit (.pause false) (worldFrom h [] 1 plan i (a + 1))) = _
    rw [unpause_self _ (worldFrom_paused_nil h plan i hnp (a + 1))]
  rw [happ, runRounds_settle h _ 0 _ hn, hX]

end Asts.WE

namespace Asts.WE
open Asts Asts.GL

theorem observeHist_obs (hs : List HistRound) : (observeHist hs).map (·.obs) = hs.map (·.obs) := by
  rw [observeHist_eq, List.map_map]; rfl

/-- **`C11lossless`, the monitor, is true on the model** for every script that is one pause interval (pause before round
    `a + 2`, un-pause before round `a + d + 3`): the set is not paused to begin with, pod names are distinct in every world of
    the never-paused run, and the budget reaches past the un-pause round -/
theorem C11lossless_model (h : Hashing) (plan : List Fault) (i : SyncIn) (a d fuel : Nat) (hnp : i.paused = false)
    (hnod : ∀ n, ((plainWorld h i plan n).pods.map (·.name)).Nodup) (hfuel : a + d + 3 ≤ fuel) :
    C11lossless i (pauseScript a d) (observeHist (runHistory h (pauseScript a d) fuel 1 0 i plan))
      (runRounds h fuel 0 i plan) = true := by
  unfold C11lossless
  rw [pauseScript_interval]
  simp only
  rw [hnp]
  by_cases hE : (endsSilent (runRounds h fuel 0 i plan) &&
      endsSilent ((observeHist (runHistory h (pauseScript a d) fuel 1 0 i plan)).map (·.obs))) = true
  swap
  · have hE' : (endsSilent (runRounds h fuel 0 i plan) &&
        endsSilent ((observeHist (runHistory h (pauseScript a d) fuel 1 0 i plan)).map (·.obs))) = false := by simpa using hE
    rw [hE']; rfl
  rw [hE]
  simp only [Bool.not_true, Bool.false_or]
  rw [Bool.and_eq_true] at hE
  obtain ⟨hEr, hEh⟩ := hE
  -- the two lists
  have hobs := pause_history_obs h plan i a d fuel hnp hnod (by omega)
  rw [observeHist_obs, hobs] at hEh
  obtain ⟨g, hg⟩ : ∃ g, fuel - (a + d + 2) = g + 1 := ⟨fuel - (a + d + 3), by omega⟩
  obtain ⟨ta, _, tc, _⟩ := runRounds_spec h (fuel - (a + d + 2)) 0 (plainWorld h i plan (a + 1)) []
  obtain ⟨ra, _, _, _⟩ := runRounds_spec h fuel 0 i plan
  have htl1 : 1 ≤ (runRounds h (fuel - (a + d + 2)) 0 (plainWorld h i plan (a + 1)) []).length := by
    rw [hg]; exact runRounds_nonempty h g 0 _ []
  set tail := runRounds h (fuel - (a + d + 2)) 0 (plainWorld h i plan (a + 1)) [] with htail
  set ref := runRounds h fuel 0 i plan with href
  have htobs : ∀ k, obsFrom h (plainWorld h i plan (a + 1)) [] k = obsFrom h i plan (a + 1 + k) :=
    fun k => (obsFrom_add h i plan a k).symm
  -- the reference run ends with two silent rounds
  obtain ⟨m, x, y, hlen, hx, hy, sx, sy⟩ := endsSilent_spec hEr
  have hx' : x = obsFrom h i plan (m + 1) := by
    have := ra (m + 1) (by omega); rw [hx] at this; exact Option.some.inj this
  have hy' : y = obsFrom h i plan m := by
    have := ra m (by omega); rw [hy] at this; exact Option.some.inj this
  rw [hx'] at sx; rw [hy'] at sy
  -- the history ends with a silent round of the tail
  obtain ⟨m', x', y', hlen', hxh, _, sxh, _⟩ := endsSilent_spec hEh
  have hprelen : (((List.range (a + d + 2)).map (histRoundAt h (pauseScript a d) 1 plan i)).map (·.obs)).length = a + d + 2 := by simp
  rw [List.length_append, hprelen] at hlen'
  have hxh' : x' = obsFrom h i plan (a + 1 + (tail.length - 1)) := by
    rw [List.getElem?_append_right (by rw [hprelen]; omega), hprelen] at hxh
    have e : m' + 1 - (a + d + 2) = tail.length - 1 := by omega
    rw [e, ta (tail.length - 1) (by omega), htobs] at hxh
    exact (Option.some.inj hxh).symm
  rw [hxh'] at sxh
  -- both are silent rounds of the never-paused run after its first round: the same observation
  have hsame : obsFrom h i plan (a + 1 + (tail.length - 1)) = obsFrom h i plan (m + 1) := by
    by_cases hle : a + 1 + (tail.length - 1) ≤ m + 1
    · obtain ⟨j, hj⟩ : ∃ j, m + 1 = (a + (tail.length - 1)) + 1 + j := ⟨m + 1 - (a + 1 + (tail.length - 1)), by omega⟩
      have e : a + 1 + (tail.length - 1) = (a + (tail.length - 1)) + 1 := by omega
      rw [hj, e]
      rw [e] at sxh
      exact (silent_forever h i plan hnod _ sxh j).symm
    · obtain ⟨j, hj⟩ : ∃ j, a + 1 + (tail.length - 1) = m + 1 + j := ⟨a + 1 + (tail.length - 1) - (m + 1), by omega⟩
      rw [hj]
      exact silent_forever h i plan hnod m sx j
  -- the length of the tail
  have htlen : tail.length ≤ max (m + 1 - a) 2 := by
    by_cases hma : a + 1 ≤ m
    · have c2 : cntFrom h 0 (plainWorld h i plan (a + 1)) [] (m - (a + 1) + 1) ≥ 2 := by
        apply cnt_of_two_silent
        · rw [htobs]; have e : a + 1 + (m - (a + 1)) = m := by omega
          rw [e]; exact sy
        · rw [htobs]; have e : a + 1 + (m - (a + 1) + 1) = m + 1 := by omega
          rw [e]; exact sx
      by_contra hgt
      have := tc (m - (a + 1) + 1) (by omega)
      omega
    · have s1 : sil (obsFrom h i plan (a + 1)) = true := by
        obtain ⟨j, hj⟩ : ∃ j, a + 1 = m + 1 + j := ⟨a - m, by omega⟩
        rw [hj, silent_forever h i plan hnod m sx j]; exact sx
      have s2 : sil (obsFrom h i plan (a + 2)) = true := by
        obtain ⟨j, hj⟩ : ∃ j, a + 2 = m + 1 + j := ⟨a + 1 - m, by omega⟩
        rw [hj, silent_forever h i plan hnod m sx j]; exact sx
      have c2 : cntFrom h 0 (plainWorld h i plan (a + 1)) [] 1 ≥ 2 := by
        apply cnt_of_two_silent h 0 _ [] 0
        · rw [htobs]; exact s1
        · rw [htobs]; exact s2
      by_contra hgt
      have := tc 1 (by omega)
      omega
  -- the last rounds of the two observations
  have hrsLen : (observeHist (runHistory h (pauseScript a d) fuel 1 0 i plan)).length = a + d + 2 + tail.length := by
    have := congrArg List.length (observeHist_obs (runHistory h (pauseScript a d) fuel 1 0 i plan))
    rw [List.length_map, hobs, List.length_append, hprelen] at this
    exact this
  have hrefLast : ref.getLast? = some (obsFrom h i plan (m + 1)) := by
    rw [List.getLast?_eq_getElem?, hlen]
    have : m + 2 - 1 = m + 1 := by omega
    rw [this, ← hx']; exact hx
  have hrsLast : ∃ xr, (observeHist (runHistory h (pauseScript a d) fuel 1 0 i plan)).getLast? = some xr ∧
      xr.obs = obsFrom h i plan (a + 1 + (tail.length - 1)) := by
    have e : a + d + 2 + tail.length - 1 - (a + d + 2) = tail.length - 1 := by omega
    have hmap : ((observeHist (runHistory h (pauseScript a d) fuel 1 0 i plan)).map (·.obs))[a + d + 2 + tail.length - 1]? =
        some (obsFrom h i plan (a + 1 + (tail.length - 1))) := by
      rw [observeHist_obs, hobs, List.getElem?_append_right (by rw [hprelen]; omega), hprelen, e,
        ta (tail.length - 1) (by omega), htobs]
    rw [List.getElem?_map] at hmap
    rw [List.getLast?_eq_getElem?, hrsLen]
    cases hget : (observeHist (runHistory h (pauseScript a d) fuel 1 0 i plan))[a + d + 2 + tail.length - 1]? with
    | none => rw [hget] at hmap; simp at hmap
    | some xr =>
      rw [hget] at hmap
      exact ⟨xr, rfl, by simpa using hmap⟩
  obtain ⟨xr, hxr, hxro⟩ := hrsLast
  rw [hxr, hrefLast]
  simp only
  rw [hxro, hsame, sameState_refl, hrsLen, hlen]
  simp only [Bool.true_and, decide_eq_true_eq]
  omega

end Asts.WE

namespace Asts.WE
open Asts

theorem pauseInterval_eq {script : Script} {a b : Nat} (hp : pauseInterval script = some (a, b)) :
    script = [(a, .pause true), (b, .pause false)] ∧ a < b := by
  unfold pauseInterval at hp
  split at hp
  · rename_i a' b'
    split_ifs at hp with hlt
    simp only [Option.some.injEq, Prod.mk.injEq] at hp
    obtain ⟨rfl, rfl⟩ := hp
    exact ⟨rfl, hlt⟩
  · simp at hp

/-- `C11lossless` on the model for every script: trivially when the script is not one pause interval; otherwise
    (`pauseInterval script = some (a, b)`) for `2 ≤ a` — the case format — and a budget that reaches round `b` -/
theorem C11lossless_model_any (h : Hashing) (plan : List Fault) (i : SyncIn) (script : Script) (fuel : Nat)
    (hnp : i.paused = false) (hnod : ∀ n, ((plainWorld h i plan n).pods.map (·.name)).Nodup)
    (hpi : ∀ a b, pauseInterval script = some (a, b) → 2 ≤ a ∧ b ≤ fuel) :
    C11lossless i script (observeHist (runHistory h script fuel 1 0 i plan)) (runRounds h fuel 0 i plan) = true := by
  cases hp : pauseInterval script with
  | none => unfold C11lossless; rw [hp]
  | some ab =>
    obtain ⟨a, b⟩ := ab
    obtain ⟨hs, hlt⟩ := pauseInterval_eq hp
    obtain ⟨h2, hb⟩ := hpi a b hp
    have hscript : script = pauseScript (a - 2) (b - a - 1) := by
      rw [hs]; unfold pauseScript
      have e1 : a - 2 + 2 = a := by omega
      have e2 : a - 2 + (b - a - 1) + 3 = b := by omega
      rw [e1, e2]
    rw [hscript]
    exact C11lossless_model h plan i (a - 2) (b - a - 1) fuel hnp hnod (by omega)

end Asts.WE
