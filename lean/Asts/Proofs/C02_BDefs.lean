import Asts.Proofs.C02_Defs

/-! C02, the normalising first rounds: definitions. The first sync of a world whose revisions need work (orphans to adopt,
    the update revision to create or renumber) and whose pods may be orphans does, as far as the world is concerned, what the
    sync of the *prepared* world does — the same world with the revision work already done and every pod owned. -/
namespace Asts.C02p
open Asts

/-- every pod owned by the set -/
def ownS (j : SyncIn) : SyncIn := { j with pods := j.pods.map (fun c => { c with owner := .self }) }

/-- the revision store after the revision stages of the sync (adoption; creation / renumbering of the update revision) -/
def prepStore (h : Hashing) (j : SyncIn) : List Rev :=
  let sA := (adoptOrphanRevisionsF [] j.view.deleting j.fresh { store := j.store }).1
  (getRevisionsF h [] j.template j.stored.currentRev (j.collisionCount.getD 0) (sortRevs (listRevisions sA.store)) sA).1.store

/-- the collision count the status carries after that sync: unchanged unless `createControllerRevision` had to walk past
    names that were taken -/
def prepCC (h : Hashing) (j : SyncIn) : Option Int :=
  let sA := (adoptOrphanRevisionsF [] j.view.deleting j.fresh { store := j.store }).1
  match (getRevisionsF h [] j.template j.stored.currentRev (j.collisionCount.getD 0) (sortRevs (listRevisions sA.store)) sA).2 with
  | some (_, _, cc) => if cc == j.collisionCount.getD 0 then j.collisionCount else some cc
  | none => j.collisionCount

/-- the prepared world -/
def prepW (h : Hashing) (j : SyncIn) : SyncIn :=
  ownS { j with store := prepStore h j, collisionCount := prepCC h j }

/-- the hashing premise at walk length `n`: the first `n` names `createControllerRevision` probes are held by revisions that
    record something else, the next one is free, and the walk is within the model's fuel (`n ≤ |store|` follows when the
    probe names are pairwise distinct); when the collision count moves (`n ≠ 0`) the stored status does not already name the
    revision about to be created (so that the status, which carries the collision count, is written) -/
def walkOkB (h : Hashing) (i : SyncIn) (n : Nat) : Bool :=
  (List.range n).all (fun k => i.store.any (fun ex => ex.name == h.nameOf i.template (i.collisionCount.getD 0 + k) &&
    ex.data != i.template)) &&
  i.store.all (fun r => r.name != h.nameOf i.template (i.collisionCount.getD 0 + n)) &&
  (n == 0 || i.stored.updateRev != h.nameOf i.template (i.collisionCount.getD 0 + n))

/-- **the hashing premise**: a listed revision already records the template with a compatible hash label (nothing is
    created), or the probe walk of `createControllerRevision` ends on a free name after passing only revisions that record
    something else. What this excludes: a probe name held by a revision the listing cannot see, or by one that records the
    template under a hash label that does not match (with the real hash — FNV of template and collision count, which also
    determines the label — neither happens), and hash functions that never leave the taken names
    (`degenerate_hashing_never_converges`). -/
def hashOkB (h : Hashing) (i : SyncIn) : Bool :=
  i.store.any (fun r => r.owner != .other && (r.selMatch || r.marker) && equalRev r (freshRev h i [])) ||
  (List.range (i.store.length + 8)).any (walkOkB h i)

/-- hash labels: the fresh revision's label does not parse (then `EqualRevision` compares the data only), or the label of
    every stored revision that records the template parses. What this excludes: a revision recording the template under an
    unparsable label next to one recording it under a parsable label different from the fresh one — `EqualRevision` is then
    not transitive, the newest revision is used without being equal to the fresh one, and the world, although quiet, is not
    in the state `Final` describes. -/
def labelsOkB (h : Hashing) (i : SyncIn) : Bool :=
  (h.hashNumOf i.template (i.collisionCount.getD 0)).isNone ||
  i.store.all (fun r => r.data != i.template || r.hashNum.isSome)

def noColon (s : String) : Bool := s.toList.all (fun c => !(c == ':'))

/-- a world before its normalising rounds: as `normCB`, except that pods may be orphans (not controlled by anybody) and
    the revisions may need work (orphans to adopt, no revision for the template yet, or an old one to renumber); names of
    stored revisions are distinct (as in any API server), the set's name contains no colon (the model's log entries are
    colon-separated), and the hashing premises -/
def preCB (h : Hashing) (i : SyncIn) : Bool :=
  specOk i &&
  i.pods.all (fun c => c.owner != .other && c.member && c.selMatch && c.name == canonicalName i.setName c.pod.ord &&
    decide (0 ≤ c.pod.ord) && c.pod.stOk && c.pod.created) &&
  distinctOrdsC i.pods &&
  decide (i.pods.length ≤ freshId) && decide ((replicasOf i.view).toNat ≤ freshId) &&
  decide ((i.store.map (·.name)).Nodup) && noColon i.setName && hashOkB h i && labelsOkB h i

/-- the class of the general convergence theorem: `preCB`, a partition `≥ 0` / OnDelete / the legacy boundary mode, room in
    the model's id scheme, and under OrderedReady no Failed/Succeeded pod outside the desired set -/
def preNB (h : Hashing) (i : SyncIn) : Bool :=
  preCB h i && (partB i.view || legacyB i.view) && roomB i && (i.view.parallel || noFsOutB i)

/-- what `preNB` asks beyond `wfWorld`: `spec.replicas` is set; every pod object is a member of the set (named after it)
    whose storage matches, one per ordinal; sizes within the model's id scheme; stored
    revisions have distinct names; no colon in the set's name; the hashing premises -/
def extraB (h : Hashing) (i : SyncIn) : Bool :=
  i.view.replicas.isSome &&
  i.pods.all (fun c => c.member && c.pod.stOk) &&
  distinctOrdsC i.pods &&
  decide (i.pods.length ≤ freshId) && decide ((replicasOf i.view).toNat ≤ freshId) &&
  decide ((i.store.map (·.name)).Nodup) && noColon i.setName && hashOkB h i && labelsOkB h i && roomB i

end Asts.C02p
