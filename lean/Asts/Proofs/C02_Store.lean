import Asts.Proofs.C02_Stages

/-! C02: what a sync (any fault plan) can do to the revision store and to the collision count: revisions the listing cannot
    see are never created and never renamed, and the collision count never goes down. -/
namespace Asts.C02p
open Asts Asts.L1c

/-- a revision `ListRevisions` can return -/
def visB (r : Rev) : Bool := r.owner != .other && (r.selMatch || r.marker)

/-- every revision of `S'` that the listing cannot see carries the name of such a revision of `S` -/
def StoreLe (S S' : List Rev) : Prop := ∀ r' ∈ S', visB r' = true ∨ ∃ r ∈ S, visB r = false ∧ r.name = r'.name

theorem StoreLe.refl (S : List Rev) : StoreLe S S := by
  intro r hr
  by_cases hv : visB r = true
  · exact Or.inl hv
  · exact Or.inr ⟨r, hr, by simpa using hv, rfl⟩

theorem StoreLe.trans {A B C : List Rev} (h1 : StoreLe A B) (h2 : StoreLe B C) : StoreLe A C := by
  intro r hr
  rcases h2 r hr with hv | ⟨r1, hr1, hv1, hn1⟩
  · exact Or.inl hv
  · rcases h1 r1 hr1 with hv' | ⟨r0, hr0, hv0, hn0⟩
    · rw [hv1] at hv'; cases hv'
    · exact Or.inr ⟨r0, hr0, hv0, hn0.trans hn1⟩

theorem StoreLe.map {S : List Rev} (g : Rev → Rev) (hn : ∀ r, (g r).name = r.name) (hv : ∀ r, visB r = true → visB (g r) = true) :
    StoreLe S (S.map g) := by
  intro r' hr'
  rw [List.mem_map] at hr'
  obtain ⟨r, hr, rfl⟩ := hr'
  by_cases hvr : visB r = true
  · exact Or.inl (hv r hvr)
  · exact Or.inr ⟨r, hr, by simpa using hvr, (hn r).symm⟩

theorem StoreLe.filter {S : List Rev} (p : Rev → Bool) : StoreLe S (S.filter p) := by
  intro r hr
  exact StoreLe.refl S r (List.mem_of_mem_filter hr)

theorem mem_insertByName {r x : Rev} {l : List Rev} : x ∈ insertByName r l ↔ x = r ∨ x ∈ l := by
  induction l with
  | nil => simp [insertByName]
  | cons q qs ih =>
    unfold insertByName
    split_ifs
    · simp
    · simp only [List.mem_cons, ih]; tauto

theorem StoreLe.insert {S : List Rev} (r : Rev) (hv : visB r = true) : StoreLe S (insertByName r S) := by
  intro x hx
  rcases mem_insertByName.1 hx with rfl | hx
  · exact Or.inl hv
  · exact StoreLe.refl S x hx

/-! ### `foldOk` -/

theorem foldOk_inv {α β : Type} (P : β → Prop) (xs : List α) (init : β) (f : β → α → β × Bool)
    (h0 : P init) (hstep : ∀ s x, P s → P (f s x).1) : P (foldOk xs init f).1 := by
  unfold foldOk
  suffices ∀ acc : β × Bool, P acc.1 → P (xs.foldl (fun (acc : β × Bool) x => if acc.2 then f acc.1 x else acc) acc).1 from
    this (init, true) h0
  induction xs with
  | nil => intro acc h; exact h
  | cons x xs ih =>
    intro acc h
    rw [List.foldl_cons]
    apply ih
    split_ifs
    · exact hstep _ _ h
    · exact h

/-! ### the stages -/

theorem listRevsF_store (plan : List Fault) (s : RevSt) : (listRevsF plan s).1.store = s.store := by
  unfold listRevsF
  simp only
  split <;> try rfl
  split <;> rfl

/-- label-sync step of `adoptOrphanRevisionsF` -/
def labelStep (plan : List Fault) (s : RevSt) (r : Rev) : RevSt × Bool :=
  if r.marker then
    let (t, e) := s.tr.call plan s!"update:rev:{r.name}"
    match e with
    | some _ => ({ s with tr := t }, false)
    | none => ({ store := s.store.map (fun x => if x.name == r.name then { x with selMatch := true } else x), tr := t }, true)
  else (s, true)

/-- adoption step of `adoptOrphanRevisionsF` -/
def adoptStep (plan : List Fault) (s : RevSt) (r : Rev) : RevSt × Bool :=
  if r.owner != .none then (s, true)
  else
    let (t, e) := s.tr.call plan s!"patch:rev:{r.name}"
    match e with
    | some _ => ({ s with tr := t }, false)
    | none => ({ store := s.store.map (fun x => if x.name == r.name then { x with owner := .self } else x), tr := t }, true)

theorem adopt_eq (plan : List Fault) (d : Bool) (fresh : Fresh) (s : RevSt) :
    adoptOrphanRevisionsF plan d fresh s =
      if d then (s, .ok) else
      match listRevsF plan s with
      | (s, none) => (s, .err)
      | (s, some revs) =>
        if !(revs.any (·.owner == .none)) then (s, .ok) else
        let (s, ok) := foldOk revs s (labelStep plan)
        if !ok then (s, .err) else
        let (t, e) := s.tr.call plan "get:set"
        let s := { s with tr := t }
        if e.isSome || fresh.gone || !fresh.uidOk || fresh.deleting then (s, .err) else
        let (s, ok) := foldOk revs s (adoptStep plan)
        (s, if ok then .ok else .err) := by
  unfold adoptOrphanRevisionsF labelStep adoptStep
  rfl

theorem labelStep_storeLe (plan : List Fault) (s : RevSt) (r : Rev) : StoreLe s.store (labelStep plan s r).1.store := by
  unfold labelStep
  split_ifs
  · dsimp only
    split
    · exact StoreLe.refl _
    · apply StoreLe.map
      · intro x; split_ifs <;> rfl
      · intro x hx; split_ifs
        · unfold visB at hx ⊢; simp only [Bool.and_eq_true] at hx ⊢; exact ⟨hx.1, by simp⟩
        · exact hx
  · exact StoreLe.refl _

theorem adoptStep_storeLe (plan : List Fault) (s : RevSt) (r : Rev) : StoreLe s.store (adoptStep plan s r).1.store := by
  unfold adoptStep
  split_ifs
  · exact StoreLe.refl _
  · dsimp only
    split
    · exact StoreLe.refl _
    · apply StoreLe.map
      · intro x; split_ifs <;> rfl
      · intro x hx; split_ifs
        · unfold visB at hx ⊢; simp only [Bool.and_eq_true] at hx ⊢; exact ⟨by simp, hx.2⟩
        · exact hx

theorem foldOk_storeLe {α : Type} (xs : List α) (init : RevSt) (f : RevSt → α → RevSt × Bool)
    (hstep : ∀ s x, StoreLe s.store (f s x).1.store) : StoreLe init.store (foldOk xs init f).1.store :=
  foldOk_inv (fun st : RevSt => StoreLe init.store st.store) xs init f (StoreLe.refl _) (fun s x hs => hs.trans (hstep s x))

theorem adopt_storeLe (plan : List Fault) (d : Bool) (fresh : Fresh) (s : RevSt) :
    StoreLe s.store (adoptOrphanRevisionsF plan d fresh s).1.store := by
  rw [adopt_eq]
  split_ifs with hd
  · exact StoreLe.refl _
  · have hl := listRevsF_store plan s
    split
    · rename_i s1 heq
      rw [heq] at hl; simp only at hl; rw [← hl]; exact StoreLe.refl _
    · rename_i s1 revs heq
      rw [heq] at hl; simp only at hl
      rw [← hl]
      split_ifs with hno
      · exact StoreLe.refl _
      · have h1 := foldOk_storeLe revs s1 (labelStep plan) (labelStep_storeLe plan)
        generalize foldOk revs s1 (labelStep plan) = r1 at h1 ⊢
        obtain ⟨s2, ok2⟩ := r1
        dsimp only at h1 ⊢
        split_ifs
        all_goals first
          | exact h1
          | exact h1.trans (foldOk_storeLe revs _ (adoptStep plan) (adoptStep_storeLe plan))

theorem renumberF_storeLe (plan : List Fault) (name : String) (n : Int) (fuel : Nat) (s : RevSt) :
    StoreLe s.store (renumberF plan name n fuel s).1.store := by
  induction fuel generalizing s with
  | zero => exact StoreLe.refl _
  | succ fuel ih =>
    unfold renumberF
    dsimp only
    split
    · apply StoreLe.map
      · intro x; split_ifs <;> rfl
      · intro x hx; split_ifs
        · exact hx
        · exact hx
    · split_ifs
      · exact ih _
      · exact StoreLe.refl _

theorem createRevLoopF_spec (h : Hashing) (plan : List Fault) (fresh : Rev) (hv : visB fresh = true) (fuel : Nat) (cc : Int) (s : RevSt) :
    StoreLe s.store (createRevLoopF h plan fresh fuel cc s).1.store ∧
    ∀ r c, (createRevLoopF h plan fresh fuel cc s).2 = some (r, c) → cc ≤ c := by
  induction fuel generalizing cc s with
  | zero => exact ⟨StoreLe.refl _, by intro r c hc; simp [createRevLoopF] at hc⟩
  | succ fuel ih =>
    unfold createRevLoopF
    dsimp only
    split
    · refine ⟨StoreLe.insert _ (by unfold visB at hv ⊢; exact hv), ?_⟩
      intro r c hc
      simp only [Option.some.injEq, Prod.mk.injEq] at hc
      omega
    · split
      · split_ifs
        · refine ⟨StoreLe.refl _, ?_⟩
          intro r c hc
          simp only [Option.some.injEq, Prod.mk.injEq] at hc
          omega
        · obtain ⟨h1, h2⟩ := ih (cc + 1) { store := s.store, tr := ((s.tr.call plan s!"create:rev:{h.nameOf fresh.data cc}").1.call plan s!"get:rev:{h.nameOf fresh.data cc}").1 }
          refine ⟨h1, ?_⟩
          intro r c hc
          have := h2 r c hc
          omega
      · exact ⟨StoreLe.refl _, by intro r c hc; cases hc⟩
    · exact ⟨StoreLe.refl _, by intro r c hc; cases hc⟩

/-- the choice of the update revision inside `getRevisionsF` -/
def pickF (h : Hashing) (plan : List Fault) (template : String) (cc0 : Int) (revs : List Rev) (s : RevSt) :
    RevSt × Option (Rev × Int) :=
  let fresh : Rev := { name := h.nameOf template cc0, number := nextRevision revs, ctime := 0, data := template,
                       hashNum := h.hashNumOf template cc0, owner := .self, selMatch := true, marker := false }
  let eq := revs.filter (fun r => equalRev r fresh)
  match eq.getLast?, revs.getLast? with
  | some e, some l =>
    if equalRev l e then (s, some (l, cc0))
    else if e.number == fresh.number then (s, some (e, cc0))
    else
      let (s, ok) := renumberF plan e.name fresh.number 4 s
      (s, if ok then some ({ e with number := fresh.number }, cc0) else none)
  | _, _ => createRevLoopF h plan fresh (s.store.length + 8) cc0 s

theorem getRevisionsF_eq (h : Hashing) (plan : List Fault) (template cur : String) (cc0 : Int) (revs : List Rev) (s : RevSt) :
    getRevisionsF h plan template cur cc0 revs s =
      match pickF h plan template cc0 revs s with
      | (s, none) => (s, none)
      | (s, some (upd, cc)) => (s, some ((revs.find? (·.name == cur)).getD upd, upd, cc)) := by
  unfold getRevisionsF pickF
  rfl

theorem pickF_spec (h : Hashing) (plan : List Fault) (template : String) (cc0 : Int) (revs : List Rev) (s : RevSt) :
    StoreLe s.store (pickF h plan template cc0 revs s).1.store ∧
    ∀ r c, (pickF h plan template cc0 revs s).2 = some (r, c) → cc0 ≤ c := by
  unfold pickF
  dsimp only
  split
  · rename_i e l he hl
    have hrn := renumberF_storeLe plan e.name (nextRevision revs) 4 s
    split_ifs
    all_goals refine ⟨by first | exact StoreLe.refl _ | exact hrn, ?_⟩
    all_goals intro a c hc
    all_goals simp only [Option.some.injEq, Prod.mk.injEq, reduceCtorEq] at hc
    all_goals omega
  · exact createRevLoopF_spec h plan _ (by simp [visB]) _ cc0 s

theorem getRevisionsF_spec (h : Hashing) (plan : List Fault) (template cur : String) (cc0 : Int) (revs : List Rev) (s : RevSt) :
    StoreLe s.store (getRevisionsF h plan template cur cc0 revs s).1.store ∧
    ∀ a b c, (getRevisionsF h plan template cur cc0 revs s).2 = some (a, b, c) → cc0 ≤ c := by
  rw [getRevisionsF_eq]
  obtain ⟨h1, h2⟩ := pickF_spec h plan template cc0 revs s
  generalize pickF h plan template cc0 revs s = rr at h1 h2 ⊢
  obtain ⟨s', res⟩ := rr
  cases res with
  | none => exact ⟨h1, by intro a b c hc; cases hc⟩
  | some rc =>
    obtain ⟨r, c'⟩ := rc
    refine ⟨h1, ?_⟩
    intro a b c hc
    simp only [Option.some.injEq, Prod.mk.injEq] at hc
    have := h2 r c' rfl
    omega

/-- deletion step of `truncateF` -/
def truncStep (plan : List Fault) (s : RevSt) (r : Rev) : RevSt × Bool :=
  let (t, e) := s.tr.call plan s!"delete:rev:{r.name}"
  let s := { s with tr := t }
  if e.isSome || !(s.store.any (·.name == r.name)) then (s, false)
  else ({ s with store := s.store.filter (·.name != r.name) }, true)

theorem truncateF_eq (plan : List Fault) (limit : Option Int) (podRevs : List String) (revs : List Rev) (cur upd : Rev) (s : RevSt) :
    truncateF plan limit podRevs revs cur upd s =
      let live := cur.name :: upd.name :: podRevs
      let history := revs.filter (fun r => !live.contains r.name && r.owner == .self)
      match limit with
      | none => (s, .panic "nil *Spec.RevisionHistoryLimit (stateful_set_control.go)")
      | some lim =>
        if (history.length : Int) ≤ lim then (s, .ok)
        else
          let victims := history.take (history.length - lim.toNat)
          let (s, ok) := foldOk victims s (truncStep plan)
          (s, if ok then .ok else .err) := by
  unfold truncateF truncStep
  rfl

theorem truncateF_storeLe (plan : List Fault) (limit : Option Int) (podRevs : List String) (revs : List Rev) (cur upd : Rev) (s : RevSt) :
    StoreLe s.store (truncateF plan limit podRevs revs cur upd s).1.store := by
  rw [truncateF_eq]
  dsimp only
  split
  · exact StoreLe.refl _
  · split_ifs
    all_goals first
      | exact StoreLe.refl _
      | (apply foldOk_storeLe
         intro st r
         unfold truncStep
         dsimp only
         split_ifs
         · exact StoreLe.refl _
         · exact StoreLe.filter _)

end Asts.C02p
