import Asts.Proofs.C02_Transfer

/-! C02: `Final` is stable under `settle` and under a whole round; every later round is silent. -/
namespace Asts.C02p
open Asts Asts.L1c

/-! ### `String.splitOn` on the one literal that a silent sync logs -/

theorem splitOnAux_unfold (s sep : String) (b i j : String.Pos.Raw) (r : List String) :
  s.splitOnAux sep b i j r =
    if String.Pos.Raw.atEnd s i = true then
      (String.Pos.Raw.extract s b i :: r).reverse
    else
      if (String.Pos.Raw.get s i == String.Pos.Raw.get sep j) = true then
        if String.Pos.Raw.atEnd sep (String.Pos.Raw.next sep j) = true then
          s.splitOnAux sep (String.Pos.Raw.next s i) (String.Pos.Raw.next s i) 0
            (String.Pos.Raw.extract s b ((String.Pos.Raw.next s i).unoffsetBy (String.Pos.Raw.next sep j)) :: r)
        else s.splitOnAux sep b (String.Pos.Raw.next s i) (String.Pos.Raw.next sep j) r
      else s.splitOnAux sep b (String.Pos.Raw.next s (i.unoffsetBy j)) 0 r := by
  rw [String.splitOnAux.eq_1]

macro "split_step" : tactic => `(tactic| (
  rw [splitOnAux_unfold]
  first
  | rw [if_pos (by decide +kernel)]
  | (rw [if_neg (by decide +kernel)]
     first
     | (rw [if_neg (by decide +kernel)])
     | (rw [if_pos (by decide +kernel)]; first | rw [if_pos (by decide +kernel)] | rw [if_neg (by decide +kernel)]))))

theorem splitOn_list_revs : "list:revs".splitOn ":" = ["list", "revs"] := by
  unfold String.splitOn
  rw [if_neg (by decide)]
  iterate 10 split_step
  decide +kernel

theorem applyPatches_go_list_revs (plan : List Fault) (seen : List String) (log : List String) (pods : List CPod)
    (hlog : ∀ e ∈ log, e = "list:revs") : applyPatches.go plan seen log pods = pods := by
  induction log generalizing seen with
  | nil => rfl
  | cons e rest ih =>
    have he := hlog e List.mem_cons_self
    subst he
    unfold applyPatches.go
    simp only [splitOn_list_revs]
    exact ih _ (fun e he => hlog e (List.mem_cons_of_mem _ he))

/-! ### sorting and re-indexing -/

theorem insertPodByName_perm (c : CPod) (l : List CPod) : (insertPodByName c l).Perm (c :: l) := by
  induction l with
  | nil => simp [insertPodByName]
  | cons q qs ih =>
    unfold insertPodByName
    split_ifs
    · exact List.Perm.refl _
    · exact (List.Perm.cons q ih).trans (List.Perm.swap c q qs)

theorem foldl_insertPodByName_perm (l acc : List CPod) :
    (l.foldl (fun acc c => insertPodByName c acc) acc).Perm (l ++ acc) := by
  induction l generalizing acc with
  | nil => simp
  | cons q qs ih =>
    simp only [List.foldl_cons]
    refine (ih _).trans ?_
    refine (List.Perm.append_left qs (insertPodByName_perm q acc)).trans ?_
    simp

theorem sortPods_perm (l : List CPod) : (sortPods l).Perm l := by
  unfold sortPods
  refine (foldl_insertPodByName_perm _ []).trans ?_
  simp

def setId (c : CPod) (k : Nat) : CPod := { c with pod := { c.pod with id := k } }

theorem key_setId (c : CPod) (k : Nat) : key (setId c k) = key c := rfl

theorem reindexFrom_filter_key (p : CPod → Bool) (hp : ∀ c k, p (setId c k) = p c) (l : List CPod) (n : Nat) :
    (((l.zipIdx n).map fun (c, k) => setId c k).filter p).map key = (l.filter p).map key := by
  induction l generalizing n with
  | nil => rfl
  | cons a l ih =>
    rw [List.zipIdx_cons, List.map_cons, List.filter_cons, List.filter_cons]
    simp only [hp]
    split_ifs
    · rw [List.map_cons, List.map_cons, ih]; rfl
    · exact ih _

theorem reindex_filter_key (p : CPod → Bool) (hp : ∀ c k, p (setId c k) = p c) (l : List CPod) :
    ((reindex l).filter p).map key = (l.filter p).map key :=
  reindexFrom_filter_key p hp l 0

theorem reindex_key (l : List CPod) : (reindex l).map key = l.map key := by
  have := reindex_filter_key (fun _ => true) (fun _ _ => rfl) l
  simpa using this

theorem mem_reindex_sort {l : List CPod} {c : CPod} (hc : c ∈ reindex (sortPods l)) : ∃ c' ∈ l, key c' = key c := by
  have : key c ∈ (reindex (sortPods l)).map key := List.mem_map.2 ⟨c, hc, rfl⟩
  rw [reindex_key, List.mem_map] at this
  obtain ⟨c', hc', hk⟩ := this
  exact ⟨c', (sortPods_perm l).mem_iff.1 hc', hk⟩

theorem own_reindex_sort (l : List CPod) :
    (((reindex (sortPods l)).filter (fun c => c.owner == .self)).map key).Perm ((l.filter (fun c => c.owner == .self)).map key) := by
  rw [reindex_filter_key _ (fun _ _ => rfl)]
  exact ((sortPods_perm l).filter _).map _

/-! ### `settle` -/

def settleOne (c : CPod) : CPod :=
  if c.pod.failed || c.pod.succeeded then c else { c with pod := { c.pod with phase := .running, ready := true } }

theorem settle_pods (i : SyncIn) :
    (settle i).pods = reindex (sortPods ((i.pods.filter (fun c => !c.pod.terminating)).map settleOne)) := rfl

theorem settleOne_healthy {c : CPod} (h : c.pod.healthy = true) : settleOne c = c := by
  obtain ⟨hrr, -, -, hf, hs⟩ := healthy_facts h
  unfold settleOne
  simp only [hf, hs, Bool.or_self, Bool.false_eq_true, if_false]
  unfold Pod.runningAndReady at hrr
  simp only [Bool.and_eq_true, beq_iff_eq] at hrr
  obtain ⟨name, pod, owner, sel, mem⟩ := c
  obtain ⟨id, ord, phase, ready, term, rev, idOk, stOk⟩ := pod
  simp only at hrr
  simp [hrr.1, hrr.2]

theorem settleOne_owner (c : CPod) : (settleOne c).owner = c.owner := by unfold settleOne; split_ifs <;> rfl
theorem settleOne_sel (c : CPod) : (settleOne c).selMatch = c.selMatch := by unfold settleOne; split_ifs <;> rfl
theorem settleOne_member (c : CPod) : (settleOne c).member = c.member := by unfold settleOne; split_ifs <;> rfl

/-- `Final` survives `settle` -/
theorem final_settle (h : Hashing) (i : SyncIn) (hf : Final h i) : Final h (settle i) := by
  have hp := (podsFinal_iff i).1 hf.pods
  have key1 := final_transfer h i i.view.stCurrentReplicas { gone := false, uidOk := true, deleting := i.view.deleting }
    (settle i).pods ?_ ?_ hf
  · exact key1
  · rw [settle_pods]
    refine (own_reindex_sort _).trans ?_
    have : ((i.pods.filter (fun c => !c.pod.terminating)).map settleOne).filter (fun c => c.owner == .self) = ownPods i := by
      rw [List.filter_map]
      have hcomp : ((fun c : CPod => c.owner == .self) ∘ settleOne) = (fun c => c.owner == .self) := by
        funext c; simp [settleOne_owner]
      rw [hcomp, List.filter_filter]
      have hfe : (i.pods.filter (fun c => (c.owner == .self) && !c.pod.terminating)) = ownPods i := by
        unfold ownPods
        apply List.filter_congr
        intro c hc
        by_cases hs : c.owner = .self
        · have := (hp.own c hc hs).2.2.2.2.1
          simp [hs, (healthy_facts this).2.1]
        · have : (c.owner == Owner.self) = false := by simpa using hs
          simp [this]
      rw [hfe]
      conv_rhs => rw [← List.map_id (ownPods i)]
      apply List.map_congr_left
      intro c hc
      rw [mem_ownPods] at hc
      exact settleOne_healthy (hp.own c hc.1 hc.2).2.2.2.2.1
    rw [this]
  · intro c hc hnone
    rw [settle_pods] at hc
    obtain ⟨c1, hc1, hk⟩ := mem_reindex_sort hc
    rw [List.mem_map] at hc1
    obtain ⟨c0, hc0, rfl⟩ := hc1
    rw [List.mem_filter] at hc0
    have e0 : (settleOne c0).owner = c.owner := key_transfer (·.owner) (fun _ => rfl) hk
    have e1 : (settleOne c0).selMatch = c.selMatch := key_transfer (·.selMatch) (fun _ => rfl) hk
    have e2 : (settleOne c0).member = c.member := key_transfer (·.member) (fun _ => rfl) hk
    rw [settleOne_owner] at e0; rw [settleOne_sel] at e1; rw [settleOne_member] at e2
    refine ⟨c0, hc0.1, e0.trans hnone, e1, e2, fun ht => ?_⟩
    have := hc0.2
    simp [ht] at this

/-! ### a whole round -/

theorem applySync_final (h : Hashing) (j : SyncIn) (hf : Final h j) :
    applySync j [] (syncF h j []) =
      { j with view := { j.view with stCurrentReplicas := j.stored.current }, fresh := j.fresh,
               pods := reindex (sortPods j.pods) } := by
  rw [syncF_final h j hf]
  unfold applySync applyPatches
  simp only [List.take_zero, applyActs, Option.getD_none, Option.isSome_none, Bool.false_eq_true, if_false]
  rw [applyPatches_go_list_revs]
  intro e he
  simpa using he

theorem final_applySync (h : Hashing) (j : SyncIn) (hf : Final h j) : Final h (applySync j [] (syncF h j [])) := by
  rw [applySync_final h j hf]
  apply final_transfer h j _ _ _ _ _ hf
  · exact own_reindex_sort _
  · intro c hc hnone
    obtain ⟨c', hc', hk⟩ := mem_reindex_sort hc
    refine ⟨c', hc', ?_, key_transfer (·.selMatch) (fun _ => rfl) hk, key_transfer (·.member) (fun _ => rfl) hk, fun ht => ?_⟩
    · exact (key_transfer (·.owner) (fun _ => rfl) hk).trans hnone
    · rw [← ht]; exact (key_transfer (·.pod.terminating) (fun _ => rfl) hk).symm

theorem round_fst (h : Hashing) (i : SyncIn) (plan : List Fault) :
    (round h i plan).1 = applySync (settle i) plan (syncF h (settle i) plan) := rfl

/-- **stability**: a round from a `Final` world ends in a `Final` world -/
theorem final_round (h : Hashing) (i : SyncIn) (hf : Final h i) : Final h (round h i []).1 := by
  rw [round_fst]
  exact final_applySync h _ (final_settle h i hf)

end Asts.C02p
