import Asts.Proofs.C02_CKey
import Asts.Proofs.C02_BStep

/-! C02, worlds with non-members: one round, seen through the prepared members-only world, and the invariant. -/
namespace Asts.C02p
open Asts Asts.L1c

/-- the members of the world, owned (pod ids as they are in the whole list) -/
def Y (x : SyncIn) : SyncIn := ownS (mOf x)

theorem Y_pods (x : SyncIn) : (Y x).pods = ownM x.pods := rfl

/-- room in the model's id scheme: non-members, members outside the desired set, and a full desired set -/
def roomM (x : SyncIn) : Prop :=
  (x.pods.filter (fun c => !c.member)).length +
    ((x.pods.filter (·.member)).filter (fun c => !(desired (replicasOf x.view) x.view.slots).contains c.pod.ord)).length +
    (replicasOf x.view).toNat ≤ freshId

section
variable {h : Hashing} {j : SyncIn}

/-- the pods outside the desired set do not grow in number -/
theorem nextW_outside_le (hs : NSC h j) (hp : Pol hs.norm) :
    ((nextW h j).pods.filter (fun c => !(desired (replicasOf j.view) j.view.slots).contains c.pod.ord)).length ≤
      (j.pods.filter (fun c => !(desired (replicasOf j.view) j.view.slots).contains c.pod.ord)).length := by
  have hkp := nextW_pods hs hp
  rw [(hkp.filter (fun c => !(desired (replicasOf j.view) j.view.slots).contains c.pod.ord) (fun _ => rfl)).length]
  obtain ⟨A, hA, hsub⟩ := hp.sub
  exact le_trans (hsub.filter _).length_le (step_condemnedG hs.ctx hA _ (mem_desired_iff hs.norm)).1

end

theorem prepW_pods (h : Hashing) (x : SyncIn) : (prepW h (mOf x)).pods = ownM x.pods := rfl

theorem mem_ownM {l : List CPod} {c : CPod} : c ∈ ownM l ↔ ∃ c0 ∈ l, c0.member = true ∧ c = own c0 := by
  unfold ownM
  rw [List.mem_map]
  constructor
  · rintro ⟨c0, hc0, rfl⟩
    rw [List.mem_filter] at hc0
    exact ⟨c0, hc0.1, hc0.2, rfl⟩
  · rintro ⟨c0, hc0, hm, rfl⟩
    exact ⟨c0, List.mem_filter.2 ⟨hc0, hm⟩, rfl⟩

theorem canon_map_nodup (s : String) {l : List Int} (hl : l.Nodup) : (l.map (canonicalName s)).Nodup :=
  List.Nodup.map (fun a b hab => canon_inj s a b hab) hl

theorem ownM_filter_len (l : List CPod) (q : CPod → Bool) (hq : ∀ c, q (own c) = q c) :
    ((ownM l).filter q).length = ((l.filter (·.member)).filter q).length := by
  unfold ownM
  rw [List.filter_map, List.length_map]
  congr 2
  funext c
  exact hq c

theorem ownM_ords (l : List CPod) : (ownM l).map (·.pod.ord) = (l.filter (·.member)).map (·.pod.ord) := by
  unfold ownM; rw [List.map_map]; rfl

/-- the pod list after the claim stage's patches and the reconcile's calls -/
def XAof (x : SyncIn) (acts : List Action) : List CPod := applyActs x.setName x.pods (x.pods.map norm1) acts

/-- the fairness step on a raw pod list -/
def stage (X : List CPod) : List CPod := (X.filter (fun c => !c.pod.terminating)).map settleOne

theorem ownM_stage (X : List CPod) : ownM (stage X) = stage (ownM X) := ownM_settleStage X

section
variable {h : Hashing} {x : SyncIn} {G : List Rev} {upd : Rev} {cc : Int} {K : SyncIn → Prop}

/-- the raw form of one round in a world with non-members -/
structure StepRaw (h : Hashing) (x : SyncIn) (hn : NormC h (prepW h (mOf x))) : Prop where
  rest : ({ nextW h x with pods := [] } : SyncIn) = { nextW h (prepW h (mOf x)) with pods := [] }
  kA : KeyPerm (nextW h x).pods (stage (XAof x hn.recon.1.acts))
  kB : KeyPerm (ownM (stage (XAof x hn.recon.1.acts))) (nextW h (prepW h (mOf x))).pods

theorem stepRaw (hp : PreM x)
    (hpick : PickOut h x.template (x.collisionCount.getD 0) (adoptS x.store) G upd cc)
    (hcc : cc ≠ x.collisionCount.getD 0 → x.stored.updateRev ≠ upd.name)
    (hn : NormC h (prepW h (mOf x))) (hok : hn.recon.2 = .ok) : StepRaw h x hn := by
  obtain ⟨hrest, _, hA, hB⟩ := prep_simM hp hpick hcc hn hok
  have hNself : ∀ c ∈ (prepW h (mOf x)).pods, c.owner = .self := by
    intro c hc
    rw [prepW_pods, mem_ownM] at hc
    obtain ⟨c0, _, _, rfl⟩ := hc
    rfl
  have hXAB : ownM (XAof x hn.recon.1.acts) =
      applyActs x.setName (prepW h (mOf x)).pods (prepW h (mOf x)).pods hn.recon.1.acts := by
    unfold XAof
    rw [ownM_applyActs x.setName x.pods (prepW h (mOf x)).pods hNself, ownM_norm1, prepW_pods]
  refine ⟨?_, settle_keyPerm _ _ hA, ?_⟩
  · exact congrArg (fun b : SyncIn =>
      ({ b with fresh := { gone := false, uidOk := true, deleting := b.view.deleting } } : SyncIn)) hrest
  · rw [ownM_stage, hXAB]
    exact (settle_keyPerm _ _ hB).symm

theorem StepRaw.keyPerm {hn : NormC h (prepW h (mOf x))} (hr : StepRaw h x hn) :
    KeyPerm (Y (nextW h x)).pods (nextW h (prepW h (mOf x))).pods := by
  rw [Y_pods]
  exact (keyPerm_ownM hr.kA).trans hr.kB

/-- where a pod of the next world comes from -/
theorem StepRaw.src {hn : NormC h (prepW h (mOf x))} (hr : StepRaw h x hn) :
    ∀ c ∈ (nextW h x).pods, ∃ c1 ∈ XAof x hn.recon.1.acts, c1.owner = c.owner ∧ c1.member = c.member ∧
      c1.pod.idOk = c.pod.idOk ∧ c1.name = c.name := by
  intro c hc
  obtain ⟨z, hz, hkz⟩ := hr.kA.mem hc
  unfold stage at hz
  rw [List.mem_map] at hz
  obtain ⟨c1, hc1, rfl⟩ := hz
  refine ⟨c1, List.mem_of_mem_filter hc1, ?_, ?_, ?_, ?_⟩
  · rw [← settleOne_owner c1]; exact key_transfer (·.owner) (fun _ => rfl) hkz
  · rw [← settleOne_member c1]; exact key_transfer (·.member) (fun _ => rfl) hkz
  · rw [← settleOne_idOk c1]; exact key_transfer (·.pod.idOk) (fun _ => rfl) hkz
  · rw [← settleOne_name c1]; exact key_transfer (·.name) (fun _ => rfl) hkz

theorem XAof_members (hp : PreM x) (acts : List Action) :
    (XAof x acts).filter (·.member) = applyActs x.setName x.pods ((x.pods.map norm1).filter (·.member)) acts ∧
    ∀ c ∈ (x.pods.map norm1).filter (·.member), c.owner = .self := by
  refine ⟨by unfold XAof; rw [filterMem_applyActs], ?_⟩
  intro c hc
  rw [List.mem_filter, List.mem_map] at hc
  obtain ⟨⟨c0, hc0, rfl⟩, hm⟩ := hc
  rw [norm1_member] at hm
  rw [norm1_of_member hm (hp.mem c0 hc0 hm).1]

/-- members after the round: owned, or orphans whose identity is in order -/
theorem StepRaw.ownP (hp : PreM x) {hn : NormC h (prepW h (mOf x))} (hr : StepRaw h x hn) :
    ∀ c ∈ (nextW h x).pods, c.member = true → OwnP c := by
  intro c hc hm
  obtain ⟨c1, hc1, e1, e2, e3, _⟩ := hr.src c hc
  obtain ⟨hmem, hself⟩ := XAof_members hp hn.recon.1.acts
  have hc1m : c1 ∈ (XAof x hn.recon.1.acts).filter (·.member) := List.mem_filter.2 ⟨hc1, by rw [e2]; exact hm⟩
  rw [hmem] at hc1m
  have := applyActs_ownP _ _ _ _ (fun c hc => Or.inl (hself c hc)) c1 hc1m
  unfold OwnP at this ⊢
  rw [← e1, ← e3]; exact this

theorem StepRaw.noOrphan (hp : PreM x) {hn : NormC h (prepW h (mOf x))} (hr : StepRaw h x hn)
    (hupd : ∀ o, Action.update o ∈ hn.recon.1.acts → ∃ c ∈ (prepW h (mOf x)).pods, c.pod.ord = o ∧ c.pod.idOk = false)
    (hO : ∀ c ∈ x.pods, c.member = true → OwnP c) :
    ∀ c ∈ (nextW h x).pods, c.member = true → c.owner = .self := by
  intro c hc hm
  obtain ⟨c1, hc1, e1, e2, _, _⟩ := hr.src c hc
  obtain ⟨hmem, hself⟩ := XAof_members hp hn.recon.1.acts
  have hc1m : c1 ∈ (XAof x hn.recon.1.acts).filter (·.member) := List.mem_filter.2 ⟨hc1, by rw [e2]; exact hm⟩
  rw [hmem] at hc1m
  rw [← e1]
  apply applyActs_noOrphan _ _ _ _ hself _ c1 hc1m
  intro o ho
  obtain ⟨c', hc', hco, hid⟩ := hupd o ho
  rw [prepW_pods, mem_ownM] at hc'
  obtain ⟨c0, hc0, hm0, rfl⟩ := hc'
  have hco0 : c0.pod.ord = o := hco
  have hid0 : c0.pod.idOk = false := hid
  unfold wasOrphan
  have hname : canonicalName x.setName o = c0.name := by rw [(hp.mem c0 hc0 hm0).2.2.1, hco0]
  rw [hname, find_pod_name hp.podNames hc0]
  simp only [Option.any_some]
  rcases hO c0 hc0 hm0 with hself0 | ⟨_, hidok⟩
  · rw [hself0]; rfl
  · rw [hidok] at hid0; cases hid0

/-- non-members after the round are not the set's -/
theorem StepRaw.inert {hn : NormC h (prepW h (mOf x))} (hr : StepRaw h x hn) :
    ∀ c ∈ (nextW h x).pods, c.member = false → c.owner ≠ .self := by
  intro c hc hm
  obtain ⟨c1, hc1, e1, e2, _, _⟩ := hr.src c hc
  unfold XAof at hc1
  obtain ⟨c0, hc0, h1, _, h3⟩ := nonmem_applyActs _ _ _ _ c1 hc1 (by rw [e2]; exact hm)
  rw [List.mem_map] at hc0
  obtain ⟨c00, _, rfl⟩ := hc0
  rw [norm1_member] at h1
  rw [← e1]
  exact h3 (norm1_nonmember_owner h1)

/-- the names of the non-members after the round are names of non-members before, each at most once -/
theorem StepRaw.nmNames {hn : NormC h (prepW h (mOf x))} (hr : StepRaw h x hn) :
    ∃ L, (((nextW h x).pods.filter (fun c => !c.member)).map (·.name)).Perm L ∧
      L.Sublist ((x.pods.filter (fun c => !c.member)).map (·.name)) := by
  refine ⟨((stage (XAof x hn.recon.1.acts)).filter (fun c => !c.member)).map (·.name),
    keyPerm_names (hr.kA.filter (fun c => !c.member) (fun _ => rfl)), ?_⟩
  refine (names_settleStage_nonmem _).trans ?_
  have := nonmem_names_applyActs x.setName x.pods hn.recon.1.acts (x.pods.map norm1)
  rw [names_norm1_nonmem] at this
  exact this

end

end Asts.C02p
