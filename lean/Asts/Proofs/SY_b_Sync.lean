import Asts.Proofs.SY_b_Log
import Asts.Proofs.L1_c_Track

/-! `syncF` cut into stages (`syncHead`: adoption, claim, listing, resolution of the revisions; `syncTail`: reconcile, status
    write, truncation), and what each stage does to the revision store. -/
namespace Asts.SYb
open Asts

/-! ## what no phase of a sync changes on a stored revision -/

/-- name, number, creation time, data, hash label, marker -/
def core (r : Rev) : String × Int × Int × String × Option Int × Bool :=
  (r.name, r.number, r.ctime, r.data, r.hashNum, r.marker)

/-- `y` is `x` after adoption / label sync: same core, owner unchanged or now this set, selector match not lost -/
def AdoptRel (x y : Rev) : Prop :=
  core y = core x ∧ (y.owner = x.owner ∨ y.owner = .self) ∧ (x.selMatch = true → y.selMatch = true)

theorem AdoptRel.refl (x : Rev) : AdoptRel x x := ⟨rfl, Or.inl rfl, id⟩

theorem AdoptRel.trans {x y z : Rev} (h1 : AdoptRel x y) (h2 : AdoptRel y z) : AdoptRel x z := by
  refine ⟨h2.1.trans h1.1, ?_, fun h => h2.2.2 (h1.2.2 h)⟩
  rcases h2.2.1 with h | h
  · rcases h1.2.1 with g | g
    · exact Or.inl (h.trans g)
    · exact Or.inr (h.trans g)
  · exact Or.inr h

/-- the store `t` is the store `s` after adoption / label sync, position by position -/
def AdoptedFrom (s t : List Rev) : Prop := ∃ f : Rev → Rev, (∀ x, AdoptRel x (f x)) ∧ t = s.map f

theorem AdoptedFrom.refl (s : List Rev) : AdoptedFrom s s := ⟨id, AdoptRel.refl, by simp⟩

theorem AdoptedFrom.step {s t : List Rev} (h : AdoptedFrom s t) {g : Rev → Rev} (hg : ∀ x, AdoptRel x (g x)) :
    AdoptedFrom s (t.map g) := by
  obtain ⟨f, hf, rfl⟩ := h
  exact ⟨g ∘ f, fun x => (hf x).trans (hg (f x)), by simp⟩

theorem AdoptedFrom.map_core {s t : List Rev} (h : AdoptedFrom s t) : t.map core = s.map core := by
  obtain ⟨f, hf, rfl⟩ := h
  rw [List.map_map]
  exact List.map_congr_left (fun x _ => (hf x).1)

theorem AdoptedFrom.names {s t : List Rev} (h : AdoptedFrom s t) : t.map (·.name) = s.map (·.name) := by
  have := congrArg (List.map Prod.fst) h.map_core
  simpa [List.map_map, Function.comp_def, core] using this

theorem AdoptedFrom.mem {s t : List Rev} (h : AdoptedFrom s t) {y : Rev} (hy : y ∈ t) : ∃ x ∈ s, AdoptRel x y := by
  obtain ⟨f, hf, rfl⟩ := h
  obtain ⟨x, hx, rfl⟩ := List.mem_map.mp hy
  exact ⟨x, hx, hf x⟩

theorem AdoptedFrom.mem' {s t : List Rev} (h : AdoptedFrom s t) {x : Rev} (hx : x ∈ s) : ∃ y ∈ t, AdoptRel x y := by
  obtain ⟨f, hf, rfl⟩ := h
  exact ⟨f x, List.mem_map_of_mem hx, hf x⟩

theorem core_name {x y : Rev} (h : core y = core x) : y.name = x.name := congrArg Prod.fst h
theorem core_data {x y : Rev} (h : core y = core x) : y.data = x.data := congrArg (fun p => p.2.2.2.1) h
theorem core_number {x y : Rev} (h : core y = core x) : y.number = x.number := congrArg (fun p => p.2.1) h

/-! ## `foldOk`, `listRevsF`, `adoptOrphanRevisionsF` -/

theorem foldOk_inv {α β} (P : β → Prop) (xs : List α) (init : β) (f : β → α → β × Bool)
    (hstep : ∀ b x, P b → P (f b x).1) (h0 : P init) : P (foldOk xs init f).1 := by
  induction xs generalizing init with
  | nil => exact h0
  | cons x xs ih =>
    rw [foldOk_cons]
    split
    · exact ih _ (hstep _ _ h0)
    · exact hstep _ _ h0

theorem listRevsF_store (plan : List Fault) (s : RevSt) : (listRevsF plan s).1.store = s.store := by
  unfold listRevsF
  simp only
  split
  · rfl
  · split <;> rfl

theorem listRevsF_some {plan : List Fault} {s : RevSt} {l : List Rev} (h : (listRevsF plan s).2 = some l) :
    l = listRevisions s.store := by
  unfold listRevsF at h
  simp only at h
  split at h
  · simp at h
  · split at h
    · simp at h
    · simpa using h.symm

def setSel (name : String) (x : Rev) : Rev := if x.name == name then { x with selMatch := true } else x
def setOwn (name : String) (x : Rev) : Rev := if x.name == name then { x with owner := .self } else x

theorem setSel_rel (name : String) (x : Rev) : AdoptRel x (setSel name x) := by
  unfold setSel; split
  · exact ⟨rfl, Or.inl rfl, fun _ => rfl⟩
  · exact AdoptRel.refl x

theorem setOwn_rel (name : String) (x : Rev) : AdoptRel x (setOwn name x) := by
  unfold setOwn; split
  · exact ⟨rfl, Or.inr rfl, id⟩
  · exact AdoptRel.refl x

/-- label sync of one marker-carrying revision -/
def labelStep (plan : List Fault) (s : RevSt) (r : Rev) : RevSt × Bool :=
  if r.marker then
    match (s.tr.call plan s!"update:rev:{r.name}").2 with
    | some _ => ({ s with tr := (s.tr.call plan s!"update:rev:{r.name}").1 }, false)
    | none => ({ store := s.store.map (setSel r.name), tr := (s.tr.call plan s!"update:rev:{r.name}").1 }, true)
  else (s, true)

/-- adoption of one orphan -/
def ownStep (plan : List Fault) (s : RevSt) (r : Rev) : RevSt × Bool :=
  if r.owner != .none then (s, true)
  else
    match (s.tr.call plan s!"patch:rev:{r.name}").2 with
    | some _ => ({ s with tr := (s.tr.call plan s!"patch:rev:{r.name}").1 }, false)
    | none => ({ store := s.store.map (setOwn r.name), tr := (s.tr.call plan s!"patch:rev:{r.name}").1 }, true)

theorem adopt_eq (plan : List Fault) (del : Bool) (fresh : Fresh) (s : RevSt) :
    adoptOrphanRevisionsF plan del fresh s =
      if del then (s, .ok) else
      match (listRevsF plan s).2 with
      | none => ((listRevsF plan s).1, .err)
      | some revs =>
        if !(revs.any (·.owner == .none)) then ((listRevsF plan s).1, .ok) else
        let r1 := foldOk revs (listRevsF plan s).1 (labelStep plan)
        if !r1.2 then (r1.1, .err) else
        let s2 : RevSt := { r1.1 with tr := (r1.1.tr.call plan "get:set").1 }
        if (r1.1.tr.call plan "get:set").2.isSome || fresh.gone || !fresh.uidOk || fresh.deleting then (s2, .err) else
        let r3 := foldOk revs s2 (ownStep plan)
        (r3.1, if r3.2 then .ok else .err) := by
  unfold adoptOrphanRevisionsF
  by_cases hd : del = true
  · rw [if_pos hd, if_pos hd]
  · rw [if_neg hd, if_neg hd]
    generalize listRevsF plan s = l
    obtain ⟨s1, o⟩ := l
    cases o with
    | none => rfl
    | some revs =>
      simp only
      by_cases ha : (!(revs.any (·.owner == .none))) = true
      · rw [if_pos ha, if_pos ha]
      · rw [if_neg ha, if_neg ha]
        rfl

theorem labelStep_adopted (plan : List Fault) (s0 : List Rev) (b : RevSt) (r : Rev) (hb : AdoptedFrom s0 b.store) :
    AdoptedFrom s0 (labelStep plan b r).1.store := by
  unfold labelStep
  split
  · split
    · exact hb
    · exact hb.step (setSel_rel r.name)
  · exact hb

theorem ownStep_adopted (plan : List Fault) (s0 : List Rev) (b : RevSt) (r : Rev) (hb : AdoptedFrom s0 b.store) :
    AdoptedFrom s0 (ownStep plan b r).1.store := by
  unfold ownStep
  split
  · exact hb
  · split
    · exact hb
    · exact hb.step (setOwn_rel r.name)

/-- adoption and label sync change nothing but owner and labels -/
theorem adopt_adopted (plan : List Fault) (del : Bool) (fresh : Fresh) (s : RevSt) :
    AdoptedFrom s.store (adoptOrphanRevisionsF plan del fresh s).1.store := by
  rw [adopt_eq]
  have h0 : AdoptedFrom s.store (listRevsF plan s).1.store := by rw [listRevsF_store]; exact AdoptedFrom.refl _
  split
  · exact AdoptedFrom.refl _
  · split
    · exact h0
    · rename_i revs _
      have h1 : AdoptedFrom s.store (foldOk revs (listRevsF plan s).1 (labelStep plan)).1.store :=
        foldOk_inv (fun b => AdoptedFrom s.store b.store) revs _ _ (fun b x hb => labelStep_adopted plan _ b x hb) h0
      split
      · exact h0
      · simp only
        split
        · exact h1
        · split
          · exact h1
          · apply foldOk_inv (fun b : RevSt => AdoptedFrom s.store b.store)
            · exact fun b x hb => ownStep_adopted plan _ b x hb
            · exact h1

theorem labelStep_ext (plan : List Fault) (b : RevSt) (r : Rev) : Ext AdoptShape b.tr.log (labelStep plan b r).1.tr.log := by
  have hk : AdoptShape s!"update:rev:{r.name}" := Or.inr (Or.inr ⟨r.name, Or.inl rfl⟩)
  unfold labelStep
  split
  · split
    · exact Ext.call _ plan hk
    · exact Ext.call _ plan hk
  · exact Ext.refl _ _

theorem ownStep_ext (plan : List Fault) (b : RevSt) (r : Rev) : Ext AdoptShape b.tr.log (ownStep plan b r).1.tr.log := by
  have hk : AdoptShape s!"patch:rev:{r.name}" := Or.inr (Or.inr ⟨r.name, Or.inr rfl⟩)
  unfold ownStep
  split
  · exact Ext.refl _ _
  · split
    · exact Ext.call _ plan hk
    · exact Ext.call _ plan hk

/-- the adoption stage logs List, Update (label sync), one uncached Get of the set, and adoption Patches only -/
theorem adopt_log (plan : List Fault) (del : Bool) (fresh : Fresh) (s : RevSt) :
    Ext AdoptShape s.tr.log (adoptOrphanRevisionsF plan del fresh s).1.tr.log := by
  rw [adopt_eq]
  have h0 : Ext AdoptShape s.tr.log (listRevsF plan s).1.tr.log :=
    (listRevsF_log plan s).mono (fun e he => Or.inl he)
  split
  · exact Ext.refl _ _
  · split
    · exact h0
    · rename_i revs _
      have h1 : Ext AdoptShape s.tr.log (foldOk revs (listRevsF plan s).1 (labelStep plan)).1.tr.log :=
        foldOk_inv (fun b => Ext AdoptShape s.tr.log b.tr.log) revs _ _ (fun b x hb => hb.trans (labelStep_ext plan b x)) h0
      have h2 : Ext AdoptShape s.tr.log
          ((foldOk revs (listRevsF plan s).1 (labelStep plan)).1.tr.call plan "get:set").1.log :=
        h1.trans (Ext.call _ plan (Or.inr (Or.inl rfl)))
      split
      · exact h0
      · simp only
        split
        · exact h1
        · split
          · exact h2
          · apply foldOk_inv (fun b : RevSt => Ext AdoptShape s.tr.log b.tr.log)
            · exact fun b x hb => hb.trans (ownStep_ext plan b x)
            · exact h2

/-- entries logged before the revisions are resolved -/
def HeadShape (e : String) : Prop := AdoptShape e ∨ ClaimShape e

theorem HeadShape.not_del {e : String} (h : HeadShape e) : pre "delete:rev:" e = false := by
  rcases h with h | h
  · exact h.not_del
  · exact h.not_del
theorem HeadShape.not_create {e : String} (h : HeadShape e) : pre "create:rev:" e = false := by
  rcases h with h | h
  · exact h.not_create
  · exact h.not_create

/-! ## the stages of `syncF` -/

/-- everything `syncF` does after the revisions have been resolved -/
def syncTail (i : SyncIn) (plan : List Fault) (claimed : List CPod) (revs : List Rev) (cur upd : Rev) (cc : Int)
    (s : RevSt) : SyncOut :=
  let (b, E) := maxReplicaAndSlots (i.view.replicas.getD 0) i.view.slots
  let pf := podFaults i.setName plan i.pods claimed b E
  let (st, out) := updateStatefulSet i.view cur.name upd.name (claimed.map (·.pod)) pf
  let s := { s with tr := { log := s.tr.log ++ (st.acts.map (actLog i.setName plan i.pods claimed b E)).flatten } }
  let base : SyncOut := { cur := cur.name, upd := upd.name, claimed := claimed, acts := st.acts,
                          actsDone := if out == .err then st.acts.length - 1 else st.acts.length }
  match out with
  | .ok =>
    let status := completeRollingUpdate i.view st.status
    if inconsistentStatus i.stored status then
      let (t, ok) := statusWriteF plan i.fresh.gone 5 s.tr
      let s := { s with tr := t }
      if !ok then { base with log := s.tr.log, store := s.store, outcome := .err } else
      let (s, out) := truncateF plan i.historyLimit (claimed.map (·.pod.rev)) revs cur upd s
      { base with log := s.tr.log, store := s.store, status := some status, cc := some cc, outcome := out }
    else
      let (s, out) := truncateF plan i.historyLimit (claimed.map (·.pod.rev)) revs cur upd s
      { base with log := s.tr.log, store := s.store, outcome := out }
  | o => { base with log := s.tr.log, store := s.store, outcome := o }

/-- the stages up to and including the resolution of the revisions: an early exit, or the data the tail needs -/
def syncHead (h : Hashing) (i : SyncIn) (plan : List Fault) : SyncOut ⊕ (List CPod × List Rev × Rev × Rev × Int × RevSt) :=
  match adoptOrphanRevisionsF plan i.view.deleting i.fresh { store := i.store } with
  | (s, .ok) =>
    let c := claimPodsF plan i.view.deleting i.fresh i.pods s.tr
    let s := { s with tr := c.tr }
    if c.failed then .inl { log := s.tr.log, store := s.store, outcome := .err } else
    match listRevsF plan s with
    | (s, none) => .inl { log := s.tr.log, store := s.store, claimed := c.claimed, outcome := .err }
    | (s, some listed) =>
    let revs := sortRevs listed
    match getRevisionsF h plan i.template i.stored.currentRev (i.collisionCount.getD 0) revs s with
    | (s, none) => .inl { log := s.tr.log, store := s.store, claimed := c.claimed, outcome := .err }
    | (s, some (cur, upd, cc)) => .inr (c.claimed, revs, cur, upd, cc, s)
  | (s, out) => .inl { log := s.tr.log, store := s.store, outcome := out }

theorem syncF_eq (h : Hashing) (i : SyncIn) (plan : List Fault) :
    syncF h i plan =
      if i.paused || !i.selectorOk then { store := i.store } else
      match syncHead h i plan with
      | .inl o => o
      | .inr (claimed, revs, cur, upd, cc, s) => syncTail i plan claimed revs cur upd cc s := by
  unfold syncF syncHead
  by_cases hp : (i.paused || !i.selectorOk) = true
  · rw [if_pos hp, if_pos hp]
  · rw [if_neg hp, if_neg hp]
    generalize adoptOrphanRevisionsF plan i.view.deleting i.fresh { store := i.store } = a
    obtain ⟨s, out⟩ := a
    cases out with
    | err => rfl
    | panic m => rfl
    | ok =>
      simp only
      by_cases hf : (claimPodsF plan i.view.deleting i.fresh i.pods s.tr).failed = true
      · rw [if_pos hf, if_pos hf]
      · rw [if_neg hf, if_neg hf]
        generalize listRevsF plan { store := s.store, tr := (claimPodsF plan i.view.deleting i.fresh i.pods s.tr).tr } = l
        obtain ⟨s1, o⟩ := l
        cases o with
        | none => rfl
        | some listed =>
          simp only
          generalize getRevisionsF h plan i.template i.stored.currentRev (i.collisionCount.getD 0) (sortRevs listed) s1 = g
          obtain ⟨s2, o2⟩ := g
          cases o2 with
          | none => rfl
          | some t => obtain ⟨cur, upd, cc⟩ := t; rfl

/-- an early exit is not a success and writes no status; it stops with the store as adoption left it and only
    head-stage entries in the log, or right after a failed resolution of the revisions -/
theorem syncHead_inl {h : Hashing} {i : SyncIn} {plan : List Fault} {o : SyncOut} (hh : syncHead h i plan = .inl o) :
    o.outcome ≠ .ok ∧ o.status = none ∧
    ((AdoptedFrom i.store o.store ∧ Ext HeadShape [] o.log) ∨
      ∃ sL : RevSt, sL.store = (adoptOrphanRevisionsF plan i.view.deleting i.fresh { store := i.store }).1.store ∧
        Ext HeadShape [] sL.tr.log ∧
        o.store = (pickF h plan i.template (i.collisionCount.getD 0) (sortRevs (listRevisions sL.store)) sL).1.store ∧
        o.log = (pickF h plan i.template (i.collisionCount.getD 0) (sortRevs (listRevisions sL.store)) sL).1.tr.log) := by
  unfold syncHead at hh
  have hA := adopt_adopted plan i.view.deleting i.fresh { store := i.store }
  have hAl : Ext HeadShape [] (adoptOrphanRevisionsF plan i.view.deleting i.fresh { store := i.store }).1.tr.log :=
    (adopt_log plan i.view.deleting i.fresh { store := i.store }).mono (fun e he => Or.inl he)
  generalize adoptOrphanRevisionsF plan i.view.deleting i.fresh { store := i.store } = a at hh hA hAl ⊢
  obtain ⟨s, out⟩ := a
  simp only at hA hAl
  cases out with
  | err => simp only [Sum.inl.injEq] at hh; subst hh; exact ⟨by simp, rfl, Or.inl ⟨hA, hAl⟩⟩
  | panic m => simp only [Sum.inl.injEq] at hh; subst hh; exact ⟨by simp, rfl, Or.inl ⟨hA, hAl⟩⟩
  | ok =>
    simp only at hh
    have hCl : Ext HeadShape [] (claimPodsF plan i.view.deleting i.fresh i.pods s.tr).tr.log :=
      hAl.trans ((claim_log plan i.view.deleting i.fresh i.pods s.tr).mono (fun e he => Or.inr he))
    by_cases hf : (claimPodsF plan i.view.deleting i.fresh i.pods s.tr).failed = true
    · rw [if_pos hf] at hh
      simp only [Sum.inl.injEq] at hh; subst hh; exact ⟨by simp, rfl, Or.inl ⟨hA, hCl⟩⟩
    · rw [if_neg hf] at hh
      have hst := listRevsF_store plan { store := s.store, tr := (claimPodsF plan i.view.deleting i.fresh i.pods s.tr).tr }
      have hsome := @listRevsF_some plan { store := s.store, tr := (claimPodsF plan i.view.deleting i.fresh i.pods s.tr).tr }
      have hLl : Ext HeadShape []
          (listRevsF plan { store := s.store, tr := (claimPodsF plan i.view.deleting i.fresh i.pods s.tr).tr }).1.tr.log :=
        hCl.trans ((listRevsF_log plan _).mono (fun e he => Or.inl (Or.inl he)))
      generalize listRevsF plan { store := s.store, tr := (claimPodsF plan i.view.deleting i.fresh i.pods s.tr).tr } = l at hh hst hsome hLl ⊢
      obtain ⟨s1, o1⟩ := l
      simp only at hst hLl
      cases o1 with
      | none =>
        simp only [Sum.inl.injEq] at hh; subst hh
        exact ⟨by simp, rfl, Or.inl ⟨by simp only; rw [hst]; exact hA, hLl⟩⟩
      | some listed =>
        have hl : listed = listRevisions s.store := hsome rfl
        subst hl
        simp only at hh
        rw [getRevisionsF_eq] at hh
        cases hp : (pickF h plan i.template (i.collisionCount.getD 0) (sortRevs (listRevisions s.store)) s1).2 with
        | none =>
          rw [hp] at hh
          simp only [Option.map_none, Sum.inl.injEq] at hh; subst hh
          exact ⟨by simp, rfl, Or.inr ⟨s1, hst, hLl, by rw [hst], by rw [hst]⟩⟩
        | some t =>
          rw [hp] at hh
          simp at hh

/-- reaching the tail: the chain of stages that produced its arguments -/
theorem syncHead_inr {h : Hashing} {i : SyncIn} {plan : List Fault} {claimed : List CPod} {revs : List Rev}
    {cur upd : Rev} {cc : Int} {s : RevSt} (hh : syncHead h i plan = .inr (claimed, revs, cur, upd, cc, s)) :
    ∃ A sL : RevSt,
      adoptOrphanRevisionsF plan i.view.deleting i.fresh { store := i.store } = (A, .ok) ∧
      AdoptedFrom i.store A.store ∧
      claimed = (claimPodsF plan i.view.deleting i.fresh i.pods A.tr).claimed ∧
      (claimPodsF plan i.view.deleting i.fresh i.pods A.tr).failed = false ∧
      sL = (listRevsF plan { store := A.store, tr := (claimPodsF plan i.view.deleting i.fresh i.pods A.tr).tr }).1 ∧
      sL.store = A.store ∧ Ext HeadShape [] sL.tr.log ∧
      revs = sortRevs (listRevisions A.store) ∧
      pickF h plan i.template (i.collisionCount.getD 0) revs sL = (s, some (upd, cc)) ∧
      cur = (revs.find? (·.name == i.stored.currentRev)).getD upd := by
  unfold syncHead at hh
  have hA := adopt_adopted plan i.view.deleting i.fresh { store := i.store }
  have hAl : Ext HeadShape [] (adoptOrphanRevisionsF plan i.view.deleting i.fresh { store := i.store }).1.tr.log :=
    (adopt_log plan i.view.deleting i.fresh { store := i.store }).mono (fun e he => Or.inl he)
  generalize adoptOrphanRevisionsF plan i.view.deleting i.fresh { store := i.store } = a at hh hA hAl ⊢
  obtain ⟨A, out⟩ := a
  simp only at hA hAl
  cases out with
  | err => simp at hh
  | panic m => simp at hh
  | ok =>
    simp only at hh
    have hCl : Ext HeadShape [] (claimPodsF plan i.view.deleting i.fresh i.pods A.tr).tr.log :=
      hAl.trans ((claim_log plan i.view.deleting i.fresh i.pods A.tr).mono (fun e he => Or.inr he))
    by_cases hf : (claimPodsF plan i.view.deleting i.fresh i.pods A.tr).failed = true
    · rw [if_pos hf] at hh; simp at hh
    · rw [if_neg hf] at hh
      have hst := listRevsF_store plan { store := A.store, tr := (claimPodsF plan i.view.deleting i.fresh i.pods A.tr).tr }
      have hsome := @listRevsF_some plan { store := A.store, tr := (claimPodsF plan i.view.deleting i.fresh i.pods A.tr).tr }
      have hLl : Ext HeadShape []
          (listRevsF plan { store := A.store, tr := (claimPodsF plan i.view.deleting i.fresh i.pods A.tr).tr }).1.tr.log :=
        hCl.trans ((listRevsF_log plan _).mono (fun e he => Or.inl (Or.inl he)))
      generalize hl : listRevsF plan { store := A.store, tr := (claimPodsF plan i.view.deleting i.fresh i.pods A.tr).tr } = l at hh hst hsome hLl
      obtain ⟨s1, o1⟩ := l
      cases o1 with
      | none => simp at hh
      | some listed =>
        have hl' : listed = listRevisions A.store := hsome rfl
        subst hl'
        simp only at hh
        rw [getRevisionsF_eq] at hh
        cases hp : (pickF h plan i.template (i.collisionCount.getD 0) (sortRevs (listRevisions A.store)) s1).2 with
        | none => rw [hp] at hh; simp at hh
        | some t =>
          rw [hp] at hh
          obtain ⟨u, c⟩ := t
          simp only [Option.map_some, Sum.inr.injEq, Prod.mk.injEq] at hh
          obtain ⟨h1, h2, h3, h4, h5, h6⟩ := hh
          subst h1 h2 h4 h5 h6
          exact ⟨A, s1, rfl, hA, rfl, by simpa using hf, by rw [hl], hst, hLl, rfl, by rw [← hp], h3.symm⟩

theorem completeRollingUpdate_updateRev (v : SetView) (st : Status) : (completeRollingUpdate v st).updateRev = st.updateRev := by
  unfold completeRollingUpdate; split <;> rfl

theorem statusWriteF_log (plan : List Fault) (gone : Bool) (fuel : Nat) (t : Tr) :
    ∃ mid, (statusWriteF plan gone fuel t).1.log = t.log ++ mid := by
  induction fuel generalizing t with
  | zero => exact ⟨[], by simp [statusWriteF]⟩
  | succ fuel ih =>
    unfold statusWriteF
    simp only
    split
    · exact ⟨["updatestatus"], rfl⟩
    · split
      · exact ⟨["updatestatus"], rfl⟩
      · obtain ⟨mid, hm⟩ := ih (t.call plan "updatestatus").1
        exact ⟨"updatestatus" :: mid, by rw [hm]; simp⟩
    · exact ⟨["updatestatus"], rfl⟩

/-- the tail: either it stops before truncation with a failure and leaves the store alone, or its log, store and outcome
    are those of `truncateF` run on the same store; in the latter case the update revision the status (written or
    cached) names is `upd` -/
theorem syncTail_spec (i : SyncIn) (plan : List Fault) (claimed : List CPod) (revs : List Rev) (cur upd : Rev) (cc : Int)
    (s : RevSt) :
    (syncTail i plan claimed revs cur upd cc s).cur = cur.name ∧
    (syncTail i plan claimed revs cur upd cc s).upd = upd.name ∧
    (syncTail i plan claimed revs cur upd cc s).claimed = claimed ∧
    (((syncTail i plan claimed revs cur upd cc s).outcome ≠ .ok ∧
      (syncTail i plan claimed revs cur upd cc s).store = s.store ∧
      (syncTail i plan claimed revs cur upd cc s).status = none ∧
      Ext TailShape s.tr.log (syncTail i plan claimed revs cur upd cc s).log) ∨
     (∃ sT : RevSt, sT.store = s.store ∧ Ext TailShape s.tr.log sT.tr.log ∧
        (syncTail i plan claimed revs cur upd cc s).log =
          (truncateF plan i.historyLimit (claimed.map (·.pod.rev)) revs cur upd sT).1.tr.log ∧
        (syncTail i plan claimed revs cur upd cc s).store =
          (truncateF plan i.historyLimit (claimed.map (·.pod.rev)) revs cur upd sT).1.store ∧
        (syncTail i plan claimed revs cur upd cc s).outcome =
          (truncateF plan i.historyLimit (claimed.map (·.pod.rev)) revs cur upd sT).2 ∧
        (match (syncTail i plan claimed revs cur upd cc s).status with
          | some st => st.updateRev | none => i.stored.updateRev) = upd.name)) := by
  unfold syncTail
  generalize maxReplicaAndSlots (i.view.replicas.getD 0) i.view.slots = be
  obtain ⟨b, E⟩ := be
  simp only
  generalize hu : updateStatefulSet i.view cur.name upd.name (claimed.map (·.pod)) (podFaults i.setName plan i.pods claimed b E) = u
  obtain ⟨st, out⟩ := u
  cases out with
  | err => exact ⟨rfl, rfl, rfl, Or.inl ⟨by simp, rfl, rfl, acts_ext _ _ _ _ _ _ _ _⟩⟩
  | panic m => exact ⟨rfl, rfl, rfl, Or.inl ⟨by simp, rfl, rfl, acts_ext _ _ _ _ _ _ _ _⟩⟩
  | ok =>
    have hpost := (L1c.updateStatefulSet_post _ _ _ _ _ st hu).2.2.1
    have hupd : (completeRollingUpdate i.view st.status).updateRev = upd.name := by
      rw [completeRollingUpdate_updateRev, hpost]; rfl
    simp only
    by_cases hinc : inconsistentStatus i.stored (completeRollingUpdate i.view st.status) = true
    · rw [if_pos hinc]
      have hmid := (acts_ext i.setName plan i.pods claimed b E st.acts s.tr.log).trans (statusWriteF_ext plan i.fresh.gone 5
        { log := s.tr.log ++ (st.acts.map (actLog i.setName plan i.pods claimed b E)).flatten })
      generalize statusWriteF plan i.fresh.gone 5
        { log := s.tr.log ++ (st.acts.map (actLog i.setName plan i.pods claimed b E)).flatten } = w at hmid ⊢
      obtain ⟨t, ok⟩ := w
      cases ok with
      | false => exact ⟨rfl, rfl, rfl, Or.inl ⟨by simp, rfl, rfl, hmid⟩⟩
      | true =>
        refine ⟨rfl, rfl, rfl, Or.inr ⟨{ store := s.store, tr := t }, rfl, hmid, rfl, rfl, rfl, hupd⟩⟩
    · rw [if_neg hinc]
      refine ⟨rfl, rfl, rfl, Or.inr ⟨{ store := s.store, tr := { log := s.tr.log ++ (st.acts.map (actLog i.setName plan i.pods claimed b E)).flatten } },
        rfl, acts_ext _ _ _ _ _ _ _ _, rfl, rfl, rfl, ?_⟩⟩
      simp only
      have : inconsistentStatus i.stored (completeRollingUpdate i.view st.status) = false := by simpa using hinc
      unfold inconsistentStatus at this
      simp only [Bool.or_eq_false_iff, bne_eq_false_iff_eq] at this
      rw [← this.2, hupd]

end Asts.SYb
