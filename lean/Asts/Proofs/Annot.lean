import Asts.Model.Annot
import Asts.Spec.Annot
import Asts.Proofs.Ordinals
import Asts.Proofs.JsonInts
import Mathlib.Tactic

namespace Asts.Annot
open Asts List

/-! ### association lists -/

theorem lookup_erase_self (k : String) (l : Entries) : lookup k (erase k l) = none := by
  induction l with
  | nil => simp [erase, lookup]
  | cons e es ih =>
    obtain ⟨k', v⟩ := e
    by_cases h : k' = k
    · simpa [erase, List.filter_cons, h] using ih
    · simp only [erase, List.filter_cons, ne_eq, h, not_false_eq_true, decide_true, ite_true, lookup, if_false]
      simpa [erase] using ih

theorem lookup_erase_ne {k k' : String} (h : k' ≠ k) (l : Entries) : lookup k' (erase k l) = lookup k' l := by
  induction l with
  | nil => simp [erase, lookup]
  | cons e es ih =>
    obtain ⟨k₀, v⟩ := e
    by_cases h0 : k₀ = k
    · have : k₀ ≠ k' := by rw [h0]; exact fun e => h e.symm
      simp only [erase, List.filter_cons, ne_eq, h0, not_true_eq_false, decide_false, lookup]
      rw [h0] at this
      simp only [this, if_false]
      simpa [erase] using ih
    · simp only [erase, List.filter_cons, ne_eq, h0, not_false_eq_true, decide_true, ite_true, lookup]
      by_cases h1 : k₀ = k'
      · simp [h1]
      · simp only [h1, if_false]; simpa [erase] using ih

theorem lookup_insert_self (k : String) (v : List Char) (l : Entries) : lookup k (insert k v l) = some v := by
  simp [insert, lookup]

theorem lookup_insert_ne {k k' : String} (h : k' ≠ k) (v : List Char) (l : Entries) :
    lookup k' (insert k v l) = lookup k' l := by
  have : k ≠ k' := fun e => h e.symm
  simp only [insert, lookup, this, if_false]
  exact lookup_erase_ne h l

theorem others_erase (k : String) (l : Entries) : Spec.others k (erase k l) = Spec.others k l := by
  simp [Spec.others, erase, List.filter_filter]

theorem others_insert (k : String) (v : List Char) (l : Entries) : Spec.others k (insert k v l) = Spec.others k l := by
  simp [Spec.others, insert, erase, List.filter_filter]

theorem hasKey_erase (k : String) (l : Entries) : Spec.hasKey k (erase k l) = false := by
  simp [Spec.hasKey, erase]

/-! ### dedupSort -/

theorem insertSorted_lt_all {x : Int} {l : List Int} (h : ∀ y ∈ l, x < y) : insertSorted x l = x :: l := by
  cases l with
  | nil => rfl
  | cons a as => simp [insertSorted, h a (by simp)]

theorem dedupSort_of_sorted {l : List Int} (h : l.Pairwise (· < ·)) : dedupSort l = l := by
  induction l with
  | nil => rfl
  | cons a as ih =>
    rw [List.pairwise_cons] at h
    have : dedupSort (a :: as) = insertSorted a (dedupSort as) := by simp [dedupSort]
    rw [this, ih h.2, insertSorted_lt_all h.1]

theorem dedupSort_idem (l : List Int) : dedupSort (dedupSort l) = dedupSort l :=
  dedupSort_of_sorted (sorted_dedupSort l)

theorem dedupSort_eq_nil {l : List Int} : dedupSort l = [] ↔ l = [] := by
  constructor
  · intro h
    cases l with
    | nil => rfl
    | cons a as =>
      have : a ∈ dedupSort (a :: as) := mem_dedupSort.2 (by simp)
      rw [h] at this; simp at this
  · rintro rfl; rfl

theorem sameSet_iff {a b : List Int} : Spec.sameSet a b = true ↔ ∀ x, x ∈ a ↔ x ∈ b := by
  simp only [Spec.sameSet, Bool.and_eq_true, List.all_eq_true, List.contains_iff_mem]
  constructor
  · rintro ⟨h1, h2⟩ x; exact ⟨h1 x, h2 x⟩
  · intro h; exact ⟨fun x hx => (h x).1 hx, fun x hx => (h x).2 hx⟩

theorem sameSet_dedupSort (l : List Int) : Spec.sameSet (dedupSort l) l = true :=
  sameSet_iff.2 fun _ => mem_dedupSort

/-! ### the codec inside the helpers -/

open JsonInts in
theorem parseElem_int32 {cs rest : List Char} {v : Int} (h : parseElem cs = some (v, rest)) : inInt32 v = true := by
  unfold parseElem at h
  split at h
  · simp only [Option.some.injEq, Prod.mk.injEq] at h; rw [← h.1]; decide
  · unfold intLit at h
    dsimp only at h
    split at h
    · simp at h
    · split_ifs at h <;>
        (simp only [Option.some.injEq, Prod.mk.injEq] at h; rw [← h.1]; assumption)

open JsonInts in
theorem parseRest_int32 : ∀ (fuel : Nat) (cs : List Char) (l : List Int), parseRest fuel cs = some l → ∀ x ∈ l, inInt32 x = true
  | 0, _, _, h => by simp [parseRest] at h
  | fuel + 1, cs, l, h => by
    unfold parseRest at h
    split at h
    · split_ifs at h; simp only [Option.some.injEq] at h; subst h; simp
    · split at h
      · rename_i v rest' he
        cases hr : parseRest fuel rest' with
        | none => simp [hr] at h
        | some tl =>
          simp only [hr, Option.map_some, Option.some.injEq] at h
          subst h
          intro x hx
          rcases List.mem_cons.1 hx with rfl | hx
          · exact parseElem_int32 he
          · exact parseRest_int32 fuel rest' tl hr x hx
      · simp at h
    · simp at h

open JsonInts in
theorem parse_int32 {cs : List Char} {l : List Int} (h : parse cs = some l) : ∀ x ∈ l, inInt32 x = true := by
  unfold parse at h
  split at h
  · split_ifs at h; simp only [Option.some.injEq] at h; subst h; simp
  · split at h
    · split_ifs at h; simp only [Option.some.injEq] at h; subst h; simp
    · split at h
      · rename_i v rest' he
        cases hr : parseRest (rest'.length + 1) rest' with
        | none => simp [hr] at h
        | some tl =>
          simp only [hr, Option.map_some, Option.some.injEq] at h
          subst h
          intro x hx
          rcases List.mem_cons.1 hx with rfl | hx
          · exact parseElem_int32 he
          · exact parseRest_int32 _ rest' tl hr x hx
      · simp at h
  · simp at h

theorem slotsOfValue_int32 (v : Option (List Char)) : ∀ x ∈ slotsOfValue v, JsonInts.inInt32 x = true := by
  unfold slotsOfValue
  split
  · simp
  · split
    · rename_i xs hp
      intro x hx; exact parse_int32 hp x (mem_dedupSort.1 hx)
    · simp

theorem getSlots_int32 (m : Ann) : ∀ x ∈ getSlots m, JsonInts.inInt32 x = true := slotsOfValue_int32 _

theorem slotsOfValue_render {s : List Int} (hs : ∀ x ∈ s, JsonInts.inInt32 x = true) :
    slotsOfValue (some (JsonInts.render (dedupSort s))) = dedupSort s := by
  have : JsonInts.parse (JsonInts.render (dedupSort s)) = some (dedupSort s) :=
    JsonInts.parse_render _ (fun x hx => hs x (mem_dedupSort.1 hx))
  simp [slotsOfValue, this, dedupSort_idem]

/-! ### the helper laws -/

/-- `GetDeleteSlots ∘ SetDeleteSlots` is the identity on sets of int32 (as sorted duplicate-free lists) -/
theorem getSlots_setSlots (m : Ann) (s : List Int) (hs : ∀ x ∈ s, JsonInts.inInt32 x = true) :
    getSlots (setSlots m (some s)) = dedupSort s := by
  unfold setSlots
  simp only [Option.getD_some]
  split_ifs with h
  · rw [h]
    cases m with
    | none => rfl
    | some l => simp [getSlots, lookupA, lookup_erase_self, slotsOfValue]
  · simp only [getSlots, lookupA, lookup_insert_self]
    exact slotsOfValue_render hs

/-- a nil set behaves as the empty set -/
theorem getSlots_setSlots_nil (m : Ann) : getSlots (setSlots m none) = [] := by
  have := getSlots_setSlots m [] (by simp)
  have hd : dedupSort ([] : List Int) = [] := rfl
  rw [hd] at this
  simpa [setSlots] using this

/-- writing an empty or nil set removes the annotation (and a nil map stays nil) -/
theorem setSlots_empty_erases (m : Ann) (s : Option (List Int)) (hs : s.getD [] = []) :
    lookupA slotsKey (setSlots m s) = none ∧ ((setSlots m s).isNone = m.isNone) := by
  unfold setSlots
  rw [hs]
  cases m with
  | none => simp [dedupSort, lookupA]
  | some l => simp [dedupSort, lookupA, lookup_erase_self]

/-- `AddDeleteSlots` yields the union -/
theorem getSlots_addSlots (m : Ann) (s : Option (List Int)) (hs : ∀ x ∈ s.getD [], JsonInts.inInt32 x = true) :
    getSlots (addSlots m s) = dedupSort (getSlots m ++ s.getD []) := by
  unfold addSlots
  apply getSlots_setSlots
  intro x hx
  rcases List.mem_append.1 hx with hx | hx
  · exact getSlots_int32 m x hx
  · exact hs x hx

/-- no other annotation is disturbed by `SetDeleteSlots` -/
theorem setSlots_others (m : Ann) (s : Option (List Int)) {k : String} (hk : k ≠ slotsKey) :
    lookupA k (setSlots m s) = lookupA k m := by
  unfold setSlots
  simp only
  split_ifs with h
  · cases m with
    | none => rfl
    | some l => simp [lookupA, lookup_erase_ne hk]
  · cases m with
    | none => simp [lookupA, lookup_insert_ne hk, lookup]
    | some l => simp [lookupA, lookup_insert_ne hk]

theorem addSlots_others (m : Ann) (s : Option (List Int)) {k : String} (hk : k ≠ slotsKey) :
    lookupA k (addSlots m s) = lookupA k m := setSlots_others m _ hk

theorem setPaused_others (m : Ann) (b : Bool) {k : String} (hk : k ≠ pausedKey) :
    lookupA k (setPaused m b) = lookupA k m := by
  unfold setPaused
  cases b <;> cases m <;> simp [lookupA, lookup_insert_ne hk, lookup_erase_ne hk, lookup]

theorem getPaused_setPaused (m : Ann) (b : Bool) : getPaused (setPaused m b) = b := by
  unfold getPaused setPaused
  cases b <;> simp [lookupA, lookup_insert_self, lookup_erase_self]

theorem getSlots_setPaused (m : Ann) (b : Bool) : getSlots (setPaused m b) = getSlots m := by
  unfold getSlots; rw [setPaused_others m b (by decide)]

theorem getPaused_setSlots (m : Ann) (s : Option (List Int)) : getPaused (setSlots m s) = getPaused m := by
  unfold getPaused; rw [setSlots_others m s (by decide)]

theorem getPaused_addSlots (m : Ann) (s : Option (List Int)) : getPaused (addSlots m s) = getPaused m :=
  getPaused_setSlots m _

/-! ### the monitor is true on the model -/

theorem setSlots_entries_others (m : Ann) (s : Option (List Int)) :
    Spec.others slotsKey ((setSlots m s).getD []) = Spec.others slotsKey (m.getD []) := by
  unfold setSlots
  simp only
  split_ifs with h
  · cases m with
    | none => rfl
    | some l => simp [others_erase]
  · simp [others_insert]

theorem setPaused_entries_others (m : Ann) (b : Bool) :
    Spec.others pausedKey ((setPaused m b).getD []) = Spec.others pausedKey (m.getD []) := by
  unfold setPaused
  cases b <;> simp [others_insert, others_erase]

theorem getSlots_setSlots' (m : Ann) (s : Option (List Int)) (hs : ∀ x ∈ s.getD [], JsonInts.inInt32 x = true) :
    getSlots (setSlots m s) = dedupSort (s.getD []) := by
  cases s with
  | none => simpa [dedupSort] using getSlots_setSlots_nil m
  | some l => exact getSlots_setSlots m l hs

theorem hasKey_setSlots_empty (m : Ann) (s : Option (List Int)) (hs : s.getD [] = []) :
    Spec.hasKey slotsKey ((setSlots m s).getD []) = false := by
  unfold setSlots
  rw [hs]
  cases m with
  | none => simp [dedupSort, Spec.hasKey]
  | some l => simp [dedupSort, hasKey_erase]

/-- every clause of the monitor holds on one step of the model, for every map and every call with int32 slots -/
theorem stepOk_model (m : Ann) (op : Op) (h : Spec.opInt32 op = true) :
    Spec.stepOk (view m) op (ret m op) (view (apply m op)) = true := by
  cases op with
  | set s =>
    have hs : ∀ x ∈ s.getD [], JsonInts.inInt32 x = true := by
      simpa [Spec.opInt32, Spec.argOf, List.all_eq_true] using h
    have h1 := getSlots_setSlots' m s hs
    have h2 := setSlots_entries_others m s
    have h3 : (s.getD []).isEmpty = true → Spec.hasKey slotsKey ((setSlots m s).getD []) = false := by
      intro he; exact hasKey_setSlots_empty m s (List.isEmpty_iff.1 he)
    simp only [Spec.stepOk, Spec.clauses, List.all_cons, List.all_nil, Bool.and_true, Bool.and_eq_true,
      Spec.setReadBack, Spec.setEmptyRemoves, Spec.addIsUnion, Spec.pauseReadBack, Spec.othersUntouched, Spec.retOk,
      view, apply, ret, Spec.argOf, h1, h2, sameSet_dedupSort, beq_self_eq_true, true_and]
    cases he : (s.getD []).isEmpty
    · simp
    · simp [h3 he]
  | add s =>
    have hs : ∀ x ∈ s.getD [], JsonInts.inInt32 x = true := by
      simpa [Spec.opInt32, Spec.argOf, List.all_eq_true] using h
    have h1 := getSlots_addSlots m s hs
    have h2 : Spec.others slotsKey ((addSlots m s).getD []) = Spec.others slotsKey (m.getD []) :=
      setSlots_entries_others m _
    simp [Spec.stepOk, Spec.clauses, Spec.setReadBack, Spec.setEmptyRemoves, Spec.addIsUnion, Spec.pauseReadBack,
      Spec.othersUntouched, Spec.retOk, view, apply, ret, Spec.argOf, h1, h2, sameSet_dedupSort]
  | get =>
    simp [Spec.stepOk, Spec.clauses, Spec.setReadBack, Spec.setEmptyRemoves, Spec.addIsUnion, Spec.pauseReadBack,
      Spec.othersUntouched, Spec.retOk, view, apply, ret]
  | pause b =>
    have h1 := getPaused_setPaused m b
    have h2 := setPaused_entries_others m b
    simp [Spec.stepOk, Spec.clauses, Spec.setReadBack, Spec.setEmptyRemoves, Spec.addIsUnion, Spec.pauseReadBack,
      Spec.othersUntouched, Spec.retOk, view, apply, ret, h1, h2]
  | isPaused =>
    simp [Spec.stepOk, Spec.clauses, Spec.setReadBack, Spec.setEmptyRemoves, Spec.addIsUnion, Spec.pauseReadBack,
      Spec.othersUntouched, Spec.retOk, view, apply, ret]

/-- the monitor is true on every run of the model -/
theorem runOk_model (m : Ann) (ops : List Op) (h : ∀ op ∈ ops, Spec.opInt32 op = true) :
    Spec.runOk (view m) ops (run m ops) = true := by
  induction ops generalizing m with
  | nil => rfl
  | cons op ops ih =>
    simp only [run, Spec.runOk, Bool.and_eq_true]
    exact ⟨stepOk_model m op (h op (by simp)), ih _ (fun o ho => h o (by simp [ho]))⟩

end Asts.Annot
