import Asts.Proofs.C02_BConverge

/-! C02, general convergence: the number of rounds is within the monitor's bound; `preNB` from `wfWorld` and `extraB`. -/
namespace Asts.C02p
open Asts Asts.L1c

theorem muPods_le_gen (x : SyncIn) (hnt : ∀ c ∈ x.pods, c.pod.terminating = false) :
    muPods x ≤ 4 * (replicasOf x.view).toNat + 2 * x.pods.length := by
  have hD : (desired (replicasOf x.view) x.view.slots).length = (replicasOf x.view).toNat := (desired_isDesired _ _).len
  have hw : ∀ o, wOf x.view (updName x) x.pods o ≤ 4 := by
    intro o
    unfold wOf
    cases hf : x.pods.find? (·.pod.ord == o) with
    | none => simp
    | some c => exact wPod_le_four (hnt c (List.mem_of_find?_eq_some hf))
  have hsum : ((desired (replicasOf x.view) x.view.slots).map (wOf x.view (updName x) x.pods)).sum
      ≤ 4 * (replicasOf x.view).toNat := by
    have := List.sum_le_card_nsmul ((desired (replicasOf x.view) x.view.slots).map (wOf x.view (updName x) x.pods)) 4
      (by intro y hy; rw [List.mem_map] at hy; obtain ⟨o, _, rfl⟩ := hy; exact hw o)
    rw [List.length_map, hD] at this
    simpa [Nat.mul_comm] using this
  have hfilt : (x.pods.filter (fun c => !(desired (replicasOf x.view) x.view.slots).contains c.pod.ord)).length ≤ x.pods.length :=
    List.length_filter_le _ _
  rw [muPods_eq]
  unfold muOf
  omega

theorem muL_le_gen (x : SyncIn) : muL x ≤ 4 * (replicasOf x.view).toNat + 3 * x.pods.length := by
  have hlen : (desired (replicasOf x.view) x.view.slots).length = (replicasOf x.view).toNat := (desired_isDesired _ _).len
  have hnd : (desired (replicasOf x.view) x.view.slots).Nodup := (desired_isDesired _ _).sorted.nodup
  unfold muL muLOf
  generalize desired (replicasOf x.view) x.view.slots = D at hlen hnd
  have hsum : (D.map (wLOf x.view (curNameOf x) (updName x) x.pods D)).sum ≤
      (D.map (fun o => 4 + (x.pods.filter (fun c => c.pod.ord == o)).length)).sum :=
    sum_map_le _ _ D (fun o _ => wLOf_le_count _ _ _ _ _ o)
  have hadd : ∀ D' : List Int, (D'.map (fun o => 4 + (x.pods.filter (fun c => c.pod.ord == o)).length)).sum =
      4 * D'.length + (D'.map (fun o => (x.pods.filter (fun c => c.pod.ord == o)).length)).sum := by
    intro D'
    induction D' with
    | nil => simp
    | cons a D' ih => simp only [List.map_cons, List.sum_cons, ih, List.length_cons]; omega
  rw [hadd] at hsum
  have h1 := sum_count_le D hnd x.pods
  have h2 : (x.pods.filter (fun c => !D.contains c.pod.ord)).length ≤ x.pods.length := List.length_filter_le _ _
  omega

/-- **the bound of `converge_general` is within what the monitor `C02converges` allows** -/
theorem general_le_roundBound (h : Hashing) (i : SyncIn) :
    (if legacyB i.view then muL (prepW h (settle i)) else muPods (prepW h (settle i))) + 3 ≤ roundBound i := by
  have hlen : (prepW h (settle i)).pods.length ≤ i.pods.length := by
    show ((settle i).pods.map own).length ≤ _
    rw [List.length_map]; exact settle_length_le i
  have hrep : replicasOf (prepW h (settle i)).view = replicasOf i.view := rfl
  have hnt : ∀ c ∈ (prepW h (settle i)).pods, c.pod.terminating = false := by
    intro c hc
    have hc' : c ∈ (settle i).pods.map own := hc
    rw [List.mem_map] at hc'
    obtain ⟨c0, hc0, rfl⟩ := hc'
    exact (settle_settled i c0 hc0).1
  have h1 := muPods_le_gen (prepW h (settle i)) hnt
  have h2 := muL_le_gen (prepW h (settle i))
  rw [hrep] at h1 h2
  unfold roundBound
  split_ifs <;> omega

/-- `preNB` is `wfWorld` plus `extraB` -/
theorem preNB_of_wf {h : Hashing} {i : SyncIn} (hw : wfWorld h i = true) (hx : extraB h i = true) : preNB h i = true := by
  obtain ⟨hspec, _, hpods⟩ := (wfWorld_iff h i).1 hw
  unfold wfSpec at hspec
  simp only [Bool.and_eq_true, Bool.not_eq_true', Bool.or_eq_true, beq_iff_eq, decide_eq_true_eq, List.all_eq_true] at hspec
  obtain ⟨⟨⟨⟨⟨⟨⟨⟨⟨⟨s1, s2⟩, s3⟩, _⟩, _⟩, _⟩, s7⟩, s8⟩, s9⟩, _⟩, s11⟩ := hspec
  unfold extraB at hx
  simp only [Bool.and_eq_true, List.all_eq_true, decide_eq_true_eq] at hx
  obtain ⟨⟨⟨⟨⟨⟨⟨⟨⟨x1, x2⟩, x3⟩, x4⟩, x5⟩, x7⟩, x8⟩, x9⟩, x10⟩, x11⟩ := hx
  have hpod : ∀ c ∈ i.pods, c.name = canonicalName i.setName c.pod.ord ∧ 0 ≤ c.pod.ord ∧ c.selMatch = true ∧
      c.owner ≠ .other ∧ c.pod.created = true ∧
      (i.view.parallel = true ∨ ((c.pod.failed || c.pod.succeeded) = true →
        (desired (replicasOf i.view) i.view.slots).contains c.pod.ord = true)) := by
    intro c hc
    have hwf := hpods c hc
    have hm := (x2 c hc).1
    unfold wfPod at hwf
    rw [if_pos hm] at hwf
    simp only [Bool.and_eq_true, beq_iff_eq, decide_eq_true_eq, bne_iff_ne, ne_eq, Bool.or_eq_true, Bool.not_eq_true',
      Bool.and_eq_false_imp, Bool.not_eq_false'] at hwf
    obtain ⟨⟨⟨⟨⟨w1, w2⟩, w3⟩, w4⟩, w5⟩, w6⟩ := hwf
    refine ⟨w1, w2, w3, w4, w5, ?_⟩
    rcases w6 with w6 | w6
    · exact Or.inl w6
    · exact Or.inr (fun hfs => w6 (by simpa using hfs))
  unfold preNB preCB
  simp only [Bool.and_eq_true, Bool.or_eq_true, List.all_eq_true, decide_eq_true_eq, beq_iff_eq, bne_iff_ne, ne_eq]
  refine ⟨⟨⟨⟨⟨⟨⟨⟨⟨⟨⟨?_, ?_⟩, x3⟩, x4⟩, x5⟩, x7⟩, x8⟩, x9⟩, x10⟩, ?_⟩, x11⟩, ?_⟩
  · unfold specOk
    simp only [Bool.and_eq_true, Bool.not_eq_true', Bool.or_eq_true, beq_iff_eq, decide_eq_true_eq]
    exact ⟨⟨⟨⟨⟨⟨s1, s2⟩, s3⟩, x1⟩, s7⟩, s8⟩, s11⟩
  · intro c hc
    obtain ⟨p1, p2, p3, p4, p5, _⟩ := hpod c hc
    exact ⟨⟨⟨⟨⟨⟨p4, (x2 c hc).1⟩, p3⟩, p1⟩, p2⟩, (x2 c hc).2⟩, p5⟩
  · unfold partB legacyB
    rcases s8 with hr | ho
    · cases hru : i.view.ru with
      | none => right; simp [hr]
      | some q =>
        cases q with
        | none => rw [hru] at s9; simp at s9
        | some p => left; rw [hru] at s9; simp only [Bool.or_eq_true, beq_iff_eq]; right; simpa using s9
    · left; simp [ho]
  · by_cases hp : i.view.parallel = true
    · exact Or.inl hp
    · right
      unfold noFsOutB
      rw [List.all_eq_true]
      intro c hc
      rcases (hpod c hc).2.2.2.2.2 with h1 | h1
      · exact absurd h1 hp
      · cases hfs : (c.pod.failed || c.pod.succeeded)
        · rfl
        · have := h1 hfs
          simp only [List.contains_iff_mem] at this
          simp [this]

end Asts.C02p
