import Asts.Proofs.L1_c_Bounds

/-! C12 (generation, completion, census at a fixed point): what the loops leave untouched, and how the counters move
    with the actions that were issued. -/
namespace Asts.L1c

structure Trk (upd : String) (pods : List Pod) (st0 : Status) (s : St) (R W : List (Int × Pod)) (C : List Pod) : Prop where
  gen : s.status.observedGen = st0.observedGen
  crev : s.status.currentRev = st0.currentRev
  urev : s.status.updateRev = st0.updateRev
  rdy : s.status.ready = st0.ready
  unch : s.acts = [] → s.status = st0
  repl : s.status.replicas = st0.replicas + nCreate s.acts - nReplace s.acts
  pair : nReplace s.acts ≤ nCreate s.acts
  rdyp : cnt Pod.fs (R.map (·.2)) + nCreate s.acts ≤ s.status.replicas - s.status.ready
  upd0 : s.status.updated ≤ st0.updated + nCreate s.acts
  updS : (∀ p ∈ pods, p.rev = upd) →
          s.status.updated + (nDelete s.acts - nReplace s.acts) ≤ st0.updated + nCreate s.acts
  csub : ∀ c ∈ C, c ∈ pods
  rmem : ∀ ip ∈ R, ip.2 ∈ pods ∨ ip.2.created = false
  wmem : ∀ ip ∈ W, ip.2 ∈ pods ∨ 0 < nCreate s.acts

/-- the facts about the initial status that the argument uses -/
structure Init (upd : String) (pods : List Pod) (st0 : Status) : Prop where
  r : st0.replicas = pods.length
  y : st0.ready = cnt Pod.runningAndReady pods
  u : st0.updated = cnt (countedAt upd) pods

/-- the core of the completion clause -/
def Core (upd : String) (pods : List Pod) (s : St) : Prop :=
  s.status.updated = s.status.replicas → s.status.ready = s.status.replicas →
    (∀ p ∈ pods, countedAt upd p = true ∧ p.runningAndReady = true) ∧ nCreate s.acts = 0 ∧ nDelete s.acts = 0

def Post (upd : String) (pods : List Pod) (st0 : Status) (s : St) : Prop :=
  s.status.observedGen = st0.observedGen ∧ s.status.currentRev = st0.currentRev ∧ s.status.updateRev = st0.updateRev ∧
  (s.acts = [] → s.status = st0) ∧ Core upd pods s

theorem countedAt_rev {x : String} {p : Pod} (h : countedAt x p = true) : p.rev = x := by
  simp only [countedAt, Bool.and_eq_true, beq_iff_eq] at h; exact h.2

theorem Trk.core {upd pods st0 s R W C} (hi : Init upd pods st0) (h : Trk upd pods st0 s R W C) : Core upd pods s := by
  intro hu hy
  have h1 := h.rdyp; have h2 := h.pair; have h3 := h.repl; have h4 := h.upd0; have h5 := h.rdy
  have := cnt_nonneg Pod.fs (R.map (·.2))
  have := nCreate_nonneg s.acts
  have := nReplace_nonneg s.acts
  have := nDelete_nonneg s.acts
  have hr := hi.r; have hy0 := hi.y; have hu0 := hi.u
  have hc0 : nCreate s.acts = 0 := by omega
  have hrp0 : nReplace s.acts = 0 := by omega
  have hle1 := cnt_le_length Pod.runningAndReady pods
  have hle2 := cnt_le_length (countedAt upd) pods
  have hall1 : ∀ p ∈ pods, Pod.runningAndReady p = true := cnt_eq_length_iff.1 (by omega)
  have hall2 : ∀ p ∈ pods, countedAt upd p = true := cnt_eq_length_iff.1 (by omega)
  have hH : ∀ p ∈ pods, p.rev = upd := fun p hp => countedAt_rev (hall2 p hp)
  have h6 := h.updS hH
  exact ⟨fun p hp => ⟨hall2 p hp, hall1 p hp⟩, hc0, by omega⟩

theorem Trk.post {upd pods st0 s R W C} (hi : Init upd pods st0) (h : Trk upd pods st0 s R W C) : Post upd pods st0 s :=
  ⟨h.gen, h.crev, h.urev, h.unch, h.core hi⟩

/-! field lemmas for the two step states -/

theorem stepReplace_frame (v : SetView) (cur upd : String) (s : St) (i : Int) (q : Pod) :
    (stepReplace v cur upd s i q).status.observedGen = s.status.observedGen ∧
    (stepReplace v cur upd s i q).status.currentRev = s.status.currentRev ∧
    (stepReplace v cur upd s i q).status.updateRev = s.status.updateRev := by
  unfold stepReplace
  simp only [bump_observedGen, bump_currentRev, bump_updateRev]
  split_ifs <;> simp

theorem stepCreate_frame (cur upd : String) (s : St) (i : Int) (q : Pod) :
    (stepCreate cur upd s i q).status.observedGen = s.status.observedGen ∧
    (stepCreate cur upd s i q).status.currentRev = s.status.currentRev ∧
    (stepCreate cur upd s i q).status.updateRev = s.status.updateRev := by
  unfold stepCreate
  simp

theorem updated_eq_ctr (st : Status) : st.updated = ctr false st := rfl

theorem trk_hA (v : SetView) (cur upd : String) (pods : List Pod) (st0 : Status) (s : St) (i : Int) (q : Pod)
    (R W : List (Int × Pod)) (C : List Pod)
    (h : Trk upd pods st0 s ((i, q) :: R) W C) (hfs : q.fs = true) :
    Trk upd pods st0 (stepReplace v cur upd s i q) R (W ++ [(i, newPod v cur upd i)]) C := by
  obtain ⟨f1, f2, f3⟩ := stepReplace_frame v cur upd s i q
  have hacts : (stepReplace v cur upd s i q).acts
      = s.acts ++ [.delete i q.id .replaceFailed] ++ [.create i (newPod v cur upd i).rev] := rfl
  have hC : nCreate (stepReplace v cur upd s i q).acts = nCreate s.acts + 1 := by
    rw [hacts, nCreate_append, nCreate_append]; simp
  have hR : nReplace (stepReplace v cur upd s i q).acts = nReplace s.acts + 1 := by
    rw [hacts, nReplace_append, nReplace_append]; simp
  have hD : nDelete (stepReplace v cur upd s i q).acts = nDelete s.acts + 1 := by
    rw [hacts, nDelete_append, nDelete_append]; simp
  have hU : (stepReplace v cur upd s i q).status.updated ≤ s.status.updated + 1 := by
    rw [updated_eq_ctr, ctr_stepReplace, ← updated_eq_ctr]
    have := ind_nonneg (liveAt (revK false cur upd) q)
    have := ind_le_one ((newPod v cur upd i).rev == revK false cur upd)
    omega
  have h1 := h.rdyp
  simp only [List.map_cons, cnt_cons_ind, hfs, ind_true] at h1
  have := nCreate_nonneg s.acts
  refine ⟨by rw [f1]; exact h.gen, by rw [f2]; exact h.crev, by rw [f3]; exact h.urev,
    by rw [ready_stepReplace]; exact h.rdy, ?_, ?_, ?_, ?_, ?_, ?_, h.csub, ?_, ?_⟩
  · intro he; rw [hacts] at he; simp at he
  · rw [replicas_stepReplace, hC, hR, h.repl]; omega
  · rw [hC, hR]; have := h.pair; omega
  · rw [replicas_stepReplace, ready_stepReplace, hC]; omega
  · rw [hC]; have := h.upd0; omega
  · intro hH; rw [hC, hR, hD]; have := h.updS hH; omega
  · intro ip hip; exact h.rmem ip (List.mem_cons_of_mem _ hip)
  · intro ip _; right; rw [hC]; omega

theorem trk_hB (cur upd : String) (pods : List Pod) (st0 : Status) (s : St) (i : Int) (q : Pod)
    (R W : List (Int × Pod)) (C : List Pod)
    (h : Trk upd pods st0 s ((i, q) :: R) W C) (hfs : q.fs = false) :
    Trk upd pods st0 (stepCreate cur upd s i q) R (W ++ [(i, q)]) C := by
  obtain ⟨f1, f2, f3⟩ := stepCreate_frame cur upd s i q
  have hacts : (stepCreate cur upd s i q).acts = s.acts ++ [.create i q.rev] := rfl
  have hC : nCreate (stepCreate cur upd s i q).acts = nCreate s.acts + 1 := by
    rw [hacts]; simp [nCreate_append]
  have hR : nReplace (stepCreate cur upd s i q).acts = nReplace s.acts := by
    rw [hacts]; simp [nReplace_append]
  have hD : nDelete (stepCreate cur upd s i q).acts = nDelete s.acts := by
    rw [hacts]; simp [nDelete_append]
  have hU : (stepCreate cur upd s i q).status.updated ≤ s.status.updated + 1 := by
    rw [updated_eq_ctr, ctr_stepCreate, ← updated_eq_ctr]
    have := ind_le_one (q.rev == revK false cur upd)
    omega
  have h1 := h.rdyp
  simp only [List.map_cons, cnt_cons_ind, hfs, ind_false] at h1
  have := nCreate_nonneg s.acts
  refine ⟨by rw [f1]; exact h.gen, by rw [f2]; exact h.crev, by rw [f3]; exact h.urev,
    by rw [ready_stepCreate]; exact h.rdy, ?_, ?_, ?_, ?_, ?_, ?_, h.csub, ?_, ?_⟩
  · intro he; rw [hacts] at he; simp at he
  · rw [replicas_stepCreate, hC, hR, h.repl]; omega
  · rw [hC, hR]; have := h.pair; omega
  · rw [replicas_stepCreate, ready_stepCreate, hC]; omega
  · rw [hC]; have := h.upd0; omega
  · intro hH; rw [hC, hR, hD]; have := h.updS hH; omega
  · intro ip hip; exact h.rmem ip (List.mem_cons_of_mem _ hip)
  · intro ip _; right; rw [hC]; omega

theorem trk_hC (upd : String) (pods : List Pod) (st0 : Status) (s : St) (i : Int) (q : Pod)
    (R W : List (Int × Pod)) (C : List Pod)
    (h : Trk upd pods st0 s ((i, q) :: R) W C) (hfs : q.fs = false) (hc : q.created = true) :
    Trk upd pods st0 s R (W ++ [(i, q)]) C := by
  have h1 := h.rdyp
  simp only [List.map_cons, cnt_cons_ind, hfs, ind_false] at h1
  refine ⟨h.gen, h.crev, h.urev, h.rdy, h.unch, h.repl, h.pair, by omega, h.upd0, h.updS, h.csub, ?_, ?_⟩
  · intro ip hip; exact h.rmem ip (List.mem_cons_of_mem _ hip)
  · intro ip hip
    rcases List.mem_append.1 hip with hip | hip
    · exact h.wmem ip hip
    · simp only [List.mem_singleton] at hip
      subst hip
      rcases h.rmem (i, q) List.mem_cons_self with hm | hn
      · exact Or.inl hm
      · simp only at hn; rw [hc] at hn; cases hn

theorem trk_hU (upd : String) (pods : List Pod) (st0 : Status) (s : St) (i : Int)
    (R W : List (Int × Pod)) (C : List Pod) (h : Trk upd pods st0 s R W C) :
    Trk upd pods st0 { s with acts := s.acts ++ [.update i] } R W C := by
  have hC : nCreate (s.acts ++ [Action.update i]) = nCreate s.acts := by simp [nCreate_append]
  have hR : nReplace (s.acts ++ [Action.update i]) = nReplace s.acts := by simp [nReplace_append]
  have hD : nDelete (s.acts ++ [Action.update i]) = nDelete s.acts := by simp [nDelete_append]
  refine ⟨h.gen, h.crev, h.urev, h.rdy, ?_, ?_, ?_, ?_, ?_, ?_, h.csub, h.rmem, ?_⟩
  · intro he; simp at he
  · simp only [hC, hR]; exact h.repl
  · simp only [hC, hR]; exact h.pair
  · simp only [hC]; exact h.rdyp
  · simp only [hC]; exact h.upd0
  · simp only [hC, hR, hD]; exact h.updS
  · simp only [hC]; exact h.wmem

theorem trk_hskip (upd : String) (pods : List Pod) (st0 : Status) (s : St) (c : Pod) (C : List Pod) (W : List (Int × Pod))
    (h : Trk upd pods st0 s [] W (c :: C)) : Trk upd pods st0 s [] W C :=
  ⟨h.gen, h.crev, h.urev, h.rdy, h.unch, h.repl, h.pair, h.rdyp, h.upd0, h.updS,
   fun x hx => h.csub x (List.mem_cons_of_mem _ hx), h.rmem, h.wmem⟩

theorem trk_hdel (cur upd : String) (pods : List Pod) (st0 : Status) (s : St) (c : Pod) (C : List Pod) (W : List (Int × Pod))
    (h : Trk upd pods st0 s [] W (c :: C)) :
    Trk upd pods st0 { acts := s.acts ++ [.delete c.ord c.id .scaleDown], status := bump s.status cur upd c.rev (-1) } [] W C := by
  have hC : nCreate (s.acts ++ [Action.delete c.ord c.id .scaleDown]) = nCreate s.acts := by simp [nCreate_append]
  have hR : nReplace (s.acts ++ [Action.delete c.ord c.id .scaleDown]) = nReplace s.acts := by simp [nReplace_append]
  have hD : nDelete (s.acts ++ [Action.delete c.ord c.id .scaleDown]) = nDelete s.acts + 1 := by simp [nDelete_append]
  have hU : (bump s.status cur upd c.rev (-1)).updated = s.status.updated + (if c.rev == upd then -1 else 0) :=
    bump_updated ..
  refine ⟨by simpa using h.gen, by simpa using h.crev, by simpa using h.urev, by simpa using h.rdy,
    ?_, ?_, ?_, ?_, ?_, ?_, fun x hx => h.csub x (List.mem_cons_of_mem _ hx), h.rmem, ?_⟩
  · intro he; simp at he
  · simp only [hC, hR, bump_replicas]; exact h.repl
  · simp only [hC, hR]; exact h.pair
  · simp only [hC, bump_replicas, bump_ready]; exact h.rdyp
  · simp only [hC, hU]; have := h.upd0; split_ifs <;> omega
  · intro hH
    have hc : c.rev = upd := hH c (h.csub c List.mem_cons_self)
    have hU' : (bump s.status cur upd c.rev (-1)).updated = s.status.updated - 1 := by
      rw [hU, hc]; simp; omega
    simp only [hC, hR, hD, hU']
    have := h.updS hH; omega
  · simp only [hC]; exact h.wmem

theorem trk_hwalk (cur upd : String) (pods : List Pod) (st0 : Status) (hi : Init upd pods st0)
    (s : St) (W : List (Int × Pod)) (t : Int) (q : Pod)
    (h : Trk upd pods st0 s [] W []) (hm : (t, q) ∈ W) (hne : (q.rev != upd) = true) :
    Post upd pods st0
      { acts := s.acts ++ [.delete t q.id .update],
        status := if q.rev == cur then { s.status with current := s.status.current - 1 } else s.status } := by
  have e1 : ∀ st : Status, (if q.rev == cur then { st with current := st.current - 1 } else st).observedGen = st.observedGen := by
    intro st; split_ifs <;> rfl
  have e2 : ∀ st : Status, (if q.rev == cur then { st with current := st.current - 1 } else st).currentRev = st.currentRev := by
    intro st; split_ifs <;> rfl
  have e3 : ∀ st : Status, (if q.rev == cur then { st with current := st.current - 1 } else st).updateRev = st.updateRev := by
    intro st; split_ifs <;> rfl
  have e4 : ∀ st : Status, (if q.rev == cur then { st with current := st.current - 1 } else st).updated = st.updated := by
    intro st; split_ifs <;> rfl
  have e5 : ∀ st : Status, (if q.rev == cur then { st with current := st.current - 1 } else st).replicas = st.replicas := by
    intro st; split_ifs <;> rfl
  have e6 : ∀ st : Status, (if q.rev == cur then { st with current := st.current - 1 } else st).ready = st.ready := by
    intro st; split_ifs <;> rfl
  refine ⟨by simp only [e1]; exact h.gen, by simp only [e2]; exact h.crev, by simp only [e3]; exact h.urev, ?_, ?_⟩
  · intro he; simp at he
  · intro hu hy
    simp only [e4, e5, e6] at hu hy
    obtain ⟨hall, hc0, _⟩ := h.core hi hu hy
    exfalso
    rcases h.wmem (t, q) hm with hq | hq
    · have := countedAt_rev (hall q hq).1
      simp [this] at hne
    · omega

theorem runLoops_post (v : SetView) (cur upd : String) (pods : List Pod) (f : Faults) (p : Prepared)
    (hi : Init upd pods p.st0)
    (hinit : Trk upd pods p.st0 { status := p.st0 } p.reps [] p.condemned.reverse) :
    ∀ s, runLoops v cur upd f p = (s, .ok) → Post upd pods p.st0 s := by
  apply runLoops_induct' v cur upd f p (Trk upd pods p.st0) (Post upd pods p.st0)
  · intro s R W C h; exact h.post hi
  · intro s i q R W C h hfs; exact trk_hA v cur upd pods _ s i q R W C h hfs
  · intro s i q R W C h hfs _; exact trk_hB cur upd pods _ s i q R W C h hfs
  · intro s i q R W C h hfs hc; exact trk_hC upd pods _ s i q R W C h hfs hc
  · intro s i R W C h; exact trk_hU upd pods _ s i R W C h
  · intro s c C W h; exact trk_hskip upd pods _ s c C W h
  · intro s c C W h _ _; exact trk_hdel cur upd pods _ s c C W h
  · intro s W t q h hm hne _ _; exact trk_hwalk cur upd pods _ hi s W t q h hm hne
  · exact hinit

theorem init_st0Of (v : SetView) (cur upd : String) (pods : List Pod) : Init upd pods (st0Of v cur upd pods) := by
  refine ⟨by simp [st0Of, census], ?_, ?_⟩
  · rw [← census_ready cur upd]; rfl
  · have := census_ctr false cur upd pods
    simp only [ctr, revK, Bool.false_eq_true, if_false] at this
    exact this

theorem trk_init (v : SetView) (cur upd : String) (pods : List Pod) (b : Int) (E : List Int) :
    Trk upd pods (st0Of v cur upd pods) { status := st0Of v cur upd pods } (repsOf v cur upd b E pods) []
      (condemnedOf b E pods).reverse := by
  have hi := init_st0Of v cur upd pods
  refine ⟨rfl, rfl, rfl, rfl, fun _ => rfl, by simp, by simp, ?_, by simp, by intro _; simp, ?_, ?_, by simp⟩
  · simp only [nCreate_nil, add_zero, hi.r, hi.y]
    have h := count_split v cur upd b E pods Pod.fs (fun p hp => fs_created hp)
    have h2 : cnt Pod.fs pods ≤ cnt (fun p => !p.runningAndReady) pods := by
      apply cnt_mono
      intro p _ hp
      simp [fs_not_rr hp]
    rw [cnt_compl] at h2
    have := cnt_nonneg Pod.fs (condemnedOf b E pods)
    omega
  · intro c hc; exact (mem_condemnedOf.1 (List.mem_reverse.1 hc)).1
  · intro ip hip
    rcases repsOf_mem hip with ⟨hm, _⟩ | hn
    · exact Or.inl hm
    · right; rw [hn]; exact newPod_created ..

/-- Everything C12 (generation, completion, census) needs about a reconcile that ended `.ok`. -/
theorem updateStatefulSet_post (v : SetView) (cur upd : String) (pods : List Pod) (f : Faults) (s : St)
    (h : updateStatefulSet v cur upd pods f = (s, .ok)) : Post upd pods (st0Of v cur upd pods) s := by
  obtain ⟨p, hp, hcase⟩ := updateStatefulSet_ok h
  obtain ⟨r, hr⟩ := prepare_replicas hp
  obtain ⟨_, hreps, hcond, _, hst0⟩ := prepare_ok hr hp
  have hi := init_st0Of v cur upd pods
  rcases hcase with ⟨_, rfl⟩ | ⟨_, hrun⟩
  · rw [hst0]
    have := trk_init v cur upd pods 0 []
    exact (this).post hi
  · have := runLoops_post v cur upd pods f p (by rw [hst0]; exact hi)
      (by rw [hst0, hreps, hcond]; exact trk_init v cur upd pods _ _) s hrun
    rwa [hst0] at this

end Asts.L1c
