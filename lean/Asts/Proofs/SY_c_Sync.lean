import Asts.Proofs.SY_c_Phases
import Asts.Proofs.SY_c_Reconcile

/-! # C09 (i): the phases composed — a sync that returns success has swallowed benign failures only -/
set_option linter.unusedTactic false
namespace Asts.SYc

/-- the log entries of the pod-control calls of a reconcile -/
def podLog (i : SyncIn) (plan : List Fault) (claimed : List CPod) (b : Int) (E : List Int) (acts : List Action) : List String :=
  (acts.map (actLog i.setName plan i.pods claimed b E)).flatten

/-- what follows a successful reconcile: status write if needed, then history truncation -/
def syncFinish (i : SyncIn) (plan : List Fault) (c : ClaimOutF) (revs : List Rev) (cur upd : Rev) (cc : Int)
    (base : SyncOut) (st : St) (s : RevSt) : SyncOut :=
  let status := completeRollingUpdate i.view st.status
  if inconsistentStatus i.stored status then
    let w := statusWriteF plan i.fresh.gone 5 s.tr
    let s : RevSt := { s with tr := w.1 }
    if !w.2 then { base with log := s.tr.log, store := s.store, outcome := .err } else
    let t := truncateF plan i.historyLimit (c.claimed.map (·.pod.rev)) revs cur upd s
    { base with log := t.1.tr.log, store := t.1.store, status := some status, cc := some cc, outcome := t.2 }
  else
    let t := truncateF plan i.historyLimit (c.claimed.map (·.pod.rev)) revs cur upd s
    { base with log := t.1.tr.log, store := t.1.store, outcome := t.2 }

/-- the reconcile and what follows, given the revisions -/
def syncReconcile (i : SyncIn) (plan : List Fault) (c : ClaimOutF) (revs : List Rev) (s : RevSt) (cur upd : Rev) (cc : Int) :
    SyncOut :=
  match maxReplicaAndSlots (i.view.replicas.getD 0) i.view.slots with
  | (b, E) =>
    let pf := podFaults i.setName plan i.pods c.claimed b E
    let r := updateStatefulSet i.view cur.name upd.name (c.claimed.map (·.pod)) pf
    let s : RevSt := { s with tr := { log := s.tr.log ++ podLog i plan c.claimed b E r.1.acts } }
    let base : SyncOut := { cur := cur.name, upd := upd.name, claimed := c.claimed, acts := r.1.acts,
                            actsDone := if r.2 == .err then r.1.acts.length - 1 else r.1.acts.length }
    match r.2 with
    | .ok => syncFinish i plan c revs cur upd cc base r.1 s
    | o => { base with log := s.tr.log, store := s.store, outcome := o }

/-- everything after the adoption of orphan revisions -/
def syncAfterAdopt (h : Hashing) (i : SyncIn) (plan : List Fault) (s : RevSt) : SyncOut :=
  let c := claimPodsF plan i.view.deleting i.fresh i.pods s.tr
  let s : RevSt := { s with tr := c.tr }
  if c.failed then { log := s.tr.log, store := s.store, outcome := .err } else
  match listRevsF plan s with
  | (s, none) => { log := s.tr.log, store := s.store, claimed := c.claimed, outcome := .err }
  | (s, some listed) =>
    match getRevisionsF h plan i.template i.stored.currentRev (i.collisionCount.getD 0) (sortRevs listed) s with
    | (s, none) => { log := s.tr.log, store := s.store, claimed := c.claimed, outcome := .err }
    | (s, some (cur, upd, cc)) => syncReconcile i plan c (sortRevs listed) s cur upd cc

theorem syncF_eq (h : Hashing) (i : SyncIn) (plan : List Fault) :
    syncF h i plan =
      if i.paused || !i.selectorOk then { store := i.store } else
      match adoptOrphanRevisionsF plan i.view.deleting i.fresh { store := i.store } with
      | (s, .ok) => syncAfterAdopt h i plan s
      | (s, out) => { log := s.tr.log, store := s.store, outcome := out } := rfl

/-! ### the pod-control entries -/

/-- keys of the pod-control calls (`create:pod:*`, `delete:pod:*`, `update:pod:*`) -/
def IsPodCtlKey (k : String) : Prop := ∃ nm, k = kCreatePod nm ∨ k = kDeletePod nm ∨ k = kUpdatePod nm

/-- the plan injects nothing into pod-control calls -/
def PodCtlFree (plan : List Fault) : Prop := ∀ f ∈ plan, ¬ IsPodCtlKey f.key

theorem actLog_keys (setName : String) (plan : List Fault) (pods claimed : List CPod) (b : Int) (E : List Int) (a : Action) :
    ∀ k ∈ actLog setName plan pods claimed b E a, IsPodCtlKey k := by
  intro k hk
  cases a with
  | create o r =>
    simp only [actLog, List.mem_singleton] at hk
    exact ⟨_, Or.inl hk⟩
  | delete o id w =>
    simp only [actLog, List.mem_singleton] at hk
    exact ⟨_, Or.inr (Or.inl hk)⟩
  | update o =>
    simp only [actLog, List.mem_replicate] at hk
    exact ⟨_, Or.inr (Or.inr hk.2)⟩

theorem podLog_keys (i : SyncIn) (plan : List Fault) (claimed : List CPod) (b : Int) (E : List Int) (acts : List Action) :
    ∀ k ∈ podLog i plan claimed b E acts, IsPodCtlKey k := by
  intro k hk
  simp only [podLog, List.mem_flatten, List.mem_map] at hk
  obtain ⟨l, ⟨a, _, rfl⟩, hk⟩ := hk
  exact actLog_keys _ _ _ _ _ _ a k hk

/-- appending entries that are exempt, or that no fault of the plan names -/
theorem benignFrom_append_ok {cx : Cx} {plan : List Fault} {n : Nat} {log : List String} :
    ∀ (ext : List String), (∀ k ∈ ext, cx.exempt k ∨ ∀ f ∈ plan, f.key ≠ k) → BenignFrom cx plan n log →
      BenignFrom cx plan n (log ++ ext) := by
  intro ext
  induction ext using List.reverseRecOn with
  | nil => intro _ h; simpa using h
  | append_singleton ext k ih =>
    intro hfree h
    rw [← List.append_assoc]
    have ih' := ih (fun k' hk' => hfree k' (by simp [hk'])) h
    rcases hfree k (by simp) with hx | hx
    · refine benignFrom_snoc ih' ?_
      intro kind _
      exact Or.inl hx
    · exact benignFrom_snoc_none ih' (planAt_none_of_no_key hx _)

/-! ### object names: what is listed is stored, adoption renames nothing -/

theorem dedupByName_subset : ∀ (l : List Rev) (seen : List String), ∀ r ∈ dedupByName l seen, r ∈ l
  | [], _, r, h => by simp [dedupByName] at h
  | x :: l, seen, r, h => by
    unfold dedupByName at h
    split_ifs at h
    · exact List.mem_cons_of_mem _ (dedupByName_subset l seen r h)
    · rcases List.mem_cons.1 h with h | h
      · subst h; exact List.mem_cons_self
      · exact List.mem_cons_of_mem _ (dedupByName_subset l _ r h)

theorem listRevisions_subset (store : List Rev) : ∀ r ∈ listRevisions store, r ∈ store := by
  intro r hr
  unfold listRevisions at hr
  have := dedupByName_subset _ _ r (List.mem_filter.1 hr).1
  rcases List.mem_append.1 this with h | h <;> exact (List.mem_filter.1 h).1

theorem mem_insertRev (r : Rev) : ∀ (l : List Rev) (x : Rev), x ∈ insertRev r l → x = r ∨ x ∈ l
  | [], x, h => by simpa [insertRev] using h
  | q :: qs, x, h => by
    unfold insertRev at h
    split_ifs at h
    · rcases List.mem_cons.1 h with h | h
      · exact Or.inl h
      · exact Or.inr h
    · rcases List.mem_cons.1 h with h | h
      · exact Or.inr (by rw [h]; exact List.mem_cons_self)
      · rcases mem_insertRev r qs x h with h | h
        · exact Or.inl h
        · exact Or.inr (List.mem_cons_of_mem _ h)

theorem foldl_insertRev_subset : ∀ (l acc : List Rev) (x : Rev),
    x ∈ l.foldl (fun acc r => insertRev r acc) acc → x ∈ l ∨ x ∈ acc
  | [], _, _, h => Or.inr h
  | r :: l, acc, x, h => by
    simp only [List.foldl_cons] at h
    rcases foldl_insertRev_subset l _ x h with h | h
    · exact Or.inl (List.mem_cons_of_mem _ h)
    · rcases mem_insertRev r acc x h with h | h
      · exact Or.inl (by rw [h]; exact List.mem_cons_self)
      · exact Or.inr h

theorem sortRevs_subset (l : List Rev) : ∀ r ∈ sortRevs l, r ∈ l := by
  intro r hr
  unfold sortRevs at hr
  rcases foldl_insertRev_subset _ _ r hr with h | h
  · exact List.mem_reverse.1 h
  · cases h

theorem labelStep_names (plan : List Fault) (s : RevSt) (r : Rev) :
    (labelStep plan s r).1.store.map (·.name) = s.store.map (·.name) := by
  unfold labelStep
  split_ifs
  · split
    · rfl
    · simp only [List.map_map]
      apply List.map_congr_left
      intro x _
      simp only [Function.comp]
      split_ifs <;> rfl
  · rfl

theorem ownStep_names (plan : List Fault) (s : RevSt) (r : Rev) :
    (ownStep plan s r).1.store.map (·.name) = s.store.map (·.name) := by
  unfold ownStep
  split_ifs
  · rfl
  · split
    · rfl
    · simp only [List.map_map]
      apply List.map_congr_left
      intro x _
      simp only [Function.comp]
      split_ifs <;> rfl

theorem foldOk_names {α} (f : RevSt → α → RevSt × Bool) (hf : ∀ s x, (f s x).1.store.map (·.name) = s.store.map (·.name)) :
    ∀ (xs : List α) (s : RevSt), (foldOk xs s f).1.store.map (·.name) = s.store.map (·.name)
  | [], s => by simp [foldOk]
  | x :: xs, s => by
    rw [foldOk_cons]
    split
    · rw [foldOk_names f hf xs, hf]
    · exact hf s x

theorem adoptTail_names (plan : List Fault) (fresh : Fresh) (revs : List Rev) (s : RevSt) :
    (adoptTail plan fresh revs s).1.store.map (·.name) = s.store.map (·.name) := by
  unfold adoptTail
  have h1 := foldOk_names _ (labelStep_names plan) revs s
  have h2 := foldOk_names _ (ownStep_names plan) revs
    { store := (foldOk revs s (labelStep plan)).1.store,
      tr := { log := (foldOk revs s (labelStep plan)).1.tr.log ++ ["get:set"] } }
  simp only
  split_ifs
  · exact h1
  · exact h1
  · rw [h2]; exact h1
  · rw [h2]; exact h1

/-- adoption and label-sync rename nothing -/
theorem adopt_names (plan : List Fault) (del : Bool) (fresh : Fresh) (s : RevSt) :
    (adoptOrphanRevisionsF plan del fresh s).1.store.map (·.name) = s.store.map (·.name) := by
  rw [adopt_eq]
  split_ifs
  · rfl
  · have hl := (listRevsF_spec ⟨[], fun _ => False, fun _ => True⟩ plan 0 s).1
    rcases hls : listRevsF plan s with ⟨s1, _ | revs⟩
    · rw [hls] at hl; simp only at hl ⊢; rw [hl]
    · rw [hls] at hl
      simp only at hl ⊢
      split_ifs
      · rw [hl]
      · rw [adoptTail_names, hl]

theorem names_ok_of_map_eq {P : String → Prop} {a b : List Rev} (h : a.map (·.name) = b.map (·.name))
    (hb : ∀ r ∈ b, P r.name) : ∀ r ∈ a, P r.name := by
  intro r hr
  have : r.name ∈ b.map (·.name) := by rw [← h]; exact List.mem_map_of_mem hr
  obtain ⟨r', hr', e⟩ := List.mem_map.1 this
  rw [← e]; exact hb r' hr'

variable (cx : Cx) (plan : List Fault) (n : Nat)

/-! ### the stages -/

theorem syncFinish_prefix (i : SyncIn) (c : ClaimOutF) (revs : List Rev) (cur upd : Rev) (cc : Int)
    (base : SyncOut) (st : St) (s : RevSt) :
    s.tr.log <+: (syncFinish i plan c revs cur upd cc base st s).log := by
  unfold syncFinish
  simp only
  have hw := statusWriteF_prefix plan i.fresh.gone 5 s.tr
  have ht := truncateF_prefix plan i.historyLimit (c.claimed.map (·.pod.rev)) revs cur upd
    { store := s.store, tr := (statusWriteF plan i.fresh.gone 5 s.tr).1 }
  split_ifs
  · exact hw
  · exact hw.trans ht
  · exact truncateF_prefix plan _ _ _ _ _ _

theorem syncFinish_benign (i : SyncIn) (c : ClaimOutF) (revs : List Rev) (cur upd : Rev) (cc : Int)
    (base : SyncOut) (st : St) (s : RevSt) (h0 : BenignFrom cx plan n s.tr.log)
    (hok : (syncFinish i plan c revs cur upd cc base st s).outcome ≠ .err) :
    BenignFrom cx plan n (syncFinish i plan c revs cur upd cc base st s).log := by
  unfold syncFinish at hok ⊢
  simp only at hok ⊢
  split_ifs at hok ⊢ with h1 h2
  · exact absurd rfl hok
  · have hw : (statusWriteF plan i.fresh.gone 5 s.tr).2 = true := by simpa using h2
    exact truncateF_benign cx plan n _ _ _ _ _ _ (statusWriteF_benign cx plan n _ 5 s.tr h0 hw) hok
  · exact truncateF_benign cx plan n _ _ _ _ _ _ h0 hok

theorem syncReconcile_prefix (i : SyncIn) (c : ClaimOutF) (revs : List Rev) (s : RevSt) (cur upd : Rev) (cc : Int) :
    s.tr.log <+: (syncReconcile i plan c revs s cur upd cc).log := by
  unfold syncReconcile
  generalize maxReplicaAndSlots (i.view.replicas.getD 0) i.view.slots = bE
  obtain ⟨b, E⟩ := bE
  simp only
  generalize updateStatefulSet i.view cur.name upd.name (c.claimed.map (·.pod))
    (podFaults i.setName plan i.pods c.claimed b E) = r
  obtain ⟨st, out⟩ := r
  cases out with
  | ok =>
    exact (List.prefix_append _ _).trans (syncFinish_prefix plan i c revs cur upd cc _ st
      { store := s.store, tr := { log := s.tr.log ++ podLog i plan c.claimed b E st.acts } })
  | err => exact List.prefix_append _ _
  | panic site => exact List.prefix_append _ _

theorem syncReconcile_benign (i : SyncIn) (c : ClaimOutF) (revs : List Rev) (s : RevSt) (cur upd : Rev) (cc : Int)
    (hex : ∀ k, IsPodCtlKey k → cx.exempt k ∨ ∀ f ∈ plan, f.key ≠ k)
    (h0 : BenignFrom cx plan n s.tr.log) (hok : (syncReconcile i plan c revs s cur upd cc).outcome ≠ .err) :
    BenignFrom cx plan n (syncReconcile i plan c revs s cur upd cc).log := by
  unfold syncReconcile at hok ⊢
  generalize maxReplicaAndSlots (i.view.replicas.getD 0) i.view.slots = bE at hok ⊢
  obtain ⟨b, E⟩ := bE
  simp only at hok ⊢
  generalize hr : updateStatefulSet i.view cur.name upd.name (c.claimed.map (·.pod))
    (podFaults i.setName plan i.pods c.claimed b E) = r at hok ⊢
  obtain ⟨st, out⟩ := r
  have h1 : BenignFrom cx plan n (s.tr.log ++ podLog i plan c.claimed b E st.acts) :=
    benignFrom_append_ok _ (fun k hk => hex k (podLog_keys i plan c.claimed b E st.acts k hk)) h0
  cases out with
  | ok => exact syncFinish_benign cx plan n i c revs cur upd cc _ _ _ h1 hok
  | err => exact absurd rfl hok
  | panic site => exact h1

theorem syncAfterAdopt_prefix (h : Hashing) (i : SyncIn) (s : RevSt) :
    s.tr.log <+: (syncAfterAdopt h i plan s).log := by
  unfold syncAfterAdopt
  have hc := claim_prefix plan i.view.deleting i.fresh i.pods s.tr
  simp only
  split_ifs with hf
  · exact hc
  · have hl := (listRevsF_spec ⟨[], fun _ => False, fun _ => True⟩ plan 0
      { store := s.store, tr := (claimPodsF plan i.view.deleting i.fresh i.pods s.tr).tr }).2.1
    rcases hls : listRevsF plan { store := s.store, tr := (claimPodsF plan i.view.deleting i.fresh i.pods s.tr).tr }
      with ⟨s1, _ | listed⟩
    · rw [hls] at hl; exact hc.trans hl
    · rw [hls] at hl
      simp only at hl ⊢
      have hg := getRevisionsF_prefix plan h i.template i.stored.currentRev (i.collisionCount.getD 0) (sortRevs listed) s1
      rcases hgs : getRevisionsF h plan i.template i.stored.currentRev (i.collisionCount.getD 0) (sortRevs listed) s1
        with ⟨s2, _ | ⟨cur, upd, cc⟩⟩
      · rw [hgs] at hg; exact hc.trans (hl.trans hg)
      · rw [hgs] at hg
        exact hc.trans (hl.trans (hg.trans (syncReconcile_prefix plan i _ _ s2 cur upd cc)))

theorem syncAfterAdopt_benign (h : Hashing) (i : SyncIn) (s : RevSt) (hpods : cx.pods = i.pods)
    (hpn : ∀ c ∈ cx.pods, cx.nameOk c.name) (hh : ∀ d c, cx.nameOk (h.nameOf d c))
    (hstore : ∀ r ∈ s.store, cx.nameOk r.name)
    (hex : ∀ k, IsPodCtlKey k → cx.exempt k ∨ ∀ f ∈ plan, f.key ≠ k)
    (h0 : BenignFrom cx plan n s.tr.log) (hok : (syncAfterAdopt h i plan s).outcome ≠ .err) :
    BenignFrom cx plan n (syncAfterAdopt h i plan s).log := by
  unfold syncAfterAdopt at hok ⊢
  simp only at hok ⊢
  split_ifs at hok ⊢ with hf
  · exact absurd rfl hok
  have hf' : (claimPodsF plan i.view.deleting i.fresh i.pods s.tr).failed = false := by simpa using hf
  have hc : BenignFrom cx plan n (claimPodsF plan i.view.deleting i.fresh i.pods s.tr).tr.log := by
    have := claim_benign cx plan n i.view.deleting i.fresh s.tr hpn h0
    rw [hpods] at this
    exact this hf'
  have hl := (listRevsF_spec cx plan n
      { store := s.store, tr := (claimPodsF plan i.view.deleting i.fresh i.pods s.tr).tr }).2.2.2 hc
  have hlv := (listRevsF_spec cx plan n
      { store := s.store, tr := (claimPodsF plan i.view.deleting i.fresh i.pods s.tr).tr }).2.2.1
  rcases hls : listRevsF plan { store := s.store, tr := (claimPodsF plan i.view.deleting i.fresh i.pods s.tr).tr }
    with ⟨s1, _ | listed⟩
  · rw [hls] at hok; exact absurd rfl hok
  · rw [hls] at hl hlv hok
    have h1 : BenignFrom cx plan n s1.tr.log := hl (by simp)
    have hlisted : listed = listRevisions s.store := by
      rcases hlv with hlv | hlv
      · cases hlv
      · simpa using hlv
    have hrevs : ∀ r ∈ sortRevs listed, cx.nameOk r.name := by
      intro r hr
      have := sortRevs_subset _ r hr
      rw [hlisted] at this
      exact hstore r (listRevisions_subset _ r this)
    simp only at hok ⊢
    have hg := getRevisionsF_benign cx plan n h i.template i.stored.currentRev (i.collisionCount.getD 0) (sortRevs listed) s1 hh hrevs h1
    rcases hgs : getRevisionsF h plan i.template i.stored.currentRev (i.collisionCount.getD 0) (sortRevs listed) s1
      with ⟨s2, _ | ⟨cur, upd, cc⟩⟩
    · rw [hgs] at hok; exact absurd rfl hok
    · rw [hgs] at hg hok
      exact syncReconcile_benign cx plan n i _ _ s2 cur upd cc hex (hg (by simp)) hok

/-- **C09 (i), on events**: in a sync that does not report failure every fault that fired is on the benign list
    (or at an exempt key). A panicking run is included: up to the panic only benign failures were swallowed. -/
theorem syncF_benign (h : Hashing) (i : SyncIn) (hpods : cx.pods = i.pods)
    (hpn : ∀ c ∈ cx.pods, cx.nameOk c.name) (hh : ∀ d c, cx.nameOk (h.nameOf d c))
    (hstore : ∀ r ∈ i.store, cx.nameOk r.name)
    (hex : ∀ k, IsPodCtlKey k → cx.exempt k ∨ ∀ f ∈ plan, f.key ≠ k)
    (hok : (syncF h i plan).outcome ≠ .err) : BenignFrom cx plan 0 (syncF h i plan).log := by
  rw [syncF_eq] at hok ⊢
  have hnil : BenignFrom cx plan 0 ([] : List String) := by
    intro pre x post he _
    simp [events, eventsFrom] at he
  split_ifs at hok ⊢ with hp
  · exact hnil
  · have ha := adopt_benign cx plan 0 i.view.deleting i.fresh { store := i.store } hnil
    have hn := adopt_names plan i.view.deleting i.fresh { store := i.store }
    rcases has : adoptOrphanRevisionsF plan i.view.deleting i.fresh { store := i.store } with ⟨s, out⟩
    have hnp := adopt_no_panic plan i.view.deleting i.fresh { store := i.store }
    rw [has] at ha hok hn hnp
    cases out with
    | ok =>
      exact syncAfterAdopt_benign cx plan 0 h i s hpods hpn hh (names_ok_of_map_eq hn hstore) hex (ha rfl) hok
    | err => exact absurd rfl hok
    | panic site => exact absurd rfl (hnp site)

end Asts.SYc
