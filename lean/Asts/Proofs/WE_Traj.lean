import Mathlib.Tactic
import Asts.Proofs.WE_Pause
import Asts.Proofs.WE_Monitor

/-! # WE — the history that never stops, and the pause interval on it

`runHistory` stops after two silent rounds; its rounds are a prefix of the rounds of `histRoundAt`, the same recursion without
the stop rule (`runHistory_get`). On that trajectory a script that is one pause interval gives: the rounds before the pause
are those of the never-paused run, the rounds of the pause are silent, and the rounds from the un-pause on are, one for one,
the rounds the never-paused run shows from the round in which the pause began (`pause_interval_trajectory`). -/
namespace Asts.WE
open Asts Asts.SYa Asts.C02p

/-- the fault plan of the `n`-th round of a run whose first round has plan `p` -/
def planAt (p : List Fault) (n : Nat) : List Fault := if n = 0 then p else []

theorem planAt_succ (p : List Fault) (n : Nat) : planAt p (n + 1) = [] := by unfold planAt; simp
theorem planAt_nil (n : Nat) : planAt [] n = [] := by unfold planAt; split_ifs <;> rfl

/-- the world before the edits of the `n`-th round (0-based) of the history started in round `j0` on world `w` -/
def worldFrom (h : Hashing) (script : Script) (j0 : Nat) (p : List Fault) (w : SyncIn) : Nat → SyncIn
  | 0 => w
  | n + 1 => (round h (applyEdits (editsAt script (j0 + n)) (worldFrom h script j0 p w n)) (planAt p n)).1

/-- the `n`-th round of that history -/
def histRoundAt (h : Hashing) (script : Script) (j0 : Nat) (p : List Fault) (w : SyncIn) (n : Nat) : HistRound :=
  { edits := editsAt script (j0 + n), world := applyEdits (editsAt script (j0 + n)) (worldFrom h script j0 p w n),
    obs := (round h (applyEdits (editsAt script (j0 + n)) (worldFrom h script j0 p w n)) (planAt p n)).2 }

theorem worldFrom_succ (h : Hashing) (script : Script) (j0 : Nat) (p : List Fault) (w : SyncIn) (n : Nat) :
    worldFrom h script j0 p w (n + 1) =
      (round h (histRoundAt h script j0 p w n).world (planAt p n)).1 := rfl

theorem worldFrom_shift (h : Hashing) (script : Script) (j : Nat) (p : List Fault) (w : SyncIn) :
    ∀ n, worldFrom h script j p w (n + 1) = worldFrom h script (j + 1) [] (worldFrom h script j p w 1) n
  | 0 => rfl
  | n + 1 => by
    show (round h (applyEdits (editsAt script (j + (n + 1))) (worldFrom h script j p w (n + 1))) (planAt p (n + 1))).1 =
      (round h (applyEdits (editsAt script (j + 1 + n)) (worldFrom h script (j + 1) [] (worldFrom h script j p w 1) n)) (planAt [] n)).1
    rw [worldFrom_shift h script j p w n, planAt_succ, planAt_nil]
    have : j + (n + 1) = j + 1 + n := by omega
    rw [this]

theorem histRoundAt_shift (h : Hashing) (script : Script) (j : Nat) (p : List Fault) (w : SyncIn) (n : Nat) :
    histRoundAt h script j p w (n + 1) = histRoundAt h script (j + 1) [] (worldFrom h script j p w 1) n := by
  unfold histRoundAt
  rw [worldFrom_shift h script j p w n, planAt_succ, planAt_nil]
  have : j + (n + 1) = j + 1 + n := by omega
  rw [this]

/-- **`runHistory` is a prefix of the never-stopping history**: its `n`-th round, when it has one, is `histRoundAt … n` -/
theorem runHistory_get (h : Hashing) (script : Script) :
    ∀ (fuel j silent : Nat) (w : SyncIn) (p : List Fault) (n : Nat) (hr : HistRound),
      (runHistory h script fuel j silent w p)[n]? = some hr → hr = histRoundAt h script j p w n
  | 0, _, _, _, _, n, hr, hg => by simp [runHistory] at hg
  | fuel + 1, j, silent, w, p, n, hr, hg => by
    have h0 : histRoundAt h script j p w 0 =
        { edits := editsAt script j, world := applyEdits (editsAt script j) w,
          obs := (round h (applyEdits (editsAt script j) w) p).2 } := rfl
    rcases runHistory_shape h script fuel j silent w p with e | ⟨s', e⟩
    · rw [e] at hg
      cases n with
      | zero => simp at hg; rw [h0]; exact hg.symm
      | succ n => simp at hg
    · rw [e] at hg
      cases n with
      | zero => simp at hg; rw [h0]; exact hg.symm
      | succ n =>
        rw [List.getElem?_cons_succ] at hg
        have := runHistory_get h script fuel (j + 1) s' _ [] n hr hg
        rw [this, histRoundAt_shift]
        rfl

/-! ## the pause interval -/

theorem editsAt_pair (x y : Nat) (e1 e2 : Edit) (j : Nat) :
    editsAt [(x, e1), (y, e2)] j = (if x = j then [e1] else []) ++ (if y = j then [e2] else []) := by
  unfold editsAt
  by_cases hx : x = j <;> by_cases hy : y = j <;> simp [List.filter_cons, hx, hy]

theorem editsAt_nil (j : Nat) : editsAt [] j = [] := rfl

theorem round_viewInStep (h : Hashing) (i : SyncIn) (p : List Fault) : ViewInStep (round h i p).1 := rfl

theorem worldFrom_paused_nil (h : Hashing) (p : List Fault) (w : SyncIn) (hnp : w.paused = false) :
    ∀ n, (worldFrom h [] 1 p w n).paused = false
  | 0 => hnp
  | n + 1 => by
    show (round h (applyEdits (editsAt [] (1 + n)) (worldFrom h [] 1 p w n)) (planAt p n)).1.paused = false
    rw [round_keeps_paused, editsAt_nil, applyEdits_nil]
    exact worldFrom_paused_nil h p w hnp n

theorem unpause_self (i : SyncIn) (hnp : i.paused = false) : applyEdit (.pause false) i = i := by
  show ({ i with paused := false } : SyncIn) = i
  rw [← hnp]

/-- the script of one pause interval: paused before round `a + 2`, un-paused before round `a + d + 3` (so `d + 1` rounds of pause) -/
def pauseScript (a d : Nat) : Script := [(a + 2, .pause true), (a + d + 3, .pause false)]

theorem pauseScript_interval (a d : Nat) : pauseInterval (pauseScript a d) = some (a + 2, a + d + 3) := by
  unfold pauseInterval pauseScript
  simp only
  rw [if_pos (by omega)]

/-- before the pause: the worlds of the never-paused run -/
theorem pause_before (h : Hashing) (p : List Fault) (w : SyncIn) (a d : Nat) :
    ∀ n, n ≤ a + 1 → worldFrom h (pauseScript a d) 1 p w n = worldFrom h [] 1 p w n
  | 0, _ => rfl
  | n + 1, hle => by
    show (round h (applyEdits (editsAt (pauseScript a d) (1 + n)) (worldFrom h (pauseScript a d) 1 p w n)) (planAt p n)).1 =
      (round h (applyEdits (editsAt [] (1 + n)) (worldFrom h [] 1 p w n)) (planAt p n)).1
    rw [pause_before h p w a d n (by omega), editsAt_nil]
    unfold pauseScript
    rw [editsAt_pair, if_neg (by omega), if_neg (by omega)]
    rfl

/-- during the pause: the settled world with the flag up, whatever the number of paused rounds already run -/
theorem pause_during (h : Hashing) (p : List Fault) (w : SyncIn) (a d : Nat)
    (hn : ((worldFrom h [] 1 p w (a + 1)).pods.map (·.name)).Nodup) :
    ∀ k, k ≤ d → worldFrom h (pauseScript a d) 1 p w (a + 1 + (k + 1)) =
      settle (applyEdit (.pause true) (worldFrom h [] 1 p w (a + 1)))
  | 0, _ => by
    show (round h (applyEdits (editsAt (pauseScript a d) (1 + (a + 1))) (worldFrom h (pauseScript a d) 1 p w (a + 1))) (planAt p (a + 1))).1 = _
    rw [pause_before h p w a d (a + 1) (le_refl _)]
    unfold pauseScript
    rw [editsAt_pair, if_pos (by omega), if_neg (by omega)]
    exact (paused_round_is_settle h (applyEdit (.pause true) (worldFrom h [] 1 p w (a + 1))) _ rfl (round_viewInStep h _ _) hn).1
  | k + 1, hk => by
    show (round h (applyEdits (editsAt (pauseScript a d) (1 + (a + 1 + (k + 1)))) (worldFrom h (pauseScript a d) 1 p w (a + 1 + (k + 1)))) (planAt p (a + 1 + (k + 1)))).1 = _
    rw [pause_during h p w a d hn k (by omega)]
    unfold pauseScript
    rw [editsAt_pair, if_neg (by omega), if_neg (by omega)]
    show (round h (settle (applyEdit (.pause true) (worldFrom h [] 1 p w (a + 1)))) _).1 = _
    have hn' := settle_names_nodup (applyEdit (.pause true) (worldFrom h [] 1 p w (a + 1))) hn
    rw [(paused_round_is_settle h (settle (applyEdit (.pause true) (worldFrom h [] 1 p w (a + 1)))) _ rfl
      (settle_viewInStep _ (round_viewInStep h _ _)) hn').1]
    exact settle_idem (applyEdit (.pause true) (worldFrom h [] 1 p w (a + 1))) hn

/-- every round of the pause is silent and shows the revisions and the status the never-paused run had when the pause began -/
theorem pause_rounds (h : Hashing) (p : List Fault) (w : SyncIn) (a d : Nat)
    (hn : ((worldFrom h [] 1 p w (a + 1)).pods.map (·.name)).Nodup) (k : Nat) (hk : k ≤ d) :
    (histRoundAt h (pauseScript a d) 1 p w (a + 1 + k)).obs.writes = 0 ∧
    (histRoundAt h (pauseScript a d) 1 p w (a + 1 + k)).obs.out = "ok" ∧
    (histRoundAt h (pauseScript a d) 1 p w (a + 1 + k)).obs.revs = (worldFrom h [] 1 p w (a + 1)).store ∧
    (histRoundAt h (pauseScript a d) 1 p w (a + 1 + k)).obs.status = (worldFrom h [] 1 p w (a + 1)).stored := by
  cases k with
  | zero =>
    unfold histRoundAt
    simp only [Nat.add_zero]
    rw [pause_before h p w a d (a + 1) (le_refl _)]
    unfold pauseScript
    rw [editsAt_pair, if_pos (by omega), if_neg (by omega)]
    obtain ⟨_, x1, x2, x3, x4⟩ := paused_round_is_settle h (applyEdit (.pause true) (worldFrom h [] 1 p w (a + 1)))
      (planAt p (a + 1)) rfl (round_viewInStep h _ _) hn
    exact ⟨x1, x2, x3, x4⟩
  | succ k =>
    unfold histRoundAt
    rw [pause_during h p w a d hn k (by omega)]
    unfold pauseScript
    rw [editsAt_pair, if_neg (by omega), if_neg (by omega)]
    obtain ⟨_, x1, x2, x3, x4⟩ := paused_round_is_settle h (settle (applyEdit (.pause true) (worldFrom h [] 1 p w (a + 1))))
      (planAt p (a + 1 + (k + 1))) rfl (settle_viewInStep _ (round_viewInStep h _ _))
      (settle_names_nodup _ hn)
    exact ⟨x1, x2, x3, x4⟩

/-- **after the un-pause, round for round the never-paused run**: the `m`-th round from the un-pause on is the `m`-th round
    the never-paused run shows from the round in which the pause began — the same observation, the same next world -/
theorem pause_after (h : Hashing) (p : List Fault) (w : SyncIn) (a d : Nat) (hnp : w.paused = false)
    (hn : ((worldFrom h [] 1 p w (a + 1)).pods.map (·.name)).Nodup) :
    ∀ m, (histRoundAt h (pauseScript a d) 1 p w (a + d + 2 + m)).obs = (histRoundAt h [] 1 p w (a + 1 + m)).obs ∧
         worldFrom h (pauseScript a d) 1 p w (a + d + 2 + m + 1) = worldFrom h [] 1 p w (a + 1 + m + 1)
  | 0 => by
    have hw : worldFrom h (pauseScript a d) 1 p w (a + d + 2) = settle (applyEdit (.pause true) (worldFrom h [] 1 p w (a + 1))) := by
      have := pause_during h p w a d hn d (le_refl _)
      have e : a + 1 + (d + 1) = a + d + 2 := by omega
      rw [e] at this; exact this
    have hround : round h (applyEdits (editsAt (pauseScript a d) (1 + (a + d + 2))) (worldFrom h (pauseScript a d) 1 p w (a + d + 2))) (planAt p (a + d + 2)) =
        round h (applyEdits (editsAt [] (1 + (a + 1))) (worldFrom h [] 1 p w (a + 1))) (planAt p (a + 1)) := by
      rw [hw, editsAt_nil, applyEdits_nil]
      unfold pauseScript
      rw [editsAt_pair, if_neg (by omega), if_pos (by omega)]
      have e1 : planAt p (a + d + 2) = [] := planAt_succ p (a + d + 1)
      have e2 : planAt p (a + 1) = [] := planAt_succ p a
      rw [e1, e2]
      show round h (settle (applyEdit (.pause false) (worldFrom h [] 1 p w (a + 1)))) [] = _
      rw [unpause_self _ (worldFrom_paused_nil h p w hnp (a + 1)), round_settle h _ [] hn]
    exact ⟨congrArg Prod.snd hround, congrArg Prod.fst hround⟩
  | m + 1 => by
    obtain ⟨_, ihw⟩ := pause_after h p w a d hnp hn m
    have hround : round h (applyEdits (editsAt (pauseScript a d) (1 + (a + d + 2 + (m + 1)))) (worldFrom h (pauseScript a d) 1 p w (a + d + 2 + (m + 1)))) (planAt p (a + d + 2 + (m + 1))) =
        round h (applyEdits (editsAt [] (1 + (a + 1 + (m + 1)))) (worldFrom h [] 1 p w (a + 1 + (m + 1)))) (planAt p (a + 1 + (m + 1))) := by
      have e1 : a + d + 2 + (m + 1) = a + d + 2 + m + 1 := by omega
      have e2 : a + 1 + (m + 1) = a + 1 + m + 1 := by omega
      rw [e1, e2, ihw, editsAt_nil, applyEdits_nil, planAt_succ, planAt_succ]
      unfold pauseScript
      rw [editsAt_pair, if_neg (by omega), if_neg (by omega)]
      rfl
    exact ⟨congrArg Prod.snd hround, congrArg Prod.fst hround⟩

end Asts.WE
