import Mathlib.Tactic
import Asts.Spec.Glue2
import Asts.Proofs.SY_b_SyncThms
import Asts.Proofs.SY_b_AdoptExact
import Asts.Proofs.SY_a_Headlines

/-! # GL2 — who controls the revisions after a sync (`C11.revowner`, `C18.adopted`)

The final store of a sync is made from the store the adoption stage left (`SYb.adoptedStore`) by renumbering one revision
or inserting one new, own revision under a free name (`SYb.pickF_store`), and by deleting history
(`SYb.truncateF_store`): none of these changes an owner. So ownership after the sync is decided by the adoption stage
alone, and that stage
* changes no owner when adoption is not allowed (`adopt_keeps_owner`): the patches come after the uncached read of the
  set, which must be unfaulted and find the set present, with the cached uid and no deletion timestamp;
* when it succeeds with a listed orphan, has made every listed orphan the set's own (`SYb.adopt_ok_exact`). -/
namespace Asts.GL2
open Asts Asts.SYb

/-! ## where the final store comes from -/

/-- `y` is a revision of `A` up to its number (and labels), or a new own revision under a name free in `A` -/
def FromAdopted (A : List Rev) (y : Rev) : Prop :=
  (∃ x ∈ A, y.name = x.name ∧ y.owner = x.owner) ∨ (y.owner = .self ∧ ∀ x ∈ A, x.name ≠ y.name)

theorem fromAdopted_of_mem {A : List Rev} {y : Rev} (hy : y ∈ A) : FromAdopted A y := Or.inl ⟨y, hy, rfl, rfl⟩

theorem setNumber_owner (name : String) (n : Int) (r : Rev) : (setNumber name n r).owner = r.owner := by
  unfold setNumber; split <;> rfl

theorem fromAdopted_of_pick (h : Hashing) (plan : List Fault) (template : String) (cc0 : Int) (revs : List Rev) (s : RevSt)
    {y : Rev} (hy : y ∈ (pickF h plan template cc0 revs s).1.store) : FromAdopted s.store y := by
  rcases pickF_store h plan template cc0 revs s with h1 | ⟨e, n, h1⟩ | ⟨cc, _, habs, h1, _⟩
  · rw [h1] at hy; exact fromAdopted_of_mem hy
  · rw [h1] at hy
    obtain ⟨x, hx, rfl⟩ := List.mem_map.mp hy
    exact Or.inl ⟨x, hx, setNumber_name _ _ _, setNumber_owner _ _ _⟩
  · rw [h1, mem_insertByName] at hy
    rcases hy with rfl | hy
    · exact Or.inr ⟨rfl, fun x hx => habs x hx⟩
    · exact fromAdopted_of_mem hy

/-- an early exit of `syncHead` leaves the store as adoption left it, or as the resolution of the revisions left it -/
theorem syncHead_inl_store {h : Hashing} {i : SyncIn} {plan : List Fault} {o : SyncOut} (hh : syncHead h i plan = .inl o) :
    o.store = adoptedStore plan i ∨
      ∃ sL : RevSt, sL.store = adoptedStore plan i ∧
        o.store = (pickF h plan i.template (i.collisionCount.getD 0) (sortRevs (listRevisions sL.store)) sL).1.store := by
  unfold syncHead at hh
  unfold adoptedStore
  generalize adoptOrphanRevisionsF plan i.view.deleting i.fresh { store := i.store } = a at hh ⊢
  obtain ⟨s, out⟩ := a
  cases out with
  | err => simp only [Sum.inl.injEq] at hh; subst hh; exact Or.inl rfl
  | panic m => simp only [Sum.inl.injEq] at hh; subst hh; exact Or.inl rfl
  | ok =>
    simp only at hh
    by_cases hf : (claimPodsF plan i.view.deleting i.fresh i.pods s.tr).failed = true
    · rw [if_pos hf] at hh
      simp only [Sum.inl.injEq] at hh; subst hh; exact Or.inl rfl
    · rw [if_neg hf] at hh
      have hst := listRevsF_store plan { store := s.store, tr := (claimPodsF plan i.view.deleting i.fresh i.pods s.tr).tr }
      have hsome := @listRevsF_some plan { store := s.store, tr := (claimPodsF plan i.view.deleting i.fresh i.pods s.tr).tr }
      generalize listRevsF plan { store := s.store, tr := (claimPodsF plan i.view.deleting i.fresh i.pods s.tr).tr } = l at hh hst hsome ⊢
      obtain ⟨s1, o1⟩ := l
      simp only at hst
      cases o1 with
      | none =>
        simp only [Sum.inl.injEq] at hh; subst hh
        exact Or.inl hst
      | some listed =>
        have hl : listed = listRevisions s.store := hsome rfl
        subst hl
        simp only at hh
        rw [getRevisionsF_eq] at hh
        cases hp : (pickF h plan i.template (i.collisionCount.getD 0) (sortRevs (listRevisions s.store)) s1).2 with
        | none =>
          rw [hp] at hh
          simp only [Option.map_none, Sum.inl.injEq] at hh; subst hh
          exact Or.inr ⟨s1, hst, by rw [hst]⟩
        | some t =>
          rw [hp] at hh
          simp at hh

/-- **the final store of a sync that ran**: every revision in it is one of the store the adoption stage left — same name,
    same owner — or a new own revision under a name that was free there -/
theorem sync_store_fromAdopted (h : Hashing) (i : SyncIn) (plan : List Fault) (hrun : (i.paused || !i.selectorOk) = false) :
    ∀ y ∈ (syncF h i plan).store, FromAdopted (adoptedStore plan i) y := by
  intro y hy
  rw [SYb.syncF_eq, hrun] at hy
  simp only [Bool.false_eq_true, if_false] at hy
  cases hh : syncHead h i plan with
  | inl o =>
    rw [hh] at hy
    simp only at hy
    rcases syncHead_inl_store hh with h1 | ⟨sL, h1, h2⟩
    · rw [h1] at hy; exact fromAdopted_of_mem hy
    · rw [h2] at hy
      have := fromAdopted_of_pick h plan _ _ _ sL hy
      rwa [h1] at this
  | inr t =>
    obtain ⟨claimed, revs, cur, upd, cc, s⟩ := t
    rw [hh] at hy
    simp only at hy
    obtain ⟨A, sL, hA, _, _, _, _, hsLs, _, _, hpick, _⟩ := syncHead_inr hh
    have hAs : adoptedStore plan i = A.store := by unfold adoptedStore; rw [hA]
    have hs : s.store = (pickF h plan i.template (i.collisionCount.getD 0) revs sL).1.store := by rw [hpick]
    have hys : y ∈ s.store := by
      obtain ⟨_, _, _, o4⟩ := syncTail_spec i plan claimed revs cur upd cc s
      rcases o4 with ⟨_, k2, _, _⟩ | ⟨sT, t1, _, _, t4, _, _⟩
      · rwa [k2] at hy
      · rw [t4] at hy
        have := (truncateF_store plan i.historyLimit _ _ cur upd sT).1.subset hy
        rwa [t1] at this
    rw [hs] at hys
    have := fromAdopted_of_pick h plan _ _ _ sL hys
    rwa [hsLs, ← hAs] at this

/-- a sync that ended `.ok` went through an adoption stage that ended `.ok` -/
theorem sync_ok_adopt_ok (h : Hashing) (i : SyncIn) (plan : List Fault) (hrun : (i.paused || !i.selectorOk) = false)
    (hok : (syncF h i plan).outcome = .ok) :
    (adoptOrphanRevisionsF plan i.view.deleting i.fresh { store := i.store }).2 = .ok := by
  rcases sync_cases h i plan hrun with ⟨hne, _⟩ | ⟨⟨R⟩⟩
  · exact absurd hok hne
  · exact R.hadopt

/-! ## the adoption stage when adoption is not allowed -/

/-- position by position the same names and the same owners -/
def KeepsOwner (s t : List Rev) : Prop := ∃ f : Rev → Rev, (∀ x, (f x).name = x.name ∧ (f x).owner = x.owner) ∧ t = s.map f

theorem KeepsOwner.refl (s : List Rev) : KeepsOwner s s := ⟨id, fun _ => ⟨rfl, rfl⟩, by simp⟩

theorem KeepsOwner.step {s t : List Rev} (h : KeepsOwner s t) {g : Rev → Rev} (hg : ∀ x, (g x).name = x.name ∧ (g x).owner = x.owner) :
    KeepsOwner s (t.map g) := by
  obtain ⟨f, hf, rfl⟩ := h
  exact ⟨g ∘ f, fun x => ⟨(hg (f x)).1.trans (hf x).1, (hg (f x)).2.trans (hf x).2⟩, by simp⟩

theorem setSel_keeps (name : String) (x : Rev) : (setSel name x).name = x.name ∧ (setSel name x).owner = x.owner := by
  unfold setSel; split <;> exact ⟨rfl, rfl⟩

theorem labelStep_keeps (plan : List Fault) (s0 : List Rev) (b : RevSt) (r : Rev) (hb : KeepsOwner s0 b.store) :
    KeepsOwner s0 (labelStep plan b r).1.store := by
  unfold labelStep
  split
  · split
    · exact hb
    · exact hb.step (setSel_keeps r.name)
  · exact hb

/-- **no adoption without confirmation**: when the cached set is being deleted, or the uncached read finds the set gone,
    re-created (other uid) or carrying a deletion timestamp, the adoption stage changes the owner of no stored revision —
    whatever the fault plan, and whether the stage ends well or not (the label sync may have run) -/
theorem adopt_keeps_owner (plan : List Fault) (del : Bool) (fresh : Fresh) (s : RevSt)
    (hno : (freshOk fresh && !del) = false) :
    KeepsOwner s.store (adoptOrphanRevisionsF plan del fresh s).1.store := by
  rw [adopt_eq]
  have h0 : KeepsOwner s.store (listRevsF plan s).1.store := by rw [listRevsF_store]; exact KeepsOwner.refl _
  split
  · exact KeepsOwner.refl _
  · rename_i hdel
    split
    · exact h0
    · rename_i revs _
      have h1 : KeepsOwner s.store (foldOk revs (listRevsF plan s).1 (labelStep plan)).1.store :=
        foldOk_inv (fun b => KeepsOwner s.store b.store) revs _ _ (fun b x hb => labelStep_keeps plan _ b x hb) h0
      split
      · exact h0
      · simp only
        split
        · exact h1
        · split
          · exact h1
          · rename_i hcond
            exfalso
            have hd : del = false := by simpa using hdel
            simp only [Bool.or_eq_true, Bool.not_eq_true', not_or, Bool.not_eq_true, Bool.not_eq_false] at hcond
            obtain ⟨⟨⟨_, h2⟩, h3⟩, h4⟩ := hcond
            simp [freshOk, h2, h3, h4, hd] at hno

/-! ## `C11.revowner` -/

theorem mem_of_name {st : List Rev} (hnd : (st.map (·.name)).Nodup) {x y : Rev} (hx : x ∈ st) (hy : y ∈ st)
    (hn : x.name = y.name) : x = y := List.inj_on_of_nodup_map hnd hx hy hn

/-- `Prop` reading of `C11.revowner`: when adoption is not allowed, a revision of the final store that bears the name of an
    input revision the set did not control is not controlled by the set -/
theorem revowner_prop (h : Hashing) (i : SyncIn) (plan : List Fault) (hnd : SYa.StoreNamesOk i)
    (hno : (freshOk i.fresh && !i.view.deleting) = false) :
    ∀ r ∈ i.store, r.owner ≠ .self → ∀ y ∈ (syncF h i plan).store, y.name = r.name → y.owner ≠ .self := by
  intro r hr hro y hy hyn
  by_cases hrun : (i.paused || !i.selectorOk) = true
  · rw [SYb.syncF_eq, if_pos hrun] at hy
    have : y = r := mem_of_name hnd hy hr hyn
    rw [this]; exact hro
  · have hrun' : (i.paused || !i.selectorOk) = false := by simpa using hrun
    obtain ⟨f, hf, hA⟩ := adopt_keeps_owner plan i.view.deleting i.fresh { store := i.store } hno
    have hA' : adoptedStore plan i = i.store.map f := hA
    rcases sync_store_fromAdopted h i plan hrun' y hy with ⟨x, hx, hxn, hxo⟩ | ⟨_, hfree⟩
    · rw [hA'] at hx
      obtain ⟨x0, hx0, rfl⟩ := List.mem_map.mp hx
      have : x0 = r := mem_of_name hnd hx0 hr (by rw [← (hf x0).1, ← hxn, hyn])
      subst this
      rw [hxo, (hf x0).2]; exact hro
    · exfalso
      refine hfree (f r) ?_ (by rw [(hf r).1, hyn])
      rw [hA']; exact List.mem_map_of_mem hr

/-- **`C11.revowner`**: the clause of `monitorSync` is true on the model for every hashing, world and fault plan with
    unique revision names -/
theorem C11revowner_holds (h : Hashing) (i : SyncIn) (plan : List Fault) (hnd : SYa.StoreNamesOk i) :
    C11revowner i (syncF h i plan).observe = true := by
  unfold C11revowner
  by_cases hno : (freshOk i.fresh && !i.view.deleting) = true
  · rw [hno]; rfl
  · have hno' : (freshOk i.fresh && !i.view.deleting) = false := by simpa using hno
    rw [hno', Bool.false_or, List.all_eq_true]
    intro r hr
    by_cases hro : r.owner = .self
    · simp [hro]
    · rw [Bool.or_eq_true]
      right
      rw [SYa.observe_revs, List.all_eq_true]
      intro d hd
      obtain ⟨y, hy, rfl⟩ := List.mem_map.mp hd
      by_cases hyn : y.name = r.name
      · have := revowner_prop h i plan hnd hno' r hr hro y hy hyn
        simp [SYa.digest, this]
      · simp [SYa.digest, hyn]

/-! ## `C18.adopted` -/

theorem ownAll_name (N : List String) (x : Rev) : (ownAll N x).name = x.name := by unfold ownAll; split <;> rfl
theorem selAll_name (N : List String) (x : Rev) : (selAll N x).name = x.name := by unfold selAll; split <;> rfl
theorem ownAll_owner_of_mem {N : List String} {x : Rev} (h : x.name ∈ N) : (ownAll N x).owner = .self := by
  unfold ownAll
  rw [if_pos (by simpa using h)]

/-- **every visible orphan is adopted by a sync that succeeds** — for EVERY fault plan: a sync of a running set (not
    paused, selector valid, not being deleted in the cache) that ended `.ok` leaves every input revision that nobody
    controlled and that it can see (selector labels or upgrade marker) controlled by the set, if it is still there.
    (`freshOk` and an empty plan, the other guards of the monitor clause, are not needed: an adoption stage that ended well
    with an orphan in sight has confirmed the set.) -/
theorem orphans_adopted_prop (h : Hashing) (i : SyncIn) (plan : List Fault) (hnd : SYa.StoreNamesOk i)
    (hrun : (i.paused || !i.selectorOk) = false) (hdel : i.view.deleting = false) (hok : (syncF h i plan).outcome = .ok) :
    ∀ r ∈ i.store, r.owner = .none → (r.selMatch = true ∨ r.marker = true) →
      ∀ y ∈ (syncF h i plan).store, y.name = r.name → y.owner = .self := by
  intro r hr hro hvis y hy hyn
  have hadopt := sync_ok_adopt_ok h i plan hrun hok
  have hlisted : r ∈ listRevisions i.store := (mem_listRevisions_iff hnd).2 ⟨hr, hvis, by rw [hro]; simp⟩
  have hA : adoptOrphanRevisionsF plan i.view.deleting i.fresh { store := i.store } =
      ((adoptOrphanRevisionsF plan i.view.deleting i.fresh { store := i.store }).1, .ok) := by
    rw [← hadopt]
  rcases adopt_ok_exact plan i.view.deleting i.fresh { store := i.store } _ hA with ⟨hnone, _, _⟩ | ⟨_, _, hst, _, _⟩
  · exfalso
    rcases hnone with hd | hnone
    · rw [hdel] at hd; cases hd
    · simp only at hnone
      rw [List.any_eq_false] at hnone
      exact hnone r hlisted (by rw [hro]; rfl)
  · simp only at hst
    have hN : r.name ∈ orphanNames (listRevisions i.store) := by
      unfold orphanNames
      exact List.mem_map.mpr ⟨r, List.mem_filter.mpr ⟨hlisted, by rw [hro]; rfl⟩, rfl⟩
    rcases sync_store_fromAdopted h i plan hrun y hy with ⟨x, hx, hxn, hxo⟩ | ⟨hself, _⟩
    · have hx' : x ∈ (List.map (selAll (markerNames (listRevisions i.store))) i.store).map
          (ownAll (orphanNames (listRevisions i.store))) := by
        rw [← hst]; exact hx
      obtain ⟨x1, hx1, rfl⟩ := List.mem_map.mp hx'
      rw [hxo]
      apply ownAll_owner_of_mem
      rw [ownAll_name] at hxn
      rw [← hxn, hyn]; exact hN
    · exact hself

theorem observe_out_ne_ok (o : SyncOut) : (o.observe.out != "ok") = true ↔ o.outcome ≠ .ok := by
  unfold SyncOut.observe
  cases o.outcome <;> simp

/-- **`C18.adopted`**: the clause of `monitorSync` is true on the model for every hashing, world and fault plan with unique
    revision names -/
theorem C18adopted_holds (h : Hashing) (i : SyncIn) (plan : List Fault) (hnd : SYa.StoreNamesOk i) :
    C18adopted i plan (syncF h i plan).observe = true := by
  unfold C18adopted
  by_cases hout : ((syncF h i plan).observe.out != "ok") = true
  · simp [hout]
  by_cases hp : i.paused = true
  · simp [hp]
  by_cases hs : i.selectorOk = true
  swap
  · simp [hs]
  by_cases hd : i.view.deleting = true
  · simp [hd]
  have hok : (syncF h i plan).outcome = .ok := by
    by_contra hne
    exact hout ((observe_out_ne_ok _).2 hne)
  have hrun : (i.paused || !i.selectorOk) = false := by simp [hp, hs]
  have hdel : i.view.deleting = false := by simpa using hd
  have key := orphans_adopted_prop h i plan hnd hrun hdel hok
  have hall : (i.store.all fun r => !(r.owner == Owner.none && (r.selMatch || r.marker)) ||
      (syncF h i plan).observe.revs.all fun d => d.name != r.name || d.owner == Owner.self) = true := by
    rw [List.all_eq_true]
    intro r hr
    by_cases hvis : (r.owner == Owner.none && (r.selMatch || r.marker)) = true
    swap
    · simp [hvis]
    rw [Bool.or_eq_true]
    right
    rw [Bool.and_eq_true, Bool.or_eq_true] at hvis
    rw [SYa.observe_revs, List.all_eq_true]
    intro d hdm
    obtain ⟨y, hy, rfl⟩ := List.mem_map.mp hdm
    by_cases hyn : y.name = r.name
    · have := key r hr (by simpa using hvis.1) hvis.2 y hy hyn
      simp [SYa.digest, this]
    · simp [SYa.digest, hyn]
  rw [hall]
  simp

end Asts.GL2
