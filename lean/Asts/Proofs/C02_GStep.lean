import Asts.Proofs.C02_GMeasure

/-! C02, policy-independent: one round on a normal, settled world, given that the reconcile ends `.ok` and its calls satisfy
    `ActFacts`: the next settled world is normal and settled, its pods are the raw next pods up to order and ids, and the
    measure behaves as in `mu_stepG`. -/
namespace Asts.C02p
open Asts Asts.L1c

/-- normal and settled (any policy) -/
structure NSC (h : Hashing) (j : SyncIn) : Prop where
  norm : NormC h j
  ids : IdOk j.pods
  settled : ∀ c ∈ j.pods, c.pod.terminating = false ∧ (c.pod.fs = true ∨ c.pod.runningAndReady = true)
  room : (j.pods.filter (fun c => !(desired (replicasOf j.view) j.view.slots).contains c.pod.ord)).length +
           (replicasOf j.view).toNat ≤ freshId

theorem NSC.ctx {h : Hashing} {j : SyncIn} (hs : NSC h j) : PodsCtx j.setName j.pods := by
  refine ⟨?_, hs.norm.ords, hs.ids, hs.norm.small, hs.settled⟩
  intro c hc
  exact hs.norm.pods c hc

/-- the next settled world -/
def nextW (h : Hashing) (j : SyncIn) : SyncIn := settle (applySync j [] (syncF h j []))

theorem settle_round (h : Hashing) (i : SyncIn) : settle (round h i []).1 = nextW h (settle i) := rfl

def bOf (j : SyncIn) : Int := (maxReplicaAndSlots (replicasOf j.view) j.view.slots).1
def EOf (j : SyncIn) : List Int := (maxReplicaAndSlots (replicasOf j.view) j.view.slots).2

theorem bOf_nonneg {h : Hashing} {j : SyncIn} (hn : NormC h j) : 0 ≤ bOf j := (maxReplica_facts _ _ hn.spec.r0).1
theorem EOf_nonneg {h : Hashing} {j : SyncIn} (hn : NormC h j) : ∀ e ∈ EOf j, 0 ≤ e := (maxReplica_facts _ _ hn.spec.r0).2
theorem mem_desired_iff {h : Hashing} {j : SyncIn} (hn : NormC h j) (o : Int) :
    o ∈ desired (replicasOf j.view) j.view.slots ↔ inRange (bOf j) (EOf j) o = true := by
  rw [desired_eq_idxOf _ _ hn.spec.r0]; exact mem_idxOf

/-- what a policy has to provide for one world: the reconcile ends `.ok`, and the pods its calls leave are among those
    that a list of calls satisfying `ActFacts` leaves (the calls themselves, or the calls without a final update-walk delete
    that takes down a pod created in the same reconcile — the legacy boundary mode) -/
structure Pol {h : Hashing} {j : SyncIn} (hn : NormC h j) : Prop where
  ok : hn.recon.2 = .ok
  sub : ∃ A, ActFacts j.view hn.curRev.name hn.updRev.name (bOf j) (EOf j) j.pods A ∧
    (nextRawG j.setName j.pods hn.recon.1.acts).Sublist (nextRawG j.setName j.pods A)

theorem Pol.of_facts {h : Hashing} {j : SyncIn} {hn : NormC h j} (hok : hn.recon.2 = .ok)
    (hf : ActFacts j.view hn.curRev.name hn.updRev.name (bOf j) (EOf j) j.pods hn.recon.1.acts) : Pol hn :=
  ⟨hok, _, hf, List.Sublist.refl _⟩

/-- the raw next pods of a normal world -/
noncomputable def rawNext {h : Hashing} {j : SyncIn} (hn : NormC h j) : List CPod :=
  nextRawG j.setName j.pods hn.recon.1.acts

/-- the status the sync of a normal world leaves in the API -/
noncomputable def storedNext {h : Hashing} {j : SyncIn} (hn : NormC h j) : Status :=
  if inconsistentStatus j.stored (completeRollingUpdate j.view hn.recon.1.status)
  then completeRollingUpdate j.view hn.recon.1.status else j.stored

section
variable {h : Hashing} {j : SyncIn}

theorem nextW_eq (hs : NSC h j) (hp : Pol hs.norm) :
    nextW h j = settle { j with
      store := j.store.filter hs.norm.keep,
      stored := storedNext hs.norm,
      collisionCount := (if inconsistentStatus j.stored (completeRollingUpdate j.view hs.norm.recon.1.status)
                   then some (j.collisionCount.getD 0) else j.collisionCount),
      view := { j.view with stCurrentReplicas := (storedNext hs.norm).current },
      pods := reindex (sortPods (applyActs j.setName j.pods j.pods hs.norm.recon.1.acts)) } := by
  unfold nextW
  rw [(applySync_normC h j hs.norm hp.ok).1]
  rfl

theorem nextW_pods (hs : NSC h j) (hp : Pol hs.norm) : KeyPerm (nextW h j).pods (rawNext hs.norm) := by
  rw [nextW_eq hs hp]
  exact settle_keyPerm _ _ rfl

theorem nextW_store (hs : NSC h j) (hp : Pol hs.norm) : (nextW h j).store = j.store.filter hs.norm.keep := by
  rw [nextW_eq hs hp]; rfl

theorem keep_eq (hn : NormC h j) : hn.keep = fun r => (fun n => !(hn.victims.map (·.name)).contains n) r.name := by
  funext r; rfl

theorem victims_sub_hist {lim : Int} {podRevs : List String} {revs : List Rev} {cur upd : Rev} {r : Rev}
    (hr : r ∈ victimsOf lim podRevs revs cur upd) : r ∈ histOf podRevs revs cur upd := by
  unfold victimsOf at hr
  split_ifs at hr
  · cases hr
  · exact List.mem_of_mem_take hr

/-- a revision whose name is in use is never a victim of the truncation -/
theorem keep_of_live (hn : NormC h j) {x : Rev}
    (hx : x.name ∈ hn.curRev.name :: hn.updRev.name :: j.pods.map (·.pod.rev)) : hn.keep x = true := by
  unfold NormC.keep
  rw [Bool.not_eq_true', Bool.eq_false_iff, ne_eq, List.contains_iff_mem, List.mem_map]
  rintro ⟨r, hr, hrn⟩
  have := (List.mem_filter.1 (victims_sub_hist hr)).2
  simp only [Bool.and_eq_true, Bool.not_eq_true'] at this
  have hnot : (hn.curRev.name :: hn.updRev.name :: j.pods.map (·.pod.rev)).contains r.name = false := this.1
  rw [Bool.eq_false_iff, ne_eq, List.contains_iff_mem, hrn] at hnot
  exact hnot hx

/-- the update revision is never a victim of the truncation -/
theorem keep_updRev (hn : NormC h j) : hn.keep hn.updRev = true :=
  keep_of_live hn (List.mem_cons_of_mem _ List.mem_cons_self)

/-- the listing of the next world: the old listing without the victims -/
theorem nextW_listed (hs : NSC h j) (hp : Pol hs.norm) :
    listedRevs (nextW h j) = (listedRevs j).filter hs.norm.keep := by
  have h1 : listedRevs (nextW h j) = sortRevs (listRevisions (j.store.filter hs.norm.keep)) := by
    unfold listedRevs; rw [nextW_store hs hp]
  rw [h1, keep_eq]
  exact listedRevs_filter (fun n => !(hs.norm.victims.map (·.name)).contains n) j _ rfl

theorem nextW_last (hs : NSC h j) (hp : Pol hs.norm) : (listedRevs (nextW h j)).getLast? = some hs.norm.updRev := by
  rw [nextW_listed hs hp]
  exact getLast?_filter_of_last _ _ _ hs.norm.updRev_spec.1 (keep_updRev hs.norm)

theorem equalRev_number (l : Rev) (f : Rev) (n : Int) : equalRev l { f with number := n } = equalRev l f := rfl
theorem nextW_stored (hs : NSC h j) (hp : Pol hs.norm) : (nextW h j).stored = storedNext hs.norm := by rw [nextW_eq hs hp]; rfl
theorem nextW_template (hs : NSC h j) (hp : Pol hs.norm) : (nextW h j).template = j.template := by rw [nextW_eq hs hp]; rfl
theorem nextW_limit (hs : NSC h j) (hp : Pol hs.norm) : (nextW h j).historyLimit = j.historyLimit := by rw [nextW_eq hs hp]; rfl
theorem nextW_setName (hs : NSC h j) (hp : Pol hs.norm) : (nextW h j).setName = j.setName := by rw [nextW_eq hs hp]; rfl
theorem nextW_view (hs : NSC h j) (hp : Pol hs.norm) :
    (nextW h j).view = { j.view with stCurrentReplicas := (storedNext hs.norm).current } := by rw [nextW_eq hs hp]; rfl
theorem nextW_cc (hs : NSC h j) (hp : Pol hs.norm) : (nextW h j).collisionCount.getD 0 = j.collisionCount.getD 0 := by
  rw [nextW_eq hs hp]
  show (if _ then some (j.collisionCount.getD 0) else j.collisionCount).getD 0 = _
  split_ifs <;> rfl

/-- what is known of a pod of the raw next list, in the shape `NormC` wants it -/
theorem rawNext_pod (hs : NSC h j) (hp : Pol hs.norm) {y : CPod} (hy : y ∈ rawNext hs.norm) :
    y.owner = .self ∧ y.member = true ∧ y.selMatch = true ∧ y.name = canonicalName j.setName y.pod.ord ∧
    0 ≤ y.pod.ord ∧ y.pod.stOk = true ∧ y.pod.created = true ∧
    (inRange (bOf j) (EOf j) y.pod.ord = true ∨ ∃ c ∈ j.pods, c.pod.ord = y.pod.ord) ∧
    (y.pod.fs = true → ∃ c ∈ j.pods, c.pod.ord = y.pod.ord ∧ c.pod.fs = true) := by
  have hn := hs.norm
  obtain ⟨A, hA, hsub⟩ := hp.sub
  have hy' : y ∈ nextRawG j.setName j.pods A := hsub.subset hy
  rcases nextRawG_mem hs.ctx hA hy' with ⟨c, hcm, _, hsame, hown, _, _⟩ | ⟨o, rev, hcr, rfl⟩
  · obtain ⟨a1, a2, a3, a4, a5, a7, a8⟩ := hn.pods c hcm
    refine ⟨hown, by rw [hsame.mem]; exact a2, by rw [hsame.sel]; exact a3, by rw [hsame.name, hsame.ord]; exact a4,
      by rw [hsame.ord]; exact a5, by rw [hsame.stOk]; exact a7, ?_,
      Or.inr ⟨c, hcm, hsame.ord.symm⟩, ?_⟩
    · unfold Pod.created at a8 ⊢; rw [hsame.phase]; exact a8
    · intro hfs
      refine ⟨c, hcm, hsame.ord.symm, ?_⟩
      unfold Pod.fs Pod.failed Pod.succeeded at hfs ⊢; rw [← hsame.phase]; exact hfs
  · rw [settleOne_mkPod]
    have hr0 := (hA.cre o rev hcr).1
    have hr := hr0
    unfold inRange at hr
    simp only [Bool.and_eq_true, decide_eq_true_eq] at hr
    refine ⟨rfl, rfl, rfl, rfl, hr.1.1, rfl, by simp [Pod.created], Or.inl hr0, ?_⟩
    intro hfs
    simp [Pod.fs, Pod.failed, Pod.succeeded] at hfs

theorem length_le_of_nodup_ords {l : List CPod} {D : List Int} (hnd : (l.map (·.pod.ord)).Nodup)
    (hsub : ∀ x ∈ l, x.pod.ord ∈ D) : l.length ≤ D.length := by
  have : (l.map (·.pod.ord)).Subperm D := List.subperm_of_subset hnd (by
    intro o ho
    rw [List.mem_map] at ho
    obtain ⟨x, hx, rfl⟩ := ho
    exact hsub x hx)
  simpa using this.length_le

theorem length_split_le {l : List CPod} {D : List Int} (hnd : (l.map (·.pod.ord)).Nodup) :
    l.length ≤ D.length + (l.filter (fun c => !D.contains c.pod.ord)).length := by
  have h1 : l.length = (l.filter (fun c => D.contains c.pod.ord)).length + (l.filter (fun c => !D.contains c.pod.ord)).length := by
    have := List.length_eq_length_filter_add (l := l) (fun c => D.contains c.pod.ord)
    simpa using this
  have h2 : (l.filter (fun c => D.contains c.pod.ord)).length ≤ D.length :=
    length_le_of_nodup_ords ((List.Sublist.map _ List.filter_sublist).nodup hnd)
      (fun x hx => by simpa using (List.mem_filter.1 hx).2)
  omega

/-- the measure of the next settled world -/
theorem rawNext_nodup (hs : NSC h j) (hp : Pol hs.norm) : ((rawNext hs.norm).map (·.pod.ord)).Nodup := by
  obtain ⟨A, hA, hsub⟩ := hp.sub
  exact (hsub.map _).nodup (nextRawG_ords_nodup hs.ctx hA)

theorem muPods_next (hs : NSC h j) (hp : Pol hs.norm) :
    muPods (nextW h j) = muOf j.view hs.norm.updRev.name (desired (replicasOf j.view) j.view.slots) (rawNext hs.norm) := by
  have hn := hs.norm
  have hview := nextW_view hs hp
  have hD : desired (replicasOf (nextW h j).view) (nextW h j).view.slots = desired (replicasOf j.view) j.view.slots := by
    rw [hview]; rfl
  have hupd : updName (nextW h j) = hn.updRev.name := by
    unfold updName
    rw [nextW_last hs hp]; rfl
  rw [muPods_eq, hD, hupd, muOf_keyPerm (nextW_pods hs hp) (rawNext_nodup hs hp), hview]
  rfl

/-- **the measure, one round**: never up; down whenever an `Event` happens -/
theorem mu_stepC (hs : NSC h j) (hp : Pol hs.norm) (hpart : PartOk j.view)
    (hf : ActFacts j.view hs.norm.curRev.name hs.norm.updRev.name (bOf j) (EOf j) j.pods hs.norm.recon.1.acts) :
    muPods (nextW h j) ≤ muPods j ∧
    (Event (bOf j) (EOf j) j.pods hs.norm.recon.1.acts → muPods (nextW h j) < muPods j) := by
  have hn := hs.norm
  rw [muPods_next hs hp, muPods_eq j, hn.updName]
  exact mu_stepG hs.ctx hf hpart _ (mem_desired_iff hn)

/-- **a round keeps a normal, settled world normal and settled** -/
theorem nextW_ns (hs : NSC h j) (hp : Pol hs.norm) : NSC h (nextW h j) := by
  have hn := hs.norm
  have hkp := nextW_pods hs hp
  have hraw_nd := rawNext_nodup hs hp
  have hpods : ∀ x ∈ (nextW h j).pods, ∃ y ∈ rawNext hn, key y = key x := fun x hx => hkp.mem hx
  have hview := nextW_view hs hp
  have hrep : replicasOf (nextW h j).view = replicasOf j.view := by rw [hview]; rfl
  have hslots : (nextW h j).view.slots = j.view.slots := by rw [hview]
  have hnd' : ((nextW h j).pods.map (·.pod.ord)).Nodup := (hkp.ords.nodup_iff).2 hraw_nd
  have hroom : ((nextW h j).pods.filter (fun c => !(desired (replicasOf j.view) j.view.slots).contains c.pod.ord)).length ≤
      (j.pods.filter (fun c => !(desired (replicasOf j.view) j.view.slots).contains c.pod.ord)).length := by
    rw [(hkp.filter (fun c => !(desired (replicasOf j.view) j.view.slots).contains c.pod.ord) (fun _ => rfl)).length]
    obtain ⟨A, hA, hsub⟩ := hp.sub
    exact le_trans (hsub.filter _).length_le (step_condemnedG hs.ctx hA _ (mem_desired_iff hn)).1
  have hsmall : (nextW h j).pods.length ≤ freshId := by
    have h1 := length_split_le (D := desired (replicasOf j.view) j.view.slots) hnd'
    rw [(desired_isDesired _ _).len] at h1
    have := hs.room
    omega
  refine ⟨⟨?_, ?_, ?_, ?_, ?_, hsmall, ?_, ?_⟩, idOk_of_idPos (settle_idPos _) hsmall, settle_settled _, ?_⟩
  · rw [nextW_eq hs hp]
    exact ⟨hn.spec.paused, hn.spec.sel, hn.spec.del, hn.spec.rep, hn.spec.r0, hn.spec.strat, hn.spec.lim⟩
  · intro x hx
    obtain ⟨y, hy, hk⟩ := hpods x hx
    obtain ⟨a1, a2, a3, a4, a5, a7, a8, -⟩ := rawNext_pod hs hp hy
    have e1 : y.owner = x.owner := key_transfer (·.owner) (fun _ => rfl) hk
    have e2 : y.member = x.member := key_transfer (·.member) (fun _ => rfl) hk
    have e3 : y.selMatch = x.selMatch := key_transfer (·.selMatch) (fun _ => rfl) hk
    have e4 : y.name = x.name := key_transfer (·.name) (fun _ => rfl) hk
    have e5 : y.pod.ord = x.pod.ord := key_transfer (·.pod.ord) (fun _ => rfl) hk
    have e7 : y.pod.stOk = x.pod.stOk := key_transfer (·.pod.stOk) (fun _ => rfl) hk
    have e8 : y.pod.created = x.pod.created := key_transfer (·.pod.created) (fun _ => rfl) hk
    rw [nextW_setName hs hp, ← e1, ← e2, ← e3, ← e4, ← e5, ← e7, ← e8]
    exact ⟨a1, a2, a3, a4, a5, a7, a8⟩
  · exact hnd'
  · refine ⟨hn.updRev, nextW_last hs hp, ?_⟩
    have heq := hn.updRev_spec.2
    unfold freshRev at heq ⊢
    rw [nextW_template hs hp, nextW_cc hs hp]
    exact heq
  · rw [nextW_store hs hp]
    have : listRevisions (j.store.filter hn.keep) = (listRevisions j.store).filter hn.keep := by
      rw [keep_eq]
      exact listRevisions_filter (fun n => !(hn.victims.map (·.name)).contains n) j.store
    rw [this]
    have h0 := hn.noOrphanRev
    rw [Bool.eq_false_iff, ne_eq, List.any_eq_true] at h0 ⊢
    rintro ⟨x, hx, hxo⟩
    exact h0 ⟨x, List.mem_of_mem_filter hx, hxo⟩
  · rw [hrep]; exact hn.smallR
  · rfl
  · rw [hrep, hslots]
    have := hs.room
    omega

end

end Asts.C02p
