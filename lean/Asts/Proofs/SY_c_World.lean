import Asts.Proofs.SY_c_Sync

/-! # C09 (iv): without faults the only errors are world reasons

With the empty plan no call fails by injection. What can still make a phase fail is listed here phase by phase:
the uncached read of the set says it is gone / has another uid / is being deleted while an adoption needs it; every name
the hashing offers is taken by a revision recording other data; a pod name is held by an object the set cannot use, or a
renamed pod is updated under a name nobody holds; the set is gone when its status is written. Listing, label-sync,
adoption patches, renumbering, the refreshing reads and history truncation never fail. -/
set_option linter.unusedTactic false
namespace Asts.SYc

/-! ### generic -/

theorem foldOk_all_true {α β} (f : β → α → β × Bool) (hf : ∀ b x, (f b x).2 = true) :
    ∀ (xs : List α) (init : β), (foldOk xs init f).2 = true
  | [], _ => rfl
  | x :: xs, init => by
    rw [foldOk_cons, if_pos (hf init x)]
    exact foldOk_all_true f hf xs _

/-! ### adoption of orphan revisions -/

theorem labelStep_nil (s : RevSt) (r : Rev) : (labelStep [] s r).2 = true := by
  unfold labelStep
  split_ifs <;> rfl

theorem ownStep_nil (s : RevSt) (r : Rev) : (ownStep [] s r).2 = true := by
  unfold ownStep
  split_ifs <;> rfl

/-- fault-free, the adoption phase fails only when an orphan revision is listed, the set is not (in the cache) being
    deleted, and the uncached read finds it gone / with another uid / being deleted; it never panics -/
theorem adopt_nil (del : Bool) (fresh : Fresh) (s : RevSt) :
    (adoptOrphanRevisionsF [] del fresh s).2 = .ok ∨
    ((adoptOrphanRevisionsF [] del fresh s).2 = .err ∧ del = false ∧
      (listRevisions s.store).any (·.owner == .none) = true ∧ freshOk fresh = false) := by
  rw [adopt_eq]
  by_cases hdel : del = true
  · simp [hdel]
  · simp only [hdel, Bool.false_eq_true, if_false]
    have hdel' : del = false := by simpa using hdel
    rw [listRevsF_nil]
    simp only
    by_cases hany : (listRevisions s.store).any (·.owner == .none) = true
    · simp only [hany, Bool.not_true, Bool.false_eq_true, if_false]
      unfold adoptTail
      simp only [foldOk_all_true _ labelStep_nil, Bool.not_true, Bool.false_eq_true, if_false, planAt_nil,
        Option.isSome_none, Bool.false_or, foldOk_all_true _ ownStep_nil, if_true]
      by_cases hf : (fresh.gone || !fresh.uidOk || fresh.deleting) = true
      · right
        have hfo : freshOk fresh = false := by
          unfold freshOk
          revert hf
          cases fresh.gone <;> cases fresh.uidOk <;> cases fresh.deleting <;> simp
        refine ⟨?_, ?_, ?_, ?_⟩
        · simp only [hf, if_true]
        · trivial
        · trivial
        · exact hfo
      · left; simp only [hf, Bool.false_eq_true, if_false]
    · left
      have : (!(listRevisions s.store).any (·.owner == .none)) = true := by simpa using hany
      simp only [this, if_true]

/-! ### claiming pods -/

/-- what the claim loop has established so far, fault-free -/
def ClaimInv (del : Bool) (fresh : Fresh) (pods : List CPod) (o : ClaimOutF) : Prop :=
  (o.failed = true → freshOk fresh = false ∧ ∃ c ∈ pods, claimDecision del c = .adopt) ∧
  (∀ b, o.canAdopt = some b → b = freshOk fresh)

theorem canAdoptStep_nil (fresh : Fresh) (o : ClaimOutF) (hc : ∀ b, o.canAdopt = some b → b = freshOk fresh) :
    (canAdoptStep [] fresh o).2 = freshOk fresh ∧ (canAdoptStep [] fresh o).1.failed = o.failed ∧
    (∀ b, (canAdoptStep [] fresh o).1.canAdopt = some b → b = freshOk fresh) := by
  unfold canAdoptStep
  cases hca : o.canAdopt with
  | some b => exact ⟨hc b hca, rfl, by simpa [hca] using hc⟩
  | none =>
    simp only [planAt_nil, Option.isNone_none, Bool.true_and]
    refine ⟨?_, trivial, ?_⟩
    · unfold freshOk; rfl
    · intro b hb
      simp only [Option.some.injEq] at hb
      rw [← hb]; unfold freshOk; rfl

theorem claimStep_nil (del : Bool) (fresh : Fresh) (pods : List CPod) (o : ClaimOutF) (c : CPod) (hc : c ∈ pods)
    (h : ClaimInv del fresh pods o) : ClaimInv del fresh pods (claimStep [] del fresh o c) := by
  unfold claimStep
  cases hd : claimDecision del c <;> simp only [planAt_nil]
  · exact h
  · -- adopt
    obtain ⟨h1, h2, h3⟩ := canAdoptStep_nil fresh o h.2
    split_ifs with hcan
    · refine ⟨fun _ => ⟨?_, c, hc, hd⟩, h3⟩
      rw [← h1]; simpa using hcan
    · refine ⟨fun hf => h.1 (by rw [← h2]; exact hf), h3⟩
  · exact h
  · exact h

theorem foldl_claim_nil (del : Bool) (fresh : Fresh) (pods : List CPod) :
    ∀ (ps : List CPod) (o : ClaimOutF), (∀ c ∈ ps, c ∈ pods) → ClaimInv del fresh pods o →
      ClaimInv del fresh pods (ps.foldl (claimStep [] del fresh) o)
  | [], _, _, h => h
  | c :: ps, o, hsub, h => by
    simp only [List.foldl_cons]
    exact foldl_claim_nil del fresh pods ps _ (fun c' hc' => hsub c' (by simp [hc']))
      (claimStep_nil del fresh pods o c (hsub c (by simp)) h)

/-- fault-free, claiming fails only when some pod is to be adopted and the uncached read of the set refuses -/
theorem claim_nil (del : Bool) (fresh : Fresh) (pods : List CPod) (tr : Tr)
    (hf : (claimPodsF [] del fresh pods tr).failed = true) :
    freshOk fresh = false ∧ ∃ c ∈ pods, claimDecision del c = .adopt := by
  rw [claimPodsF_eq] at hf
  exact (foldl_claim_nil del fresh pods pods { tr := tr } (fun _ h => h)
    ⟨(by intro h; cases h), (by intro b h; cases h)⟩).1 hf

/-! ### revisions -/

/-- fault-free, renumbering succeeds at the first attempt -/
theorem renumberF_nil (name : String) (n : Int) (fuel : Nat) (s : RevSt) :
    renumberF [] name n (fuel + 1) s =
      ({ store := s.store.map (fun r => if r.name == name then { r with number := n } else r),
         tr := { log := s.tr.log ++ [kUpdateRev name] } }, true) := by
  rw [renumberF_succ]; rfl

/-- every name the hashing offers for this data, from collision count `cc` on for `fuel` steps, is taken by a stored
    revision recording other data -/
def probeFails (h : Hashing) (fresh : Rev) (store : List Rev) : Nat → Int → Bool
  | 0, _ => true
  | fuel + 1, cc =>
    match store.find? (·.name == h.nameOf fresh.data cc) with
    | none => false
    | some ex => if ex.data == fresh.data then false else probeFails h fresh store fuel (cc + 1)

/-- fault-free, `createControllerRevision` fails exactly when it runs out of names -/
theorem createRevLoopF_nil (h : Hashing) (fresh : Rev) :
    ∀ (fuel : Nat) (cc : Int) (s : RevSt),
      (createRevLoopF h [] fresh fuel cc s).2 = none ↔ probeFails h fresh s.store fuel cc = true
  | 0, _, _ => by simp [createRevLoopF, probeFails]
  | fuel + 1, cc, s => by
    rw [createRevLoopF_succ]
    unfold probeFails
    simp only [planAt_nil]
    cases hex : s.store.find? (fun r : Rev => r.name == h.nameOf fresh.data cc) with
    | none => simp
    | some ex =>
      simp only [Option.isSome_some, if_true]
      split_ifs with hd
      · simp
      · exact createRevLoopF_nil h fresh fuel (cc + 1) _

theorem pickRevF_nil (h : Hashing) (fresh : Rev) (cc0 : Int) (revs : List Rev) (s : RevSt)
    (hf : (pickRevF h [] fresh cc0 revs s).2 = none) :
    probeFails h fresh s.store (s.store.length + 8) cc0 = true := by
  unfold pickRevF at hf
  generalize (revs.filter (fun r => equalRev r fresh)).getLast? = a at hf
  generalize revs.getLast? = b at hf
  rcases a with _ | e <;> rcases b with _ | l <;> simp only at hf
  · exact (createRevLoopF_nil h fresh _ _ _).1 hf
  · exact (createRevLoopF_nil h fresh _ _ _).1 hf
  · exact (createRevLoopF_nil h fresh _ _ _).1 hf
  · rw [renumberF_nil] at hf
    split_ifs at hf
    rename_i hh
    exact absurd rfl hh

/-- fault-free, `getStatefulSetRevisions` fails only by running out of revision names -/
theorem getRevisionsF_nil (h : Hashing) (template scr : String) (cc0 : Int) (revs : List Rev) (s : RevSt)
    (hf : (getRevisionsF h [] template scr cc0 revs s).2 = none) :
    probeFails h (freshRev h template cc0 revs) s.store (s.store.length + 8) cc0 = true := by
  rw [getRevisionsF_eq] at hf
  rcases hp : pickRevF h [] (freshRev h template cc0 revs) cc0 revs s with ⟨s1, _ | ⟨upd, cc⟩⟩
  · exact pickRevF_nil h _ cc0 revs s (by rw [hp])
  · rw [hp] at hf; simp at hf

/-! ### status write -/

/-- fault-free, the status write fails exactly when the set no longer exists -/
theorem statusWriteF_nil (gone : Bool) (fuel : Nat) (t : Tr) :
    statusWriteF [] gone (fuel + 1) t = ({ log := t.log ++ ["updatestatus"] }, !gone) := by
  unfold statusWriteF
  simp [call_eq]

/-! ### history truncation never fails without faults -/

theorem deleteStep_nil (s : RevSt) (r : Rev) (hr : s.store.any (·.name == r.name) = true) :
    deleteStep [] s r =
      ({ store := s.store.filter (·.name != r.name), tr := { log := s.tr.log ++ [kDeleteRev r.name] } }, true) := by
  unfold deleteStep
  simp only [planAt_nil, Option.isSome_none, Bool.false_or, hr, Bool.not_true, Bool.false_eq_true, if_false]

theorem deleteFold_nil : ∀ (vs : List Rev) (s : RevSt), (vs.map (·.name)).Nodup →
    (∀ r ∈ vs, s.store.any (·.name == r.name) = true) → (foldOk vs s (deleteStep [])).2 = true
  | [], _, _, _ => rfl
  | r :: vs, s, hnd, hin => by
    rw [foldOk_cons, deleteStep_nil s r (hin r (by simp))]
    simp only [if_true]
    simp only [List.map_cons, List.nodup_cons] at hnd
    apply deleteFold_nil vs _ hnd.2
    intro r' hr'
    have hne : r'.name ≠ r.name := by
      intro e; exact hnd.1 (by rw [← e]; exact List.mem_map_of_mem hr')
    have := hin r' (by simp [hr'])
    simp only [List.any_eq_true, beq_iff_eq] at this ⊢
    obtain ⟨x, hx, hxn⟩ := this
    exact ⟨x, List.mem_filter.2 ⟨hx, by simpa [hxn] using hne⟩, hxn⟩

/-- fault-free, `truncateHistory` does not fail as long as the listed revisions have pairwise different names and are
    all still stored -/
theorem truncateF_nil (limit : Option Int) (podRevs : List String) (revs : List Rev) (cur upd : Rev) (s : RevSt)
    (hnd : (revs.map (·.name)).Nodup) (hin : ∀ r ∈ revs, s.store.any (·.name == r.name) = true) :
    (truncateF [] limit podRevs revs cur upd s).2 ≠ .err := by
  rw [truncateF_eq]
  cases limit with
  | none => simp
  | some lim =>
    simp only
    have hsub : ((historyOf podRevs revs cur upd).take ((historyOf podRevs revs cur upd).length - lim.toNat)).Sublist revs :=
      (List.take_sublist _ _).trans List.filter_sublist
    have := deleteFold_nil _ s (hnd.sublist (hsub.map _)) (fun r hr => hin r (hsub.subset hr))
    split_ifs with h1
    · simp
    · simp

/-! ### names: deduplicated listing, sorting, and what `getStatefulSetRevisions` does to the store -/

theorem dedupByName_names : ∀ (l : List Rev) (seen : List String),
    ((dedupByName l seen).map (·.name)).Nodup ∧ ∀ r ∈ dedupByName l seen, r.name ∉ seen
  | [], _ => by simp [dedupByName]
  | x :: l, seen => by
    unfold dedupByName
    split_ifs with hx
    · exact dedupByName_names l seen
    · obtain ⟨h1, h2⟩ := dedupByName_names l (x.name :: seen)
      refine ⟨?_, ?_⟩
      · simp only [List.map_cons, List.nodup_cons]
        refine ⟨?_, h1⟩
        intro hmem
        obtain ⟨r, hr, e⟩ := List.mem_map.1 hmem
        exact h2 r hr (by rw [e]; exact List.mem_cons_self)
      · intro r hr
        rcases List.mem_cons.1 hr with rfl | hr
        · simpa using hx
        · intro hs
          exact h2 r hr (List.mem_cons_of_mem _ hs)

theorem listRevisions_nodup (store : List Rev) : ((listRevisions store).map (·.name)).Nodup := by
  unfold listRevisions
  exact (dedupByName_names _ []).1.sublist (List.filter_sublist.map _)

theorem insertRev_perm (r : Rev) : ∀ (l : List Rev), (insertRev r l).Perm (r :: l)
  | [] => List.Perm.refl _
  | q :: qs => by
    unfold insertRev
    split_ifs
    · exact List.Perm.refl _
    · exact ((insertRev_perm r qs).cons q).trans (List.Perm.swap r q qs)

theorem foldl_insertRev_perm : ∀ (l acc : List Rev),
    (l.foldl (fun acc r => insertRev r acc) acc).Perm (l ++ acc)
  | [], acc => List.Perm.refl _
  | r :: l, acc => by
    simp only [List.foldl_cons, List.cons_append]
    refine (foldl_insertRev_perm l (insertRev r acc)).trans ?_
    refine ((insertRev_perm r acc).append_left l).trans ?_
    exact List.perm_middle

theorem sortRevs_perm (l : List Rev) : (sortRevs l).Perm l := by
  unfold sortRevs
  refine (foldl_insertRev_perm l.reverse []).trans ?_
  simp

theorem sortRevs_nodup (store : List Rev) : ((sortRevs (listRevisions store)).map (·.name)).Nodup :=
  ((sortRevs_perm _).map _).nodup_iff.2 (listRevisions_nodup store)

/-- `nm` is the name of a stored revision -/
def HasName (store : List Rev) (nm : String) : Prop := store.any (·.name == nm) = true

theorem hasName_of_mem {store : List Rev} {r : Rev} (h : r ∈ store) : HasName store r.name := by
  unfold HasName; simp only [List.any_eq_true, beq_iff_eq]; exact ⟨r, h, rfl⟩

theorem hasName_of_map_eq {a b : List Rev} (h : a.map (·.name) = b.map (·.name)) {nm : String} (hb : HasName b nm) :
    HasName a nm := by
  unfold HasName at hb ⊢
  simp only [List.any_eq_true, beq_iff_eq] at hb ⊢
  obtain ⟨x, hx, e⟩ := hb
  have : nm ∈ a.map (·.name) := by rw [h, ← e]; exact List.mem_map_of_mem hx
  obtain ⟨y, hy, e'⟩ := List.mem_map.1 this
  exact ⟨y, hy, e'⟩

theorem mem_insertByName (r : Rev) : ∀ (l : List Rev) (x : Rev), x ∈ l → x ∈ insertByName r l
  | [], _, h => by cases h
  | q :: qs, x, h => by
    unfold insertByName
    split_ifs
    · exact List.mem_cons_of_mem _ h
    · rcases List.mem_cons.1 h with rfl | h
      · exact List.mem_cons_self
      · exact List.mem_cons_of_mem _ (mem_insertByName r qs x h)

theorem renumberF_names (plan : List Fault) (name : String) (n : Int) :
    ∀ (fuel : Nat) (s : RevSt), (renumberF plan name n fuel s).1.store.map (·.name) = s.store.map (·.name)
  | 0, s => by simp [renumberF]
  | fuel + 1, s => by
    rw [renumberF_succ]
    cases planAt plan (kUpdateRev name) (cnt s.tr.log (kUpdateRev name)) with
    | none =>
      simp only [List.map_map]
      apply List.map_congr_left
      intro x _
      simp only [Function.comp]
      split_ifs <;> rfl
    | some k =>
      simp only
      split_ifs
      · rw [renumberF_names plan name n fuel]
      · rfl

theorem createRevLoopF_hasName (h : Hashing) (plan : List Fault) (fresh : Rev) (nm : String) :
    ∀ (fuel : Nat) (cc : Int) (s : RevSt), HasName s.store nm → HasName (createRevLoopF h plan fresh fuel cc s).1.store nm
  | 0, _, _, hs => by simpa [createRevLoopF] using hs
  | fuel + 1, cc, s, hs => by
    rw [createRevLoopF_succ]
    simp only
    split
    · unfold HasName at hs ⊢
      simp only [List.any_eq_true, beq_iff_eq] at hs ⊢
      obtain ⟨x, hx, e⟩ := hs
      exact ⟨x, mem_insertByName _ _ x hx, e⟩
    · split
      · split_ifs
        · exact hs
        · exact createRevLoopF_hasName h plan fresh nm fuel (cc + 1) _ hs
      · exact hs
    · exact hs

theorem getRevisionsF_hasName (h : Hashing) (plan : List Fault) (template scr : String) (cc0 : Int) (revs : List Rev)
    (s : RevSt) (nm : String) (hs : HasName s.store nm) :
    HasName (getRevisionsF h plan template scr cc0 revs s).1.store nm := by
  rw [getRevisionsF_eq]
  have hp : HasName (pickRevF h plan (freshRev h template cc0 revs) cc0 revs s).1.store nm := by
    unfold pickRevF
    split
    · split_ifs
      · exact hs
      · exact hs
      · exact hasName_of_map_eq (renumberF_names plan _ _ 4 s) hs
    · exact createRevLoopF_hasName h plan _ nm _ _ s hs
  rcases hpk : pickRevF h plan (freshRev h template cc0 revs) cc0 revs s with ⟨s1, _ | ⟨upd, cc⟩⟩ <;>
    rw [hpk] at hp <;> exact hp

/-- a failed probe found every offered name among the stored ones -/
theorem probeFails_names (h : Hashing) (fresh : Rev) (store : List Rev) :
    ∀ (fuel : Nat) (cc : Int), probeFails h fresh store fuel cc = true →
      ∀ j, j < fuel → h.nameOf fresh.data (cc + j) ∈ store.map (·.name)
  | 0, _, _, j, hj => by omega
  | fuel + 1, cc, hp, j, hj => by
    unfold probeFails at hp
    cases hex : store.find? (fun r : Rev => r.name == h.nameOf fresh.data cc) with
    | none => rw [hex] at hp; cases hp
    | some ex =>
      rw [hex] at hp
      simp only at hp
      split_ifs at hp
      cases j with
      | zero =>
        have hm := List.mem_of_find?_eq_some hex
        have hn := List.find?_some hex
        simp only [beq_iff_eq] at hn
        simp only [Int.natCast_zero, Int.add_zero]
        rw [← hn]; exact List.mem_map_of_mem hm
      | succ j =>
        have := probeFails_names h fresh store fuel (cc + 1) hp j (by omega)
        have e : cc + 1 + (j : Int) = cc + ((j + 1 : Nat) : Int) := by push_cast; omega
        rw [e] at this; exact this

/-- a hashing that really depends on the collision count never runs out of names: reason 3 needs a colliding hashing -/
theorem probeFails_false_of_injective (h : Hashing) (fresh : Rev) (store : List Rev) (fuel : Nat) (cc : Int)
    (hinj : ∀ c1 c2, h.nameOf fresh.data c1 = h.nameOf fresh.data c2 → c1 = c2) (hfuel : store.length < fuel) :
    probeFails h fresh store fuel cc = false := by
  by_contra hne
  have hp : probeFails h fresh store fuel cc = true := by simpa using hne
  have hnames := probeFails_names h fresh store fuel cc hp
  let L := (List.range fuel).map (fun (j : Nat) => h.nameOf fresh.data (cc + (j : Int)))
  have hnd : L.Nodup := by
    refine (List.nodup_range).map_on ?_
    intro a _ b _ hab
    have := hinj _ _ hab
    omega
  have hsub : L ⊆ store.map (·.name) := by
    intro x hx
    obtain ⟨j, hj, rfl⟩ := List.mem_map.1 hx
    exact hnames j (List.mem_range.1 hj)
  have := (hnd.subperm hsub).length_le
  simp only [L, List.length_map, List.length_range] at this
  omega

/-! ### the reconcile: what `podFaults` contains when nothing is injected -/

/-- ordinals (below 64) whose pod Update would fail although nothing is injected -/
def updFaultsOf (setName : String) (pods claimed : List CPod) (b : Int) (E : List Int) : Faults :=
  ((List.range 64).map Int.ofNat).filterMap fun o =>
    if (updateResult setName [] pods claimed b E o).2 then none else some (2, o)

/-- ordinals whose canonical pod name is held by an object the reconcile does not have in that slot -/
def squatOf (setName : String) (pods claimed : List CPod) (b : Int) (E : List Int) : Faults :=
  (pods.filter (fun c => c.name == canonicalName setName c.pod.ord &&
      !(claimed.any (·.pod.id == c.pod.id) &&
        ((occupantAt claimed b E c.pod.ord).map (·.pod.id)) == some c.pod.id))).map (fun c => (0, c.pod.ord))

theorem podFaults_nil (setName : String) (pods claimed : List CPod) (b : Int) (E : List Int) :
    podFaults setName [] pods claimed b E = updFaultsOf setName pods claimed b E ++ squatOf setName pods claimed b E := rfl

theorem updateAttempts_nil (key : String) (fuel n : Nat) : updateAttempts [] key (fuel + 1) n = (n + 1, true) := by
  rw [updateAttempts_succ]; rfl

/-- fault-free, a pod Update fails only for a pod with a non-canonical name (`web-03`) whose canonical name nobody holds -/
theorem updateResult_nil (setName : String) (pods claimed : List CPod) (b : Int) (E : List Int) (o : Int)
    (hf : (updateResult setName [] pods claimed b E o).2 = false) :
    ∃ c, occupantAt claimed b E o = some c ∧ c.name ≠ canonicalName setName o ∧
      pods.any (·.name == canonicalName setName o) = false := by
  unfold updateResult at hf
  simp only at hf
  cases hocc : occupantAt claimed b E o with
  | none => rw [hocc] at hf; simp only [updateAttempts_nil] at hf; cases hf
  | some c =>
    rw [hocc] at hf
    simp only at hf
    split_ifs at hf with hne
    · refine ⟨c, rfl, by simpa using hne, ?_⟩
      simpa using hf
    · simp only [updateAttempts_nil] at hf; cases hf

theorem mem_updFaultsOf {setName : String} {pods claimed : List CPod} {b : Int} {E : List Int} {v : Nat} {o : Int}
    (h : (v, o) ∈ updFaultsOf setName pods claimed b E) :
    v = 2 ∧ (updateResult setName [] pods claimed b E o).2 = false := by
  unfold updFaultsOf at h
  simp only [List.mem_filterMap] at h
  obtain ⟨o', _, ho'⟩ := h
  split_ifs at ho' with hr
  simp only [Option.some.injEq, Prod.mk.injEq] at ho'
  obtain ⟨rfl, rfl⟩ := ho'
  exact ⟨rfl, by simpa using hr⟩

theorem mem_squatOf {setName : String} {pods claimed : List CPod} {b : Int} {E : List Int} {v : Nat} {o : Int}
    (h : (v, o) ∈ squatOf setName pods claimed b E) :
    v = 0 ∧ ∃ c ∈ pods, c.pod.ord = o ∧ c.name = canonicalName setName o := by
  unfold squatOf at h
  simp only [List.mem_map, List.mem_filter, Prod.mk.injEq] at h
  obtain ⟨c, ⟨hc, hcond⟩, rfl, rfl⟩ := h
  simp only [Bool.and_eq_true, beq_iff_eq] at hcond
  exact ⟨rfl, c, hc, rfl, hcond.1⟩

/-- fault-free, the reconcile ends `.err` only at a create whose pod name is held by an object of the snapshot that is not
    (for the reconcile) the pod of that slot, or at the update of a renamed pod whose canonical name nobody holds -/
theorem reconcile_nil_err (v : SetView) (cur upd : String) (ps : List Pod) (setName : String) (pods claimed : List CPod)
    (b : Int) (E : List Int)
    (he : (updateStatefulSet v cur upd ps (podFaults setName [] pods claimed b E)).2 = .err) :
    ∃ l a, (updateStatefulSet v cur upd ps (podFaults setName [] pods claimed b E)).1.acts = l ++ [a] ∧
      ((∃ o r, a = .create o r ∧ (0, o) ∈ squatOf setName pods claimed b E ∧
          ∃ c ∈ pods, c.pod.ord = o ∧ c.name = canonicalName setName o) ∨
       (∃ o, a = .update o ∧ (2, o) ∈ updFaultsOf setName pods claimed b E ∧
          ∃ c, occupantAt claimed b E o = some c ∧ c.name ≠ canonicalName setName o ∧
            pods.any (·.name == canonicalName setName o) = false)) := by
  obtain ⟨l, a, e, _, ha⟩ := updateStatefulSet_err_hit v cur upd ps _ he
  refine ⟨l, a, e, ?_⟩
  rw [podFaults_nil] at ha
  cases a with
  | create o r =>
    simp only [hitAct, Faults.hit, List.contains_iff_mem, List.mem_append] at ha
    rcases ha with ha | ha
    · exact absurd (mem_updFaultsOf ha).1 (by decide)
    · exact Or.inl ⟨o, r, rfl, ha, (mem_squatOf ha).2⟩
  | delete o id w =>
    simp only [hitAct, Faults.hit, List.contains_iff_mem, List.mem_append] at ha
    rcases ha with ha | ha
    · exact absurd (mem_updFaultsOf ha).1 (by decide)
    · exact absurd (mem_squatOf ha).1 (by decide)
  | update o =>
    simp only [hitAct, Faults.hit, List.contains_iff_mem, List.mem_append] at ha
    rcases ha with ha | ha
    · exact Or.inr ⟨o, rfl, ha, updateResult_nil _ _ _ _ _ _ (mem_updFaultsOf ha).2⟩
    · exact absurd (mem_squatOf ha).1 (by decide)

/-! ### the whole sync -/

/-- state after the (fault-free) adoption of orphan revisions -/
def wrStore (i : SyncIn) : RevSt := (adoptOrphanRevisionsF [] i.view.deleting i.fresh { store := i.store }).1
/-- pods the (fault-free) claim delivers -/
def wrClaimed (i : SyncIn) : List CPod := (claimPodsF [] i.view.deleting i.fresh i.pods (wrStore i).tr).claimed
/-- the sorted listing the reconcile works with -/
def wrRevs (i : SyncIn) : List Rev := sortRevs (listRevisions (wrStore i).store)

/-- **the world reasons**: what can make a sync fail although no call fails by injection.
    1. an orphan revision is to be adopted, 2. a pod is to be adopted — and the uncached read of the set finds it gone,
    with another uid, or being deleted; 3. every revision name the hashing offers is taken by a revision recording another
    template; 4. a pod name the reconcile could need is held by an object that is not (for it) the pod of that slot;
    5. a pod with a non-canonical name would be updated under a canonical name nobody holds; 6. the set is gone (status
    write answers NotFound). -/
def worldReason (h : Hashing) (i : SyncIn) : Bool :=
  let cc0 := i.collisionCount.getD 0
  let bE := maxReplicaAndSlots (i.view.replicas.getD 0) i.view.slots
  (!i.view.deleting && (listRevisions i.store).any (·.owner == .none) && !freshOk i.fresh) ||
  (i.pods.any (fun c => claimDecision i.view.deleting c == .adopt) && !freshOk i.fresh) ||
  probeFails h (freshRev h i.template cc0 (wrRevs i)) (wrStore i).store ((wrStore i).store.length + 8) cc0 ||
  !(squatOf i.setName i.pods (wrClaimed i) bE.1 bE.2).isEmpty ||
  !(updFaultsOf i.setName i.pods (wrClaimed i) bE.1 bE.2).isEmpty ||
  i.fresh.gone

theorem syncFinish_nil_err (i : SyncIn) (c : ClaimOutF) (revs : List Rev) (cur upd : Rev) (cc : Int)
    (base : SyncOut) (st : St) (s : RevSt) (hnd : (revs.map (·.name)).Nodup)
    (hin : ∀ r ∈ revs, s.store.any (·.name == r.name) = true)
    (he : (syncFinish i [] c revs cur upd cc base st s).outcome = .err) : i.fresh.gone = true := by
  unfold syncFinish at he
  simp only [statusWriteF_nil] at he
  split_ifs at he with h1 h2
  · simpa using h2
  · exact absurd he (truncateF_nil _ _ revs cur upd _ hnd hin)
  · exact absurd he (truncateF_nil _ _ revs cur upd _ hnd hin)

/-- **C09 (iv)**: a fault-free sync that ends with an error has a world reason. -/
theorem syncF_nil_err (h : Hashing) (i : SyncIn) (he : (syncF h i []).outcome = .err) : worldReason h i = true := by
  rw [syncF_eq] at he
  split_ifs at he with hp
  · have ha := adopt_nil i.view.deleting i.fresh { store := i.store }
    have hws : wrStore i = (adoptOrphanRevisionsF [] i.view.deleting i.fresh { store := i.store }).1 := rfl
    rcases has : adoptOrphanRevisionsF [] i.view.deleting i.fresh { store := i.store } with ⟨s, out⟩
    rw [has] at ha he hws
    simp only at ha hws
    rcases ha with rfl | ⟨rfl, h1, h2, h3⟩
    · -- adoption went through
      simp only at he
      unfold syncAfterAdopt at he
      simp only at he
      have hwc : wrClaimed i = (claimPodsF [] i.view.deleting i.fresh i.pods s.tr).claimed := by
        unfold wrClaimed; rw [hws]
      split_ifs at he with hf
      · -- a pod adoption was refused
        obtain ⟨hfo, c, hc, hd⟩ := claim_nil _ _ _ _ hf
        unfold worldReason
        have : i.pods.any (fun c => claimDecision i.view.deleting c == .adopt) = true := by
          simp only [List.any_eq_true, beq_iff_eq]; exact ⟨c, hc, hd⟩
        simp [this, hfo]
      · rw [listRevsF_nil] at he
        simp only at he
        rcases hg : getRevisionsF h [] i.template i.stored.currentRev (i.collisionCount.getD 0)
            (sortRevs (listRevisions s.store))
            { store := s.store, tr := { log := (claimPodsF [] i.view.deleting i.fresh i.pods s.tr).tr.log ++ ["list:revs"] ++ ["list:revs"] } }
          with ⟨s2, _ | ⟨cur, upd, cc⟩⟩
        · -- out of revision names
          have := getRevisionsF_nil h _ _ _ _ _ (by rw [hg])
          unfold worldReason wrRevs
          rw [hws]
          simp only at this
          simp [this]
        · rw [hg] at he
          simp only at he
          have hs2 : ∀ nm, HasName s.store nm → HasName s2.store nm := by
            intro nm hnm
            have := getRevisionsF_hasName h [] i.template i.stored.currentRev (i.collisionCount.getD 0)
              (sortRevs (listRevisions s.store))
              { store := s.store, tr := { log := (claimPodsF [] i.view.deleting i.fresh i.pods s.tr).tr.log ++ ["list:revs"] ++ ["list:revs"] } }
              nm hnm
            rw [hg] at this; exact this
          unfold syncReconcile at he
          generalize hbe : maxReplicaAndSlots (i.view.replicas.getD 0) i.view.slots = bE at he
          obtain ⟨b, E⟩ := bE
          simp only at he
          have hrec := reconcile_nil_err i.view cur.name upd.name
            ((claimPodsF [] i.view.deleting i.fresh i.pods s.tr).claimed.map (·.pod)) i.setName i.pods
            (claimPodsF [] i.view.deleting i.fresh i.pods s.tr).claimed b E
          generalize hr : updateStatefulSet i.view cur.name upd.name
            ((claimPodsF [] i.view.deleting i.fresh i.pods s.tr).claimed.map (·.pod))
            (podFaults i.setName [] i.pods (claimPodsF [] i.view.deleting i.fresh i.pods s.tr).claimed b E) = r at he hrec
          obtain ⟨st, out⟩ := r
          cases out with
          | ok =>
            simp only at he
            have hgone : i.fresh.gone = true := by
              refine syncFinish_nil_err i _ (sortRevs (listRevisions s.store)) cur upd cc _ st _
                (sortRevs_nodup s.store) ?_ he
              intro r hr
              exact hs2 r.name (hasName_of_mem (listRevisions_subset _ r (sortRevs_subset _ r hr)))
            unfold worldReason
            simp [hgone]
          | err =>
            obtain ⟨l, a, _, hreason⟩ := hrec rfl
            unfold worldReason
            rw [hwc, hbe]
            rcases hreason with ⟨o, r, _, hmem, _⟩ | ⟨o, _, hmem, _⟩
            · have : (squatOf i.setName i.pods (claimPodsF [] i.view.deleting i.fresh i.pods s.tr).claimed b E).isEmpty = false := by
                cases hsq : squatOf i.setName i.pods (claimPodsF [] i.view.deleting i.fresh i.pods s.tr).claimed b E with
                | nil => rw [hsq] at hmem; cases hmem
                | cons _ _ => rfl
              simp [this]
            · have : (updFaultsOf i.setName i.pods (claimPodsF [] i.view.deleting i.fresh i.pods s.tr).claimed b E).isEmpty = false := by
                cases hsq : updFaultsOf i.setName i.pods (claimPodsF [] i.view.deleting i.fresh i.pods s.tr).claimed b E with
                | nil => rw [hsq] at hmem; cases hmem
                | cons _ _ => rfl
              simp [this]
          | panic site => simp at he
    · -- an orphan revision could not be adopted
      unfold worldReason
      simp [h1, h2, h3]

end Asts.SYc
