import Asts.Proofs.L1_c_Track
import Asts.Proofs.L1_c_NoPanic

/-! C12: the monitor clauses on the model's output, assembled from the loop invariants. -/
namespace Asts.L1c

theorem observe_no_cd (acts : List Action) (hc : nCreate acts = 0) (hd : nDelete acts = 0) :
    (observe acts).any (fun a => a.isCreate || a.isDelete) = false := by
  induction acts with
  | nil => rfl
  | cons x xs ih =>
    have h1 := nCreate_nonneg xs
    have h2 := nDelete_nonneg xs
    cases x with
    | create o r => simp only [nCreate] at hc; omega
    | delete o i w => simp only [nDelete] at hd; omega
    | update o =>
      simp only [nCreate, nDelete] at hc hd
      have := ih hc hd
      simp only [observe, List.map_cons, List.any_cons, Action.observe, OAct.isCreate, OAct.isDelete, Bool.or_self,
        Bool.false_or] at this ⊢
      exact this

theorem completeRollingUpdate_observedGen (v : SetView) (st : Status) :
    (completeRollingUpdate v st).observedGen = st.observedGen := by
  unfold completeRollingUpdate; split_ifs <;> rfl

theorem st0Of_fields (v : SetView) (cur upd : String) (pods : List Pod) :
    (st0Of v cur upd pods).observedGen = v.generation ∧ (st0Of v cur upd pods).currentRev = cur ∧
    (st0Of v cur upd pods).updateRev = upd := ⟨rfl, rfl, rfl⟩

theorem c12gen_of_post (v : SetView) (cur upd : String) (pods : List Pod) (s : St) (stored : Status)
    (h : Post upd pods (st0Of v cur upd pods) s) : C12gen v stored (completeRollingUpdate v s.status) = true := by
  unfold C12gen
  rw [completeRollingUpdate_observedGen, h.1, (st0Of_fields v cur upd pods).1]
  simp

theorem c12complete_of_post (v : SetView) (cur upd : String) (pods : List Pod) (s : St)
    (h : Post upd pods (st0Of v cur upd pods) s) :
    C12complete cur upd pods (observe s.acts) (completeRollingUpdate v s.status) = true := by
  obtain ⟨_, hc, hu, _, hcore⟩ := h
  rw [(st0Of_fields v cur upd pods).2.1] at hc
  rw [(st0Of_fields v cur upd pods).2.2] at hu
  unfold C12complete completeRollingUpdate
  by_cases hcond : (v.strat == StratType.rolling && s.status.updated == s.status.replicas && s.status.ready == s.status.replicas) = true
  · simp only [hcond, if_true]
    simp only [Bool.and_eq_true, beq_iff_eq] at hcond
    obtain ⟨hall, hc0, hd0⟩ := hcore hcond.1.2 hcond.2
    rw [observe_no_cd _ hc0 hd0]
    have hallb : pods.all (fun p => p.rev == upd && p.healthy) = true := by
      rw [List.all_eq_true]
      intro p hp
      obtain ⟨h1, h2⟩ := hall p hp
      simp only [countedAt, Bool.and_eq_true, Bool.not_eq_true', beq_iff_eq] at h1
      simp [Pod.healthy, h1.2, h1.1.2, h2]
    simp [hu, hallb]
  · simp only [hcond, Bool.false_eq_true, if_false, hc, beq_self_eq_true, Bool.true_or]

theorem census_of_post (v : SetView) (cur upd : String) (pods : List Pod) (s : St)
    (h : Post upd pods (st0Of v cur upd pods) s) (hacts : s.acts = []) :
    s.status = st0Of v cur upd pods := h.2.2.2.1 hacts

/-- the sentinel of the first-unhealthy scan cannot be hit when every scanned ordinal is below it -/
theorem firstUnhealthy_sentinel (ps : List Pod) (hord : ∀ p ∈ ps, p.ord < maxInt32)
    (hun : ∃ p ∈ ps, p.healthy = false) : (firstUnhealthy ps).1.isSome = true := by
  apply firstUnhealthy_some ps hord
  rw [firstUnhealthy_eq]
  simp only
  rw [fuStep_count]
  obtain ⟨p, hp, hh⟩ := hun
  have : p ∈ ps.filter (fun p => !p.healthy) := List.mem_filter.2 ⟨hp, by simp [hh]⟩
  have := List.length_pos_of_mem this
  omega

end Asts.L1c
