import Mathlib.Tactic
import Asts.Proofs.WE_Revert
import Asts.Proofs.SY_b_Scaling

/-! # WE — C08.norestart, the status half, one round at a time

`Pinned h p W`: in the world `W` a round left, the newest revision of the listing the next sync will work on equals the
fresh revision of the template (`EqualRevision`) and is the one `status.updateRevision` names. This is what a successful
reconcile establishes (in worlds without contradicting hash labels) and what `Final` asks of the revisions. From a pinned
world a round that follows ANY batch of replicas / delete-slots / pause / metadata / partition edits — whatever the pods, the
fault plan, the outcome — leaves `status.updateRevision` as it was. -/
namespace Asts.WE
open Asts Asts.SYb

def Pinned (h : Hashing) (p : List Fault) (W : SyncIn) : Prop :=
  ∃ l, (syncListing p (settle W)).getLast? = some l ∧
    equalRev l (freshOf h W.template (W.collisionCount.getD 0) (syncListing p (settle W))) = true ∧
    l.name = W.stored.updateRev

theorem syncListing_congr {i i' : SyncIn} (hs : SameRevisionInputs i i') (p : List Fault) :
    syncListing p i' = syncListing p i := by
  unfold syncListing adoptedStore; rw [hs.adopt]

theorem applyEdits_stored (es : List Edit) (i : SyncIn) : (applyEdits es i).stored = i.stored := (applyEdits_frame es i).2

/-- **the status half of C08.norestart on one round** -/
theorem norestart_status_step (h : Hashing) (W : SyncIn) (es : List Edit) (p : List Fault)
    (hes : ∀ e ∈ es, keepsTemplate e = true) (hpin : Pinned h p W) :
    (round h (applyEdits es W) p).2.status.updateRev = W.stored.updateRev := by
  obtain ⟨l, hl, heq, hname⟩ := hpin
  have hsame : SameRevisionInputs (settle W) (settle (applyEdits es W)) := settle_sameInputs (applyEdits_sameInputs es W hes)
  have hlist := syncListing_congr hsame p
  have hstored : (settle (applyEdits es W)).stored.updateRev = W.stored.updateRev := by
    show (applyEdits es W).stored.updateRev = _
    rw [applyEdits_stored]
  rw [round_status_updateRev]
  by_cases hrun : ((settle (applyEdits es W)).paused || !(settle (applyEdits es W)).selectorOk) = true
  · rw [syncF_eq, if_pos hrun]
    exact hstored
  · have hrun' : ((settle (applyEdits es W)).paused || !(settle (applyEdits es W)).selectorOk) = false := by simpa using hrun
    rcases sync_cases h (settle (applyEdits es W)) p hrun' with ⟨_, hst, _⟩ | ⟨⟨R⟩⟩
    · unfold reportedUpd; rw [hst]; exact hstored
    · rw [R.orep]
      have hp := R.hpick
      rw [hlist, hsame.template, hsame.cc] at hp
      have := (pickF_unchanged h p (settle W).template ((settle W).collisionCount.getD 0) (syncListing p (settle W)) R.sL hl heq).1
      rw [this] at hp
      have hupd : l = R.upd := by
        have := congrArg Prod.snd hp
        simp only [Option.some.injEq, Prod.mk.injEq] at this
        exact this.1
      rw [← hupd]; exact hname

end Asts.WE
