import Asts.Proofs.C02_LStep

/-! C02, legacy boundary mode: the Parallel policy. -/
namespace Asts.C02p
open Asts Asts.L1c

/-- the legacy class, Parallel: normal, settled, strategy RollingUpdate without a `rollingUpdate` block -/
def LParK (h : Hashing) (j : SyncIn) : Prop :=
  NSC h j ∧ j.view.parallel = true ∧ j.view.strat = .rolling ∧ j.view.ru = none

section
variable {h : Hashing} {j : SyncIn}

theorem partOf_legacy {v : SetView} (hru : v.ru = none) : partOf v = 0 := by unfold partOf; rw [hru]

theorem repNew_keys (v : SetView) (cur upd : String) (reps : List (Int × Pod)) :
    (reps.map (repNew v cur upd)).map (·.1) = reps.map (·.1) := by
  rw [List.map_map]; rfl

/-- in range: a create, or a live pod -/
theorem par_fill (hs : NSC h j) (o : Int) (hr : inRange (bOf j) (EOf j) o = true) :
    (∃ c ∈ j.pods, c.pod.ord = o ∧ c.pod.fs = false) ∨
    ∃ rev, Action.create o rev ∈ actsA j.view hs.norm.curRev.name hs.norm.updRev.name (bOf j) (EOf j) j.pods := by
  have hctx := hs.ctx
  by_cases hex : ∃ c ∈ j.pods, c.pod.ord = o
  · obtain ⟨c, hcm, hco⟩ := hex
    by_cases hfs : c.pod.fs = true
    · exact Or.inr ⟨_, (parA_create_iff hctx).2 ⟨hr, rfl, Or.inr ⟨c, hcm, hco, hfs⟩⟩⟩
    · exact Or.inl ⟨c, hcm, hco, by simpa using hfs⟩
  · exact Or.inr ⟨_, (parA_create_iff hctx).2 ⟨hr, rfl, Or.inl (fun c hcm hco => hex ⟨c, hcm, hco⟩)⟩⟩

theorem lpar_pol (hk : LParK h j) :
    LPol hk.1 (actsA j.view hk.1.norm.curRev.name hk.1.norm.updRev.name (bOf j) (EOf j) j.pods)
      (tgtOf j.view hk.1.norm.curRev.name hk.1.norm.updRev.name (bOf j) (EOf j) j.pods) := by
  obtain ⟨hs, hpar, hroll, hru⟩ := hk
  have hn := hs.norm
  have hctx := hs.ctx
  have hb0 := bOf_nonneg hn
  have hE := EOf_nonneg hn
  refine ⟨⟨hroll, hru⟩, par_recon_ok hs hpar, by rw [par_recon_acts hs hpar]; rfl, parA_facts hctx hb0 hE, ?_, ?_, ?_⟩
  · intro c hcm hd
    rcases (parA_del_iff hctx hb0 hE hcm).1 hd with ⟨_, h2⟩ | h2
    · exact Or.inl h2
    · exact Or.inr h2
  · intro t q htg
    have htg' := htg
    unfold tgtOf walkTarget at htg'
    split_ifs at htg' with hod
    obtain ⟨hmem, hrev, _⟩ := walkFind_some htg'
    unfold walkList at hmem
    rw [List.mem_reverse, List.mem_filter, List.mem_map] at hmem
    obtain ⟨⟨ip, hip, hrn⟩, _⟩ := hmem
    obtain ⟨hr, hq0⟩ := mem_repsOf.1 hip
    unfold repNew at hrn
    simp only [Prod.mk.injEq] at hrn
    obtain ⟨rfl, hq⟩ := hrn
    refine ⟨hr, hrev, ?_, fun o hro _ => par_fill hs o hro, ?_⟩
    · -- the kind of the target
      cases hsl : slotOf (bOf j) (EOf j) (j.pods.map (·.pod)) ip.1 with
      | none =>
        rw [hsl] at hq0; simp only [Option.getD_none] at hq0
        have hqn : q = newPod j.view hn.curRev.name hn.updRev.name ip.1 := by
          rw [← hq, hq0]; simp [newPod_fs]
        right
        refine ⟨by rw [hqn]; rfl, ?_⟩
        have hnone : ∀ c ∈ j.pods, c.pod.ord ≠ ip.1 := by
          intro c hcm hco
          have := hctx.slot_of_mem hcm (by rw [hco]; exact hr)
          rw [hco, hsl] at this; cases this
        rw [hqn]
        exact (parA_create_iff hctx).2 ⟨hr, rfl, Or.inl hnone⟩
      | some q0 =>
        rw [hsl] at hq0; simp only [Option.getD_some] at hq0
        obtain ⟨c, hcm, hcp, hco, _⟩ := hctx.slot_some hsl
        by_cases hfs : ip.2.fs = true
        · have hqn : q = newPod j.view hn.curRev.name hn.updRev.name ip.1 := by rw [← hq, hfs]; rfl
          right
          refine ⟨by rw [hqn]; rfl, ?_⟩
          rw [hqn]
          exact (parA_create_iff hctx).2 ⟨hr, rfl, Or.inr ⟨c, hcm, hco, by rw [hcp, ← hq0]; exact hfs⟩⟩
        · have hfs' : ip.2.fs = false := by simpa using hfs
          have hqq : q = ip.2 := by rw [← hq, hfs']; rfl
          left
          exact ⟨c, hcm, by rw [hcp, ← hq0, hqq], hco, by rw [hcp, ← hq0]; exact hfs'⟩
    · intro hne
      have hb := recon_par_cur_le hctx j.view hn.curRev.name hn.updRev.name (replicasOf j.view) hn.spec.rep hn.spec.r0 hpar
        hn.spec.del
      have hkeys := reps_keys j.view hn.curRev.name hn.updRev.name (bOf j) (EOf j) (j.pods.map (·.pod))
      have hwb := walk_bound_list j.view hn.curRev.name hn.updRev.name
        ((repsOf j.view hn.curRev.name hn.updRev.name (bOf j) (EOf j) (j.pods.map (·.pod))).map
          (repNew j.view hn.curRev.name hn.updRev.name))
        (partOf_legacy hru) (by rw [repNew_keys]; exact hkeys.1)
        (by
          intro ip' hip'
          rw [List.mem_map] at hip'
          obtain ⟨iq, hiq, rfl⟩ := hip'
          exact hkeys.2 iq hiq)
        (t := ip.1) (q := q) (by have := htg; unfold tgtOf at this; exact this) hne
      have hb' : hn.recon.1.status.current ≤
          cnt (liveAt hn.curRev.name) (((repsOf j.view hn.curRev.name hn.updRev.name (bOf j) (EOf j) (j.pods.map (·.pod))).map
            (repNew j.view hn.curRev.name hn.updRev.name)).map (·.2)) -
          tgtDelta hn.curRev.name (tgtOf j.view hn.curRev.name hn.updRev.name (bOf j) (EOf j) j.pods) := hb
      rw [htg] at hb'
      omega
  · intro o hr hnone hnocre
    exfalso
    rcases par_fill hs o hr with ⟨c, hcm, hco, _⟩ | ⟨rev, hcr⟩
    · exact hnone c hcm hco
    · exact hnocre rev hcr

end

end Asts.C02p

namespace Asts.C02p
open Asts Asts.L1c

section
variable {h : Hashing} {j : SyncIn}

/-- what a positive legacy measure means -/
theorem muL_pos_cases (hs : NSC h j) (hpos : 0 < muL j) :
    (∃ c ∈ j.pods, inRange (bOf j) (EOf j) c.pod.ord = false) ∨
    (∃ o, inRange (bOf j) (EOf j) o = true ∧ ∀ c ∈ j.pods, c.pod.ord ≠ o) ∨
    (∃ c ∈ j.pods, inRange (bOf j) (EOf j) c.pod.ord = true ∧ c.pod.fs = true) ∨
    (∃ c ∈ j.pods, inRange (bOf j) (EOf j) c.pod.ord = true ∧ c.pod.fs = false ∧ c.pod.idOk = false) ∨
    (∃ c ∈ j.pods, inRange (bOf j) (EOf j) c.pod.ord = true ∧ c.pod.fs = false ∧ c.pod.rev ≠ hs.norm.updRev.name) := by
  have hn := hs.norm
  rw [muL_eq hn] at hpos
  unfold muLOf at hpos
  by_cases hC : 0 < (j.pods.filter (fun c => !(desired (replicasOf j.view) j.view.slots).contains c.pod.ord)).length
  · left
    obtain ⟨c, hc⟩ := List.exists_mem_of_length_pos hC
    rw [List.mem_filter] at hc
    refine ⟨c, hc.1, ?_⟩
    have : c.pod.ord ∉ desired (replicasOf j.view) j.view.slots := by simpa using hc.2
    rw [mem_desired_iff hn] at this
    simpa using this
  · right
    have hC0 : (j.pods.filter (fun c => !(desired (replicasOf j.view) j.view.slots).contains c.pod.ord)).length = 0 := by omega
    rw [hC0] at hpos
    simp only [Nat.mul_zero, Nat.add_zero] at hpos
    have hex : ∃ o ∈ desired (replicasOf j.view) j.view.slots,
        0 < wLOf j.view hn.curRev.name hn.updRev.name j.pods (desired (replicasOf j.view) j.view.slots) o := by
      by_contra hcon
      have : ((desired (replicasOf j.view) j.view.slots).map
          (wLOf j.view hn.curRev.name hn.updRev.name j.pods (desired (replicasOf j.view) j.view.slots))).sum = 0 := by
        apply List.sum_eq_zero
        intro x hx
        rw [List.mem_map] at hx
        obtain ⟨o, ho, rfl⟩ := hx
        by_contra hne
        exact hcon ⟨o, ho, by omega⟩
      omega
    obtain ⟨o, ho, hw⟩ := hex
    have hr := (mem_desired_iff hn o).1 ho
    by_cases hat : ∃ c ∈ j.pods, c.pod.ord = o
    · obtain ⟨c, hcm, rfl⟩ := hat
      by_cases hfs : c.pod.fs = true
      · exact Or.inr (Or.inl ⟨c, hcm, hr, hfs⟩)
      · have hfs' : c.pod.fs = false := by simpa using hfs
        rw [wLOf_some hn.ords hcm, wLPod_live hfs'] at hw
        by_cases hid : c.pod.idOk = true
        · right; right; right
          rw [hid] at hw
          simp only [if_true, Nat.add_zero] at hw
          split_ifs at hw with hcond
          · exact ⟨c, hcm, hr, hfs', by simpa using hcond⟩
          · omega
        · exact Or.inr (Or.inr (Or.inl ⟨c, hcm, hr, hfs', by simpa using hid⟩))
    · exact Or.inl ⟨o, hr, fun c hcm hco => hat ⟨c, hcm, hco⟩⟩

/-- when every desired ordinal holds a live pod and one of them is not at the update revision, the walk (strategy
    RollingUpdate, partition 0) takes one down -/
theorem tgt_isSome (hs : NSC h j) (hroll : j.view.strat = .rolling) (hru : j.view.ru = none)
    (hall : ∀ o, inRange (bOf j) (EOf j) o = true → ∃ c ∈ j.pods, c.pod.ord = o ∧ c.pod.fs = false)
    {c0 : CPod} (hc0 : c0 ∈ j.pods) (hr0 : inRange (bOf j) (EOf j) c0.pod.ord = true)
    (hrev : c0.pod.rev ≠ hs.norm.updRev.name) :
    (walkTarget j.view hs.norm.updRev.name
      (repsOf j.view hs.norm.curRev.name hs.norm.updRev.name (bOf j) (EOf j) (j.pods.map (·.pod)))).isSome = true := by
  have hn := hs.norm
  have hctx := hs.ctx
  have hslot : ∀ ip ∈ repsOf j.view hn.curRev.name hn.updRev.name (bOf j) (EOf j) (j.pods.map (·.pod)),
      ∃ c ∈ j.pods, ip = (c.pod.ord, c.pod) ∧ c.pod.fs = false := by
    intro ip hip
    obtain ⟨hr, hq0⟩ := mem_repsOf.1 hip
    obtain ⟨c, hcm, hco, hfs⟩ := hall ip.1 hr
    have hsl := hctx.slot_of_mem hcm (by rw [hco]; exact hr)
    rw [hco] at hsl
    rw [hsl] at hq0
    simp only [Option.getD_some] at hq0
    exact ⟨c, hcm, by ext <;> simp [hco, hq0], hfs⟩
  unfold walkTarget
  have : (j.view.strat == StratType.onDelete) = false := by rw [hroll]; rfl
  simp only [this, Bool.false_eq_true, if_false]
  apply walkFind_healthy
  · intro ip hip
    unfold walkList at hip
    rw [List.mem_reverse, List.mem_filter] at hip
    obtain ⟨c, hcm, rfl, hfs⟩ := hslot ip hip.1
    have hrr : c.pod.runningAndReady = true := by
      rcases (hs.settled c hcm).2 with h1 | h1
      · rw [hfs] at h1; cases h1
      · exact h1
    unfold Pod.healthy
    simp [hrr, (hs.settled c hcm).1]
  · refine ⟨(c0.pod.ord, c0.pod), ?_, hrev⟩
    unfold walkList
    rw [List.mem_reverse, List.mem_filter]
    refine ⟨mem_repsOf.2 ⟨hr0, by simp [hctx.slot_of_mem hc0 hr0]⟩, ?_⟩
    rw [partOf_legacy hru]
    simpa using (hn.pods c0 hc0).2.2.2.2.1

theorem repNew_id_of_live {v : SetView} {cur upd : String} {reps : List (Int × Pod)} (hl : ∀ ip ∈ reps, ip.2.fs = false) :
    reps.map (repNew v cur upd) = reps := by
  conv_rhs => rw [← List.map_id reps]
  apply List.map_congr_left
  intro ip hip
  unfold repNew
  rw [hl ip hip]
  rfl

theorem lpar_progress (hk : LParK h j) (hpos : 0 < muL j) :
    LEvent j (actsA j.view hk.1.norm.curRev.name hk.1.norm.updRev.name (bOf j) (EOf j) j.pods)
      (tgtOf j.view hk.1.norm.curRev.name hk.1.norm.updRev.name (bOf j) (EOf j) j.pods) := by
  obtain ⟨hs, hpar, hroll, hru⟩ := hk
  have hn := hs.norm
  have hctx := hs.ctx
  have hb0 := bOf_nonneg hn
  have hE := EOf_nonneg hn
  have hvac : ∀ o, inRange (bOf j) (EOf j) o = true → (∀ c ∈ j.pods, c.pod.ord ≠ o) →
      LEvent j (actsA j.view hn.curRev.name hn.updRev.name (bOf j) (EOf j) j.pods)
        (tgtOf j.view hn.curRev.name hn.updRev.name (bOf j) (EOf j) j.pods) :=
    fun o hr hnone => Or.inl ⟨o, _, (parA_create_iff hctx).2 ⟨hr, rfl, Or.inl hnone⟩⟩
  have hfsE : ∀ c ∈ j.pods, inRange (bOf j) (EOf j) c.pod.ord = true → c.pod.fs = true →
      LEvent j (actsA j.view hn.curRev.name hn.updRev.name (bOf j) (EOf j) j.pods)
        (tgtOf j.view hn.curRev.name hn.updRev.name (bOf j) (EOf j) j.pods) :=
    fun c hcm hr hfs => Or.inr (Or.inl ⟨c, hcm, (parA_del_iff hctx hb0 hE hcm).2 (Or.inl ⟨hr, hfs⟩)⟩)
  rcases muL_pos_cases hs hpos with ⟨c, hcm, hr⟩ | ⟨o, hr, hnone⟩ | ⟨c, hcm, hr, hfs⟩ | ⟨c, hcm, hr, hfs, hid⟩ |
      ⟨c, hcm, hr, hfs, hrev⟩
  · exact Or.inr (Or.inl ⟨c, hcm, (parA_del_iff hctx hb0 hE hcm).2 (Or.inr hr)⟩)
  · exact hvac o hr hnone
  · exact hfsE c hcm hr hfs
  · exact Or.inr (Or.inr (Or.inl ⟨c, hcm, hr, hfs, hid, parA_update_mem hctx hcm hr hfs hid⟩))
  · by_cases hall : ∀ o, inRange (bOf j) (EOf j) o = true → ∃ c ∈ j.pods, c.pod.ord = o ∧ c.pod.fs = false
    · right; right; right
      have hlive : ∀ ip ∈ repsOf j.view hn.curRev.name hn.updRev.name (bOf j) (EOf j) (j.pods.map (·.pod)), ip.2.fs = false := by
        intro ip hip
        obtain ⟨hr', hq0⟩ := mem_repsOf.1 hip
        obtain ⟨c', hc', hco', hfs'⟩ := hall ip.1 hr'
        have hsl := hctx.slot_of_mem hc' (by rw [hco']; exact hr')
        rw [hco'] at hsl
        rw [hsl] at hq0
        simp only [Option.getD_some] at hq0
        rw [hq0]; exact hfs'
      unfold tgtOf
      rw [repNew_id_of_live hlive]
      exact tgt_isSome hs hroll hru hall hcm hr hrev
    · push_neg at hall
      obtain ⟨o, hro, hbad⟩ := hall
      by_cases hat : ∃ c ∈ j.pods, c.pod.ord = o
      · obtain ⟨c', hc', hco'⟩ := hat
        have := hbad c' hc' hco'
        exact hfsE c' hc' (by rw [hco']; exact hro) (by simpa using this)
      · exact hvac o hro (fun c hcm hco => hat ⟨c, hcm, hco⟩)

theorem lpar_next (hk : LParK h j) : LParK h (nextW h j) := by
  have hp := (lpar_pol hk).pol
  have hview := nextW_view hk.1 hp
  exact ⟨nextW_ns hk.1 hp, by rw [hview]; exact hk.2.1, by rw [hview]; exact hk.2.2.1, by rw [hview]; exact hk.2.2.2⟩

end

end Asts.C02p
